import Got.Lemmas.SortBasic
/-
Index bounds of every function of the sort model, for an ARBITRARY less function:
`Steps lo hi s (f … s)` = every Less/Swap call of `f` has both indices in `[lo,hi)`.
-/
namespace Got.Lemmas.Sort
open Got.Model.Sort

variable {K V : Type} (less : LessFn K V)

theorem insInner_steps (a j : Nat) (s : St K V) : Steps a (j + 1) s (insInner less a j s) := by
  fun_induction insInner less a j s with
  | case1 s => exact Steps.refl _
  | case2 j s h r s1 hr ih =>
    refine Steps.trans ?_ (ih.mono (Nat.le_refl _) (by omega))
    exact (Steps.note1 s (j + 1) j r (by unfold InR; omega)).trans (Steps.swap1 _ _ _ (by unfold InR; omega))
  | case3 j s h r s1 hr => exact Steps.note1 s (j + 1) j r (by unfold InR; omega)
  | case4 j s h => exact Steps.refl _

theorem insOuter_steps (a b i : Nat) (s : St K V) : Steps a b s (insOuter less a b i s) := by
  fun_induction insOuter less a b i s with
  | case1 i s h ih => exact ((insInner_steps less a i s).mono (Nat.le_refl _) (by omega)).trans ih
  | case2 i s h => exact Steps.refl _

theorem insertionSort_steps (a b : Nat) (s : St K V) : Steps a b s (insertionSort less a b s) :=
  insOuter_steps less a b (a + 1) s

theorem pickChild_steps (hi first child : Nat) (s : St K V) :
    Steps first (first + hi) s (pickChild less hi first child s).2 := by
  unfold pickChild
  split
  · exact Steps.note1 _ _ _ _ (by unfold InR; omega)
  · exact Steps.refl _

theorem siftDown_steps (hi first root : Nat) (s : St K V) :
    Steps first (first + hi) s (siftDown less hi first root s) := by
  fun_induction siftDown less hi first root s with
  | case1 root s child h => exact Steps.refl _
  | case2 root s child h pc r s1 hr =>
    have hp : child ≤ pc.1 ∧ pc.1 < hi ∧ pc.1 ≤ child + 1 := pickChild_fst less hi first child s (by omega)
    exact (pickChild_steps less hi first child s).trans (Steps.note1 _ _ _ _ (by unfold InR; omega))
  | case3 root s child h pc r s1 hr ih =>
    have hp : child ≤ pc.1 ∧ pc.1 < hi ∧ pc.1 ≤ child + 1 := pickChild_fst less hi first child s (by omega)
    refine Steps.trans ?_ ih
    exact ((pickChild_steps less hi first child s).trans (Steps.note1 _ _ _ _ (by unfold InR; omega))).trans
      (Steps.swap1 _ _ _ (by unfold InR; omega))

theorem heapBuild_steps (hi first i : Nat) (s : St K V) :
    Steps first (first + hi) s (heapBuild less hi first i s) := by
  fun_induction heapBuild less hi first i s with
  | case1 s => exact siftDown_steps less hi first 0 s
  | case2 i s ih => exact (siftDown_steps less hi first (i + 1) s).trans ih

theorem heapPop_steps (first i : Nat) (s : St K V) :
    Steps first (first + i) s (heapPop less first i s) := by
  fun_induction heapPop less first i s with
  | case1 s => exact Steps.refl _
  | case2 i s ih =>
    refine Steps.trans ?_ (ih.mono (Nat.le_refl _) (by omega))
    exact (Steps.swap1 s first (first + i) (by unfold InR; omega)).trans
      ((siftDown_steps less i first 0 _).mono (Nat.le_refl _) (by omega))

theorem heapSort_steps (a b : Nat) (s : St K V) (hab : a ≤ b) : Steps a b s (heapSort less a b s) := by
  unfold heapSort
  have e : a + (b - a) = b := by omega
  have h1 := heapBuild_steps less (b - a) a ((b - a - 1) / 2) s
  have h2 := heapPop_steps less a (b - a) (heapBuild less (b - a) a ((b - a - 1) / 2) s)
  rw [e] at h1 h2
  exact h1.trans h2

theorem condSwap_steps (lo hi i j : Nat) (s : St K V) (h : InR lo hi i j) : Steps lo hi s (condSwap less i j s) := by
  unfold condSwap
  dsimp only
  split
  · exact (Steps.note1 _ _ _ _ h).trans (Steps.swap1 _ _ _ h)
  · exact Steps.note1 _ _ _ _ h

theorem medianOfThree_steps (lo hi m1 m0 m2 : Nat) (s : St K V)
    (h1 : lo ≤ m1 ∧ m1 < hi) (h0 : lo ≤ m0 ∧ m0 < hi) (h2 : lo ≤ m2 ∧ m2 < hi) :
    Steps lo hi s (medianOfThree less m1 m0 m2 s) := by
  have r10 : InR lo hi m1 m0 := by unfold InR; omega
  have r21 : InR lo hi m2 m1 := by unfold InR; omega
  unfold medianOfThree
  dsimp only
  refine Steps.trans (condSwap_steps less lo hi m1 m0 s r10) ?_
  split
  · exact ((Steps.note1 _ _ _ _ r21).trans (Steps.swap1 _ _ _ r21)).trans (condSwap_steps less lo hi m1 m0 _ r10)
  · exact Steps.note1 _ _ _ _ r21

/-! ### doPivot -/

theorem scanUpLt_steps (lo hi pivot c a : Nat) (s : St K V) (hp : lo ≤ pivot ∧ pivot < hi) (ha : lo ≤ a) (hc : c ≤ hi) :
    Steps lo hi s (scanUpLt less pivot c a s).2 := by
  fun_induction scanUpLt less pivot c a s with
  | case1 a s h r s1 hr ih =>
    exact (Steps.note1 _ _ _ _ (by unfold InR; omega)).trans (ih (by omega))
  | case2 a s h r s1 hr => exact Steps.note1 _ _ _ _ (by unfold InR; omega)
  | case3 a s h => exact Steps.refl _

theorem scanUpNotGt_steps (lo hi pivot c b : Nat) (s : St K V) (hp : lo ≤ pivot ∧ pivot < hi) (hb : lo ≤ b) (hc : c ≤ hi) :
    Steps lo hi s (scanUpNotGt less pivot c b s).2 := by
  fun_induction scanUpNotGt less pivot c b s with
  | case1 b s h r s1 hr ih =>
    exact (Steps.note1 _ _ _ _ (by unfold InR; omega)).trans (ih (by omega))
  | case2 b s h r s1 hr => exact Steps.note1 _ _ _ _ (by unfold InR; omega)
  | case3 b s h => exact Steps.refl _

theorem scanDownGt_steps (lo hi pivot b c : Nat) (s : St K V) (hp : lo ≤ pivot ∧ pivot < hi) (hb : lo ≤ b) (hc : c ≤ hi) :
    Steps lo hi s (scanDownGt less pivot b c s).2 := by
  fun_induction scanDownGt less pivot b c s with
  | case1 s => exact Steps.refl _
  | case2 c s h r s1 hr ih =>
    exact (Steps.note1 _ _ _ _ (by unfold InR; omega)).trans (ih (by omega))
  | case3 c s h r s1 hr => exact Steps.note1 _ _ _ _ (by unfold InR; omega)
  | case4 c s h => exact Steps.refl _

theorem scanDownNotLt_steps (lo hi pivot a b : Nat) (s : St K V) (hp : lo ≤ pivot ∧ pivot < hi) (ha : lo ≤ a) (hb : b ≤ hi) :
    Steps lo hi s (scanDownNotLt less pivot a b s).2 := by
  fun_induction scanDownNotLt less pivot a b s with
  | case1 s => exact Steps.refl _
  | case2 b s h r s1 hr ih =>
    exact (Steps.note1 _ _ _ _ (by unfold InR; omega)).trans (ih (by omega))
  | case3 b s h r s1 hr => exact Steps.note1 _ _ _ _ (by unfold InR; omega)
  | case4 b s h => exact Steps.refl _

/-- index facts of the main partition loop, for any less -/
theorem partLoop_bounds (pivot b c : Nat) (s : St K V) (hbc : b ≤ c + 1) :
    b ≤ (partLoop less pivot b c s).1 ∧ (partLoop less pivot b c s).2.1 ≤ c ∧
    (partLoop less pivot b c s).2.1 ≤ (partLoop less pivot b c s).1 ∧
    (partLoop less pivot b c s).1 ≤ (partLoop less pivot b c s).2.1 + 1 := by
  fun_induction partLoop less pivot b c s with
  | case1 b c s rb rc h =>
    have h1 : b ≤ rb.1 ∧ (rb.1 ≤ c ∨ rb.1 = b) := scanUpNotGt_fst less pivot c b s
    have h2 : rc.1 ≤ c ∧ (rb.1 ≤ rc.1 ∨ rc.1 = c) := scanDownGt_fst less pivot rb.1 c rb.2
    dsimp only
    omega
  | case2 b c s rb rc h ih =>
    have h1 : b ≤ rb.1 ∧ (rb.1 ≤ c ∨ rb.1 = b) := scanUpNotGt_fst less pivot c b s
    have h2 : rc.1 ≤ c ∧ (rb.1 ≤ rc.1 ∨ rc.1 = c) := scanDownGt_fst less pivot rb.1 c rb.2
    have := ih (by omega)
    omega

theorem partLoop_steps (lo hi pivot b c : Nat) (s : St K V) (hp : lo ≤ pivot ∧ pivot < hi) (hb : lo ≤ b) (hc : c ≤ hi) :
    Steps lo hi s (partLoop less pivot b c s).2.2 := by
  fun_induction partLoop less pivot b c s with
  | case1 b c s rb rc h =>
    have h1 : b ≤ rb.1 ∧ (rb.1 ≤ c ∨ rb.1 = b) := scanUpNotGt_fst less pivot c b s
    exact (scanUpNotGt_steps less lo hi pivot c b s hp hb hc).trans
      (scanDownGt_steps less lo hi pivot rb.1 c rb.2 hp (by omega) hc)
  | case2 b c s rb rc h ih =>
    have h1 : b ≤ rb.1 ∧ (rb.1 ≤ c ∨ rb.1 = b) := scanUpNotGt_fst less pivot c b s
    have h2 : rc.1 ≤ c ∧ (rb.1 ≤ rc.1 ∨ rc.1 = c) := scanDownGt_fst less pivot rb.1 c rb.2
    refine Steps.trans ?_ (ih (by omega) (by omega))
    exact ((scanUpNotGt_steps less lo hi pivot c b s hp hb hc).trans
      (scanDownGt_steps less lo hi pivot rb.1 c rb.2 hp (by omega) hc)).trans
      (Steps.swap1 _ _ _ (by unfold InR; omega))

theorem protectLoop_bounds (pivot a b : Nat) (s : St K V) :
    (protectLoop less pivot a b s).2.1 ≤ b ∧
    (a ≤ (protectLoop less pivot a b s).2.1 ∨ (protectLoop less pivot a b s).2.1 = b) := by
  fun_induction protectLoop less pivot a b s with
  | case1 a b s rb ra h =>
    have h1 : rb.1 ≤ b ∧ (a ≤ rb.1 ∨ rb.1 = b) := scanDownNotLt_fst less pivot a b s
    dsimp only
    omega
  | case2 a b s rb ra h ih =>
    have h1 : rb.1 ≤ b ∧ (a ≤ rb.1 ∨ rb.1 = b) := scanDownNotLt_fst less pivot a b s
    have h2 : a ≤ ra.1 ∧ (ra.1 ≤ rb.1 ∨ ra.1 = a) := scanUpLt_fst less pivot rb.1 a rb.2
    omega

theorem protectLoop_steps (lo hi pivot a b : Nat) (s : St K V) (hp : lo ≤ pivot ∧ pivot < hi) (ha : lo ≤ a) (hb : b ≤ hi) :
    Steps lo hi s (protectLoop less pivot a b s).2.2 := by
  fun_induction protectLoop less pivot a b s with
  | case1 a b s rb ra h =>
    have h1 : rb.1 ≤ b ∧ (a ≤ rb.1 ∨ rb.1 = b) := scanDownNotLt_fst less pivot a b s
    exact (scanDownNotLt_steps less lo hi pivot a b s hp ha hb).trans
      (scanUpLt_steps less lo hi pivot rb.1 a rb.2 hp ha (by omega))
  | case2 a b s rb ra h ih =>
    have h1 : rb.1 ≤ b ∧ (a ≤ rb.1 ∨ rb.1 = b) := scanDownNotLt_fst less pivot a b s
    have h2 : a ≤ ra.1 ∧ (ra.1 ≤ rb.1 ∨ ra.1 = a) := scanUpLt_fst less pivot rb.1 a rb.2
    refine Steps.trans ?_ (ih (by omega) (by omega))
    exact ((scanDownNotLt_steps less lo hi pivot a b s hp ha hb).trans
      (scanUpLt_steps less lo hi pivot rb.1 a rb.2 hp ha (by omega))).trans
      (Steps.swap1 _ _ _ (by unfold InR; omega))

macro "steps_chain" : tactic =>
  `(tactic| (repeat (first | exact Steps.refl _ | apply Steps.note | apply Steps.swap)))

theorem dupProbe1_spec (lo hi pivot c : Nat) (s : St K V) (hp : lo ≤ pivot ∧ pivot < hi) (hc : lo ≤ c ∧ c < hi) :
    Steps lo hi s (dupProbe1 less pivot hi c s).2.2 ∧
    c ≤ (dupProbe1 less pivot hi c s).1 ∧ (dupProbe1 less pivot hi c s).1 ≤ c + 1 := by
  unfold dupProbe1
  dsimp only
  split
  · refine ⟨?_, by dsimp only; omega, by dsimp only; omega⟩
    steps_chain
    all_goals (unfold InR; omega)
  · refine ⟨?_, by dsimp only; omega, by dsimp only; omega⟩
    steps_chain
    all_goals (unfold InR; omega)

theorem dupProbe2_spec (lo hi pivot b dups : Nat) (s : St K V) (hp : lo ≤ pivot ∧ pivot < hi) (hb : lo + 1 ≤ b ∧ b ≤ hi) :
    Steps lo hi s (dupProbe2 less pivot b dups s).2.2 ∧
    b ≤ (dupProbe2 less pivot b dups s).1 + 1 ∧ (dupProbe2 less pivot b dups s).1 ≤ b := by
  unfold dupProbe2
  dsimp only
  split
  · refine ⟨?_, by dsimp only; omega, by dsimp only; omega⟩
    steps_chain
    all_goals (unfold InR; omega)
  · refine ⟨?_, by dsimp only; omega, by dsimp only; omega⟩
    steps_chain
    all_goals (unfold InR; omega)

theorem dupProbe3_spec (lo hi pivot m b dups : Nat) (s : St K V) (hp : lo ≤ pivot ∧ pivot < hi) (hm : lo ≤ m ∧ m < hi)
    (hb : lo + 1 ≤ b ∧ b ≤ hi) :
    Steps lo hi s (dupProbe3 less pivot m b dups s).2.2 ∧
    b ≤ (dupProbe3 less pivot m b dups s).1 + 1 ∧ (dupProbe3 less pivot m b dups s).1 ≤ b := by
  unfold dupProbe3
  dsimp only
  split
  · refine ⟨?_, by dsimp only; omega, by dsimp only; omega⟩
    steps_chain
    all_goals (unfold InR; omega)
  · refine ⟨?_, by dsimp only; omega, by dsimp only; omega⟩
    steps_chain
    all_goals (unfold InR; omega)

theorem dupProbe_spec (lo hi pivot m b c : Nat) (s : St K V) (hp : lo ≤ pivot ∧ pivot < hi) (hm : lo ≤ m ∧ m < hi)
    (hb : lo + 3 ≤ b ∧ b ≤ hi) (hc : lo ≤ c ∧ c < hi) :
    Steps lo hi s (dupProbe less pivot hi m b c s).2.2.2 ∧
    b ≤ (dupProbe less pivot hi m b c s).1 + 2 ∧ (dupProbe less pivot hi m b c s).1 ≤ b ∧
    c ≤ (dupProbe less pivot hi m b c s).2.1 ∧ (dupProbe less pivot hi m b c s).2.1 ≤ c + 1 := by
  unfold dupProbe
  dsimp only
  have h1 := dupProbe1_spec less lo hi pivot c s hp hc
  generalize dupProbe1 less pivot hi c s = p1 at *
  have h2 := dupProbe2_spec less lo hi pivot b p1.2.1 p1.2.2 hp (by omega)
  generalize dupProbe2 less pivot b p1.2.1 p1.2.2 = p2 at *
  have h3 := dupProbe3_spec less lo hi pivot m p2.1 p2.2.1 p2.2.2 hp hm (by omega)
  generalize dupProbe3 less pivot m p2.1 p2.2.1 p2.2.2 = p3 at *
  exact ⟨(h1.1.trans h2.1).trans h3.1, by omega, by omega, by omega, by omega⟩

theorem choosePivot_steps (lo hi : Nat) (s : St K V) (h : lo + 3 ≤ hi) :
    Steps lo hi s (choosePivot less lo hi s) := by
  unfold choosePivot
  dsimp only
  refine Steps.trans ?_ (medianOfThree_steps less lo hi _ _ _ _ (by omega) (by omega) (by omega))
  split
  · rw [divNinther_eq]
    refine ((medianOfThree_steps less lo hi _ _ _ _ (by omega) (by omega) (by omega)).trans
      (medianOfThree_steps less lo hi _ _ _ _ (by omega) (by omega) (by omega))).trans
      (medianOfThree_steps less lo hi _ _ _ _ (by omega) (by omega) (by omega))
  · exact Steps.refl _

theorem partitionPhase_spec (lo hi : Nat) (s : St K V) (h : lo + 3 ≤ hi) :
    Steps lo hi s (partitionPhase less lo hi s).2.2.2 ∧
    lo + 1 ≤ (partitionPhase less lo hi s).1 ∧ (partitionPhase less lo hi s).1 ≤ (partitionPhase less lo hi s).2.1 ∧
    (partitionPhase less lo hi s).2.2.1 ≤ hi - 1 ∧
    (partitionPhase less lo hi s).2.2.1 ≤ (partitionPhase less lo hi s).2.1 ∧
    (partitionPhase less lo hi s).2.1 ≤ (partitionPhase less lo hi s).2.2.1 + 1 := by
  unfold partitionPhase
  dsimp only
  generalize hs1 : choosePivot less lo hi s = s1
  have st1 : Steps lo hi s s1 := hs1 ▸ choosePivot_steps less lo hi s h
  have ha := scanUpLt_fst less lo (hi - 1) (lo + 1) s1
  have st2 := scanUpLt_steps less lo hi lo (hi - 1) (lo + 1) s1 (by omega) (by omega) (by omega)
  generalize scanUpLt less lo (hi - 1) (lo + 1) s1 = ra at *
  have hb := partLoop_bounds less lo ra.1 (hi - 1) ra.2 (by omega)
  have st3 := partLoop_steps less lo hi lo ra.1 (hi - 1) ra.2 (by omega) (by omega) (by omega)
  generalize partLoop less lo ra.1 (hi - 1) ra.2 = pl at *
  exact ⟨(st1.trans st2).trans st3, by omega, by omega, by omega, by omega, by omega⟩

theorem dupPhase_spec (lo hi b c : Nat) (s : St K V) (h : lo + 3 ≤ hi) (hb : lo + 1 ≤ b) (hc : c ≤ hi - 1)
    (hcb : c ≤ b) (hbc : b ≤ c + 1) :
    Steps lo hi s (dupPhase less lo hi b c s).2.2.2 ∧
    lo + 1 ≤ (dupPhase less lo hi b c s).1 ∧ (dupPhase less lo hi b c s).1 ≤ b ∧
    c ≤ (dupPhase less lo hi b c s).2.1 ∧ (dupPhase less lo hi b c s).2.1 ≤ hi := by
  unfold dupPhase
  dsimp only
  split
  · rename_i hcond
    simp only [Bool.and_eq_true, Bool.not_eq_eq_eq_not, Bool.not_true, decide_eq_false_iff_not, decide_eq_true_eq,
      thrProtect_eq, divDups_eq] at hcond
    have := dupProbe_spec less lo hi lo ((lo + hi) / 2) b c s (by omega) (by omega) (by omega) (by omega)
    dsimp only
    exact ⟨this.1, by omega, by omega, by omega, by omega⟩
  · dsimp only
    exact ⟨Steps.refl _, by omega, by omega, by omega, by omega⟩

/-- doPivot for any less: all indices in `[lo,hi)`, and the returned bounds are inside the range -/
theorem doPivot_steps (lo hi : Nat) (s : St K V) (h : lo + 3 ≤ hi) :
    Steps lo hi s (doPivot less lo hi s).2.2 ∧
    lo ≤ (doPivot less lo hi s).1 ∧ (doPivot less lo hi s).1 < hi ∧
    lo ≤ (doPivot less lo hi s).2.1 ∧ (doPivot less lo hi s).2.1 ≤ hi := by
  unfold doPivot
  dsimp only
  have hp := partitionPhase_spec less lo hi s h
  generalize partitionPhase less lo hi s = p at *
  obtain ⟨st1, p1, p2, p3, p4, p5⟩ := hp
  have hd := dupPhase_spec less lo hi p.2.1 p.2.2.1 p.2.2.2 h (by omega) p3 p4 p5
  generalize dupPhase less lo hi p.2.1 p.2.2.1 p.2.2.2 = d at *
  obtain ⟨st2, d1, d2, d3, d4⟩ := hd
  split
  · have hb := protectLoop_bounds less lo p.1 d.1 d.2.2.2
    have st3 := protectLoop_steps less lo hi lo p.1 d.1 d.2.2.2 (by omega) (by omega) (by omega)
    generalize protectLoop less lo p.1 d.1 d.2.2.2 = pr at *
    refine ⟨((st1.trans st2).trans st3).trans (Steps.swap1 _ _ _ (by unfold InR; omega)), by omega, by omega, by omega, by omega⟩
  · dsimp only
    refine ⟨(st1.trans st2).trans (Steps.swap1 _ _ _ (by unfold InR; omega)), by omega, by omega, by omega, by omega⟩

/-! ### quickSort, SliceBy -/

theorem gapPass_steps (a b i : Nat) (s : St K V) (hi : a + 6 ≤ i) : Steps a b s (gapPass less b i s) := by
  fun_induction gapPass less b i s with
  | case1 i s h r s1 ih =>
    refine Steps.trans ?_ (ih (by omega))
    have hr1 : InR a b i (i - gapLess) := by rw [gapLess_eq]; unfold InR; omega
    have hr2 : InR a b i (i - gapSwap) := by rw [gapSwap_eq]; unfold InR; omega
    split
    · exact (Steps.note1 _ _ _ _ hr1).trans (Steps.swap1 _ _ _ hr2)
    · exact Steps.note1 _ _ _ _ hr1
  | case2 i s h => exact Steps.refl _

theorem smallSort_steps (a b : Nat) (s : St K V) : Steps a b s (smallSort less a b s) := by
  unfold smallSort
  split
  · exact (gapPass_steps less a b _ s (by rw [gapInit_eq]; omega)).trans (insertionSort_steps less a b _)
  · exact Steps.refl _

theorem quickSort_steps (a b d : Nat) (s : St K V) : Steps a b s (quickSort less a b d s) := by
  induction d generalizing a b s with
  | zero =>
    rw [quickSort]
    split
    · exact heapSort_steps less a b s (by omega)
    · exact smallSort_steps less a b s
  | succ d ih =>
    rw [quickSort]
    split
    · rename_i hgt
      have hthr := thrInsertion_ge
      have hp := doPivot_steps less a b s (by omega)
      dsimp only
      generalize doPivot less a b s = p at *
      obtain ⟨st, h1, h2, h3, h4⟩ := hp
      split
      · exact (st.trans ((ih a p.1 p.2.2).mono (Nat.le_refl _) (by omega))).trans ((ih p.2.1 b _).mono h3 (Nat.le_refl _))
      · exact (st.trans ((ih p.2.1 b p.2.2).mono h3 (Nat.le_refl _))).trans ((ih a p.1 _).mono (Nat.le_refl _) (by omega))
    · exact smallSort_steps less a b s

theorem sliceBy_steps (keys : Array K) (vals : Array V) :
    Steps 0 (min keys.size vals.size) ⟨keys, vals, []⟩ (sliceBy less keys vals) := by
  unfold sliceBy
  dsimp only
  split
  · exact Steps.refl _
  · exact quickSort_steps less 0 _ _ _

end Got.Lemmas.Sort
