import Got.Model.Delayed
/-
The heap lemma for the transcription of container/heap in Got.Model.DelayedHeap:
under `lt a b ↔ key a < key b` (a total preorder on keys), Push and Pop preserve the heap invariant
(every element's key is ≥ its parent's), keep the multiset of elements (Pop removes the old root) and the
root is a minimal element.
-/
namespace Got.Model.DelayedHeap

variable {α : Type}

/-- key at index k (0 outside the array; only used inside bounds) -/
def K (key : α → Int) (a : Array α) (k : Nat) : Int := if h : k < a.size then key a[k] else 0

theorem K_eq (key : α → Int) (a : Array α) (k : Nat) (h : k < a.size) : K key a k = key a[k] := by
  simp [K, h]

theorem K_swap (key : α → Int) (a : Array α) (i j k : Nat) (hi : i < a.size) (hj : j < a.size) :
    K key (a.swapIfInBounds i j) k = if k = i then K key a j else if k = j then K key a i else K key a k := by
  unfold K
  simp only [Array.size_swapIfInBounds]
  by_cases hk : k < a.size
  · simp only [hk, dite_true, Array.getElem_swapIfInBounds, hi, hj, and_true]
    by_cases h1 : k = i
    · simp [h1]
    · by_cases h2 : k = j
      · subst h2; simp [h1]
      · simp [h1, h2]
  · have h1 : k ≠ i := by omega
    have h2 : k ≠ j := by omega
    simp [hk, h1, h2]

/-- heap invariant on the prefix of length n: every non-root element is ≥ its parent -/
def HeapN (key : α → Int) (a : Array α) (n : Nat) : Prop :=
  ∀ k, 0 < k → k < n → K key a ((k - 1) / 2) ≤ K key a k

theorem top_min (key : α → Int) (a : Array α) (n : Nat) (h : HeapN key a n) :
    ∀ k, k < n → K key a 0 ≤ K key a k := by
  intro k
  induction k using Nat.strongRecOn with
  | _ k ih =>
    intro hk
    by_cases h0 : k = 0
    · subst h0; exact Int.le_refl _
    · have hp := h k (by omega) hk
      have := ih ((k - 1) / 2) (by omega) (by omega)
      omega

/-! ### up -/

theorem up_size (lt : α → α → Bool) (a : Array α) (j : Nat) : (up lt a j).size = a.size := by
  induction j using Nat.strongRecOn generalizing a with
  | _ j ih =>
    unfold up
    split
    · split
      · rfl
      · split
        · rw [ih _ (by omega)]; simp
        · rfl
    · rfl

theorem up_perm (lt : α → α → Bool) (a : Array α) (j : Nat) : (up lt a j).Perm a := by
  induction j using Nat.strongRecOn generalizing a with
  | _ j ih =>
    unfold up
    split
    · rename_i hj
      split
      · exact Array.Perm.refl _
      · split
        · refine (ih _ (by omega) _).trans ?_
          rw [Array.swapIfInBounds_def]
          simp only [show (j - 1) / 2 < a.size by omega, hj, dite_true]
          exact Array.swap_perm _ _
        · exact Array.Perm.refl _
    · exact Array.Perm.refl _

/-- the invariant of `up` at position j: the heap condition holds everywhere except between j and its parent,
    and j's children are ≥ j's parent -/
def UpInv (key : α → Int) (a : Array α) (j : Nat) : Prop :=
  (∀ k, 0 < k → k < a.size → k ≠ j → K key a ((k - 1) / 2) ≤ K key a k) ∧
  (∀ k, 0 < k → k < a.size → (k - 1) / 2 = j → 0 < j → K key a ((j - 1) / 2) ≤ K key a k)

theorem up_heap (key : α → Int) (lt : α → α → Bool) (hlt : ∀ x y, lt x y = true ↔ key x < key y)
    (a : Array α) (j : Nat) (hj : j < a.size) (h : UpInv key a j) : HeapN key (up lt a j) a.size := by
  induction j using Nat.strongRecOn generalizing a with
  | _ j ih =>
    unfold up
    simp only [hj, dite_true]
    split
    · -- j = 0
      rename_i h0
      intro k hk0 hk
      exact h.1 k hk0 hk (by omega)
    · rename_i h0
      have hi : (j - 1) / 2 < a.size := by omega
      split
      · rename_i hl
        rw [hlt, ← K_eq key a j hj, ← K_eq key a _ hi] at hl
        have hsz : (a.swapIfInBounds ((j - 1) / 2) j).size = a.size := by simp
        rw [← hsz]
        apply ih ((j - 1) / 2) (by omega) _ (by rw [hsz]; exact hi)
        constructor
        · intro k hk0 hk hki
          rw [hsz] at hk
          rw [K_swap key a _ _ _ hi hj, K_swap key a _ _ _ hi hj]
          by_cases hkj : k = j
          · subst hkj
            simp only [if_true, if_neg h0, if_neg (show k ≠ (k-1)/2 by omega)]
            omega
          · simp only [if_neg hki, if_neg hkj]
            by_cases hp1 : (k - 1) / 2 = (j - 1) / 2
            · simp only [hp1, if_true]
              have := h.1 k hk0 hk hkj
              rw [hp1] at this; omega
            · by_cases hp2 : (k - 1) / 2 = j
              · simp only [hp2, if_neg (Ne.symm h0), if_true]
                exact h.2 k hk0 hk hp2 (by omega)
              · simp only [if_neg hp1, if_neg hp2]
                exact h.1 k hk0 hk hkj
        · intro k hk0 hk hpk hi0
          rw [hsz] at hk
          rw [K_swap key a _ _ _ hi hj, K_swap key a _ _ _ hi hj]
          have hpi1 : ((j - 1) / 2 - 1) / 2 ≠ (j - 1) / 2 := by omega
          have hpi2 : ((j - 1) / 2 - 1) / 2 ≠ j := by omega
          simp only [if_neg hpi1, if_neg hpi2]
          have hpi := h.1 ((j - 1) / 2) hi0 hi (by omega)
          by_cases hkj : k = j
          · subst hkj
            simp only [if_true, if_neg (show k ≠ (k-1)/2 by omega)]
            exact hpi
          · simp only [if_neg hkj, if_neg (show k ≠ (j-1)/2 by omega)]
            have := h.1 k hk0 hk hkj
            rw [hpk] at this; omega
      · rename_i hl
        have hl' : ¬ key a[j] < key a[(j - 1) / 2] := fun hc => hl ((hlt _ _).2 hc)
        rw [← K_eq key a j hj, ← K_eq key a _ hi] at hl'
        intro k hk0 hk
        by_cases hkj : k = j
        · subst hkj; omega
        · exact h.1 k hk0 hk hkj

/-! ### down -/

theorem down_size (lt : α → α → Bool) (a : Array α) (i n : Nat) : (down lt a i n).size = a.size := by
  induction hm : n - i using Nat.strongRecOn generalizing a i with
  | _ m ih =>
    unfold down
    split
    · rename_i h1
      split
      · have hc := child_lt lt a i n h1
        rw [ih _ (by omega) _ _ rfl]; simp
      · rfl
    · rfl

theorem down_perm (lt : α → α → Bool) (a : Array α) (i n : Nat) : (down lt a i n).Perm a := by
  induction hm : n - i using Nat.strongRecOn generalizing a i with
  | _ m ih =>
    unfold down
    split
    · rename_i h1
      have hc := child_lt lt a i n h1
      split
      · refine (ih _ (by omega) _ _ rfl).trans ?_
        rw [Array.swapIfInBounds_def]
        simp only [show i < a.size by omega, show child lt a i n h1 < a.size by omega, dite_true]
        exact Array.swap_perm _ _
      · exact Array.Perm.refl _
    · exact Array.Perm.refl _

/-- `down` on the prefix of length n does not touch the elements at index ≥ n -/
theorem down_above (lt : α → α → Bool) (a : Array α) (i n : Nat) (k : Nat) (hk : n ≤ k) :
    (down lt a i n)[k]? = a[k]? := by
  induction hm : n - i using Nat.strongRecOn generalizing a i with
  | _ m ih =>
    unfold down
    split
    · rename_i h1
      have hc := child_lt lt a i n h1
      split
      · rw [ih _ (by omega) _ _ rfl]
        by_cases hks : k < a.size
        · rw [Array.getElem?_eq_getElem (by simpa using hks), Array.getElem?_eq_getElem hks,
            Array.getElem_swapIfInBounds]
          have h1' : ¬ k = i := by omega
          have h2' : ¬ k = child lt a i n h1 := by omega
          simp [h1', h2']
        · rw [Array.getElem?_eq_none (by simpa using hks), Array.getElem?_eq_none (by omega)]
      · rfl
    · rfl

/-- the chosen child is the smaller one -/
theorem child_min (key : α → Int) (lt : α → α → Bool) (hlt : ∀ x y, lt x y = true ↔ key x < key y)
    (a : Array α) (i n : Nat) (h : 2 * i + 1 < n ∧ n ≤ a.size) :
    ∀ k, 0 < k → k < n → (k - 1) / 2 = i → K key a (child lt a i n h) ≤ K key a k := by
  intro k hk0 hk hp
  have hk' : k = 2 * i + 1 ∨ k = 2 * i + 2 := by omega
  unfold child
  split
  · rename_i h2
    split
    · rename_i hl
      rw [hlt, ← K_eq key a _ (by omega), ← K_eq key a _ (by omega)] at hl
      rcases hk' with hk' | hk' <;> subst hk' <;> omega
    · rename_i hl
      have hl' : ¬ key (a[2 * i + 2]'(by omega)) < key (a[2 * i + 1]'(by omega)) := fun hc => hl ((hlt _ _).2 hc)
      rw [← K_eq key a _ (by omega), ← K_eq key a _ (by omega)] at hl'
      rcases hk' with hk' | hk' <;> subst hk' <;> omega
  · rename_i h2
    have : k = 2 * i + 1 := by omega
    subst this; exact Int.le_refl _

/-- the invariant of `down` at position i on the prefix n: the heap condition holds for every pair whose parent is
    not i, and i's children are ≥ i's parent -/
def DownInv (key : α → Int) (a : Array α) (i n : Nat) : Prop :=
  (∀ k, 0 < k → k < n → (k - 1) / 2 ≠ i → K key a ((k - 1) / 2) ≤ K key a k) ∧
  (∀ k, 0 < k → k < n → (k - 1) / 2 = i → 0 < i → K key a ((i - 1) / 2) ≤ K key a k)

theorem down_heap (key : α → Int) (lt : α → α → Bool) (hlt : ∀ x y, lt x y = true ↔ key x < key y)
    (a : Array α) (i n : Nat) (hn : n ≤ a.size) (h : DownInv key a i n) : HeapN key (down lt a i n) n := by
  induction hm : n - i using Nat.strongRecOn generalizing a i with
  | _ m ih =>
    unfold down
    split
    · rename_i h1
      have hc := child_lt lt a i n h1
      have hcm := child_min key lt hlt a i n h1
      have hia : i < a.size := by omega
      have hja : child lt a i n h1 < a.size := by omega
      split
      · rename_i hl
        rw [hlt, ← K_eq key a _ hja, ← K_eq key a _ hia] at hl
        generalize hjdef : child lt a i n h1 = j at *
        have hsz : (a.swapIfInBounds i j).size = a.size := by simp
        apply ih (n - j) (by omega) _ j (by rw [hsz]; exact hn) _ rfl
        constructor
        · intro k hk0 hk hpj
          rw [K_swap key a _ _ _ hia hja, K_swap key a _ _ _ hia hja]
          by_cases hpi : (k - 1) / 2 = i
          · -- k is a child of i
            simp only [hpi, if_true]
            by_cases hkj : k = j
            · subst hkj
              simp only [if_true, if_neg (show k ≠ i by omega)]
              omega
            · simp only [if_neg hkj, if_neg (show k ≠ i by omega)]
              exact hcm k hk0 hk hpi
          · simp only [if_neg hpi, if_neg hpj]
            have hkj : k ≠ j := by
              intro hkj; subst hkj
              have := child_spec lt a i n h1
              omega
            by_cases hki : k = i
            · subst hki
              simp only [if_true]
              have hjp : (j - 1) / 2 = k := by
                have := child_spec lt a k n h1
                omega
              exact h.2 j (by omega) hc.1 hjp hk0
            · simp only [if_neg hki, if_neg hkj]
              exact h.1 k hk0 hk hpi
        · intro k hk0 hk hpk hj0
          rw [K_swap key a _ _ _ hia hja, K_swap key a _ _ _ hia hja]
          have hjp : (j - 1) / 2 = i := by
            have := child_spec lt a i n h1
            omega
          simp only [hjp, if_true, if_neg (show k ≠ i by omega), if_neg (show k ≠ j by omega)]
          have := h.1 k hk0 hk (by omega)
          rw [hpk] at this
          exact this
      · rename_i hl
        have hl' : ¬ key a[child lt a i n h1] < key a[i] := fun hc' => hl ((hlt _ _).2 hc')
        rw [← K_eq key a _ hja, ← K_eq key a _ hia] at hl'
        intro k hk0 hk
        by_cases hpi : (k - 1) / 2 = i
        · rw [hpi]
          have := hcm k hk0 hk hpi
          omega
        · exact h.1 k hk0 hk hpi
    · rename_i h1
      intro k hk0 hk
      exact h.1 k hk0 hk (by omega)

/-! ### Push / Pop -/

theorem push_size (lt : α → α → Bool) (a : Array α) (x : α) : (push lt a x).size = a.size + 1 := by
  unfold push; rw [up_size]; simp

theorem push_perm (lt : α → α → Bool) (a : Array α) (x : α) : (push lt a x).Perm (a.push x) := up_perm _ _ _

theorem K_push_lt (key : α → Int) (a : Array α) (x : α) (k : Nat) (hk : k < a.size) :
    K key (a.push x) k = K key a k := by
  unfold K
  simp only [Array.size_push, show k < a.size + 1 by omega, hk, dite_true, Array.getElem_push_lt hk]

theorem push_heap (key : α → Int) (lt : α → α → Bool) (hlt : ∀ x y, lt x y = true ↔ key x < key y)
    (a : Array α) (x : α) (h : HeapN key a a.size) : HeapN key (push lt a x) (a.size + 1) := by
  unfold push
  have hsz : (a.push x).size = a.size + 1 := by simp
  rw [← hsz]
  apply up_heap key lt hlt (a.push x) a.size (by omega)
  constructor
  · intro k hk0 hk hkn
    rw [hsz] at hk
    rw [K_push_lt key a x _ (by omega), K_push_lt key a x _ (by omega)]
    exact h k hk0 (by omega)
  · intro k hk0 hk hp hn
    rw [hsz] at hk
    omega

theorem pop_size (lt : α → α → Bool) (a : Array α) : (pop lt a).size = a.size - 1 := by
  unfold pop; simp [down_size]

theorem pop_heap (key : α → Int) (lt : α → α → Bool) (hlt : ∀ x y, lt x y = true ↔ key x < key y)
    (a : Array α) (h : HeapN key a a.size) : HeapN key (pop lt a) (a.size - 1) := by
  by_cases h0 : a.size = 0
  · intro k hk0 hk; omega
  · have hn : a.size - 1 < a.size := by omega
    have h00 : 0 < a.size := by omega
    have hsz : (a.swapIfInBounds 0 (a.size - 1)).size = a.size := by simp
    have hd : HeapN key (down lt (a.swapIfInBounds 0 (a.size - 1)) 0 (a.size - 1)) (a.size - 1) := by
      apply down_heap key lt hlt _ 0 (a.size - 1) (by rw [hsz]; omega)
      constructor
      · intro k hk0 hk hp
        rw [K_swap key a _ _ _ h00 hn, K_swap key a _ _ _ h00 hn]
        simp only [if_neg hp, if_neg (show (k - 1) / 2 ≠ a.size - 1 by omega), if_neg (show k ≠ 0 by omega),
          if_neg (show k ≠ a.size - 1 by omega)]
        exact h k hk0 (by omega)
      · intro k hk0 hk hp hi; omega
    intro k hk0 hk
    have hds : (down lt (a.swapIfInBounds 0 (a.size - 1)) 0 (a.size - 1)).size = a.size := by rw [down_size, hsz]
    have e : ∀ k', k' < a.size - 1 → K key (pop lt a) k' = K key (down lt (a.swapIfInBounds 0 (a.size - 1)) 0 (a.size - 1)) k' := by
      intro k' hk'
      unfold K pop
      simp only [Array.size_pop, hds, hk', show k' < a.size by omega, dite_true, Array.getElem_pop]
    rw [e k hk, e _ (by omega)]
    exact hd k hk0 hk

/-- Pop removes exactly the old root -/
theorem pop_perm (lt : α → α → Bool) (a : Array α) (h0 : 0 < a.size) : ((pop lt a).push a[0]).Perm a := by
  have hn : a.size - 1 < a.size := by omega
  have hsz : (a.swapIfInBounds 0 (a.size - 1)).size = a.size := by simp
  have hds : (down lt (a.swapIfInBounds 0 (a.size - 1)) 0 (a.size - 1)).size = a.size := by rw [down_size, hsz]
  have hlast : (down lt (a.swapIfInBounds 0 (a.size - 1)) 0 (a.size - 1))[a.size - 1]'(by omega) = a[0] := by
    have := down_above lt (a.swapIfInBounds 0 (a.size - 1)) 0 (a.size - 1) (a.size - 1) (Nat.le_refl _)
    rw [Array.getElem?_eq_getElem (by omega), Array.getElem?_eq_getElem (by omega)] at this
    injection this with this
    rw [this, Array.getElem_swapIfInBounds]
    by_cases h1 : a.size - 1 = 0
    · simp [h1, h0]
    · simp [h1, h0]
  have hrec : (pop lt a).push a[0] = down lt (a.swapIfInBounds 0 (a.size - 1)) 0 (a.size - 1) := by
    apply Array.ext
    · simp [pop, hds]; omega
    · intro k hk1 hk2
      simp only [pop, Array.size_push, Array.size_pop, hds] at hk1
      by_cases hk : k < a.size - 1
      · rw [Array.getElem_push_lt (by simp [pop, hds]; exact hk)]
        simp [pop]
      · have : k = a.size - 1 := by omega
        subst this
        rw [hlast]
        simp only [pop]
        rw [Array.getElem_push]
        simp [hds]
  rw [hrec]
  refine (down_perm _ _ _ _).trans ?_
  rw [Array.swapIfInBounds_def]
  simp only [h0, hn, dite_true]
  exact Array.swap_perm _ _

end Got.Model.DelayedHeap
