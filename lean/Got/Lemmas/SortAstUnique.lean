import Got.Model.SortUnique
import Got.Model.MiniGoSlice
import Got.Generated.AstSortxUnique
import Got.Lemmas.SortAstBase
/-
Translator tie of C15 (a): the MiniGoSlice terms that tools/srcfacts regenerates from /repo/sortx/unique.go on every run
(Got/Generated/AstSortxUnique.lean: `uniqueInt`, `uniqueString`), interpreted by Got/Model/MiniGoSlice.lean with Go's
index and reslice checks, compute exactly the hand-written model `Got.Model.SortUnique.unique` (returned slice and
backing array; no panic) for every input slice of fewer than 2^62 elements.
-/
set_option linter.unusedSimpArgs false
namespace Got.Lemmas.SortAstUnique
open Got.Model.MiniGoSort (wrap Env)
open Got.Model.MiniGoSlice Got.Model.SortUnique
open Got.Lemmas.SortAst (wrap_eq)

variable {α : Type} [DecidableEq α]

def Runs (p : List Stmt) (env : Env) (s : Sl α) (r : Res α) : Prop :=
  ∃ f0, ∀ f, f0 ≤ f → exec f p env s = some r

theorem Runs.nil {env : Env} {s : Sl α} : Runs [] env s (.cont env s) :=
  ⟨1, fun f hf => by obtain ⟨g, rfl⟩ : ∃ g, f = g + 1 := ⟨f - 1, by omega⟩; rfl⟩

theorem Runs.retSlice {rest : List Stmt} {env : Env} {s : Sl α} : Runs (.retSlice :: rest) env s (.ret s) :=
  ⟨1, fun f hf => by obtain ⟨g, rfl⟩ : ∃ g, f = g + 1 := ⟨f - 1, by omega⟩; rfl⟩

theorem Runs.set {x : Nat} {e : Expr} {rest : List Stmt} {env : Env} {s : Sl α} {r : Res α}
    (h : Runs rest (env.set x (eval env s e)) s r) : Runs (.set x e :: rest) env s r := by
  obtain ⟨f0, h⟩ := h
  refine ⟨f0 + 1, fun f hf => ?_⟩
  obtain ⟨g, rfl⟩ : ∃ g, f = g + 1 := ⟨f - 1, by omega⟩
  simp only [exec]
  exact h g (by omega)

theorem Runs.store {i j : Expr} {rest : List Stmt} {env : Env} {s : Sl α} {r : Res α} {v w : α}
    (hj : s.at? (eval env s j) = some v) (hi : s.at? (eval env s i) = some w)
    (h : Runs rest env { s with arr := s.arr.set! (eval env s i).toNat v } r) : Runs (.store i j :: rest) env s r := by
  obtain ⟨f0, h⟩ := h
  refine ⟨f0 + 1, fun f hf => ?_⟩
  obtain ⟨g, rfl⟩ : ∃ g, f = g + 1 := ⟨f - 1, by omega⟩
  simp only [exec, hj, hi]
  exact h g (by omega)

theorem Runs.reslice {e : Expr} {rest : List Stmt} {env : Env} {s : Sl α} {r : Res α}
    (hb : 0 ≤ eval env s e ∧ eval env s e ≤ (s.arr.size : Int))
    (h : Runs rest env { s with len := (eval env s e).toNat } r) : Runs (.reslice e :: rest) env s r := by
  obtain ⟨f0, h⟩ := h
  refine ⟨f0 + 1, fun f hf => ?_⟩
  obtain ⟨g, rfl⟩ : ∃ g, f = g + 1 := ⟨f - 1, by omega⟩
  simp only [exec, hb, and_self, if_true]
  exact h g (by omega)

theorem Runs.ite {c : Cond} {t e rest : List Stmt} {env env' : Env} {s s' : Sl α} {r : Res α} {b : Bool}
    (hc : evalC env s c = some b) (hb : Runs (if b then t else e) env s (.cont env' s'))
    (h : Runs rest env' s' r) : Runs (.ite c t e :: rest) env s r := by
  obtain ⟨f0, h⟩ := h
  obtain ⟨f1, hb⟩ := hb
  refine ⟨f0 + f1 + 1, fun f hf => ?_⟩
  obtain ⟨g, rfl⟩ : ∃ g, f = g + 1 := ⟨f - 1, by omega⟩
  simp only [exec, hc]
  rw [hb g (by omega)]
  exact h g (by omega)

theorem Runs.ite_ret {c : Cond} {t e rest : List Stmt} {env : Env} {s s' : Sl α} {b : Bool}
    (hc : evalC env s c = some b) (hb : Runs (if b then t else e) env s (.ret s')) :
    Runs (.ite c t e :: rest) env s (.ret s') := by
  obtain ⟨f1, hb⟩ := hb
  refine ⟨f1 + 1, fun f hf => ?_⟩
  obtain ⟨g, rfl⟩ : ∃ g, f = g + 1 := ⟨f - 1, by omega⟩
  simp only [exec, hc]
  rw [hb g (by omega)]

theorem Runs.loop_exit {c : Cond} {body post rest : List Stmt} {env : Env} {s : Sl α} {r : Res α}
    (hc : evalC env s c = some false) (h : Runs rest env s r) : Runs (.loop c body post :: rest) env s r := by
  obtain ⟨f0, h⟩ := h
  refine ⟨f0 + 1, fun f hf => ?_⟩
  obtain ⟨g, rfl⟩ : ∃ g, f = g + 1 := ⟨f - 1, by omega⟩
  simp only [exec, hc]
  exact h g (by omega)

theorem Runs.loop_iter {c : Cond} {body post rest : List Stmt} {env env' env'' : Env} {s s' s'' : Sl α} {r : Res α}
    (hc : evalC env s c = some true) (hb : Runs body env s (.cont env' s'))
    (hp : Runs post env' s' (.cont env'' s'')) (h : Runs (.loop c body post :: rest) env'' s'' r) :
    Runs (.loop c body post :: rest) env s r := by
  obtain ⟨f0, h⟩ := h
  obtain ⟨f1, hb⟩ := hb
  obtain ⟨f2, hp⟩ := hp
  refine ⟨f0 + f1 + f2 + 1, fun f hf => ?_⟩
  obtain ⟨g, rfl⟩ : ∃ g, f = g + 1 := ⟨f - 1, by omega⟩
  simp only [exec, hc]
  rw [hb g (by omega)]
  simp only
  rw [hp g (by omega)]
  exact h g (by omega)

/-! ### the loop -/

def uLoop : Stmt :=
  .loop (.lt (.var 2) (.var 0))
    [ .ite (.elemNe (.var 2) (.var 1))
        [ .ite (.ne (.add (.var 1) (.lit 1)) (.var 2)) [.store (.add (.var 1) (.lit 1)) (.var 2)] [],
          .set 1 (.add (.var 1) (.lit 1)) ] [] ]
    [.set 2 (.add (.var 2) (.lit 1))]

/-- the body shared by both generated functions -/
def uBody : List Stmt :=
  [ .set 0 .len, .ite (.lt (.var 0) (.lit 2)) [.retSlice] [], .set 1 (.lit 0), .set 2 (.lit 1), uLoop,
    .reslice (.add (.var 1) (.lit 1)), .retSlice ]

theorem uniqueInt_body : Got.Generated.AstSortxUnique.uniqueInt.body = uBody := rfl
theorem uniqueString_body : Got.Generated.AstSortxUnique.uniqueString.body = uBody := rfl

omit [DecidableEq α] in
theorem at_natCast (s : Sl α) (i : Nat) (h : i < s.len) : s.at? (i : Int) = s.arr[i]? := by
  unfold Sl.at?
  have : (0 : Int) ≤ (i : Int) ∧ (i : Int) < (s.len : Int) := by omega
  rw [if_pos this]
  simp

theorem uLoop_runs (size : Nat) (hsz : size < 4611686018427387904) :
    ∀ (n i j : Nat) (a : Array α) (env : Env), size - i = n → j < i → i ≤ size → a.size = size →
      env.get 0 = size → env.get 1 = j → env.get 2 = i →
      ∃ j' a', uniqueLoop size i j a = some (j', a') ∧ a'.size = size ∧ j' < size ∧
        ∃ env', env'.get 1 = (j' : Int) ∧
          ∀ rest r, Runs rest env' ({ arr := a', len := size } : Sl α) r →
            Runs (uLoop :: rest) env ({ arr := a, len := size } : Sl α) r := by
  intro n
  induction n using Nat.strongRecOn with
  | _ n ih =>
    intro i j a env hn hji his hasz h0 h1 h2
    rw [uniqueLoop]
    split
    · rename_i hlt
      have hi : i < a.size := by omega
      have hj : j < a.size := by omega
      have hc : evalC env ({ arr := a, len := size } : Sl α) (.lt (.var 2) (.var 0)) = some true := by
        simp only [evalC, eval, h0, h2]
        have : ((i : Int) < (size : Int)) := by omega
        simp only [this, decide_true]
      have e1 : ∀ s' : Sl α, eval env s' (.add (.var 1) (.lit 1)) = ((j + 1 : Nat) : Int) := by
        intro s'
        simp (disch := omega) only [eval, h1, wrap_eq]; simp
      have e2 : eval env ({ arr := a, len := size } : Sl α) (.var 2) = (i : Int) := by simp only [eval, h2]
      have e3 : eval env ({ arr := a, len := size } : Sl α) (.var 1) = (j : Int) := by simp only [eval, h1]
      have ai : ({ arr := a, len := size } : Sl α).at? (i : Int) = some a[i] := by
        rw [at_natCast _ i (by simpa using hlt)]; simp [hi]
      have aj : ({ arr := a, len := size } : Sl α).at? (j : Int) = some a[j] := by
        rw [at_natCast _ j (by show j < size; omega)]; simp [hj]
      have hne : evalC env ({ arr := a, len := size } : Sl α) (.elemNe (.var 2) (.var 1)) = some (decide (a[i] ≠ a[j])) := by
        simp only [evalC, e2, e3, ai, aj]
      have post_env : ∀ e : Env, e.get 2 = i →
          (e.set 2 (eval e ({ arr := a, len := size } : Sl α) (.add (.var 2) (.lit 1)))).get 2 = ((i + 1 : Nat) : Int) := by
        intro e he
        rw [Env.get_set]
        simp (disch := omega) only [eval, he, wrap_eq]; simp
      simp only [Array.getElem?_eq_getElem hi, Array.getElem?_eq_getElem hj]
      by_cases hxy : a[i] ≠ a[j]
      · rw [if_pos hxy]
        rw [decide_eq_true hxy] at hne
        by_cases hji1 : j + 1 ≠ i
        · rw [if_pos hji1, if_pos (by omega)]
          -- a[j+1] = a[i]; j++
          have hcn : evalC env ({ arr := a, len := size } : Sl α) (.ne (.add (.var 1) (.lit 1)) (.var 2)) = some true := by
            simp only [evalC, e1 _, e2]
            have : (((j + 1 : Nat) : Int) ≠ (i : Int)) := by omega
            simp only [ne_eq, this, not_false_eq_true, decide_true]
          have aj1 : ({ arr := a, len := size } : Sl α).at? ((j + 1 : Nat) : Int) = some a[j + 1] := by
            rw [at_natCast _ (j + 1) (by show j + 1 < size; omega)]; simp [show j + 1 < a.size by omega]
          obtain ⟨j', a', hu, hs', hj', env', hg, hk⟩ := ih (size - (i + 1)) (by omega) (i + 1) (j + 1) (a.set! (j + 1) a[i])
            ((env.set 1 ((j + 1 : Nat) : Int)).set 2 ((i + 1 : Nat) : Int)) rfl (by omega) (by omega) (by simpa using hasz)
            (by rw [Env.get_set, Env.get_set]; simpa using h0) (by rw [Env.get_set, Env.get_set]; simp)
            (by rw [Env.get_set]; simp)
          refine ⟨j', a', hu, hs', hj', env', hg, fun rest r h => ?_⟩
          have hp := post_env (env.set 1 ((j + 1 : Nat) : Int)) (by rw [Env.get_set]; simpa using h2)
          refine Runs.loop_iter hc
            (Runs.ite (env' := env.set 1 ((j + 1 : Nat) : Int)) (s' := { arr := a.set! (j + 1) a[i], len := size }) hne ?_ Runs.nil)
            (Runs.set Runs.nil) ?_
          · simp only [if_true]
            refine Runs.ite (env' := env) (s' := { arr := a.set! (j + 1) a[i], len := size }) hcn ?_ ?_
            · simp only [if_true]
              refine Runs.store (v := a[i]) (w := a[j + 1]) (by rw [e2]; exact ai) (by rw [e1 _]; exact aj1) ?_
              rw [e1 _]
              simp only [Int.toNat_natCast]
              exact Runs.nil
            · refine Runs.set ?_
              rw [e1 _]
              exact Runs.nil
          · have henv : (env.set 1 ((j + 1 : Nat) : Int)).set 2
                (eval (env.set 1 ((j + 1 : Nat) : Int)) ({ arr := a.set! (j + 1) a[i], len := size } : Sl α) (.add (.var 2) (.lit 1))) =
                (env.set 1 ((j + 1 : Nat) : Int)).set 2 ((i + 1 : Nat) : Int) := by
              congr 1
              have g2 : (env.set 1 ((j + 1 : Nat) : Int)).get 2 = i := by rw [Env.get_set]; simpa using h2
              simp (disch := omega) only [eval, g2, wrap_eq]; simp
            rw [henv]
            exact hk rest r h
        · rw [if_neg hji1]
          have hji2 : j + 1 = i := by omega
          have hcn : evalC env ({ arr := a, len := size } : Sl α) (.ne (.add (.var 1) (.lit 1)) (.var 2)) = some false := by
            simp only [evalC, e1 _, e2]
            have : ¬ (((j + 1 : Nat) : Int) ≠ (i : Int)) := by omega
            simp only [this, decide_false]
          obtain ⟨j', a', hu, hs', hj', env', hg, hk⟩ := ih (size - (i + 1)) (by omega) (i + 1) (j + 1) a
            ((env.set 1 ((j + 1 : Nat) : Int)).set 2 ((i + 1 : Nat) : Int)) rfl (by omega) (by omega) hasz
            (by rw [Env.get_set, Env.get_set]; simpa using h0) (by rw [Env.get_set, Env.get_set]; simp)
            (by rw [Env.get_set]; simp)
          refine ⟨j', a', hu, hs', hj', env', hg, fun rest r h => ?_⟩
          refine Runs.loop_iter hc
            (Runs.ite (env' := env.set 1 ((j + 1 : Nat) : Int)) (s' := { arr := a, len := size }) hne ?_ Runs.nil)
            (Runs.set Runs.nil) ?_
          · simp only [if_true]
            refine Runs.ite (env' := env) (s' := { arr := a, len := size }) hcn ?_ ?_
            · simp only [Bool.false_eq_true, if_false]
              exact Runs.nil
            · refine Runs.set ?_
              rw [e1 _]
              exact Runs.nil
          · have henv : (env.set 1 ((j + 1 : Nat) : Int)).set 2
                (eval (env.set 1 ((j + 1 : Nat) : Int)) ({ arr := a, len := size } : Sl α) (.add (.var 2) (.lit 1))) =
                (env.set 1 ((j + 1 : Nat) : Int)).set 2 ((i + 1 : Nat) : Int) := by
              congr 1
              have g2 : (env.set 1 ((j + 1 : Nat) : Int)).get 2 = i := by rw [Env.get_set]; simpa using h2
              simp (disch := omega) only [eval, g2, wrap_eq]; simp
            rw [henv]
            exact hk rest r h
      · rw [if_neg hxy]
        rw [decide_eq_false hxy] at hne
        obtain ⟨j', a', hu, hs', hj', env', hg, hk⟩ := ih (size - (i + 1)) (by omega) (i + 1) j a
          (env.set 2 ((i + 1 : Nat) : Int)) rfl (by omega) (by omega) hasz
          (by rw [Env.get_set]; simpa using h0) (by rw [Env.get_set]; simpa using h1)
          (by rw [Env.get_set]; simp)
        refine ⟨j', a', hu, hs', hj', env', hg, fun rest r h => ?_⟩
        refine Runs.loop_iter hc
          (Runs.ite (env' := env) (s' := { arr := a, len := size }) hne ?_ Runs.nil)
          (Runs.set Runs.nil) ?_
        · simp only [Bool.false_eq_true, if_false]
          exact Runs.nil
        · have henv : env.set 2 (eval env ({ arr := a, len := size } : Sl α) (.add (.var 2) (.lit 1))) =
              env.set 2 ((i + 1 : Nat) : Int) := by
            congr 1
            simp (disch := omega) only [eval, h2, wrap_eq]; simp
          rw [henv]
          exact hk rest r h
    · rename_i hlt
      have hc : evalC env ({ arr := a, len := size } : Sl α) (.lt (.var 2) (.var 0)) = some false := by
        simp only [evalC, eval, h0, h2]
        have : ¬ ((i : Int) < (size : Int)) := by omega
        simp only [this, decide_false]
      exact ⟨j, a, rfl, hasz, by omega, env, h1, fun rest r h => Runs.loop_exit hc h⟩

/-- a function whose body is the shared generated body computes the model `unique` -/
theorem unique_refines (fn : Fn) (hbody : fn.body = uBody) (a : Array α) (hsz : a.size < 4611686018427387904) :
    ∃ f0, ∀ fuel, f0 ≤ fuel → fn.run fuel a = some (unique a) := by
  have key : ∃ s' : Sl α, Runs fn.body #[] ({ arr := a, len := a.size } : Sl α) (.ret s') ∧
      unique a = some (s'.arr.extract 0 s'.len, s'.arr) := by
    rw [hbody]
    unfold uBody unique
    have g0 : (Env.set #[] 0 (a.size : Int)).get 0 = (a.size : Int) := by
      rw [Env.get_set]; simp
    by_cases h2 : a.size < 2
    · refine ⟨{ arr := a, len := a.size }, ?_, by simp [h2]⟩
      refine Runs.set (Runs.ite_ret (b := true) ?_ Runs.retSlice)
      simp (disch := omega) only [evalC, eval, g0, wrap_eq]
      have : ((a.size : Int) < 2) := by omega
      simp only [this, decide_true]
    · simp only [h2, if_false]
      obtain ⟨env2, hE2⟩ : ∃ e : Env, e = ((Env.set #[] 0 (a.size : Int)).set 1 (0 : Int)).set 2 (1 : Int) := ⟨_, rfl⟩
      obtain ⟨j', a', hu, hs', hj', env', hg, hk⟩ := uLoop_runs a.size hsz (a.size - 1) 1 0 a env2 rfl (by omega) (by omega) rfl
        (by rw [hE2, Env.get_set, Env.get_set, Env.get_set]; simp) (by rw [hE2, Env.get_set, Env.get_set]; simp)
        (by rw [hE2, Env.get_set]; simp)
      rw [hu]
      simp only
      have hle : j' + 1 ≤ a'.size := by omega
      simp only [hle, if_true]
      refine ⟨{ arr := a', len := j' + 1 }, ?_, rfl⟩
      refine Runs.set ?_
      have hc : evalC (Env.set #[] 0 (eval #[] ({ arr := a, len := a.size } : Sl α) .len)) ({ arr := a, len := a.size } : Sl α)
          (.lt (.var 0) (.lit 2)) = some false := by
        simp (disch := omega) only [evalC, eval, g0, wrap_eq]
        have : ¬ ((a.size : Int) < 2) := by omega
        simp only [this, decide_false]
      refine Runs.ite (env' := Env.set #[] 0 (a.size : Int)) (s' := { arr := a, len := a.size }) hc ?_ ?_
      · simp only [Bool.false_eq_true, if_false, eval]
        exact Runs.nil
      · refine Runs.set (Runs.set ?_)
        have e0 : ∀ e : Env, eval e ({ arr := a, len := a.size } : Sl α) (.lit 0) = 0 := by intro e; simp [eval, wrap]
        have e1 : ∀ e : Env, eval e ({ arr := a, len := a.size } : Sl α) (.lit 1) = 1 := by intro e; simp [eval, wrap]
        rw [e0, e1, ← hE2]
        refine hk _ _ ?_
        have ev : eval env' ({ arr := a', len := a.size } : Sl α) (.add (.var 1) (.lit 1)) = ((j' + 1 : Nat) : Int) := by
          simp (disch := omega) only [eval, hg, wrap_eq]; simp
        refine Runs.reslice (by rw [ev]; simp only; omega) ?_
        rw [ev]
        simp only [Int.toNat_natCast]
        exact Runs.retSlice
  obtain ⟨s', ⟨f0, hr⟩, hu⟩ := key
  refine ⟨f0, fun fuel hf => ?_⟩
  unfold Fn.run
  rw [hr fuel hf, hu]

theorem uniqueInt_refines (a : Array α) (hsz : a.size < 4611686018427387904) :
    ∃ f0, ∀ fuel, f0 ≤ fuel → Got.Generated.AstSortxUnique.uniqueInt.run fuel a = some (unique a) :=
  unique_refines _ uniqueInt_body a hsz

theorem uniqueString_refines (a : Array α) (hsz : a.size < 4611686018427387904) :
    ∃ f0, ∀ fuel, f0 ≤ fuel → Got.Generated.AstSortxUnique.uniqueString.run fuel a = some (unique a) :=
  unique_refines _ uniqueString_body a hsz

end Got.Lemmas.SortAstUnique
