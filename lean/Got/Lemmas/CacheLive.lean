import Got.Spec.Cache
/-
Frame lemmas (which fields a step leaves alone) and the strictly decreasing progress measure of C06.
Core Lean only.
-/
namespace Got.Lemmas.Cache
open Got.Model.CacheCore Got.Model.Cache Got.Spec.Cache

theorem clStep_frame (cfg : Cfg) (s s' : State) (c : Cid) (h : clStep cfg s c = some s') :
    (∀ c', c' ≠ c → s'.cpc c' = s.cpc c') ∧ s'.wpc = s.wpc ∧ s'.now = s.now ∧ s'.tickPending = s.tickPending := by
  unfold clStep at h
  split at h <;> (try split at h) <;> (try split at h) <;> simp only [Option.some.injEq, reduceCtorEq] at h <;>
    subst h <;> simp [setPc, loadCS, applyLoad, setCS, upd] <;> (try split) <;> simp_all [upd]

theorem wkStep_frame (cfg : Cfg) (s s' : State) (w : Wid) (h : wkStep cfg s w = some s') :
    s'.cpc = s.cpc ∧ (∀ w', w' ≠ w → s'.wpc w' = s.wpc w') ∧ s'.now = s.now ∧ s'.tickPending = s.tickPending ∧
    s'.chan = s.chan := by
  unfold wkStep at h
  split at h <;> (try split at h) <;> simp only [Option.some.injEq, reduceCtorEq] at h <;>
    subst h <;> simp [setWpc, upd] <;> intro w' hw' <;> simp [hw']

/-- sum over a duplicate-free list when the summand changes at one point only -/
theorem sum_update (xs : List Nat) (hnd : xs.Nodup) (a : Nat) (ha : a ∈ xs) (F G : Nat → Nat)
    (hFG : ∀ x, x ≠ a → G x = F x) : (xs.map G).sum + F a = (xs.map F).sum + G a := by
  induction xs with
  | nil => cases ha
  | cons x xs ih =>
    rw [List.nodup_cons] at hnd
    simp only [List.map_cons, List.sum_cons]
    by_cases hx : x = a
    · subst hx
      have : xs.map G = xs.map F := by
        apply List.map_congr_left
        intro y hy
        exact hFG y (fun h => hnd.1 (h ▸ hy))
      rw [this]; omega
    · have ha' : a ∈ xs := by
        cases ha with
        | head => exact absurd rfl hx
        | tail _ h => exact h
      have := ih hnd.2 ha'
      rw [hFG x hx]; omega

theorem sum_congr (xs : List Nat) (F G : Nat → Nat) (h : ∀ x, G x = F x) : (xs.map G).sum = (xs.map F).sum := by
  have : xs.map G = xs.map F := List.map_congr_left (fun x _ => h x)
  rw [this]

theorem cw_planPc (p : Plan) : cw (planPc p) ≤ 3 := by cases p <;> simp [planPc, cw]

theorem cw_g2Next (st : Status) (o : Option FutId) : cw (g2Next st o) ≤ 3 := by
  unfold g2Next; split <;> simp [cw]

theorem cw_loadOut (old : Bool) (sh : Nat) (last : Option FutId) (st : Status) (nf k ld : Nat) :
    cw (loadOut old sh last st nf k ld).pc ≤ 11 := by
  unfold loadOut
  by_cases hcr : (loadDecide st).create = true
  · simp only [hcr, if_true]
    cases old <;> simp [cw]
  · simp only [hcr]
    simp [cw]

/-- every client step strictly decreases (weight of the client + 6·queued jobs) -/
theorem clStep_decr (cfg : Cfg) (s s' : State) (c : Cid) (h : clStep cfg s c = some s') :
    cw (s'.cpc c) + 6 * s'.chan.length + 1 ≤ cw (s.cpc c) + 6 * s.chan.length := by
  cases hc : s.cpc c with
  | idle => simp [clStep, hc] at h
  | done o => simp [clStep, hc] at h
  | ldStart k ld =>
    simp only [clStep, hc] at h
    split at h
    · simp only [Option.some.injEq] at h; subst h
      have := cw_loadOut cfg.old (cfg.shardOf k) (s.map k) (statusAt cfg s (s.map k)) s.nfut k ld
      simp only [loadCS, applyLoad]
      split <;> simp [upd, cw] at this ⊢ <;> omega
    · cases h
  | ldUnlock sh send plan =>
    simp only [clStep, hc] at h
    have := cw_planPc plan
    cases send <;> simp only [Option.some.injEq] at h <;> subst h <;> simp [setPc, upd, cw] at this ⊢ <;> omega
  | ldSend j plan lk =>
    simp only [clStep, hc] at h
    have := cw_planPc plan
    split at h
    · cases lk <;> simp only [Option.some.injEq] at h <;> subst h <;> simp [setPc, upd, cw] at this ⊢ <;> omega
    · cases h
  | fetch f g => simp only [clStep, hc, Option.some.injEq] at h; subst h; simp [setPc, upd, cw] <;> omega
  | fetchSt f p g =>
    simp only [clStep, hc, Option.some.injEq] at h; subst h
    cases g <;> simp [setPc, upd, cw] <;> omega
  | ldRet f => simp only [clStep, hc, Option.some.injEq] at h; subst h; simp [setPc, upd, cw] <;> omega
  | g2Start k =>
    simp only [clStep, hc] at h
    split at h
    · simp only [Option.some.injEq] at h; subst h; simp [setPc, upd, cw] <;> omega
    · cases h
  | g2Status o =>
    simp only [clStep, hc, Option.some.injEq] at h; subst h
    have := cw_g2Next (statusAt cfg s o) o
    simp [setPc, upd, cw] at this ⊢; omega
  | wait f =>
    simp only [clStep, hc] at h
    split at h
    · simp only [Option.some.injEq] at h; subst h; simp [setPc, upd, cw] <;> omega
    · cases h
  | retNil => simp only [clStep, hc, Option.some.injEq] at h; subst h; simp [setPc, upd, cw] <;> omega
  | setStart k r =>
    simp only [clStep, hc] at h
    split at h
    · simp only [Option.some.injEq] at h; subst h; simp [setCS, upd, cw] <;> omega
    · cases h
  | setRet => simp only [clStep, hc, Option.some.injEq] at h; subst h; simp [setPc, upd, cw] <;> omega

theorem wkStep_decr (cfg : Cfg) (s s' : State) (w : Wid) (h : wkStep cfg s w = some s') :
    ww cfg.S (s'.wpc w) + 1 ≤ ww cfg.S (s.wpc w) := by
  cases hw : s.wpc w with
  | idle => simp [wkStep, hw] at h
  | got j => simp [wkStep, hw] at h
  | running j => simp [wkStep, hw] at h
  | publish j r => simp only [wkStep, hw, Option.some.injEq] at h; subst h; simp [setWpc, upd, ww]
  | clearPred j => simp only [wkStep, hw, Option.some.injEq] at h; subst h; simp [setWpc, upd, ww]
  | wgDone j => simp only [wkStep, hw, Option.some.injEq] at h; subst h; simp [setWpc, upd, ww]
  | sweep i =>
    simp only [wkStep, hw] at h
    split at h
    · simp only [Option.some.injEq] at h; subst h
      by_cases hi : i + 1 < cfg.S <;> simp [setWpc, upd, ww, hi] <;> omega
    · cases h

/-- the change of μ when one client's summand and the shared terms change -/
theorem mu_client (cfg : Cfg) (cs ws : List Nat) (s s' : State) (c : Cid) (hcs : cs.Nodup) (hc : c ∈ cs)
    (hfr : ∀ c', c' ≠ c → s'.cpc c' = s.cpc c') (hw : s'.wpc = s.wpc) (ht : s'.tickPending = s.tickPending)
    (hd : cw (s'.cpc c) + 6 * s'.chan.length + 1 ≤ cw (s.cpc c) + 6 * s.chan.length) :
    mu cfg cs ws s' < mu cfg cs ws s := by
  have key : (cs.map (fun c => cw (s'.cpc c))).sum + cw (s.cpc c) = (cs.map (fun c => cw (s.cpc c))).sum + cw (s'.cpc c) :=
    sum_update cs hcs c hc (fun c => cw (s.cpc c)) (fun c => cw (s'.cpc c)) (fun x hx => by simp [hfr x hx])
  simp only [mu, hw, ht]
  omega

theorem mu_worker (cfg : Cfg) (cs ws : List Nat) (s s' : State) (w : Wid) (hws : ws.Nodup) (hw : w ∈ ws)
    (hfr : ∀ w', w' ≠ w → s'.wpc w' = s.wpc w') (hc : s'.cpc = s.cpc)
    (hd : ww cfg.S (s'.wpc w) + 6 * s'.chan.length + (if s'.tickPending then cfg.S + 2 else 0) + 1 ≤
          ww cfg.S (s.wpc w) + 6 * s.chan.length + (if s.tickPending then cfg.S + 2 else 0)) :
    mu cfg cs ws s' < mu cfg cs ws s := by
  have key : (ws.map (fun w => ww cfg.S (s'.wpc w))).sum + ww cfg.S (s.wpc w) =
      (ws.map (fun w => ww cfg.S (s.wpc w))).sum + ww cfg.S (s'.wpc w) :=
    sum_update ws hws w hw (fun w => ww cfg.S (s.wpc w)) (fun w => ww cfg.S (s'.wpc w)) (fun x hx => by simp [hfr x hx])
  simp only [mu, hc]
  omega

/-- C06 measure: every client / worker / loader transition strictly decreases μ -/
theorem mu_decr (cfg : Cfg) (s s' : State) (a : Act) (cs ws : List Nat) (hcs : cs.Nodup) (hws : ws.Nodup)
    (hprog : a.isProgress = true) (hin : actorIn cs ws a) (h : step? cfg s a = some s') :
    mu cfg cs ws s' < mu cfg cs ws s := by
  cases a with
  | invLoad c k ld => simp [Act.isProgress] at hprog
  | invGet2 c k => simp [Act.isProgress] at hprog
  | invSet c k r => simp [Act.isProgress] at hprog
  | invFGet c o => simp [Act.isProgress] at hprog
  | tick => simp [Act.isProgress] at hprog
  | delay d => simp [Act.isProgress] at hprog
  | cl c =>
    simp only [step?] at h
    obtain ⟨h1, h2, _, h4⟩ := clStep_frame cfg s s' c h
    exact mu_client cfg cs ws s s' c hcs hin h1 h2 h4 (clStep_decr cfg s s' c h)
  | wk w =>
    simp only [step?] at h
    obtain ⟨h1, h2, _, h4, h5⟩ := wkStep_frame cfg s s' w h
    have := wkStep_decr cfg s s' w h
    exact mu_worker cfg cs ws s s' w hws hin h2 h1 (by rw [h4, h5]; omega)
  | wTake w =>
    simp only [step?] at h
    split at h
    · split at h
      · rename_i hw hch
        simp only [Option.some.injEq] at h; subst h
        refine mu_worker cfg cs ws s _ w hws hin (fun w' hw' => by simp [setWpc, upd, hw']) rfl ?_
        cases htp : s.tickPending <;> simp [setWpc, upd, ww, hw, hch] <;> omega
      · cases h
    · cases h
  | wTick w =>
    simp only [step?] at h
    split at h
    · split at h
      · rename_i hw
        split at h
        · rename_i htp
          simp only [Option.some.injEq] at h; subst h
          refine mu_worker cfg cs ws s _ w hws hin (fun w' hw' => by simp [setWpc, upd, hw']) rfl ?_
          simp [setWpc, upd, ww, hw, htp]; omega
        · cases h
      · cases h
    · cases h
  | wStart w =>
    simp only [step?] at h
    split at h
    · rename_i j hw
      simp only [Option.some.injEq] at h; subst h
      refine mu_worker cfg cs ws s _ w hws hin (fun w' hw' => by simp [setWpc, upd, hw']) rfl ?_
      cases htp : s.tickPending <;> simp [setWpc, upd, ww, hw, htp] <;> omega
    · cases h
  | wEnd w r =>
    simp only [step?] at h
    split at h
    · rename_i j hw
      simp only [Option.some.injEq] at h; subst h
      refine mu_worker cfg cs ws s _ w hws hin (fun w' hw' => by simp [setWpc, upd, hw']) rfl ?_
      cases htp : s.tickPending <;> simp [setWpc, upd, ww, hw, htp] <;> omega
    · cases h

/-- the clock does not change μ -/
theorem mu_delay (cfg : Cfg) (cs ws : List Nat) (s : State) (d : Nat) :
    mu cfg cs ws { s with now := s.now + d } = mu cfg cs ws s := rfl

/-! frames of whole runs -/

theorem step_cpc_frame (cfg : Cfg) (s : State) (a : Act) (c : Cid) (hc : actClient? a ≠ some c) :
    (step cfg s a).cpc c = s.cpc c := by
  unfold step
  cases h : step? cfg s a with
  | none => rfl
  | some s' =>
    simp only [Option.getD_some]
    cases a with
    | cl c' =>
      have hne : c ≠ c' := fun e => hc (by simp [actClient?, e])
      exact (clStep_frame cfg s s' c' h).1 c hne
    | wk w => rw [(wkStep_frame cfg s s' w h).1]
    | invLoad c' k ld =>
      have hne : c ≠ c' := fun e => hc (by simp [actClient?, e])
      simp only [step?] at h; split at h <;> simp only [Option.some.injEq, reduceCtorEq] at h
      subst h; simp [setPc, upd, hne]
    | invGet2 c' k =>
      have hne : c ≠ c' := fun e => hc (by simp [actClient?, e])
      simp only [step?] at h; split at h <;> simp only [Option.some.injEq, reduceCtorEq] at h
      subst h; simp [setPc, upd, hne]
    | invSet c' k r =>
      have hne : c ≠ c' := fun e => hc (by simp [actClient?, e])
      simp only [step?] at h; split at h <;> simp only [Option.some.injEq, reduceCtorEq] at h
      subst h; simp [setPc, upd, hne]
    | invFGet c' o =>
      have hne : c ≠ c' := fun e => hc (by simp [actClient?, e])
      simp only [step?] at h; split at h <;> simp only [Option.some.injEq, reduceCtorEq] at h
      subst h; simp [setPc, upd, hne]
    | wTake w =>
      simp only [step?] at h
      split at h <;> (try split at h) <;> simp only [Option.some.injEq, reduceCtorEq] at h
      subst h; rfl
    | wTick w =>
      simp only [step?] at h
      split at h <;> (try split at h) <;> (try split at h) <;> simp only [Option.some.injEq, reduceCtorEq] at h
      subst h; rfl
    | wStart w =>
      simp only [step?] at h; split at h <;> simp only [Option.some.injEq, reduceCtorEq] at h
      subst h; rfl
    | wEnd w r =>
      simp only [step?] at h; split at h <;> simp only [Option.some.injEq, reduceCtorEq] at h
      subst h; rfl
    | tick => simp only [step?, Option.some.injEq] at h; subst h; rfl
    | delay d => simp only [step?, Option.some.injEq] at h; subst h; rfl

theorem step_wpc_frame (cfg : Cfg) (s : State) (a : Act) (w : Wid) (hw : actWorker? a ≠ some w) :
    (step cfg s a).wpc w = s.wpc w := by
  unfold step
  cases h : step? cfg s a with
  | none => rfl
  | some s' =>
    simp only [Option.getD_some]
    cases a with
    | cl c' => rw [(clStep_frame cfg s s' c' h).2.1]
    | wk w' =>
      have hne : w ≠ w' := fun e => hw (by simp [actWorker?, e])
      exact (wkStep_frame cfg s s' w' h).2.1 w hne
    | invLoad c' k ld =>
      simp only [step?] at h; split at h <;> simp only [Option.some.injEq, reduceCtorEq] at h
      subst h; rfl
    | invGet2 c' k =>
      simp only [step?] at h; split at h <;> simp only [Option.some.injEq, reduceCtorEq] at h
      subst h; rfl
    | invSet c' k r =>
      simp only [step?] at h; split at h <;> simp only [Option.some.injEq, reduceCtorEq] at h
      subst h; rfl
    | invFGet c' o =>
      simp only [step?] at h; split at h <;> simp only [Option.some.injEq, reduceCtorEq] at h
      subst h; rfl
    | wTake w' =>
      have hne : w ≠ w' := fun e => hw (by simp [actWorker?, e])
      simp only [step?] at h
      split at h <;> (try split at h) <;> simp only [Option.some.injEq, reduceCtorEq] at h
      subst h; simp [setWpc, upd, hne]
    | wTick w' =>
      have hne : w ≠ w' := fun e => hw (by simp [actWorker?, e])
      simp only [step?] at h
      split at h <;> (try split at h) <;> (try split at h) <;> simp only [Option.some.injEq, reduceCtorEq] at h
      subst h; simp [setWpc, upd, hne]
    | wStart w' =>
      have hne : w ≠ w' := fun e => hw (by simp [actWorker?, e])
      simp only [step?] at h; split at h <;> simp only [Option.some.injEq, reduceCtorEq] at h
      subst h; simp [setWpc, upd, hne]
    | wEnd w' r =>
      have hne : w ≠ w' := fun e => hw (by simp [actWorker?, e])
      simp only [step?] at h; split at h <;> simp only [Option.some.injEq, reduceCtorEq] at h
      subst h; simp [setWpc, upd, hne]
    | tick => simp only [step?, Option.some.injEq] at h; subst h; rfl
    | delay d => simp only [step?, Option.some.injEq] at h; subst h; rfl

theorem run_cpc_frame (cfg : Cfg) (acts : List Act) (s : State) (c : Cid)
    (hc : ∀ a ∈ acts, actClient? a ≠ some c) : (run cfg s acts).cpc c = s.cpc c := by
  induction acts generalizing s with
  | nil => rfl
  | cons a as ih =>
    simp only [run, List.foldl_cons]
    have := ih (step cfg s a) (fun a' ha' => hc a' (List.mem_cons_of_mem _ ha'))
    simp only [run] at this
    rw [this, step_cpc_frame cfg s a c (hc a List.mem_cons_self)]

theorem run_wpc_frame (cfg : Cfg) (acts : List Act) (s : State) (w : Wid)
    (hw : ∀ a ∈ acts, actWorker? a ≠ some w) : (run cfg s acts).wpc w = s.wpc w := by
  induction acts generalizing s with
  | nil => rfl
  | cons a as ih =>
    simp only [run, List.foldl_cons]
    have := ih (step cfg s a) (fun a' ha' => hw a' (List.mem_cons_of_mem _ ha'))
    simp only [run] at this
    rw [this, step_wpc_frame cfg s a w (hw a List.mem_cons_self)]

end Got.Lemmas.Cache
