import Got.Lemmas.BytesStream
/-
Consequences of the refinement used by the C13 property theorems: no spec step produces a panic,
well-formedness of the ghost state, the FIFO law for seek-free runs.  Core Lean only.
-/
namespace Got.Lemmas.Bytes
open Got.Model.Bytes Got.Spec.Bytes
set_option linter.unusedVariables false

/- ---------------- no panic ---------------- -/

theorem bufferSpec_no_panic {g g' : Ghost} {op : Buffer.Op} {out : Buffer.Out}
    (h : BufferSpec g op out g') : ∀ why, out ≠ .panic why := by
  intro why hp
  subst hp
  cases op with
  | write p => exact absurd h.1 (by simp)
  | read k => exact absurd h.1 (by simp)
  | next n => exact absurd h.1 (by simp)
  | seek o w =>
    simp only [BufferSpec] at h
    split at h <;> exact absurd h.1 (by simp)
  | tidy => exact absurd h.1 (by simp)
  | reset => exact absurd h.1 (by simp)
  | grow n => exact absurd h.1 (by simp)

theorem bufferSpecRun_no_panic : ∀ (ops : List Buffer.Op) (g g' : Ghost) (outs : List Buffer.Out),
    BufferSpecRun g ops outs g' → ∀ out ∈ outs, ∀ why, out ≠ .panic why := by
  intro ops
  induction ops with
  | nil =>
    intro g g' outs h out hmem
    cases outs with
    | nil => simp at hmem
    | cons o os => exact absurd h (by simp [BufferSpecRun])
  | cons op ops ih =>
    intro g g' outs h out hmem
    cases outs with
    | nil => exact absurd h (by simp [BufferSpecRun])
    | cons o os =>
      obtain ⟨g1, hs, hr⟩ := h
      rcases List.mem_cons.1 hmem with rfl | hm
      · exact bufferSpec_no_panic hs
      · exact ih g1 g' os hr out hm

theorem streamSpec_no_panic {g g' : Ghost} {op : Stream.Op} {out : Stream.Out}
    (h : StreamSpec g op out g') : ∀ why, out ≠ .panic why := by
  intro why hp
  subst hp
  cases op with
  | write p => exact absurd h.1 (by simp)
  | writeByte b => exact absurd h.1 (by simp)
  | writeBool b => exact absurd h.1 (by simp)
  | writeInt16 d => exact absurd h.1 (by simp)
  | writeInt32 d => exact absurd h.1 (by simp)
  | writeInt64 d => exact absurd h.1 (by simp)
  | read k =>
    simp only [StreamSpec] at h
    split at h <;> exact absurd h.1 (by simp)
  | readByte =>
    simp only [StreamSpec] at h
    split at h <;> exact absurd h.1 (by simp)
  | tidy => exact absurd h.1 (by simp)
  | reset => exact absurd h.1 (by simp)
  | seek o w =>
    simp only [StreamSpec] at h
    split at h <;> exact absurd h.1 (by simp)

theorem streamSpecRun_no_panic : ∀ (ops : List Stream.Op) (g g' : Ghost) (outs : List Stream.Out),
    StreamSpecRun g ops outs g' → ∀ out ∈ outs, ∀ why, out ≠ .panic why := by
  intro ops
  induction ops with
  | nil =>
    intro g g' outs h out hmem
    cases outs with
    | nil => simp at hmem
    | cons o os => exact absurd h (by simp [StreamSpecRun])
  | cons op ops ih =>
    intro g g' outs h out hmem
    cases outs with
    | nil => exact absurd h (by simp [StreamSpecRun])
    | cons o os =>
      obtain ⟨g1, hs, hr⟩ := h
      rcases List.mem_cons.1 hmem with rfl | hm
      · exact streamSpec_no_panic hs
      · exact ih g1 g' os hr out hm

/- ---------------- Seek touches nothing but the cursor ---------------- -/

theorem buffer_seek_frame (b : Buffer) (o w : Int) :
    (b.seek o w).1.buf = b.buf ∧ (b.seek o w).1.cap = b.cap ∧ (b.seek o w).1.isNil = b.isNil := by
  simp only [Buffer.seek]
  repeat' split
  all_goals exact ⟨rfl, rfl, rfl⟩

theorem stream_seek_frame (s : Stream) (o w : Int) : (s.seek o w).1.buf = s.buf := by
  simp only [Stream.seek]
  repeat' split
  all_goals rfl

/- ---------------- observers ---------------- -/

theorem buffer_observers {b : Buffer} {g : Ghost} (h : BufferRel b g) :
    b.bytes? = some g.unread ∧ b.string? = some g.unread ∧ b.len = g.unread.length ∧ b.bytes = g.unread := by
  have hun := rel_unread h
  have hle := rel_off_le h
  have hlen := rel_len h
  obtain ⟨⟨h1, h2⟩, hb, ho⟩ := h
  have hul : g.unread.length = g.W.length - g.c := by simp [Ghost.unread]
  refine ⟨?_, ?_, ?_, hun⟩
  · simp [Buffer.bytes?, hle, hun]
  · simp [Buffer.string?, Buffer.bytes?, hle, hun]
  · simp only [Buffer.len]; omega

theorem stream_observers {s : Stream} {g : Ghost} (h : StreamRel s g) :
    s.bytes? = some g.unread ∧ s.len = g.retained ∧ s.position = g.c - g.r ∧
      s.len - s.position = g.unread.length := by
  have hun := srel_unread h
  have hlen := srel_len h
  obtain ⟨⟨h1, h2⟩, hb, ho⟩ := h
  have hul : g.unread.length = g.W.length - g.c := by simp [Ghost.unread]
  refine ⟨?_, ?_, ho, ?_⟩
  · have : s.pos ≤ s.buf.length := by omega
    simp [Stream.bytes?, this, hun]
  · simp [Stream.len, Ghost.retained, hlen]
  · simp only [Stream.len, Stream.position]; omega

/- ---------------- compaction is invisible (ghost-free form) ---------------- -/

theorem drop_compact (buf p : List Byte) (off k : Nat) (hk : k = 0 ∨ k = off) (hoff : off ≤ buf.length) :
    (buf.drop k ++ p).drop (off - k) = buf.drop off ++ p := by
  rcases hk with rfl | rfl
  · simp only [List.drop_zero, Nat.sub_zero]
    exact List.drop_append_of_le_length hoff
  · simp

/- ---------------- FIFO law for runs without Seek / Reset ---------------- -/

def bufWrites : List Buffer.Op → List Byte
  | [] => []
  | .write p :: ops => p ++ bufWrites ops
  | _ :: ops => bufWrites ops

def bufReads : List Buffer.Out → List Byte
  | [] => []
  | .read d _ :: os => d ++ bufReads os
  | .next d :: os => d ++ bufReads os
  | _ :: os => bufReads os

def BufSeekFree : Buffer.Op → Prop
  | .seek _ _ => False
  | .reset => False
  | _ => True

theorem take_consume (g : Ghost) (k : Nat) (hwf : g.Wf) :
    (g.consume k).W.take (g.consume k).c = g.W.take g.c ++ g.unread.take k ∧ (g.consume k).Wf ∧
      (g.consume k).W = g.W := by
  obtain ⟨h1, h2⟩ := hwf
  have hul : g.unread.length = g.W.length - g.c := by simp [Ghost.unread]
  refine ⟨?_, ⟨?_, ?_⟩, rfl⟩
  · simp only [Ghost.consume, List.take_add, Ghost.unread, ← List.take_eq_take_min]
  · simp only [Ghost.consume]; omega
  · simp only [Ghost.consume]; omega

theorem buffer_fifo_gen : ∀ (ops : List Buffer.Op) (g g' : Ghost) (outs : List Buffer.Out), g.Wf →
    (∀ op ∈ ops, BufSeekFree op) → BufferSpecRun g ops outs g' →
    g'.W = g.W ++ bufWrites ops ∧ g'.W.take g'.c = g.W.take g.c ++ bufReads outs ∧ g'.Wf := by
  intro ops
  induction ops with
  | nil =>
    intro g g' outs hwf _ h
    cases outs with
    | nil => simp only [BufferSpecRun] at h; subst h; simp [bufWrites, bufReads, hwf]
    | cons o os => exact absurd h (by simp [BufferSpecRun])
  | cons op ops ih =>
    intro g g' outs hwf hfree h
    cases outs with
    | nil => exact absurd h (by simp [BufferSpecRun])
    | cons o os =>
      obtain ⟨g1, hs, hr⟩ := h
      have hfree' : ∀ op ∈ ops, BufSeekFree op := fun o ho => hfree o (by simp [ho])
      have hthis := hfree op (by simp)
      obtain ⟨hw1, hw2⟩ := hwf
      -- effect of the head op on (W, take c W)
      have hstep : g1.W = g.W ++ bufWrites [op] ∧ g1.W.take g1.c = g.W.take g.c ++ bufReads [o] ∧ g1.Wf := by
        cases op with
        | write p =>
          obtain ⟨ho, hW, hc, hr1, hr2⟩ := hs
          subst ho
          refine ⟨by simp [bufWrites, hW], ?_, ⟨by omega, by rw [hW, hc]; simp; omega⟩⟩
          simp only [bufReads, List.append_nil, hW, hc]
          exact List.take_append_of_le_length hw2
        | read k =>
          obtain ⟨ho, hg⟩ := hs
          subst ho hg
          obtain ⟨ht, hwf', hW⟩ := take_consume g k ⟨hw1, hw2⟩
          exact ⟨by simp [bufWrites, hW], by simp [bufReads, ht], hwf'⟩
        | next n =>
          obtain ⟨ho, hg⟩ := hs
          subst ho hg
          obtain ⟨ht, hwf', hW⟩ := take_consume g n.toNat ⟨hw1, hw2⟩
          exact ⟨by simp [bufWrites, hW], by simp [bufReads, ht], hwf'⟩
        | seek o w => exact absurd hthis (by simp [BufSeekFree])
        | reset => exact absurd hthis (by simp [BufSeekFree])
        | tidy =>
          obtain ⟨ho, ⟨hW, hc, hr1, hr2⟩, _⟩ := hs
          subst ho
          exact ⟨by simp [bufWrites, hW], by simp [bufReads, hW, hc], ⟨by omega, by rw [hW, hc]; exact hw2⟩⟩
        | grow n =>
          obtain ⟨ho, hW, hc, hr1, hr2⟩ := hs
          subst ho
          exact ⟨by simp [bufWrites, hW], by simp [bufReads, hW, hc], ⟨by omega, by rw [hW, hc]; exact hw2⟩⟩
      obtain ⟨hW1, hT1, hwf1⟩ := hstep
      obtain ⟨hW', hT', hwf'⟩ := ih g1 g' os hwf1 hfree' hr
      have hwr : bufWrites (op :: ops) = bufWrites [op] ++ bufWrites ops := by
        cases op <;> simp [bufWrites]
      have hrd : bufReads (o :: os) = bufReads [o] ++ bufReads os := by
        cases o <;> simp [bufReads]
      refine ⟨?_, ?_, hwf'⟩
      · rw [hW', hW1, hwr, List.append_assoc]
      · rw [hT', hT1, hrd, List.append_assoc]

/- the same law for OctetsStream -/

def strWrites : List Stream.Op → List Byte
  | [] => []
  | op :: ops => op.payload.getD [] ++ strWrites ops

def strReads : List Stream.Out → List Byte
  | [] => []
  | .read d _ :: os => d ++ strReads os
  | .byte b .nil :: os => b :: strReads os
  | _ :: os => strReads os

def StrSeekFree : Stream.Op → Prop
  | .seek _ _ => False
  | .reset => False
  | _ => True

theorem stream_fifo_gen : ∀ (ops : List Stream.Op) (g g' : Ghost) (outs : List Stream.Out), g.Wf →
    (∀ op ∈ ops, StrSeekFree op) → StreamSpecRun g ops outs g' →
    g'.W = g.W ++ strWrites ops ∧ g'.W.take g'.c = g.W.take g.c ++ strReads outs ∧ g'.Wf := by
  intro ops
  induction ops with
  | nil =>
    intro g g' outs hwf _ h
    cases outs with
    | nil => simp only [StreamSpecRun] at h; subst h; simp [strWrites, strReads, hwf]
    | cons o os => exact absurd h (by simp [StreamSpecRun])
  | cons op ops ih =>
    intro g g' outs hwf hfree h
    cases outs with
    | nil => exact absurd h (by simp [StreamSpecRun])
    | cons o os =>
      obtain ⟨g1, hs, hr⟩ := h
      have hfree' : ∀ op ∈ ops, StrSeekFree op := fun o ho => hfree o (by simp [ho])
      have hthis := hfree op (by simp)
      obtain ⟨hw1, hw2⟩ := hwf
      have hwrite : ∀ p : List Byte, (o = .err .nil ∧ g.Appends p g1 ∧ g1.r = g.r) →
          g1.W = g.W ++ p ∧ g1.W.take g1.c = g.W.take g.c ++ strReads [o] ∧ g1.Wf := by
        rintro p ⟨ho, ⟨hW, hc, hr1, hr2⟩, _⟩
        subst ho
        refine ⟨hW, ?_, ⟨by omega, by rw [hW, hc]; simp; omega⟩⟩
        simp only [strReads, List.append_nil, hW, hc]
        exact List.take_append_of_le_length hw2
      have hstep : g1.W = g.W ++ op.payload.getD [] ∧ g1.W.take g1.c = g.W.take g.c ++ strReads [o] ∧ g1.Wf := by
        cases op with
        | write p => exact hwrite _ hs
        | writeByte b => exact hwrite _ hs
        | writeBool b => exact hwrite _ hs
        | writeInt16 d => exact hwrite _ hs
        | writeInt32 d => exact hwrite _ hs
        | writeInt64 d => exact hwrite _ hs
        | read k =>
          simp only [StreamSpec] at hs
          by_cases hk : k = 0
          · simp only [hk, if_true] at hs
            obtain ⟨ho, hg⟩ := hs
            subst ho hg
            exact ⟨by simp [Stream.Op.payload], by simp [strReads], ⟨hw1, hw2⟩⟩
          · simp only [hk, if_false] at hs
            obtain ⟨ho, hg⟩ := hs
            subst ho hg
            obtain ⟨ht, hwf', hW⟩ := take_consume g k ⟨hw1, hw2⟩
            exact ⟨by simp [Stream.Op.payload, hW], by simp [strReads, ht], hwf'⟩
        | readByte =>
          simp only [StreamSpec] at hs
          cases hu : g.unread with
          | nil =>
            simp only [hu] at hs
            obtain ⟨ho, hg⟩ := hs
            subst ho hg
            exact ⟨by simp [Stream.Op.payload], by simp [strReads], ⟨hw1, hw2⟩⟩
          | cons x xs =>
            simp only [hu] at hs
            obtain ⟨ho, hg⟩ := hs
            subst ho hg
            obtain ⟨ht, hwf', hW⟩ := take_consume g 1 ⟨hw1, hw2⟩
            exact ⟨by simp [Stream.Op.payload, hW], by simp [strReads, ht, hu], hwf'⟩
        | seek o w => exact absurd hthis (by simp [StrSeekFree])
        | reset => exact absurd hthis (by simp [StrSeekFree])
        | tidy =>
          obtain ⟨ho, ⟨hW, hc, hr1, hr2⟩, _⟩ := hs
          subst ho
          exact ⟨by simp [Stream.Op.payload, hW], by simp [strReads, hW, hc], ⟨by omega, by rw [hW, hc]; exact hw2⟩⟩
      obtain ⟨hW1, hT1, hwf1⟩ := hstep
      obtain ⟨hW', hT', hwf'⟩ := ih g1 g' os hwf1 hfree' hr
      have hrd : strReads (o :: os) = strReads [o] ++ strReads os := by
        cases o with
        | byte b e => cases e <;> simp [strReads]
        | _ => simp [strReads]
      refine ⟨?_, ?_, hwf'⟩
      · rw [hW', hW1, strWrites, List.append_assoc]
      · rw [hT', hT1, hrd, List.append_assoc]

end Got.Lemmas.Bytes
