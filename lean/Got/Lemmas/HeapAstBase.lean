import Got.Model.MiniGoHeap
import Got.Lemmas.SortAstBase
/-
Proof kit for the translator tie of container/heap (Got/Lemmas/HeapAst*.lean), the MiniGoHeap twin of
Got/Lemmas/SortAstBase.lean: `Runs W P x p env w r` = "with enough fuel the MiniGoHeap interpreter executes `p` from
`(env, w)` to `r`" (`x` = the function's `any` argument), one composition rule per statement form.  Conditions are
given by their value: `hc : evalC W env c w = some (b, w')`.  `wrap_eq` is `Got.Lemmas.SortAst.wrap_eq`.
-/
namespace Got.Lemmas.HeapAst
open Got.Model.MiniGoSort (wrap Env)
open Got.Model.MiniGoHeap

variable {σ ν : Type}

/-- every index the heap code handles is below 2^62 (slice lengths are) -/
abbrev B62 : Nat := 4611686018427387904

def Runs (W : World σ ν) (P : String → Option Fn) (x : Option ν) (p : List Stmt) (env : Env) (w : σ) (r : Res σ ν) : Prop :=
  ∃ f0, ∀ f, f0 ≤ f → exec W P x f p env w = some r

/-- a call of `fn` (no `any` parameter) with the already wrapped arguments returns `vs` and the world `w'` -/
def FnRuns (W : World σ ν) (P : String → Option Fn) (fn : Fn) (args : List Int) (w : σ) (vs : List Int) (w' : σ) : Prop :=
  Runs W P none fn.body args.toArray w (.ret vs w') ∨ (vs = [] ∧ ∃ e, Runs W P none fn.body args.toArray w (.cont e w'))

variable {W : World σ ν} {P : String → Option Fn} {x : Option ν}

theorem Runs.nil {env : Env} {w : σ} : Runs W P x [] env w (.cont env w) :=
  ⟨1, fun f hf => by obtain ⟨g, rfl⟩ : ∃ g, f = g + 1 := ⟨f - 1, by omega⟩; rfl⟩

theorem Runs.brk {rest : List Stmt} {env : Env} {w : σ} : Runs W P x (.brk :: rest) env w (.brk env w) :=
  ⟨1, fun f hf => by obtain ⟨g, rfl⟩ : ∃ g, f = g + 1 := ⟨f - 1, by omega⟩; rfl⟩

theorem Runs.ret {es : List Expr} {rest : List Stmt} {env : Env} {w : σ} :
    Runs W P x (.ret es :: rest) env w (.ret (es.map (eval (W.len w) env)) w) :=
  ⟨1, fun f hf => by obtain ⟨g, rfl⟩ : ∃ g, f = g + 1 := ⟨f - 1, by omega⟩; rfl⟩

theorem Runs.retB {c : Cond} {rest : List Stmt} {env : Env} {w w' : σ} {b : Bool}
    (hc : evalC W env c w = some (b, w')) : Runs W P x (.retB c :: rest) env w (.ret [if b then 1 else 0] w') :=
  ⟨1, fun f hf => by obtain ⟨g, rfl⟩ : ∃ g, f = g + 1 := ⟨f - 1, by omega⟩; simp only [exec, hc]⟩

theorem Runs.retPop {rest : List Stmt} {env : Env} {w w' : σ} {v : ν}
    (hp : W.pop w = some (v, w')) : Runs W P x (.retPop :: rest) env w (.retv v w') :=
  ⟨1, fun f hf => by obtain ⟨g, rfl⟩ : ∃ g, f = g + 1 := ⟨f - 1, by omega⟩; simp only [exec, hp]⟩

theorem Runs.retPop_panic {rest : List Stmt} {env : Env} {w : σ}
    (hp : W.pop w = none) : Runs W P x (.retPop :: rest) env w .panic :=
  ⟨1, fun f hf => by obtain ⟨g, rfl⟩ : ∃ g, f = g + 1 := ⟨f - 1, by omega⟩; simp only [exec, hp]⟩

theorem Runs.set {y : Nat} {e : Expr} {rest : List Stmt} {env : Env} {w : σ} {r : Res σ ν}
    (h : Runs W P x rest (env.set y (eval (W.len w) env e)) w r) : Runs W P x (.set y e :: rest) env w r := by
  obtain ⟨f0, h⟩ := h
  refine ⟨f0 + 1, fun f hf => ?_⟩
  obtain ⟨g, rfl⟩ : ∃ g, f = g + 1 := ⟨f - 1, by omega⟩
  simp only [exec]
  exact h g (by omega)

theorem Runs.swap {a b : Expr} {rest : List Stmt} {env : Env} {w w' : σ} {r : Res σ ν}
    (hs : W.swap w (eval (W.len w) env a) (eval (W.len w) env b) = some w')
    (h : Runs W P x rest env w' r) : Runs W P x (.swap a b :: rest) env w r := by
  obtain ⟨f0, h⟩ := h
  refine ⟨f0 + 1, fun f hf => ?_⟩
  obtain ⟨g, rfl⟩ : ∃ g, f = g + 1 := ⟨f - 1, by omega⟩
  simp only [exec, hs]
  exact h g (by omega)

theorem Runs.swap_panic {a b : Expr} {rest : List Stmt} {env : Env} {w : σ}
    (hs : W.swap w (eval (W.len w) env a) (eval (W.len w) env b) = none) :
    Runs W P x (.swap a b :: rest) env w .panic :=
  ⟨1, fun f hf => by obtain ⟨g, rfl⟩ : ∃ g, f = g + 1 := ⟨f - 1, by omega⟩; simp only [exec, hs]⟩

theorem Runs.hpush {rest : List Stmt} {env : Env} {w : σ} {v : ν} {r : Res σ ν}
    (h : Runs W P (some v) rest env (W.push w v) r) : Runs W P (some v) (.hpush :: rest) env w r := by
  obtain ⟨f0, h⟩ := h
  refine ⟨f0 + 1, fun f hf => ?_⟩
  obtain ⟨g, rfl⟩ : ∃ g, f = g + 1 := ⟨f - 1, by omega⟩
  simp only [exec]
  exact h g (by omega)

/-- the chosen branch falls through, then the rest runs -/
theorem Runs.ite {c : Cond} {t e rest : List Stmt} {env env' : Env} {w w1 w' : σ} {r : Res σ ν} {b : Bool}
    (hc : evalC W env c w = some (b, w1)) (hb : Runs W P x (if b then t else e) env w1 (.cont env' w'))
    (h : Runs W P x rest env' w' r) : Runs W P x (.ite c t e :: rest) env w r := by
  obtain ⟨f0, h⟩ := h
  obtain ⟨f1, hb⟩ := hb
  refine ⟨f0 + f1 + 1, fun f hf => ?_⟩
  obtain ⟨g, rfl⟩ : ∃ g, f = g + 1 := ⟨f - 1, by omega⟩
  simp only [exec, hc]
  rw [hb g (by omega)]
  exact h g (by omega)

/-- the chosen branch breaks -/
theorem Runs.ite_brk {c : Cond} {t e rest : List Stmt} {env env' : Env} {w w1 w' : σ} {b : Bool}
    (hc : evalC W env c w = some (b, w1)) (hb : Runs W P x (if b then t else e) env w1 (.brk env' w')) :
    Runs W P x (.ite c t e :: rest) env w (.brk env' w') := by
  obtain ⟨f1, hb⟩ := hb
  refine ⟨f1 + 1, fun f hf => ?_⟩
  obtain ⟨g, rfl⟩ : ∃ g, f = g + 1 := ⟨f - 1, by omega⟩
  simp only [exec, hc]
  rw [hb g (by omega)]

/-- the chosen branch returns / panics (any result that is not a fall-through or a break) -/
theorem Runs.ite_stop {c : Cond} {t e rest : List Stmt} {env : Env} {w w1 : σ} {b : Bool} {r : Res σ ν}
    (hc : evalC W env c w = some (b, w1)) (hb : Runs W P x (if b then t else e) env w1 r)
    (hr : ∀ e' w', r ≠ .cont e' w') : Runs W P x (.ite c t e :: rest) env w r := by
  obtain ⟨f1, hb⟩ := hb
  refine ⟨f1 + 1, fun f hf => ?_⟩
  obtain ⟨g, rfl⟩ : ∃ g, f = g + 1 := ⟨f - 1, by omega⟩
  simp only [exec, hc]
  rw [hb g (by omega)]
  cases r with
  | cont e' w' => exact absurd rfl (hr e' w')
  | _ => rfl

theorem Runs.loop_exit {c : Cond} {body post rest : List Stmt} {env : Env} {w w1 : σ} {r : Res σ ν}
    (hc : evalC W env c w = some (false, w1)) (h : Runs W P x rest env w1 r) :
    Runs W P x (.loop c body post :: rest) env w r := by
  obtain ⟨f0, h⟩ := h
  refine ⟨f0 + 1, fun f hf => ?_⟩
  obtain ⟨g, rfl⟩ : ∃ g, f = g + 1 := ⟨f - 1, by omega⟩
  simp only [exec, hc, Bool.false_eq_true, if_false]
  exact h g (by omega)

theorem Runs.loop_iter {c : Cond} {body post rest : List Stmt} {env env' env'' : Env} {w w1 w' w'' : σ} {r : Res σ ν}
    (hc : evalC W env c w = some (true, w1)) (hb : Runs W P x body env w1 (.cont env' w'))
    (hp : Runs W P x post env' w' (.cont env'' w'')) (h : Runs W P x (.loop c body post :: rest) env'' w'' r) :
    Runs W P x (.loop c body post :: rest) env w r := by
  obtain ⟨f0, h⟩ := h
  obtain ⟨f1, hb⟩ := hb
  obtain ⟨f2, hp⟩ := hp
  refine ⟨f0 + f1 + f2 + 1, fun f hf => ?_⟩
  obtain ⟨g, rfl⟩ : ∃ g, f = g + 1 := ⟨f - 1, by omega⟩
  simp only [exec, hc, if_true]
  rw [hb g (by omega)]
  simp only
  rw [hp g (by omega)]
  exact h g (by omega)

theorem Runs.loop_brk {c : Cond} {body post rest : List Stmt} {env env' : Env} {w w1 w' : σ} {r : Res σ ν}
    (hc : evalC W env c w = some (true, w1)) (hb : Runs W P x body env w1 (.brk env' w'))
    (h : Runs W P x rest env' w' r) : Runs W P x (.loop c body post :: rest) env w r := by
  obtain ⟨f0, h⟩ := h
  obtain ⟨f1, hb⟩ := hb
  refine ⟨f0 + f1 + 1, fun f hf => ?_⟩
  obtain ⟨g, rfl⟩ : ∃ g, f = g + 1 := ⟨f - 1, by omega⟩
  simp only [exec, hc, if_true]
  rw [hb g (by omega)]
  exact h g (by omega)

/-- a call statement of a function without `any` parameter: the callee runs (`FnRuns`), its results are assigned -/
theorem Runs.call {g : String} {fn : Fn} {args : List Expr} {res : List Nat} {rest : List Stmt} {env : Env}
    {w w' : σ} {vs : List Int} {r : Res σ ν}
    (hP : P g = some fn) (hnp : fn.nparams = args.length) (hnr : fn.nresults = res.length) (hna : fn.hasAny = false)
    (hf : FnRuns W P fn (args.map (eval (W.len w) env)) w vs w') (hvs : vs.length = res.length)
    (h : Runs W P x rest (env.setMany res vs) w' r) : Runs W P x (.call g args res :: rest) env w r := by
  obtain ⟨f0, h⟩ := h
  rcases hf with ⟨f1, hb⟩ | ⟨rfl, e, f1, hb⟩
  · refine ⟨f0 + f1 + 1, fun f hf => ?_⟩
    obtain ⟨k, rfl⟩ : ∃ k, f = k + 1 := ⟨f - 1, by omega⟩
    simp only [exec, hP, hnp, hnr, hna, and_self, if_true]
    rw [hb k (by omega)]
    simp only [hvs, if_true]
    exact h k (by omega)
  · refine ⟨f0 + f1 + 1, fun f hf => ?_⟩
    obtain ⟨k, rfl⟩ : ∃ k, f = k + 1 := ⟨f - 1, by omega⟩
    simp only [exec, hP, hnp, hnr, hna, and_self, if_true]
    rw [hb k (by omega)]
    have hr : res.length = 0 := by simpa using hvs.symm
    simp only [hr, if_true]
    have hres : res = [] := List.length_eq_zero_iff.mp hr
    subst hres
    exact h k (by omega)

/-- `Fn.run` (what the driver calls) from a run of the body -/
theorem run_of_Runs {fn : Fn} {args : List Int} {w : σ} {r : Res σ ν}
    (hnp : fn.nparams = args.length) (hx : fn.hasAny = x.isSome)
    (h : Runs W P x fn.body (args.map wrap).toArray w r) :
    ∃ f0, ∀ f, f0 ≤ f → fn.run W P f args x w =
      (match r with
       | .ret vs w' => if vs.length = fn.nresults then some (.done vs none w') else none
       | .retv v w' => some (.done [] (some v) w')
       | .cont _ w' => if fn.nresults = 0 then some (.done [] none w') else none
       | .panic => some .panic
       | .brk _ _ => none) := by
  obtain ⟨f0, h⟩ := h
  refine ⟨f0, fun f hf => ?_⟩
  unfold Fn.run
  rw [if_pos ⟨hnp, hx⟩, h f hf]
  cases r <;> rfl

end Got.Lemmas.HeapAst
