import Got.Model.Aes
/-
Helper lemmas for C19 (core Lean only, no Mathlib):
* store / slice algebra (`make`, `write`, `append`): what a slice reads after a write, frame conditions
* `chunks`, CBC and CFB at block level: round trips and lengths
* value-level characterisation of the slice-level model functions
-/
namespace Got.Lemmas.Aes
open Got.Model.Aes
open Got.Spec.Aes (Byte xorBytes chunks chunksAux cbcEncBlocks cbcDecBlocks cfbEncBlocks cfbDecBlocks pkcs7)

/-! ### bytes -/

theorem xor_cancel (a b : UInt8) : (a ^^^ b) ^^^ b = a := by
  rw [UInt8.xor_assoc, UInt8.xor_self, UInt8.xor_zero]

theorem xorBytes_length (a b : List Byte) : (xorBytes a b).length = min a.length b.length := by
  simp [xorBytes]

theorem xorBytes_cancel : ∀ (p k : List Byte), p.length ≤ k.length → xorBytes (xorBytes p k) k = p
  | [], _, _ => by simp [xorBytes]
  | _ :: _, [], h => by simp at h
  | a :: p, b :: k, h => by
    have ih := xorBytes_cancel p k (by simpa using h)
    simp only [xorBytes] at ih ⊢
    simp only [List.zipWith_cons_cons, xor_cancel, ih]

/-! ### chunks -/

theorem chunksAux_fuel (n : Nat) (hn : 0 < n) : ∀ (f1 f2 : Nat) (l : List Byte),
    l.length ≤ f1 → l.length ≤ f2 → chunksAux n f1 l = chunksAux n f2 l := by
  intro f1
  induction f1 with
  | zero =>
    intro f2 l h1 _
    have : l = [] := List.eq_nil_of_length_eq_zero (by omega)
    subst this
    cases f2 <;> simp [chunksAux]
  | succ f1 ih =>
    intro f2 l h1 h2
    cases f2 with
    | zero =>
      have : l = [] := List.eq_nil_of_length_eq_zero (by omega)
      subst this
      simp [chunksAux]
    | succ f2 =>
      simp only [chunksAux]
      split
      · rfl
      · rename_i hne
        have hl : 0 < l.length := by
          cases l with
          | nil => simp at hne
          | cons _ _ => simp
        rw [ih f2 (l.drop n) (by simp; omega) (by simp; omega)]

theorem chunks_nil (n : Nat) : chunks n [] = [] := by simp [chunks, chunksAux]

/-- a first chunk that is full, followed by something -/
theorem chunks_append (n : Nat) (hn : 0 < n) (b rest : List Byte) (hb : b.length = n) :
    chunks n (b ++ rest) = b :: chunks n rest := by
  unfold chunks
  have hlen : (b ++ rest).length = (b.length + rest.length - 1) + 1 := by simp; omega
  rw [hlen]
  simp only [chunksAux]
  have hne : (b ++ rest).isEmpty = false := by
    cases b with
    | nil => simp at hb; omega
    | cons _ _ => simp
  simp only [hne, Bool.false_eq_true, if_false]
  rw [List.take_left' hb, List.drop_left' hb]
  rw [chunksAux_fuel n hn _ rest.length rest (by omega) (Nat.le_refl _)]

/-- a single, possibly short, last chunk -/
theorem chunks_single (n : Nat) (b : List Byte) (h0 : 0 < b.length) (hb : b.length ≤ n) :
    chunks n b = [b] := by
  unfold chunks
  obtain ⟨k, hk⟩ : ∃ k, b.length = k + 1 := ⟨b.length - 1, by omega⟩
  rw [hk]
  simp only [chunksAux]
  have hne : b.isEmpty = false := by
    cases b with
    | nil => simp at h0
    | cons _ _ => simp
  simp only [hne, Bool.false_eq_true, if_false]
  rw [List.take_of_length_le hb, List.drop_of_length_le hb]
  cases k <;> simp [chunksAux]

/-- shape of a block list produced by `chunks 16`: all blocks full except possibly the last,
    which is non-empty -/
inductive Blocks (n : Nat) : List (List Byte) → Prop
  | nil : Blocks n []
  | last (b : List Byte) : 0 < b.length → b.length ≤ n → Blocks n [b]
  | cons (b : List Byte) (rest : List (List Byte)) : b.length = n → Blocks n rest → Blocks n (b :: rest)

theorem chunks_flatten (n : Nat) (hn : 0 < n) (bs : List (List Byte)) (h : Blocks n bs) :
    chunks n bs.flatten = bs := by
  induction h with
  | nil => simp [chunks_nil]
  | last b h0 hb => simpa using chunks_single n b h0 hb
  | cons b rest hb _ ih => simp only [List.flatten_cons]; rw [chunks_append n hn b _ hb, ih]

/-- every list splits into `Blocks`, and `flatten` undoes the split -/
theorem chunks_spec (n : Nat) (hn : 0 < n) : ∀ (k : Nat) (l : List Byte), l.length ≤ k →
    Blocks n (chunks n l) ∧ (chunks n l).flatten = l := by
  intro k
  induction k with
  | zero =>
    intro l h
    have : l = [] := List.eq_nil_of_length_eq_zero (by omega)
    subst this
    simp [chunks_nil, Blocks.nil]
  | succ k ih =>
    intro l h
    by_cases hl : l.length ≤ n
    · by_cases h0 : l.length = 0
      · have : l = [] := List.eq_nil_of_length_eq_zero h0
        subst this
        simp [chunks_nil, Blocks.nil]
      · rw [chunks_single n l (by omega) hl]
        exact ⟨Blocks.last l (by omega) hl, by simp⟩
    · have hsplit : l = l.take n ++ l.drop n := (List.take_append_drop n l).symm
      have htl : (l.take n).length = n := by simp; omega
      obtain ⟨h1, h2⟩ := ih (l.drop n) (by simp; omega)
      rw [hsplit, chunks_append n hn _ _ htl]
      exact ⟨Blocks.cons _ _ htl h1, by simp [h2]⟩

/-- all blocks full -/
def AllLen (n : Nat) (bs : List (List Byte)) : Prop := ∀ b ∈ bs, b.length = n

theorem AllLen.blocks {n : Nat} (hn : 0 < n) : ∀ {bs : List (List Byte)}, AllLen n bs → Blocks n bs
  | [], _ => Blocks.nil
  | b :: rest, h => Blocks.cons b rest (h b (by simp)) (AllLen.blocks hn (fun x hx => h x (by simp [hx])))

theorem chunks_allLen (n : Nat) (hn : 0 < n) : ∀ (k : Nat) (l : List Byte), l.length ≤ k → l.length % n = 0 →
    AllLen n (chunks n l) := by
  intro k
  induction k with
  | zero =>
    intro l h _
    have : l = [] := List.eq_nil_of_length_eq_zero (by omega)
    subst this
    simp [chunks_nil, AllLen]
  | succ k ih =>
    intro l h hm
    by_cases h0 : l.length = 0
    · have : l = [] := List.eq_nil_of_length_eq_zero h0
      subst this
      simp [chunks_nil, AllLen]
    · have hge : n ≤ l.length := by
        rcases Nat.lt_or_ge l.length n with hlt | hge
        · rw [Nat.mod_eq_of_lt hlt] at hm; omega
        · exact hge
      have hsplit : l = l.take n ++ l.drop n := (List.take_append_drop n l).symm
      have htl : (l.take n).length = n := by simp; omega
      have hrest := ih (l.drop n) (by simp; omega) (by
        simp only [List.length_drop]
        have := Nat.mod_eq_sub_mod hge
        omega)
      rw [hsplit, chunks_append n hn _ _ htl]
      intro b hb
      rcases List.mem_cons.mp hb with rfl | hb
      · exact htl
      · exact hrest b hb

theorem flatten_length_allLen (n : Nat) : ∀ (bs : List (List Byte)), AllLen n bs → bs.flatten.length = n * bs.length
  | [], _ => by simp
  | b :: rest, h => by
    have := flatten_length_allLen n rest (fun x hx => h x (by simp [hx]))
    simp only [List.flatten_cons, List.length_append, List.length_cons, this, h b (by simp)]
    rw [Nat.mul_add]; omega

/-! ### CBC at block level -/

theorem cbcEnc_length (E : BlockFn) : ∀ (ps : List (List Byte)) (prev : List Byte),
    (cbcEncBlocks E prev ps).length = ps.length
  | [], _ => rfl
  | _ :: ps, _ => by simp [cbcEncBlocks, cbcEnc_length E ps]

theorem cbcEnc_allLen (E : BlockFn) (hE : ∀ b : List Byte, b.length = 16 → (E b).length = 16) :
    ∀ (ps : List (List Byte)) (prev : List Byte), prev.length = 16 → AllLen 16 ps →
      AllLen 16 (cbcEncBlocks E prev ps)
  | [], _, _, _ => by simp [cbcEncBlocks, AllLen]
  | p :: ps, prev, hp, h => by
    have hpl : p.length = 16 := h p (by simp)
    have hc : (E (xorBytes p prev)).length = 16 := hE _ (by rw [xorBytes_length]; omega)
    have ih := cbcEnc_allLen E hE ps (E (xorBytes p prev)) hc (fun x hx => h x (by simp [hx]))
    intro b hb
    simp only [cbcEncBlocks, List.mem_cons] at hb
    rcases hb with rfl | hb
    · exact hc
    · exact ih b hb

theorem cbc_blocks_roundtrip (E D : BlockFn) (hE : ∀ b : List Byte, b.length = 16 → (E b).length = 16)
    (hD : ∀ b : List Byte, b.length = 16 → D (E b) = b) :
    ∀ (ps : List (List Byte)) (prev : List Byte), prev.length = 16 → AllLen 16 ps →
      cbcDecBlocks D prev (cbcEncBlocks E prev ps) = ps
  | [], _, _, _ => rfl
  | p :: ps, prev, hp, h => by
    have hpl : p.length = 16 := h p (by simp)
    have hx : (xorBytes p prev).length = 16 := by rw [xorBytes_length]; omega
    have hc : (E (xorBytes p prev)).length = 16 := hE _ hx
    simp only [cbcEncBlocks, cbcDecBlocks]
    rw [hD _ hx, xorBytes_cancel p prev (by omega),
      cbc_blocks_roundtrip E D hE hD ps _ hc (fun x hx => h x (by simp [hx]))]

theorem cbcEncrypt_length (E : BlockFn) (hE : ∀ b : List Byte, b.length = 16 → (E b).length = 16)
    (iv p : List Byte) (hiv : iv.length = 16) (hp : p.length % 16 = 0) :
    (Got.Spec.Aes.cbcEncrypt E iv p).length = p.length := by
  have hall := chunks_allLen 16 (by omega) p.length p (Nat.le_refl _) hp
  have hfl := (chunks_spec 16 (by omega) p.length p (Nat.le_refl _)).2
  have h1 := flatten_length_allLen 16 _ (cbcEnc_allLen E hE _ iv hiv hall)
  have h2 := flatten_length_allLen 16 _ hall
  rw [hfl] at h2
  unfold Got.Spec.Aes.cbcEncrypt
  rw [h1, cbcEnc_length, h2]

theorem cbc_roundtrip (E D : BlockFn) (hE : ∀ b : List Byte, b.length = 16 → (E b).length = 16)
    (hD : ∀ b : List Byte, b.length = 16 → D (E b) = b) (iv p : List Byte) (hiv : iv.length = 16)
    (hp : p.length % 16 = 0) :
    Got.Spec.Aes.cbcDecrypt D iv (Got.Spec.Aes.cbcEncrypt E iv p) = p := by
  have hall := chunks_allLen 16 (by omega) p.length p (Nat.le_refl _) hp
  have hfl := (chunks_spec 16 (by omega) p.length p (Nat.le_refl _)).2
  unfold Got.Spec.Aes.cbcDecrypt Got.Spec.Aes.cbcEncrypt
  rw [chunks_flatten 16 (by omega) _ (AllLen.blocks (by omega) (cbcEnc_allLen E hE _ iv hiv hall)),
    cbc_blocks_roundtrip E D hE hD _ iv hiv hall, hfl]

/-! ### CFB at block level -/

theorem cfb_blocks (E : BlockFn) (hE : ∀ b : List Byte, b.length = 16 → (E b).length = 16) :
    ∀ (ps : List (List Byte)) (prev : List Byte), prev.length = 16 → Blocks 16 ps →
      Blocks 16 (cfbEncBlocks E prev ps) ∧ cfbDecBlocks E prev (cfbEncBlocks E prev ps) = ps ∧
      (cfbEncBlocks E prev ps).flatten.length = ps.flatten.length := by
  intro ps prev hprev h
  induction h generalizing prev with
  | nil => exact ⟨Blocks.nil, rfl, rfl⟩
  | last b h0 hb =>
    have hk : (E prev).length = 16 := hE _ hprev
    have hl : (xorBytes b (E prev)).length = b.length := by rw [xorBytes_length]; omega
    refine ⟨?_, ?_, ?_⟩
    · simp only [cfbEncBlocks]; exact Blocks.last _ (by omega) (by omega)
    · simp only [cfbEncBlocks, cfbDecBlocks]; rw [xorBytes_cancel b _ (by omega)]
    · simp [cfbEncBlocks, hl]
  | cons b rest hb _ ih =>
    have hk : (E prev).length = 16 := hE _ hprev
    have hl : (xorBytes b (E prev)).length = 16 := by rw [xorBytes_length]; omega
    obtain ⟨i1, i2, i3⟩ := ih (xorBytes b (E prev)) hl
    refine ⟨?_, ?_, ?_⟩
    · simp only [cfbEncBlocks]; exact Blocks.cons _ _ hl i1
    · simp only [cfbEncBlocks, cfbDecBlocks]; rw [xorBytes_cancel b _ (by omega), i2]
    · simp only [cfbEncBlocks, List.flatten_cons, List.length_append, hl, hb, i3]

theorem cfbEncrypt_length (E : BlockFn) (hE : ∀ b : List Byte, b.length = 16 → (E b).length = 16)
    (iv p : List Byte) (hiv : iv.length = 16) : (Got.Spec.Aes.cfbEncrypt E iv p).length = p.length := by
  obtain ⟨hb, hfl⟩ := chunks_spec 16 (by omega) p.length p (Nat.le_refl _)
  have := (cfb_blocks E hE _ iv hiv hb).2.2
  unfold Got.Spec.Aes.cfbEncrypt
  rw [this, hfl]

theorem cfb_roundtrip (E : BlockFn) (hE : ∀ b : List Byte, b.length = 16 → (E b).length = 16)
    (iv p : List Byte) (hiv : iv.length = 16) :
    Got.Spec.Aes.cfbDecrypt E iv (Got.Spec.Aes.cfbEncrypt E iv p) = p := by
  obtain ⟨hb, hfl⟩ := chunks_spec 16 (by omega) p.length p (Nat.le_refl _)
  obtain ⟨h1, h2, _⟩ := cfb_blocks E hE _ iv hiv hb
  unfold Got.Spec.Aes.cfbDecrypt Got.Spec.Aes.cfbEncrypt
  rw [chunks_flatten 16 (by omega) _ h1, h2, hfl]

/-! ### store / slice algebra -/

theorem arr_append_lt (st : Store) (x : List Byte) (i : Nat) (h : i < st.length) :
    Store.arr (st ++ [x]) i = st.arr i := by
  simp [Store.arr, List.getD_eq_getElem?_getD, List.getElem?_append_left h]

theorem arr_append_eq (st : Store) (x : List Byte) : Store.arr (st ++ [x]) st.length = x := by
  simp [Store.arr, List.getD_eq_getElem?_getD]

theorem length_write (st : Store) (id pos : Nat) (xs : List Byte) : (st.write id pos xs).length = st.length := by
  simp [Store.write]

theorem arr_write_ne (st : Store) (id pos i : Nat) (xs : List Byte) (h : i ≠ id) :
    (st.write id pos xs).arr i = st.arr i := by
  simp only [Store.arr, Store.write, List.getD_eq_getElem?_getD, List.getElem?_set]
  rw [if_neg (by omega)]

theorem arr_write_eq (st : Store) (id pos : Nat) (xs : List Byte) (h : id < st.length) :
    (st.write id pos xs).arr id = writeAt (st.arr id) pos xs := by
  simp only [Store.write]
  generalize writeAt (st.arr id) pos xs = v
  simp [Store.arr, List.getD_eq_getElem?_getD, h]

theorem writeAt_length (l xs : List Byte) (pos : Nat) (h : pos + xs.length ≤ l.length) :
    (writeAt l pos xs).length = l.length := by
  simp only [writeAt, List.length_append, List.length_take, List.length_drop]; omega

/-- reading a window that starts at `off ≤ pos` and ends exactly where the written data ends -/
theorem writeAt_window (l xs : List Byte) (off len : Nat) (h : off + len + xs.length ≤ l.length) :
    ((writeAt l (off + len) xs).drop off).take (len + xs.length) = (l.drop off).take len ++ xs := by
  simp only [writeAt]
  have h1 : (l.take (off + len)).length = off + len := by simp; omega
  rw [List.append_assoc, List.drop_append_of_le_length (by omega), List.drop_take]
  have h2 : ((l.drop off).take (off + len - off)).length = len := by simp; omega
  have h3 : off + len - off = len := by omega
  rw [h3] at h2 ⊢
  rw [← List.append_assoc, List.take_append_of_le_length (by simp; omega)]
  rw [List.take_of_length_le (by simp; omega)]

theorem writeAt_zero_full (l xs : List Byte) (h : xs.length = l.length) : writeAt l 0 xs = xs := by
  simp [writeAt, h]

/-- `st'` extends `st` without changing any array that existed in `st` -/
def Frame (st st' : Store) : Prop := st.length ≤ st'.length ∧ ∀ i, i < st.length → st'.arr i = st.arr i

theorem Frame.refl (st : Store) : Frame st st := ⟨Nat.le_refl _, fun _ _ => rfl⟩

theorem Frame.snoc (st : Store) (x : List Byte) : Frame st (st ++ [x]) :=
  ⟨by simp, fun i hi => arr_append_lt st _ i hi⟩

theorem Frame.make (st : Store) (len cap : Nat) : Frame st (make st len cap).1 := Frame.snoc st _

theorem Frame.write {st st' : Store} (h : Frame st st') (id pos : Nat) (xs : List Byte) (hid : st.length ≤ id) :
    Frame st (st'.write id pos xs) :=
  ⟨by rw [length_write]; exact h.1, fun i hi => by rw [arr_write_ne _ _ _ _ _ (by omega)]; exact h.2 i hi⟩

theorem Frame.trans {a b c : Store} (h1 : Frame a b) (h2 : Frame b c) : Frame a c :=
  ⟨Nat.le_trans h1.1 h2.1, fun i hi => by rw [h2.2 i (Nat.lt_of_lt_of_le hi h1.1), h1.2 i hi]⟩

/-- `append` to a slice of an array allocated after `st` leaves `st`'s arrays alone, and the result still
    lives in an array allocated after `st` -/
theorem Frame.append {st st' : Store} (h : Frame st st') (s : Slice) (xs : List Byte) (hid : st.length ≤ s.id) :
    Frame st (append st' s xs).1 ∧ st.length ≤ (append st' s xs).2.id := by
  unfold Got.Model.Aes.append
  split
  · exact ⟨h.write _ _ _ hid, hid⟩
  · simp only [Got.Model.Aes.make]
    have := h.1
    refine ⟨(h.trans (Frame.snoc st' _)).write _ _ _ (by omega), by omega⟩

theorem bytes_length (st : Store) (s : Slice) (h : s.off + s.len ≤ (st.arr s.id).length) :
    (s.bytes st).length = s.len := by
  simp only [Slice.bytes, List.length_take, List.length_drop]; omega

theorem bytes_of_frame {st st' : Store} (h : Frame st st') (s : Slice) (hid : s.id < st.length) :
    s.bytes st' = s.bytes st := by
  simp only [Slice.bytes, h.2 s.id hid]

/-- in-place `append` (enough capacity): the result reads old bytes ++ new bytes -/
theorem append_inplace (st : Store) (s : Slice) (xs : List Byte) (hid : s.id < st.length)
    (hfit : s.len + xs.length ≤ s.cap) (hcap : s.off + s.cap ≤ (st.arr s.id).length) :
    append st s xs = (st.write s.id (s.off + s.len) xs, { s with len := s.len + xs.length }) ∧
    ({ s with len := s.len + xs.length } : Slice).bytes (st.write s.id (s.off + s.len) xs) = s.bytes st ++ xs ∧
    ((st.write s.id (s.off + s.len) xs).arr s.id).length = (st.arr s.id).length := by
  refine ⟨by simp [Got.Model.Aes.append, hfit], ?_, ?_⟩
  · simp only [Slice.bytes, arr_write_eq st _ _ _ hid]
    exact writeAt_window _ _ _ _ (by omega)
  · rw [arr_write_eq st _ _ _ hid, writeAt_length _ _ _ (by omega)]

/-- a fresh `make(len, len)` filled completely by one write reads back what was written -/
theorem make_write_bytes (st : Store) (n : Nat) (xs : List Byte) (h : xs.length = n) :
    (make st n n).2.bytes ((make st n n).1.write (make st n n).2.id 0 xs) = xs := by
  simp only [Got.Model.Aes.make, Slice.bytes]
  rw [arr_write_eq _ _ _ _ (by simp), arr_append_eq, writeAt_zero_full _ _ (by simp [h])]
  simp only [List.drop_zero]
  exact List.take_of_length_le (by omega)

/-! ### the model functions at value level -/

theorem pkcs7_length (bs : Nat) (p : List Byte) : (pkcs7 bs p).length = p.length + (bs - p.length % bs) := by
  simp [pkcs7]

/-- value-level pkcs5Trimming -/
def trimV (l : List Byte) : List Byte :=
  if l.length = 0 then l
  else if l.length < (l.getD (l.length - 1) 0).toNat then l
  else l.take (l.length - (l.getD (l.length - 1) 0).toNat)

theorem trimV_pkcs7 (bs : Nat) (h0 : 0 < bs) (h1 : bs ≤ 255) (p : List Byte) : trimV (pkcs7 bs p) = p := by
  have hmod : p.length % bs < bs := Nat.mod_lt _ h0
  have hpad : 0 < bs - p.length % bs := by omega
  have hlen := pkcs7_length bs p
  have hlast : (pkcs7 bs p).getD ((pkcs7 bs p).length - 1) 0 = UInt8.ofNat (bs - p.length % bs) := by
    rw [List.getD_eq_getElem?_getD, hlen]
    simp only [pkcs7]
    rw [List.getElem?_append_right (by omega)]
    rw [List.getElem?_replicate]
    simp only [show p.length + (bs - p.length % bs) - 1 - p.length < bs - p.length % bs from by omega, if_true,
      Option.getD_some]
  have hnat : (UInt8.ofNat (bs - p.length % bs)).toNat = bs - p.length % bs := by
    rw [UInt8.toNat_ofNat']
    exact Nat.mod_eq_of_lt (by omega)
  unfold trimV
  rw [hlast, hnat, hlen]
  rw [if_neg (by omega), if_neg (by omega)]
  simp only [pkcs7]
  rw [List.take_append_of_le_length (by omega), List.take_of_length_le (by omega)]

theorem pkcs5Trimming_bytes (st : Store) (s : Slice) (h : s.off + s.len ≤ (st.arr s.id).length) :
    (pkcs5Trimming st s).bytes st = trimV (s.bytes st) ∧ (pkcs5Trimming st s).id = s.id := by
  have hl := bytes_length st s h
  unfold pkcs5Trimming trimV
  rw [hl]
  by_cases h0 : s.len = 0
  · simp [h0]
  · simp only [h0, if_false]
    split
    · rename_i hneg
      rw [if_pos (by omega)]
      exact ⟨rfl, rfl⟩
    · rename_i hneg
      rw [if_neg (by omega)]
      refine ⟨?_, rfl⟩
      simp only [Slice.bytes, List.take_take]
      congr 1
      omega

theorem pkcs5Trimming_id (st : Store) (s : Slice) : (pkcs5Trimming st s).id = s.id := by
  unfold pkcs5Trimming
  by_cases h0 : s.len = 0
  · simp [h0]
  · simp only [h0, if_false]; split <;> rfl

theorem pkcs5Padding_eq (st : Store) (c : Slice) (bs : Nat) :
    pkcs5Padding st c bs =
      append
        (append (st ++ [List.replicate (c.len + (bs - c.len % bs)) 0]) ⟨st.length, 0, 0, c.len + (bs - c.len % bs)⟩
          (c.bytes (st ++ [List.replicate (c.len + (bs - c.len % bs)) 0]))).1
        (append (st ++ [List.replicate (c.len + (bs - c.len % bs)) 0]) ⟨st.length, 0, 0, c.len + (bs - c.len % bs)⟩
          (c.bytes (st ++ [List.replicate (c.len + (bs - c.len % bs)) 0]))).2
        (List.replicate (bs - c.len % bs) (UInt8.ofNat (bs - c.len % bs))) := rfl

/-- pkcs5Padding never touches an array that existed before the call; its result lives in a new array -/
theorem pkcs5Padding_frame (st : Store) (c : Slice) (bs : Nat) :
    Frame st (pkcs5Padding st c bs).1 ∧ st.length ≤ (pkcs5Padding st c bs).2.id := by
  rw [pkcs5Padding_eq]
  have h1 := Frame.append (Frame.snoc st (List.replicate (c.len + (bs - c.len % bs)) 0))
    ⟨st.length, 0, 0, c.len + (bs - c.len % bs)⟩
    (c.bytes (st ++ [List.replicate (c.len + (bs - c.len % bs)) 0])) (Nat.le_refl _)
  exact Frame.append h1.1 _ _ h1.2

theorem pkcs5Padding_spec (st : Store) (c : Slice) (bs : Nat) (hv : c.valid st) :
    (pkcs5Padding st c bs).2.bytes (pkcs5Padding st c bs).1 = pkcs7 bs (c.bytes st) ∧
    (pkcs5Padding st c bs).2.len = c.len + (bs - c.len % bs) ∧
    (pkcs5Padding st c bs).2.id < (pkcs5Padding st c bs).1.length ∧
    (pkcs5Padding st c bs).2.off + (pkcs5Padding st c bs).2.len ≤
      ((pkcs5Padding st c bs).1.arr (pkcs5Padding st c bs).2.id).length := by
  obtain ⟨hid, hlc, hcap⟩ := hv
  rw [pkcs5Padding_eq]
  generalize hpad : bs - c.len % bs = pad
  have hb : c.bytes (st ++ [List.replicate (c.len + pad) 0]) = c.bytes st := bytes_of_frame (Frame.snoc st _) c hid
  have hbl : (c.bytes st).length = c.len := bytes_length st c (by omega)
  rw [hb]
  obtain ⟨e1, b1, l1⟩ := append_inplace (st ++ [List.replicate (c.len + pad) 0]) ⟨st.length, 0, 0, c.len + pad⟩ (c.bytes st)
    (by simp) (by simp only [hbl]; omega) (by simp only [arr_append_eq, List.length_replicate]; omega)
  rw [e1]
  simp only [Nat.zero_add] at b1 l1 ⊢
  rw [arr_append_eq, List.length_replicate] at l1
  obtain ⟨e2, b2, l2⟩ := append_inplace
    ((st ++ [List.replicate (c.len + pad) 0]).write st.length 0 (c.bytes st))
    ⟨st.length, 0, (c.bytes st).length, c.len + pad⟩
    (List.replicate pad (UInt8.ofNat pad))
    (by rw [length_write]; simp) (by simp only [hbl, List.length_replicate]; omega)
    (by simp only [l1]; omega)
  rw [e2]
  simp only [Nat.zero_add] at b2 l2 ⊢
  refine ⟨?_, ?_, ?_, ?_⟩
  · rw [b2, b1]
    have hnil : Slice.bytes (st ++ [List.replicate (c.len + pad) 0]) ⟨st.length, 0, 0, c.len + pad⟩ = [] := by
      simp [Slice.bytes]
    rw [hnil]
    simp only [pkcs7, hbl, hpad, List.nil_append]
  · simp [hbl]
  · rw [length_write, length_write]; simp
  · rw [l2, l1]; simp [hbl]

/-! ### Encrypt / Decrypt -/

theorem cbcEncryptWith_eq (pad : Store → Slice → Nat → Store × Slice) (E : BlockFn) (iv : List Byte) (st : Store) (c : Slice) :
    cbcEncryptWith pad E iv st c =
      if iv.length ≠ 16 then .error .ivLength
      else if (pad st c 16).2.len % 16 ≠ 0 then .error .notFullBlocks
      else .ok (((make (pad st c 16).1 (pad st c 16).2.len (pad st c 16).2.len).1.write
                  (make (pad st c 16).1 (pad st c 16).2.len (pad st c 16).2.len).2.id 0
                  (Got.Spec.Aes.cbcEncrypt E iv ((pad st c 16).2.bytes (make (pad st c 16).1 (pad st c 16).2.len (pad st c 16).2.len).1))),
                (make (pad st c 16).1 (pad st c 16).2.len (pad st c 16).2.len).2) := rfl

theorem cbcDecrypt_eq (D : BlockFn) (iv : List Byte) (st : Store) (c : Slice) :
    cbcDecrypt D iv st c =
      if iv.length ≠ 16 then .error .ivLength
      else if c.len % 16 ≠ 0 then .error .notFullBlocks
      else .ok ((make st c.len c.len).1.write (make st c.len c.len).2.id 0
                  (Got.Spec.Aes.cbcDecrypt D iv (c.bytes (make st c.len c.len).1)),
                pkcs5Trimming ((make st c.len c.len).1.write (make st c.len c.len).2.id 0
                  (Got.Spec.Aes.cbcDecrypt D iv (c.bytes (make st c.len c.len).1))) (make st c.len c.len).2) := rfl

theorem cfbEncrypt_eq (E : BlockFn) (iv : List Byte) (st : Store) (c : Slice) :
    cfbEncrypt E iv st c =
      if iv.length ≠ 16 then .error .ivLength
      else .ok ((make st c.len c.len).1.write (make st c.len c.len).2.id 0
                  (Got.Spec.Aes.cfbEncrypt E iv (c.bytes (make st c.len c.len).1)), (make st c.len c.len).2) := rfl

theorem cfbDecrypt_eq (E : BlockFn) (iv : List Byte) (st : Store) (c : Slice) :
    cfbDecrypt E iv st c =
      if iv.length ≠ 16 then .error .ivLength
      else .ok ((make st c.len c.len).1.write (make st c.len c.len).2.id 0
                  (Got.Spec.Aes.cfbDecrypt E iv (c.bytes (make st c.len c.len).1)), (make st c.len c.len).2) := rfl

/-- what "the call left the caller's memory alone" means for a result: every array that existed before the
    call has the same contents afterwards, and the returned slice lives in an array allocated by the call -/
def Untouched (st : Store) : Except Panic (Store × Slice) → Prop
  | .ok (st', out) => Frame st st' ∧ st.length ≤ out.id
  | .error _ => True

theorem make_write_frame (st : Store) (n : Nat) (xs : List Byte) :
    Frame st ((make st n n).1.write (make st n n).2.id 0 xs) ∧ st.length ≤ (make st n n).2.id :=
  ⟨(Frame.make st n n).write _ _ _ (Nat.le_refl _), Nat.le_refl _⟩

theorem cbcEncrypt_untouched (E : BlockFn) (iv : List Byte) (st : Store) (c : Slice) :
    Untouched st (cbcEncrypt E iv st c) := by
  unfold cbcEncrypt
  rw [cbcEncryptWith_eq]
  split
  · trivial
  · split
    · trivial
    · obtain ⟨hf, _⟩ := pkcs5Padding_frame st c 16
      obtain ⟨h1, h2⟩ := make_write_frame (pkcs5Padding st c 16).1 (pkcs5Padding st c 16).2.len
        (Got.Spec.Aes.cbcEncrypt E iv ((pkcs5Padding st c 16).2.bytes
          (make (pkcs5Padding st c 16).1 (pkcs5Padding st c 16).2.len (pkcs5Padding st c 16).2.len).1))
      exact ⟨hf.trans h1, Nat.le_trans hf.1 h2⟩

theorem cbcDecrypt_untouched (D : BlockFn) (iv : List Byte) (st : Store) (c : Slice) :
    Untouched st (cbcDecrypt D iv st c) := by
  rw [cbcDecrypt_eq]
  split
  · trivial
  · split
    · trivial
    · obtain ⟨h1, h2⟩ := make_write_frame st c.len (Got.Spec.Aes.cbcDecrypt D iv (c.bytes (make st c.len c.len).1))
      refine ⟨h1, ?_⟩
      rw [pkcs5Trimming_id]; exact h2

theorem cfbEncrypt_untouched (E : BlockFn) (iv : List Byte) (st : Store) (c : Slice) :
    Untouched st (cfbEncrypt E iv st c) := by
  rw [cfbEncrypt_eq]
  split
  · trivial
  · exact make_write_frame st c.len _

theorem cfbDecrypt_untouched (E : BlockFn) (iv : List Byte) (st : Store) (c : Slice) :
    Untouched st (cfbDecrypt E iv st c) := by
  rw [cfbDecrypt_eq]
  split
  · trivial
  · exact make_write_frame st c.len _

/-- result of a `make(n, n)` + full write: a valid slice reading `xs` -/
theorem make_write_valid (st : Store) (n : Nat) (xs : List Byte) (h : xs.length = n) :
    (make st n n).2.valid ((make st n n).1.write (make st n n).2.id 0 xs) := by
  simp only [Got.Model.Aes.make, Slice.valid]
  refine ⟨by rw [length_write]; simp, Nat.le_refl _, ?_⟩
  rw [arr_write_eq _ _ _ _ (by simp), arr_append_eq, writeAt_zero_full _ _ (by simp [h])]
  omega

theorem cbcEncrypt_spec (E : BlockFn) (hE : ∀ b : List Byte, b.length = 16 → (E b).length = 16)
    (iv : List Byte) (hiv : iv.length = 16) (st : Store) (c : Slice) (hv : c.valid st) :
    ∃ st' out, cbcEncrypt E iv st c = .ok (st', out) ∧
      out.bytes st' = Got.Spec.Aes.cbcEncrypt E iv (pkcs7 16 (c.bytes st)) ∧ out.valid st' ∧
      out.len = 16 * (c.len / 16 + 1) := by
  obtain ⟨hb, hl, hid, hcap⟩ := pkcs5Padding_spec st c 16 hv
  have hbl : (c.bytes st).length = c.len := bytes_length st c (by have := hv.2.1; have := hv.2.2; omega)
  have hmod : (pkcs5Padding st c 16).2.len % 16 = 0 := by rw [hl]; omega
  have hbytes : (pkcs5Padding st c 16).2.bytes (make (pkcs5Padding st c 16).1 (pkcs5Padding st c 16).2.len
      (pkcs5Padding st c 16).2.len).1 = pkcs7 16 (c.bytes st) := by
    rw [bytes_of_frame (Frame.make _ _ _) _ hid, hb]
  have hclen : (Got.Spec.Aes.cbcEncrypt E iv (pkcs7 16 (c.bytes st))).length = (pkcs5Padding st c 16).2.len := by
    rw [cbcEncrypt_length E hE iv _ hiv (by rw [pkcs7_length, hbl]; omega), pkcs7_length, hbl, hl]
  unfold cbcEncrypt
  rw [cbcEncryptWith_eq, if_neg (by omega), if_neg (by omega)]
  refine ⟨_, _, rfl, ?_, ?_, ?_⟩
  · rw [hbytes]; exact make_write_bytes _ _ _ hclen
  · rw [hbytes]; exact make_write_valid _ _ _ hclen
  · show (pkcs5Padding st c 16).2.len = _
    rw [hl]; omega

theorem cbcDecrypt_spec (D : BlockFn) (iv : List Byte) (hiv : iv.length = 16) (st : Store) (c : Slice)
    (hv : c.valid st) (hm : c.len % 16 = 0) (hlen : (Got.Spec.Aes.cbcDecrypt D iv (c.bytes st)).length = c.len) :
    ∃ st' out, cbcDecrypt D iv st c = .ok (st', out) ∧
      out.bytes st' = trimV (Got.Spec.Aes.cbcDecrypt D iv (c.bytes st)) := by
  have hbytes : c.bytes (make st c.len c.len).1 = c.bytes st := bytes_of_frame (Frame.make _ _ _) _ hv.1
  rw [cbcDecrypt_eq, if_neg (by omega), if_neg (by omega)]
  refine ⟨_, _, rfl, ?_⟩
  rw [hbytes]
  have hval := make_write_valid st c.len _ hlen
  have := (pkcs5Trimming_bytes ((make st c.len c.len).1.write (make st c.len c.len).2.id 0
    (Got.Spec.Aes.cbcDecrypt D iv (c.bytes st))) (make st c.len c.len).2
    (by have := hval.2.1; have := hval.2.2; omega)).1
  rw [this, make_write_bytes _ _ _ hlen]

theorem cfbEncrypt_spec (E : BlockFn) (hE : ∀ b : List Byte, b.length = 16 → (E b).length = 16)
    (iv : List Byte) (hiv : iv.length = 16) (st : Store) (c : Slice) (hv : c.valid st) :
    ∃ st' out, cfbEncrypt E iv st c = .ok (st', out) ∧
      out.bytes st' = Got.Spec.Aes.cfbEncrypt E iv (c.bytes st) ∧ out.valid st' ∧ out.len = c.len := by
  have hbytes : c.bytes (make st c.len c.len).1 = c.bytes st := bytes_of_frame (Frame.make _ _ _) _ hv.1
  have hbl : (c.bytes st).length = c.len := bytes_length st c (by have := hv.2.1; have := hv.2.2; omega)
  have hclen : (Got.Spec.Aes.cfbEncrypt E iv (c.bytes st)).length = c.len := by
    rw [cfbEncrypt_length E hE iv _ hiv, hbl]
  rw [cfbEncrypt_eq, if_neg (by omega)]
  refine ⟨_, _, rfl, ?_, ?_, rfl⟩
  · rw [hbytes]; exact make_write_bytes _ _ _ hclen
  · rw [hbytes]; exact make_write_valid _ _ _ hclen

theorem cfbDecrypt_spec (E : BlockFn) (iv : List Byte) (hiv : iv.length = 16) (st : Store) (c : Slice)
    (hv : c.valid st) (hlen : (Got.Spec.Aes.cfbDecrypt E iv (c.bytes st)).length = c.len) :
    ∃ st' out, cfbDecrypt E iv st c = .ok (st', out) ∧
      out.bytes st' = Got.Spec.Aes.cfbDecrypt E iv (c.bytes st) := by
  have hbytes : c.bytes (make st c.len c.len).1 = c.bytes st := bytes_of_frame (Frame.make _ _ _) _ hv.1
  rw [cfbDecrypt_eq, if_neg (by omega)]
  refine ⟨_, _, rfl, ?_⟩
  rw [hbytes]; exact make_write_bytes _ _ _ hlen

end Got.Lemmas.Aes
