import Got.Spec.Bytes
/-
Helper lemmas for C13 (iox.Buffer): list facts about Go's `copy`, the characterisation of `grow`,
and one refinement lemma per operation.  Core Lean only.
-/
namespace Got.Lemmas.Bytes
open Got.Model.Bytes Got.Spec.Bytes
set_option linter.unusedVariables false

theorem smallBufferSize_eq : smallBufferSize = 64 := by decide
theorem maxInt_eq : maxInt = 9223372036854775807 := by decide
theorem maxAlloc_eq : maxAlloc = 281474976710656 := by decide
theorem slideDiv_eq : slideDiv = 2 := by decide
theorem growMul_eq : growMul = 2 := by decide

/-- a wrapped 64-bit addition passes a `0 ≤ · ≤ L` test exactly when the exact sum does, and then equals it -/
theorem wrap64_range (o a L : Int) (ho : -(2 ^ 63 : Int) ≤ o ∧ o < 2 ^ 63) (ha : 0 ≤ a) (haL : a < 2 ^ 63)
    (hL : L < 2 ^ 63) :
    (0 ≤ wrap64 (o + a) ∧ wrap64 (o + a) ≤ L) ↔ (0 ≤ o + a ∧ o + a ≤ L) := by
  unfold wrap64
  simp only [Int.reducePow] at *
  omega

theorem wrap64_exact (o a L : Int) (ho : -(2 ^ 63 : Int) ≤ o ∧ o < 2 ^ 63) (ha : 0 ≤ a) (haL : a < 2 ^ 63)
    (hL : L < 2 ^ 63) (h : 0 ≤ o + a ∧ o + a ≤ L) : wrap64 (o + a) = o + a := by
  unfold wrap64
  simp only [Int.reducePow] at *
  omega

/-- `copy(dst[at:], p)` when exactly `len p` bytes follow `at` -/
theorem copyAt_exact (x f p : List Byte) (h : f.length = p.length) :
    copyAt (x ++ f) x.length p = (x ++ p, p.length) := by
  unfold copyAt
  simp [h]

/-- `copy(dst, src)` followed by `dst[:len src]`, for `len src ≤ len dst` -/
theorem copyAt_zero_take (dst src : List Byte) (h : src.length ≤ dst.length) :
    (copyAt dst 0 src).1.take src.length = src := by
  unfold copyAt
  simp [Nat.min_eq_right h]

/-- `buf := make([]byte, N); copy(buf, src); buf[:len src + n]` -/
theorem copyAt_fresh (N n : Nat) (src : List Byte) (h : src.length + n ≤ N) :
    (copyAt (List.replicate N 0) 0 src).1.take (src.length + n) = src ++ List.replicate n 0 := by
  unfold copyAt
  have h1 : min (N - 0) src.length = src.length := by omega
  have h2 : min n (N - src.length) = n := by omega
  simp only [List.length_replicate, h1, List.take_zero, List.nil_append, Nat.zero_add, List.take_length]
  rw [List.take_length_add_append, List.drop_replicate, List.take_replicate, h2]

theorem ok_intro {x : Buffer.GrowRes} {b' : Buffer} {i j : Nat} (h1 : x = .ok b' i) (h2 : i = j) :
    x = .ok b' j := h2 ▸ h1

/-- what `grow(n)` does to the contents: it returns normally; the retained bytes are either all kept
    (`k = 0`, reslice) or exactly the consumed prefix is dropped (`k = off`: reset-if-empty, slide, reallocate);
    `n` filler bytes follow; the write index is the end of the data; capacity suffices. -/
theorem grow_char (b : Buffer) (n : Nat) (hinv : BufferInv b)
    (hbound : ((2 * (b.buf.length + n) + n : Nat) : Int) ≤ maxAlloc) :
    ∃ b' k, b.grow n = .ok b' (b.buf.length - k) ∧ (k = 0 ∨ k = b.off) ∧ b'.off = b.off - k ∧
      b'.buf = b.buf.drop k ++ List.replicate n 0 ∧ BufferInv b' ∧
      (b'.cap = b.cap ∨ b'.cap ≤ 64 ∨ b'.cap ≤ 2 * (b.buf.length + n) + n) := by
  obtain ⟨hoff, hcap, hnil⟩ := hinv
  unfold Buffer.grow
  simp only []
  by_cases hreset : b.buf.length - b.off = 0 ∧ b.off ≠ 0
  · -- buffer empty with off ≠ 0: Reset first
    have hlen : b.buf.length = b.off := by omega
    simp only [hreset, and_self, if_true, ne_eq, not_false_eq_true]
    unfold Buffer.tryGrowByReslice Buffer.reset
    simp only [List.length_nil, Nat.sub_zero, List.nil_append]
    by_cases h1 : n ≤ b.cap
    · simp only [h1, if_true]
      refine ⟨_, b.off, ok_intro rfl (by omega), Or.inr rfl, ?_, ?_, ⟨?_, ?_, ?_⟩, Or.inl rfl⟩
      · simp
      · simp [← hlen]
      · simp
      · simpa using h1
      · simpa using hnil
    · simp only [h1, if_false]
      by_cases h2 : b.isNil = true ∧ n ≤ smallBufferSize
      · simp only [h2, and_self, if_true]
        refine ⟨_, b.off, ok_intro rfl (by omega), Or.inr rfl, ?_, ?_, ⟨?_, ?_, ?_⟩, Or.inr (Or.inl ?_)⟩
        · simp
        · simp [← hlen]
        · simp
        · simpa using h2.2
        · simp [smallBufferSize_eq]
        · simp [smallBufferSize_eq]
      · simp only [h2, if_false]
        have hc : ¬ ((n : Int) ≤ ((b.cap / slideDiv : Nat) : Int) - ((0 : Nat) : Int)) := by
          rw [slideDiv_eq]; omega
        simp only [hc, if_false]
        have ht : ¬ ((b.cap : Int) > maxInt - (b.cap : Int) - (n : Int)) := by
          simp only [maxInt_eq, maxAlloc_eq] at *; omega
        have ht2 : ¬ (((2 * b.cap + n : Nat) : Int) > maxAlloc) := by
          simp only [maxAlloc_eq] at *; omega
        simp only [growMul_eq, ht, ht2, if_false]
        have hfresh := copyAt_fresh (2 * b.cap + n) n ([] : List Byte) (by simp)
        simp only [List.length_nil, Nat.zero_add, List.nil_append] at hfresh
        refine ⟨_, b.off, ok_intro rfl (by omega), Or.inr rfl, ?_, ?_, ⟨?_, ?_, ?_⟩, Or.inr (Or.inr ?_)⟩
        · simp
        · simp only [List.drop_nil, Nat.zero_add, hfresh]
          simp [← hlen]
        · simp
        · simp only [List.drop_nil, Nat.zero_add, hfresh, List.length_replicate]; omega
        · simp only [Bool.false_eq_true, false_iff]; omega
        · simp only; omega
  · -- no reset
    simp only [hreset, if_false]
    unfold Buffer.tryGrowByReslice
    simp only []
    by_cases h1 : n ≤ b.cap - b.buf.length
    · simp only [h1, if_true]
      refine ⟨_, 0, ok_intro rfl (by omega), Or.inl rfl, ?_, ?_, ⟨?_, ?_, ?_⟩, Or.inl rfl⟩
      · simp
      · simp
      · simp; omega
      · simp; omega
      · simpa using hnil
    · simp only [h1, if_false]
      by_cases h2 : b.isNil = true ∧ n ≤ smallBufferSize
      · simp only [h2, and_self, if_true]
        have hc0 : b.cap = 0 := hnil.1 h2.1
        have hl0 : b.buf.length = 0 := by omega
        have hb0 : b.buf = [] := List.eq_nil_of_length_eq_zero hl0
        refine ⟨_, 0, ok_intro rfl (by omega), Or.inl rfl, ?_, ?_, ⟨?_, ?_, ?_⟩, Or.inr (Or.inl ?_)⟩
        · simp
        · simp [hb0]
        · simp; omega
        · simpa using h2.2
        · simp [smallBufferSize_eq]
        · simp [smallBufferSize_eq]
      · simp only [h2, if_false]
        have hsrc : (b.buf.drop b.off).length = b.buf.length - b.off := List.length_drop
        by_cases hc : (n : Int) ≤ ((b.cap / slideDiv : Nat) : Int) - ((b.buf.length - b.off : Nat) : Int)
        · -- slide down
          simp only [hc, if_true]
          have hcp := copyAt_zero_take b.buf (b.buf.drop b.off) (by rw [hsrc]; omega)
          rw [hsrc] at hcp
          rw [slideDiv_eq] at hc
          refine ⟨_, b.off, rfl, Or.inr rfl, ?_, ?_, ⟨?_, ?_, ?_⟩, Or.inl rfl⟩
          · simp
          · simp only [hcp]
          · simp
          · simp only [hcp, List.length_append, hsrc, List.length_replicate]; omega
          · simpa using hnil
        · simp only [hc, if_false]
          have ht : ¬ ((b.cap : Int) > maxInt - (b.cap : Int) - (n : Int)) := by
            simp only [maxInt_eq, maxAlloc_eq] at *; omega
          have ht2 : ¬ (((2 * b.cap + n : Nat) : Int) > maxAlloc) := by
            simp only [maxAlloc_eq] at *; omega
          simp only [growMul_eq, ht, ht2, if_false]
          have hfresh := copyAt_fresh (2 * b.cap + n) n (b.buf.drop b.off) (by rw [hsrc]; omega)
          rw [hsrc] at hfresh
          refine ⟨_, b.off, rfl, Or.inr rfl, ?_, ?_, ⟨?_, ?_, ?_⟩, Or.inr (Or.inr ?_)⟩
          · simp
          · simp only [hfresh]
          · simp
          · simp only [hfresh, List.length_append, hsrc, List.length_replicate]; omega
          · simp only [Bool.false_eq_true, false_iff]
            have : n ≠ 0 := by omega
            omega
          · simp only; omega

/-- `Write(p)`: returns `(len p, nil)`; the retained data loses either nothing or exactly the consumed prefix
    and gains `p` at the end. -/
theorem write_char (b : Buffer) (p : List Byte) (hinv : BufferInv b)
    (hbound : ((2 * (b.buf.length + p.length) + p.length : Nat) : Int) ≤ maxAlloc) :
    ∃ b' k, b.write p = (b', .wrote p.length) ∧ (k = 0 ∨ k = b.off) ∧ b'.off = b.off - k ∧
      b'.buf = b.buf.drop k ++ p ∧ BufferInv b' ∧
      (b'.cap = b.cap ∨ b'.cap ≤ 64 ∨ b'.cap ≤ 2 * (b.buf.length + p.length) + p.length) := by
  unfold Buffer.write
  by_cases h1 : p.length ≤ b.cap - b.buf.length
  · have : b.tryGrowByReslice p.length
        = some ({ b with buf := b.buf ++ List.replicate p.length 0 }, b.buf.length) := by
      unfold Buffer.tryGrowByReslice; simp only [h1, if_true]
    simp only [this, copyAt_exact b.buf (List.replicate p.length 0) p (by simp)]
    obtain ⟨hoff, hcap, hnil⟩ := hinv
    refine ⟨_, 0, rfl, Or.inl rfl, ?_, ?_, ⟨?_, ?_, ?_⟩, Or.inl rfl⟩
    · simp
    · simp
    · simp; omega
    · simp; omega
    · simpa using hnil
  · have : b.tryGrowByReslice p.length = none := by
      unfold Buffer.tryGrowByReslice; simp only [h1, if_false]
    obtain ⟨b', k, hg, hk, hoff', hbuf', hinv', hcap'⟩ := grow_char b p.length hinv hbound
    simp only [this, hg]
    have hkl : b.buf.length - k = (b.buf.drop k).length := by simp
    have hcp : copyAt b'.buf (b.buf.length - k) p = (b.buf.drop k ++ p, p.length) := by
      rw [hbuf', hkl]; exact copyAt_exact _ _ _ (by simp)
    simp only [hcp]
    obtain ⟨hoff2, hcap2, hnil2⟩ := hinv'
    refine ⟨_, k, rfl, hk, hoff', rfl, ⟨?_, ?_, ?_⟩, hcap'⟩
    · simp only [List.length_append, List.length_drop]
      rw [hbuf'] at hoff2; simp only [List.length_append, List.length_drop, List.length_replicate] at hoff2
      omega
    · simp only [List.length_append, List.length_drop]
      rw [hbuf'] at hcap2; simp only [List.length_append, List.length_drop, List.length_replicate] at hcap2
      omega
    · exact hnil2

/-- `Grow(n)`, `n ≥ 0`: contents as after `grow`, without the filler. -/
theorem growOp_char (b : Buffer) (n : Int) (hn : 0 ≤ n) (hinv : BufferInv b)
    (hbound : ((2 * (b.buf.length + n.toNat) + n.toNat : Nat) : Int) ≤ maxAlloc) :
    ∃ b' k, b.growOp n = (b', .unit) ∧ (k = 0 ∨ k = b.off) ∧ b'.off = b.off - k ∧
      b'.buf = b.buf.drop k ∧ BufferInv b' ∧ n.toNat ≤ b'.cap - b'.buf.length := by
  unfold Buffer.growOp
  have hneg : ¬ n < 0 := by omega
  obtain ⟨b', k, hg, hk, hoff', hbuf', hinv', _⟩ := grow_char b n.toNat hinv hbound
  simp only [hneg, if_false, hg]
  have hkl : b.buf.length - k = (b.buf.drop k).length := by simp
  have htk : b'.buf.take (b.buf.length - k) = b.buf.drop k := by
    rw [hbuf', hkl, List.take_left']
    rfl
  obtain ⟨hoff2, hcap2, hnil2⟩ := hinv'
  rw [hbuf'] at hoff2 hcap2
  simp only [List.length_append, List.length_drop, List.length_replicate] at hoff2 hcap2
  refine ⟨_, k, rfl, hk, hoff', htk, ⟨?_, ?_, hnil2⟩, ?_⟩
  · simp only [htk, List.length_drop]
    rcases hk with hk | hk <;> subst hk <;> obtain ⟨h, _, _⟩ := hinv <;> omega
  · simp only [htk, List.length_drop]; omega
  · simp only [htk, List.length_drop]; omega

/- ---- the representation relation ---- -/

theorem rel_unread {b : Buffer} {g : Ghost} (h : BufferRel b g) : b.buf.drop b.off = g.unread := by
  obtain ⟨⟨h1, h2⟩, hb, ho⟩ := h
  rw [hb, ho, List.drop_drop]
  unfold Ghost.unread
  congr 1; omega

theorem rel_len {b : Buffer} {g : Ghost} (h : BufferRel b g) : b.buf.length = g.W.length - g.r := by
  obtain ⟨_, hb, _⟩ := h
  rw [hb, List.length_drop]

theorem rel_off_le {b : Buffer} {g : Ghost} (h : BufferRel b g) : b.off ≤ b.buf.length := by
  have := rel_len h
  obtain ⟨⟨h1, h2⟩, _, ho⟩ := h
  omega

/-- dropping `k ≤ off` more retained bytes and appending `p` is an `Appends` step of the ghost state -/
theorem rel_compact_append {b b' : Buffer} {g : Ghost} (h : BufferRel b g) (k : Nat) (p : List Byte)
    (hk : k ≤ b.off) (hoff : b'.off = b.off - k) (hbuf : b'.buf = b.buf.drop k ++ p) :
    let g' : Ghost := { W := g.W ++ p, r := g.r + k, c := g.c }
    g.Appends p g' ∧ BufferRel b' g' := by
  obtain ⟨⟨h1, h2⟩, hb, ho⟩ := h
  refine ⟨⟨rfl, rfl, by simp, by simp; omega⟩, ⟨by simp; omega, by simp; omega⟩, ?_, ?_⟩
  · simp only [hbuf, hb, List.drop_drop]
    rw [List.drop_append_of_le_length (by omega)]
  · simp only [hoff, ho]; omega

/-- everything the induction carries: representation, model invariant, size accounting -/
def BufferSim (b : Buffer) (g : Ghost) (S : Nat) : Prop :=
  BufferRel b g ∧ BufferInv b ∧ b.buf.length ≤ S

theorem sim_write (b : Buffer) (g : Ghost) (S : Nat) (p : List Byte) (h : BufferSim b g S)
    (hbound : ((3 * (S + p.length) : Nat) : Int) ≤ maxAlloc) :
    ∃ g', BufferSpec g (.write p) (b.write p).2 g' ∧ BufferSim (b.write p).1 g' (S + p.length) := by
  obtain ⟨hrel, hinv, hS⟩ := h
  obtain ⟨b', k, hw, hk, hoff', hbuf', hinv', _⟩ := write_char b p hinv (by simp only [maxAlloc_eq] at *; omega)
  have hkle : k ≤ b.off := by rcases hk with hk | hk <;> omega
  obtain ⟨happ, hrel'⟩ := rel_compact_append hrel k p hkle hoff' hbuf'
  refine ⟨{ W := g.W ++ p, r := g.r + k, c := g.c }, ?_, ?_⟩
  · rw [hw]; exact ⟨rfl, happ⟩
  · rw [hw]; refine ⟨hrel', hinv', ?_⟩
    simp only [hbuf', List.length_append, List.length_drop]; omega

theorem sim_grow (b : Buffer) (g : Ghost) (S : Nat) (n : Int) (hn : 0 ≤ n) (h : BufferSim b g S)
    (hbound : ((3 * (S + n.toNat) : Nat) : Int) ≤ maxAlloc) :
    ∃ g', BufferSpec g (.grow n) (b.growOp n).2 g' ∧ BufferSim (b.growOp n).1 g' (S + n.toNat) := by
  obtain ⟨hrel, hinv, hS⟩ := h
  obtain ⟨b', k, hw, hk, hoff', hbuf', hinv', _⟩ := growOp_char b n hn hinv (by simp only [maxAlloc_eq] at *; omega)
  have hkle : k ≤ b.off := by rcases hk with hk | hk <;> omega
  obtain ⟨happ, hrel'⟩ := rel_compact_append hrel k [] hkle hoff' (by simpa using hbuf')
  simp only [List.append_nil] at happ hrel'
  refine ⟨{ W := g.W, r := g.r + k, c := g.c }, ?_, ?_⟩
  · rw [hw]; exact ⟨rfl, by simpa [Ghost.Appends, Ghost.Compacts] using happ⟩
  · rw [hw]; refine ⟨hrel', hinv', ?_⟩
    simp only [hbuf', List.length_drop]; omega

theorem sim_reset (b : Buffer) (g : Ghost) (S : Nat) (h : BufferSim b g S) :
    BufferSpec g .reset .unit Ghost.init ∧ BufferSim b.reset Ghost.init S := by
  obtain ⟨hrel, ⟨_, hcap, hnil⟩, hS⟩ := h
  refine ⟨⟨rfl, rfl⟩, ⟨⟨by simp [Ghost.init], by simp [Ghost.init]⟩, rfl, rfl⟩, ⟨?_, ?_, hnil⟩, ?_⟩
  · simp [Buffer.reset]
  · simp [Buffer.reset]
  · simp [Buffer.reset]

theorem sim_tidy (b : Buffer) (g : Ghost) (S : Nat) (h : BufferSim b g S) :
    ∃ g', BufferSpec g .tidy .unit g' ∧ BufferSim b.tidy g' S := by
  obtain ⟨hrel, hinv, hS⟩ := h
  have hun := rel_unread hrel
  have hoffle := rel_off_le hrel
  obtain ⟨⟨h1, h2⟩, hb, ho⟩ := hrel
  obtain ⟨_, hcap, hnil⟩ := hinv
  refine ⟨{ g with r := g.c }, ⟨rfl, ⟨rfl, rfl, h1, Nat.le_refl _⟩, rfl⟩, ?_⟩
  have hsrc : (b.buf.drop b.off).length = b.buf.length - b.off := List.length_drop
  have key : b.tidy = { b with buf := b.buf.drop b.off, off := 0 } := by
    unfold Buffer.tidy
    by_cases hpos : b.off > 0
    · simp only [hpos, if_true]
      by_cases hsz : b.buf.length - b.off > 0
      · simp only [hsz, if_true]
        have := copyAt_zero_take b.buf (b.buf.drop b.off) (by rw [hsrc]; omega)
        rw [hsrc] at this; rw [this]
      · simp only [hsz, if_false]
        have h0 : b.buf.length - b.off = 0 := by omega
        rw [h0, List.take_zero, List.drop_of_length_le (by omega)]
    · have h0 : b.off = 0 := by omega
      simp only [h0, List.drop_zero]
      cases b; simp_all
  rw [key]
  refine ⟨⟨⟨Nat.le_refl _, h2⟩, ?_, by simp⟩, ⟨by simp, ?_, hnil⟩, ?_⟩
  · simpa [Ghost.unread] using hun
  · simp only [List.length_drop]; omega
  · simp only [List.length_drop]; omega

theorem sim_read (b : Buffer) (g : Ghost) (S : Nat) (k : Nat) (h : BufferSim b g S) :
    BufferSpec g (.read k) (b.read k).2 (g.consume k) ∧ BufferSim (b.read k).1 (g.consume k) S := by
  obtain ⟨hrel, hinv, hS⟩ := h
  have hun := rel_unread hrel
  have hlen := rel_len hrel
  obtain ⟨⟨h1, h2⟩, hb, ho⟩ := hrel
  obtain ⟨hoffle, hcap, hnil⟩ := hinv
  have hul : g.unread.length = g.W.length - g.c := by simp [Ghost.unread]
  unfold Buffer.read Buffer.empty
  by_cases he : b.buf.length ≤ b.off
  · have hnil' : g.unread = [] := by
      rw [← hun]; exact List.drop_of_length_le he
    have hcons : g.consume k = g := by simp [Ghost.consume, hnil']
    simp only [he, decide_true, if_true]
    rw [hcons]
    by_cases hk : k = 0
    · simp only [hk, if_true]
      exact ⟨⟨by simp [hnil'], hk ▸ hcons.symm⟩, ⟨⟨h1, h2⟩, hb, ho⟩, ⟨hoffle, hcap, hnil⟩, hS⟩
    · simp only [hk, if_false]
      exact ⟨⟨by simp [hnil', hk], hcons.symm⟩, ⟨⟨h1, h2⟩, hb, ho⟩, ⟨hoffle, hcap, hnil⟩, hS⟩
  · simp only [he, decide_false, Bool.false_eq_true, if_false]
    have hne : ¬ (g.unread = [] ∧ k ≠ 0) := by
      intro hc; have := congrArg List.length hc.1; simp only [List.length_nil] at this; omega
    rw [hun]
    refine ⟨⟨?_, rfl⟩, ⟨⟨?_, ?_⟩, hb, ?_⟩, ⟨?_, hcap, hnil⟩, hS⟩
    · simp only [hne, if_false, ← List.take_eq_take_min]
    · simp only [Ghost.consume]; omega
    · simp only [Ghost.consume]; omega
    · simp only [Ghost.consume]; omega
    · simp only []; omega

theorem sim_next (b : Buffer) (g : Ghost) (S : Nat) (n : Int) (hn : 0 ≤ n) (h : BufferSim b g S) :
    BufferSpec g (.next n) (b.next n).2 (g.consume n.toNat) ∧ BufferSim (b.next n).1 (g.consume n.toNat) S := by
  obtain ⟨hrel, hinv, hS⟩ := h
  have hun := rel_unread hrel
  have hlen := rel_len hrel
  obtain ⟨⟨h1, h2⟩, hb, ho⟩ := hrel
  obtain ⟨hoffle, hcap, hnil⟩ := hinv
  have hul : g.unread.length = g.W.length - g.c := by simp [Ghost.unread]
  unfold Buffer.next Buffer.len
  simp only []
  have hclamp : ¬ ((if n > (b.buf.length : Int) - (b.off : Int) then (b.buf.length : Int) - (b.off : Int) else n) < 0) := by
    split <;> omega
  simp only [hclamp, if_false]
  have hmin : (if n > (b.buf.length : Int) - (b.off : Int) then (b.buf.length : Int) - (b.off : Int) else n).toNat
      = min n.toNat g.unread.length := by
    split <;> omega
  rw [hmin, hun]
  refine ⟨⟨?_, rfl⟩, ⟨⟨?_, ?_⟩, hb, ?_⟩, ⟨?_, hcap, hnil⟩, hS⟩
  · simp only [← List.take_eq_take_min]
  · simp only [Ghost.consume]; omega
  · simp only [Ghost.consume]; omega
  · simp only [Ghost.consume]; omega
  · simp only []; omega

/-- `Seek`: the wrapped 64-bit additions agree with the exact target whenever the range test can pass, so the
    guarded assignment refines the abstract seek -/
theorem sim_seek (b : Buffer) (g : Ghost) (S : Nat) (o w : Int) (ho : -(2 ^ 63 : Int) ≤ o ∧ o < 2 ^ 63)
    (h : BufferSim b g S) (hbound : ((3 * S : Nat) : Int) ≤ maxAlloc) :
    ∃ g', BufferSpec g (.seek o w) (b.seek o w).2 g' ∧ BufferSim (b.seek o w).1 g' S := by
  obtain ⟨hrel, hinv, hS⟩ := h
  have hlen := rel_len hrel
  obtain ⟨⟨h1, h2⟩, hb, hoff⟩ := hrel
  obtain ⟨hoffle, hcap, hnil⟩ := hinv
  have hsmall : (b.buf.length : Int) < 2 ^ 63 := by
    rw [maxAlloc_eq] at hbound; simp only [Int.reducePow]; omega
  have hret : g.retained = b.buf.length := by simp [Ghost.retained, hlen]
  have hcr : g.c - g.r = b.off := hoff.symm
  -- the model's `next` is the exact target whenever the range test can pass
  have key : ∀ t : Int, (t = g.seekTarget o w) →
      ∀ nxt : Int, ((0 ≤ nxt ∧ nxt ≤ b.buf.length) ↔ (0 ≤ t ∧ t ≤ b.buf.length)) →
      ((0 ≤ t ∧ t ≤ b.buf.length) → nxt = t) → (0 ≤ w ∧ w ≤ 2) →
      ∃ g', BufferSpec g (.seek o w)
          (if 0 ≤ nxt ∧ nxt ≤ b.buf.length then
            (({ b with off := nxt.toNat } : Buffer), Buffer.Out.seek nxt.toNat .nil)
           else (b, Buffer.Out.seek 0 .invalidSeek)).2 g' ∧
        BufferSim (if 0 ≤ nxt ∧ nxt ≤ b.buf.length then
            (({ b with off := nxt.toNat } : Buffer), Buffer.Out.seek nxt.toNat .nil)
           else (b, Buffer.Out.seek 0 .invalidSeek)).1 g' S := by
    intro t ht nxt hiff heq hw
    by_cases hin : 0 ≤ t ∧ t ≤ b.buf.length
    · have hn := heq hin
      have hin' := hiff.2 hin
      simp only [hin', and_self, if_true]
      have hok : g.seekOk o w := ⟨hw.1, hw.2, by rw [← ht]; exact hin.1, by rw [← ht, hret]; exact hin.2⟩
      refine ⟨{ g with c := g.r + (g.seekTarget o w).toNat }, ?_, ?_⟩
      · simp only [BufferSpec, hok, if_true, hn, ht, and_self]
      · refine ⟨⟨⟨by simp, ?_⟩, hb, ?_⟩, ⟨?_, hcap, hnil⟩, hS⟩
        · simp only [← ht]; omega
        · simp only [← ht, hn]; omega
        · simp only [hn]; omega
    · have hin' : ¬ (0 ≤ nxt ∧ nxt ≤ b.buf.length) := fun hc => hin (hiff.1 hc)
      simp only [hin', if_false]
      have hok : ¬ g.seekOk o w := by
        rintro ⟨_, _, h3, h4⟩; rw [← ht] at h3 h4; rw [hret] at h4; exact hin ⟨h3, h4⟩
      exact ⟨g, by simp only [BufferSpec, hok, if_false, and_self],
        ⟨⟨h1, h2⟩, hb, hoff⟩, ⟨hoffle, hcap, hnil⟩, hS⟩
  unfold Buffer.seek
  by_cases hw : 0 ≤ w ∧ w ≤ 2
  · simp only [hw, and_self, if_true]
    have hcases : w = 0 ∨ w = 1 ∨ w = 2 := by omega
    rcases hcases with rfl | rfl | rfl
    · simp only [show ¬ ((0 : Int) = 1) by decide, show ¬ ((0 : Int) = 2) by decide, if_false]
      exact key o (by simp [Ghost.seekTarget]) o Iff.rfl (fun _ => rfl) hw
    · simp only [if_true]
      have ht : o + (b.off : Int) = g.seekTarget o 1 := by simp [Ghost.seekTarget, hcr]; omega
      exact key (o + b.off) ht (wrap64 (o + b.off))
        (wrap64_range o b.off b.buf.length ho (by omega) (by omega) hsmall)
        (fun hh => wrap64_exact o b.off b.buf.length ho (by omega) (by omega) hsmall hh) hw
    · simp only [show ¬ ((2 : Int) = 1) by decide, if_false, if_true]
      have ht : o + (b.buf.length : Int) = g.seekTarget o 2 := by simp [Ghost.seekTarget, hret]; omega
      exact key (o + b.buf.length) ht (wrap64 (o + b.buf.length))
        (wrap64_range o b.buf.length b.buf.length ho (by omega) hsmall hsmall)
        (fun hh => wrap64_exact o b.buf.length b.buf.length ho (by omega) hsmall hsmall hh) hw
  · simp only [hw, if_false]
    have hok : ¬ g.seekOk o w := by rintro ⟨h3, h4, _⟩; exact hw ⟨h3, h4⟩
    exact ⟨g, by simp only [BufferSpec, hok, if_false, and_self],
      ⟨⟨h1, h2⟩, hb, hoff⟩, ⟨hoffle, hcap, hnil⟩, hS⟩

/-- one step of the model refines one step of the specification -/
theorem buffer_step_sim (b : Buffer) (g : Ghost) (S : Nat) (op : Buffer.Op) (h : BufferSim b g S)
    (hv : BufferOpValid op) (hbound : ((3 * (S + BufferOpSize op) : Nat) : Int) ≤ maxAlloc) :
    ∃ g', BufferSpec g op (b.step op).2 g' ∧ BufferSim (b.step op).1 g' (S + BufferOpSize op) := by
  cases op with
  | write p => exact sim_write b g S p h hbound
  | read k => exact ⟨_, sim_read b g S k h⟩
  | next n => exact ⟨_, sim_next b g S n hv h⟩
  | seek o w => exact sim_seek b g S o w hv h hbound
  | tidy => exact sim_tidy b g S h
  | reset => exact ⟨_, sim_reset b g S h⟩
  | grow n => exact sim_grow b g S n hv h hbound

theorem sim_init : BufferSim Buffer.init Ghost.init 0 :=
  ⟨⟨⟨Nat.le_refl _, Nat.le_refl _⟩, rfl, rfl⟩, ⟨Nat.le_refl _, Nat.le_refl _, by simp [Buffer.init]⟩, Nat.le_refl _⟩

theorem bufferSizes_cons (op : Buffer.Op) (ops : List Buffer.Op) :
    bufferSizes (op :: ops) = BufferOpSize op + bufferSizes ops := by
  simp [bufferSizes]

/-- lifting to op sequences by induction -/
theorem buffer_run_sim (ops : List Buffer.Op) : ∀ (b : Buffer) (g : Ghost) (S : Nat), BufferSim b g S →
    (∀ op ∈ ops, BufferOpValid op) → ((3 * (S + bufferSizes ops) : Nat) : Int) ≤ maxAlloc →
    ∃ g', BufferSpecRun g ops (b.run ops).2 g' ∧ BufferSim (b.run ops).1 g' (S + bufferSizes ops) := by
  induction ops with
  | nil => intro b g S h _ _; exact ⟨g, rfl, by simpa [bufferSizes, Buffer.run] using h⟩
  | cons op ops ih =>
    intro b g S h hv hbound
    rw [bufferSizes_cons] at hbound
    obtain ⟨g1, hs1, hsim1⟩ := buffer_step_sim b g S op h (hv op (by simp))
      (by have := hbound; omega)
    obtain ⟨g', hrun, hsim'⟩ := ih (b.step op).1 g1 (S + BufferOpSize op) hsim1
      (fun o ho => hv o (by simp [ho])) (by have := hbound; omega)
    refine ⟨g', ⟨g1, hs1, hrun⟩, ?_⟩
    rw [bufferSizes_cons]
    have : S + (BufferOpSize op + bufferSizes ops) = S + BufferOpSize op + bufferSizes ops := by omega
    rw [this]; exact hsim'

end Got.Lemmas.Bytes
