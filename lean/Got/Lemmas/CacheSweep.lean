import Got.Lemmas.CacheCore
/-
The sweep (removeRotted) is invisible: `SweepEq` (equality up to rotted map entries) is preserved by every client
step and by the passage of time, and a sweep stays inside the equivalence class.  Core Lean only.
-/
namespace Got.Lemmas.Cache
open Got.Model.CacheCore Got.Model.Cache Got.Spec.Cache

/-- statusAt only looks at the clock and at the `view` of the future -/
theorem statusAt_view_congr (cfg : Cfg) (s t : State) (o : Option FutId) (hn : s.now = t.now)
    (hf : ∀ f, o = some f → view (s.fut f) = view (t.fut f)) : statusAt cfg s o = statusAt cfg t o := by
  cases o with
  | none => rfl
  | some f => simp [statusAt, statusOf, hn, hf f rfl]

theorem hidden_congr (cfg : Cfg) (s t : State) (o : Option FutId) (hn : s.now = t.now)
    (hf : ∀ f, o = some f → view (s.fut f) = view (t.fut f)) : Hidden cfg s o ↔ Hidden cfg t o := by
  unfold Hidden; rw [statusAt_view_congr cfg s t o hn hf]

theorem visEq_refl (cfg : Cfg) (s : State) (a : Option FutId) : VisEq cfg s a a := Or.inl rfl

theorem pcEq_refl (cfg : Cfg) (s : State) (p : CPc) : PcEq cfg s p p := by
  cases p <;> simp [PcEq, visEq_refl]

theorem visEq_congr (cfg : Cfg) (s t : State) (a b : Option FutId) (hn : s.now = t.now)
    (hf : ∀ f, a = some f ∨ b = some f → view (s.fut f) = view (t.fut f)) (h : VisEq cfg s a b) : VisEq cfg t a b := by
  rcases h with h | ⟨ha, hb⟩
  · exact Or.inl h
  · exact Or.inr ⟨(hidden_congr cfg s t a hn (fun f hf' => hf f (Or.inl hf'))).1 ha,
                  (hidden_congr cfg s t b hn (fun f hf' => hf f (Or.inr hf'))).1 hb⟩

theorem pcEq_congr (cfg : Cfg) (s t : State) (p q : CPc) (hn : s.now = t.now)
    (hf : ∀ f, (p = .g2Status (some f) ∨ q = .g2Status (some f)) → view (s.fut f) = view (t.fut f))
    (h : PcEq cfg s p q) : PcEq cfg t p q := by
  cases p <;> cases q <;> simp_all [PcEq]
  rename_i a b
  exact visEq_congr cfg s t a b hn (fun f hf' => hf f hf') h

/-- a hidden entry makes Load decide as if there were no entry -/
theorem loadOut_visEq (cfg : Cfg) (s : State) (a b : Option FutId) (old : Bool) (sh nf k ld : Nat)
    (h : VisEq cfg s a b) :
    loadOut old sh a (statusAt cfg s a) nf k ld = loadOut old sh b (statusAt cfg s b) nf k ld := by
  rcases h with h | ⟨ha, hb⟩
  · rw [h]
  · have key : ∀ o, Hidden cfg s o → loadOut old sh o (statusAt cfg s o) nf k ld =
        { create := true, pred := none,
          pc := if old then .ldSend ⟨k, nf, ld⟩ (.ret nf) (some sh) else .ldUnlock sh (some ⟨k, nf, ld⟩) (.ret nf) } := by
      intro o ho
      rcases ho with ho | ho
      · subst ho; simp [loadOut, statusAt_none, loadDecide]
      · cases o <;> simp [loadOut, ho, loadDecide]
    rw [key a ha, key b hb]

theorem get2_visEq (cfg : Cfg) (s : State) (a b : Option FutId) (h : VisEq cfg s a b) (hne : a ≠ b) :
    get2Decide (statusAt cfg s a) = .nilnil ∧ get2Decide (statusAt cfg s b) = .nilnil := by
  rcases h with h | ⟨ha, hb⟩
  · exact absurd h hne
  · have key : ∀ o, Hidden cfg s o → get2Decide (statusAt cfg s o) = .nilnil := by
      intro o ho
      rcases ho with ho | ho
      · subst ho; simp [statusAt_none, get2Decide]
      · simp [ho, get2Decide]
    exact ⟨key a ha, key b hb⟩

theorem orphanMark_visEq (cfg : Cfg) (s : State) (a b : Option FutId) (h : VisEq cfg s a b) :
    orphanMark s.fut a = orphanMark s.fut b := by
  rcases h with h | ⟨ha, hb⟩
  · rw [h]
  · have key : ∀ o, Hidden cfg s o → orphanMark s.fut o = s.fut := by
      intro o ho
      rcases ho with ho | ho
      · subst ho; rfl
      · cases o with
        | none => rfl
        | some l =>
          cases hres : (s.fut l).res with
          | none => rw [statusAt_unresolved cfg s l hres] at ho; cases ho
          | some r => simp [orphanMark, hres]
    rw [key a ha, key b hb]

theorem view_orphanMark (fut : FutId → Fut) (o : Option FutId) (f : FutId) :
    view (orphanMark fut o f) = view (fut f) := by
  cases o with
  | none => rfl
  | some l =>
    simp only [orphanMark]
    by_cases hres : (fut l).res.isNone = true
    · simp only [hres, if_true]
      by_cases hfl : f = l
      · subst hfl; simp [upd, view]
      · simp [upd, hfl]
    · simp [hres]

theorem pcEq_of_not_g2 (cfg : Cfg) (s : State) (p q : CPc) (h : PcEq cfg s p q) (hp : ∀ a, p ≠ .g2Status a) : q = p := by
  cases p <;> cases q <;> simp_all [PcEq]

theorem pcEq_g2 (cfg : Cfg) (s : State) (a : Option FutId) (q : CPc) (h : PcEq cfg s (.g2Status a) q) :
    ∃ b, q = .g2Status b ∧ VisEq cfg s a b := by
  cases q <;> simp_all [PcEq]

/-- two ≈-related states differ in the map and in the client pcs only -/
theorem sweepEq_shape (cfg : Cfg) (s t : State) (h : SweepEq cfg s t) : t = { s with map := t.map, cpc := t.cpc } := by
  cases s; cases t; cases h; simp_all

/-- a future id below `nfut` is not the one being allocated -/
theorem view_upd_new (fut : FutId → Fut) (nf f : FutId) (x : Fut) (h : f < nf) : view (upd fut nf x f) = view (fut f) := by
  have : f ≠ nf := Nat.ne_of_lt h
  simp [upd, this]

theorem g2Next_visEq (cfg : Cfg) (s : State) (a b : Option FutId) (h : VisEq cfg s a b) :
    g2Next (statusAt cfg s a) a = g2Next (statusAt cfg s b) b := by
  by_cases heq : a = b
  · rw [heq]
  · obtain ⟨h1, h2⟩ := get2_visEq cfg s a b h heq
    simp [g2Next, h1, h2]

/-- both steps disabled, or both enabled with related results -/
def OptRel (R : State → State → Prop) : Option State → Option State → Prop
  | some a, some b => R a b
  | none, none => True
  | _, _ => False

/-- the step relation of clients respects ≈ -/
theorem sweepEq_clStep (cfg : Cfg) (s t : State) (h : SweepEq cfg s t) (ws : MapWF s) (wt : MapWF t) (c : Cid) :
    OptRel (SweepEq cfg) (clStep cfg s c) (clStep cfg t c) := by
  have hshape := sweepEq_shape cfg s t h
  generalize hm : t.map = m' at hshape
  generalize hp : t.cpc = p' at hshape
  have hmap : ∀ k, VisEq cfg s (s.map k) (m' k) := fun k => hm ▸ h.map k
  have hpc : ∀ c, PcEq cfg s (s.cpc c) (p' c) := fun c => hp ▸ h.cpc c
  have wtm : ∀ k f, m' k = some f → f < s.nfut := fun k f hf => by
    have := wt.map k f (hm ▸ hf); rw [← h.nfut] at this; exact this
  have wtp : ∀ c f, p' c = .g2Status (some f) → f < s.nfut := fun c f hf => by
    have := wt.pc c f (hp ▸ hf); rw [← h.nfut] at this; exact this
  subst hshape
  clear h hm hp wt
  -- generic constructor: same non-map, non-pc fields on both sides
  have mk : ∀ (u : State) (m1 m2 : Key → Option FutId) (p1 p2 : Cid → CPc),
      (∀ k, VisEq cfg u (m1 k) (m2 k)) → (∀ c, PcEq cfg u (p1 c) (p2 c)) →
      SweepEq cfg { u with map := m1, cpc := p1 } { u with map := m2, cpc := p2 } := by
    intro u m1 m2 p1 p2 h1 h2
    exact { now := rfl, lock := rfl, fut := rfl, nfut := rfl, chan := rfl, tickPending := rfl, wpc := rfl, jobAt := rfl,
            map := h1, cpc := h2 }
  -- updating the pc of c to related pcs (clock and views of allocated futures unchanged)
  have updpc : ∀ (u : State) (p q : CPc), u.now = s.now → (∀ f, f < s.nfut → view (u.fut f) = view (s.fut f)) →
      PcEq cfg u p q → ∀ c', PcEq cfg u (upd s.cpc c p c') (upd p' c q c') := by
    intro u p q hn hf hpq c'
    by_cases hc : c' = c
    · subst hc; simp only [upd_same]; exact hpq
    · simp only [upd_other _ _ _ _ hc]
      refine pcEq_congr cfg s u _ _ hn.symm (fun f hf' => ?_) (hpc c')
      rcases hf' with hf' | hf'
      · exact (hf f (ws.pc c' f hf')).symm
      · exact (hf f (wtp c' f hf')).symm
  have keepmap : ∀ (u : State), u.now = s.now → (∀ f, f < s.nfut → view (u.fut f) = view (s.fut f)) →
      ∀ k, VisEq cfg u (s.map k) (m' k) := by
    intro u hn hf k
    refine visEq_congr cfg s u _ _ hn.symm (fun f hf' => ?_) (hmap k)
    rcases hf' with hf' | hf'
    · exact (hf f (ws.map k f hf')).symm
    · exact (hf f (wtm k f hf')).symm
  -- the simple case: both sides perform the same update of lock / chan / jobAt and move c to the same pc
  have simple : ∀ (lock' : Nat → Option Cid) (chan' : List Job) (jobAt' : FutId → Loc) (p q : CPc), PcEq cfg s p q →
      SweepEq cfg { s with lock := lock', chan := chan', jobAt := jobAt', cpc := upd s.cpc c p }
                  { s with lock := lock', chan := chan', jobAt := jobAt', map := m', cpc := upd p' c q } := by
    intro lock' chan' jobAt' p q hpq
    exact mk { s with lock := lock', chan := chan', jobAt := jobAt' } s.map m' _ _
      (keepmap _ rfl (fun _ _ => rfl)) (updpc _ p q rfl (fun _ _ => rfl) (pcEq_congr cfg s _ p q rfl (fun _ _ => rfl) hpq))
  cases hc : s.cpc c with
  | g2Status a =>
    obtain ⟨b, hb, hab⟩ := pcEq_g2 cfg s a (p' c) (hc ▸ hpc c)
    simp only [clStep, hc, hb, OptRel]
    show SweepEq cfg (setPc s c (g2Next (statusAt cfg s a) a)) (setPc { s with map := m', cpc := p' } c (g2Next (statusAt cfg s b) b))
    rw [g2Next_visEq cfg s a b hab]
    exact simple s.lock s.chan s.jobAt _ _ (pcEq_refl cfg s _)
  | idle =>
    have hq := pcEq_of_not_g2 cfg s _ _ (hc ▸ hpc c) (by simp)
    simp only [clStep, hc, hq, OptRel]
  | done o =>
    have hq := pcEq_of_not_g2 cfg s _ _ (hc ▸ hpc c) (by simp)
    simp only [clStep, hc, hq, OptRel]
  | ldUnlock sh send plan =>
    have hq := pcEq_of_not_g2 cfg s _ _ (hc ▸ hpc c) (by simp)
    simp only [clStep, hc, hq]
    cases send with
    | none => exact simple (upd s.lock sh none) s.chan s.jobAt _ _ (pcEq_refl cfg s _)
    | some j => exact simple (upd s.lock sh none) s.chan s.jobAt _ _ (pcEq_refl cfg s _)
  | ldSend j plan lk =>
    have hq := pcEq_of_not_g2 cfg s _ _ (hc ▸ hpc c) (by simp)
    simp only [clStep, hc, hq]
    by_cases hlen : s.chan.length < cfg.J
    · simp only [hlen, if_true]
      cases lk with
      | none => exact simple s.lock (s.chan ++ [j]) (upd s.jobAt j.fut .chan) _ _ (pcEq_refl cfg s _)
      | some sh => exact simple s.lock (s.chan ++ [j]) (upd s.jobAt j.fut .chan) _ _ (pcEq_refl cfg s _)
    · simp only [hlen, if_false, OptRel]
  | fetch f g =>
    have hq := pcEq_of_not_g2 cfg s _ _ (hc ▸ hpc c) (by simp)
    simp only [clStep, hc, hq]
    exact simple s.lock s.chan s.jobAt _ _ (pcEq_refl cfg s _)
  | fetchSt f p g =>
    have hq := pcEq_of_not_g2 cfg s _ _ (hc ▸ hpc c) (by simp)
    simp only [clStep, hc, hq]
    exact simple s.lock s.chan s.jobAt _ _ (pcEq_refl cfg s _)
  | ldRet f =>
    have hq := pcEq_of_not_g2 cfg s _ _ (hc ▸ hpc c) (by simp)
    simp only [clStep, hc, hq]
    exact simple s.lock s.chan s.jobAt _ _ (pcEq_refl cfg s _)
  | retNil =>
    have hq := pcEq_of_not_g2 cfg s _ _ (hc ▸ hpc c) (by simp)
    simp only [clStep, hc, hq]
    exact simple s.lock s.chan s.jobAt _ _ (pcEq_refl cfg s _)
  | setRet =>
    have hq := pcEq_of_not_g2 cfg s _ _ (hc ▸ hpc c) (by simp)
    simp only [clStep, hc, hq]
    exact simple s.lock s.chan s.jobAt _ _ (pcEq_refl cfg s _)
  | wait f =>
    have hq := pcEq_of_not_g2 cfg s _ _ (hc ▸ hpc c) (by simp)
    simp only [clStep, hc, hq]
    by_cases hd : (s.fut f).done = true
    · simp only [hd, if_true]
      exact simple s.lock s.chan s.jobAt _ _ (pcEq_refl cfg s _)
    · simp only [hd, OptRel]; simp
  | g2Start k =>
    have hq := pcEq_of_not_g2 cfg s _ _ (hc ▸ hpc c) (by simp)
    simp only [clStep, hc, hq]
    by_cases hl : (s.lock (cfg.shardOf k)).isNone = true
    · simp only [hl, if_true]
      exact simple s.lock s.chan s.jobAt (.g2Status (s.map k)) (.g2Status (m' k)) (hmap k)
    · simp only [hl, OptRel]; simp
  | ldStart k ld =>
    have hq := pcEq_of_not_g2 cfg s _ _ (hc ▸ hpc c) (by simp)
    simp only [clStep, hc, hq]
    by_cases hl : (s.lock (cfg.shardOf k)).isNone = true
    · simp only [hl, if_true, OptRel]
      have e := loadOut_visEq cfg s (s.map k) (m' k) cfg.old (cfg.shardOf k) s.nfut k ld (hmap k)
      show SweepEq cfg
        (applyLoad (cfg.shardOf k) s c k (loadOut cfg.old (cfg.shardOf k) (s.map k) (statusAt cfg s (s.map k)) s.nfut k ld))
        (applyLoad (cfg.shardOf k) { s with map := m', cpc := p' } c k
          (loadOut cfg.old (cfg.shardOf k) (m' k) (statusAt cfg s (m' k)) s.nfut k ld))
      rw [← e]
      generalize loadOut cfg.old (cfg.shardOf k) (s.map k) (statusAt cfg s (s.map k)) s.nfut k ld = o
      by_cases hcr : o.create = true
      · simp only [applyLoad, hcr, if_true]
        let u1 : State := { s with lock := upd s.lock (cfg.shardOf k) (some c), fut := upd s.fut s.nfut (newLoadFut k o.pred), nfut := s.nfut + 1, jobAt := upd s.jobAt s.nfut (.creator c) }
        refine mk u1
                  (upd s.map k (some s.nfut)) (upd m' k (some s.nfut)) (upd s.cpc c o.pc) (upd p' c o.pc) ?_ ?_
        · intro k'
          by_cases hk : k' = k
          · subst hk; simp only [upd_same]; exact visEq_refl _ _ _
          · simp only [upd_other _ _ _ _ hk]
            exact keepmap u1
              rfl (fun f hf => view_upd_new _ _ _ _ hf) k'
        · exact updpc u1
            o.pc o.pc rfl (fun f hf => view_upd_new _ _ _ _ hf) (pcEq_refl cfg _ _)
      · simp only [applyLoad, hcr]
        exact simple (upd s.lock (cfg.shardOf k) (some c)) s.chan s.jobAt _ _ (pcEq_refl cfg s _)
    · simp only [hl, OptRel]; simp
  | setStart k r =>
    have hq := pcEq_of_not_g2 cfg s _ _ (hc ▸ hpc c) (by simp)
    simp only [clStep, hc, hq]
    by_cases hl : (s.lock (cfg.shardOf k)).isNone = true
    · simp only [hl, if_true, OptRel]
      have e := orphanMark_visEq cfg s (s.map k) (m' k) (hmap k)
      show SweepEq cfg (setCS s c k r) (setCS { s with map := m', cpc := p' } c k r)
      simp only [setCS]
      rw [← e]
      let u2 : State := { s with fut := upd (orphanMark s.fut (s.map k)) s.nfut { key := k, res := some r, upd := s.now, pred := none, done := true, bySet := true, orphan := false }, nfut := s.nfut + 1, jobAt := upd s.jobAt s.nfut .finished }
      refine mk u2
                (upd s.map k (some s.nfut)) (upd m' k (some s.nfut)) (upd s.cpc c .setRet) (upd p' c .setRet) ?_ ?_
      · intro k'
        by_cases hk : k' = k
        · subst hk; simp only [upd_same]; exact visEq_refl _ _ _
        · simp only [upd_other _ _ _ _ hk]
          exact keepmap u2
            rfl (fun f hf => by rw [view_upd_new _ _ _ _ hf, view_orphanMark]) k'
      · exact updpc u2
          .setRet .setRet rfl (fun f hf => by rw [view_upd_new _ _ _ _ hf, view_orphanMark]) (pcEq_refl cfg _ _)
    · simp only [hl, OptRel]; simp

/-- returned values are equal in ≈-related states -/
theorem sweepEq_out (cfg : Cfg) (s t : State) (h : SweepEq cfg s t) (c : Cid) (o : Out) :
    s.cpc c = .done o ↔ t.cpc c = .done o := by
  have := h.cpc c
  constructor
  · intro hs; rw [hs] at this
    exact pcEq_of_not_g2 cfg s _ _ this (by simp)
  · intro ht; rw [ht] at this
    cases hs : s.cpc c <;> simp_all [PcEq]

/-- a hidden entry stays hidden when time passes -/
theorem hidden_mono (cfg : Cfg) (s : State) (d : Nat) (o : Option FutId) (h : Hidden cfg s o) :
    Hidden cfg { s with now := s.now + d } o := by
  rcases h with h | h
  · exact Or.inl h
  · cases o with
    | none => exact Or.inl rfl
    | some f =>
      right
      rw [statusAt_some] at *
      exact status_rotted_mono _ _ _ _ _ _ _ (Nat.le_add_right _ _) h

/-- ≈ is preserved by the passage of time (rottedness is stable because the clock only grows) -/
theorem sweepEq_delay (cfg : Cfg) (s t : State) (h : SweepEq cfg s t) (d : Nat) :
    SweepEq cfg { s with now := s.now + d } { t with now := t.now + d } := by
  have vis : ∀ a b, VisEq cfg s a b → VisEq cfg { s with now := s.now + d } a b := by
    intro a b hab
    rcases hab with hab | ⟨ha, hb⟩
    · exact Or.inl hab
    · exact Or.inr ⟨hidden_mono cfg s d a ha, hidden_mono cfg s d b hb⟩
  refine { now := by simp [h.now], lock := h.lock, fut := h.fut, nfut := h.nfut, chan := h.chan,
           tickPending := h.tickPending, wpc := h.wpc, jobAt := h.jobAt, map := fun k => vis _ _ (h.map k), cpc := ?_ }
  intro c
  have := h.cpc c
  cases hs : s.cpc c <;> cases ht : t.cpc c <;> simp_all [PcEq]

/-- one shard of removeRotted stays inside the ≈-class -/
theorem sweepEq_sweepShard (cfg : Cfg) (s : State) (i : Nat) :
    SweepEq cfg { s with map := sweepShard cfg s i } s := by
  refine { now := rfl, lock := rfl, fut := rfl, nfut := rfl, chan := rfl, tickPending := rfl, wpc := rfl, jobAt := rfl,
           map := ?_, cpc := fun c => pcEq_refl cfg _ _ }
  intro k
  show VisEq cfg _ (sweepShard cfg s i k) (s.map k)
  unfold sweepShard
  by_cases hcond : (cfg.shardOf k = i && sweepRemoves (statusAt cfg s (s.map k))) = true
  · simp only [hcond, if_true]
    right
    refine ⟨Or.inl rfl, Or.inr ?_⟩
    simp only [Bool.and_eq_true, sweepRemoves, beq_iff_eq, decide_eq_true_eq] at hcond
    exact hcond.2
  · simp only [hcond]
    exact Or.inl rfl

/-! MapWF is an invariant -/

theorem mapWF_init : MapWF init := ⟨fun _ _ h => by simp [init] at h, fun _ _ h => by simp [init] at h⟩

theorem mapWF_setPc (s : State) (c : Cid) (p : CPc) (h : MapWF s) (hp : ∀ f, p = .g2Status (some f) → f < s.nfut) :
    MapWF (setPc s c p) := by
  refine ⟨h.map, ?_⟩
  intro c' f hf
  simp only [setPc, upd_apply] at hf
  split at hf
  · exact hp f hf
  · exact h.pc c' f hf

end Got.Lemmas.Cache
