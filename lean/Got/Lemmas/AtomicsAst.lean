import Got.Model.AtomicsGen
/-
Translator tie for loom.Flag.AddFlag/RemoveFlag and loom.AddIf64 (C17): the LTS that the AtomicIR semantics gives to the
programs regenerated from the source takes exactly the steps of the hand-written models `stepF` / `stepA` of
Got/Model/Atomics.lean, under the mappings `confF` / `confA` from the hand-written program counters to IR configurations.
`RelF g s` / `RelA g s aux`: the generated state `g` corresponds to the hand-written state `s` (same word, every
thread's configuration is the image of its pc); `aux t` supplies AddIf64's function-scope locals `expect`, `update`
while they are dead (thread parked before the load).
-/
set_option linter.unusedSimpArgs false
namespace Got.Lemmas.AtomicsAst
open Got.Model.AtomicIR Got.Generated.AstLoomAtomics Got.Model.AtomicsGen
open Got.Model.Atomics (W64 FOp FPc FSt FAct stepF runF initF APc ASt AAct stepA runA initA)

def loopOf : List Stmt → List Stmt
  | [.loop b] => b
  | [_, _, .loop b] => b
  | _ => []

def ctl (l : List Stmt) (k : List Item) : List Item := l.map .stmt ++ k

def addB : List Stmt := loopOf addFlag.body
def remB : List Stmt := loopOf removeFlag.body
def aiB : List Stmt := loopOf addIf64.body

def confF : FPc → Config
  | .idle => .idle
  | .load (.add f) => .run (ctl addB [.pop 1, .loopEnd addB]) [.i64 f] [.i64 f]
  | .load (.remove f) => .run (ctl remB [.pop 1, .loopEnd remB]) [.i64 f] [.i64 f]
  | .cas (.add f) last => .run (ctl (addB.drop 2) [.pop 1, .loopEnd addB]) [.i64 f, .i64 last, .i64 (last ||| f)] [.i64 f]
  | .cas (.remove f) last =>
    .run (ctl (remB.drop 2) [.pop 1, .loopEnd remB]) [.i64 f, .i64 last, .i64 (last &&& ~~~f)] [.i64 f]

structure RelF (g : GState) (s : FSt) : Prop where
  cell : g.mem.cell = s.val
  conf : ∀ t, g.conf t = confF (s.pc t)

/-- the hand-written action that a client action of the generated LTS corresponds to in state `s` -/
def toF (s : FSt) : CAct FOp → FAct
  | .invoke t op => .invoke t op
  | .tau t =>
    match s.pc t with
    | .cas _ _ => .cas t
    | _ => .load t

local macro "asimp" "[" ts:Lean.Parser.Tactic.simpLemma,* "]" : tactic =>
  `(tactic| simp [flagStep, flagAct, flagProg, addIfStep, addIfAct, addIfProg, step, stepThread, startThread, GState.apply,
      confF, ctl, addB, remB, aiB, addFlag, removeFlag, addIf64, loopOf, enter, unwind, exec, stepFuel, Stmt.needs,
      Cond.needs, Rhs.needs, evalC, evalRhs, doAcc, eval, i64op, resolve, loadAt, casAt, retEvs, stepF, stepA, toF,
      Got.Model.Atomics.upd, Got.Model.AtomicIR.upd, FOp.apply, $ts,*])

theorem conf_upd {α : Type} (gc : Nat → Config) (pc : Nat → α) (cf : α → Config) (t : Nat) (p : α)
    (h : ∀ u, gc u = cf (pc u)) (u : Nat) :
    Got.Model.AtomicIR.upd gc t (cf p) u = cf (Got.Model.Atomics.upd pc t p u) := by
  unfold Got.Model.AtomicIR.upd Got.Model.Atomics.upd
  split
  · rfl
  · exact h u


theorem relF_apply (g : GState) (s s' : FSt) (t : Nat) (o : Out) (p' : FPc) (h : RelF g s)
    (hcell : o.mem.cell = s'.val) (hpc : s'.pc = Got.Model.Atomics.upd s.pc t p') (hconf : o.conf = confF p') :
    RelF (g.apply t o) s' := by
  constructor
  · exact hcell
  · intro u
    simp only [GState.apply, hpc, hconf]
    exact conf_upd g.conf s.pc confF t p' h.conf u

theorem relF_hist (g : GState) (s : FSt) (hs : List (Nat × Ev)) (h : RelF g s) : RelF { g with hist := hs } s :=
  ⟨h.cell, h.conf⟩

theorem simF (g : GState) (s : FSt) (a : CAct FOp) (h : RelF g s) : RelF (flagStep g a) (stepF s (toF s a)) := by
  have hc := h.cell
  cases a with
  | invoke t op =>
    have ht := h.conf t
    cases hp : s.pc t with
    | idle =>
      rw [hp] at ht
      cases op with
      | add f =>
        have e : flagStep g (.invoke t (.add f)) =
            GState.apply { g with hist := g.hist ++ [(t, Ev.inv 0 [.i64 f])] } t (startThread noPred g.mem addFlag [.i64 f]) := by
          asimp [ht]
        rw [e]
        apply relF_apply _ s _ t _ (.load (.add f)) (relF_hist g s _ h) <;> asimp [hp, hc]
      | remove f =>
        have e : flagStep g (.invoke t (.remove f)) =
            GState.apply { g with hist := g.hist ++ [(t, Ev.inv 1 [.i64 f])] } t (startThread noPred g.mem removeFlag [.i64 f]) := by
          asimp [ht]
        rw [e]
        apply relF_apply _ s _ t _ (.load (.remove f)) (relF_hist g s _ h) <;> asimp [hp, hc]
    | load op' =>
      rw [hp] at ht
      have e : flagStep g (.invoke t op) = g := by cases op <;> cases op' <;> asimp [ht]
      rw [e]
      have e2 : stepF s (toF s (.invoke t op)) = s := by asimp [hp]
      rw [e2]; exact h
    | cas op' last =>
      rw [hp] at ht
      have e : flagStep g (.invoke t op) = g := by cases op <;> cases op' <;> asimp [ht]
      rw [e]
      have e2 : stepF s (toF s (.invoke t op)) = s := by asimp [hp]
      rw [e2]; exact h
  | tau t =>
    have ht := h.conf t
    cases hp : s.pc t with
    | idle =>
      rw [hp] at ht
      have e : flagStep g (.tau t) = g := by asimp [ht]
      rw [e]
      have e2 : stepF s (toF s (.tau t)) = s := by asimp [hp]
      rw [e2]; exact h
    | load op =>
      rw [hp] at ht
      cases op with
      | add f =>
        have e : flagStep g (.tau t) = g.apply t (exec noPred [.i64 f] stepFuel ⟨g.mem, true, none⟩ (ctl addB [.pop 1, .loopEnd addB]) [.i64 f]) := by
          simp [flagStep, flagAct, step, ht, confF, stepThread]
        rw [e]
        apply relF_apply _ s _ t _ (.cas (.add f) s.val) h <;> asimp [hp, hc]
      | remove f =>
        have e : flagStep g (.tau t) = g.apply t (exec noPred [.i64 f] stepFuel ⟨g.mem, true, none⟩ (ctl remB [.pop 1, .loopEnd remB]) [.i64 f]) := by
          simp [flagStep, flagAct, step, ht, confF, stepThread]
        rw [e]
        apply relF_apply _ s _ t _ (.cas (.remove f) s.val) h <;> asimp [hp, hc]
    | cas op last =>
      rw [hp] at ht
      by_cases hv : s.val = last
      · cases op with
        | add f =>
          have e : flagStep g (.tau t) = g.apply t (exec noPred [.i64 f] stepFuel ⟨g.mem, true, none⟩ (ctl (addB.drop 2) [.pop 1, .loopEnd addB]) [.i64 f, .i64 last, .i64 (last ||| f)]) := by
            simp [flagStep, flagAct, step, ht, confF, stepThread]
          rw [e]
          apply relF_apply _ s _ t _ .idle h <;> asimp [hp, hc, hv]
        | remove f =>
          have e : flagStep g (.tau t) = g.apply t (exec noPred [.i64 f] stepFuel ⟨g.mem, true, none⟩ (ctl (remB.drop 2) [.pop 1, .loopEnd remB]) [.i64 f, .i64 last, .i64 (last &&& ~~~f)]) := by
            simp [flagStep, flagAct, step, ht, confF, stepThread]
          rw [e]
          apply relF_apply _ s _ t _ .idle h <;> asimp [hp, hc, hv]
      · cases op with
        | add f =>
          have e : flagStep g (.tau t) = g.apply t (exec noPred [.i64 f] stepFuel ⟨g.mem, true, none⟩ (ctl (addB.drop 2) [.pop 1, .loopEnd addB]) [.i64 f, .i64 last, .i64 (last ||| f)]) := by
            simp [flagStep, flagAct, step, ht, confF, stepThread]
          rw [e]
          apply relF_apply _ s _ t _ (.load (.add f)) h <;> asimp [hp, hc, hv]
        | remove f =>
          have e : flagStep g (.tau t) = g.apply t (exec noPred [.i64 f] stepFuel ⟨g.mem, true, none⟩ (ctl (remB.drop 2) [.pop 1, .loopEnd remB]) [.i64 f, .i64 last, .i64 (last &&& ~~~f)]) := by
            simp [flagStep, flagAct, step, ht, confF, stepThread]
          rw [e]
          apply relF_apply _ s _ t _ (.load (.remove f)) h <;> asimp [hp, hc, hv]

theorem flagInit_rel (v0 : W64) : RelF (flagInit v0) (initF v0) := ⟨rfl, fun _ => rfl⟩

/-- every run of the generated Flag LTS is, action for action, a run of the hand-written model -/
theorem flagRun_rel (v0 : W64) (acts : List (CAct FOp)) :
    ∃ facts : List FAct, facts.length = acts.length ∧ RelF (flagRun v0 acts) (runF (initF v0) facts) := by
  suffices H : ∀ (acts : List (CAct FOp)) (g : GState) (s : FSt), RelF g s →
      ∃ facts : List FAct, facts.length = acts.length ∧ RelF (acts.foldl flagStep g) (facts.foldl stepF s) from
    H acts _ _ (flagInit_rel v0)
  intro acts
  induction acts with
  | nil => intro g s h; exact ⟨[], rfl, h⟩
  | cons a as ih =>
    intro g s h
    obtain ⟨fs, hl, hr⟩ := ih _ _ (simF g s a h)
    exact ⟨toF s a :: fs, by simp [hl], hr⟩

/-! ### AddIf64 -/

def confA (x : W64 × W64) : APc → Config
  | .idle => .idle
  | .load d => .run (ctl aiB [.pop 3, .loopEnd aiB]) [.i64 d, .i64 x.1, .i64 x.2] [.i64 d]
  | .cas d e => .run (ctl (aiB.drop 3) [.pop 3, .loopEnd aiB]) [.i64 d, .i64 e, .i64 (e + d)] [.i64 d]

structure RelA (g : GState) (s : ASt) (aux : Nat → W64 × W64) : Prop where
  cell : g.mem.cell = s.val
  conf : ∀ t, g.conf t = confA (aux t) (s.pc t)

def toA (s : ASt) : CAct W64 → AAct
  | .invoke t d => .invoke t d
  | .tau t =>
    match s.pc t with
    | .cas _ _ => .cas t
    | _ => .load t

/-- the dead locals after a step: `(0, 0)` at the invocation (`var expect, update int64`), the stale pair after a
    failed CAS -/
def auxA (s : ASt) (aux : Nat → W64 × W64) : CAct W64 → Nat → W64 × W64
  | .invoke t _ => if s.pc t = .idle then Got.Model.Atomics.upd aux t (0, 0) else aux
  | .tau t =>
    match s.pc t with
    | .cas d e => Got.Model.Atomics.upd aux t (e, e + d)
    | _ => aux

theorem relA_apply (g : GState) (s s' : ASt) (aux aux' : Nat → W64 × W64) (t : Nat) (o : Out) (p' : APc)
    (h : RelA g s aux) (hcell : o.mem.cell = s'.val) (hpc : s'.pc = Got.Model.Atomics.upd s.pc t p')
    (hconf : o.conf = confA (aux' t) p') (haux : ∀ u, u ≠ t → aux' u = aux u) :
    RelA (g.apply t o) s' aux' := by
  constructor
  · exact hcell
  · intro u
    simp only [GState.apply, hpc, hconf, Got.Model.AtomicIR.upd, Got.Model.Atomics.upd]
    split
    · next hu => rw [hu]
    · next hu => rw [haux u hu]; exact h.conf u

theorem relA_hist (g : GState) (s : ASt) (aux : Nat → W64 × W64) (hs : List (Nat × Ev)) (h : RelA g s aux) :
    RelA { g with hist := hs } s aux :=
  ⟨h.cell, h.conf⟩

theorem upd_ne {α : Type} (f : Nat → α) (t : Nat) (v : α) : ∀ u, u ≠ t → Got.Model.Atomics.upd f t v u = f u := by
  intro u hu; simp [Got.Model.Atomics.upd, hu]

local macro "bsimp" "[" ts:Lean.Parser.Tactic.simpLemma,* "]" : tactic =>
  `(tactic| simp [addIfStep, addIfAct, addIfProg, step, stepThread, startThread, GState.apply,
      confA, ctl, aiB, addIf64, loopOf, enter, unwind, exec, stepFuel, Stmt.needs,
      Cond.needs, Rhs.needs, evalC, evalRhs, doAcc, eval, i64op, resolve, loadAt, casAt, retEvs, stepA, toA, predOf,
      Got.Model.Atomics.upd, Got.Model.AtomicIR.upd, $ts,*])

theorem simA (pred : W64 → W64 → Bool) (g : GState) (s : ASt) (aux : Nat → W64 × W64) (a : CAct W64)
    (h : RelA g s aux) : RelA (addIfStep pred g a) (stepA pred s (toA s a)) (auxA s aux a) := by
  have hc := h.cell
  cases a with
  | invoke t d =>
    have ht := h.conf t
    cases hp : s.pc t with
    | idle =>
      rw [hp] at ht
      have e : addIfStep pred g (.invoke t d) =
          GState.apply { g with hist := g.hist ++ [(t, Ev.inv 0 [.i64 d])] } t (startThread (predOf pred) g.mem addIf64 [.i64 d]) := by
        bsimp [ht]
      rw [e]
      simp only [auxA, hp, if_true]
      apply relA_apply _ s _ aux _ t _ (.load d) (relA_hist g s aux _ h) _ _ _ (upd_ne _ _ _) <;> bsimp [hp, hc]
    | load d' =>
      rw [hp] at ht
      have e : addIfStep pred g (.invoke t d) = g := by bsimp [ht]
      have e2 : stepA pred s (toA s (.invoke t d)) = s := by bsimp [hp]
      rw [e, e2]; simp [auxA, hp]; exact h
    | cas d' e' =>
      rw [hp] at ht
      have e : addIfStep pred g (.invoke t d) = g := by bsimp [ht]
      have e2 : stepA pred s (toA s (.invoke t d)) = s := by bsimp [hp]
      rw [e, e2]; simp [auxA, hp]; exact h
  | tau t =>
    have ht := h.conf t
    cases hp : s.pc t with
    | idle =>
      rw [hp] at ht
      have e : addIfStep pred g (.tau t) = g := by bsimp [ht]
      have e2 : stepA pred s (toA s (.tau t)) = s := by bsimp [hp]
      rw [e, e2]; simp [auxA, hp]; exact h
    | load d =>
      rw [hp] at ht
      have e : addIfStep pred g (.tau t) = g.apply t (exec (predOf pred) [.i64 d] stepFuel ⟨g.mem, true, none⟩
          (ctl aiB [.pop 3, .loopEnd aiB]) [.i64 d, .i64 (aux t).1, .i64 (aux t).2]) := by
        simp [addIfStep, addIfAct, step, ht, confA, stepThread]
      rw [e]
      simp only [auxA, hp]
      by_cases hq : pred d s.val = true
      · apply relA_apply _ s _ aux aux t _ (.cas d s.val) h _ _ _ (fun _ _ => rfl) <;> bsimp [hp, hc, hq]
      · apply relA_apply _ s _ aux aux t _ .idle h _ _ _ (fun _ _ => rfl) <;> bsimp [hp, hc, hq]
    | cas d e' =>
      rw [hp] at ht
      have e : addIfStep pred g (.tau t) = g.apply t (exec (predOf pred) [.i64 d] stepFuel ⟨g.mem, true, none⟩
          (ctl (aiB.drop 3) [.pop 3, .loopEnd aiB]) [.i64 d, .i64 e', .i64 (e' + d)]) := by
        simp [addIfStep, addIfAct, step, ht, confA, stepThread]
      rw [e]
      simp only [auxA, hp]
      by_cases hv : s.val = e'
      · apply relA_apply _ s _ aux _ t _ .idle h _ _ _ (upd_ne _ _ _) <;> bsimp [hp, hc, hv]
      · apply relA_apply _ s _ aux _ t _ (.load d) h _ _ _ (upd_ne _ _ _) <;> bsimp [hp, hc, hv]

theorem addIfInit_rel (v0 : W64) : RelA (addIfInit v0) (initA v0) (fun _ => (0, 0)) := ⟨rfl, fun _ => rfl⟩

/-- every run of the generated AddIf64 LTS is, action for action, a run of the hand-written model -/
theorem addIfRun_rel (pred : W64 → W64 → Bool) (v0 : W64) (acts : List (CAct W64)) :
    ∃ (aacts : List AAct) (aux : Nat → W64 × W64), aacts.length = acts.length ∧
      RelA (addIfRun pred v0 acts) (runA pred (initA v0) aacts) aux := by
  suffices H : ∀ (acts : List (CAct W64)) (g : GState) (s : ASt) (aux : Nat → W64 × W64), RelA g s aux →
      ∃ (aacts : List AAct) (aux' : Nat → W64 × W64), aacts.length = acts.length ∧
        RelA (acts.foldl (addIfStep pred) g) (aacts.foldl (stepA pred) s) aux' from
    H acts _ _ _ (addIfInit_rel v0)
  intro acts
  induction acts with
  | nil => intro g s aux h; exact ⟨[], aux, rfl, h⟩
  | cons a as ih =>
    intro g s aux h
    obtain ⟨fs, aux', hl, hr⟩ := ih _ _ _ (simA pred g s aux a h)
    exact ⟨toA s a :: fs, aux', by simp [hl], hr⟩

end Got.Lemmas.AtomicsAst
