import Got.Lemmas.CodecAst
import Got.Lemmas.CodecRead
/-
Translator tie of the iox codec, part 2: the loops (Write7BitEncodedInt, Read7BitEncodedInt) and the length-prefixed
WriteBytes / WriteString.  The loop statements of the generated bodies are restated here (`W7LOOP`, `R7LOOP`, checked against the generated
term by `rfl` in `w7_body` / `r7_body`) and the refinement is proved by induction along the model's own loop.
-/
set_option linter.unusedSimpArgs false
namespace Got.Lemmas.CodecAst
open Got.Model.MiniGoBytes Got.Generated.AstIox
open Got.Model.Codec (writeByte write7Loop write7 write7Fuel readByte read7Loop read7 read7Fuel writeBytes writeString
  writeRaw)

/-! ### Write7BitEncodedInt -/

def W7LOOP : Stmt :=
  .loop (.lt (.lit (.bv 32 false) 127) (.var "v0")) [] [
    .call ["_"] "OctetsStream.WriteByte" [(.conv (.bv 8 false) (.or (.var "v0") (.lit (.bv 32 false) 4294967168)))],
    .assign "v0" (.shr (.var "v0") (.lit .int 7))]

def W7TAIL : List Stmt :=
  [.call ["r0"] "OctetsStream.WriteByte" [(.conv (.bv 8 false) (.var "v0"))], .ret [(.var "r0")]]

theorem w7_body : OctetsWriter_Write7BitEncodedInt.body =
    .decl "v0" (.conv (.bv 32 false) (.var "a0")) :: W7LOOP :: W7TAIL := rfl

theorem w7_params : OctetsWriter_Write7BitEncodedInt.params = ["a0"] := rfl

theorem w7_loop (d : BitVec 32) : ∀ (n : Nat) (num : BitVec 32) (bs : List Byte) (env : Env) (st : St) (fuel : Nat),
    write7Loop n num = some bs → env.lookup "v0" = some (.bv 32 false num) →
    env.lookup "a0" = some (.bv 32 true d) → n + 6 ≤ fuel →
    finish ["a0"] (exec table ["a0"] fuel (W7LOOP :: W7TAIL) env st) = some (writeOut st bs) := by
  intro n
  induction n with
  | zero => intro num bs env st fuel h; simp [write7Loop] at h
  | succ n ih =>
    intro num bs env st fuel h hv ha hf
    obtain ⟨g, rfl⟩ : ∃ g, fuel = g + 7 := ⟨fuel - 7, by omega⟩
    rw [Got.Lemmas.Codec.write7Loop_succ] at h
    by_cases hc : num > 127#32
    · rw [if_pos hc] at h
      cases ht : write7Loop n (num >>> 7) with
      | none => simp [ht] at h
      | some t =>
        simp only [ht, Option.map_some, Option.some.injEq] at h
        subst h
        have hc' : (127#32 < num) := hc
        have ih' := ih (num >>> 7) t (("v0", .bv 32 false (num >>> 7)) :: ("_", .err none) :: env)
          { st with buffer := st.buffer ++ [(num ||| 4294967168#32).setWidth 8] } (g + 6) ht
          (by simp [List.lookup]) (by simp [List.lookup, ha]) (by omega)
        rw [exec_loop' (L := W7LOOP) (hL := rfl)]
        ast_eval [hv, hc']
        rw [exec_call (vs := [.bv 8 false ((num ||| 4294967168#32).setWidth 8)]) (h := by ast_eval [hv]),
          s_writeByte_ast _ st (g + 5) (by omega)]
        simp only [writeOut, writeByte]
        ast_eval [hv]
        simpa [writeOut, finish, outsOf] using ih'
    · rw [if_neg hc] at h
      simp only [Option.some.injEq] at h
      subst h
      have hc' : ¬ (127#32 < num) := hc
      rw [exec_loop' (L := W7LOOP) (hL := rfl)]
      ast_eval [hv, hc']
      unfold W7TAIL
      rw [exec_call (vs := [.bv 8 false (num.setWidth 8)]) (h := by ast_eval [hv]),
        s_writeByte_ast _ st (g + 5) (by omega)]
      simp only [writeOut, writeByte]
      ast_eval [ha]

/-- **Write7BitEncodedInt**, all 2^32 values: the translated loop appends exactly the model's bytes -/
theorem w_write7_ast (d : BitVec 32) (st : St) (fuel : Nat) (hf : 72 ≤ fuel) :
    run table "OctetsWriter.Write7BitEncodedInt" fuel [.bv 32 true d] st = (write7 d).map (writeOut st) := by
  obtain ⟨f, rfl⟩ : ∃ f, fuel = f + 1 := ⟨fuel - 1, by omega⟩
  have hw := Got.Lemmas.Codec.write7_eq d
  rw [hw, Option.map_some]
  rw [run_eq tbl_w_Write7 _ _ _ rfl, w7_body, w7_params, exec_decl]
  ast_eval
  exact w7_loop d 64 d _ _ st f hw (by simp [List.lookup]) (by simp [List.lookup]) (by omega)

/-! ### Read7BitEncodedInt -/

def R7LOOP : Stmt :=
  .loop (.lt (.var "v1") (.lit .int 28)) [.assign "v1" (.add (.var "v1") (.lit .int 7))] [
    .call ["v2", "v3"] "OctetsReader.ReadByte" [],
    .ite (.ne (.var "v3") .nil) [.ret [(.lit (.bv 32 true) 0), (.var "v3")]] [],
    .assign "v0" (.or (.var "v0") (.shl (.conv (.bv 32 false) (.and (.var "v2") (.lit (.bv 8 false) 127))) (.var "v1"))),
    .ite (.le (.var "v2") (.lit (.bv 8 false) 127)) [.ret [(.conv (.bv 32 true) (.var "v0")), .nil]] []]

def R7TAIL : List Stmt :=
  [.call ["v4", "v5"] "OctetsReader.ReadByte" [],
   .ite (.ne (.var "v5") .nil) [.ret [(.lit (.bv 32 true) 0), (.var "v5")]] [],
   .ite (.lt (.lit (.bv 8 false) 15) (.var "v4")) [.ret [(.lit (.bv 32 true) 0), (.errc .Bad7BitInt)]] [],
   .ret [(.or (.conv (.bv 32 true) (.var "v0")) (.shl (.conv (.bv 32 true) (.var "v4")) (.lit .int 28))), .nil]]

theorem r7_body : OctetsReader_Read7BitEncodedInt.body =
    .decl "v0" (.lit (.bv 32 false) 0) :: .decl "v1" (.lit .int 0) :: R7LOOP :: R7TAIL := rfl

theorem r7_params : OctetsReader_Read7BitEncodedInt.params = [] := rfl

/-- the code behind the loop = the model's `last7` -/
theorem r7_tail (buf : List Byte) (num : BitVec 32) (pos a : Nat) (env : Env) (fuel : Nat)
    (hv : env.lookup "v0" = some (.bv 32 false num)) (hf : 12 ≤ fuel) :
    finish [] (exec table [] fuel R7TAIL env ⟨buf, pos, a⟩) =
      some (readOut (.bv 32 true) (.bv 32 true 0) ⟨buf, pos, a⟩ (Got.Lemmas.Codec.last7 buf num pos)) := by
  obtain ⟨g, rfl⟩ : ∃ g, fuel = g + 12 := ⟨fuel - 12, by omega⟩
  unfold R7TAIL
  rw [exec_call (vs := []) (h := rfl), r_readByte_ast buf pos a (g + 11) (by omega)]
  unfold Got.Lemmas.Codec.last7
  by_cases h : pos < buf.length
  · rw [Got.Lemmas.Codec.readByte_lt buf pos h]
    simp only [readOut]
    by_cases hb : buf[pos] > 15#8
    · have hb' : 15#8 < buf[pos] := hb
      ast_eval [hv, hb']
      simp [hb, cv]
    · have hb' : ¬ (15#8 < buf[pos]) := hb
      ast_eval [hv, hb']
      try simp [hb]
  · rw [Got.Lemmas.Codec.readByte_ge buf pos (by omega)]
    simp only [readOut]
    ast_eval [hv]
    try simp [cv]

theorem r7_loop (buf : List Byte) (a : Nat) : ∀ (n i : Nat) (num : BitVec 32) (pos : Nat) (env : Env) (fuel : Nat),
    env.lookup "v0" = some (.bv 32 false num) → env.lookup "v1" = some (.int (i : Int)) →
    28 ≤ i + 7 * n → n + 14 ≤ fuel →
    finish [] (exec table [] fuel (R7LOOP :: R7TAIL) env ⟨buf, pos, a⟩) =
      some (readOut (.bv 32 true) (.bv 32 true 0) ⟨buf, pos, a⟩ (read7Loop buf (n + 1) i num pos)) := by
  intro n
  induction n with
  | zero =>
    intro i num pos env fuel hv hi hn hf
    obtain ⟨g, rfl⟩ : ∃ g, fuel = g + 1 := ⟨fuel - 1, by omega⟩
    have hc : ¬ ((i : Int) < 28) := by omega
    rw [Got.Lemmas.Codec.read7Loop_ge buf 0 i num pos (by omega), exec_loop' (L := R7LOOP) (hL := rfl)]
    ast_eval [hi, hc]
    exact r7_tail buf num pos a env g hv (by omega)
  | succ n ih =>
    intro i num pos env fuel hv hi hn hf
    obtain ⟨g, rfl⟩ : ∃ g, fuel = g + 6 := ⟨fuel - 6, by omega⟩
    by_cases hlt : i < 28
    · have hc : (i : Int) < 28 := by omega
      have hneg : ¬ ((i : Int) < 0) := by omega
      rw [Got.Lemmas.Codec.read7Loop_lt buf (n + 1) i num pos hlt, exec_loop' (L := R7LOOP) (hL := rfl)]
      ast_eval [hi, hc]
      rw [exec_call (vs := []) (h := rfl), r_readByte_ast buf pos a (g + 4) (by omega)]
      unfold Got.Lemmas.Codec.step7
      by_cases h : pos < buf.length
      · rw [Got.Lemmas.Codec.readByte_lt buf pos h]
        simp only [readOut]
        by_cases hb : buf[pos] ≤ 127#8
        · ast_eval [hv, hi, hb, hneg]
          try simp [hb]
        · ast_eval [hv, hi, hb, hneg]
          have ih' := ih (i + 7) (num ||| ((buf[pos] &&& 127#8).setWidth 32 <<< i)) (pos + 1)
            (("v1", .int ((i : Int) + 7)) ::
              ("v0", .bv 32 false (num ||| ((buf[pos] &&& 127#8).setWidth 32 <<< i))) ::
              ("v2", .bv 8 false buf[pos]) :: ("v3", .err none) :: env) (g + 5)
            (by simp [List.lookup]) (by simp [List.lookup]) (by omega) (by omega)
          simpa [hb, finish, outsOf, readOut] using ih'
      · rw [Got.Lemmas.Codec.readByte_ge buf pos (by omega)]
        simp only [readOut]
        ast_eval [hv, hi]
        try simp [cv]
    · have hc : ¬ ((i : Int) < 28) := by omega
      rw [Got.Lemmas.Codec.read7Loop_ge buf (n + 1) i num pos hlt, exec_loop' (L := R7LOOP) (hL := rfl)]
      ast_eval [hi, hc]
      exact r7_tail buf num pos a env (g + 5) hv (by omega)

/-- **Read7BitEncodedInt** on arbitrary bytes: value / error, position and (no) allocation of the model -/
theorem r_read7_ast (buf : List Byte) (pos a : Nat) (fuel : Nat) (hf : 90 ≤ fuel) :
    run table "OctetsReader.Read7BitEncodedInt" fuel [] ⟨buf, pos, a⟩ =
      some (readOut (.bv 32 true) (.bv 32 true 0) ⟨buf, pos, a⟩ (read7 buf pos)) := by
  obtain ⟨f, rfl⟩ : ∃ f, fuel = f + 2 := ⟨fuel - 2, by omega⟩
  rw [run_eq tbl_r_Read7 _ _ _ rfl, r7_body, r7_params, exec_decl]
  ast_eval
  exact r7_loop buf a 63 0 0#32 pos _ f (by simp [List.lookup]) (by simp [List.lookup]) (by omega) (by omega)

/-! ### WriteBytes / WriteString -/

/-- what the translated WriteBytes / WriteString return: `nil`, the argument slice unchanged, the bytes appended -/
def writeSliceOut (st : St) (data : List Byte) (bs : List Byte) : Out :=
  .ret [.err none] [some data] { st with buffer := st.buffer ++ bs }

theorem w_writeBytes_ast (data : List Byte) (st : St) (fuel : Nat) (hf : 80 ≤ fuel) :
    run table "OctetsWriter.WriteBytes" fuel [.bytes data] st = (writeBytes data).map (writeSliceOut st data) := by
  obtain ⟨f, rfl⟩ : ∃ f, fuel = f + 8 := ⟨fuel - 8, by omega⟩
  have hw := Got.Lemmas.Codec.write7_eq (BitVec.ofNat 32 data.length)
  unfold writeBytes
  rw [hw, Option.map_some, Option.map_some, run_eq tbl_w_WriteBytes _ _ _ rfl]
  simp only [OctetsWriter_WriteBytes]
  rw [exec_decl]
  ast_eval
  rw [exec_call (vs := [.bv 32 true (BitVec.ofNat 32 data.length)]) (h := by ast_eval [BitVec.ofInt_natCast]),
    w_write7_ast _ st (f + 6) (by omega), hw, Option.map_some]
  simp only [writeOut]
  ast_eval
  rw [exec_call (vs := [.bytes data]) (h := by ast_eval), s_write_ast data _ (f + 4) (by omega)]
  ast_eval
  simp [writeSliceOut, List.append_assoc]

theorem w_writeString_ast (data : List Byte) (st : St) (fuel : Nat) (hf : 90 ≤ fuel) :
    run table "OctetsWriter.WriteString" fuel [.bytes data] st = (writeString data).map (writeSliceOut st data) := by
  obtain ⟨f, rfl⟩ : ∃ f, fuel = f + 4 := ⟨fuel - 4, by omega⟩
  rw [run_eq tbl_w_WriteString _ _ _ rfl]
  simp only [OctetsWriter_WriteString]
  rw [exec_decl]
  ast_eval
  rw [exec_call (vs := [.bytes data]) (h := by ast_eval), w_writeBytes_ast data st (f + 2) (by omega)]
  unfold writeString
  cases writeBytes data with
  | none => rfl
  | some bs =>
    simp only [Option.map_some, writeSliceOut]
    ast_eval

end Got.Lemmas.CodecAst
