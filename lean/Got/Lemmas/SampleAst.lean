import Got.Model.SampleAst
import Got.Lemmas.GoHeap
import Got.Lemmas.HeapAstBase
/-
WeightedSampling over the interpreted container/heap terms (`Got.Model.SampleAst.weightedSamplingAst`) computes the
model `Got.Model.Sample.weightedSampling`, GIVEN that the interpreted heap.Push / heap.Pop compute the GoHeap model
functions (`PushSpec`, `PopSpec`; proved in Got/Lemmas/HeapAstAll.lean from the refinement theorems of the generated terms).
-/
namespace Got.Lemmas.SampleAst
open Got.Model Got.Model.Sample Got.Model.HeapAst Got.Model.SampleAst
open Got.Lemmas.HeapAst (B62)

variable {α : Type}

def PushSpec (α : Type) : Prop :=
  ∀ (less : α → α → Bool) (a : Array α) (x : α), a.size + 1 < B62 →
    ∃ f0, ∀ f, f0 ≤ f → pushAst f less a x = some (some (GoHeap.push less a x))

def PopSpec (α : Type) : Prop :=
  ∀ (less : α → α → Bool) (a : Array α), a.size < B62 →
    ∃ f0, ∀ f, f0 ≤ f → popAst f less a = some (GoHeap.pop less a)

variable {κ : Type}

theorem stepAst_refines (hpush : PushSpec (Item κ)) (hpop : PopSpec (Item κ)) (less gt : κ → κ → Bool) (m : Nat)
    (h : Array (Item κ)) (i : Nat) (ki : κ) (hsz : h.size + 2 < B62) :
    ∃ f0, ∀ f, f0 ≤ f → stepAst f less gt m h i ki = some (step less gt m h i ki) := by
  obtain ⟨f1, h1⟩ := hpush (itemLess less) h ⟨ki, i⟩ (by omega)
  obtain ⟨f2, h2⟩ := hpop (itemLess less) (GoHeap.push (itemLess less) h ⟨ki, i⟩)
    (by rw [Got.Lemmas.GoHeap.push_size]; omega)
  refine ⟨f1 + f2, fun f hf => ?_⟩
  unfold stepAst step
  split
  · exact h1 f (by omega)
  · cases h[0]? with
    | none => rfl
    | some top =>
      simp only
      split
      · rw [h1 f (by omega)]
        simp only
        split
        · rw [h2 f (by omega)]
          cases GoHeap.pop (itemLess less) (GoHeap.push (itemLess less) h ⟨ki, i⟩) <;> rfl
        · rfl
      · rfl

theorem step_size (less gt : κ → κ → Bool) (m : Nat) (h h1 : Array (Item κ)) (i : Nat) (ki : κ)
    (hs : step less gt m h i ki = some h1) : h1.size ≤ h.size + 1 := by
  unfold step at hs
  split at hs
  · injection hs with hs; subst hs; rw [Got.Lemmas.GoHeap.push_size]; omega
  · split at hs
    · cases hs
    · split at hs
      · simp only at hs
        split at hs
        · cases hp : GoHeap.pop (itemLess less) (GoHeap.push (itemLess less) h ⟨ki, i⟩) with
          | none => rw [hp] at hs; cases hs
          | some p =>
            obtain ⟨x, b⟩ := p
            rw [hp] at hs
            simp only [Option.map_some] at hs
            injection hs with hs
            subst hs
            have := (Got.Lemmas.GoHeap.pop_perm _ _ x b hp).2
            rw [Got.Lemmas.GoHeap.push_size] at this
            omega
        · injection hs with hs; subst hs; rw [Got.Lemmas.GoHeap.push_size]; omega
      · injection hs with hs; subst hs; omega

theorem loopAst_refines (hpush : PushSpec (Item κ)) (hpop : PopSpec (Item κ)) (less gt : κ → κ → Bool) (m : Nat) :
    ∀ (keys : List κ) (h : Array (Item κ)) (i : Nat), h.size + keys.length + 2 < B62 →
      ∃ f0, ∀ f, f0 ≤ f → loopAst f less gt m h i keys = some (loop less gt m h i keys) := by
  intro keys
  induction keys with
  | nil => intro h i _; exact ⟨0, fun f _ => rfl⟩
  | cons k ks ih =>
    intro h i hsz
    simp only [List.length_cons] at hsz
    obtain ⟨f1, h1⟩ := stepAst_refines hpush hpop less gt m h i k (by omega)
    cases hs : step less gt m h i k with
    | none =>
      refine ⟨f1, fun f hf => ?_⟩
      unfold loopAst loop
      rw [h1 f hf, hs]
    | some hh =>
      have := step_size less gt m h hh i k hs
      obtain ⟨f2, h2⟩ := ih hh (i + 1) (by omega)
      refine ⟨f1 + f2, fun f hf => ?_⟩
      unfold loopAst loop
      rw [h1 f (by omega), hs]
      exact h2 f (by omega)

/-- the whole call: for every sufficiently large fuel the loop over the interpreted heap terms returns the model's result -/
theorem weightedSamplingAst_refines (hpush : PushSpec (Item κ)) (hpop : PopSpec (Item κ)) (less gt : κ → κ → Bool)
    (sampleNum : Int) (keys : List κ) (hn : keys.length + 2 < B62) :
    ∃ f0, ∀ f, f0 ≤ f → weightedSamplingAst f less gt sampleNum keys = some (weightedSampling less gt sampleNum keys) := by
  obtain ⟨f0, h0⟩ := loopAst_refines hpush hpop less gt sampleNum.toNat keys #[] 0 (by simpa using hn)
  refine ⟨f0, fun f hf => ?_⟩
  unfold weightedSamplingAst weightedSampling
  split
  · rfl
  · split
    · rfl
    · rw [h0 f hf]
      cases loop less gt sampleNum.toNat #[] 0 keys <;> rfl

end Got.Lemmas.SampleAst
