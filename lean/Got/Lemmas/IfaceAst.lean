import Got.Model.SampleAst
/-
The heap.Interface world generated from the methods of randx.sampleHeap (Got/Generated/AstRandxSampleHeap.lean, rewritten
from /repo/randx/sample.go on every run) IS the slice-backed world `heapWorld (itemLess less)` that the heap model and the
refinement theorems of container/heap assume; hence the loop `drv_sample ast` runs (`weightedSamplingGen`) equals
`weightedSamplingAst`.
-/
namespace Got.Lemmas.IfaceAst
open Got.Model Got.Model.Sample Got.Model.HeapAst Got.Model.SampleAst Got.Model.MiniGoHeap Got.Model.MiniGoIface
open Got.Generated.AstRandxSampleHeap

variable {κ : Type}

theorem at_natCast_lt {ε : Type} (a : Array ε) (i : Int) (h : 0 ≤ i ∧ i.toNat < a.size) : at? a i = some (a[i.toNat]'h.2) := by
  unfold at?
  rw [if_pos h]
  exact Array.getElem?_eq_getElem h.2

theorem at_none {ε : Type} (a : Array ε) (i : Int) (h : ¬ (0 ≤ i ∧ i.toNat < a.size)) : at? a i = none := by
  unfold at?
  rw [if_neg h]

theorem sampleWorld_len (less : κ → κ → Bool) (a : Array (Item κ)) : (sampleWorld less).len a = (heapWorld (itemLess less)).len a := rfl

theorem sampleWorld_push (less : κ → κ → Bool) (a : Array (Item κ)) (x : Item κ) :
    (sampleWorld less).push a x = (heapWorld (itemLess less)).push a x := rfl

theorem sampleWorld_less (less : κ → κ → Bool) (a : Array (Item κ)) (i j : Int) :
    (sampleWorld less).less a i j = (heapWorld (itemLess less)).less a i j := by
  simp only [sampleWorld, worldOf, sampleHeap, Idx.eval, List.getD_cons_zero, List.getD_cons_succ, keyField, if_true, heapWorld]
  by_cases h : 0 ≤ i ∧ 0 ≤ j ∧ i.toNat < a.size ∧ j.toNat < a.size
  · rw [dif_pos h, at_natCast_lt a i ⟨h.1, h.2.2.1⟩, at_natCast_lt a j ⟨h.2.1, h.2.2.2⟩]
  · rw [dif_neg h]
    by_cases hi : 0 ≤ i ∧ i.toNat < a.size
    · have hj : ¬ (0 ≤ j ∧ j.toNat < a.size) := fun hj => h ⟨hi.1, hj.1, hi.2, hj.2⟩
      rw [at_natCast_lt a i hi, at_none a j hj]
    · rw [at_none a i hi]

theorem sampleWorld_swap (less : κ → κ → Bool) (a : Array (Item κ)) (i j : Int) :
    (sampleWorld less).swap a i j = (heapWorld (itemLess less)).swap a i j := by
  simp only [sampleWorld, worldOf, sampleHeap, Idx.eval, List.getD_cons_zero, List.getD_cons_succ, heapWorld]
  by_cases h : 0 ≤ i ∧ 0 ≤ j ∧ i.toNat < a.size ∧ j.toNat < a.size
  · rw [dif_pos h, at_natCast_lt a i ⟨h.1, h.2.2.1⟩, at_natCast_lt a j ⟨h.2.1, h.2.2.2⟩]
    simp only
    rw [if_pos ⟨h.1, h.2.2.1, h.2.1, h.2.2.2⟩]
    congr 1
    simp [Array.swap, Array.setIfInBounds, h.2.2.1, h.2.2.2]
  · rw [dif_neg h]
    by_cases hj : 0 ≤ j ∧ j.toNat < a.size
    · by_cases hi : 0 ≤ i ∧ i.toNat < a.size
      · exact absurd ⟨hi.1, hj.1, hi.2, hj.2⟩ h
      · rw [at_natCast_lt a j hj, at_none a i hi]
    · rw [at_none a j hj]

theorem sampleWorld_pop (less : κ → κ → Bool) (a : Array (Item κ)) :
    (sampleWorld less).pop a = (heapWorld (itemLess less)).pop a := by
  simp only [sampleWorld, worldOf, sampleHeap, Idx.eval, heapWorld]
  by_cases h0 : a.size = 0
  · have : a.back? = none := by rw [Array.back?_eq_getElem?]; simp [h0]
    rw [this, at_none a _ (by omega)]
  · have hlast : ((a.size : Int) - ((1 : Nat) : Int)).toNat = a.size - 1 := by omega
    have hb : a.back? = some (a[a.size - 1]'(by omega)) := by
      rw [Array.back?_eq_getElem?]; exact Array.getElem?_eq_getElem (by omega)
    rw [hb, at_natCast_lt a _ ⟨by omega, by omega⟩]
    simp only [hlast]
    rw [if_pos ⟨by omega, by omega⟩, Array.extract_eq_pop rfl]

/-- the generated world is the slice-backed heap world -/
theorem sampleWorld_eq (less : κ → κ → Bool) : sampleWorld less = heapWorld (itemLess less) := by
  have h1 : (sampleWorld less).len = (heapWorld (itemLess less)).len := funext (sampleWorld_len less)
  have h2 : (sampleWorld less).less = (heapWorld (itemLess less)).less :=
    funext fun a => funext fun i => funext fun j => sampleWorld_less less a i j
  have h3 : (sampleWorld less).swap = (heapWorld (itemLess less)).swap :=
    funext fun a => funext fun i => funext fun j => sampleWorld_swap less a i j
  have h4 : (sampleWorld less).push = (heapWorld (itemLess less)).push :=
    funext fun a => funext fun x => sampleWorld_push less a x
  have h5 : (sampleWorld less).pop = (heapWorld (itemLess less)).pop := funext (sampleWorld_pop less)
  cases hs : sampleWorld less with
  | mk l le sw pu po =>
    cases hh : heapWorld (itemLess less) with
    | mk l' le' sw' pu' po' =>
      rw [hs, hh] at h1 h2 h3 h4 h5
      simp only at h1 h2 h3 h4 h5
      subst h1 h2 h3 h4 h5
      rfl

/-- `h.Get(0)` of the generated description is `h[0]?` -/
theorem get0_eq (h : Array (Item κ)) : getOf sampleHeap h 0 = h[0]? := by
  simp only [getOf, sampleHeap, Idx.eval, List.getD_cons_zero]
  unfold at?
  by_cases hs : 0 < h.size
  · rw [if_pos ⟨Int.le_refl 0, by simpa using hs⟩]; rfl
  · have hn : h[0]? = none := by
      rw [Array.getElem?_eq_none_iff]; omega
    rw [if_neg (by intro hh; exact hs (by simpa using hh.2)), hn]

theorem stepAstW_eq (fuel : Nat) (less gt : κ → κ → Bool) (m : Nat) (h : Array (Item κ)) (i : Nat) (ki : κ) :
    stepAstW fuel (heapWorld (itemLess less)) (fun h => h[0]?) gt m h i ki = stepAst fuel less gt m h i ki := by
  unfold stepAstW stepAst
  have e1 : ((heapWorld (itemLess less)).len h < (m : Int)) ↔ h.size < m := by
    show ((h.size : Int) < (m : Int)) ↔ _
    omega
  by_cases hlt : h.size < m
  · rw [if_pos (e1.2 hlt), if_pos hlt]; rfl
  · rw [if_neg (fun hh => hlt (e1.1 hh)), if_neg hlt]
    dsimp only
    cases h[0]? with
    | none => rfl
    | some top =>
      simp only
      split
      · have hp : pushW fuel (heapWorld (itemLess less)) h ⟨ki, i⟩ = pushAst fuel (itemLess less) h ⟨ki, i⟩ := rfl
        rw [hp]
        cases pushAst fuel (itemLess less) h ⟨ki, i⟩ with
        | none => rfl
        | some o =>
          cases o with
          | none => rfl
          | some h1 =>
            simp only
            have hq : popW fuel (heapWorld (itemLess less)) h1 = popAst fuel (itemLess less) h1 := by
              unfold popW popAst
              cases Got.Generated.AstContainerHeap.h_Pop.run (heapWorld (itemLess less)) Got.Generated.AstContainerHeap.prog fuel [] none h1 with
              | none => rfl
              | some o =>
                cases o with
                | panic => rfl
                | done vs v w => cases v <;> rfl
            rw [hq]
            have e2 : ((heapWorld (itemLess less)).len h1 > (m : Int)) ↔ h1.size > m := by
              show ((h1.size : Int) > (m : Int)) ↔ _
              omega
            by_cases hgt : h1.size > m
            · rw [if_pos (e2.2 hgt), if_pos hgt]
            · rw [if_neg (fun hh => hgt (e2.1 hh)), if_neg hgt]
      · rfl

theorem loopAstW_eq (fuel : Nat) (less gt : κ → κ → Bool) (m : Nat) :
    ∀ (keys : List κ) (h : Array (Item κ)) (i : Nat),
      loopAstW fuel (heapWorld (itemLess less)) (fun h => h[0]?) gt m h i keys = loopAst fuel less gt m h i keys := by
  intro keys
  induction keys with
  | nil => intro h i; rfl
  | cons k ks ih =>
    intro h i
    unfold loopAstW loopAst
    rw [stepAstW_eq]
    cases stepAst fuel less gt m h i k with
    | none => rfl
    | some o =>
      cases o with
      | none => rfl
      | some h1 => exact ih h1 (i + 1)

/-- what `drv_sample ast` runs (container/heap from GOROOT over the interface methods from /repo) is `weightedSamplingAst` -/
theorem weightedSamplingGen_eq (fuel : Nat) (less gt : κ → κ → Bool) (sampleNum : Int) (keys : List κ) :
    weightedSamplingGen fuel less gt sampleNum keys = weightedSamplingAst fuel less gt sampleNum keys := by
  unfold weightedSamplingGen weightedSamplingAstW weightedSamplingAst
  have hg : (fun h : Array (Item κ) => getOf sampleHeap h 0) = (fun h => h[0]?) := funext get0_eq
  rw [sampleWorld_eq, hg, loopAstW_eq]

/-- `h.Get(i)` of the generated description is `h[i]?` for every natural `i` -/
theorem get_eq (h : Array (Item κ)) (i : Nat) : getOf sampleHeap h (i : Int) = h[i]? := by
  simp only [getOf, sampleHeap, Idx.eval, List.getD_cons_zero]
  unfold at?
  by_cases hs : i < h.size
  · rw [if_pos ⟨by omega, by simpa using hs⟩]; simp
  · have hn : h[i]? = none := by
      rw [Array.getElem?_eq_none_iff]; omega
    rw [if_neg (by intro hh; exact hs (by simpa using hh.2)), hn]

theorem popW_eq (fuel : Nat) (less : κ → κ → Bool) (h1 : Array (Item κ)) :
    popW fuel (heapWorld (itemLess less)) h1 = popAst fuel (itemLess less) h1 := by
  unfold popW popAst
  cases Got.Generated.AstContainerHeap.h_Pop.run (heapWorld (itemLess less)) Got.Generated.AstContainerHeap.prog fuel [] none h1 with
  | none => rfl
  | some o =>
    cases o with
    | panic => rfl
    | done vs v w => cases v <;> rfl

theorem pushW_eq (fuel : Nat) (less : κ → κ → Bool) (h : Array (Item κ)) (x : Item κ) :
    pushW fuel (heapWorld (itemLess less)) h x = pushAst fuel (itemLess less) h x := rfl

end Got.Lemmas.IfaceAst
