import Got.Model.MSQueue
/-
Erasure: the ghost components (`chain`, `hi`, `ti`, `log`) are never read by the non-ghost part of the
step function — two states that agree on the real components (heap values and links, allocation
counter, head, tail, program counters) still agree on them after any action.
-/
namespace Got.Model.MSQueue
open Got.Spec.Lin

/-- the real (non-ghost) part of a state. -/
structure Core where
  val : Nat → Nat
  next : Nat → Option Nat
  nalloc : Nat
  head : Nat
  tail : Nat
  pc : Nat → Pc

def core (s : State) : Core := ⟨s.val, s.next, s.nalloc, s.head, s.tail, s.pc⟩

theorem core_step (s s' : State) (a : Act) (h : core s = core s') : core (step s a) = core (step s' a) := by
  obtain ⟨⟨val, next, nalloc, head, tail, chain, hi, ti⟩, pc, log⟩ := s
  obtain ⟨⟨val', next', nalloc', head', tail', chain', hi', ti'⟩, pc', log'⟩ := s'
  simp only [core] at h
  injection h with h1 h2 h3 h4 h5 h6
  subst h1; subst h2; subst h3; subst h4; subst h5; subst h6
  cases a with
  | invPush t v => simp only [step]; cases pc t <;> rfl
  | invPop t => simp only [step]; cases pc t <;> rfl
  | tau t =>
    simp only [step, tau]
    cases pc t with
    | idle => rfl
    | crash => rfl
    | p1 n => rfl
    | p2 n tl => rfl
    | p3 n tl nx =>
      dsimp only
      split
      · cases nx <;> rfl
      · rfl
    | p4 n tl => dsimp only; split <;> rfl
    | p4h n tl x => dsimp only [casTail]; split <;> rfl
    | p5 n tl => dsimp only [casTail]; split <;> rfl
    | d1 => rfl
    | d2 hd => rfl
    | d3 hd tl => dsimp only; cases next hd <;> rfl
    | d4 hd tl nx =>
      dsimp only
      split
      · split
        · cases nx <;> rfl
        · cases nx <;> rfl
      · rfl
    | d5h hd tl x => dsimp only [casTail]; split <;> rfl
    | d5 hd x v => dsimp only; split <;> rfl

end Got.Model.MSQueue
