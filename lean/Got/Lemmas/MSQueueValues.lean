import Got.Lemmas.MSQueueInv
import Got.Lemmas.MSQueueWitness
/-
Client-visible value facts of the queue model: the heap itself is the ghost record —
allocated nodes 1..nalloc-1 hold the arguments of the invoked Pushes in invocation order, the chain
after the dummy holds the values in Push-linearisation order, and every value-returning Pop logs its
marker and its response in the same step.  From these: FIFO order and no duplication at the level of
invocations and responses.
-/
namespace Got.Model.MSQueue
open Got.Spec.Lin

structure ValInv (s : State) : Prop where
  dummy : ∃ rest, s.chain = 0 :: rest
  invs : invPushVals s.log = (List.range' 1 (s.nalloc - 1)).map s.val
  pushed : pushedLin s.log = s.chain.tail.map s.val
  rets : retVals s.log = poppedLin s.log

/-- events that carry no value information. -/
def Silent (e : LEv) : Prop :=
  e.invPush = none ∧ e.pushLin = none ∧ e.retVal = none ∧ e.popLin = none

theorem filterMap_silent {f : LEv → Option Nat} {evs : List LEv} (h : ∀ e, e ∈ evs → f e = none) :
    evs.filterMap f = [] := by
  induction evs with
  | nil => rfl
  | cons e l ih =>
    rw [List.filterMap_cons, h e (List.mem_cons_self ..)]
    exact ih (fun x hx => h x (List.mem_cons_of_mem _ hx))

theorem ValInv.silent {s s' : State} (hV : ValInv s) (hc : s'.chain = s.chain) (hv : s'.val = s.val)
    (hn : s'.nalloc = s.nalloc) {evs : List LEv} (hl : s'.log = s.log ++ evs)
    (hs : ∀ e, e ∈ evs → Silent e) : ValInv s' := by
  refine ⟨by rw [hc]; exact hV.dummy, ?_, ?_, ?_⟩
  · rw [hl, hv, hn]; unfold invPushVals
    rw [List.filterMap_append, filterMap_silent (fun e he => (hs e he).1), List.append_nil]
    exact hV.invs
  · rw [hl, hv, hc]; unfold pushedLin
    rw [List.filterMap_append, filterMap_silent (fun e he => (hs e he).2.1), List.append_nil]
    exact hV.pushed
  · rw [hl]; unfold retVals poppedLin
    rw [List.filterMap_append, List.filterMap_append, filterMap_silent (fun e he => (hs e he).2.2.1),
      filterMap_silent (fun e he => (hs e he).2.2.2), List.append_nil, List.append_nil]
    exact hV.rets

theorem ValInv.setPc {s : State} (hV : ValInv s) (t : Nat) (p : Pc) : ValInv (setPc s t p) :=
  hV.silent (evs := []) rfl rfl rfl (by simp [MSQueue.setPc]) (fun e he => by cases he)

theorem ValInv.casTail {s s' : State} (hV : ValInv s) {t a b : Nat} {p : Pc} {evs : List LEv}
    (hh : s'.toHeap = (casTail s t a b p).toHeap) (hl : s'.log = s.log ++ evs)
    (hs : ∀ e, e ∈ evs → Silent e) : ValInv s' := by
  have h1 : s'.chain = s.chain := by
    rw [show s'.chain = s'.toHeap.chain from rfl, hh, casTail_heap]; split <;> rfl
  have h2 : s'.val = s.val := by
    rw [show s'.val = s'.toHeap.val from rfl, hh, casTail_heap]; split <;> rfl
  have h3 : s'.nalloc = s.nalloc := by
    rw [show s'.nalloc = s'.toHeap.nalloc from rfl, hh, casTail_heap]; split <;> rfl
  exact hV.silent h1 h2 h3 hl hs

theorem nalloc_pos {s : State} (hI : Inv s) : 0 < s.nalloc := by
  have h := hI.glob.hd
  exact Nat.lt_of_le_of_lt (Nat.zero_le _) (hI.glob.lt _ (List.mem_of_getElem? h))

theorem valinv_tau {s : State} (hV : ValInv s) (t : Nat) : ValInv (tau s t) := by
  have sil1 : ∀ e : LEv, Silent e → ∀ x, x ∈ [e] → Silent x := by
    intro e he x hx; rw [List.mem_singleton] at hx; subst hx; exact he
  cases hp : s.pc t with
  | idle => simp only [tau, hp]; exact hV
  | crash => simp only [tau, hp]; exact hV
  | p1 n => simp only [tau, hp]; exact hV.setPc _ _
  | p2 n tl => simp only [tau, hp]; exact hV.setPc _ _
  | p3 n tl nx =>
    simp only [tau, hp]
    split
    · cases nx <;> exact hV.setPc _ _
    · exact hV.setPc _ _
  | p4 n tl =>
    simp only [tau, hp]
    split
    · obtain ⟨rest, hr⟩ := hV.dummy
      have hne : s.chain ≠ [] := by rw [hr]; exact List.cons_ne_nil _ _
      refine ⟨⟨rest ++ [n], by show s.chain ++ [n] = _; rw [hr]; rfl⟩, ?_, ?_, ?_⟩
      · show invPushVals (s.log ++ [_]) = _
        unfold invPushVals
        rw [List.filterMap_append]
        show _ ++ [] = _
        rw [List.append_nil]; exact hV.invs
      · show pushedLin (s.log ++ [.lin t (.push (s.val n)) .ack]) = (s.chain ++ [n]).tail.map s.val
        rw [pushedLin_snoc, List.tail_append_of_ne_nil hne, List.map_append, hV.pushed]; rfl
      · show retVals (s.log ++ [_]) = poppedLin (s.log ++ [_])
        unfold retVals poppedLin
        rw [List.filterMap_append, List.filterMap_append]
        show _ ++ [] = _ ++ []
        rw [List.append_nil, List.append_nil]; exact hV.rets
    · exact hV.setPc _ _
  | p4h n tl x =>
    simp only [tau, hp]
    exact hV.casTail (evs := []) rfl (by rw [casTail_log]; simp) (fun e he => by cases he)
  | p5 n tl =>
    simp only [tau, hp]
    exact hV.casTail (evs := [.ret t .ack]) rfl rfl (sil1 _ ⟨rfl, rfl, rfl, rfl⟩)
  | d1 => simp only [tau, hp]; exact hV.setPc _ _
  | d2 hd => simp only [tau, hp]; exact hV.setPc _ _
  | d3 hd tl =>
    simp only [tau, hp]
    split
    · exact hV.silent (evs := [.obs t]) rfl rfl rfl rfl (sil1 _ ⟨rfl, rfl, rfl, rfl⟩)
    · exact hV.setPc _ _
  | d4 hd tl nx =>
    simp only [tau, hp]
    split
    · split
      · cases nx with
        | none => exact hV.silent (evs := [.ret t (.val none)]) rfl rfl rfl rfl (sil1 _ ⟨rfl, rfl, rfl, rfl⟩)
        | some x => exact hV.setPc _ _
      · cases nx <;> exact hV.setPc _ _
    · exact hV.setPc _ _
  | d5h hd tl x =>
    simp only [tau, hp]
    exact hV.casTail (evs := []) rfl (by rw [casTail_log]; simp) (fun e he => by cases he)
  | d5 hd x v =>
    simp only [tau, hp]
    split
    · refine ⟨hV.dummy, ?_, ?_, ?_⟩
      · show invPushVals (s.log ++ [_, _]) = _
        unfold invPushVals
        rw [List.filterMap_append]
        show _ ++ [] = _
        rw [List.append_nil]; exact hV.invs
      · show pushedLin (s.log ++ [_, _]) = _
        unfold pushedLin
        rw [List.filterMap_append]
        show _ ++ [] = _
        rw [List.append_nil]; exact hV.pushed
      · show retVals (s.log ++ [_, _]) = poppedLin (s.log ++ [_, _])
        unfold retVals poppedLin
        rw [List.filterMap_append, List.filterMap_append]
        show _ ++ [v] = _ ++ [v]
        rw [show List.filterMap LEv.retVal s.log = retVals s.log from rfl, hV.rets]; rfl
    · exact hV.setPc _ _

theorem valinv_step {s : State} (hI : Inv s) (hV : ValInv s) (a : Act) : ValInv (step s a) := by
  cases a with
  | tau t => exact valinv_tau hV t
  | invPop t =>
    cases hp : s.pc t <;> simp only [step, hp] <;> try exact hV
    exact hV.silent (evs := [.inv t .pop]) rfl rfl rfl rfl
      (fun e he => by rw [List.mem_singleton] at he; subst he; exact ⟨rfl, rfl, rfl, rfl⟩)
  | invPush t v =>
    cases hp : s.pc t <;> simp only [step, hp] <;> try exact hV
    have hpos := nalloc_pos hI
    have hval : ∀ x, x < s.nalloc → upd s.val s.nalloc v x = s.val x :=
      fun x hx => upd_other _ _ _ _ (Nat.ne_of_lt hx)
    refine ⟨hV.dummy, ?_, ?_, ?_⟩
    · show invPushVals (s.log ++ [.inv t (.push v)]) = (List.range' 1 (s.nalloc + 1 - 1)).map (upd s.val s.nalloc v)
      unfold invPushVals
      rw [List.filterMap_append]
      show List.filterMap LEv.invPush s.log ++ [v] = _
      have e1 : s.nalloc + 1 - 1 = (s.nalloc - 1) + 1 := by omega
      rw [e1, List.range'_concat, List.map_append]
      congr 1
      · rw [show List.filterMap LEv.invPush s.log = invPushVals s.log from rfl, hV.invs]
        apply List.map_congr_left
        intro a ha
        rw [List.mem_range'] at ha
        obtain ⟨i, hi, rfl⟩ := ha
        exact (hval _ (by omega)).symm
      · have : 1 + 1 * (s.nalloc - 1) = s.nalloc := by omega
        rw [this]
        show [v] = [upd s.val s.nalloc v s.nalloc]
        rw [upd_same]
    · show pushedLin (s.log ++ [_]) = s.chain.tail.map (upd s.val s.nalloc v)
      unfold pushedLin
      rw [List.filterMap_append]
      show _ ++ [] = _
      rw [List.append_nil, show List.filterMap LEv.pushLin s.log = pushedLin s.log from rfl, hV.pushed]
      apply List.map_congr_left
      intro a ha
      exact (hval a (hI.glob.lt a (List.mem_of_mem_tail ha))).symm
    · show retVals (s.log ++ [_]) = poppedLin (s.log ++ [_])
      unfold retVals poppedLin
      rw [List.filterMap_append, List.filterMap_append]
      show _ ++ [] = _ ++ []
      rw [List.append_nil, List.append_nil]; exact hV.rets

theorem valinv_init : ValInv init := ⟨⟨[], rfl⟩, rfl, rfl, rfl⟩

theorem valinv_run {s : State} (hI : Inv s) (hV : ValInv s) (acts : List Act) : ValInv (run s acts) := by
  induction acts generalizing s with
  | nil => exact hV
  | cons a l ih => exact ih (inv_step hI a) (valinv_step hI hV a)

theorem valinv_reachable (acts : List Act) : ValInv (run init acts) := valinv_run inv_init valinv_init acts

/-! ### consequences -/

theorem nodup_map_of_inj_on {f : Nat → Nat} {l : List Nat} (hn : l.Nodup)
    (hinj : ∀ a b, a ∈ l → b ∈ l → f a = f b → a = b) : (l.map f).Nodup := by
  induction l with
  | nil => exact List.nodup_nil
  | cons x l ih =>
    rw [List.nodup_cons] at hn
    rw [List.map_cons, List.nodup_cons]
    refine ⟨?_, ih hn.2 (fun a b ha hb => hinj a b (List.mem_cons_of_mem _ ha) (List.mem_cons_of_mem _ hb))⟩
    intro hm
    rw [List.mem_map] at hm
    obtain ⟨y, hy, hfy⟩ := hm
    have := hinj y x (List.mem_cons_of_mem _ hy) (List.mem_cons_self ..) hfy
    subst this
    exact hn.1 hy

theorem inj_on_of_nodup_map {f : Nat → Nat} {l : List Nat} (hn : (l.map f).Nodup) :
    ∀ a b, a ∈ l → b ∈ l → f a = f b → a = b := by
  induction l with
  | nil => intro a b ha; cases ha
  | cons x l ih =>
    rw [List.map_cons, List.nodup_cons] at hn
    intro a b ha hb hab
    rw [List.mem_cons] at ha hb
    rcases ha with ha | ha <;> rcases hb with hb | hb
    · rw [ha, hb]
    · subst ha; exact absurd (List.mem_map.mpr ⟨b, hb, hab.symm⟩) hn.1
    · subst hb; exact absurd (List.mem_map.mpr ⟨a, ha, hab⟩) hn.1
    · exact ih hn.2 a b ha hb hab

/-- **FIFO order, client level**: the values returned by Pops so far (in return order) followed by the
    current abstract queue are exactly the pushed values in the order in which the Pushes took effect. -/
theorem rets_append_absQ {s : State} (hI : Inv s) (hV : ValInv s) :
    retVals s.log ++ absQ s.toHeap = pushedLin s.log := by
  obtain ⟨w, hw, hq, _⟩ := hI.logi.ex
  rw [hV.rets, ← hq]
  exact (pushed_eq_popped_append hw).symm

/-- **no duplication, client level**: if the arguments of the invoked Pushes are pairwise distinct, so
    are the values returned by Pops (and the remaining queue content is disjoint from them). -/
theorem rets_nodup {s : State} (hI : Inv s) (hV : ValInv s) (hd : (invPushVals s.log).Nodup) :
    (retVals s.log ++ absQ s.toHeap).Nodup := by
  rw [rets_append_absQ hI hV, hV.pushed]
  rw [hV.invs] at hd
  obtain ⟨rest, hr⟩ := hV.dummy
  have hnd := hI.glob.nodup
  rw [hr, List.nodup_cons] at hnd
  have hmem : ∀ a, a ∈ s.chain.tail → a ∈ List.range' 1 (s.nalloc - 1) := by
    intro a ha
    have hlt := hI.glob.lt a (List.mem_of_mem_tail ha)
    rw [hr] at ha
    have hne : a ≠ 0 := fun e => hnd.1 (e ▸ ha)
    rw [List.mem_range']
    exact ⟨a - 1, by omega, by omega⟩
  apply nodup_map_of_inj_on
  · rw [hr]; exact hnd.2
  · intro a b ha hb
    exact inj_on_of_nodup_map hd a b (hmem a ha) (hmem b hb)

end Got.Model.MSQueue
