import Got.Model.DisciplineProtos
import Got.Lemmas.Discipline
/-
Every trace of the three protocols of Got/Model/DisciplineProtos.lean is accepted by the discipline
monitor (simulation invariants), hence race free by `accepts_raceFree`.
-/
namespace Got.Lemmas.Discipline
open Got.Model.Discipline

theorem run_append (m : Mon) (a b : List Ev) :
    m.run (a ++ b) = (m.run a).bind (fun m' => m'.run b) := by
  induction a generalizing m with
  | nil => simp [Mon.run]
  | cons e es ih =>
    simp only [List.cons_append, Mon.run]
    cases m.step e with
    | none => simp
    | some m' => simp [ih]

/-! ### Protocol A -/

structure PubInv (s : PubState) (m : Mon) : Prop where
  fresh : s.written = false → (∀ t, m.wcur t = true) ∧ m.acur s.creator = true
  wr : s.written = true → m.wcur s.creator = true ∧ (s.sealed = false → m.acur s.creator = true)
  kn : ∀ t, s.knows t = true → m.wcur t = true
  pb : ∀ a, s.pub a = true → m.carW a = true
  unsealed : s.sealed = false → (∀ a, s.pub a = false) ∧ (∀ t, s.knows t = false)
  sw : s.sealed = true → s.written = true

theorem pub_init (c : Nat) : PubInv (PubState.init c) Mon.init := by
  refine ⟨?_, ?_, ?_, ?_, ?_, ?_⟩ <;> simp [PubState.init, Mon.init]

theorem pub_step {s s' : PubState} {m : Mon} {a : PubAct} {ev : List Ev}
    (hI : PubInv s m) (hs : s.step a = some (s', ev)) : ∃ m', m.run ev = some m' ∧ PubInv s' m' := by
  cases a with
  | write =>
    simp only [PubState.step] at hs
    split at hs
    · cases hs
    · rename_i hse
      simp only [Bool.not_eq_true] at hse
      injection hs with hs; injection hs with h1 h2; subst h1; subst h2
      have hac : m.acur s.creator = true := by
        cases hw : s.written with
        | false => exact (hI.fresh hw).2
        | true => exact (hI.wr hw).2 hse
      refine ⟨_, by simp [Mon.run, Mon.step, hac]; rfl, ?_⟩
      have hu := hI.unsealed hse
      refine ⟨?_, ?_, ?_, ?_, ?_, ?_⟩
      · intro h; simp at h
      · intro _; simp
      · intro t ht; simp [hu.2 t] at ht
      · intro a ha; simp [hu.1 a] at ha
      · intro _; exact hu
      · intro h; simp [hse] at h
  | release t a =>
    simp only [PubState.step] at hs
    split at hs
    · rename_i htc
      injection hs with hs; injection hs with h1 h2; subst h1; subst h2; subst htc
      refine ⟨_, by simp [Mon.run, Mon.step]; rfl, ?_⟩
      refine ⟨?_, ?_, ?_, ?_, ?_, ?_⟩
      · intro h; exact hI.fresh h
      · intro h
        refine ⟨(hI.wr h).1, ?_⟩
        intro hse; have h' : s.written = true := h; simp [h'] at hse
      · intro t ht; exact hI.kn t ht
      · intro b hb
        simp only [Bool.or_eq_true, Bool.and_eq_true, decide_eq_true_eq] at hb ⊢
        rcases hb with hb | ⟨rfl, hw⟩
        · exact Or.inl (hI.pb b hb)
        · exact Or.inr ⟨rfl, (hI.wr hw).1⟩
      · intro hse
        simp only [Bool.or_eq_false_iff] at hse
        have hu := hI.unsealed hse.1
        refine ⟨?_, hu.2⟩
        intro b; simp [hu.1 b, hse.2]
      · intro hse
        simp only [Bool.or_eq_true] at hse
        rcases hse with h | h
        · exact hI.sw h
        · exact h
    · rename_i htc
      injection hs with hs; injection hs with h1 h2; subst h1; subst h2
      refine ⟨_, by simp [Mon.run, Mon.step]; rfl, ?_⟩
      refine ⟨?_, ?_, ?_, ?_, ?_, ?_⟩
      · intro h; exact hI.fresh h
      · intro h; exact hI.wr h
      · intro u hu; exact hI.kn u hu
      · intro b hb
        simp only [Bool.or_eq_true, Bool.and_eq_true, decide_eq_true_eq] at hb ⊢
        rcases hb with hb | ⟨rfl, hk⟩
        · exact Or.inl (hI.pb b hb)
        · exact Or.inr ⟨rfl, hI.kn t hk⟩
      · intro hse
        have hu := hI.unsealed hse
        refine ⟨?_, hu.2⟩
        intro b; simp [hu.1 b, hu.2 t]
      · intro hse; exact hI.sw hse
  | acquire t a =>
    simp only [PubState.step] at hs
    injection hs with hs; injection hs with h1 h2; subst h1; subst h2
    refine ⟨_, by simp [Mon.run, Mon.step]; rfl, ?_⟩
    refine ⟨?_, ?_, ?_, ?_, ?_, ?_⟩
    · intro h
      have := hI.fresh h
      refine ⟨?_, ?_⟩
      · intro u; simp [this.1 u]
      · simp [this.2]
    · intro h
      have := hI.wr h
      refine ⟨by simp [this.1], ?_⟩
      intro hse; simp [this.2 hse]
    · intro u hu
      simp only [Bool.or_eq_true, Bool.and_eq_true, decide_eq_true_eq] at hu ⊢
      rcases hu with hu | ⟨rfl, hp⟩
      · exact Or.inl (hI.kn u hu)
      · exact Or.inr ⟨rfl, hI.pb a hp⟩
    · intro b hb; exact hI.pb b hb
    · intro hse
      have hu := hI.unsealed hse
      refine ⟨hu.1, ?_⟩
      intro u; simp [hu.2 u, hu.1 a]
    · intro hse; exact hI.sw hse
  | read t =>
    simp only [PubState.step] at hs
    split at hs
    · rename_i hk
      injection hs with hs; injection hs with h1 h2; subst h1; subst h2
      have hw := hI.kn t hk
      refine ⟨_, by simp [Mon.run, Mon.step, hw]; rfl, ?_⟩
      have hsealed : s.sealed = true := by
        cases h : s.sealed with
        | true => rfl
        | false => have := (hI.unsealed h).2 t; simp [this] at hk
      refine ⟨?_, ?_, ?_, ?_, ?_, ?_⟩
      · intro h; have := hI.sw hsealed; simp [this] at h
      · intro h; refine ⟨(hI.wr h).1, ?_⟩; intro hse; simp [hsealed] at hse
      · intro u hu; exact hI.kn u hu
      · intro b hb; exact hI.pb b hb
      · intro hse; simp [hsealed] at hse
      · intro _; exact hI.sw hsealed
    · cases hs
  | creatorRead =>
    simp only [PubState.step] at hs
    injection hs with hs; injection hs with h1 h2; subst h1; subst h2
    have hw : m.wcur s.creator = true := by
      cases h : s.written with
      | false => exact (hI.fresh h).1 _
      | true => exact (hI.wr h).1
    refine ⟨_, by simp [Mon.run, Mon.step, hw]; rfl, ?_⟩
    refine ⟨?_, ?_, ?_, ?_, ?_, ?_⟩
    · intro h; have := hI.fresh h; exact ⟨this.1, by simp [this.2]⟩
    · intro h; refine ⟨(hI.wr h).1, ?_⟩; intro hse; simp [(hI.wr h).2 hse]
    · intro u hu; exact hI.kn u hu
    · intro b hb; exact hI.pb b hb
    · intro hse; exact hI.unsealed hse
    · intro hse; exact hI.sw hse

theorem pub_run {s : PubState} {m : Mon} (hI : PubInv s m) :
    ∀ (acts : List PubAct) (s' : PubState) (evs : List Ev), s.run acts = some (s', evs) →
      ∃ m', m.run evs = some m' ∧ PubInv s' m' := by
  intro acts
  induction acts generalizing s m with
  | nil => intro s' evs h; simp [PubState.run] at h; obtain ⟨rfl, rfl⟩ := h; exact ⟨m, rfl, hI⟩
  | cons a as ih =>
    intro s' evs h
    simp only [PubState.run] at h
    cases hs : s.step a with
    | none => simp [hs] at h
    | some p =>
      obtain ⟨s1, ev⟩ := p
      simp only [hs] at h
      cases hr : s1.run as with
      | none => simp [hr] at h
      | some q =>
        obtain ⟨s2, evs2⟩ := q
        simp only [hr] at h
        injection h with h; injection h with h1 h2; subst h1; subst h2
        obtain ⟨m1, hm1, hI1⟩ := pub_step hI hs
        obtain ⟨m2, hm2, hI2⟩ := ih hI1 s2 evs2 hr
        exact ⟨m2, by rw [run_append, hm1]; simpa using hm2, hI2⟩

/-! ### Protocol C -/

def MuInv (s : MuState) (m : Mon) : Prop :=
  match s.holder with
  | some t => m.acur t = true ∧ m.wcur t = true
  | none => (m.carA 0 = true ∧ m.carW 0 = true) ∨ (∀ u, m.acur u = true ∧ m.wcur u = true)

theorem mu_init : MuInv MuState.init Mon.init := by
  simp [MuInv, MuState.init, Mon.init]

theorem mu_step {s s' : MuState} {m : Mon} {a : MuAct} {ev : List Ev}
    (hI : MuInv s m) (hs : s.step a = some (s', ev)) : ∃ m', m.run ev = some m' ∧ MuInv s' m' := by
  obtain ⟨holder⟩ := s
  cases a with
  | lock t =>
    simp only [MuState.step] at hs
    split at hs
    · rename_i hh
      subst hh
      injection hs with hs; injection hs with h1 h2; subst h1; subst h2
      refine ⟨_, by simp [Mon.run, Mon.step]; rfl, ?_⟩
      simp only [MuInv] at hI ⊢
      rcases hI with ⟨h1, h2⟩ | h
      · simp [h1, h2]
      · simp [(h t).1, (h t).2]
    · cases hs
  | unlock t =>
    simp only [MuState.step] at hs
    split at hs
    · rename_i hh
      subst hh
      injection hs with hs; injection hs with h1 h2; subst h1; subst h2
      refine ⟨_, by simp [Mon.run, Mon.step]; rfl, ?_⟩
      simp only [MuInv] at hI ⊢
      left; simp [hI.1, hI.2]
    · cases hs
  | read t =>
    simp only [MuState.step] at hs
    split at hs
    · rename_i hh
      subst hh
      injection hs with hs; injection hs with h1 h2; subst h1; subst h2
      simp only [MuInv] at hI
      refine ⟨_, by simp [Mon.run, Mon.step, hI.2]; rfl, ?_⟩
      simp [MuInv, hI.1, hI.2]
    · cases hs
  | write t =>
    simp only [MuState.step] at hs
    split at hs
    · rename_i hh
      subst hh
      injection hs with hs; injection hs with h1 h2; subst h1; subst h2
      simp only [MuInv] at hI
      refine ⟨_, by simp [Mon.run, Mon.step, hI.1]; rfl, ?_⟩
      simp [MuInv]
    · cases hs

theorem mu_run {s : MuState} {m : Mon} (hI : MuInv s m) :
    ∀ (acts : List MuAct) (s' : MuState) (evs : List Ev), s.run acts = some (s', evs) →
      ∃ m', m.run evs = some m' ∧ MuInv s' m' := by
  intro acts
  induction acts generalizing s m with
  | nil => intro s' evs h; simp [MuState.run] at h; obtain ⟨rfl, rfl⟩ := h; exact ⟨m, rfl, hI⟩
  | cons a as ih =>
    intro s' evs h
    simp only [MuState.run] at h
    cases hs : s.step a with
    | none => simp [hs] at h
    | some p =>
      obtain ⟨s1, ev⟩ := p
      simp only [hs] at h
      cases hr : s1.run as with
      | none => simp [hr] at h
      | some q =>
        obtain ⟨s2, evs2⟩ := q
        simp only [hr] at h
        injection h with h; injection h with h1 h2; subst h1; subst h2
        obtain ⟨m1, hm1, hI1⟩ := mu_step hI hs
        obtain ⟨m2, hm2, hI2⟩ := ih hI1 s2 evs2 hr
        exact ⟨m2, by rw [run_append, hm1]; simpa using hm2, hI2⟩

end Got.Lemmas.Discipline

namespace Got.Lemmas.Discipline
open Got.Model.Discipline

/-! ### Protocol B (ants) -/

structure AntsInv (s : AntsState) (m : Mon) : Prop where
  d0 : s.finished = false → ¬ (s.decided = .inner ∧ s.waited = false) → m.acur 0 = true ∧ m.wcur 0 = true
  ch : s.dispatched = true → s.decided = .none → s.taken = false → m.carA (chanObj s.k) = true
  tk : s.taken = true → s.decided = .none → m.acur s.k = true
  iw : s.decided = .inner → s.closed = false → m.acur s.k = true ∧ m.wcur s.k = true
  cl : s.decided = .inner → s.closed = true → s.waited = false →
        m.carA (doneObj s.k) = true ∧ m.carW (doneObj s.k) = true
  fin : s.finished = true → m.carW 0 = true
  s1 : s.readDone = true → s.decided ≠ .none ∨ s.k = 0
  s2 : s.finished = true → s.readDone = true
  s3 : s.dispatched = true → s.k ≠ 0
  s4 : s.taken = true → s.dispatched = true
  s5 : s.waited = true → s.decided = .inner ∧ s.closed = true
  s6 : s.readDone = true → s.decided = .inner → s.waited = true

theorem ants_init : AntsInv AntsState.init Mon.init := by
  refine ⟨?_, ?_, ?_, ?_, ?_, ?_, ?_, ?_, ?_, ?_, ?_, ?_⟩ <;> simp [AntsState.init, Mon.init]

/-- a finished task cannot have an undecided or still-open attempt -/
theorem ants_fin_decided {s : AntsState} {m : Mon} (hI : AntsInv s m) (hf : s.finished = true) :
    s.decided ≠ .none ∨ s.dispatched = false := by
  rcases hI.s1 (hI.s2 hf) with h | h
  · exact Or.inl h
  · right
    cases hd : s.dispatched with
    | false => rfl
    | true => exact absurd h (hI.s3 hd)

theorem ants_step {s s' : AntsState} {m : Mon} {a : AntsAct} {ev : List Ev}
    (hI : AntsInv s m) (hs : s.step a = some (s', ev)) : ∃ m', m.run ev = some m' ∧ AntsInv s' m' := by
  cases a with
  | dispatch =>
    simp only [AntsState.step] at hs
    split at hs
    · rename_i hpre
      simp only [Bool.and_eq_true, Bool.not_eq_true'] at hpre
      obtain ⟨hrd, hnf⟩ := hpre
      injection hs with hs; injection hs with h1 h2; subst h1; subst h2
      have h0 : m.acur 0 = true ∧ m.wcur 0 = true := by
        apply hI.d0 hnf
        intro ⟨hd, hw⟩
        have := hI.s6 hrd hd; simp [hw] at this
      refine ⟨_, by simp [Mon.run, Mon.step]; rfl, ?_⟩
      refine ⟨?_, ?_, ?_, ?_, ?_, ?_, ?_, ?_, ?_, ?_, ?_, ?_⟩ <;> simp [h0.1, h0.2]
    · cases hs
  | take =>
    simp only [AntsState.step] at hs
    split at hs
    · rename_i hpre
      simp only [Bool.and_eq_true, Bool.not_eq_true'] at hpre
      obtain ⟨hdp, hnt⟩ := hpre
      injection hs with hs; injection hs with h1 h2; subst h1; subst h2
      refine ⟨_, by simp [Mon.run, Mon.step]; rfl, ?_⟩
      refine ⟨?_, ?_, ?_, ?_, ?_, ?_, ?_, ?_, ?_, ?_, ?_, ?_⟩
      · intro hf hn; have := hI.d0 hf hn; simp [this.1, this.2]
      · intro _ _ h; simp at h
      · intro _ hd; simp [hI.ch hdp hd hnt]
      · intro hd hc; have := hI.iw hd hc; simp [this.1, this.2]
      · intro hd hc hw; exact hI.cl hd hc hw
      · intro hf; exact hI.fin hf
      · exact hI.s1
      · exact hI.s2
      · exact hI.s3
      · intro _; exact hdp
      · exact hI.s5
      · exact hI.s6
    · cases hs
  | innerWin =>
    simp only [AntsState.step] at hs
    split at hs
    · rename_i hpre
      simp only [Bool.and_eq_true, Bool.not_eq_true', decide_eq_true_eq] at hpre
      obtain ⟨⟨htk, hdn⟩, hnc⟩ := hpre
      injection hs with hs; injection hs with h1 h2; subst h1; subst h2
      have hak := hI.tk htk hdn
      have hnw : s.waited = false := by
        cases h : s.waited with
        | false => rfl
        | true => have := (hI.s5 h).1; simp [hdn] at this
      have hnr : s.readDone = false := by
        cases h : s.readDone with
        | false => rfl
        | true =>
          rcases hI.s1 h with h' | h'
          · exact absurd hdn h'
          · exact absurd h' (hI.s3 (hI.s4 htk))
      have hnf : s.finished = false := by
        cases h : s.finished with
        | false => rfl
        | true => have := hI.s2 h; simp [hnr] at this
      refine ⟨_, by simp [Mon.run, Mon.step, hak]; rfl, ?_⟩
      refine ⟨?_, ?_, ?_, ?_, ?_, ?_, ?_, ?_, ?_, ?_, ?_, ?_⟩
      · intro _ hn; exact absurd ⟨rfl, hnw⟩ hn
      · intro _ h; simp at h
      · intro _ h; simp at h
      · intro _ _; simp
      · intro _ hc; simp [hnc] at hc
      · intro hf; simp [hnf] at hf
      · intro _; left; simp
      · intro hf; simp [hnf] at hf
      · exact hI.s3
      · exact hI.s4
      · intro hw; simp [hnw] at hw
      · intro hr; simp [hnr] at hr
    · cases hs
  | innerClose =>
    simp only [AntsState.step] at hs
    split at hs
    · rename_i hpre
      simp only [Bool.and_eq_true, Bool.not_eq_true'] at hpre
      obtain ⟨htk, hnc⟩ := hpre
      injection hs with hs; injection hs with h1 h2; subst h1; subst h2
      refine ⟨_, by simp [Mon.run, Mon.step]; rfl, ?_⟩
      refine ⟨?_, ?_, ?_, ?_, ?_, ?_, ?_, ?_, ?_, ?_, ?_, ?_⟩
      · intro hf hn; exact hI.d0 hf hn
      · intro hd hn ht; have := hI.ch hd hn ht; simp [this]
      · intro ht hn; exact hI.tk ht hn
      · intro _ hc; simp at hc
      · intro hd _ _; have := hI.iw hd hnc; simp [this.1, this.2]
      · intro hf; have := hI.fin hf; simp [this]
      · exact hI.s1
      · exact hI.s2
      · exact hI.s3
      · exact hI.s4
      · intro hw; exact ⟨(hI.s5 hw).1, rfl⟩
      · exact hI.s6
    · cases hs
  | dispWin =>
    simp only [AntsState.step] at hs
    split at hs
    · rename_i hpre
      simp only [Bool.and_eq_true, decide_eq_true_eq] at hpre
      obtain ⟨hdp, hdn⟩ := hpre
      injection hs with hs; injection hs with h1 h2; subst h1; subst h2
      have hnr : s.readDone = false := by
        cases h : s.readDone with
        | false => rfl
        | true =>
          rcases hI.s1 h with h' | h'
          · exact absurd hdn h'
          · exact absurd h' (hI.s3 hdp)
      have hnf : s.finished = false := by
        cases h : s.finished with
        | false => rfl
        | true => have := hI.s2 h; simp [hnr] at this
      have hnw : s.waited = false := by
        cases h : s.waited with
        | false => rfl
        | true => have := (hI.s5 h).1; simp [hdn] at this
      have h0 := hI.d0 hnf (by intro ⟨hd, _⟩; simp [hdn] at hd)
      refine ⟨_, by simp [Mon.run, Mon.step, h0.1]; rfl, ?_⟩
      refine ⟨?_, ?_, ?_, ?_, ?_, ?_, ?_, ?_, ?_, ?_, ?_, ?_⟩
      · intro _ _; simp
      · intro _ h; simp at h
      · intro _ h; simp at h
      · intro h; simp at h
      · intro h; simp at h
      · intro hf; simp [hnf] at hf
      · intro _; left; simp
      · intro hf; simp [hnf] at hf
      · exact hI.s3
      · exact hI.s4
      · intro hw; simp [hnw] at hw
      · intro _ h; simp at h
    · cases hs
  | dispWait =>
    simp only [AntsState.step] at hs
    split at hs
    · rename_i hpre
      simp only [Bool.and_eq_true, Bool.not_eq_true', decide_eq_true_eq] at hpre
      obtain ⟨⟨hdi, hcl⟩, hnw⟩ := hpre
      injection hs with hs; injection hs with h1 h2; subst h1; subst h2
      have hc := hI.cl hdi hcl hnw
      refine ⟨_, by simp [Mon.run, Mon.step]; rfl, ?_⟩
      refine ⟨?_, ?_, ?_, ?_, ?_, ?_, ?_, ?_, ?_, ?_, ?_, ?_⟩
      · intro _ _; simp [hc.1, hc.2]
      · intro _ hn; simp [hdi] at hn
      · intro _ hn; simp [hdi] at hn
      · intro _ hc'; simp [hcl] at hc'
      · intro _ _ hw; simp at hw
      · intro hf; exact hI.fin hf
      · exact hI.s1
      · exact hI.s2
      · exact hI.s3
      · exact hI.s4
      · intro _; exact ⟨hdi, hcl⟩
      · intro _ _; rfl
    · cases hs
  | dispRead =>
    simp only [AntsState.step] at hs
    split at hs
    · rename_i hpre
      simp only [Bool.and_eq_true, Bool.not_eq_true', Bool.or_eq_true, decide_eq_true_eq] at hpre
      obtain ⟨hnr, hdec⟩ := hpre
      injection hs with hs; injection hs with h1 h2; subst h1; subst h2
      have hnf : s.finished = false := by
        cases h : s.finished with
        | false => rfl
        | true => have := hI.s2 h; simp [hnr] at this
      have hnot : ¬ (s.decided = .inner ∧ s.waited = false) := by
        intro ⟨hd, hw⟩
        rcases hdec with h | ⟨_, h⟩
        · simp [hd] at h
        · simp [hw] at h
      have h0 := hI.d0 hnf hnot
      refine ⟨_, by simp [Mon.run, Mon.step, h0.2]; rfl, ?_⟩
      refine ⟨?_, ?_, ?_, ?_, ?_, ?_, ?_, ?_, ?_, ?_, ?_, ?_⟩
      · intro _ _; simp [h0.1, h0.2]
      · intro _ hn
        have hn' : s.decided = .none := hn
        rcases hdec with h | ⟨h, _⟩ <;> simp [hn'] at h
      · intro _ hn
        have hn' : s.decided = .none := hn
        rcases hdec with h | ⟨h, _⟩ <;> simp [hn'] at h
      · intro hd hc
        have hd' : s.decided = .inner := hd
        have hc' : s.closed = false := hc
        rcases hdec with h | ⟨_, h⟩
        · simp [hd'] at h
        · have := (hI.s5 h).2; simp [hc'] at this
      · intro hd _ hw
        have hd' : s.decided = .inner := hd
        have hw' : s.waited = false := hw
        rcases hdec with h | ⟨_, h⟩
        · simp [hd'] at h
        · simp [hw'] at h
      · intro hf
        have hf' : s.finished = true := hf
        simp [hnf] at hf'
      · intro _; left
        show s.decided ≠ .none
        rcases hdec with h | ⟨h, _⟩ <;> simp [h]
      · intro hf
        have hf' : s.finished = true := hf
        simp [hnf] at hf'
      · exact hI.s3
      · exact hI.s4
      · exact hI.s5
      · intro _ hd
        have hd' : s.decided = .inner := hd
        rcases hdec with h | ⟨_, h⟩
        · simp [hd'] at h
        · exact h
    · cases hs
  | finish =>
    simp only [AntsState.step] at hs
    split at hs
    · rename_i hpre
      simp only [Bool.and_eq_true, Bool.not_eq_true', decide_eq_true_eq] at hpre
      obtain ⟨⟨hrd, hnf⟩, hk⟩ := hpre
      injection hs with hs; injection hs with h1 h2; subst h1; subst h2
      have h0 := hI.d0 hnf (by intro ⟨hd, hw⟩; have := hI.s6 hrd hd; simp [hw] at this)
      refine ⟨_, by simp [Mon.run, Mon.step]; rfl, ?_⟩
      refine ⟨?_, ?_, ?_, ?_, ?_, ?_, ?_, ?_, ?_, ?_, ?_, ?_⟩
      · intro hf; simp at hf
      · intro hd hn ht; have := hI.ch hd hn ht; simp [this]
      · exact hI.tk
      · exact hI.iw
      · intro hd hc hw; have := hI.cl hd hc hw; simp [this.1, this.2]
      · intro _; simp [h0.2]
      · exact hI.s1
      · intro _; exact hrd
      · exact hI.s3
      · exact hI.s4
      · exact hI.s5
      · exact hI.s6
    · cases hs
  | clientGet c =>
    simp only [AntsState.step] at hs
    split at hs
    · rename_i hpre
      simp only [Bool.and_eq_true, decide_eq_true_eq] at hpre
      obtain ⟨hf, hc0⟩ := hpre
      injection hs with hs; injection hs with h1 h2; subst h1; subst h2
      have hcw := hI.fin hf
      have hrd := hI.s2 hf
      refine ⟨_, by simp [Mon.run, Mon.step, hcw]; rfl, ?_⟩
      refine ⟨?_, ?_, ?_, ?_, ?_, ?_, ?_, ?_, ?_, ?_, ?_, ?_⟩
      · intro hnf; simp [hf] at hnf
      · intro hd hn _
        rcases ants_fin_decided hI hf with h | h
        · exact absurd hn h
        · simp [hd] at h
      · intro ht hn
        rcases ants_fin_decided hI hf with h | h
        · exact absurd hn h
        · have := hI.s4 ht; simp [h] at this
      · intro hd hc
        have := (hI.s5 (hI.s6 hrd hd)).2; simp [hc] at this
      · intro hd _ hw
        have := hI.s6 hrd hd; simp [hw] at this
      · intro _; exact hcw
      · exact hI.s1
      · exact hI.s2
      · exact hI.s3
      · exact hI.s4
      · exact hI.s5
      · exact hI.s6
    · cases hs

theorem ants_run {s : AntsState} {m : Mon} (hI : AntsInv s m) :
    ∀ (acts : List AntsAct) (s' : AntsState) (evs : List Ev), s.run acts = some (s', evs) →
      ∃ m', m.run evs = some m' ∧ AntsInv s' m' := by
  intro acts
  induction acts generalizing s m with
  | nil => intro s' evs h; simp [AntsState.run] at h; obtain ⟨rfl, rfl⟩ := h; exact ⟨m, rfl, hI⟩
  | cons a as ih =>
    intro s' evs h
    simp only [AntsState.run] at h
    cases hs : s.step a with
    | none => simp [hs] at h
    | some p =>
      obtain ⟨s1, ev⟩ := p
      simp only [hs] at h
      cases hr : s1.run as with
      | none => simp [hr] at h
      | some q =>
        obtain ⟨s2, evs2⟩ := q
        simp only [hr] at h
        injection h with h; injection h with h1 h2; subst h1; subst h2
        obtain ⟨m1, hm1, hI1⟩ := ants_step hI hs
        obtain ⟨m2, hm2, hI2⟩ := ih hI1 s2 evs2 hr
        exact ⟨m2, by rw [run_append, hm1]; simpa using hm2, hI2⟩

end Got.Lemmas.Discipline
