import Got.Model.Sharding
/-
loom.Sharding.GetShardingIndex stays in range; convertPowerOfTwo yields the least power of two ≥ n.  Core Lean only.
-/
namespace Got.Lemmas.Sharding
open Got.Model.Sharding

theorem index_in_range (x : BitVec 64) (e : Nat) (he : e ≤ 62) :
    0 ≤ indexOfBits x (2 ^ e) ∧ indexOfBits x (2 ^ e) < 2 ^ e := by
  unfold indexOfBits
  have hpos : 0 < 2 ^ e := Nat.two_pow_pos e
  have h62 : 2 ^ e ≤ 2 ^ 62 := Nat.pow_le_pow_right (by decide) he
  have hm : (2 ^ e - 1) < 2 ^ 64 := by
    have : (2:Nat) ^ 62 < 2 ^ 64 := by decide
    omega
  have hmask : (BitVec.ofNat 64 (2 ^ e - 1)).toNat = 2 ^ e - 1 := by
    simp [BitVec.toNat_ofNat, Nat.mod_eq_of_lt hm]
  have hle : (x &&& BitVec.ofNat 64 (2 ^ e - 1)).toNat ≤ 2 ^ e - 1 := by
    rw [BitVec.toNat_and, hmask]; exact Nat.and_le_right
  have hlt63 : (x &&& BitVec.ofNat 64 (2 ^ e - 1)).toNat < 2 ^ 63 := by
    have : (2:Nat) ^ 62 < 2 ^ 63 := by decide
    omega
  have hint : (x &&& BitVec.ofNat 64 (2 ^ e - 1)).toInt = ((x &&& BitVec.ofNat 64 (2 ^ e - 1)).toNat : Int) := by
    have h2 : 2 * (x &&& BitVec.ofNat 64 (2 ^ e - 1)).toNat < 2 ^ 64 := by
      have : (2:Nat) ^ 64 = 2 * 2 ^ 63 := by decide
      omega
    simp only [BitVec.toInt]; rw [if_pos h2]
  rw [hint]
  constructor
  · exact Int.natCast_nonneg _
  · have : ((x &&& BitVec.ofNat 64 (2 ^ e - 1)).toNat : Int) < ((2 ^ e : Nat) : Int) := by
      apply Int.ofNat_lt.mpr; omega
    simpa using this

theorem convertLoop_spec (n : Int) (hn : n ≤ 2 ^ 62) :
    ∀ (fuel i : Nat), i ≤ 62 → 63 ≤ fuel + i → (i = 0 ∨ ((2 ^ (i - 1) : Nat) : Int) < n) →
      ∃ e, e ≤ 62 ∧ convertLoop n fuel (2 ^ i) = some (2 ^ e) ∧ n ≤ ((2 ^ e : Nat) : Int) ∧
        (e = 0 ∨ ((2 ^ (e - 1) : Nat) : Int) < n) := by
  intro fuel
  induction fuel with
  | zero => intro i hi hf; omega
  | succ fuel ih =>
    intro i hi hf hprev
    unfold convertLoop
    by_cases hlt : ((2 ^ i : Nat) : Int) < n
    · simp only [hlt, if_true]
      have hi61 : i < 62 := by
        by_cases hge : i < 62
        · exact hge
        · have hi62 : i = 62 := by omega
          subst hi62
          omega
      have hdbl : 2 ^ i * 2 = 2 ^ (i + 1) := by rw [Nat.pow_succ]
      have hsmall : 2 ^ i * 2 < 2 ^ 63 := by
        rw [hdbl]; exact Nat.pow_lt_pow_right (by decide) (by omega)
      rw [hdbl] at hsmall
      simp only [hdbl, hsmall, if_true]
      exact ih (i + 1) (by omega) (by omega) (Or.inr (by simpa using hlt))
    · simp only [hlt, if_false]
      exact ⟨i, hi, rfl, by omega, hprev⟩

theorem convertPowerOfTwo_spec (n : Int) (hn : n ≤ 2 ^ 62) :
    ∃ e, e ≤ 62 ∧ convertPowerOfTwo n = some (2 ^ e) ∧ n ≤ ((2 ^ e : Nat) : Int) ∧
      (e = 0 ∨ ((2 ^ (e - 1) : Nat) : Int) < n) := by
  have := convertLoop_spec n hn 64 0 (by omega) (by omega) (Or.inl rfl)
  simpa [convertPowerOfTwo] using this

end Got.Lemmas.Sharding
