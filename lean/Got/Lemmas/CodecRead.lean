import Got.Lemmas.Codec
/-
Readers of the codec model: flattened 7-bit decoder, `Read`, `ReadBytes`, and the per-call invariant of C12.
-/
namespace Got.Lemmas.Codec
open Got.Model.Codec Got.Facts Got.Spec.Codec

/-! ### Read7BitEncodedInt, flattened: four loop iterations in continuation style + the fifth-byte epilogue -/

/-- one iteration of `for i := 0; i < 28; i += 7` at shift `i`; `k` = the rest of the function -/
def step7 (buf : List Byte) (i : Nat) (num : BitVec 32) (pos : Nat)
    (k : BitVec 32 → Nat → Res (BitVec 32)) : Res (BitVec 32) :=
  match readByte buf pos with
  | ⟨.ok b, p, _⟩ =>
    if b ≤ 127#8 then ⟨.ok (num ||| ((b &&& 127#8).setWidth 32 <<< i)), p, 0⟩
    else k (num ||| ((b &&& 127#8).setWidth 32 <<< i)) p
  | ⟨.err e, p, _⟩ => ⟨.err e, p, 0⟩
  | ⟨.crash, p, _⟩ => ⟨.crash, p, 0⟩

/-- the code after the loop: fifth byte, must be ≤ 15 -/
def last7 (buf : List Byte) (num : BitVec 32) (pos : Nat) : Res (BitVec 32) :=
  match readByte buf pos with
  | ⟨.ok b, p, _⟩ =>
    if b > 15#8 then ⟨.err .Bad7BitInt, p, 0⟩
    else ⟨.ok (num ||| (b.setWidth 32 <<< 28)), p, 0⟩
  | ⟨.err e, p, _⟩ => ⟨.err e, p, 0⟩
  | ⟨.crash, p, _⟩ => ⟨.crash, p, 0⟩

theorem read7Loop_lt (buf : List Byte) (fuel i : Nat) (num : BitVec 32) (pos : Nat) (h : i < 28) :
    read7Loop buf (fuel + 1) i num pos
      = step7 buf i num pos (fun n p => read7Loop buf fuel (i + 7) n p) := by
  rw [read7Loop]
  simp only [show lit r7 2 = 28 from rfl, show lit r7 3 = 7 from rfl, show lit r7 5 = 127 from rfl,
    show lit r7 6 = 127 from rfl, h, if_true, step7]
  rfl

theorem read7Loop_ge (buf : List Byte) (fuel i : Nat) (num : BitVec 32) (pos : Nat) (h : ¬ i < 28) :
    read7Loop buf (fuel + 1) i num pos = last7 buf num pos := by
  rw [read7Loop]
  simp only [show lit r7 2 = 28 from rfl, show lit r7 8 = 15 from rfl, show lit r7 10 = 28 from rfl, h,
    if_false, last7]
  rfl

/-- the decoder reads at shifts 0, 7, 14, 21 and then the fifth byte at shift 28 -/
theorem read7_eq (buf : List Byte) (pos : Nat) : read7 buf pos =
    step7 buf 0 0#32 pos (fun n p => step7 buf 7 n p (fun n p => step7 buf 14 n p (fun n p =>
      step7 buf 21 n p (fun n p => last7 buf n p)))) := by
  show read7Loop buf 64 0 0#32 pos = _
  simp only [read7Loop_lt, read7Loop_ge, Nat.reduceAdd, Nat.reduceLT, Nat.lt_irrefl, not_false_eq_true,
    Nat.zero_add]

/-- outcome of a prefix decoder started at `pos`: no crash, moved forward by at most `j` bytes within the input,
    nothing allocated -/
structure Bound {α : Type} (buf : List Byte) (pos j : Nat) (r : Res α) : Prop where
  nocrash : r.out ≠ .crash
  mono : pos ≤ r.pos
  inb : r.pos ≤ buf.length
  le : r.pos ≤ pos + j
  alloc : r.alloc = 0
  errpos : ∀ e, r.out = .err e → e = .NotEnoughData ∨ e = .Bad7BitInt

theorem last7_bound (buf : List Byte) (num : BitVec 32) (pos : Nat) (h : pos ≤ buf.length) :
    Bound buf pos 1 (last7 buf num pos) := by
  unfold last7
  by_cases hl : pos < buf.length
  · rw [readByte_lt buf pos hl]
    dsimp only
    split
    · exact ⟨by simp, by simp, by simp; omega, by simp, rfl, by simp⟩
    · exact ⟨by simp, by simp, by simp; omega, by simp, rfl, by simp⟩
  · rw [readByte_ge buf pos (by omega)]
    exact ⟨by simp, by simp, by simpa using h, by simp, rfl, by simp⟩

theorem step7_bound (buf : List Byte) (i : Nat) (num : BitVec 32) (pos j : Nat)
    (k : BitVec 32 → Nat → Res (BitVec 32)) (h : pos ≤ buf.length)
    (hk : pos + 1 ≤ buf.length → ∀ n, Bound buf (pos + 1) j (k n (pos + 1))) :
    Bound buf pos (j + 1) (step7 buf i num pos k) := by
  unfold step7
  by_cases hl : pos < buf.length
  · rw [readByte_lt buf pos hl]
    dsimp only
    split
    · exact ⟨by simp, by simp, by simp; omega, by simp, rfl, by simp⟩
    · have b := hk (by omega) (num ||| ((buf[pos] &&& 127#8).setWidth 32 <<< i))
      exact ⟨b.nocrash, by have := b.mono; omega, b.inb, by have := b.le; omega, b.alloc, b.errpos⟩
  · rw [readByte_ge buf pos (by omega)]
    exact ⟨by simp, by simp, by simpa using h, by simp, rfl, by simp⟩

/-- C12 for the 7-bit decoder: total, in bounds, at most five bytes, no allocation -/
theorem read7_bound (buf : List Byte) (pos : Nat) (h : pos ≤ buf.length) :
    Bound buf pos 5 (read7 buf pos) := by
  rw [read7_eq]
  apply step7_bound _ _ _ _ _ _ h
  intro h1 n
  apply step7_bound _ _ _ _ _ _ h1
  intro h2 n
  apply step7_bound _ _ _ _ _ _ h2
  intro h3 n
  apply step7_bound _ _ _ _ _ _ h3
  intro h4 n
  exact last7_bound _ _ _ h4

/-- beyond the end (cannot happen on a stream that keeps `pos ≤ len`) the decoder fails without moving -/
theorem read7_beyond (buf : List Byte) (pos : Nat) (h : buf.length ≤ pos) :
    read7 buf pos = ⟨.err .NotEnoughData, pos, 0⟩ := by
  rw [read7_eq]
  unfold step7
  rw [readByte_ge buf pos h]

/-! ### Read(buffer) -/

theorem streamRead_zero (buf : List Byte) (pos : Nat) :
    streamRead buf pos 0 = ⟨.err .InvalidArgument, pos, 0⟩ := by
  simp [streamRead]

/-- `Read` of `n > 0` bytes at `pos ≤ len`: copies `min n (len - pos)` bytes, never fails -/
theorem streamRead_pos (buf : List Byte) (pos n : Nat) (hn : 0 < n) (h : pos ≤ buf.length) :
    streamRead buf pos n =
      ⟨.ok (min n (buf.length - pos),
            (buf.drop pos).take (min n (buf.length - pos)) ++ List.replicate (n - min n (buf.length - pos)) 0),
        pos + min n (buf.length - pos), 0⟩ := by
  unfold streamRead
  rw [if_neg (by omega)]
  by_cases hr : (buf.length : Int) - (pos : Int) = 0
  · have : buf.length - pos = 0 := by omega
    simp [hr, this]
  · simp only [hr, if_false]
    by_cases hc : (n : Int) > (buf.length : Int) - (pos : Int)
    · have hm : min n (buf.length - pos) = buf.length - pos := by omega
      have ht : ((buf.length : Int) - (pos : Int)).toNat = buf.length - pos := by omega
      simp only [hc, if_true, show ¬ ((buf.length : Int) - (pos : Int) < 0) by omega, if_false, hm, ht]
    · have hm : min n (buf.length - pos) = n := by omega
      simp only [hc, if_false, show ¬ ((n : Int) < 0) by omega, hm, Int.toNat_natCast]

/-- `Read` when the whole request is available -/
theorem streamRead_full (buf : List Byte) (pos n : Nat) (hn : 0 < n) (h : pos + n ≤ buf.length) :
    streamRead buf pos n = ⟨.ok (n, (buf.drop pos).take n), pos + n, 0⟩ := by
  rw [streamRead_pos buf pos n hn (by omega)]
  have hm : min n (buf.length - pos) = n := by omega
  simp [hm]

/-! ### ReadBytes / ReadString -/

theorem toInt_of_not_slt_zero (size : BitVec 32) (h : ¬ size.slt 0#32 = true) :
    size.toInt = (size.toNat : Int) := by
  have h0 : ¬ size.toInt < 0 := fun hlt => h (BitVec.slt_iff_toInt_lt.mpr (by simpa using hlt))
  have hlt := size.isLt
  rw [BitVec.toInt_eq_msb_cond] at h0 ⊢
  split
  · rename_i hm
    rw [if_pos hm] at h0
    omega
  · rfl

theorem toInt_neg_of_slt_zero (size : BitVec 32) (h : size.slt 0#32 = true) : size.toInt < 0 := by
  simpa using BitVec.slt_iff_toInt_lt.mp h

/-- the four ways `ReadBytes` can end once the length prefix `size` was decoded at `[pos, p)` -/
inductive BytesCase (buf : List Byte) (p : Nat) (size : BitVec 32) (r : Res (List Byte)) : Prop where
  | negative (h : size.toInt < 0) (hr : r = ⟨.err .NegativeSize, p, 0⟩)
  | empty (h : size = 0#32) (hr : r = ⟨.ok [], p, 0⟩)
  | short (h0 : 0 < size.toNat) (hi : size.toInt = size.toNat) (h : buf.length - p < size.toNat)
      (hr : r = ⟨.err .NotEnoughData, p, 0⟩)
  | full (h0 : 0 < size.toNat) (hi : size.toInt = size.toNat) (h : p + size.toNat ≤ buf.length)
      (hr : r = ⟨.ok ((buf.drop p).take size.toNat), p + size.toNat, size.toNat⟩)

/-- ReadBytes = prefix decoder, then exactly one of the four cases -/
theorem readBytes_char (buf : List Byte) (pos : Nat) (hpos : pos ≤ buf.length) :
    (∃ e p, read7 buf pos = ⟨.err e, p, 0⟩ ∧ readBytes buf pos = ⟨.err e, p, 0⟩) ∨
    (∃ size p, read7 buf pos = ⟨.ok size, p, 0⟩ ∧ BytesCase buf p size (readBytes buf pos)) := by
  have hb := read7_bound buf pos hpos
  unfold readBytes
  rcases hr : read7 buf pos with ⟨o, p, a⟩
  rw [hr] at hb
  have ha : a = 0 := hb.alloc
  subst ha
  cases o with
  | crash => exact absurd rfl hb.nocrash
  | err e => exact Or.inl ⟨e, p, rfl, rfl⟩
  | ok size =>
    refine Or.inr ⟨size, p, rfl, ?_⟩
    have hp : p ≤ buf.length := hb.inb
    dsimp only
    rw [show lit lits_iox_OctetsReader_ReadBytes 0 = 0 from rfl, show lit lits_iox_OctetsReader_ReadBytes 1 = 0 from rfl]
    by_cases hneg : size.slt (BitVec.ofNat 32 0) = true
    · rw [if_pos hneg]
      exact .negative (toInt_neg_of_slt_zero size hneg) rfl
    · rw [if_neg hneg]
      have hi := toInt_of_not_slt_zero size hneg
      by_cases hz : size = BitVec.ofNat 32 0
      · rw [if_pos hz]
        exact .empty hz rfl
      · rw [if_neg hz]
        have h0 : 0 < size.toNat := by
          rcases Nat.eq_zero_or_pos size.toNat with h | h
          · exact absurd (BitVec.eq_of_toNat_eq (by simpa using h)) hz
          · exact h
        by_cases hs : size.toInt > (buf.length : Int) - (p : Int)
        · rw [if_pos hs]
          exact .short h0 hi (by omega) rfl
        · rw [if_neg hs]
          have hn : size.toInt.toNat = size.toNat := by omega
          have hfull : p + size.toNat ≤ buf.length := by omega
          rw [hn, streamRead_full buf p size.toNat h0 hfull]
          dsimp only
          rw [if_neg (by simp)]
          exact .full h0 hi hfull rfl

/-! ## 3. the per-call invariant of C12 -/

/-- what C12 demands of one read call started at `pos` on the input `buf`: it returns (a value or an error),
    the cursor moves forward and stays within the input, the allocation is bounded by the remaining input -/
structure Good {α : Type} (buf : List Byte) (pos : Nat) (r : Res α) : Prop where
  nocrash : r.out ≠ .crash
  mono : pos ≤ r.pos
  inb : r.pos ≤ buf.length
  alloc : r.alloc ≤ buf.length - pos

theorem map_pos {α β : Type} (f : α → β) (r : Res α) : (r.map f).pos = r.pos := by
  unfold Res.map; cases r.out <;> rfl

theorem map_alloc {α β : Type} (f : α → β) (r : Res α) : (r.map f).alloc = r.alloc := by
  unfold Res.map; cases r.out <;> rfl

theorem map_out_ok {α β : Type} (f : α → β) (r : Res α) (w : β) (h : (r.map f).out = .ok w) :
    ∃ v, r.out = .ok v ∧ w = f v := by
  unfold Res.map at h
  cases hr : r.out with
  | ok v => rw [hr] at h; exact ⟨v, rfl, by simpa using h.symm⟩
  | err e => rw [hr] at h; simp at h
  | crash => rw [hr] at h; simp at h

theorem map_out_err {α β : Type} (f : α → β) (r : Res α) (e : Err) : (r.map f).out = .err e ↔ r.out = .err e := by
  unfold Res.map
  cases hr : r.out <;> simp

theorem map_out_crash {α β : Type} (f : α → β) (r : Res α) : (r.map f).out = .crash ↔ r.out = .crash := by
  unfold Res.map
  cases hr : r.out <;> simp

theorem Good.map {α β : Type} {buf : List Byte} {pos : Nat} {r : Res α} (f : α → β) (g : Good buf pos r) :
    Good buf pos (r.map f) :=
  ⟨fun h => g.nocrash ((map_out_crash f r).mp h), by rw [map_pos]; exact g.mono, by rw [map_pos]; exact g.inb,
   by rw [map_alloc]; exact g.alloc⟩

/-- the fixed-width read calls and their widths -/
def _root_.Got.Model.Codec.Op.width : Op → Option Nat
  | .bool => some 1 | .byte => some 1 | .i16 => some 2 | .i32 => some 4 | .i64 => some 8
  | _ => none

/-- the documented errors each call may return -/
def _root_.Got.Model.Codec.Op.mayFail : Op → Err → Prop
  | .bool, e | .byte, e | .i16, e | .i32, e | .i64, e => e = .NotEnoughData
  | .v7, e => e = .NotEnoughData ∨ e = .Bad7BitInt
  | .bytes, e | .str, e => e = .NotEnoughData ∨ e = .Bad7BitInt ∨ e = .NegativeSize
  | .raw n, e => n = 0 ∧ e = .InvalidArgument

/-- everything C12 says about one call -/
structure CallSpec (buf : List Byte) (pos : Nat) (op : Op) (r : Res Val) : Prop where
  good : Good buf pos r
  errs : ∀ e, r.out = .err e → op.mayFail e
  fixedFail : ∀ w e, op.width = some w → r.out = .err e → r.pos = pos ∧ buf.length < pos + w
  fixedOk : ∀ w v, op.width = some w → r.out = .ok v → r.pos = pos + w
  noAllocUnlessBytes : op ≠ .bytes → op ≠ .str → r.alloc = 0

theorem map_map {α β γ : Type} (f : α → β) (g : β → γ) (r : Res α) : (r.map f).map g = r.map (fun x => g (f x)) := by
  unfold Res.map
  cases r.out <;> rfl

/-- a fixed-width read: `rd` succeeds consuming `w` bytes iff `w` bytes are available, else fails in place -/
theorem fixed_callspec {γ : Type} (buf : List Byte) (pos w : Nat) (op : Op) (h : pos ≤ buf.length)
    (hw : op.width = some w) (hm : ∀ e, op.mayFail e ↔ e = .NotEnoughData)
    (f : γ → Val) (rd : Res γ) (hread : read1 buf pos op = rd.map f)
    (hok : pos + w ≤ buf.length → ∃ v, rd = ⟨.ok v, pos + w, 0⟩)
    (herr : ¬ pos + w ≤ buf.length → rd = ⟨.err .NotEnoughData, pos, 0⟩) :
    CallSpec buf pos op (read1 buf pos op) := by
  rw [hread]
  by_cases hl : pos + w ≤ buf.length
  · obtain ⟨v, hv⟩ := hok hl
    rw [hv]
    refine ⟨⟨by simp [Res.map], by simp [Res.map], by simpa [Res.map] using hl, by simp [Res.map]⟩,
      by simp [Res.map], by simp [Res.map], ?_, by simp [Res.map]⟩
    intro w' v' hw' _
    rw [hw] at hw'
    simp only [Option.some.injEq] at hw'
    subst hw'
    simp [Res.map]
  · rw [herr hl]
    refine ⟨⟨by simp [Res.map], by simp [Res.map], by simpa [Res.map] using h, by simp [Res.map]⟩,
      ?_, ?_, by simp [Res.map], by simp [Res.map]⟩
    · intro e he
      have : e = .NotEnoughData := by simpa [Res.map] using he.symm
      exact (hm e).mpr this
    · intro w' e hw' _
      rw [hw] at hw'
      simp only [Option.some.injEq] at hw'
      subst hw'
      exact ⟨by simp [Res.map], by omega⟩

theorem readBytes_good (buf : List Byte) (pos : Nat) (h : pos ≤ buf.length) :
    Good buf pos (readBytes buf pos) ∧
      (∀ e, (readBytes buf pos).out = .err e → e = .NotEnoughData ∨ e = .Bad7BitInt ∨ e = .NegativeSize) := by
  have hb := read7_bound buf pos h
  rcases readBytes_char buf pos h with ⟨e, p, h7, hr⟩ | ⟨size, p, h7, hc⟩
  · rw [h7] at hb
    rw [hr]
    refine ⟨⟨by simp, hb.mono, hb.inb, by simp⟩, ?_⟩
    intro e' he'
    have : e' = e := by simpa using he'.symm
    subst this
    rcases hb.errpos e' rfl with h | h
    · exact Or.inl h
    · exact Or.inr (Or.inl h)
  · rw [h7] at hb
    have hm : pos ≤ p := hb.mono
    have hi : p ≤ buf.length := hb.inb
    cases hc with
    | negative _ hr => rw [hr]; exact ⟨⟨by simp, hm, hi, by simp⟩, by simp⟩
    | empty _ hr => rw [hr]; exact ⟨⟨by simp, hm, hi, by simp⟩, by simp⟩
    | short _ _ _ hr => rw [hr]; exact ⟨⟨by simp, hm, hi, by simp⟩, by simp⟩
    | full h0 _ hf hr =>
      rw [hr]
      exact ⟨⟨by simp, by simp; omega, by simpa using hf, by simp; omega⟩, by simp⟩

theorem read1_spec (buf : List Byte) (pos : Nat) (op : Op) (h : pos ≤ buf.length) :
    CallSpec buf pos op (read1 buf pos op) := by
  cases op with
  | bool =>
    refine fixed_callspec buf pos 1 .bool h rfl (fun e => Iff.rfl)
      (fun b => Val.bool (b == BitVec.ofNat 8 (lit lits_iox_OctetsStream_ReadBool 0))) (readByte buf pos)
      (by simp only [read1, readBool, map_map]) ?_ ?_
    · intro hl; exact ⟨_, readByte_lt buf pos (by omega)⟩
    · intro hl; exact readByte_ge buf pos (by omega)
  | byte =>
    refine fixed_callspec buf pos 1 .byte h rfl (fun e => Iff.rfl) Val.byte (readByte buf pos) rfl ?_ ?_
    · intro hl; exact ⟨_, readByte_lt buf pos (by omega)⟩
    · intro hl; exact readByte_ge buf pos (by omega)
  | i16 =>
    refine fixed_callspec buf pos 2 .i16 h rfl (fun e => Iff.rfl) Val.i16 (readInt16 buf pos) rfl ?_ ?_
    · intro hl; exact ⟨_, readInt16_ok buf pos hl⟩
    · intro hl; exact readInt16_err buf pos hl
  | i32 =>
    refine fixed_callspec buf pos 4 .i32 h rfl (fun e => Iff.rfl) Val.i32 (readInt32 buf pos) rfl ?_ ?_
    · intro hl; exact ⟨_, readInt32_ok buf pos hl⟩
    · intro hl; exact readInt32_err buf pos hl
  | i64 =>
    refine fixed_callspec buf pos 8 .i64 h rfl (fun e => Iff.rfl) Val.i64 (readInt64 buf pos) rfl ?_ ?_
    · intro hl; exact ⟨_, readInt64_ok buf pos hl⟩
    · intro hl; exact readInt64_err buf pos hl
  | v7 =>
    have hb := read7_bound buf pos h
    have g : Good buf pos (read7 buf pos) := ⟨hb.nocrash, hb.mono, hb.inb, by rw [hb.alloc]; omega⟩
    refine ⟨g.map Val.v7, ?_, ?_, ?_, ?_⟩
    · intro e he
      exact hb.errpos e ((map_out_err _ _ e).mp he)
    · intro w e hw; simp [Op.width] at hw
    · intro w v hw; simp [Op.width] at hw
    · intro _ _
      simp only [read1, map_alloc]; exact hb.alloc
  | bytes =>
    obtain ⟨g, he⟩ := readBytes_good buf pos h
    refine ⟨g.map Val.bytes, ?_, ?_, ?_, ?_⟩
    · intro e hh; exact he e ((map_out_err _ _ e).mp hh)
    · intro w e hw; simp [Op.width] at hw
    · intro w v hw; simp [Op.width] at hw
    · intro hne; exact absurd rfl hne
  | str =>
    obtain ⟨g, he⟩ := readBytes_good buf pos h
    refine ⟨g.map Val.str, ?_, ?_, ?_, ?_⟩
    · intro e hh; exact he e ((map_out_err _ _ e).mp hh)
    · intro w e hw; simp [Op.width] at hw
    · intro w v hw; simp [Op.width] at hw
    · intro _ hne; exact absurd rfl hne
  | raw n =>
    simp only [read1]
    rcases Nat.eq_zero_or_pos n with hn | hn
    · subst hn
      rw [streamRead_zero]
      exact ⟨⟨by simp [Res.map], by simp [Res.map], by simpa [Res.map] using h, by simp [Res.map]⟩,
        by simp [Res.map, Op.mayFail], by simp [Op.width], by simp [Op.width], by simp [Res.map]⟩
    · rw [streamRead_pos buf pos n hn h]
      exact ⟨⟨by simp [Res.map], by simp [Res.map], by simp only [Res.map]; omega, by simp [Res.map]⟩,
        by simp [Res.map], by simp [Op.width], by simp [Op.width], by simp [Res.map]⟩

/-- the invariant along a sequence of calls: each call is `Good` from where the previous one stopped -/
def SeqGood (buf : List Byte) : Nat → List (Res Val) → Prop
  | _, [] => True
  | pos, r :: rs => Good buf pos r ∧ SeqGood buf r.pos rs

theorem readSeq_good (buf : List Byte) : ∀ (ops : List Op) (pos : Nat), pos ≤ buf.length →
    SeqGood buf pos (readSeq buf pos ops) := by
  intro ops
  induction ops with
  | nil => intro pos _; trivial
  | cons o os ih =>
    intro pos h
    have g := (read1_spec buf pos o h).good
    exact ⟨g, ih _ g.inb⟩

/-- ReadBytes as it was before commit ca8102a (`make([]byte, size)` before looking at the remaining input);
    kept only to document the defect -/
def readBytesOld (buf : List Byte) (pos : Nat) : Res (List Byte) :=
  match read7 buf pos with
  | ⟨.err e, p, _⟩ => ⟨.err e, p, 0⟩
  | ⟨.crash, p, _⟩ => ⟨.crash, p, 0⟩
  | ⟨.ok size, p, _⟩ =>
    if size.slt 0#32 then ⟨.err .NegativeSize, p, 0⟩
    else if size = 0#32 then ⟨.ok [], p, 0⟩
    else
      let n := size.toInt.toNat
      match streamRead buf p n with
      | ⟨.err e, p', _⟩ => ⟨.err e, p', n⟩
      | ⟨.crash, p', _⟩ => ⟨.crash, p', n⟩
      | ⟨.ok (num, data), p', _⟩ =>
        if BitVec.ofNat 32 num ≠ size then ⟨.err .NotEnoughData, p', n⟩
        else ⟨.ok data, p', n⟩

end Got.Lemmas.Codec
