import Got.Model.CacheEvents
import Got.Lemmas.CacheInv
import Got.Lemmas.CacheLive
import Got.Lemmas.DisciplineProtos
/-
C18, component theorem for cachex.Future.value/err: for EVERY execution of the timed LTS `Got.Model.Cache` and every
future id f, the trace `errEvents` of f's plain location is accepted by the publication-discipline monitor, hence
race free (`accepts_raceFree`).  Proof: an invariant `R` relating the LTS state to the monitor state, on top of the
reachable-state invariant `Inv` (a future is resolved at most once, by the unique worker holding its job).
Negative control: with the OLD status check (err read before the IsZero test) a concrete run is rejected.
Core Lean only.
-/
namespace Got.Lemmas.DiscCache
open Got.Model.Cache Got.Model.CacheCore Got.Model.CacheEvents Got.Model.Discipline Got.Spec.Cache Got.Lemmas.Cache
open Got.Lemmas.Discipline

/-- the worker pcs after the publication of the result -/
def CD (pc : WPc) (j : Job) : Prop := pc = .clearPred j ∨ pc = .wgDone j

/-- LTS state vs monitor state for the location of future f -/
structure R (f : FutId) (s : State) (m : Mon) : Prop where
  un : (s.nfut ≤ f ∨ (s.fut f).res = none) → ∀ t, m.wcur t = true ∧ m.acur t = true
  up : f < s.nfut → (s.fut f).res.isSome = true → m.carW (updObj f) = true
  wg : f < s.nfut → (s.fut f).done = true → m.carW (wgObj f) = true
  wk : ∀ w j, CD (s.wpc w) j → j.fut = f → m.wcur (wtid w) = true

theorem r_init (f : FutId) : R f init Mon.init := by
  constructor <;> simp [init, Mon.init, CD]

/-- what a step that is "ordinary" for f leaves alone -/
structure Frame (f : FutId) (s s' : State) : Prop where
  nfut : s.nfut ≤ s'.nfut
  old : f < s.nfut → (s'.fut f).res = (s.fut f).res ∧ (s'.fut f).done = (s.fut f).done
  new : s.nfut ≤ f → f < s'.nfut → (s'.fut f).res = none ∧ (s'.fut f).done = false
  wk : ∀ w j, CD (s'.wpc w) j → j.fut = f → CD (s.wpc w) j

theorem r_frame (f : FutId) (s s' : State) (m : Mon) (fr : Frame f s s') (h : R f s m) : R f s' m := by
  constructor
  · intro hu
    apply h.un
    by_cases hf : f < s.nfut
    · right
      rcases hu with hu | hu
      · exact absurd (Nat.lt_of_lt_of_le hf fr.nfut) (Nat.not_lt.mpr hu)
      · rw [← (fr.old hf).1]; exact hu
    · exact Or.inl (Nat.not_lt.mp hf)
  · intro hf' hr
    by_cases hf : f < s.nfut
    · exact h.up hf (by rw [← (fr.old hf).1]; exact hr)
    · rw [(fr.new (Nat.not_lt.mp hf) hf').1] at hr; cases hr
  · intro hf' hd
    by_cases hf : f < s.nfut
    · exact h.wg hf (by rw [← (fr.old hf).2]; exact hd)
    · rw [(fr.new (Nat.not_lt.mp hf) hf').2] at hd; cases hd
  · intro w j hcd hj; exact h.wk w j (fr.wk w j hcd hj) hj

theorem frame_refl (f : FutId) (s : State) : Frame f s s :=
  ⟨Nat.le_refl _, fun _ => ⟨rfl, rfl⟩, fun h1 h2 => absurd h2 (Nat.not_lt.mpr h1), fun _ _ h _ => h⟩

/-! monitor steps -/

/-- an acquire never hurts -/
theorem r_acq (f : FutId) (s : State) (m : Mon) (t a : Nat) (h : R f s m) :
    ∃ m', m.run [.acq t a] = some m' ∧ R f s m' ∧ (m.carW a = true → m'.wcur t = true) ∧ (∀ b, m'.carW b = m.carW b) := by
  refine ⟨_, rfl, ⟨?_, h.up, h.wg, ?_⟩, ?_, fun _ => rfl⟩
  · intro hu t'; have := h.un hu t'; simp [this.1, this.2]
  · intro w j hcd hj; simp [h.wk w j hcd hj]
  · intro hc; simp [hc]

/-- a release only adds carried knowledge -/
theorem r_rel (f : FutId) (s : State) (m : Mon) (t a : Nat) (h : R f s m) :
    ∃ m', m.run [.rel t a] = some m' ∧ R f s m' ∧ (m.wcur t = true → m'.carW a = true) ∧
      (∀ u, m'.wcur u = m.wcur u) := by
  refine ⟨_, rfl, ⟨h.un, ?_, ?_, h.wk⟩, ?_, fun _ => rfl⟩
  · intro hf hr; simp [h.up hf hr]
  · intro hf hd; simp [h.wg hf hd]
  · intro hw; simp [hw]

/-- getFutureStatus(f) of the current code by any thread at any time -/
theorem r_status (f : FutId) (s : State) (m : Mon) (t : Nat) (h : R f s m)
    (hres : (s.fut f).res.isSome = true → f < s.nfut) :
    ∃ m', m.run (statusEvs false t f (s.fut f).res.isSome) = some m' ∧ R f s m' := by
  obtain ⟨m1, hm1, h1, hk, _⟩ := r_acq f s m t (updObj f) h
  cases hr : (s.fut f).res.isSome with
  | false => exact ⟨m1, by simpa [statusEvs] using hm1, h1⟩
  | true =>
    have hf := hres hr
    have hw : m1.wcur t = true := hk (h.up hf hr)
    have hne : (s.fut f).res ≠ none := by intro e; rw [e] at hr; cases hr
    refine ⟨{ m1 with acur := fun u => m1.acur u && decide (u = t), carA := fun _ => false }, ?_, ?_⟩
    · simp only [statusEvs, Bool.false_or, if_true]
      show m.run ([Ev.acq t (updObj f)] ++ [Ev.rd t]) = _
      rw [run_append, hm1]
      simp [Mon.run, Mon.step, hw]
    · exact ⟨fun hu => by rcases hu with hu | hu
                          · exact absurd hf (Nat.not_lt.mpr hu)
                          · exact absurd hu hne,
             h1.up, h1.wg, h1.wk⟩

/-! frames of ordinary steps -/

theorem frame_cl (cfg : Cfg) (f : FutId) (s s' : State) (c : Cid) (hs : clStep cfg s c = some s')
    (hord : ∀ k r, s.cpc c = .setStart k r → s.nfut ≠ f) : Frame f s s' := by
  have same : ∀ t : State, t.fut = s.fut → t.nfut = s.nfut → t.wpc = s.wpc → Frame f s t := by
    intro t h1 h2 h3
    exact ⟨by rw [h2]; exact Nat.le_refl _, fun _ => by rw [h1]; exact ⟨rfl, rfl⟩,
           fun a b => by rw [h2] at b; exact absurd b (Nat.not_lt.mpr a), fun w j h _ => by rw [h3] at h; exact h⟩
  cases hc : s.cpc c with
  | idle => simp [clStep, hc] at hs
  | done o => simp [clStep, hc] at hs
  | ldStart k ld =>
    simp only [clStep, hc] at hs
    split at hs
    · simp only [Option.some.injEq] at hs; subst hs
      simp only [loadCS, applyLoad]
      split
      · refine ⟨Nat.le_succ _, fun hf => ?_, fun h1 h2 => ?_, fun w j h _ => h⟩
        · simp [upd, Nat.ne_of_lt hf]
        · have : f = s.nfut := Nat.le_antisymm (Nat.le_of_lt_succ h2) h1
          subst this; simp [newLoadFut]
      · exact same _ rfl rfl rfl
    · cases hs
  | setStart k r =>
    simp only [clStep, hc] at hs
    split at hs
    · simp only [Option.some.injEq] at hs; subst hs
      refine ⟨Nat.le_succ _, fun hf => ?_, fun h1 h2 => ?_, fun w j h _ => h⟩
      · have := orphanMark_fields s.fut (s.map k) f
        simp only [setCS, upd_other _ _ _ _ (Nat.ne_of_lt hf)]
        exact ⟨this.2.1, this.2.2.2.1⟩
      · have : f = s.nfut := Nat.le_antisymm (Nat.le_of_lt_succ h2) h1
        exact absurd this.symm (hord k r hc)
    · cases hs
  | ldUnlock sh send plan =>
    simp only [clStep, hc] at hs
    cases send <;> simp only [Option.some.injEq] at hs <;> subst hs <;> exact same _ rfl rfl rfl
  | ldSend j plan lk =>
    simp only [clStep, hc] at hs
    split at hs
    · cases lk <;> simp only [Option.some.injEq] at hs <;> subst hs <;> exact same _ rfl rfl rfl
    · cases hs
  | g2Start k =>
    simp only [clStep, hc] at hs
    split at hs
    · simp only [Option.some.injEq] at hs; subst hs; exact same _ rfl rfl rfl
    · cases hs
  | wait g =>
    simp only [clStep, hc] at hs
    split at hs
    · simp only [Option.some.injEq] at hs; subst hs; exact same _ rfl rfl rfl
    · cases hs
  | fetch g b => simp only [clStep, hc, Option.some.injEq] at hs; subst hs; exact same _ rfl rfl rfl
  | fetchSt g p b => simp only [clStep, hc, Option.some.injEq] at hs; subst hs; exact same _ rfl rfl rfl
  | ldRet g => simp only [clStep, hc, Option.some.injEq] at hs; subst hs; exact same _ rfl rfl rfl
  | g2Status o => simp only [clStep, hc, Option.some.injEq] at hs; subst hs; exact same _ rfl rfl rfl
  | retNil => simp only [clStep, hc, Option.some.injEq] at hs; subst hs; exact same _ rfl rfl rfl
  | setRet => simp only [clStep, hc, Option.some.injEq] at hs; subst hs; exact same _ rfl rfl rfl

/-- worker-pc part of the frame when worker w moves to a pc that is not after-publication -/
theorem frame_wpc (f : FutId) (s : State) (w : Wid) (new : WPc) (hnew : ∀ j, ¬ CD new j) :
    ∀ w' j, CD (upd s.wpc w new w') j → j.fut = f → CD (s.wpc w') j := by
  intro w' j h _
  by_cases e : w' = w
  · subst e; simp only [upd_same] at h; exact absurd h (hnew j)
  · simpa [upd, e] using h

theorem frame_other (cfg : Cfg) (f : FutId) (s s' : State) (a : Act) (hs : step? cfg s a = some s')
    (hcl : ∀ c, a ≠ .cl c) (hwk : ∀ w, a ≠ .wk w) : Frame f s s' := by
  have same : ∀ t : State, t.fut = s.fut → t.nfut = s.nfut →
      (∀ w j, CD (t.wpc w) j → j.fut = f → CD (s.wpc w) j) → Frame f s t := by
    intro t h1 h2 h3
    exact ⟨by rw [h2]; exact Nat.le_refl _, fun _ => by rw [h1]; exact ⟨rfl, rfl⟩,
           fun a b => by rw [h2] at b; exact absurd b (Nat.not_lt.mpr a), h3⟩
  cases a with
  | cl c => exact absurd rfl (hcl c)
  | wk w => exact absurd rfl (hwk w)
  | invLoad c k ld =>
    simp only [step?] at hs; split at hs <;> simp only [Option.some.injEq, reduceCtorEq] at hs
    subst hs; exact same _ rfl rfl (fun _ _ h _ => h)
  | invGet2 c k =>
    simp only [step?] at hs; split at hs <;> simp only [Option.some.injEq, reduceCtorEq] at hs
    subst hs; exact same _ rfl rfl (fun _ _ h _ => h)
  | invSet c k r =>
    simp only [step?] at hs; split at hs <;> simp only [Option.some.injEq, reduceCtorEq] at hs
    subst hs; exact same _ rfl rfl (fun _ _ h _ => h)
  | invFGet c o =>
    simp only [step?] at hs; split at hs <;> simp only [Option.some.injEq, reduceCtorEq] at hs
    subst hs; exact same _ rfl rfl (fun _ _ h _ => h)
  | wTake w =>
    simp only [step?] at hs
    split at hs <;> (try split at hs) <;> simp only [Option.some.injEq, reduceCtorEq] at hs
    subst hs; exact same _ rfl rfl (frame_wpc f _ w _ (by intro j h; rcases h with h | h <;> cases h))
  | wTick w =>
    simp only [step?] at hs
    split at hs <;> (try split at hs) <;> (try split at hs) <;> simp only [Option.some.injEq, reduceCtorEq] at hs
    subst hs; exact same _ rfl rfl (frame_wpc f _ w _ (by intro j h; rcases h with h | h <;> cases h))
  | wStart w =>
    simp only [step?] at hs; split at hs <;> simp only [Option.some.injEq, reduceCtorEq] at hs
    subst hs; exact same _ rfl rfl (frame_wpc f _ w _ (by intro j h; rcases h with h | h <;> cases h))
  | wEnd w r =>
    simp only [step?] at hs; split at hs <;> simp only [Option.some.injEq, reduceCtorEq] at hs
    subst hs; exact same _ rfl rfl (frame_wpc f _ w _ (by intro j h; rcases h with h | h <;> cases h))
  | tick => simp only [step?, Option.some.injEq] at hs; subst hs; exact same _ rfl rfl (fun _ _ h _ => h)
  | delay d => simp only [step?, Option.some.injEq] at hs; subst hs; exact same _ rfl rfl (fun _ _ h _ => h)

/-- a resolved (done) future has its result published (reachable-state invariant) -/
theorem done_res (cfg : Cfg) (s : State) (hI : Inv cfg s) (f : FutId) (hf : f < s.nfut) (hd : (s.fut f).done = true) :
    (s.fut f).res.isSome = true := by
  have hst := hI.stage f hf
  unfold StageOK at hst
  cases hl : s.jobAt f with
  | nowhere => rw [hl] at hst; exact absurd hst id
  | creator c => rw [hl] at hst; simp only at hst; rw [hst.2] at hd; cases hd
  | chan => rw [hl] at hst; simp only at hst; rw [hst.2] at hd; cases hd
  | worker w => rw [hl] at hst; simp only at hst; rw [hst.1] at hd; cases hd
  | finished => rw [hl] at hst; exact hst.2

theorem stepEvents_enabled (cfg : Cfg) (o : Bool) (f : FutId) (s s' : State) (a : Act) (hs : step? cfg s a = some s') :
    stepEvents cfg o f s a = actEvents cfg o f s a := by
  simp [stepEvents, hs]

/-- one step of the LTS: its events are accepted and the relation is re-established -/
theorem r_step (cfg : Cfg) (f : FutId) (s s' : State) (m : Mon) (a : Act) (hI : Inv cfg s) (h : R f s m)
    (hs : step? cfg s a = some s') : ∃ m', m.run (stepEvents cfg false f s a) = some m' ∧ R f s' m' := by
  rw [stepEvents_enabled cfg false f s s' a hs]
  have none_ok : ∀ fr : Frame f s s', ∃ m', m.run [] = some m' ∧ R f s' m' := fun fr => ⟨m, rfl, r_frame f s s' m fr h⟩
  have status_ok : ∀ t, Frame f s s' → f < s.nfut →
      ∃ m', m.run (statusEvs false t f (s.fut f).res.isSome) = some m' ∧ R f s' m' := by
    intro t fr hf
    obtain ⟨m', hm', h'⟩ := r_status f s m t h (fun _ => hf)
    exact ⟨m', hm', r_frame f s s' m' fr h'⟩
  cases a with
  | cl c =>
    have hs' : clStep cfg s c = some s' := hs
    cases hc : s.cpc c with
    | ldStart k ld =>
      have fr := frame_cl cfg f s s' c hs' (by intro k r e; rw [hc] at e; cases e)
      simp only [actEvents, hc, clEvents]
      split
      · rename_i hm; exact status_ok _ fr (hI.a_map k f hm)
      · exact none_ok fr
    | g2Status o =>
      have fr := frame_cl cfg f s s' c hs' (by intro k r e; rw [hc] at e; cases e)
      cases o with
      | none => simp only [actEvents, hc, clEvents]; exact none_ok fr
      | some g =>
        simp only [actEvents, hc, clEvents]
        split
        · rename_i hg; subst hg; exact status_ok _ fr (hI.a_pc c g (by rw [hc]; simp [pcFuts]))
        · exact none_ok fr
    | fetchSt g p b =>
      have fr := frame_cl cfg f s s' c hs' (by intro k r e; rw [hc] at e; cases e)
      cases p with
      | none => simp only [actEvents, hc, clEvents]; exact none_ok fr
      | some q =>
        simp only [actEvents, hc, clEvents]
        split
        · rename_i hq; subst hq; exact status_ok _ fr (hI.a_pc c q (by rw [hc]; simp [pcFuts]))
        · exact none_ok fr
    | fetch g b =>
      have fr := frame_cl cfg f s s' c hs' (by intro k r e; rw [hc] at e; cases e)
      simp only [actEvents, hc, clEvents]
      split
      · obtain ⟨m', hm', h', _⟩ := r_acq f s m (ctid c) (predObj f) h
        exact ⟨m', hm', r_frame f s s' m' fr h'⟩
      · exact none_ok fr
    | wait g =>
      have fr := frame_cl cfg f s s' c hs' (by intro k r e; rw [hc] at e; cases e)
      simp only [actEvents, hc, clEvents]
      split
      · rename_i hg; subst hg
        have hf : g < s.nfut := hI.a_pc c g (by rw [hc]; simp [pcFuts])
        have hd : (s.fut g).done = true := by
          simp only [clStep, hc] at hs'
          split at hs'
          · assumption
          · cases hs'
        obtain ⟨m1, hm1, h1, hk, _⟩ := r_acq g s m (ctid c) (wgObj g) h
        have hw : m1.wcur (ctid c) = true := hk (h.wg hf hd)
        have hr := done_res cfg s hI g hf hd
        have hne : (s.fut g).res ≠ none := by intro e; rw [e] at hr; cases hr
        refine ⟨{ m1 with acur := fun u => m1.acur u && decide (u = ctid c), carA := fun _ => false }, ?_, ?_⟩
        · show m.run ([Ev.acq (ctid c) (wgObj g)] ++ [Ev.rd (ctid c)]) = _
          rw [run_append, hm1]
          simp [Mon.run, Mon.step, hw]
        · refine r_frame g s s' _ fr ⟨fun hu => ?_, h1.up, h1.wg, h1.wk⟩
          rcases hu with hu | hu
          · exact absurd hf (Nat.not_lt.mpr hu)
          · exact absurd hu hne
      · exact none_ok fr
    | setStart k r =>
      simp only [actEvents, hc, clEvents]
      split
      · rename_i hnf
        -- Set resolves the fresh future f = s.nfut in one step
        simp only [clStep, hc] at hs'
        split at hs'
        · simp only [Option.some.injEq] at hs'; subst hs'
          have hac := (h.un (Or.inl (by rw [hnf]; exact Nat.le_refl _)) (ctid c)).2
          refine ⟨_, by simp [Mon.run, Mon.step, hac]; rfl, ?_⟩
          constructor
          · intro hu
            rcases hu with hu | hu
            · simp only [setCS] at hu; rw [hnf] at hu; exact absurd (Nat.lt_succ_self f) (Nat.not_lt.mpr hu)
            · simp [setCS, ← hnf] at hu
          · intro _ _; simp
          · intro _ _; simp [wgObj, updObj, predObj]
          · intro w j hcd hj
            have hwj : wjob (s.wpc w) = some j := by
              rcases hcd with e | e <;> (simp only [setCS] at e; rw [e]; rfl)
            have := (hI.k_worker w j hwj).1
            rw [hj, hnf] at this; exact absurd this (Nat.lt_irrefl _)
        · cases hs'
      · rename_i hnf
        exact none_ok (frame_cl cfg f s s' c hs' (fun _ _ _ => hnf))
    | idle => simp [clStep, hc] at hs'
    | done o => simp [clStep, hc] at hs'
    | ldUnlock sh send plan => simp only [actEvents, hc, clEvents]; exact none_ok (frame_cl cfg f s s' c hs' (by intro k r e; rw [hc] at e; cases e))
    | ldSend j plan lk => simp only [actEvents, hc, clEvents]; exact none_ok (frame_cl cfg f s s' c hs' (by intro k r e; rw [hc] at e; cases e))
    | ldRet g => simp only [actEvents, hc, clEvents]; exact none_ok (frame_cl cfg f s s' c hs' (by intro k r e; rw [hc] at e; cases e))
    | g2Start k => simp only [actEvents, hc, clEvents]; exact none_ok (frame_cl cfg f s s' c hs' (by intro k r e; rw [hc] at e; cases e))
    | retNil => simp only [actEvents, hc, clEvents]; exact none_ok (frame_cl cfg f s s' c hs' (by intro k r e; rw [hc] at e; cases e))
    | setRet => simp only [actEvents, hc, clEvents]; exact none_ok (frame_cl cfg f s s' c hs' (by intro k r e; rw [hc] at e; cases e))
  | wk w =>
    have hs' : wkStep cfg s w = some s' := hs
    have notCD : ∀ (new : WPc), (∀ j, ¬ CD new j) → ∀ w' j, CD (upd s.wpc w new w') j → j.fut = f → CD (s.wpc w') j :=
      fun new hn => frame_wpc f s w new hn
    cases hw : s.wpc w with
    | idle => simp [wkStep, hw] at hs'
    | got j => simp [wkStep, hw] at hs'
    | running j => simp [wkStep, hw] at hs'
    | sweep i =>
      simp only [wkStep, hw] at hs'
      split at hs'
      · simp only [Option.some.injEq] at hs'; subst hs'
        have fr : Frame f s (setWpc { s with map := sweepShard cfg s i } w (if i + 1 < cfg.S then .sweep (i + 1) else .idle)) :=
          ⟨Nat.le_refl _, fun _ => ⟨rfl, rfl⟩, fun a b => absurd b (Nat.not_lt.mpr a),
           notCD _ (by intro j h; split at h <;> rcases h with h | h <;> cases h)⟩
        simp only [actEvents, hw, wkEvents]
        split
        · rename_i hcond; exact status_ok _ fr hcond.1
        · exact none_ok fr
      · cases hs'
    | publish j r =>
      simp only [wkStep, hw, Option.some.injEq] at hs'; subst hs'
      simp only [actEvents, hw, wkEvents]
      have hwj : wjob (s.wpc w) = some j := by rw [hw]; rfl
      split
      · rename_i hj
        -- the one plain write of f's fields, followed by the publication of updateTime
        have hf : f < s.nfut := hj ▸ (hI.k_worker w j hwj).1
        have hloc := hI.f_worker w j hwj
        have hst := hI.stage j.fut (hI.k_worker w j hwj).1
        unfold StageOK at hst; rw [hloc] at hst; simp only [hw, prePub] at hst
        have hres : (s.fut f).res = none := hj ▸ hst.2.2 trivial
        have hac := (h.un (Or.inr hres) (wtid w)).2
        refine ⟨_, by simp [Mon.run, Mon.step, hac]; rfl, ?_⟩
        constructor
        · intro hu
          rcases hu with hu | hu
          · exact absurd hf (Nat.not_lt.mpr hu)
          · simp [setWpc, hj] at hu
        · intro _ _; simp
        · intro _ hd
          simp only [setWpc, hj, upd_same] at hd
          rw [← hj, hst.1] at hd; cases hd
        · intro w' j' hcd hj'
          by_cases e : w' = w
          · subst e; simp
          · simp only [setWpc, upd_other _ _ _ _ e] at hcd
            have hwj' : wjob (s.wpc w') = some j' := by rcases hcd with e' | e' <;> (rw [e']; rfl)
            have := hI.f_worker w' j' hwj'
            rw [hj', ← hj, hloc] at this
            exact absurd (Loc.worker.inj this).symm e
      · rename_i hj
        refine none_ok ⟨Nat.le_refl _, fun _ => ?_, fun a b => absurd b (Nat.not_lt.mpr a), ?_⟩
        · simp [setWpc, upd, Ne.symm hj]
        · intro w' j' hcd hj'
          by_cases e : w' = w
          · subst e; simp only [setWpc, upd_same] at hcd
            rcases hcd with e' | e'
            · injection e' with e'; subst e'; exact absurd hj' hj
            · cases e'
          · simpa [setWpc, upd, e] using hcd
    | clearPred j =>
      simp only [wkStep, hw, Option.some.injEq] at hs'; subst hs'
      simp only [actEvents, hw, wkEvents]
      have fr : Frame f s (setWpc { s with fut := upd s.fut j.fut { s.fut j.fut with pred := none } } w (.wgDone j)) := by
        refine ⟨Nat.le_refl _, fun _ => ?_, fun a b => absurd b (Nat.not_lt.mpr a), ?_⟩
        · by_cases e : f = j.fut
          · subst e; simp [setWpc]
          · simp [setWpc, upd, e]
        · intro w' j' hcd _
          by_cases e : w' = w
          · subst e; simp only [setWpc, upd_same] at hcd
            rcases hcd with e' | e'
            · cases e'
            · injection e' with e'; subst e'; exact Or.inl hw
          · simpa [setWpc, upd, e] using hcd
      split
      · obtain ⟨m', hm', h', _⟩ := r_rel f s m (wtid w) (predObj f) h
        exact ⟨m', hm', r_frame f s _ m' fr h'⟩
      · exact none_ok fr
    | wgDone j =>
      simp only [wkStep, hw, Option.some.injEq] at hs'; subst hs'
      simp only [actEvents, hw, wkEvents]
      split
      · rename_i hj
        obtain ⟨m', hm', h', hcar, _⟩ := r_rel f s m (wtid w) (wgObj f) h
        have hcw := hcar (h.wk w j (Or.inr hw) hj)
        refine ⟨m', hm', ?_⟩
        constructor
        · intro hu
          apply h'.un
          rcases hu with hu | hu
          · exact Or.inl hu
          · right
            by_cases e : f = j.fut
            · subst e; simpa [setWpc] using hu
            · simpa [setWpc, upd, e] using hu
        · intro hf hr
          apply h'.up hf
          by_cases e : f = j.fut
          · subst e; simpa [setWpc] using hr
          · simpa [setWpc, upd, e] using hr
        · intro _ _; exact hcw
        · intro w' j' hcd hj'
          by_cases e : w' = w
          · subst e; simp only [setWpc, upd_same] at hcd; rcases hcd with e' | e' <;> cases e'
          · exact h'.wk w' j' (by simpa [setWpc, upd, e] using hcd) hj'
      · rename_i hj
        refine none_ok ⟨Nat.le_refl _, fun _ => ?_, fun a b => absurd b (Nat.not_lt.mpr a), ?_⟩
        · simp [setWpc, upd, Ne.symm hj]
        · intro w' j' hcd _
          by_cases e : w' = w
          · subst e; simp only [setWpc, upd_same] at hcd; rcases hcd with e' | e' <;> cases e'
          · simpa [setWpc, upd, e] using hcd
  | invLoad c k ld => simp only [actEvents]; exact none_ok (frame_other cfg f s s' _ hs (by intro c e; cases e) (by intro w e; cases e))
  | invGet2 c k => simp only [actEvents]; exact none_ok (frame_other cfg f s s' _ hs (by intro c e; cases e) (by intro w e; cases e))
  | invSet c k r => simp only [actEvents]; exact none_ok (frame_other cfg f s s' _ hs (by intro c e; cases e) (by intro w e; cases e))
  | invFGet c o => simp only [actEvents]; exact none_ok (frame_other cfg f s s' _ hs (by intro c e; cases e) (by intro w e; cases e))
  | wTake w => simp only [actEvents]; exact none_ok (frame_other cfg f s s' _ hs (by intro c e; cases e) (by intro w e; cases e))
  | wTick w => simp only [actEvents]; exact none_ok (frame_other cfg f s s' _ hs (by intro c e; cases e) (by intro w e; cases e))
  | wStart w => simp only [actEvents]; exact none_ok (frame_other cfg f s s' _ hs (by intro c e; cases e) (by intro w e; cases e))
  | wEnd w r => simp only [actEvents]; exact none_ok (frame_other cfg f s s' _ hs (by intro c e; cases e) (by intro w e; cases e))
  | tick => simp only [actEvents]; exact none_ok (frame_other cfg f s s' _ hs (by intro c e; cases e) (by intro w e; cases e))
  | delay d => simp only [actEvents]; exact none_ok (frame_other cfg f s s' _ hs (by intro c e; cases e) (by intro w e; cases e))

/-- along any action sequence from a related pair the events are accepted -/
theorem r_run (cfg : Cfg) (f : FutId) (acts : List Act) (s : State) (m : Mon) (hI : Inv cfg s) (h : R f s m) :
    ∃ m', m.run (errEvents cfg false f s acts) = some m' := by
  induction acts generalizing s m with
  | nil => exact ⟨m, rfl⟩
  | cons a as ih =>
    simp only [errEvents]
    rw [run_append]
    cases hs : step? cfg s a with
    | none =>
      have he : stepEvents cfg false f s a = [] := by simp [stepEvents, hs]
      have hst : step cfg s a = s := by simp [step, hs]
      rw [he, hst]
      simpa [Mon.run] using ih s m hI h
    | some s' =>
      obtain ⟨m1, hm1, h1⟩ := r_step cfg f s s' m a hI h hs
      have hst : step cfg s a = s' := by simp [step, hs]
      rw [hm1, hst]
      simpa using ih s' m1 (inv_step cfg s s' a hI hs) h1

/-- C18 for cachex.Future.value/err: for every configuration (P, J, S, expiries, both variants of Load), every finite
    sequence of actions from the initial state (any number of clients, keys, loader results, ticks, delays) and every
    future id f, the trace of f's plain location is accepted by the publication discipline -/
theorem err_accepted (cfg : Cfg) (acts : List Act) (f : FutId) :
    accepts (errEvents cfg false f init acts) = true := by
  obtain ⟨m', hm'⟩ := r_run cfg f acts init Mon.init (inv_init cfg) (r_init f)
  simp [accepts, hm']

/-- … hence it is data-race free in the sense of the Go memory model (declarative happens-before) -/
theorem err_raceFree (cfg : Cfg) (acts : List Act) (f : FutId) :
    RaceFree (errEvents cfg false f init acts) :=
  accepts_raceFree _ (err_accepted cfg acts f)

/-- negative control: with the OLD status check (err read before the IsZero test) the discipline rejects a concrete run
    (Load c1 evaluates the status of the future while its loader runs; the worker's write then races with that read) … -/
theorem old_status_rejected : accepts (errEvents ctlCfg true 0 init oldStatusRun) = false := by decide

/-- … and it really is a race: the read (position 1) and the write (position 2) conflict and are not ordered -/
theorem old_status_trace :
    errEvents ctlCfg true 0 init oldStatusRun = [.acq 2 0, .rd 2, .wr 1, .rel 1 0] := by decide

/-- the same run with the current status check is accepted (and emits no read before the write) -/
theorem new_status_trace :
    errEvents ctlCfg false 0 init oldStatusRun = [.acq 2 0, .wr 1, .rel 1 0] := by decide

-- non-vacuity: a run in which f is written, published and read by three different threads (Get2 via the cache,
-- Future.Get2, the sweep)
example :
    errEvents ctlCfg false 0 init
      [.invLoad 0 0 0, .cl 0, .cl 0, .cl 0, .cl 0, .wTake 0, .wStart 0, .wEnd 0 ⟨some 7, none⟩, .wk 0, .wk 0, .wk 0,
       .invFGet 1 0, .cl 1, .invGet2 2 0, .cl 2, .cl 2, .tick, .wTick 0, .wk 0] =
      [.wr 1, .rel 1 0, .rel 1 1, .rel 1 2, .acq 2 2, .rd 2, .acq 4 0, .rd 4, .acq 1 0, .rd 1] := by decide

end Got.Lemmas.DiscCache
