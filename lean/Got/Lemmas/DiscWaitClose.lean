import Got.Model.WaitCloseEvents
import Got.Lemmas.WaitClose
import Got.Lemmas.DisciplineProtos
/-
C18 for loom.WaitClose from the fine-grained LTS: every execution's `closeChan` trace and `state` trace
(Got/Model/WaitCloseEvents.lean) is accepted by the discipline monitor, hence race free (`accepts_raceFree`).
Core Lean only.
-/
set_option linter.unusedSimpArgs false
set_option linter.unusedVariables false

namespace Got.Lemmas.DiscWaitClose
open Got.Model.WaitClose Got.Model.WaitCloseEvents Got.Model.Discipline Got.Lemmas.Discipline

/-! ## closeChan: written at most once, inside the mutex, before any read; readers are ordered after the write by
    the mutex hand-over or by an acquiring load of `state` that follows a releasing store made after the write -/

def isReader (p : Pc) : Prop := p = .cRead ∨ ∃ T, p = .wTimer T

structure ChInv (s : St) (m : Mon) : Prop where
  pre : s.closeChan = none → ∀ t, m.wcur t = true ∧ m.acur t = true
  holder : s.closeChan.isSome = true → ∀ h, s.mu = some h → m.wcur h = true
  free : s.closeChan.isSome = true → s.mu = none → m.carW muObj = true
  pub : s.closeChan.isSome = true → s.state ≠ wcNew → m.carW stateObj = true
  rdr : s.closeChan.isSome = true → ∀ t, isReader (s.pc t) → m.wcur t = true

theorem run_one (m : Mon) (e : Got.Model.Discipline.Ev) : m.run [e] = m.step e := by
  simp only [Mon.run]; cases m.step e <;> rfl

theorem isSome_or_none (o : Option Nat) : o = none ∨ o.isSome = true := by cases o <;> simp

/-- a step that changes neither closeChan, mu nor state; the monitor only learns -/
theorem ChInv_frame {s s' : St} {m m' : Mon}
    (hch : s'.closeChan = s.closeChan) (hmu : s'.mu = s.mu) (hst : s'.state = s.state)
    (hw : ∀ u, m.wcur u = true → m'.wcur u = true) (hc : ∀ o, m.carW o = true → m'.carW o = true)
    (hpre : s.closeChan = none → ∀ t, m'.wcur t = true ∧ m'.acur t = true)
    (hr : s.closeChan.isSome = true → ∀ u, isReader (s'.pc u) → m'.wcur u = true)
    (h : ChInv s m) : ChInv s' m' := by
  refine ⟨?_, ?_, ?_, ?_, ?_⟩
  · rw [hch]; exact hpre
  · rw [hch, hmu]; intro a x b; exact hw _ (h.holder a x b)
  · rw [hch, hmu]; intro a b; exact hc _ (h.free a b)
  · rw [hch, hst]; intro a b; exact hc _ (h.pub a b)
  · rw [hch]; exact hr

/-- readers after a pc update of `t` to a non-reader pc -/
theorem rdr_upd {s : St} {m m' : Mon} (t : Nat) (v : Pc) (hv : ¬ isReader v)
    (hw : ∀ u, m.wcur u = true → m'.wcur u = true) (h : ChInv s m) :
    s.closeChan.isSome = true → ∀ u, isReader (upd s.pc t v u) → m'.wcur u = true := by
  intro a u hu
  by_cases e : u = t
  · subst e; rw [upd_same] at hu; exact absurd hu hv
  · rw [upd_other _ _ _ _ e] at hu; exact hw _ (h.rdr a u hu)

theorem not_reader_of {v : Pc} (h1 : v ≠ .cRead) (h2 : ∀ T, v ≠ .wTimer T) : ¬ isReader v := by
  rintro (h | ⟨T, h⟩)
  · exact h1 h
  · exact h2 T h

/-- monitor after an acquire -/
def acqM (m : Mon) (t a : Nat) : Mon :=
  { m with wcur := fun u => m.wcur u || (decide (u = t) && m.carW a),
           acur := fun u => m.acur u || (decide (u = t) && m.carA a) }
def relM (m : Mon) (t a : Nat) : Mon :=
  { m with carW := fun b => m.carW b || (decide (b = a) && m.wcur t),
           carA := fun b => m.carA b || (decide (b = a) && m.acur t) }
def rdM (m : Mon) (t : Nat) : Mon :=
  { m with acur := fun u => m.acur u && decide (u = t), carA := fun _ => false }
def wrM (t : Nat) : Mon :=
  { wcur := fun u => decide (u = t), acur := fun u => decide (u = t), carW := fun _ => false, carA := fun _ => false }

theorem run_acq (m : Mon) (t a : Nat) : m.run [.acq t a] = some (acqM m t a) := by rw [run_one]; rfl
theorem run_rel (m : Mon) (t a : Nat) : m.run [.rel t a] = some (relM m t a) := by rw [run_one]; rfl
theorem run_rd (m : Mon) (t : Nat) (h : m.wcur t = true) : m.run [.rd t] = some (rdM m t) := by
  rw [run_one]; simp [Mon.step, h, rdM]
theorem run_wr (m : Mon) (t : Nat) (h : m.acur t = true) : m.run [.wr t] = some (wrM t) := by
  rw [run_one]; simp [Mon.step, h, wrM]

theorem acq_w (m : Mon) (t a u : Nat) (h : m.wcur u = true) : (acqM m t a).wcur u = true := by simp [acqM, h]
theorem acq_a (m : Mon) (t a u : Nat) (h : m.acur u = true) : (acqM m t a).acur u = true := by simp [acqM, h]
theorem acq_get (m : Mon) (t a : Nat) (h : m.carW a = true) : (acqM m t a).wcur t = true := by simp [acqM, h]
theorem rel_c (m : Mon) (t a o : Nat) (h : m.carW o = true) : (relM m t a).carW o = true := by simp [relM, h]
theorem rel_put (m : Mon) (t a : Nat) (h : m.wcur t = true) : (relM m t a).carW a = true := by simp [relM, h]

theorem pre_acq {s : St} {m : Mon} (h : ChInv s m) (t a : Nat) :
    s.closeChan = none → ∀ u, (acqM m t a).wcur u = true ∧ (acqM m t a).acur u = true := by
  intro hn u; exact ⟨acq_w _ _ _ _ (h.pre hn u).1, acq_a _ _ _ _ (h.pre hn u).2⟩

/-- an atomic load of `state` that does not lead to a read of closeChan, or any no-event step: pc of t becomes a
    non-reader -/
theorem ch_acq_plain {s : St} {m : Mon} (h : ChInv s m) (t : Nat) (v : Pc) (hv : ¬ isReader v) (a : Nat) :
    ChInv { s with pc := upd s.pc t v } (acqM m t a) :=
  ChInv_frame (s := s) rfl rfl rfl (acq_w m t a) (fun _ x => x) (pre_acq h t a)
    (rdr_upd t v hv (acq_w m t a) h) h

theorem ch_noev {s s' : St} {m : Mon} (h : ChInv s m) (t : Nat) (v : Pc) (hv : ¬ isReader v)
    (hch : s'.closeChan = s.closeChan) (hmu : s'.mu = s.mu) (hst : s'.state = s.state)
    (hp : s'.pc = upd s.pc t v) : ChInv s' m :=
  ChInv_frame hch hmu hst (fun _ x => x) (fun _ x => x) h.pre
    (by rw [hp]; exact rdr_upd t v hv (fun _ x => x) h) h


theorem holder_of {s : St} (hA : InvA s) (t : Nat) (h : (s.pc t).holds = true) : s.mu = some t :=
  (hA.2 t).lock.mp h

theorem ch_stepT (s : St) (t : Nat) (m : Mon) (hA : InvA s) (h : ChInv s m) :
    ∃ m', m.run (chEvT true s t) = some m' ∧ ChInv (stepT s t) m' := by
  have g := hA.1
  have t0 := hA.2 t
  cases hpc : s.pc t with
  | idle => exact ⟨m, by simp [chEvT, hpc, Mon.run], by simp only [stepT, hpc]; exact h⟩
  | load0 k =>
    refine ⟨acqM m t stateObj, by simp only [chEvT, hpc, ↓reduceIte]; exact run_acq _ _ _, ?_⟩
    simp only [stepT, hpc]
    split
    · exact ch_acq_plain h t _ (not_reader_of (by intro x; cases x) (by intro T x; cases x)) _
    · next hne =>
      have hs := g.nn hne
      refine ChInv_frame (s := s) (m := m) rfl rfl rfl (acq_w m t _) (fun _ x => x) (pre_acq h t _) ?_ h
      intro _ u hu
      by_cases e : u = t
      · subst e; exact acq_get _ _ _ (h.pub hs hne)
      · simp only [upd_other _ _ _ _ e] at hu; exact acq_w _ _ _ _ (h.rdr hs u hu)
  | iLock k =>
    simp only [stepT, chEvT, hpc]
    cases hmu : s.mu with
    | some x => exact ⟨m, by simp [Mon.run], h⟩
    | none =>
      refine ⟨acqM m t muObj, run_acq _ _ _, ?_⟩
      refine ⟨pre_acq h t _, ?_, ?_, ?_, ?_⟩
      · intro a x hx; cases hx; exact acq_get _ _ _ (h.free a hmu)
      · intro _ x; cases x
      · intro a b; exact h.pub a b
      · exact rdr_upd (m := m) t _ (not_reader_of (by intro x; cases x) (by intro T x; cases x)) (acq_w m t _) h
  | iCheck k =>
    refine ⟨m, by simp [chEvT, hpc, Mon.run], ?_⟩
    simp only [stepT, hpc]
    split
    · exact ch_noev (s := s) h t _ (not_reader_of (by intro x; cases x) (by intro T x; cases x)) rfl rfl rfl rfl
    · exact ch_noev (s := s) h t _ (not_reader_of (by intro x; cases x) (by intro T x; cases x)) rfl rfl rfl rfl
  | iMake k =>
    have hf := t0.facts; rw [hpc] at hf; simp only [pcFacts] at hf
    have hmu := holder_of hA t (by rw [hpc]; rfl)
    refine ⟨wrM t, by simp only [chEvT, hpc]; exact run_wr _ _ (h.pre hf.2 t).2, ?_⟩
    simp only [stepT, hpc]
    refine ⟨(by intro x; cases x), ?_, ?_, ?_, ?_⟩
    · intro _ x hx; have : s.mu = some x := hx; rw [hmu] at this; cases this; simp [wrM]
    · intro _ x; have : s.mu = none := x; rw [hmu] at this; cases this
    · intro _ x; exact absurd hf.1 x
    · intro _ u hu
      by_cases e : u = t
      · subst e; simp only [upd_same] at hu; rcases hu with x | ⟨T, x⟩ <;> cases x
      · simp only [upd_other _ _ _ _ e] at hu
        have hfu := (hA.2 u).facts
        rcases hu with x | ⟨T, x⟩ <;> rw [x] at hfu <;> simp only [pcFacts] at hfu <;> rw [hf.2] at hfu <;> cases hfu
  | iStore k =>
    have hf := t0.facts; rw [hpc] at hf; simp only [pcFacts] at hf
    have hmu := holder_of hA t (by rw [hpc]; rfl)
    have hs : s.closeChan.isSome = true := by rw [hf.2]; rfl
    refine ⟨relM m t stateObj, by simp only [chEvT, hpc]; exact run_rel _ _ _, ?_⟩
    simp only [stepT, hpc]
    refine ⟨?_, ?_, ?_, ?_, ?_⟩
    · intro x; have : s.closeChan = none := x; rw [this] at hs; cases hs
    · intro a x hx; exact h.holder a x hx
    · intro a x; exact rel_c _ _ _ _ (h.free a x)
    · intro _ _; exact rel_put _ _ _ (h.holder hs t hmu)
    · exact rdr_upd (m := m) t _ (not_reader_of (by intro x; cases x) (by intro T x; cases x)) (fun _ x => x) h
  | iUnlock k =>
    have hf := t0.facts; rw [hpc] at hf; simp only [pcFacts] at hf
    have hmu := holder_of hA t (by rw [hpc]; rfl)
    refine ⟨relM m t muObj, by simp only [chEvT, hpc]; exact run_rel _ _ _, ?_⟩
    simp only [stepT, hpc]
    refine ⟨?_, ?_, ?_, ?_, ?_⟩
    · intro x; have : s.closeChan = none := x; rw [this] at hf; cases hf
    · intro _ x hx; cases hx
    · intro _ _; exact rel_put _ _ _ (h.holder hf t hmu)
    · intro a b; exact rel_c _ _ _ _ (h.pub a b)
    · intro a u hu
      by_cases e : u = t
      · subst e; exact h.holder hf u hmu
      · simp only [upd_other _ _ _ _ e] at hu; exact h.rdr a u hu
  | cRead =>
    have hf := t0.facts; rw [hpc] at hf; simp only [pcFacts] at hf
    have hw := h.rdr hf t (by rw [hpc]; exact Or.inl rfl)
    refine ⟨rdM m t, by simp only [chEvT, hpc]; exact run_rd _ _ hw, ?_⟩
    simp only [stepT, hpc]
    refine ChInv_frame (s := s) (m := m) rfl rfl rfl (fun _ x => x) (fun _ x => x) ?_ ?_ h
    · intro x; rw [x] at hf; cases hf
    · exact rdr_upd (m := m) t _ (not_reader_of (by intro x; cases x) (by intro T x; cases x)) (fun _ x => x) h
  | wTimer T =>
    have hf := t0.facts; rw [hpc] at hf; simp only [pcFacts] at hf
    have hw := h.rdr hf t (by rw [hpc]; exact Or.inr ⟨T, rfl⟩)
    refine ⟨rdM m t, by simp only [chEvT, hpc]; exact run_rd _ _ hw, ?_⟩
    simp only [stepT, hpc]
    refine ChInv_frame (s := s) (m := m) rfl rfl rfl (fun _ x => x) (fun _ x => x) ?_ ?_ h
    · intro x; rw [x] at hf; cases hf
    · exact rdr_upd (m := m) t _ (not_reader_of (by intro x; cases x) (by intro T x; cases x)) (fun _ x => x) h
  | wSel ch st T =>
    refine ⟨m, by simp [chEvT, hpc, Mon.run], ?_⟩
    simp only [stepT, hpc]
    split
    · exact ch_noev (s := s) h t _ (not_reader_of (by intro x; cases x) (by intro T x; cases x)) rfl rfl rfl rfl
    · exact h
  | isc =>
    refine ⟨acqM m t stateObj, by simp only [chEvT, hpc]; exact run_acq _ _ _, ?_⟩
    simp only [stepT, hpc]
    exact ChInv_frame (s := s) (m := m) rfl rfl rfl (acq_w m t _) (fun _ x => x) (pre_acq h t _)
      (rdr_upd (m := m) t _ (not_reader_of (by intro x; cases x) (by intro T x; cases x)) (acq_w m t _) h) h
  | clLoad cb =>
    refine ⟨acqM m t stateObj, by simp only [chEvT, hpc]; exact run_acq _ _ _, ?_⟩
    simp only [stepT, hpc]
    split
    · exact ch_acq_plain h t _ (not_reader_of (by intro x; cases x) (by intro T x; cases x)) _
    · exact ch_acq_plain h t _ (not_reader_of (by intro x; cases x) (by intro T x; cases x)) _
  | clLock cb =>
    simp only [stepT, chEvT, hpc]
    cases hmu : s.mu with
    | some x => exact ⟨m, by simp [Mon.run], h⟩
    | none =>
      refine ⟨acqM m t muObj, run_acq _ _ _, ?_⟩
      refine ⟨pre_acq h t _, ?_, ?_, ?_, ?_⟩
      · intro a x hx; cases hx; exact acq_get _ _ _ (h.free a hmu)
      · intro _ x; cases x
      · intro a b; exact h.pub a b
      · exact rdr_upd (m := m) t _ (not_reader_of (by intro x; cases x) (by intro T x; cases x)) (acq_w m t _) h
  | clCheck cb =>
    refine ⟨m, by simp [chEvT, hpc, Mon.run], ?_⟩
    simp only [stepT, hpc]
    split
    · exact ch_noev (s := s) h t _ (not_reader_of (by intro x; cases x) (by intro T x; cases x)) rfl rfl rfl rfl
    · exact ch_noev (s := s) h t _ (not_reader_of (by intro x; cases x) (by intro T x; cases x)) rfl rfl rfl rfl
  | clClose cb =>
    have hf := t0.facts; rw [hpc] at hf; simp only [pcFacts] at hf
    have hmu := holder_of hA t (by rw [hpc]; rfl)
    have hnr : ¬ isReader (if cb = true then Pc.clCbStart else Pc.clStore none) := by
      cases cb <;> exact not_reader_of (by intro x; cases x) (by intro T x; cases x)
    by_cases hst : s.state = wcInitialized
    · have hch := g.ini hst
      have hs : s.closeChan.isSome = true := by rw [hch]; rfl
      have hw := h.holder hs t hmu
      refine ⟨rdM m t, by simp only [chEvT, hpc, hst, ↓reduceIte]; exact run_rd _ _ hw, ?_⟩
      simp only [stepT, hpc, hst, hch, ↓reduceIte]
      split
      · refine ChInv_frame (s := s) (m := m) (by simp [hch]) rfl (by simp [hst]) (fun _ x => x) (fun _ x => x) ?_ ?_ h
        · intro x; rw [x] at hs; cases hs
        · exact rdr_upd (m := m) t _ (not_reader_of (by intro x; cases x) (by intro T x; cases x)) (fun _ x => x) h
      · refine ChInv_frame (s := s) (m := m) (by simp [hch]) rfl (by simp [hst]) (fun _ x => x) (fun _ x => x) ?_ ?_ h
        · intro x; rw [x] at hs; cases hs
        · exact rdr_upd (m := m) t _ hnr (fun _ x => x) h
    · have hnew : s.state = wcNew := by
        rcases g.dom with a | a | a
        · exact a
        · exact absurd a hst
        · exact absurd a hf.1
      have hcn : s.closeChan = none := by
        cases hc : s.closeChan with
        | none => rfl
        | some c =>
          have := t0.new2 hmu hnew (by rw [hc]; rfl)
          rw [hpc] at this; cases this
      refine ⟨wrM t, by simp only [chEvT, hpc, hst, ↓reduceIte]; exact run_wr _ _ (h.pre hcn t).2, ?_⟩
      simp only [stepT, hpc, hst, ↓reduceIte]
      refine ⟨(by intro x; cases x), ?_, ?_, ?_, ?_⟩
      · intro _ x hx; have : s.mu = some x := hx; rw [hmu] at this; cases this; simp [wrM]
      · intro _ x; have : s.mu = none := x; rw [hmu] at this; cases this
      · intro _ x; exact absurd hnew x
      · intro _ u hu
        by_cases e : u = t
        · subst e; simp only [upd_same] at hu; exact absurd hu hnr
        · simp only [upd_other _ _ _ _ e] at hu
          have hfu := (hA.2 u).facts
          rcases hu with x | ⟨T, x⟩ <;> rw [x] at hfu <;> simp only [pcFacts] at hfu <;> rw [hcn] at hfu <;> cases hfu
  | clCbStart =>
    refine ⟨m, by simp [chEvT, hpc, Mon.run], ?_⟩
    simp only [stepT, hpc]
    exact ch_noev (s := s) h t _ (not_reader_of (by intro x; cases x) (by intro T x; cases x)) rfl rfl rfl rfl
  | clCbRun => exact ⟨m, by simp [chEvT, hpc, Mon.run], by simp only [stepT, hpc]; exact h⟩
  | clStore r =>
    have hf := t0.facts; rw [hpc] at hf; simp only [pcFacts] at hf
    have hmu := holder_of hA t (by rw [hpc]; rfl)
    have hs : s.closeChan.isSome = true := by
      obtain ⟨c, hc, _⟩ := g.dn hf.2; rw [hc]; rfl
    refine ⟨relM m t stateObj, by simp only [chEvT, hpc]; exact run_rel _ _ _, ?_⟩
    simp only [stepT, hpc]
    refine ⟨?_, ?_, ?_, ?_, ?_⟩
    · intro x; have : s.closeChan = none := x; rw [this] at hs; cases hs
    · intro a x hx; exact h.holder a x hx
    · intro a x; exact rel_c _ _ _ _ (h.free a x)
    · intro _ _; exact rel_put _ _ _ (h.holder hs t hmu)
    · exact rdr_upd (m := m) t _ (not_reader_of (by intro x; cases x) (by intro T x; cases x)) (fun _ x => x) h
  | clUnlock r =>
    have hf := t0.facts; rw [hpc] at hf; simp only [pcFacts] at hf
    have hmu := holder_of hA t (by rw [hpc]; rfl)
    have hs : s.closeChan.isSome = true := g.nn (by rw [hf]; decide)
    refine ⟨relM m t muObj, by simp only [chEvT, hpc]; exact run_rel _ _ _, ?_⟩
    simp only [stepT, hpc]
    refine ⟨?_, ?_, ?_, ?_, ?_⟩
    · intro x; have : s.closeChan = none := x; rw [this] at hs; cases hs
    · intro _ x hx; cases hx
    · intro _ _; exact rel_put _ _ _ (h.holder hs t hmu)
    · intro a b; exact rel_c _ _ _ _ (h.pub a b)
    · exact rdr_upd (m := m) t _ (not_reader_of (by intro x; cases x) (by intro T x; cases x)) (fun _ x => x) h
  | clRet r =>
    refine ⟨m, by simp [chEvT, hpc, Mon.run], ?_⟩
    simp only [stepT, hpc]
    exact ch_noev (s := s) h t _ (not_reader_of (by intro x; cases x) (by intro T x; cases x)) rfl rfl rfl rfl


theorem ch_step (s : St) (a : Act) (m : Mon) (hA : InvA s) (h : ChInv s m) :
    ∃ m', m.run (chEv true s a) = some m' ∧ ChInv (step s a) m' := by
  have nr : ∀ v : Pc, v ≠ .cRead → (∀ T, v ≠ .wTimer T) → ¬ isReader v := fun v => not_reader_of
  cases a with
  | step t => exact ch_stepT s t m hA h
  | invoke t call =>
    refine ⟨m, by simp [chEv, Mon.run], ?_⟩
    simp only [step]
    split
    · cases call <;>
        exact ch_noev (s := s) h t _ (not_reader_of (by intro x; cases x) (by intro T x; cases x)) rfl rfl rfl rfl
    · exact h
  | cbEnd t r =>
    refine ⟨m, by simp [chEv, Mon.run], ?_⟩
    simp only [step]
    split
    · exact ch_noev (s := s) h t _ (not_reader_of (by intro x; cases x) (by intro T x; cases x)) rfl rfl rfl rfl
    · exact h
  | timeout t =>
    refine ⟨m, by simp [chEv, Mon.run], ?_⟩
    simp only [step]
    split
    · split
      · exact ch_noev (s := s) h t _ (not_reader_of (by intro x; cases x) (by intro T x; cases x)) rfl rfl rfl rfl
      · exact h
    · exact h
  | tick d =>
    refine ⟨m, by simp [chEv, Mon.run], ?_⟩
    simp only [step]
    split
    · exact ⟨h.pre, h.holder, h.free, h.pub, h.rdr⟩
    · exact h

theorem init_chInv : ChInv init Mon.init := by
  refine ⟨?_, ?_, ?_, ?_, ?_⟩
  · intro _ t; simp [Mon.init]
  · intro a; cases a
  · intro a; cases a
  · intro a; cases a
  · intro a; cases a

theorem ch_run (acts : List Act) : ∀ (s : St) (m : Mon), InvA s → ChInv s m →
    ∃ m', m.run (closeChanEventsG true s acts) = some m' ∧ ChInv (run s acts) m' := by
  induction acts with
  | nil => intro s m _ h; exact ⟨m, rfl, h⟩
  | cons a as ih =>
    intro s m hA h
    obtain ⟨m1, h1, hI1⟩ := ch_step s a m hA h
    obtain ⟨m2, h2, hI2⟩ := ih (step s a) m1 (step_invA s a hA) hI1
    refine ⟨m2, ?_, hI2⟩
    simp only [closeChanEventsG]
    rw [Got.Lemmas.Discipline.run_append, h1]; simpa using h2

/-- Every execution of the WaitClose LTS (all goroutine counts, programs, interleavings, callback behaviours) induces a
    `closeChan` trace that the discipline monitor accepts. -/
theorem closeChan_accepted (acts : List Act) : accepts (closeChanEvents init acts) = true := by
  obtain ⟨m, h, _⟩ := ch_run acts init Mon.init init_invA init_chInv
  simp [accepts, closeChanEvents, h]

theorem closeChan_raceFree (acts : List Act) : RaceFree (closeChanEvents init acts) :=
  accepts_raceFree _ (closeChan_accepted acts)

/-! ## state: every plain read and every (atomic) write happens inside the mutex — Protocol C -/

theorem st_stepT (s : St) (t : Nat) (m : Mon) (hA : InvA s) (h : MuInv ⟨s.mu⟩ m) :
    ∃ m', m.run (stEvT false s t) = some m' ∧ MuInv ⟨(stepT s t).mu⟩ m' := by
  have rd : (s.pc t).holds = true → ∃ m', m.run [.rd t] = some m' ∧ MuInv ⟨s.mu⟩ m' := by
    intro hh
    have hmu := holder_of hA t hh
    exact mu_step (s := ⟨s.mu⟩) (a := .read t) h (by simp [MuState.step, hmu])
  have wr : (s.pc t).holds = true → ∃ m', m.run [.wr t] = some m' ∧ MuInv ⟨s.mu⟩ m' := by
    intro hh
    have hmu := holder_of hA t hh
    exact mu_step (s := ⟨s.mu⟩) (a := .write t) h (by simp [MuState.step, hmu])
  have ul : (s.pc t).holds = true → ∃ m', m.run [.rel t muObj] = some m' ∧ MuInv ⟨none⟩ m' := by
    intro hh
    have hmu := holder_of hA t hh
    exact mu_step (s := ⟨s.mu⟩) (a := .unlock t) h (by simp [MuState.step, hmu]; rfl)
  have lk : s.mu = none → ∃ m', m.run [.acq t muObj] = some m' ∧ MuInv ⟨some t⟩ m' := by
    intro hmu
    exact mu_step (s := ⟨s.mu⟩) (a := .lock t) h (by simp [MuState.step, hmu]; rfl)
  cases hpc : s.pc t with
  | idle => exact ⟨m, by simp [stEvT, hpc, Mon.run], by simp only [stepT, hpc]; exact h⟩
  | load0 k =>
    refine ⟨m, by simp [stEvT, hpc, Mon.run], ?_⟩
    simp only [stepT, hpc]; split <;> exact h
  | iLock k =>
    simp only [stepT, stEvT, hpc]
    cases hmu : s.mu with
    | some x => refine ⟨m, by simp [Mon.run], ?_⟩; simp only [hmu] at h ⊢; exact h
    | none => exact lk hmu
  | iCheck k =>
    obtain ⟨m', h1, h2⟩ := rd (by rw [hpc]; rfl)
    refine ⟨m', by simp only [stEvT, hpc]; exact h1, ?_⟩
    simp only [stepT, hpc]; split <;> exact h2
  | iMake k => exact ⟨m, by simp [stEvT, hpc, Mon.run], by simp only [stepT, hpc]; exact h⟩
  | iStore k =>
    obtain ⟨m', h1, h2⟩ := wr (by rw [hpc]; rfl)
    exact ⟨m', by simp only [stEvT, hpc]; exact h1, by simp only [stepT, hpc]; exact h2⟩
  | iUnlock k =>
    obtain ⟨m', h1, h2⟩ := ul (by rw [hpc]; rfl)
    exact ⟨m', by simp only [stEvT, hpc]; exact h1, by simp only [stepT, hpc]; exact h2⟩
  | cRead => exact ⟨m, by simp [stEvT, hpc, Mon.run], by simp only [stepT, hpc]; exact h⟩
  | wTimer T => exact ⟨m, by simp [stEvT, hpc, Mon.run], by simp only [stepT, hpc]; exact h⟩
  | wSel ch st T =>
    refine ⟨m, by simp [stEvT, hpc, Mon.run], ?_⟩
    simp only [stepT, hpc]; split <;> exact h
  | isc => exact ⟨m, by simp [stEvT, hpc, Mon.run], by simp only [stepT, hpc]; exact h⟩
  | clLoad cb =>
    refine ⟨m, by simp [stEvT, hpc, Mon.run], ?_⟩
    simp only [stepT, hpc]; split <;> exact h
  | clLock cb =>
    simp only [stepT, stEvT, hpc]
    cases hmu : s.mu with
    | some x => refine ⟨m, by simp [Mon.run], ?_⟩; simp only [hmu] at h ⊢; exact h
    | none => exact lk hmu
  | clCheck cb =>
    obtain ⟨m', h1, h2⟩ := rd (by rw [hpc]; rfl)
    refine ⟨m', by simp only [stEvT, hpc]; exact h1, ?_⟩
    simp only [stepT, hpc]; split <;> exact h2
  | clClose cb =>
    obtain ⟨m', h1, h2⟩ := rd (by rw [hpc]; rfl)
    refine ⟨m', by simp only [stEvT, hpc]; exact h1, ?_⟩
    simp only [stepT, hpc]
    (repeat' split) <;> exact h2
  | clCbStart => exact ⟨m, by simp [stEvT, hpc, Mon.run], by simp only [stepT, hpc]; exact h⟩
  | clCbRun => exact ⟨m, by simp [stEvT, hpc, Mon.run], by simp only [stepT, hpc]; exact h⟩
  | clStore r =>
    obtain ⟨m', h1, h2⟩ := wr (by rw [hpc]; rfl)
    exact ⟨m', by simp only [stEvT, hpc]; exact h1, by simp only [stepT, hpc]; exact h2⟩
  | clUnlock r =>
    obtain ⟨m', h1, h2⟩ := ul (by rw [hpc]; rfl)
    exact ⟨m', by simp only [stEvT, hpc]; exact h1, by simp only [stepT, hpc]; exact h2⟩
  | clRet r => exact ⟨m, by simp [stEvT, hpc, Mon.run], by simp only [stepT, hpc]; exact h⟩

theorem st_step (s : St) (a : Act) (m : Mon) (hA : InvA s) (h : MuInv ⟨s.mu⟩ m) :
    ∃ m', m.run (stEv false s a) = some m' ∧ MuInv ⟨(step s a).mu⟩ m' := by
  cases a with
  | step t => exact st_stepT s t m hA h
  | invoke t call =>
    refine ⟨m, by simp [stEv, Mon.run], ?_⟩
    simp only [step]; split
    · cases call <;> exact h
    · exact h
  | cbEnd t r => refine ⟨m, by simp [stEv, Mon.run], ?_⟩; simp only [step]; split <;> exact h
  | timeout t =>
    refine ⟨m, by simp [stEv, Mon.run], ?_⟩
    simp only [step]; split
    · split <;> exact h
    · exact h
  | tick d => refine ⟨m, by simp [stEv, Mon.run], ?_⟩; simp only [step]; split <;> exact h

theorem st_run (acts : List Act) : ∀ (s : St) (m : Mon), InvA s → MuInv ⟨s.mu⟩ m →
    ∃ m', m.run (stateEventsG false s acts) = some m' ∧ MuInv ⟨(run s acts).mu⟩ m' := by
  induction acts with
  | nil => intro s m _ h; exact ⟨m, rfl, h⟩
  | cons a as ih =>
    intro s m hA h
    obtain ⟨m1, h1, hI1⟩ := st_step s a m hA h
    obtain ⟨m2, h2, hI2⟩ := ih (step s a) m1 (step_invA s a hA) hI1
    refine ⟨m2, ?_, hI2⟩
    simp only [stateEventsG]
    rw [Got.Lemmas.Discipline.run_append, h1]; simpa using h2

/-- The plain reads of `state` (all inside the mutex) against its atomic writes (all inside the mutex): accepted. -/
theorem state_accepted (acts : List Act) : accepts (stateEvents init acts) = true := by
  obtain ⟨m, h, _⟩ := st_run acts init Mon.init init_invA (show MuInv ⟨none⟩ Mon.init from mu_init)
  simp [accepts, stateEvents, h]

theorem state_raceFree (acts : List Act) : RaceFree (stateEvents init acts) :=
  accepts_raceFree _ (state_accepted acts)

/-! ## negative controls (decide) -/

/-- goroutine 1 runs C() (lazy init: lock, check, make, store, unlock, read); goroutine 2 then runs C() on the fast path -/
def ctlActs : List Act :=
  [.invoke 1 .c, .step 1, .step 1, .step 1, .step 1, .step 1, .step 1, .step 1,
   .invoke 2 .c, .step 2, .step 2]

/-- with the code as it is, the trace of that execution is accepted … -/
theorem ctl_closeChan_ok : accepts (closeChanEventsG true init ctlActs) = true := by decide

/-- … if C() read closeChan without the preceding atomic load of `state`, goroutine 2's read is rejected (a race with
    goroutine 1's write) -/
theorem ctl_closeChan_noLoad_rejected : accepts (closeChanEventsG false init ctlActs) = false := by decide

theorem ctl_state_ok : accepts (stateEventsG false init ctlActs) = true := by decide

/-- if the fast path read `state` plainly, goroutine 2's read races with goroutine 1's store -/
theorem ctl_state_fastPlain_rejected : accepts (stateEventsG true init ctlActs) = false := by decide

end Got.Lemmas.DiscWaitClose
