import Got.Lemmas.DelayedHeap
/-
Invariants of the delayed-queue model (Got.Model.Delayed) used by Props/C10.
-/
namespace Got.Model.Delayed
open Got.Model.DelayedHeap

def rkey (r : Req) : Int := r.trigger

theorem less_iff (x y : Req) : less x y = true ↔ rkey x < rkey y := by simp [less, rkey]

theorem tickNs_pos : 0 < tickNs := by decide
theorem reqCap_pos : 0 < reqCap := by decide

/-- the request the loop has popped and is handing to its target queue -/
def inflight : LPc → List Req
  | .forwarding _ r => [r]
  | _ => []

/-- requests issued and not yet placed on their queue -/
def outstanding (s : State) : List Req := s.senders ++ s.reqChan ++ s.heap.toList ++ inflight s.lpc

/-! ### list helpers -/

theorem eraseIdx_perm {α : Type} : ∀ (l : List α) (i : Nat) (r : α), l[i]? = some r → (r :: l.eraseIdx i).Perm l
  | [], i, r, h => by simp at h
  | x :: xs, 0, r, h => by simp at h; subst h; simp
  | x :: xs, i + 1, r, h => by
    simp at h
    have := eraseIdx_perm xs i r h
    simp only [List.eraseIdx_cons_succ]
    exact (List.Perm.swap x r _).trans (this.cons x)

theorem heap_push_perm (h : Array Req) (r : Req) : (push less h r).toList.Perm (h.toList ++ [r]) := by
  have := push_perm less h r
  rw [Array.perm_iff_toList_perm] at this
  simpa using this

theorem heap_pop_perm (h : Array Req) (top : Req) (ht : h[0]? = some top) : ((pop less h).toList ++ [top]).Perm h.toList := by
  have h0 : 0 < h.size := by
    by_cases hs : 0 < h.size
    · exact hs
    · rw [Array.getElem?_eq_none (by omega)] at ht; cases ht
  rw [Array.getElem?_eq_getElem h0] at ht
  injection ht with ht
  have := pop_perm less h h0
  rw [Array.perm_iff_toList_perm] at this
  rw [ht] at this
  simpa using this

/-- the root of a heap is a minimal element -/
theorem heap_top_min (h : Array Req) (top : Req) (ht : h[0]? = some top) (hh : HeapN rkey h h.size) :
    ∀ r ∈ h.toList, top.trigger ≤ r.trigger := by
  intro r hr
  have h0 : 0 < h.size := by
    by_cases hs : 0 < h.size
    · exact hs
    · rw [Array.getElem?_eq_none (by omega)] at ht; cases ht
  rw [Array.getElem?_eq_getElem h0] at ht
  injection ht with ht
  rw [Array.mem_toList_iff, Array.mem_iff_getElem] at hr
  obtain ⟨k, hk, hkr⟩ := hr
  have := top_min rkey h h.size hh k hk
  rw [K_eq rkey h 0 h0, K_eq rkey h k hk, ht, hkr] at this
  exact this

/-! ### inversion of `step` -/

theorem step_enq {s s' : State} {i : Nat} (h : step s (.enq i) = some s') :
    ∃ r, s.senders[i]? = some r ∧ s.reqChan.length < reqCap ∧
      s' = { s with senders := s.senders.eraseIdx i, reqChan := s.reqChan ++ [r] } := by
  simp only [step] at h
  split at h <;> try contradiction
  rename_i r hr
  split at h <;> try contradiction
  rename_i hc
  injection h with h
  exact ⟨r, hr, hc, h.symm⟩

theorem step_pushReq {s s' : State} (h : step s .pushReq = some s') :
    ∃ r rest, s.lpc = .select ∧ s.reqChan = r :: rest ∧
      s' = { s with reqChan := rest, heap := push less s.heap r } := by
  simp only [step] at h
  split at h <;> try contradiction
  rename_i r rest hl hc
  injection h with h
  exact ⟨r, rest, hl, hc, h.symm⟩

theorem step_tickRecv {s s' : State} (h : step s .tickRecv = some s') :
    s.lpc = .select ∧ s.tickPending = true ∧ s' = { s with tickPending := false, lpc := .tickLoop s.now } := by
  simp only [step] at h
  split at h <;> try contradiction
  rename_i hl
  split at h <;> try contradiction
  rename_i hp
  injection h with h
  exact ⟨hl, hp, h.symm⟩

theorem step_tickTest {s s' : State} (h : step s .tickTest = some s') :
    ∃ ts, s.lpc = .tickLoop ts ∧
      ((s.heap[0]? = none ∧ s' = { s with lpc := .select }) ∨
       (∃ top, s.heap[0]? = some top ∧ top.trigger > (ts : Int) ∧ s' = { s with lpc := .select }) ∨
       (∃ top, s.heap[0]? = some top ∧ top.trigger ≤ (ts : Int) ∧
          s' = { s with heap := pop less s.heap, lpc := .forwarding ts top })) := by
  simp only [step] at h
  split at h <;> try contradiction
  rename_i ts hl
  refine ⟨ts, hl, ?_⟩
  split at h
  · rename_i hn
    injection h with h
    exact Or.inl ⟨hn, h.symm⟩
  · rename_i top ht
    split at h
    · rename_i hgt
      injection h with h
      exact Or.inr (Or.inl ⟨top, ht, hgt, h.symm⟩)
    · rename_i hgt
      injection h with h
      exact Or.inr (Or.inr ⟨top, ht, by omega, h.symm⟩)

theorem step_forward {s s' : State} (h : step s .forward = some s') :
    ∃ ts r, s.lpc = .forwarding ts r ∧ (s.q r.queue).length < s.qcap r.queue ∧
      s' = { s with q := updQ s.q r.queue (s.q r.queue ++ [r]), forwarded := s.forwarded ++ [(r, s.now)], lpc := .tickLoop ts } := by
  simp only [step] at h
  split at h <;> try contradiction
  rename_i ts r hl
  split at h <;> try contradiction
  rename_i hc
  injection h with h
  exact ⟨ts, r, hl, hc, h.symm⟩

theorem step_forwardDrop {s s' : State} (h : step s .forwardDrop = some s') :
    ∃ ts r, s.lpc = .forwarding ts r ∧ s.qclosed r.queue = true ∧
      s' = { s with dropped := s.dropped ++ [r], lpc := .tickLoop ts } := by
  simp only [step] at h
  split at h <;> try contradiction
  rename_i ts r hl
  split at h <;> try contradiction
  rename_i hc
  injection h with h
  exact ⟨ts, r, hl, hc, h.symm⟩

theorem step_closeQ {s s' : State} {q : Nat} (h : step s (.closeQ q) = some s') :
    s' = { s with qclosed := fun x => if x = q then true else s.qclosed x } := by
  simp only [step] at h
  injection h with h
  exact h.symm

theorem step_qRecv {s s' : State} {q : Nat} (h : step s (.qRecv q) = some s') :
    ∃ x rest, s.q q = x :: rest ∧ s' = { s with q := updQ s.q q rest } := by
  simp only [step] at h
  split at h <;> try contradiction
  rename_i x rest hq
  injection h with h
  exact ⟨x, rest, hq, h.symm⟩

theorem step_tickFire {s s' : State} (h : step s .tickFire = some s') :
    s.now = s.nextTick ∧ s' = { s with tickPending := true, nextTick := s.nextTick + tickNs } := by
  simp only [step] at h
  split at h <;> try contradiction
  rename_i hn
  injection h with h
  exact ⟨hn, h.symm⟩

theorem step_delay {s s' : State} {d : Nat} (h : step s (.delay d) = some s') :
    0 < d ∧ s.now + d ≤ s.nextTick ∧ loopEnabled s = false ∧ enqEnabled s = false ∧
      s' = { s with now := s.now + d, blockedEver := s.blockedEver || isForwarding s.lpc } := by
  simp only [step] at h
  split at h <;> try contradiction
  rename_i hc
  injection h with h
  exact ⟨hc.1, hc.2.1, hc.2.2.1, hc.2.2.2, h.symm⟩

theorem step_sendDelayed {s s' : State} {q : Nat} {d : Int} (h : step s (.sendDelayed q d) = some s') :
    s' = { s with senders := s.senders ++ [{ id := s.nextId, queue := q, trigger := (s.now : Int) + d, sent := s.now }],
                  nextId := s.nextId + 1 } := by
  simp only [step] at h
  injection h with h
  exact h.symm

/-! ### invariant A (unconditional) -/

/-- number of requests with id `a` in a list -/
def cP (a : Nat) (l : List Req) : Nat := l.countP (fun r => decide (r.id = a))

theorem cP_nil (a : Nat) : cP a [] = 0 := rfl
theorem cP_append (a : Nat) (l1 l2 : List Req) : cP a (l1 ++ l2) = cP a l1 + cP a l2 := by simp [cP]
theorem cP_cons (a : Nat) (r : Req) (l : List Req) : cP a (r :: l) = cP a l + if r.id = a then 1 else 0 := by
  simp [cP, List.countP_cons]
theorem cP_perm (a : Nat) {l1 l2 : List Req} (h : l1.Perm l2) : cP a l1 = cP a l2 := h.countP_eq _

def idCount (s : State) (a : Nat) : Nat :=
  cP a s.senders + cP a s.reqChan + cP a s.heap.toList + cP a (inflight s.lpc) + cP a (s.forwarded.map (·.1)) +
    cP a s.dropped

theorem ids_bump (c n a : Nat) (h : c = if a < n then 1 else 0) :
    c + (if n = a then 1 else 0) = if a < n + 1 then 1 else 0 := by
  split at h <;> split <;> split <;> omega

structure InvA (s : State) : Prop where
  heapOk : HeapN rkey s.heap s.heap.size
  grid : s.nextTick % tickNs = 0 ∧ s.now ≤ s.nextTick ∧ s.nextTick ≤ s.now + tickNs
  lpcOk : match s.lpc with
    | .select => True
    | .tickLoop ts => ts ≤ s.now
    | .forwarding ts r => ts ≤ s.now ∧ r.trigger ≤ (ts : Int) ∧ ∀ r' ∈ s.heap.toList, r.trigger ≤ r'.trigger
  fwdOk : ∀ x ∈ s.forwarded, x.1.trigger ≤ (x.2 : Int) ∧ x.2 ≤ s.now ∧ x.1.sent ≤ x.2
  ids : ∀ a, idCount s a = if a < s.nextId then 1 else 0
  sentLe : ∀ r ∈ outstanding s, r.sent ≤ s.now

theorem invA_init (qcap : Nat → Nat) : InvA (init qcap) := by
  constructor
  · intro k hk0 hk; simp [init] at hk
  · simp [init]
  · simp [init]
  · simp [init]
  · intro a; simp [idCount, init, inflight, cP]
  · simp [outstanding, init, inflight]

theorem invA_step {s s' : State} {a : Act} (h : InvA s) (hs : step s a = some s') : InvA s' := by
  cases a with
  | sendDelayed q d =>
    have := step_sendDelayed hs; subst this
    refine ⟨h.heapOk, h.grid, h.lpcOk, h.fwdOk, ?_, ?_⟩
    · intro a
      have := ids_bump _ _ _ (h.ids a)
      simp only [idCount, cP_append, cP_cons, cP_nil] at this ⊢
      rw [← this]; omega
    · intro r hr
      simp only [outstanding, List.mem_append, List.mem_singleton] at hr
      rcases hr with ((((hr | hr) | hr) | hr) | hr)
      · exact h.sentLe r (by simp [outstanding, hr])
      · subst hr; exact Nat.le_refl _
      · exact h.sentLe r (by simp [outstanding, hr])
      · exact h.sentLe r (by simp [outstanding, hr])
      · exact h.sentLe r (by simp [outstanding, hr])
  | enq i =>
    obtain ⟨r, hr, hc, rfl⟩ := step_enq hs
    have hp := eraseIdx_perm s.senders i r hr
    refine ⟨h.heapOk, h.grid, h.lpcOk, h.fwdOk, ?_, ?_⟩
    · intro a
      have := h.ids a
      have hcnt := cP_perm a hp
      simp only [idCount, cP_append, cP_cons, cP_nil] at this hcnt ⊢
      rw [← this]; omega
    · intro r' hr'
      simp only [outstanding, List.mem_append, List.mem_singleton] at hr'
      rcases hr' with (((hr' | (hr' | hr')) | hr') | hr')
      · exact h.sentLe r' (by simp [outstanding, List.mem_of_mem_eraseIdx hr'])
      · exact h.sentLe r' (by simp [outstanding, hr'])
      · subst hr'; exact h.sentLe r' (by simp [outstanding, List.mem_of_getElem? hr])
      · exact h.sentLe r' (by simp [outstanding, hr'])
      · exact h.sentLe r' (by simp [outstanding, hr'])
  | pushReq =>
    obtain ⟨r, rest, hl, hc, rfl⟩ := step_pushReq hs
    have hp := heap_push_perm s.heap r
    refine ⟨?_, h.grid, ?_, h.fwdOk, ?_, ?_⟩
    · have := push_heap rkey less less_iff s.heap r h.heapOk
      rw [push_size]; exact this
    · simp only [hl]
    · intro a
      have := h.ids a
      have hcnt := cP_perm a hp
      simp only [idCount, hc, cP_append, cP_cons, cP_nil] at this hcnt ⊢
      rw [← this]; omega
    · intro r' hr'
      simp only [outstanding, List.mem_append] at hr'
      rcases hr' with (((hr' | hr') | hr') | hr')
      · exact h.sentLe r' (by simp [outstanding, hr'])
      · exact h.sentLe r' (by simp [outstanding, hc, hr'])
      · have := (hp.mem_iff).1 hr'
        simp only [List.mem_append, List.mem_singleton] at this
        rcases this with this | this
        · exact h.sentLe r' (by simp [outstanding, this])
        · subst this; exact h.sentLe r' (by simp [outstanding, hc])
      · exact h.sentLe r' (by simp [outstanding, hr'])
  | tickRecv =>
    obtain ⟨hl, hp, rfl⟩ := step_tickRecv hs
    refine ⟨h.heapOk, h.grid, Nat.le_refl _, h.fwdOk, ?_, ?_⟩
    · intro a
      have := h.ids a
      simp only [idCount, hl, inflight] at this ⊢
      exact this
    · intro r hr
      apply h.sentLe r
      simp only [outstanding, hl, inflight] at hr ⊢
      exact hr
  | tickTest =>
    obtain ⟨ts, hl, hcase⟩ := step_tickTest hs
    have hlp := h.lpcOk
    rw [hl] at hlp
    rcases hcase with ⟨_, rfl⟩ | ⟨top, _, _, rfl⟩ | ⟨top, ht, hle, rfl⟩
    · refine ⟨h.heapOk, h.grid, trivial, h.fwdOk, ?_, ?_⟩
      · intro a
        have := h.ids a
        simp only [idCount, hl, inflight] at this ⊢
        exact this
      · intro r hr
        apply h.sentLe r
        simp only [outstanding, hl, inflight] at hr ⊢
        exact hr
    · refine ⟨h.heapOk, h.grid, trivial, h.fwdOk, ?_, ?_⟩
      · intro a
        have := h.ids a
        simp only [idCount, hl, inflight] at this ⊢
        exact this
      · intro r hr
        apply h.sentLe r
        simp only [outstanding, hl, inflight] at hr ⊢
        exact hr
    · have hp := heap_pop_perm s.heap top ht
      have hmin := heap_top_min s.heap top ht h.heapOk
      refine ⟨?_, h.grid, ?_, h.fwdOk, ?_, ?_⟩
      · have := pop_heap rkey less less_iff s.heap h.heapOk
        rw [pop_size]; exact this
      · refine ⟨hlp, hle, ?_⟩
        intro r' hr'
        exact hmin r' ((hp.mem_iff).1 (by simp [hr']))
      · intro a
        have := h.ids a
        have hcnt := cP_perm a hp
        simp only [idCount, hl, inflight, cP_append, cP_cons, cP_nil] at this hcnt ⊢
        rw [← this]; omega
      · intro r hr
        apply h.sentLe r
        simp only [outstanding, hl, inflight, List.mem_append, List.mem_singleton] at hr ⊢
        rcases hr with (((hr | hr) | hr) | hr)
        · simp [hr]
        · simp [hr]
        · have := (hp.mem_iff).1 (by simp [hr] : r ∈ (pop less s.heap).toList ++ [top])
          simp [this]
        · have := (hp.mem_iff).1 (by simp [hr] : r ∈ (pop less s.heap).toList ++ [top])
          simp [this]
  | forward =>
    obtain ⟨ts, r, hl, hc, rfl⟩ := step_forward hs
    have hlp := h.lpcOk
    rw [hl] at hlp
    refine ⟨h.heapOk, h.grid, hlp.1, ?_, ?_, ?_⟩
    · intro x hx
      simp only [List.mem_append, List.mem_singleton] at hx
      rcases hx with hx | hx
      · exact h.fwdOk x hx
      · subst hx
        refine ⟨?_, Nat.le_refl _, h.sentLe r (by simp [outstanding, hl, inflight])⟩
        have := hlp.2.1
        have h1 := hlp.1
        show r.trigger ≤ (s.now : Int)
        omega
    · intro a
      have := h.ids a
      simp only [idCount, hl, inflight, List.map_append, List.map_cons, List.map_nil,
        cP_append, cP_cons, cP_nil] at this ⊢
      rw [← this]; omega
    · intro r' hr'
      apply h.sentLe r'
      simp only [outstanding, hl, inflight, List.mem_append] at hr' ⊢
      rcases hr' with (((hr' | hr') | hr') | hr')
      · simp [hr']
      · simp [hr']
      · simp [hr']
      · simp at hr'
  | forwardDrop =>
    obtain ⟨ts, r, hl, hc, rfl⟩ := step_forwardDrop hs
    have hlp := h.lpcOk
    rw [hl] at hlp
    refine ⟨h.heapOk, h.grid, hlp.1, h.fwdOk, ?_, ?_⟩
    · intro a
      have := h.ids a
      simp only [idCount, hl, inflight, cP_append, cP_cons, cP_nil] at this ⊢
      rw [← this]; omega
    · intro r' hr'
      apply h.sentLe r'
      simp only [outstanding, hl, inflight, List.mem_append] at hr' ⊢
      rcases hr' with (((hr' | hr') | hr') | hr')
      · simp [hr']
      · simp [hr']
      · simp [hr']
      · simp at hr'
  | closeQ q =>
    have := step_closeQ hs; subst this
    exact ⟨h.heapOk, h.grid, h.lpcOk, h.fwdOk, h.ids, h.sentLe⟩
  | qRecv q =>
    obtain ⟨x, rest, hq, rfl⟩ := step_qRecv hs
    exact ⟨h.heapOk, h.grid, h.lpcOk, h.fwdOk, h.ids, h.sentLe⟩
  | tickFire =>
    obtain ⟨hn, rfl⟩ := step_tickFire hs
    refine ⟨h.heapOk, ?_, h.lpcOk, h.fwdOk, h.ids, h.sentLe⟩
    have := h.grid
    refine ⟨?_, ?_, ?_⟩
    · simp only; rw [Nat.add_mod, this.1]; simp
    · simp only; omega
    · simp only; omega
  | delay d =>
    obtain ⟨hd, hle, _, _, rfl⟩ := step_delay hs
    have hg := h.grid
    refine ⟨h.heapOk, ⟨hg.1, hle, by simp only; omega⟩, ?_, ?_, h.ids, ?_⟩
    · have := h.lpcOk
      cases hlpc : s.lpc with
      | select => trivial
      | tickLoop ts => rw [hlpc] at this; simp only at this ⊢; omega
      | forwarding ts r =>
        rw [hlpc] at this
        refine ⟨?_, this.2⟩
        show ts ≤ s.now + d
        have := this.1; omega
    · intro x hx
      have := h.fwdOk x hx
      exact ⟨this.1, by simp only; omega, this.2.2⟩
    · intro r hr
      have := h.sentLe r hr
      simp only; omega

theorem invA_run (qcap : Nat → Nat) (acts : List Act) : InvA (run qcap acts) := by
  unfold run
  suffices ∀ s, InvA s → InvA (acts.foldl stepD s) from this _ (invA_init qcap)
  induction acts with
  | nil => intro s h; exact h
  | cons a rest ih =>
    intro s h
    apply ih
    unfold stepD
    cases hs : step s a with
    | none => exact h
    | some s' => exact invA_step h hs

/-! ### invariant B: while the loop was never blocked on a full target queue -/

/-- the last tick instant whose processing is complete -/
def lastDone (s : State) : Int :=
  if s.lpc = .select ∧ s.tickPending = false then (s.nextTick : Int) - tickNs else (s.nextTick : Int) - 2 * tickNs

/-- r was not yet due at tick instant q, or was issued at/after it -/
def notOverdue (r : Req) (q : Int) : Prop := r.trigger > q ∨ (r.sent : Int) ≥ q

/-- placed at instant t: less than one tick after max(deadline, issue instant); or exactly one tick after an issue
    instant that coincides with a tick, the deadline being already reached then (the exact-coincidence case) -/
def lateOk (r : Req) (t : Nat) : Prop :=
  (t : Int) < r.trigger + tickNs ∨ (t : Int) < (r.sent : Int) + tickNs ∨
  (t = r.sent + tickNs ∧ r.sent % tickNs = 0 ∧ r.trigger ≤ (r.sent : Int))

structure InvB (s : State) : Prop where
  busy : (s.tickPending = true ∨ s.lpc ≠ .select) → s.now + tickNs = s.nextTick
  noPend : s.lpc ≠ .select → s.tickPending = false
  tsNow : match s.lpc with
    | .select => True
    | .tickLoop ts => ts = s.now
    | .forwarding ts _ => ts = s.now
  fresh : ∀ r ∈ s.senders ++ s.reqChan, r.sent = s.now
  due : ∀ r ∈ s.heap.toList ++ inflight s.lpc, notOverdue r (lastDone s)
  fwdLate : ∀ x ∈ s.forwarded, x.2 % tickNs = 0 ∧ lateOk x.1 x.2

theorem invB_init (qcap : Nat → Nat) : InvB (init qcap) := by
  constructor <;> simp [init, inflight]

theorem blocked_mono {s s' : State} {a : Act} (hs : step s a = some s') (hb : s'.blockedEver = false) :
    s.blockedEver = false := by
  cases a with
  | sendDelayed q d => have := step_sendDelayed hs; subst this; exact hb
  | enq i => obtain ⟨r, _, _, rfl⟩ := step_enq hs; exact hb
  | pushReq => obtain ⟨r, rest, _, _, rfl⟩ := step_pushReq hs; exact hb
  | tickRecv => obtain ⟨_, _, rfl⟩ := step_tickRecv hs; exact hb
  | tickTest =>
    obtain ⟨ts, _, hcase⟩ := step_tickTest hs
    rcases hcase with ⟨_, rfl⟩ | ⟨top, _, _, rfl⟩ | ⟨top, _, _, rfl⟩ <;> exact hb
  | forward => obtain ⟨ts, r, _, _, rfl⟩ := step_forward hs; exact hb
  | forwardDrop => obtain ⟨ts, r, _, _, rfl⟩ := step_forwardDrop hs; exact hb
  | closeQ q => have := step_closeQ hs; subst this; exact hb
  | qRecv q => obtain ⟨x, rest, _, rfl⟩ := step_qRecv hs; exact hb
  | tickFire => obtain ⟨_, rfl⟩ := step_tickFire hs; exact hb
  | delay d =>
    obtain ⟨_, _, _, _, rfl⟩ := step_delay hs
    simp only [Bool.or_eq_false_iff] at hb
    exact hb.1

theorem lastDone_le_now {s : State} (hA : InvA s) : lastDone s ≤ (s.now : Int) := by
  have := hA.grid
  have hT := tickNs_pos
  unfold lastDone
  split <;> omega

theorem invB_step {s s' : State} {a : Act} (hA : InvA s) (h : InvB s) (hs : step s a = some s')
    (hb : s'.blockedEver = false) : InvB s' := by
  have hT := tickNs_pos
  cases a with
  | sendDelayed q d =>
    have := step_sendDelayed hs; subst this
    refine ⟨h.busy, h.noPend, h.tsNow, ?_, h.due, h.fwdLate⟩
    intro r hr
    simp only [List.mem_append, List.mem_singleton] at hr
    rcases hr with ((hr | hr) | hr)
    · exact h.fresh r (by simp [hr])
    · subst hr; rfl
    · exact h.fresh r (by simp [hr])
  | enq i =>
    obtain ⟨r, hr, hc, rfl⟩ := step_enq hs
    refine ⟨h.busy, h.noPend, h.tsNow, ?_, h.due, h.fwdLate⟩
    intro r' hr'
    simp only [List.mem_append, List.mem_singleton] at hr'
    rcases hr' with (hr' | (hr' | hr'))
    · exact h.fresh r' (by simp [List.mem_of_mem_eraseIdx hr'])
    · exact h.fresh r' (by simp [hr'])
    · subst hr'; exact h.fresh r' (by simp [List.mem_of_getElem? hr])
  | pushReq =>
    obtain ⟨r, rest, hl, hc, rfl⟩ := step_pushReq hs
    have hp := heap_push_perm s.heap r
    refine ⟨h.busy, h.noPend, h.tsNow, ?_, ?_, h.fwdLate⟩
    · intro r' hr'
      simp only [List.mem_append] at hr'
      rcases hr' with (hr' | hr')
      · exact h.fresh r' (by simp [hr'])
      · exact h.fresh r' (by simp [hc, hr'])
    · intro r' hr'
      have hld : lastDone { s with reqChan := rest, heap := push less s.heap r } = lastDone s := rfl
      rw [hld]
      simp only [List.mem_append] at hr'
      rcases hr' with (hr' | hr')
      · have := (hp.mem_iff).1 hr'
        simp only [List.mem_append, List.mem_singleton] at this
        rcases this with this | this
        · exact h.due r' (by simp [this])
        · subst this
          right
          have hf := h.fresh r' (by simp [hc])
          have := lastDone_le_now hA
          omega
      · exact h.due r' (by simp [hr'])
  | tickRecv =>
    obtain ⟨hl, hp, rfl⟩ := step_tickRecv hs
    have hbusy := h.busy (Or.inl hp)
    refine ⟨fun _ => hbusy, fun _ => rfl, rfl, h.fresh, ?_, h.fwdLate⟩
    intro r hr
    have hld : lastDone { s with tickPending := false, lpc := .tickLoop s.now } = lastDone s := by
      simp [lastDone, hp]
    rw [hld]
    apply h.due r
    simp only [inflight, hl] at hr ⊢
    exact hr
  | tickTest =>
    obtain ⟨ts, hl, hcase⟩ := step_tickTest hs
    have hts := h.tsNow
    rw [hl] at hts
    simp only at hts
    have hbusy := h.busy (Or.inr (by rw [hl]; simp))
    have hnp := h.noPend (by rw [hl]; simp)
    rcases hcase with ⟨hn, rfl⟩ | ⟨top, ht, hgt, rfl⟩ | ⟨top, ht, hle, rfl⟩
    · refine ⟨?_, fun hne => absurd rfl hne, trivial, h.fresh, ?_, h.fwdLate⟩
      · intro hc
        rcases hc with hc | hc
        · rw [hnp] at hc; cases hc
        · exact absurd rfl hc
      · intro r hr
        have hsz : s.heap.size = 0 := by
          by_cases hz : s.heap.size = 0
          · exact hz
          · rw [Array.getElem?_eq_getElem (by omega)] at hn; cases hn
        have : s.heap.toList = [] := by
          have := Array.size_eq_zero_iff.1 hsz
          rw [this]
        simp [this, inflight] at hr
    · refine ⟨?_, fun hne => absurd rfl hne, trivial, h.fresh, ?_, h.fwdLate⟩
      · intro hc
        rcases hc with hc | hc
        · rw [hnp] at hc; cases hc
        · exact absurd rfl hc
      · intro r hr
        simp only [inflight, List.append_nil] at hr
        have hmin := heap_top_min s.heap top ht hA.heapOk r hr
        left
        have hld : lastDone { s with lpc := .select } = (s.nextTick : Int) - tickNs := by
          simp [lastDone, hnp]
        rw [hld]
        omega
    · have hp := heap_pop_perm s.heap top ht
      refine ⟨fun _ => hbusy, fun _ => hnp, hts, h.fresh, ?_, h.fwdLate⟩
      intro r hr
      have hld : lastDone { s with heap := pop less s.heap, lpc := .forwarding ts top } = lastDone s := by
        simp [lastDone, hl]
      rw [hld]
      apply h.due r
      simp only [inflight, hl, List.append_nil] at hr ⊢
      exact (hp.mem_iff).1 hr
  | forward =>
    obtain ⟨ts, r, hl, hc, rfl⟩ := step_forward hs
    have hts := h.tsNow
    rw [hl] at hts
    simp only at hts
    have hbusy := h.busy (Or.inr (by rw [hl]; simp))
    have hnp := h.noPend (by rw [hl]; simp)
    refine ⟨fun _ => hbusy, fun _ => hnp, hts, h.fresh, ?_, ?_⟩
    · intro r' hr'
      have hld : lastDone { s with q := updQ s.q r.queue (s.q r.queue ++ [r]), forwarded := s.forwarded ++ [(r, s.now)],
                                   lpc := .tickLoop ts } = lastDone s := by
        simp [lastDone, hl]
      rw [hld]
      apply h.due r'
      simp only [inflight, List.append_nil, List.mem_append] at hr' ⊢
      exact Or.inl hr'
    · intro x hx
      simp only [List.mem_append, List.mem_singleton] at hx
      rcases hx with hx | hx
      · exact h.fwdLate x hx
      · subst hx
        have hdue := h.due r (by simp [inflight, hl])
        have hld : lastDone s = (s.nextTick : Int) - 2 * tickNs := by simp [lastDone, hl]
        rw [hld] at hdue
        have hg := hA.grid
        have hmod : s.now % tickNs = 0 := by
          have := hg.1
          rw [← hbusy, Nat.add_mod_right] at this
          exact this
        refine ⟨hmod, ?_⟩
        show lateOk r s.now
        unfold lateOk
        rcases hdue with hdue | hdue
        · left; omega
        · by_cases hlt : (s.now : Int) < (r.sent : Int) + tickNs
          · right; left; exact hlt
          · by_cases htr : r.trigger ≤ (r.sent : Int)
            · right; right
              have heq : s.now = r.sent + tickNs := by omega
              refine ⟨heq, ?_, htr⟩
              rw [heq, Nat.add_mod_right] at hmod
              exact hmod
            · left; omega
  | forwardDrop =>
    obtain ⟨ts, r, hl, hc, rfl⟩ := step_forwardDrop hs
    have hts := h.tsNow
    rw [hl] at hts
    simp only at hts
    have hbusy := h.busy (Or.inr (by rw [hl]; simp))
    have hnp := h.noPend (by rw [hl]; simp)
    refine ⟨fun _ => hbusy, fun _ => hnp, hts, h.fresh, ?_, h.fwdLate⟩
    intro r' hr'
    have hld : lastDone { s with dropped := s.dropped ++ [r], lpc := .tickLoop ts } = lastDone s := by
      simp [lastDone, hl]
    rw [hld]
    apply h.due r'
    simp only [inflight, List.append_nil, List.mem_append] at hr' ⊢
    exact Or.inl hr'
  | closeQ q =>
    have := step_closeQ hs; subst this
    exact ⟨h.busy, h.noPend, h.tsNow, h.fresh, h.due, h.fwdLate⟩
  | qRecv q =>
    obtain ⟨x, rest, hq, rfl⟩ := step_qRecv hs
    exact ⟨h.busy, h.noPend, h.tsNow, h.fresh, h.due, h.fwdLate⟩
  | tickFire =>
    obtain ⟨hn, rfl⟩ := step_tickFire hs
    have hsel : s.lpc = .select := by
      by_cases hc : s.lpc = .select
      · exact hc
      · have := h.busy (Or.inr hc); omega
    have hnp : s.tickPending = false := by
      cases hc : s.tickPending with
      | false => rfl
      | true => have := h.busy (Or.inl hc); omega
    refine ⟨fun _ => by simp only; omega, fun hne => absurd hsel hne, h.tsNow, h.fresh, ?_, h.fwdLate⟩
    intro r hr
    have hld : lastDone { s with tickPending := true, nextTick := s.nextTick + tickNs } = lastDone s := by
      simp [lastDone, hsel, hnp]; omega
    rw [hld]
    exact h.due r hr
  | delay d =>
    obtain ⟨hd, hle, hloop, henq, rfl⟩ := step_delay hs
    simp only [Bool.or_eq_false_iff] at hb
    have hnf := hb.2
    have hsel : s.lpc = .select ∧ s.tickPending = false ∧ s.reqChan = [] := by
      cases hl : s.lpc with
      | select =>
        simp only [loopEnabled, hl, Bool.or_eq_false_iff, Bool.not_eq_false'] at hloop
        exact ⟨rfl, hloop.1, by simpa using hloop.2⟩
      | tickLoop ts => simp [loopEnabled, hl] at hloop
      | forwarding ts r => simp [isForwarding, hl] at hnf
    have hsend : s.senders = [] := by
      simp only [enqEnabled, hsel.2.2, List.length_nil, Bool.and_eq_false_iff, Bool.not_eq_false',
        decide_eq_false_iff_not] at henq
      rcases henq with henq | henq
      · simpa using henq
      · exact absurd reqCap_pos henq
    refine ⟨?_, fun hne => absurd hsel.1 hne, ?_, ?_, h.due, h.fwdLate⟩
    · intro hc
      rcases hc with hc | hc
      · rw [hsel.2.1] at hc; cases hc
      · exact absurd hsel.1 hc
    · show (match s.lpc with
        | .select => True
        | .tickLoop ts => ts = s.now + d
        | .forwarding ts _ => ts = s.now + d)
      rw [hsel.1]; trivial
    · intro r hr
      simp [hsend, hsel.2.2] at hr

/-! ### invariant C: deadline order (delays ≥ 0, loop never blocked) -/

/-- the action issues no negative delay -/
def NonNeg : Act → Prop
  | .sendDelayed _ d => 0 ≤ d
  | _ => True

structure InvC (s : State) : Prop where
  nn : ∀ r ∈ outstanding s, (r.sent : Int) ≤ r.trigger
  sorted : s.forwarded.Pairwise (fun x y => x.1.trigger ≤ y.1.trigger)
  below : ∀ x ∈ s.forwarded, ∀ r ∈ outstanding s, x.1.trigger ≤ r.trigger

theorem invC_init (qcap : Nat → Nat) : InvC (init qcap) := by
  constructor <;> simp [init, outstanding, inflight]

/-- steps that only move requests between the outstanding containers -/
theorem invC_of_subset {s s' : State} (h : InvC s) (hf : s'.forwarded = s.forwarded)
    (hsub : ∀ r ∈ outstanding s', r ∈ outstanding s) : InvC s' :=
  ⟨fun r hr => h.nn r (hsub r hr), by rw [hf]; exact h.sorted,
   fun x hx r hr => h.below x (by rw [hf] at hx; exact hx) r (hsub r hr)⟩

theorem invC_step {s s' : State} {a : Act} (hA : InvA s) (hB : InvB s) (h : InvC s) (hs : step s a = some s')
    (hnn : NonNeg a) : InvC s' := by
  cases a with
  | sendDelayed q d =>
    have := step_sendDelayed hs; subst this
    simp only [NonNeg] at hnn
    refine ⟨?_, h.sorted, ?_⟩
    · intro r hr
      simp only [outstanding, List.mem_append, List.mem_singleton] at hr
      rcases hr with ((((hr | hr) | hr) | hr) | hr)
      · exact h.nn r (by simp [outstanding, hr])
      · subst hr; simp only; omega
      · exact h.nn r (by simp [outstanding, hr])
      · exact h.nn r (by simp [outstanding, hr])
      · exact h.nn r (by simp [outstanding, hr])
    · intro x hx r hr
      have hfx := hA.fwdOk x hx
      simp only [outstanding, List.mem_append, List.mem_singleton] at hr
      rcases hr with ((((hr | hr) | hr) | hr) | hr)
      · exact h.below x hx r (by simp [outstanding, hr])
      · subst hr; simp only; omega
      · exact h.below x hx r (by simp [outstanding, hr])
      · exact h.below x hx r (by simp [outstanding, hr])
      · exact h.below x hx r (by simp [outstanding, hr])
  | enq i =>
    obtain ⟨r, hr, hc, rfl⟩ := step_enq hs
    apply invC_of_subset h
    · rfl
    · intro r' hr'
      simp only [outstanding, List.mem_append, List.mem_singleton] at hr' ⊢
      rcases hr' with (((hr' | (hr' | hr')) | hr') | hr')
      · simp [List.mem_of_mem_eraseIdx hr']
      · simp [hr']
      · subst hr'; simp [List.mem_of_getElem? hr]
      · simp [hr']
      · simp [hr']
  | pushReq =>
    obtain ⟨r, rest, hl, hc, rfl⟩ := step_pushReq hs
    have hp := heap_push_perm s.heap r
    apply invC_of_subset h
    · rfl
    · intro r' hr'
      simp only [outstanding, hc, List.mem_append, List.mem_cons] at hr' ⊢
      rcases hr' with (((hr' | hr') | hr') | hr')
      · simp [hr']
      · simp [hr']
      · have := (hp.mem_iff).1 hr'
        simp only [List.mem_append, List.mem_singleton] at this
        rcases this with this | this
        · simp [this]
        · simp [this]
      · simp [hr']
  | tickRecv =>
    obtain ⟨hl, hp, rfl⟩ := step_tickRecv hs
    apply invC_of_subset h
    · rfl
    · intro r hr
      simp only [outstanding, hl, inflight] at hr ⊢
      exact hr
  | tickTest =>
    obtain ⟨ts, hl, hcase⟩ := step_tickTest hs
    rcases hcase with ⟨_, rfl⟩ | ⟨top, _, _, rfl⟩ | ⟨top, ht, hle, rfl⟩
    · apply invC_of_subset h
      · rfl
      · intro r hr
        simp only [outstanding, hl, inflight] at hr ⊢
        exact hr
    · apply invC_of_subset h
      · rfl
      · intro r hr
        simp only [outstanding, hl, inflight] at hr ⊢
        exact hr
    · have hp := heap_pop_perm s.heap top ht
      apply invC_of_subset h
      · rfl
      · intro r hr
        simp only [outstanding, hl, inflight, List.mem_append, List.mem_singleton, List.append_nil] at hr ⊢
        rcases hr with (((hr | hr) | hr) | hr)
        · simp [hr]
        · simp [hr]
        · right; exact (hp.mem_iff).1 (by simp [hr])
        · right; exact (hp.mem_iff).1 (by simp [hr])
  | forward =>
    obtain ⟨ts, r, hl, hc, hs'⟩ := step_forward hs
    have hlp := hA.lpcOk
    rw [hl] at hlp
    have hrin : r ∈ outstanding s := by simp [outstanding, hl, inflight]
    have e1 : s'.forwarded = s.forwarded ++ [(r, s.now)] := by rw [hs']
    have e2 : outstanding s' = s.senders ++ s.reqChan ++ s.heap.toList ++ [] := by rw [hs']; rfl
    have hsub : ∀ r', r' ∈ outstanding s' → r' ∈ outstanding s := by
      intro r' hr'
      rw [e2] at hr'
      simp only [outstanding, hl, inflight, List.mem_append, List.append_nil] at hr' ⊢
      exact Or.inl hr'
    refine ⟨fun r' hr' => h.nn r' (hsub r' hr'), ?_, ?_⟩
    · rw [e1, List.pairwise_append]
      refine ⟨h.sorted, by simp, ?_⟩
      intro x hx y hy
      simp only [List.mem_singleton] at hy
      subst hy
      exact h.below x hx r hrin
    · intro x hx r' hr'
      rw [e1] at hx
      simp only [List.mem_append, List.mem_singleton] at hx
      rcases hx with hx | hx
      · exact h.below x hx r' (hsub r' hr')
      · subst hx
        show r.trigger ≤ r'.trigger
        rw [e2] at hr'
        simp only [List.mem_append, List.append_nil] at hr'
        rcases hr' with ((hr' | hr') | hr')
        · have hf := hB.fresh r' (by simp [hr'])
          have hn := h.nn r' (by simp [outstanding, hr'])
          have := hlp.1; have := hlp.2.1
          omega
        · have hf := hB.fresh r' (by simp [hr'])
          have hn := h.nn r' (by simp [outstanding, hr'])
          have := hlp.1; have := hlp.2.1
          omega
        · exact hlp.2.2 r' hr'
  | forwardDrop =>
    obtain ⟨ts, r, hl, hc, rfl⟩ := step_forwardDrop hs
    apply invC_of_subset h
    · rfl
    · intro r' hr'
      simp only [outstanding, hl, inflight, List.mem_append, List.append_nil] at hr' ⊢
      exact Or.inl hr'
  | closeQ q =>
    have := step_closeQ hs; subst this
    exact ⟨h.nn, h.sorted, h.below⟩
  | qRecv q =>
    obtain ⟨x, rest, hq, rfl⟩ := step_qRecv hs
    exact ⟨h.nn, h.sorted, h.below⟩
  | tickFire =>
    obtain ⟨hn, rfl⟩ := step_tickFire hs
    exact ⟨h.nn, h.sorted, h.below⟩
  | delay d =>
    obtain ⟨_, _, _, _, rfl⟩ := step_delay hs
    exact ⟨h.nn, h.sorted, h.below⟩

/-! ### the invariants along every run -/

theorem invB_foldl (acts : List Act) : ∀ s, InvA s → (s.blockedEver = false → InvB s) →
    (acts.foldl stepD s).blockedEver = false → InvB (acts.foldl stepD s) := by
  induction acts with
  | nil => intro s _ h hb; exact h hb
  | cons a rest ih =>
    intro s hA h hb
    simp only [List.foldl_cons] at hb ⊢
    unfold stepD at hb ⊢
    cases hs : step s a with
    | none => rw [hs] at hb; exact ih s hA h hb
    | some s' =>
      rw [hs] at hb
      exact ih s' (invA_step hA hs) (fun hb' => invB_step hA (h (blocked_mono hs hb')) hs hb') hb

theorem invB_run (qcap : Nat → Nat) (acts : List Act) (hb : (run qcap acts).blockedEver = false) :
    InvB (run qcap acts) :=
  invB_foldl acts _ (invA_init qcap) (fun _ => invB_init qcap) hb

theorem invC_foldl (acts : List Act) (hnn : ∀ a ∈ acts, NonNeg a) : ∀ s, InvA s →
    (s.blockedEver = false → InvB s ∧ InvC s) → (acts.foldl stepD s).blockedEver = false →
    InvC (acts.foldl stepD s) := by
  induction acts with
  | nil => intro s _ h hb; exact (h hb).2
  | cons a rest ih =>
    intro s hA h hb
    simp only [List.foldl_cons] at hb ⊢
    unfold stepD at hb ⊢
    have hnn' : ∀ a ∈ rest, NonNeg a := fun x hx => hnn x (by simp [hx])
    cases hs : step s a with
    | none => rw [hs] at hb; exact ih hnn' s hA h hb
    | some s' =>
      rw [hs] at hb
      refine ih hnn' s' (invA_step hA hs) (fun hb' => ?_) hb
      have h0 := h (blocked_mono hs hb')
      exact ⟨invB_step hA h0.1 hs hb', invC_step hA h0.1 h0.2 hs (hnn a (by simp))⟩

theorem invC_run (qcap : Nat → Nat) (acts : List Act) (hnn : ∀ a ∈ acts, NonNeg a)
    (hb : (run qcap acts).blockedEver = false) : InvC (run qcap acts) :=
  invC_foldl acts hnn _ (invA_init qcap) (fun _ => ⟨invB_init qcap, invC_init qcap⟩) hb

/-- requests still outstanding are never more than one tick past max(deadline, issue instant) -/
theorem outstanding_not_overdue {s : State} (hA : InvA s) (hB : InvB s) :
    ∀ r ∈ outstanding s, (s.now : Int) < r.trigger + tickNs ∨ (s.now : Int) ≤ (r.sent : Int) + tickNs := by
  intro r hr
  have hT := tickNs_pos
  have hg := hA.grid
  simp only [outstanding, List.mem_append] at hr
  have hfresh : r ∈ s.senders ++ s.reqChan → (s.now : Int) ≤ (r.sent : Int) + tickNs := by
    intro h; have := hB.fresh r h; omega
  have hld : (s.now : Int) - tickNs ≤ lastDone s := by
    unfold lastDone
    split
    · omega
    · rename_i hc
      have : s.tickPending = true ∨ s.lpc ≠ .select := by
        by_cases h1 : s.lpc = .select
        · left
          cases h2 : s.tickPending with
          | true => rfl
          | false => exact absurd ⟨h1, h2⟩ hc
        · right; exact h1
      have := hB.busy this
      omega
  rcases hr with (((hr | hr) | hr) | hr)
  · right; exact hfresh (by simp [hr])
  · right; exact hfresh (by simp [hr])
  all_goals
    have hd := hB.due r (by simp [hr])
    unfold notOverdue at hd
    rcases hd with hd | hd
    · left; omega
    · right; omega

end Got.Model.Delayed
