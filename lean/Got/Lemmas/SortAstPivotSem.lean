import Got.Lemmas.SortAstPivot
import Got.Lemmas.SortPivot
import Got.Lemmas.SortCost
/-
Translator tie of C15, part 2c: what the refinement `doPivot_runs` buys.  The generated term `doPivot_func`, run by the
MiniGoSort interpreter over the generated program `prog` (its callee medianOfThree_func resolved there), terminates for
every sufficiently large fuel with exactly the model's results and state — so the theorems about the model's `doPivot`
(three-zone partition post-condition for a strict weak order; permutation/pairing/index range and the comparison bound
for ANY less function) are theorems about the translated source.
-/
namespace Got.Lemmas.SortAst
open Got.Model.MiniGoSort Got.Model.Sort Got.Model.SortAst
open Got.Generated.AstSortxSort Got.Lemmas.Sort

variable {K V : Type}

/-- doPivot_func as translated, run in the generated program, returns the model's `(midlo, midhi)` and final state
    (both slices and the complete Less/Swap log) for every sufficiently large fuel -/
theorem doPivot_translated (less : LessFn K V) (lo hi : Nat) (h : lo + 3 ≤ hi) (hhi : hi < B62) (s : St K V) :
    ∃ f0, ∀ f, f0 ≤ f →
      doPivot_func.run (sortWorld less) prog f [(lo : Int), (hi : Int)] s =
        some ([(((doPivot less lo hi s).1 : Nat) : Int), (((doPivot less lo hi s).2.1 : Nat) : Int)],
          (doPivot less lo hi s).2.2) := by
  refine run_of_FnRuns rfl rfl ?_
  have hhi' := hhi
  unfold B62 at hhi'
  have e : List.map wrap [(lo : Int), (hi : Int)] = [(lo : Int), (hi : Int)] := by
    simp only [List.map]
    rw [wrap_eq (by omega) (by omega), wrap_eq (by omega) (by omega)]
  rw [e]
  exact doPivot_runs prog (by rfl) less lo hi h hhi s

/-- the translated doPivot_func with the standard less closure of a strict weak order, on a range of at least three
    elements inside the key slice: it terminates, returns `lo ≤ midlo < midhi ≤ hi`, and there is a pivot value `p`
    (found at `midlo`) such that `[lo,midlo)` is `≤ p`, `[midlo,midhi)` is equivalent to `p`, `[midhi,hi)` is `≥ p` -/
theorem doPivot_translated_post {lt : K → K → Bool} (sw : StrictWeak lt) (lo hi : Nat) (s : St K V)
    (h : lo + 3 ≤ hi) (hsz : hi ≤ s.keys.size) (hhi : hi < B62) :
    ∃ f0, ∀ f, f0 ≤ f → ∃ (mlo mhi : Nat) (s' : St K V),
      doPivot_func.run (sortWorld (stdLess lt)) prog f [(lo : Int), (hi : Int)] s = some ([(mlo : Int), (mhi : Int)], s') ∧
      lo ≤ mlo ∧ mlo < mhi ∧ mhi ≤ hi ∧
      ∃ p, s'.keys[mlo]? = some p ∧
        (∀ k x, lo ≤ k → k < mlo → s'.keys[k]? = some x → lt p x = false) ∧
        (∀ k x, mlo ≤ k → k < mhi → s'.keys[k]? = some x → lt p x = false ∧ lt x p = false) ∧
        (∀ k x, mhi ≤ k → k < hi → s'.keys[k]? = some x → lt x p = false) := by
  obtain ⟨f0, hrun⟩ := doPivot_translated (stdLess lt) lo hi h hhi s
  obtain ⟨_, b1, _, _, b4⟩ := doPivot_steps (stdLess lt) lo hi s h
  obtain ⟨p, hp, z1, z2, z3, hlt⟩ := doPivot_sem sw lo hi s h hsz
  exact ⟨f0, fun f hf => ⟨_, _, _, hrun f hf, b1, hlt, b4, p, hp, z1, z2, z3⟩⟩

/-- the translated doPivot_func with an ARBITRARY less function on a range `[lo,hi)` of at least three elements inside
    both slices terminates with `lo ≤ midlo < hi`, `lo ≤ midhi ≤ hi`; the (key, value) pairs at equal indices are
    permuted, both slices keep their length, nothing outside `[lo,hi)` is touched, every index passed to Less or Swap
    lies in `[lo,hi)` (the log only grows, by such events), and at most `2·(hi-lo) + 15` comparisons are made -/
theorem doPivot_translated_perm (less : LessFn K V) (lo hi : Nat) (s : St K V)
    (h : lo + 3 ≤ hi) (hbk : hi ≤ s.keys.size) (hbv : hi ≤ s.vals.size) (hhi : hi < B62) :
    ∃ f0, ∀ f, f0 ≤ f → ∃ (mlo mhi : Nat) (s' : St K V),
      doPivot_func.run (sortWorld less) prog f [(lo : Int), (hi : Int)] s = some ([(mlo : Int), (mhi : Int)], s') ∧
      lo ≤ mlo ∧ mlo < hi ∧ lo ≤ mhi ∧ mhi ≤ hi ∧ mlo ≤ mhi ∧
      (s'.keys.zip s'.vals).Perm (s.keys.zip s.vals) ∧
      s'.keys.size = s.keys.size ∧ s'.vals.size = s.vals.size ∧
      (∀ k, k < lo ∨ hi ≤ k → s'.keys[k]? = s.keys[k]? ∧ s'.vals[k]? = s.vals[k]?) ∧
      (∃ evs, s'.log = evs ++ s.log ∧ ∀ e ∈ evs, match e with
        | .less i j _ => lo ≤ i ∧ i < hi ∧ lo ≤ j ∧ j < hi
        | .swap i j => lo ≤ i ∧ i < hi ∧ lo ≤ j ∧ j < hi) ∧
      lessCount s'.log ≤ lessCount s.log + 2 * (hi - lo) + 15 := by
  obtain ⟨f0, hrun⟩ := doPivot_translated less lo hi h hhi s
  obtain ⟨st, b1, b2, b3, b4⟩ := doPivot_steps less lo hi s h
  obtain ⟨c1, c2⟩ := doPivot_cost less lo hi s h
  refine ⟨f0, fun f hf => ⟨_, _, _, hrun f hf, b1, b2, b3, b4, c2, st.zip_perm hbk hbv, st.sizes.1, st.sizes.2,
    st.outside, ?_, ?_⟩⟩
  · obtain ⟨evs, h1, h2⟩ := st.log
    refine ⟨evs, h1, fun e he => ?_⟩
    have := h2 e he
    cases e with
    | less i j r => exact this
    | swap i j => exact this
  · unfold cnt at c1
    split at c1 <;> omega

/-- non-vacuity: a concrete run of the generated term (pivot 5 ends at index 3; zones `[0,3)`, `[3,4)`, `[4,5)`) -/
example : (doPivot_func.run (sortWorld (stdLess (fun (x y : Int) => decide (x < y)))) prog 200 [0, 5]
    ({ keys := #[5, 3, 9, 1, 4], vals := #[0, 1, 2, 3, 4], log := [] } : St Int Nat)).map
      (fun r => (r.1, r.2.keys, r.2.vals, lessCount r.2.log)) =
    some ([3, 4], #[1, 3, 4, 5, 9], #[3, 1, 4, 0, 2], 6) := by decide

end Got.Lemmas.SortAst

/- `#print axioms` of the three theorems: [propext, Classical.choice, Quot.sound] -/
