import Got.Lemmas.SortBasic
/-
Strict weak orders, range predicates on the key slice, and how the standard less closure reads them.
-/
namespace Got.Lemmas.Sort
open Got.Model.Sort

variable {K V : Type}

/-- `lt` is a strict weak order: irreflexive, transitive, and incomparability is transitive -/
structure StrictWeak (lt : K → K → Bool) : Prop where
  irrefl : ∀ x, lt x x = false
  trans : ∀ x y z, lt x y = true → lt y z = true → lt x z = true
  incomp_trans : ∀ x y z, lt x y = false → lt y x = false → lt y z = false → lt z y = false →
    lt x z = false ∧ lt z x = false

namespace StrictWeak
variable {lt : K → K → Bool} (sw : StrictWeak lt)
include sw

theorem asymm {x y : K} (h : lt x y = true) : lt y x = false := by
  cases h' : lt y x with
  | false => rfl
  | true => have := sw.trans x y x h h'; rw [sw.irrefl] at this; exact this.symm

/-- `x ≤ y ≤ z → x ≤ z` where `x ≤ y` is `lt y x = false` -/
theorem le_trans {x y z : K} (h1 : lt y x = false) (h2 : lt z y = false) : lt z x = false := by
  cases hzx : lt z x with
  | false => rfl
  | true =>
    cases hxy : lt x y with
    | true => have := sw.trans z x y hzx hxy; rw [h2] at this; exact this.symm
    | false =>
      cases hyz : lt y z with
      | true => have := sw.trans y z x hyz hzx; rw [h1] at this; exact this.symm
      | false =>
        have := (sw.incomp_trans x y z hxy h1 hyz h2).2
        rw [hzx] at this; exact this

theorem le_of_lt {x y : K} (h : lt x y = true) : lt y x = false := sw.asymm h

theorem le_total (x y : K) : lt x y = false ∨ lt y x = false := by
  cases h : lt x y with
  | false => exact Or.inl rfl
  | true => exact Or.inr (sw.asymm h)

end StrictWeak

/-- all keys at indices in `[a,b)` satisfy `P` -/
def AllK (ks : Array K) (a b : Nat) (P : K → Prop) : Prop :=
  ∀ k x, a ≤ k → k < b → ks[k]? = some x → P x

/-- keys at indices in `[a,b)` are pairwise in order: no later key is less than an earlier one -/
def SortedOn (lt : K → K → Bool) (ks : Array K) (a b : Nat) : Prop :=
  ∀ i j x y, a ≤ i → i < j → j < b → ks[i]? = some x → ks[j]? = some y → lt y x = false

theorem stdLess_eq (lt : K → K → Bool) (s : St K V) (i j : Nat) (x y : K)
    (hx : s.keys[i]? = some x) (hy : s.keys[j]? = some y) : stdLess lt s i j = lt x y := by
  unfold stdLess; rw [hx, hy]

theorem getElem?_some_of_lt {α : Type} (xs : Array α) (i : Nat) (h : i < xs.size) : ∃ x, xs[i]? = some x :=
  ⟨xs[i], Array.getElem?_eq_getElem h⟩

theorem AllK.mono {ks : Array K} {a b a' b' : Nat} {P : K → Prop} (h : AllK ks a b P) (ha : a ≤ a') (hb : b' ≤ b) :
    AllK ks a' b' P := fun k x h1 h2 hx => h k x (by omega) (by omega) hx

theorem AllK.imp {ks : Array K} {a b : Nat} {P Q : K → Prop} (h : AllK ks a b P) (hpq : ∀ x, P x → Q x) :
    AllK ks a b Q := fun k x h1 h2 hx => hpq x (h k x h1 h2 hx)

/-- keys outside the range of the steps are unchanged, so range predicates on a disjoint range survive -/
theorem Steps.allK_disjoint {a b : Nat} {s t : St K V} (h : Steps a b s t) {a' b' : Nat} {P : K → Prop}
    (hd : b' ≤ a ∨ b ≤ a') (hP : AllK s.keys a' b' P) : AllK t.keys a' b' P := by
  intro k x h1 h2 hx
  rw [(h.outside k (by omega)).1] at hx
  exact hP k x h1 h2 hx

theorem Steps.allK {a b : Nat} {s t : St K V} (h : Steps a b s t) (hb : b ≤ s.keys.size) {a' b' : Nat} {P : K → Prop}
    (ha : a' ≤ a) (hb2 : b ≤ b') (hP : AllK s.keys a' b' P) : AllK t.keys a' b' P :=
  h.keys_all hb P a' b' ha hb2 hP

theorem Steps.sortedOn_disjoint {lt : K → K → Bool} {a b : Nat} {s t : St K V} (h : Steps a b s t) {a' b' : Nat}
    (hd : b' ≤ a ∨ b ≤ a') (hS : SortedOn lt s.keys a' b') : SortedOn lt t.keys a' b' := by
  intro i j x y h1 h2 h3 hx hy
  rw [(h.outside i (by omega)).1] at hx
  rw [(h.outside j (by omega)).1] at hy
  exact hS i j x y h1 h2 h3 hx hy

end Got.Lemmas.Sort
