import Got.Lemmas.MSQueueInv
/-
Lock-freedom of the Michael–Scott queue model (C02): from any state satisfying the invariant, a busy
thread that runs alone returns within `mu s t ≤ K = 13` of its own steps.  `mu` (Model/MSQueue.lean)
strictly decreases with every solo step; the only two steps that need the invariant are the
successful helping CASes (after one helping round the tail no longer lags, because `Inv` bounds the
lag by one node; and the head is then strictly before the tail).
-/
namespace Got.Model.MSQueue
open Got.Spec.Lin

theorem muPush_pos (h : Heap) : 5 ≤ muPush h ∧ muPush h ≤ 9 := by
  unfold muPush; split <;> omega

theorem muPop_pos (h : Heap) : 4 ≤ muPop h ∧ muPop h ≤ 10 := by
  unfold muPop; split <;> (try split) <;> omega

theorem muPc_le_K (h : Heap) (p : Pc) : muPc h p ≤ K := by
  have h1 := muPush_pos h
  have h2 := muPop_pos h
  unfold K
  cases p <;> simp only [muPc] <;> (try split) <;> (try split) <;> (try split) <;> omega

theorem mu_le_K (s : State) (t : Nat) : mu s t ≤ K := muPc_le_K _ _

theorem mu_setPc (s : State) (t : Nat) (p : Pc) : mu (setPc s t p) t = muPc s.toHeap p := by
  show muPc s.toHeap (upd s.pc t p t) = _
  rw [upd_same]

theorem mu_eq {s : State} {t : Nat} {p : Pc} (hp : s.pc t = p) : mu s t = muPc s.toHeap p := by
  unfold mu; rw [hp]

/-- after a successful helping CAS the new tail is the last node. -/
theorem next_none_after_help {s : State} (hI : Inv s) {tl x : Nat} (htl : s.tail = tl)
    (hn : s.next tl = some x) : s.next x = none := by
  subst htl
  have g := hI.glob
  have h1 := g.succ_mem g.tl hn
  rw [g.link _ _ h1]
  apply List.getElem?_eq_none
  have := g.lag
  omega

/-- the head is never the successor of the tail. -/
theorem head_ne_succ_tail {s : State} (hI : Inv s) {tl x : Nat} (htl : s.tail = tl)
    (hn : s.next tl = some x) : s.head ≠ x := by
  subst htl
  have g := hI.glob
  have h1 := g.succ_mem g.tl hn
  intro e
  rw [← e] at h1
  have := nodup_idx_eq g.nodup g.hd h1
  have := g.hile
  omega

/-- finish `muPc h p' < muPc h p` after unfolding to nested `if`s over the same heap. -/
macro "mu_arith" : tactic =>
  `(tactic| (simp only [muPc, muPush, muPop, reduceCtorEq, ↓reduceIte] <;>
             (repeat' split) <;> first | omega | (exfalso; simp_all; done)))

theorem mu_dec {s : State} (hI : Inv s) {t : Nat} (hb : busy s t) : mu (tau s t) t < mu s t := by
  have hl := hI.loc t
  unfold busy at hb
  cases hp : s.pc t with
  | idle => exact absurd hp hb
  | crash => rw [hp] at hl; exact hl.elim
  | p1 n =>
    simp only [tau, hp]; rw [mu_setPc, mu_eq hp]
    mu_arith
  | p2 n tl =>
    simp only [tau, hp]; rw [mu_setPc, mu_eq hp]
    cases hn : s.next tl <;> mu_arith
  | p3 n tl nx =>
    simp only [tau, hp]; rw [mu_eq hp]
    by_cases h : tl = s.tail
    · simp only [if_pos h]
      cases nx <;> simp only [] <;> rw [mu_setPc] <;> mu_arith
    · simp only [if_neg h]; rw [mu_setPc]; mu_arith
  | p4 n tl =>
    simp only [tau, hp]; rw [mu_eq hp]
    by_cases h : s.next tl = none
    · simp only [if_pos h]
      show muPc _ (upd s.pc t (.p5 n tl) t) < _
      rw [upd_same]; mu_arith
    · simp only [if_neg h]; rw [mu_setPc]; mu_arith
  | p4h n tl x =>
    rw [hp] at hl
    simp only [tau, hp, casTail]; rw [mu_eq hp]
    by_cases h : s.tail = tl
    · have hx := next_none_after_help hI h hl.2.2
      simp only [if_pos h]
      show muPc _ (upd s.pc t (.p1 n) t) < _
      rw [upd_same]
      show (if s.next x = none then 5 else 9) < muPc s.toHeap (.p4h n tl x)
      rw [if_pos hx]; simp only [muPc, if_pos h]; omega
    · simp only [if_neg h]; rw [mu_setPc]; mu_arith
  | p5 n tl =>
    simp only [tau, hp, casTail]; rw [mu_eq hp]
    by_cases h : s.tail = tl
    · simp only [if_pos h]
      show muPc _ (upd s.pc t .idle t) < _
      rw [upd_same]; simp only [muPc]; omega
    · simp only [if_neg h]
      show muPc _ (upd s.pc t .idle t) < _
      rw [upd_same]; simp only [muPc]; omega
  | d1 =>
    simp only [tau, hp]; rw [mu_setPc, mu_eq hp]
    mu_arith
  | d2 hd =>
    simp only [tau, hp]; rw [mu_setPc, mu_eq hp]
    mu_arith
  | d3 hd tl =>
    simp only [tau, hp]; rw [mu_eq hp]
    cases hn : s.next hd with
    | none =>
      simp only []
      show muPc s.toHeap (upd s.pc t (.d4 hd tl none) t) < _
      rw [upd_same]; mu_arith
    | some x =>
      simp only []; rw [mu_setPc]; mu_arith
  | d4 hd tl nx =>
    simp only [tau, hp]; rw [mu_eq hp]
    by_cases h : hd = s.head
    · simp only [if_pos h]
      by_cases h2 : hd = tl
      · simp only [if_pos h2]
        cases nx with
        | none =>
          simp only []
          show muPc s.toHeap (upd s.pc t .idle t) < _
          rw [upd_same]; mu_arith
        | some x => simp only []; rw [mu_setPc]; mu_arith
      · simp only [if_neg h2]
        cases nx with
        | none => simp only []; rw [mu_setPc]; mu_arith
        | some x => simp only []; rw [mu_setPc]; mu_arith
    · simp only [if_neg h]; rw [mu_setPc]; mu_arith
  | d5h hd tl x =>
    rw [hp] at hl
    simp only [tau, hp, casTail]; rw [mu_eq hp]
    by_cases h : s.tail = tl
    · have hx := head_ne_succ_tail hI h hl.2
      simp only [if_pos h]
      show muPc _ (upd s.pc t .d1 t) < _
      rw [upd_same]
      show (if s.head = x then (if s.next s.head = none then 4 else 10) else 5) < muPc s.toHeap (.d5h hd tl x)
      rw [if_neg hx]; simp only [muPc, if_pos h]; omega
    · simp only [if_neg h]; rw [mu_setPc]; mu_arith
  | d5 hd x v =>
    simp only [tau, hp]; rw [mu_eq hp]
    by_cases h : s.head = hd
    · simp only [if_pos h]
      show muPc _ (upd s.pc t .idle t) < _
      rw [upd_same]; simp only [muPc, if_pos h]; omega
    · simp only [if_neg h]; rw [mu_setPc]; mu_arith

theorem solo_bound_aux (t : Nat) : ∀ (m : Nat) (s : State), Inv s → mu s t ≤ m →
    ∃ k, k ≤ m ∧ ¬ busy (solo t k s) t := by
  intro m
  induction m with
  | zero =>
    intro s hI hm
    refine ⟨0, Nat.le_refl _, ?_⟩
    intro hb
    have := mu_dec hI hb
    omega
  | succ m ih =>
    intro s hI hm
    by_cases hb : busy s t
    · have hd := mu_dec hI hb
      obtain ⟨k, hk, hnb⟩ := ih (tau s t) (inv_tau hI t) (by omega)
      exact ⟨k + 1, by omega, hnb⟩
    · exact ⟨0, Nat.zero_le _, hb⟩

theorem solo_bound {s : State} (hI : Inv s) (t : Nat) : ∃ k, k ≤ K ∧ ¬ busy (solo t k s) t :=
  solo_bound_aux t K s hI (mu_le_K s t)

end Got.Model.MSQueue
