import Got.Lemmas.SortAstSmall
import Got.Lemmas.SortHeap
/-
Translator tie of C15, part 2: siftDown_func, heapSort_func.
The generated terms (Got/Generated/AstSortxSort.lean) interpreted by MiniGoSort over the model state compute exactly
the model functions `siftDown` / `heapSort` of Got/Model/Sort.lean (final slices AND the whole Less/Swap log).
-/
set_option linter.unusedSimpArgs false
namespace Got.Lemmas.SortAst
open Got.Model.MiniGoSort Got.Model.Sort Got.Model.SortAst
open Got.Generated.AstSortxSort

variable {K V : Type}

/-! ### siftDown_func -/

/-- `if child+1 < hi && data.Less(first+child, first+child+1) { child++ }` of the generated term -/
def pickStmt : Stmt :=
  .ite (.and (.lt (.add (.var 4) (.lit 1)) (.var 1))
      (.less (.add (.var 2) (.var 4)) (.add (.add (.var 2) (.var 4)) (.lit 1))))
    [.set 4 (.add (.var 4) (.lit 1))] []

theorem pick_runs (P : String → Option Fn) (less : LessFn K V) (hi first child : Nat)
    (hhi : hi < B62) (hf : first + hi < B62) (hch : child < hi)
    (env : Env) (s : St K V) (h1 : env.get 1 = hi) (h2 : env.get 2 = first) (h4 : env.get 4 = child) :
    ∃ env', (∀ y, y ≠ 4 → env'.get y = env.get y) ∧ env'.get 4 = (((pickChild less hi first child s).1 : Nat) : Int) ∧
      ∀ rest r, Runs (sortWorld less) P rest env' (pickChild less hi first child s).2 r →
        Runs (sortWorld less) P (pickStmt :: rest) env s r := by
  unfold B62 at hhi hf
  have ia : idx ((first : Int) + (child : Int)) = first + child := by unfold idx; omega
  have ib : idx ((first : Int) + (child : Int) + 1) = first + child + 1 := by unfold idx; omega
  unfold pickChild
  split
  · rename_i hlt
    have hc : evalC (sortWorld less) env (.and (.lt (.add (.var 4) (.lit 1)) (.var 1))
        (.less (.add (.var 2) (.var 4)) (.add (.add (.var 2) (.var 4)) (.lit 1)))) s =
        (less s (first + child) (first + child + 1),
          s.note (first + child) (first + child + 1) (less s (first + child) (first + child + 1))) := by
      simp (disch := omega) only [evalC, eval, h1, h2, h4, wrap_eq]
      have : ((child : Int) + 1 < (hi : Int)) := by omega
      simp only [this, decide_true, if_true, sortWorld, ia, ib]
    cases hr : less s (first + child) (first + child + 1)
    · rw [hr] at hc
      refine ⟨env, fun _ _ => rfl, ?_, fun rest r h => ?_⟩
      · simpa using h4
      · simp only [Bool.false_eq_true, if_false] at h
        refine Runs.ite (env' := env) ?_ h
        rw [hc]
        exact Runs.nil
    · rw [hr] at hc
      refine ⟨env.set 4 (eval env (.add (.var 4) (.lit 1))),
        fun y hy => by rw [Env.get_set, if_neg hy], ?_, fun rest r h => ?_⟩
      · rw [Env.get_set]
        simp (disch := omega) only [eval, h4, wrap_eq]
        simp
      · simp only [if_true] at h
        refine Runs.ite ?_ h
        rw [hc]
        exact Runs.set Runs.nil
  · rename_i hlt
    have hc : evalC (sortWorld less) env (.and (.lt (.add (.var 4) (.lit 1)) (.var 1))
        (.less (.add (.var 2) (.var 4)) (.add (.add (.var 2) (.var 4)) (.lit 1)))) s = (false, s) := by
      simp (disch := omega) only [evalC, eval, h1, h2, h4, wrap_eq]
      have : ¬ ((child : Int) + 1 < (hi : Int)) := by omega
      simp only [this, decide_false, Bool.false_eq_true, if_false]
    refine ⟨env, fun _ _ => rfl, ?_, fun rest r h => ?_⟩
    · simpa using h4
    · refine Runs.ite (env' := env) ?_ h
      rw [hc]
      exact Runs.nil

/-- the `for { … }` of the generated term -/
def siftLoop : Stmt :=
  .loop .tt [
    .set 4 (.add (.mul (.lit 2) (.var 3)) (.lit 1)),
    .ite (.le (.var 1) (.var 4)) [.brk] [],
    pickStmt,
    .ite (.not (.less (.add (.var 2) (.var 3)) (.add (.var 2) (.var 4)))) [.ret []] [],
    .swap (.add (.var 2) (.var 3)) (.add (.var 2) (.var 4)),
    .set 3 (.var 4)
  ] []

theorem siftDown_body : siftDown_func.body = [.set 3 (.var 0), siftLoop] := rfl

theorem siftLoop_runs (P : String → Option Fn) (less : LessFn K V) (hi first : Nat)
    (hhi : hi < B62) (hf : first + hi < B62) :
    ∀ (n root : Nat) (env : Env) (s : St K V), hi - root = n → env.get 1 = hi → env.get 2 = first →
      env.get 3 = root → root < B62 →
      ∃ r, Runs (sortWorld less) P [siftLoop] env s r ∧
        (r = .ret [] (siftDown less hi first root s) ∨ ∃ e, r = .cont e (siftDown less hi first root s)) := by
  intro n
  induction n using Nat.strongRecOn with
  | _ n ih =>
    intro root env s hn h1 h2 h3 hroot
    unfold B62 at hhi hf hroot
    have hc : evalC (sortWorld less) env .tt s = (true, s) := rfl
    have g4 : (env.set 4 (eval env (.add (.mul (.lit 2) (.var 3)) (.lit 1)))).get 4 = ((2 * root + 1 : Nat) : Int) := by
      rw [Env.get_set]
      simp (disch := omega) only [eval, h3, wrap_eq]
      simp
    have g1 : (env.set 4 (eval env (.add (.mul (.lit 2) (.var 3)) (.lit 1)))).get 1 = hi := by
      rw [Env.get_set]; simpa using h1
    have g2 : (env.set 4 (eval env (.add (.mul (.lit 2) (.var 3)) (.lit 1)))).get 2 = first := by
      rw [Env.get_set]; simpa using h2
    have g3 : (env.set 4 (eval env (.add (.mul (.lit 2) (.var 3)) (.lit 1)))).get 3 = root := by
      rw [Env.get_set]; simpa using h3
    generalize hE : env.set 4 (eval env (.add (.mul (.lit 2) (.var 3)) (.lit 1))) = env1 at g1 g2 g3 g4
    rw [siftDown]
    by_cases hge : 2 * root + 1 ≥ hi
    · simp only [hge, dite_true]
      have hc1 : evalC (sortWorld less) env1 (.le (.var 1) (.var 4)) s = (true, s) := by
        simp only [evalC, eval, g1, g4]
        have : ((hi : Int) ≤ ((2 * root + 1 : Nat) : Int)) := by omega
        simp only [this, decide_true]
      refine ⟨.cont env1 s, ?_, Or.inr ⟨env1, rfl⟩⟩
      refine Runs.loop_brk (by rw [hc]) ?_ Runs.nil
      rw [hc]
      refine Runs.set ?_
      rw [hE]
      refine Runs.ite_brk ?_
      rw [hc1]
      exact Runs.brk
    · simp only [hge, dite_false]
      have hch : 2 * root + 1 < hi := by omega
      have hc1 : evalC (sortWorld less) env1 (.le (.var 1) (.var 4)) s = (false, s) := by
        simp only [evalC, eval, g1, g4]
        have : ¬ ((hi : Int) ≤ ((2 * root + 1 : Nat) : Int)) := by omega
        simp only [this, decide_false]
      obtain ⟨env2, hfr, k4, hk⟩ := pick_runs P less hi first (2 * root + 1) hhi hf hch env1 s g1 g2 g4
      have hpc := pickChild_fst less hi first (2 * root + 1) s hch
      generalize pickChild less hi first (2 * root + 1) s = pc at hpc k4 hk ⊢
      obtain ⟨c, s2⟩ := pc
      simp only at hpc k4 hk ⊢
      have k1 : env2.get 1 = hi := by rw [hfr 1 (by decide)]; exact g1
      have k2 : env2.get 2 = first := by rw [hfr 2 (by decide)]; exact g2
      have k3 : env2.get 3 = root := by rw [hfr 3 (by decide)]; exact g3
      have ic : idx ((first : Int) + (root : Int)) = first + root := by unfold idx; omega
      have id : idx ((first : Int) + (c : Int)) = first + c := by unfold idx; omega
      have hc3 : evalC (sortWorld less) env2 (.not (.less (.add (.var 2) (.var 3)) (.add (.var 2) (.var 4)))) s2 =
          (!less s2 (first + root) (first + c),
            s2.note (first + root) (first + c) (less s2 (first + root) (first + c))) := by
        simp (disch := omega) only [evalC, eval, k2, k3, k4, wrap_eq, sortWorld, ic, id]
      cases hr : less s2 (first + root) (first + c)
      · rw [hr] at hc3
        simp only [Bool.not_false, if_true]
        refine ⟨.ret [] (s2.note (first + root) (first + c) false), ?_, Or.inl rfl⟩
        refine Runs.loop_ret (by rw [hc]) ?_
        rw [hc]
        refine Runs.set ?_
        rw [hE]
        refine Runs.ite (env' := env1) (w' := s) (by rw [hc1]; exact Runs.nil) (hk _ _ ?_)
        refine Runs.ite_ret ?_
        rw [hc3]
        exact Runs.ret
      · rw [hr] at hc3
        simp only [Bool.not_true, Bool.false_eq_true, if_false]
        obtain ⟨r, hr', hres⟩ := ih (hi - c) (by omega) c (env2.set 3 (eval env2 (.var 4)))
          ((s2.note (first + root) (first + c) true).swap (first + root) (first + c)) rfl
          (by rw [Env.get_set]; simpa using k1) (by rw [Env.get_set]; simpa using k2)
          (by rw [Env.get_set]; simpa [eval] using k4) (by unfold B62; omega)
        refine ⟨r, Runs.loop_iter (by rw [hc]) ?_ Runs.nil hr', hres⟩
        rw [hc]
        refine Runs.set ?_
        rw [hE]
        refine Runs.ite (env' := env1) (w' := s) (by rw [hc1]; exact Runs.nil) (hk _ _ ?_)
        refine Runs.ite (env' := env2) (w' := s2.note (first + root) (first + c) true)
          (by rw [hc3]; exact Runs.nil) ?_
        refine Runs.swap (Runs.set ?_)
        have : (sortWorld less).swap (s2.note (first + root) (first + c) true)
            (eval env2 (.add (.var 2) (.var 3))) (eval env2 (.add (.var 2) (.var 4))) =
            (s2.note (first + root) (first + c) true).swap (first + root) (first + c) := by
          simp (disch := omega) only [eval, k2, k3, k4, wrap_eq, sortWorld, ic, id]
        rw [this]
        exact Runs.nil

/-- siftDown_func: the translated source computes the model's `siftDown` (state and log) -/
theorem siftDown_runs (P : String → Option Fn) (less : LessFn K V) (lo hi first : Nat)
    (hlo : lo < B62) (hhi : hi < B62) (hf : first + hi < B62) (s : St K V) :
    FnRuns (sortWorld less) P siftDown_func [(lo : Int), (hi : Int), (first : Int)] s []
      (siftDown less hi first lo s) := by
  obtain ⟨r, hr, hres⟩ := siftLoop_runs P less hi first hhi hf (hi - lo) lo
    (Env.set #[(lo : Int), (hi : Int), (first : Int)] 3 (eval #[(lo : Int), (hi : Int), (first : Int)] (.var 0))) s rfl
    (by rw [Env.get_set]; rfl) (by rw [Env.get_set]; rfl) (by rw [Env.get_set]; rfl) hlo
  rw [FnRuns, siftDown_body]
  rcases hres with rfl | ⟨e, rfl⟩
  · exact Or.inl (Runs.set hr)
  · exact Or.inr ⟨rfl, e, Runs.set hr⟩

/-! ### heapSort_func -/

/-- `for i := (hi-1)/2; i >= 0; i-- { siftDown_func(data, i, hi, first) }` of the generated term -/
def buildLoop : Stmt :=
  .loop (.le (.lit 0) (.var 5)) [.call "siftDown_func" [(.var 5), (.var 4), (.var 2)] []]
    [.set 5 (.sub (.var 5) (.lit 1))]

/-- `for i := hi-1; i >= 0; i-- { data.Swap(first, first+i); siftDown_func(data, lo, i, first) }` -/
def popLoop : Stmt :=
  .loop (.le (.lit 0) (.var 6))
    [.swap (.var 2) (.add (.var 2) (.var 6)), .call "siftDown_func" [(.var 3), (.var 6), (.var 2)] []]
    [.set 6 (.sub (.var 6) (.lit 1))]

theorem heapSort_body : heapSort_func.body =
    [ .set 2 (.var 0), .set 3 (.lit 0), .set 4 (.sub (.var 1) (.var 0)),
      .set 5 (.divC (.sub (.var 4) (.lit 1)) 2), buildLoop, .set 6 (.sub (.var 4) (.lit 1)), popLoop ] := rfl

theorem heapBuild_runs (P : String → Option Fn) (hP : P "siftDown_func" = some siftDown_func)
    (less : LessFn K V) (hi first : Nat) (hhi : hi < B62) (hf : first + hi < B62) :
    ∀ (i : Nat) (env : Env) (s : St K V), env.get 2 = first → env.get 4 = hi → env.get 5 = i → i < B62 →
      ∃ env', (∀ y, y ≠ 5 → env'.get y = env.get y) ∧
        ∀ rest r, Runs (sortWorld less) P rest env' (heapBuild less hi first i s) r →
          Runs (sortWorld less) P (buildLoop :: rest) env s r := by
  intro i
  induction i with
  | zero =>
    intro env s h2 h4 h5 hi'
    have hc : evalC (sortWorld less) env (.le (.lit 0) (.var 5)) s = (true, s) := by
      simp (disch := omega) only [evalC, eval, h5, wrap_eq]
      simp
    have hargs : List.map (eval env) [(.var 5), (.var 4), (.var 2)] = [((0 : Nat) : Int), (hi : Int), (first : Int)] := by
      simp only [List.map, eval, h5, h4, h2]
    have g5 : (env.set 5 (eval env (.sub (.var 5) (.lit 1)))).get 5 = -1 := by
      rw [Env.get_set, if_pos rfl]
      simp (disch := omega) only [eval, h5, wrap_eq]
      simp
    refine ⟨env.set 5 (eval env (.sub (.var 5) (.lit 1))),
      fun y hy => by rw [Env.get_set, if_neg hy], fun rest r h => ?_⟩
    have hc'' : ∀ E : Env, E.get 5 = -1 → evalC (sortWorld less) E (.le (.lit 0) (.var 5))
        (siftDown less hi first 0 s) = (false, siftDown less hi first 0 s) := by
      intro E g
      simp (disch := omega) only [evalC, eval, g, wrap_eq]
      simp
    have hc' := hc'' _ g5
    refine Runs.loop_iter (by rw [hc]) (env' := env) (w' := siftDown less hi first 0 s) ?_ (Runs.set Runs.nil) ?_
    · rw [hc]
      refine Runs.call (vs := []) hP rfl rfl ?_ rfl Runs.nil
      rw [hargs]
      exact siftDown_runs P less 0 hi first (by unfold B62; omega) hhi hf s
    · refine Runs.loop_exit (by rw [hc']) ?_
      rw [hc']
      exact h
  | succ i ih =>
    intro env s h2 h4 h5 hi'
    unfold B62 at hi'
    have hc : evalC (sortWorld less) env (.le (.lit 0) (.var 5)) s = (true, s) := by
      simp (disch := omega) only [evalC, eval, h5, wrap_eq]
      have : (0 : Int) ≤ ((i + 1 : Nat) : Int) := by omega
      simp only [this, decide_true]
    have hargs : List.map (eval env) [(.var 5), (.var 4), (.var 2)] =
        [((i + 1 : Nat) : Int), (hi : Int), (first : Int)] := by
      simp only [List.map, eval, h5, h4, h2]
    have g5 : (env.set 5 (eval env (.sub (.var 5) (.lit 1)))).get 5 = (i : Int) := by
      rw [Env.get_set, if_pos rfl]
      simp (disch := omega) only [eval, h5, wrap_eq]
      omega
    obtain ⟨env', hfr, hk⟩ := ih (env.set 5 (eval env (.sub (.var 5) (.lit 1)))) (siftDown less hi first (i + 1) s)
      (by rw [Env.get_set]; simpa using h2) (by rw [Env.get_set]; simpa using h4) g5 (by unfold B62; omega)
    refine ⟨env', fun y hy => by rw [hfr y hy, Env.get_set, if_neg hy], fun rest r h => ?_⟩
    refine Runs.loop_iter (by rw [hc]) (env' := env) (w' := siftDown less hi first (i + 1) s) ?_
      (Runs.set Runs.nil) (hk rest r h)
    rw [hc]
    refine Runs.call (vs := []) hP rfl rfl ?_ rfl Runs.nil
    rw [hargs]
    exact siftDown_runs P less (i + 1) hi first (by unfold B62; omega) hhi hf s

theorem heapPop_runs (P : String → Option Fn) (hP : P "siftDown_func" = some siftDown_func)
    (less : LessFn K V) (first : Nat) :
    ∀ (i : Nat) (env : Env) (s : St K V), env.get 2 = first → env.get 3 = ((0 : Nat) : Int) →
      env.get 6 = (i : Int) - 1 → first + i < B62 →
      ∃ env', ∀ rest r, Runs (sortWorld less) P rest env' (heapPop less first i s) r →
          Runs (sortWorld less) P (popLoop :: rest) env s r := by
  intro i
  induction i with
  | zero =>
    intro env s h2 h3 h6 hb
    have hc : evalC (sortWorld less) env (.le (.lit 0) (.var 6)) s = (false, s) := by
      simp (disch := omega) only [evalC, eval, h6, wrap_eq]
      simp
    refine ⟨env, fun rest r h => ?_⟩
    refine Runs.loop_exit (by rw [hc]) ?_
    rw [hc]
    exact h
  | succ i ih =>
    intro env s h2 h3 h6 hb
    unfold B62 at hb
    have h6' : env.get 6 = (i : Int) := by rw [h6]; omega
    have hc : evalC (sortWorld less) env (.le (.lit 0) (.var 6)) s = (true, s) := by
      simp (disch := omega) only [evalC, eval, h6', wrap_eq]
      have : (0 : Int) ≤ (i : Int) := by omega
      simp only [this, decide_true]
    have ia : idx (first : Int) = first := idx_natCast (by omega)
    have ib : idx ((first : Int) + (i : Int)) = first + i := by unfold idx; omega
    have hsw : (sortWorld less).swap s (eval env (.var 2)) (eval env (.add (.var 2) (.var 6))) =
        s.swap first (first + i) := by
      simp (disch := omega) only [eval, h2, h6', wrap_eq, sortWorld, ia, ib]
    have hargs : List.map (eval env) [(.var 3), (.var 6), (.var 2)] =
        [((0 : Nat) : Int), (i : Int), (first : Int)] := by
      simp only [List.map, eval, h3, h6', h2]
    obtain ⟨env', hk⟩ := ih (env.set 6 (eval env (.sub (.var 6) (.lit 1))))
      (siftDown less i first 0 (s.swap first (first + i)))
      (by rw [Env.get_set]; simpa using h2) (by rw [Env.get_set]; simpa using h3)
      (by rw [Env.get_set, if_pos rfl]; simp (disch := omega) only [eval, h6', wrap_eq])
      (by unfold B62; omega)
    refine ⟨env', fun rest r h => ?_⟩
    refine Runs.loop_iter (by rw [hc]) (env' := env)
      (w' := siftDown less i first 0 (s.swap first (first + i))) ?_ (Runs.set Runs.nil) (hk rest r h)
    rw [hc]
    refine Runs.swap ?_
    rw [hsw]
    refine Runs.call (vs := []) hP rfl rfl ?_ rfl Runs.nil
    rw [hargs]
    exact siftDown_runs P less 0 i first (by unfold B62; omega) (by unfold B62; omega) (by unfold B62; omega) _

theorem tdiv_half (hi : Nat) : Int.tdiv ((hi : Int) - 1) ((2 : Nat) : Int) = (((hi - 1) / 2 : Nat) : Int) := by
  cases hi with
  | zero => rfl
  | succ n =>
    rw [Int.tdiv_eq_ediv_of_nonneg (by omega)]
    omega

/-- heapSort_func: the translated source computes the model's `heapSort` (state and log) -/
theorem heapSort_runs (P : String → Option Fn) (hP : P "siftDown_func" = some siftDown_func)
    (less : LessFn K V) (a b : Nat) (hab : a ≤ b) (hb : b < B62) (s : St K V) :
    FnRuns (sortWorld less) P heapSort_func [(a : Int), (b : Int)] s [] (heapSort less a b s) := by
  have hb' := hb
  unfold B62 at hb'
  obtain ⟨e0, hE0⟩ : ∃ e : Env, e = #[(a : Int), (b : Int)] := ⟨_, rfl⟩
  have A0 : e0.get 0 = a := by rw [hE0]; rfl
  have A1 : e0.get 1 = b := by rw [hE0]; rfl
  obtain ⟨e1, hE1⟩ : ∃ e : Env, e = e0.set 2 (eval e0 (.var 0)) := ⟨_, rfl⟩
  have B0 : e1.get 0 = a := by rw [hE1, Env.get_set]; simpa using A0
  have B1 : e1.get 1 = b := by rw [hE1, Env.get_set]; simpa using A1
  have B2 : e1.get 2 = a := by rw [hE1, Env.get_set]; simpa [eval] using A0
  obtain ⟨e2, hE2⟩ : ∃ e : Env, e = e1.set 3 (eval e1 (.lit 0)) := ⟨_, rfl⟩
  have C0 : e2.get 0 = a := by rw [hE2, Env.get_set]; simpa using B0
  have C1 : e2.get 1 = b := by rw [hE2, Env.get_set]; simpa using B1
  have C2 : e2.get 2 = a := by rw [hE2, Env.get_set]; simpa using B2
  have C3 : e2.get 3 = ((0 : Nat) : Int) := by rw [hE2, Env.get_set, if_pos rfl]; rfl
  obtain ⟨e3, hE3⟩ : ∃ e : Env, e = e2.set 4 (eval e2 (.sub (.var 1) (.var 0))) := ⟨_, rfl⟩
  have D2 : e3.get 2 = a := by rw [hE3, Env.get_set]; simpa using C2
  have D3 : e3.get 3 = ((0 : Nat) : Int) := by rw [hE3, Env.get_set]; simpa using C3
  have D4 : e3.get 4 = ((b - a : Nat) : Int) := by
    rw [hE3, Env.get_set, if_pos rfl]
    simp (disch := omega) only [eval, C0, C1, wrap_eq]
    omega
  obtain ⟨e4, hE4⟩ : ∃ e : Env, e = e3.set 5 (eval e3 (.divC (.sub (.var 4) (.lit 1)) 2)) := ⟨_, rfl⟩
  have F2 : e4.get 2 = a := by rw [hE4, Env.get_set]; simpa using D2
  have F3 : e4.get 3 = ((0 : Nat) : Int) := by rw [hE4, Env.get_set]; simpa using D3
  have F4 : e4.get 4 = ((b - a : Nat) : Int) := by rw [hE4, Env.get_set]; simpa using D4
  have F5 : e4.get 5 = ((((b - a) - 1) / 2 : Nat) : Int) := by
    rw [hE4, Env.get_set, if_pos rfl]
    simp (disch := omega) only [eval, D4, wrap_eq]
    rw [tdiv_half, wrap_eq (by omega) (by omega)]
  obtain ⟨e5, hfr, hkB⟩ := heapBuild_runs P hP less (b - a) a (by unfold B62; omega) (by unfold B62; omega)
    ((b - a - 1) / 2) e4 s F2 F4 F5 (by unfold B62; omega)
  have G2 : e5.get 2 = a := by rw [hfr 2 (by decide)]; exact F2
  have G3 : e5.get 3 = ((0 : Nat) : Int) := by rw [hfr 3 (by decide)]; exact F3
  have G4 : e5.get 4 = ((b - a : Nat) : Int) := by rw [hfr 4 (by decide)]; exact F4
  obtain ⟨e6, hkP⟩ := heapPop_runs P hP less a (b - a) (e5.set 6 (eval e5 (.sub (.var 4) (.lit 1))))
    (heapBuild less (b - a) a ((b - a - 1) / 2) s)
    (by rw [Env.get_set]; simpa using G2) (by rw [Env.get_set]; simpa using G3)
    (by rw [Env.get_set, if_pos rfl]; simp (disch := omega) only [eval, G4, wrap_eq])
    (by unfold B62; omega)
  refine Or.inr ⟨rfl, e6, ?_⟩
  rw [heapSort_body]
  unfold heapSort
  subst hE4 hE3 hE2 hE1 hE0
  exact Runs.set (Runs.set (Runs.set (Runs.set (hkB _ _ (Runs.set (hkP [] _ Runs.nil))))))

/-! ### corollaries about the interpreted generated term itself (`Fn.run heapSort_func … prog`) -/

/-- the generated program resolves the callee of heapSort_func to the generated siftDown_func -/
theorem prog_siftDown : prog "siftDown_func" = some siftDown_func := by
  unfold prog lookupFn fns
  rw [List.find?_cons_of_neg (by decide), List.find?_cons_of_pos (by decide)]

/-- running the translated heapSort_func (with the generated program for its callee) on `(a, b)` returns no values
    and the state — slices and complete Less/Swap log — of the model's `heapSort`, for every sufficiently large fuel -/
theorem heapSort_translated (less : LessFn K V) (a b : Nat) (hab : a ≤ b) (hb : b < B62) (s : St K V) :
    ∃ f0, ∀ f, f0 ≤ f →
      heapSort_func.run (sortWorld less) prog f [(a : Int), (b : Int)] s = some ([], heapSort less a b s) := by
  refine run_of_FnRuns (vs := []) rfl rfl ?_
  have hb' := hb
  unfold B62 at hb'
  have e : List.map wrap [(a : Int), (b : Int)] = [(a : Int), (b : Int)] := by
    simp only [List.map]
    rw [wrap_eq (by omega) (by omega), wrap_eq (by omega) (by omega)]
  rw [e]
  exact heapSort_runs prog prog_siftDown less a b hab hb s

/-- the translated heapSort_func, run with the standard less closure of a strict weak order on a range `[a,b)` inside
    the key slice, terminates and leaves the keys of `[a,b)` sorted (no later key is less than an earlier one) -/
theorem heapSort_translated_sorted {lt : K → K → Bool} (sw : Got.Lemmas.Sort.StrictWeak lt) (a b : Nat) (s : St K V)
    (hab : a ≤ b) (hb : b ≤ s.keys.size) (hb62 : b < B62) :
    ∃ f0, ∀ f, f0 ≤ f → ∃ s', heapSort_func.run (sortWorld (stdLess lt)) prog f [(a : Int), (b : Int)] s = some ([], s') ∧
      ∀ i j x y, a ≤ i → i < j → j < b → s'.keys[i]? = some x → s'.keys[j]? = some y → lt y x = false := by
  obtain ⟨f0, h⟩ := heapSort_translated (stdLess lt) a b hab hb62 s
  exact ⟨f0, fun f hf => ⟨_, h f hf, Got.Lemmas.Sort.heapSort_sorted sw a b s hab hb⟩⟩

/-- the translated heapSort_func with an ARBITRARY less function on a range `[a,b)` inside both slices terminates;
    the (key, value) pairs at equal indices are permuted, both slices keep their length, nothing outside `[a,b)` is
    touched, and every index passed to Less or Swap lies in `[a,b)` (the log only grows, by such events) -/
theorem heapSort_translated_perm (less : LessFn K V) (a b : Nat) (s : St K V)
    (hab : a ≤ b) (hbk : b ≤ s.keys.size) (hbv : b ≤ s.vals.size) (hb62 : b < B62) :
    ∃ f0, ∀ f, f0 ≤ f → ∃ s', heapSort_func.run (sortWorld less) prog f [(a : Int), (b : Int)] s = some ([], s') ∧
      (s'.keys.zip s'.vals).Perm (s.keys.zip s.vals) ∧
      s'.keys.size = s.keys.size ∧ s'.vals.size = s.vals.size ∧
      (∀ k, k < a ∨ b ≤ k → s'.keys[k]? = s.keys[k]? ∧ s'.vals[k]? = s.vals[k]?) ∧
      ∃ evs, s'.log = evs ++ s.log ∧ ∀ e ∈ evs, match e with
        | .less i j _ => a ≤ i ∧ i < b ∧ a ≤ j ∧ j < b
        | .swap i j => a ≤ i ∧ i < b ∧ a ≤ j ∧ j < b := by
  obtain ⟨f0, h⟩ := heapSort_translated less a b hab hb62 s
  have st := Got.Lemmas.Sort.heapSort_steps less a b s hab
  refine ⟨f0, fun f hf => ⟨_, h f hf, st.zip_perm hbk hbv, st.sizes.1, st.sizes.2, st.outside, ?_⟩⟩
  obtain ⟨evs, h1, h2⟩ := st.log
  refine ⟨evs, h1, fun e he => ?_⟩
  have := h2 e he
  cases e with
  | less i j r => exact this
  | swap i j => exact this

/-- non-vacuity of the hypotheses: `<` on Int, a 5-element state, the whole range -/
example : ∃ f0, ∀ f, f0 ≤ f → ∃ s', heapSort_func.run (sortWorld (stdLess (fun (x y : Int) => decide (x < y)))) prog f
    [((0 : Nat) : Int), ((5 : Nat) : Int)]
    ({ keys := #[5, 3, 9, 1, 3], vals := #["a", "b", "c", "d", "e"], log := [] } : St Int String) = some ([], s') ∧
    ∀ i j x y, 0 ≤ i → i < j → j < 5 → s'.keys[i]? = some x → s'.keys[j]? = some y →
      (fun (x y : Int) => decide (x < y)) y x = false :=
  heapSort_translated_sorted
    { irrefl := by intro x; simp
      trans := by intro x y z h1 h2; simp at *; omega
      incomp_trans := by intro x y z h1 h2 h3 h4; simp at *; omega }
    0 5 _ (by decide) (by decide) (by decide)

/-
#print axioms siftDown_runs              -- [propext, Classical.choice, Quot.sound]
#print axioms heapSort_runs              -- [propext, Classical.choice, Quot.sound]
#print axioms heapSort_translated        -- [propext, Classical.choice, Quot.sound]
#print axioms heapSort_translated_sorted -- [propext, Classical.choice, Quot.sound]
#print axioms heapSort_translated_perm   -- [propext, Classical.choice, Quot.sound]
-/

end Got.Lemmas.SortAst
