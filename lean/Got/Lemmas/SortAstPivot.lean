import Got.Lemmas.SortAstPivotLoops
/-
Translator tie of C15, part 2b: doPivot_func.  The generated term `doPivot_func` (Got/Generated/AstSortxSort.lean,
rewritten from /repo/sortx/zfuncversion.go on every run) interpreted by MiniGoSort over the model state computes exactly
the model's `doPivot` (Got/Model/Sort.lean): the two results and the final state including the whole Less/Swap log.
The proof follows the model's cut into phases (`choosePivot`, `partitionPhase`, `dupProbe1/2/3`, `dupPhase`,
`protectLoop`, final swap): one lemma per phase about the corresponding statements of the generated term.

Also: a small extension of the proof kit (SortAstBase.lean), generic in the world:
`Seg W P pre env w env' w'` = "the statement list `pre` runs from `(env, w)` and falls through its end in `(env', w')`,
whatever follows" (continuation form, so no fuel-monotonicity/append lemma about `exec` is needed), with one rule per
statement form and `Seg.trans` for sequencing.
-/
set_option linter.unusedSimpArgs false
namespace Got.Lemmas.SortAst
open Got.Model.MiniGoSort Got.Model.Sort Got.Model.SortAst
open Got.Generated.AstSortxSort Got.Lemmas.Sort

/-! ### segments: sequencing of statement lists -/
section seg
variable {σ : Type} {W : World σ} {P : String → Option Fn}

/-- `pre` runs from `(env, w)` to its end, reaching `(env', w')`: any continuation `rest` that runs from there runs
    after `pre` from `(env, w)` with the same result -/
def Seg (W : World σ) (P : String → Option Fn) (pre : List Stmt) (env : Env) (w : σ) (env' : Env) (w' : σ) : Prop :=
  ∀ rest r, Runs W P rest env' w' r → Runs W P (pre ++ rest) env w r

theorem Seg.nil {env : Env} {w : σ} : Seg W P [] env w env w := fun _ _ h => h

theorem Seg.trans {p1 p2 : List Stmt} {e e1 e2 : Env} {w w1 w2 : σ}
    (h1 : Seg W P p1 e w e1 w1) (h2 : Seg W P p2 e1 w1 e2 w2) : Seg W P (p1 ++ p2) e w e2 w2 := by
  intro rest r h
  rw [List.append_assoc]
  exact h1 _ _ (h2 _ _ h)

/-- a segment that is a whole block falls through the end of the block -/
theorem Seg.run {p : List Stmt} {e e1 : Env} {w w1 : σ} (h : Seg W P p e w e1 w1) : Runs W P p e w (.cont e1 w1) := by
  have := h [] _ Runs.nil
  rwa [List.append_nil] at this

theorem Seg.set {x : Nat} {e : Expr} {env : Env} {w : σ} : Seg W P [.set x e] env w (env.set x (eval env e)) w :=
  fun _ _ h => Runs.set h

theorem Seg.set2 {x y : Nat} {e1 e2 : Expr} {env : Env} {w : σ} :
    Seg W P [.set2 x y e1 e2] env w ((env.set x (eval env e1)).set y (eval env e2)) w :=
  fun _ _ h => Runs.set2 h

theorem Seg.setB {x : Nat} {c : Cond} {env : Env} {w : σ} :
    Seg W P [.setB x c] env w (env.set x (if (evalC W env c w).1 then 1 else 0)) (evalC W env c w).2 :=
  fun _ _ h => Runs.setB h

theorem Seg.swap {a b : Expr} {env : Env} {w : σ} :
    Seg W P [.swap a b] env w env (W.swap w (eval env a) (eval env b)) :=
  fun _ _ h => Runs.swap h

theorem Seg.ite {c : Cond} {t e : List Stmt} {env env' : Env} {w w' : σ}
    (hb : Seg W P (if (evalC W env c w).1 then t else e) env (evalC W env c w).2 env' w') :
    Seg W P [.ite c t e] env w env' w' :=
  fun _ _ h => Runs.ite hb.run h

theorem Seg.loop_exit {c : Cond} {body post : List Stmt} {env : Env} {w : σ} (hc : (evalC W env c w).1 = false) :
    Seg W P [.loop c body post] env w env (evalC W env c w).2 :=
  fun _ _ h => Runs.loop_exit hc h

theorem Seg.loop_iter {c : Cond} {body post : List Stmt} {env env' env'' env3 : Env} {w w' w'' w3 : σ}
    (hc : (evalC W env c w).1 = true) (hb : Seg W P body env (evalC W env c w).2 env' w')
    (hp : Seg W P post env' w' env'' w'') (h : Seg W P [.loop c body post] env'' w'' env3 w3) :
    Seg W P [.loop c body post] env w env3 w3 :=
  fun rest r hr => Runs.loop_iter hc hb.run hp.run (h rest r hr)

theorem Seg.loop_brk {c : Cond} {body post : List Stmt} {env env' : Env} {w w' : σ}
    (hc : (evalC W env c w).1 = true) (hb : Runs W P body env (evalC W env c w).2 (.brk env' w')) :
    Seg W P [.loop c body post] env w env' w' :=
  fun _ _ h => Runs.loop_brk hc hb h

theorem Seg.call {g : String} {fn : Fn} {args : List Expr} {res : List Nat} {env : Env} {w w' : σ} {vs : List Int}
    (hP : P g = some fn) (hnp : fn.nparams = args.length) (hnr : fn.nresults = res.length)
    (hf : FnRuns W P fn (args.map (eval env)) w vs w') (hvs : vs.length = res.length) :
    Seg W P [.call g args res] env w (env.setMany res vs) w' :=
  fun _ _ h => Runs.call hP hnp hnr hf hvs h

/-! ### environment and expression evaluation -/

theorem Env.get_set_eq (env : Env) (x : Nat) (v : Int) : (env.set x v).get x = v := by
  rw [Env.get_set, if_pos rfl]

theorem Env.get_set_ne (env : Env) {x y : Nat} (v : Int) (h : y ≠ x) : (env.set x v).get y = env.get y := by
  rw [Env.get_set, if_neg h]

theorem eval_add1 {env : Env} {x n : Nat} (h : env.get x = (n : Int)) (hb : n < B62) :
    eval env (.add (.var x) (.lit 1)) = ((n + 1 : Nat) : Int) := by
  unfold B62 at hb
  simp (disch := omega) only [eval, h, wrap_eq]
  omega

theorem eval_sub1 {env : Env} {x n : Nat} (h : env.get x = (n : Int)) (hb : n < B62) (h1 : 1 ≤ n) :
    eval env (.sub (.var x) (.lit 1)) = ((n - 1 : Nat) : Int) := by
  unfold B62 at hb
  simp (disch := omega) only [eval, h, wrap_eq]
  omega

end seg

variable {K V : Type}

/-- `data.Less(e1, e2)` on the model state -/
theorem evalC_less {less : LessFn K V} {env : Env} {e1 e2 : Expr} {i j : Nat} (s : St K V)
    (h1 : eval env e1 = (i : Int)) (h2 : eval env e2 = (j : Int)) (hi : i < B62) (hj : j < B62) :
    evalC (sortWorld less) env (.less e1 e2) s = (less s i j, s.note i j (less s i j)) := by
  unfold B62 at hi hj
  simp only [evalC, sortWorld, h1, h2, idx_natCast (show i < 18446744073709551616 by omega),
    idx_natCast (show j < 18446744073709551616 by omega)]

/-- `!data.Less(e1, e2)` on the model state -/
theorem evalC_notLess {less : LessFn K V} {env : Env} {e1 e2 : Expr} {i j : Nat} (s : St K V)
    (h1 : eval env e1 = (i : Int)) (h2 : eval env e2 = (j : Int)) (hi : i < B62) (hj : j < B62) :
    evalC (sortWorld less) env (.not (.less e1 e2)) s = (!less s i j, s.note i j (less s i j)) := by
  have h := evalC_less (less := less) s h1 h2 hi hj
  simp only [evalC] at h ⊢
  rw [h]

/-- `data.Swap(e1, e2)` on the model state -/
theorem swap_eq {less : LessFn K V} {env : Env} {e1 e2 : Expr} {i j : Nat} (s : St K V)
    (h1 : eval env e1 = (i : Int)) (h2 : eval env e2 = (j : Int)) (hi : i < B62) (hj : j < B62) :
    (sortWorld less).swap s (eval env e1) (eval env e2) = s.swap i j := by
  unfold B62 at hi hj
  simp only [sortWorld, h1, h2, idx_natCast (show i < 18446744073709551616 by omega),
    idx_natCast (show j < 18446744073709551616 by omega)]

/-! ### the partition loop (variables: 6 = pivot, 8 = c, 9 = b) -/

def partLoopStmt : Stmt :=
  .loop .tt [ scanUpNotGtStmt, scanDownGtStmt, .ite (.le (.var 8) (.var 9)) [.brk] [],
              .swap (.var 9) (.sub (.var 8) (.lit 1)), .set 9 (.add (.var 9) (.lit 1)), .set 8 (.sub (.var 8) (.lit 1)) ] []

theorem partLoop_runs (P : String → Option Fn) (less : LessFn K V) (pivot : Nat) (hp : pivot < B62) :
    ∀ (n b c : Nat) (env : Env) (s : St K V), c - b = n → b ≤ c + 1 → c < B62 →
      env.get 6 = pivot → env.get 9 = b → env.get 8 = c →
      ∃ env', (∀ y, y ≠ 8 → y ≠ 9 → env'.get y = env.get y) ∧
        env'.get 9 = (((partLoop less pivot b c s).1 : Nat) : Int) ∧
        env'.get 8 = (((partLoop less pivot b c s).2.1 : Nat) : Int) ∧
        Seg (sortWorld less) P [partLoopStmt] env s env' (partLoop less pivot b c s).2.2 := by
  intro n
  induction n using Nat.strongRecOn with
  | _ n ih =>
    intro b c env s hn hbc hc h6 h9 h8
    have hB : c < B62 := hc
    unfold B62 at hp hc
    have hb1 := scanUpNotGt_fst less pivot c b s
    obtain ⟨env1, hfr1, hv1, hk1⟩ := scanUpNotGt_runs P less pivot c (by unfold B62; omega) hB (c - b) b env s rfl h6 h8 h9
    have h6a : env1.get 6 = pivot := by rw [hfr1 6 (by decide)]; exact h6
    have h8a : env1.get 8 = c := by rw [hfr1 8 (by decide)]; exact h8
    have hc1 := scanDownGt_fst less pivot (scanUpNotGt less pivot c b s).1 c (scanUpNotGt less pivot c b s).2
    obtain ⟨env2, hfr2, hv2, hk2⟩ := scanDownGt_runs P less pivot (scanUpNotGt less pivot c b s).1 (by unfold B62; omega)
      c env1 (scanUpNotGt less pivot c b s).2 hB h6a hv1 h8a
    have h6b : env2.get 6 = pivot := by rw [hfr2 6 (by decide)]; exact h6a
    have h9b : env2.get 9 = (((scanUpNotGt less pivot c b s).1 : Nat) : Int) := by rw [hfr2 9 (by decide)]; exact hv1
    rw [partLoop]
    generalize hrb : scanUpNotGt less pivot c b s = rb at *
    generalize hrc : scanDownGt less pivot rb.1 c rb.2 = rc at *
    have hseg : Seg (sortWorld less) P [scanUpNotGtStmt, scanDownGtStmt] env s env2 rc.2 :=
      Seg.trans (p1 := [scanUpNotGtStmt]) (p2 := [scanDownGtStmt]) hk1 hk2
    split
    · rename_i hge
      refine ⟨env2, fun y h8 h9 => by rw [hfr2 y h8, hfr1 y h9], h9b, hv2, ?_⟩
      refine Seg.loop_brk (by rfl) ?_
      refine hseg _ _ (Runs.ite_brk ?_)
      have hcnd : evalC (sortWorld less) env2 (.le (.var 8) (.var 9)) rc.2 = (true, rc.2) := by
        simp only [evalC, eval, hv2, h9b]
        have : ((rc.1 : Nat) : Int) ≤ ((rb.1 : Nat) : Int) := by omega
        simp only [this, decide_true]
      rw [hcnd]
      exact Runs.brk
    · rename_i hge
      have hcnd : evalC (sortWorld less) env2 (.le (.var 8) (.var 9)) rc.2 = (false, rc.2) := by
        simp only [evalC, eval, hv2, h9b]
        have : ¬ ((rc.1 : Nat) : Int) ≤ ((rb.1 : Nat) : Int) := by omega
        simp only [this, decide_false]
      have e9 : eval env2 (.add (.var 9) (.lit 1)) = ((rb.1 + 1 : Nat) : Int) := eval_add1 h9b (by unfold B62; omega)
      have e8 : eval env2 (.sub (.var 8) (.lit 1)) = ((rc.1 - 1 : Nat) : Int) := eval_sub1 hv2 (by unfold B62; omega) (by omega)
      have e8' : eval (env2.set 9 ((rb.1 + 1 : Nat) : Int)) (.sub (.var 8) (.lit 1)) = ((rc.1 - 1 : Nat) : Int) :=
        eval_sub1 (by rw [Env.get_set_ne _ _ (by decide)]; exact hv2) (by unfold B62; omega) (by omega)
      obtain ⟨env3, hfr3, hv9, hv8, hk3⟩ := ih ((rc.1 - 1) - (rb.1 + 1)) (by omega) (rb.1 + 1) (rc.1 - 1)
        ((env2.set 9 ((rb.1 + 1 : Nat) : Int)).set 8 ((rc.1 - 1 : Nat) : Int))
        (rc.2.swap rb.1 (rc.1 - 1)) rfl (by omega) (by unfold B62; omega)
        (by rw [Env.get_set_ne _ _ (by decide), Env.get_set_ne _ _ (by decide)]; exact h6b)
        (by rw [Env.get_set_ne _ _ (by decide), Env.get_set_eq]) (by rw [Env.get_set_eq])
      refine ⟨env3, fun y h8 h9 => by
        rw [hfr3 y h8 h9, Env.get_set_ne _ _ h8, Env.get_set_ne _ _ h9, hfr2 y h8, hfr1 y h9], hv9, hv8, ?_⟩
      refine Seg.loop_iter (by rfl) ?_ Seg.nil hk3
      refine Seg.trans (p2 := [.ite (.le (.var 8) (.var 9)) [.brk] [], .swap (.var 9) (.sub (.var 8) (.lit 1)),
        .set 9 (.add (.var 9) (.lit 1)), .set 8 (.sub (.var 8) (.lit 1))]) hseg ?_
      refine Seg.trans (p1 := [.ite (.le (.var 8) (.var 9)) [.brk] []]) (e1 := env2) (w1 := rc.2) ?_ ?_
      · refine Seg.ite ?_
        rw [hcnd]
        exact Seg.nil
      · refine Seg.trans (p1 := [.swap (.var 9) (.sub (.var 8) (.lit 1))]) Seg.swap ?_
        rw [swap_eq rc.2 (show eval env2 (.var 9) = _ from h9b) e8 (by unfold B62; omega) (by unfold B62; omega)]
        refine Seg.trans (p1 := [.set 9 (.add (.var 9) (.lit 1))]) Seg.set ?_
        rw [e9]
        have := Seg.set (W := sortWorld less) (P := P) (x := 8) (e := .sub (.var 8) (.lit 1))
          (env := env2.set 9 ((rb.1 + 1 : Nat) : Int)) (w := rc.2.swap rb.1 (rc.1 - 1))
        rwa [e8'] at this

/-! ### the protect loop (variables: 6 = pivot, 7 = a, 9 = b) -/

def protectLoopStmt : Stmt :=
  .loop .tt [ scanDownNotLtStmt, scanUpLtStmt 9, .ite (.le (.var 9) (.var 7)) [.brk] [],
              .swap (.var 7) (.sub (.var 9) (.lit 1)), .set 7 (.add (.var 7) (.lit 1)), .set 9 (.sub (.var 9) (.lit 1)) ] []

theorem protectLoop_runs (P : String → Option Fn) (less : LessFn K V) (pivot : Nat) (hp : pivot < B62) :
    ∀ (n a b : Nat) (env : Env) (s : St K V), b - a = n → a < B62 → b < B62 →
      env.get 6 = pivot → env.get 7 = a → env.get 9 = b →
      ∃ env', (∀ y, y ≠ 7 → y ≠ 9 → env'.get y = env.get y) ∧
        env'.get 7 = (((protectLoop less pivot a b s).1 : Nat) : Int) ∧
        env'.get 9 = (((protectLoop less pivot a b s).2.1 : Nat) : Int) ∧
        Seg (sortWorld less) P [protectLoopStmt] env s env' (protectLoop less pivot a b s).2.2 := by
  intro n
  induction n using Nat.strongRecOn with
  | _ n ih =>
    intro a b env s hn ha hb h6 h7 h9
    have hA : a < B62 := ha
    have hB : b < B62 := hb
    unfold B62 at hp ha hb
    have hb1 := scanDownNotLt_fst less pivot a b s
    obtain ⟨env1, hfr1, hv1, hk1⟩ := scanDownNotLt_runs P less pivot a (by unfold B62; omega) b env s hB h6 h7 h9
    have h6a : env1.get 6 = pivot := by rw [hfr1 6 (by decide)]; exact h6
    have h7a : env1.get 7 = a := by rw [hfr1 7 (by decide)]; exact h7
    have ha1 := scanUpLt_fst less pivot (scanDownNotLt less pivot a b s).1 a (scanDownNotLt less pivot a b s).2
    obtain ⟨env2, hfr2, hv2, hk2⟩ := scanUpLt_runs P less 9 (by decide) pivot (scanDownNotLt less pivot a b s).1
      (by unfold B62; omega) (by unfold B62; omega) _ a env1 (scanDownNotLt less pivot a b s).2 rfl h6a hv1 h7a
    have h6b : env2.get 6 = pivot := by rw [hfr2 6 (by decide)]; exact h6a
    have h9b : env2.get 9 = (((scanDownNotLt less pivot a b s).1 : Nat) : Int) := by rw [hfr2 9 (by decide)]; exact hv1
    rw [protectLoop]
    generalize hrb : scanDownNotLt less pivot a b s = rb at *
    generalize hra : scanUpLt less pivot rb.1 a rb.2 = ra at *
    have hseg : Seg (sortWorld less) P [scanDownNotLtStmt, scanUpLtStmt 9] env s env2 ra.2 :=
      Seg.trans (p1 := [scanDownNotLtStmt]) (p2 := [scanUpLtStmt 9]) hk1 hk2
    split
    · rename_i hge
      refine ⟨env2, fun y h7 h9 => by rw [hfr2 y h7, hfr1 y h9], hv2, h9b, ?_⟩
      refine Seg.loop_brk (by rfl) ?_
      refine hseg _ _ (Runs.ite_brk ?_)
      have hcnd : evalC (sortWorld less) env2 (.le (.var 9) (.var 7)) ra.2 = (true, ra.2) := by
        simp only [evalC, eval, hv2, h9b]
        have : ((rb.1 : Nat) : Int) ≤ ((ra.1 : Nat) : Int) := by omega
        simp only [this, decide_true]
      rw [hcnd]
      exact Runs.brk
    · rename_i hge
      have hcnd : evalC (sortWorld less) env2 (.le (.var 9) (.var 7)) ra.2 = (false, ra.2) := by
        simp only [evalC, eval, hv2, h9b]
        have : ¬ ((rb.1 : Nat) : Int) ≤ ((ra.1 : Nat) : Int) := by omega
        simp only [this, decide_false]
      have e7 : eval env2 (.add (.var 7) (.lit 1)) = ((ra.1 + 1 : Nat) : Int) := eval_add1 hv2 (by unfold B62; omega)
      have e9 : eval env2 (.sub (.var 9) (.lit 1)) = ((rb.1 - 1 : Nat) : Int) := eval_sub1 h9b (by unfold B62; omega) (by omega)
      have e9' : eval (env2.set 7 ((ra.1 + 1 : Nat) : Int)) (.sub (.var 9) (.lit 1)) = ((rb.1 - 1 : Nat) : Int) :=
        eval_sub1 (by rw [Env.get_set_ne _ _ (by decide)]; exact h9b) (by unfold B62; omega) (by omega)
      obtain ⟨env3, hfr3, hv7, hv9, hk3⟩ := ih ((rb.1 - 1) - (ra.1 + 1)) (by omega) (ra.1 + 1) (rb.1 - 1)
        ((env2.set 7 ((ra.1 + 1 : Nat) : Int)).set 9 ((rb.1 - 1 : Nat) : Int))
        (ra.2.swap ra.1 (rb.1 - 1)) rfl (by unfold B62; omega) (by unfold B62; omega)
        (by rw [Env.get_set_ne _ _ (by decide), Env.get_set_ne _ _ (by decide)]; exact h6b)
        (by rw [Env.get_set_ne _ _ (by decide), Env.get_set_eq]) (by rw [Env.get_set_eq])
      refine ⟨env3, fun y h7 h9 => by
        rw [hfr3 y h7 h9, Env.get_set_ne _ _ h9, Env.get_set_ne _ _ h7, hfr2 y h7, hfr1 y h9], hv7, hv9, ?_⟩
      refine Seg.loop_iter (by rfl) ?_ Seg.nil hk3
      refine Seg.trans (p2 := [.ite (.le (.var 9) (.var 7)) [.brk] [], .swap (.var 7) (.sub (.var 9) (.lit 1)),
        .set 7 (.add (.var 7) (.lit 1)), .set 9 (.sub (.var 9) (.lit 1))]) hseg ?_
      refine Seg.trans (p1 := [.ite (.le (.var 9) (.var 7)) [.brk] []]) (e1 := env2) (w1 := ra.2) ?_ ?_
      · refine Seg.ite ?_
        rw [hcnd]
        exact Seg.nil
      · refine Seg.trans (p1 := [.swap (.var 7) (.sub (.var 9) (.lit 1))]) Seg.swap ?_
        rw [swap_eq ra.2 (show eval env2 (.var 7) = _ from hv2) e9 (by unfold B62; omega) (by unfold B62; omega)]
        refine Seg.trans (p1 := [.set 7 (.add (.var 7) (.lit 1))]) Seg.set ?_
        rw [e7]
        have := Seg.set (W := sortWorld less) (P := P) (x := 9) (e := .sub (.var 9) (.lit 1))
          (env := env2.set 7 ((ra.1 + 1 : Nat) : Int)) (w := ra.2.swap ra.1 (rb.1 - 1))
        rwa [e9'] at this

/-! ### phase 1: the pivot selection (variables: 0 = lo, 1 = hi, 2 = midlo, 3 = midhi, 4 = m, 5 = s) -/

/-- the literal `40` of the generated term is the model's threshold (both regenerated from the same source) -/
theorem thrNinther_eq : thrNinther = 40 := by decide

theorem Seg.call0 {σ : Type} {W : World σ} {P : String → Option Fn} {g : String} {fn : Fn} {args : List Expr}
    {env : Env} {w w' : σ} (hP : P g = some fn) (hnp : fn.nparams = args.length) (hnr : fn.nresults = 0)
    (hf : FnRuns W P fn (args.map (eval env)) w [] w') : Seg W P [.call g args []] env w env w' :=
  Seg.call (res := []) (vs := []) hP hnp hnr hf rfl

def nintherStmts : List Stmt :=
  [ .set 5 (.divC (.sub (.var 1) (.var 0)) 8),
    .call "medianOfThree_func" [(.var 0), (.add (.var 0) (.var 5)), (.add (.var 0) (.mul (.lit 2) (.var 5)))] [],
    .call "medianOfThree_func" [(.var 4), (.sub (.var 4) (.var 5)), (.add (.var 4) (.var 5))] [],
    .call "medianOfThree_func" [(.sub (.var 1) (.lit 1)), (.sub (.sub (.var 1) (.lit 1)) (.var 5)),
      (.sub (.sub (.var 1) (.lit 1)) (.mul (.lit 2) (.var 5)))] [] ]

def choosePivotStmts : List Stmt :=
  [ .set 2 (.lit 0), .set 3 (.lit 0), .set 4 (.conv (.shrU (.conv (.add (.var 0) (.var 1))) 1)),
    .ite (.lt (.lit 40) (.sub (.var 1) (.var 0))) nintherStmts [],
    .call "medianOfThree_func" [(.var 0), (.var 4), (.sub (.var 1) (.lit 1))] [] ]

/-- the ninther: `s := (hi-lo)/8` and three medians of three -/
theorem ninther_runs (P : String → Option Fn) (hPm : P "medianOfThree_func" = some medianOfThree_func)
    (less : LessFn K V) (lo hi : Nat) (h : hi - lo > 40) (hhi : hi < B62) (env : Env) (s : St K V)
    (h0 : env.get 0 = lo) (h1 : env.get 1 = hi) (h4 : env.get 4 = (((lo + hi) / 2 : Nat) : Int)) :
    ∃ env', (∀ y, y ≠ 5 → env'.get y = env.get y) ∧
      Seg (sortWorld less) P nintherStmts env s env'
        (medianOfThree less (hi - 1) (hi - 1 - (hi - lo) / 8) (hi - 1 - 2 * ((hi - lo) / 8))
          (medianOfThree less ((lo + hi) / 2) ((lo + hi) / 2 - (hi - lo) / 8) ((lo + hi) / 2 + (hi - lo) / 8)
            (medianOfThree less lo (lo + (hi - lo) / 8) (lo + 2 * ((hi - lo) / 8)) s))) := by
  have hB := hhi
  unfold B62 at hhi
  have e5 : eval env (.divC (.sub (.var 1) (.var 0)) 8) = (((hi - lo) / 8 : Nat) : Int) := by
    have e : wrap ((hi : Int) - lo) = ((hi - lo : Nat) : Int) := by rw [wrap_eq (by omega) (by omega)]; omega
    simp only [eval, h0, h1]
    rw [e, ← Int.ofNat_tdiv, wrap_eq (by omega) (by omega)]
  obtain ⟨env5, he5⟩ : ∃ e, e = env.set 5 (((hi - lo) / 8 : Nat) : Int) := ⟨_, rfl⟩
  refine ⟨env5, fun y hy => by rw [he5]; exact Env.get_set_ne _ _ hy, ?_⟩
  have g0 : env5.get 0 = lo := by rw [he5, Env.get_set_ne _ _ (by decide)]; exact h0
  have g1 : env5.get 1 = hi := by rw [he5, Env.get_set_ne _ _ (by decide)]; exact h1
  have g4 : env5.get 4 = (((lo + hi) / 2 : Nat) : Int) := by rw [he5, Env.get_set_ne _ _ (by decide)]; exact h4
  have g5 : env5.get 5 = (((hi - lo) / 8 : Nat) : Int) := by rw [he5]; exact Env.get_set_eq _ _ _
  have a1 : ([(.var 0), (.add (.var 0) (.var 5)), (.add (.var 0) (.mul (.lit 2) (.var 5)))] : List Expr).map (eval env5) =
      [(lo : Int), ((lo + (hi - lo) / 8 : Nat) : Int), ((lo + 2 * ((hi - lo) / 8) : Nat) : Int)] := by
    simp (disch := omega) only [List.map, eval, g0, g1, g4, g5, wrap_eq]
    simp only [List.cons.injEq, and_true, true_and]
    omega
  have a2 : ([(.var 4), (.sub (.var 4) (.var 5)), (.add (.var 4) (.var 5))] : List Expr).map (eval env5) =
      [(((lo + hi) / 2 : Nat) : Int), (((lo + hi) / 2 - (hi - lo) / 8 : Nat) : Int),
        (((lo + hi) / 2 + (hi - lo) / 8 : Nat) : Int)] := by
    simp (disch := omega) only [List.map, eval, g0, g1, g4, g5, wrap_eq]
    simp only [List.cons.injEq, and_true, true_and]
    omega
  have a3 : ([(.sub (.var 1) (.lit 1)), (.sub (.sub (.var 1) (.lit 1)) (.var 5)),
        (.sub (.sub (.var 1) (.lit 1)) (.mul (.lit 2) (.var 5)))] : List Expr).map (eval env5) =
      [((hi - 1 : Nat) : Int), ((hi - 1 - (hi - lo) / 8 : Nat) : Int), ((hi - 1 - 2 * ((hi - lo) / 8) : Nat) : Int)] := by
    simp (disch := omega) only [List.map, eval, g0, g1, g4, g5, wrap_eq]
    simp only [List.cons.injEq, and_true, true_and]
    omega
  have hset : Seg (sortWorld less) P [.set 5 (.divC (.sub (.var 1) (.var 0)) 8)] env s env5 s := by
    have := Seg.set (W := sortWorld less) (P := P) (x := 5) (e := .divC (.sub (.var 1) (.var 0)) 8) (env := env) (w := s)
    rwa [e5, ← he5] at this
  have m1 := medianOfThree_runs P less lo (lo + (hi - lo) / 8) (lo + 2 * ((hi - lo) / 8))
    (by unfold B62; omega) (by unfold B62; omega) (by unfold B62; omega) s
  have m2 := medianOfThree_runs P less ((lo + hi) / 2) ((lo + hi) / 2 - (hi - lo) / 8) ((lo + hi) / 2 + (hi - lo) / 8)
    (by unfold B62; omega) (by unfold B62; omega) (by unfold B62; omega)
    (medianOfThree less lo (lo + (hi - lo) / 8) (lo + 2 * ((hi - lo) / 8)) s)
  have m3 := medianOfThree_runs P less (hi - 1) (hi - 1 - (hi - lo) / 8) (hi - 1 - 2 * ((hi - lo) / 8))
    (by unfold B62; omega) (by unfold B62; omega) (by unfold B62; omega)
    (medianOfThree less ((lo + hi) / 2) ((lo + hi) / 2 - (hi - lo) / 8) ((lo + hi) / 2 + (hi - lo) / 8)
      (medianOfThree less lo (lo + (hi - lo) / 8) (lo + 2 * ((hi - lo) / 8)) s))
  rw [← a1] at m1
  rw [← a2] at m2
  rw [← a3] at m3
  exact hset.trans ((Seg.call0 hPm rfl rfl m1).trans ((Seg.call0 hPm rfl rfl m2).trans (Seg.call0 hPm rfl rfl m3)))

/-- phase 1: `m := int(uint(lo+hi) >> 1)`, the ninther for long ranges, the median of three; the pivot ends at `lo` -/
theorem choosePivot_runs (P : String → Option Fn) (hPm : P "medianOfThree_func" = some medianOfThree_func)
    (less : LessFn K V) (lo hi : Nat) (h : lo + 3 ≤ hi) (hhi : hi < B62) (env : Env) (s : St K V)
    (h0 : env.get 0 = lo) (h1 : env.get 1 = hi) :
    ∃ env', env'.get 0 = (lo : Int) ∧ env'.get 1 = (hi : Int) ∧ env'.get 4 = (((lo + hi) / 2 : Nat) : Int) ∧
      Seg (sortWorld less) P choosePivotStmts env s env' (choosePivot less lo hi s) := by
  have hB := hhi
  unfold B62 at hhi
  obtain ⟨env2, he2⟩ : ∃ e, e = (env.set 2 (eval env (.lit 0))).set 3 (eval (env.set 2 (eval env (.lit 0))) (.lit 0)) :=
    ⟨_, rfl⟩
  have k0 : env2.get 0 = lo := by rw [he2, Env.get_set_ne _ _ (by decide), Env.get_set_ne _ _ (by decide)]; exact h0
  have k1 : env2.get 1 = hi := by rw [he2, Env.get_set_ne _ _ (by decide), Env.get_set_ne _ _ (by decide)]; exact h1
  have e4 : eval env2 (.conv (.shrU (.conv (.add (.var 0) (.var 1))) 1)) = (((lo + hi) / 2 : Nat) : Int) := by
    simp (disch := omega) only [eval, k0, k1, wrap_eq, Int.reducePow]
    omega
  obtain ⟨env3, he3⟩ : ∃ e, e = env2.set 4 (((lo + hi) / 2 : Nat) : Int) := ⟨_, rfl⟩
  have g0 : env3.get 0 = lo := by rw [he3, Env.get_set_ne _ _ (by decide)]; exact k0
  have g1 : env3.get 1 = hi := by rw [he3, Env.get_set_ne _ _ (by decide)]; exact k1
  have g4 : env3.get 4 = (((lo + hi) / 2 : Nat) : Int) := by rw [he3]; exact Env.get_set_eq _ _ _
  have hpre : Seg (sortWorld less) P
      [.set 2 (.lit 0), .set 3 (.lit 0), .set 4 (.conv (.shrU (.conv (.add (.var 0) (.var 1))) 1))] env s env3 s := by
    have := (Seg.set (W := sortWorld less) (P := P) (x := 2) (e := .lit 0) (env := env) (w := s)).trans
      ((Seg.set (x := 3) (e := .lit 0)).trans (Seg.set (x := 4) (e := .conv (.shrU (.conv (.add (.var 0) (.var 1))) 1))))
    rw [← he2, e4, ← he3] at this
    exact this
  -- the final median of three, from any environment that still holds lo, hi, m
  have hlast : ∀ (env4 : Env) (s4 : St K V), env4.get 0 = lo → env4.get 1 = hi → env4.get 4 = (((lo + hi) / 2 : Nat) : Int) →
      Seg (sortWorld less) P [.call "medianOfThree_func" [(.var 0), (.var 4), (.sub (.var 1) (.lit 1))] []] env4 s4 env4
        (medianOfThree less lo ((lo + hi) / 2) (hi - 1) s4) := by
    intro env4 s4 q0 q1 q4
    have a : ([(.var 0), (.var 4), (.sub (.var 1) (.lit 1))] : List Expr).map (eval env4) =
        [(lo : Int), (((lo + hi) / 2 : Nat) : Int), ((hi - 1 : Nat) : Int)] := by
      simp (disch := omega) only [List.map, eval, q0, q1, q4, wrap_eq]
      simp only [List.cons.injEq, and_true, true_and]
      omega
    have m := medianOfThree_runs P less lo ((lo + hi) / 2) (hi - 1)
      (by unfold B62; omega) (by unfold B62; omega) (by unfold B62; omega) s4
    rw [← a] at m
    exact Seg.call0 hPm rfl rfl m
  unfold choosePivot
  simp only [thrNinther_eq, divNinther_eq]
  by_cases hn : hi - lo > 40
  · rw [if_pos hn]
    obtain ⟨env4, hfr, hk⟩ := ninther_runs P hPm less lo hi hn hB env3 s g0 g1 g4
    have q0 : env4.get 0 = lo := by rw [hfr 0 (by decide)]; exact g0
    have q1 : env4.get 1 = hi := by rw [hfr 1 (by decide)]; exact g1
    have q4 : env4.get 4 = (((lo + hi) / 2 : Nat) : Int) := by rw [hfr 4 (by decide)]; exact g4
    refine ⟨env4, q0, q1, q4, ?_⟩
    have hcnd : evalC (sortWorld less) env3 (.lt (.lit 40) (.sub (.var 1) (.var 0))) s = (true, s) := by
      simp (disch := omega) only [evalC, eval, g0, g1, wrap_eq]
      have : (40 : Int) < (hi : Int) - (lo : Int) := by omega
      simp only [this, decide_true]
    refine hpre.trans (Seg.trans (p1 := [.ite (.lt (.lit 40) (.sub (.var 1) (.var 0))) nintherStmts []]) ?_ (hlast env4 _ q0 q1 q4))
    refine Seg.ite ?_
    rw [hcnd]
    exact hk
  · rw [if_neg hn]
    refine ⟨env3, g0, g1, g4, ?_⟩
    have hcnd : evalC (sortWorld less) env3 (.lt (.lit 40) (.sub (.var 1) (.var 0))) s = (false, s) := by
      simp (disch := omega) only [evalC, eval, g0, g1, wrap_eq]
      have : ¬ (40 : Int) < (hi : Int) - (lo : Int) := by omega
      simp only [this, decide_false]
    refine hpre.trans (Seg.trans (p1 := [.ite (.lt (.lit 40) (.sub (.var 1) (.var 0))) nintherStmts []]) ?_ (hlast env3 _ g0 g1 g4))
    refine Seg.ite ?_
    rw [hcnd]
    exact Seg.nil

/-! ### phase 2: the partition (variables: 6 = pivot, 7 = a, 8 = c, 9 = b) -/

def partitionStmts : List Stmt :=
  [ .set 6 (.var 0), .set2 7 8 (.add (.var 0) (.lit 1)) (.sub (.var 1) (.lit 1)), scanUpLtStmt 8, .set 9 (.var 7),
    partLoopStmt ]

/-- `pivot := lo; a, c := lo+1, hi-1; for ; a < c && Less(a, pivot); a++ {}; b := a; for { … }` -/
theorem partition_runs (P : String → Option Fn) (less : LessFn K V) (lo hi : Nat) (h : lo + 3 ≤ hi) (hhi : hi < B62)
    (env : Env) (s : St K V) (h0 : env.get 0 = lo) (h1 : env.get 1 = hi) :
    ∃ env', (∀ y, y ≠ 6 → y ≠ 7 → y ≠ 8 → y ≠ 9 → env'.get y = env.get y) ∧ env'.get 6 = (lo : Int) ∧
      env'.get 7 = (((scanUpLt less lo (hi - 1) (lo + 1) s).1 : Nat) : Int) ∧
      env'.get 9 = (((partLoop less lo (scanUpLt less lo (hi - 1) (lo + 1) s).1 (hi - 1)
        (scanUpLt less lo (hi - 1) (lo + 1) s).2).1 : Nat) : Int) ∧
      env'.get 8 = (((partLoop less lo (scanUpLt less lo (hi - 1) (lo + 1) s).1 (hi - 1)
        (scanUpLt less lo (hi - 1) (lo + 1) s).2).2.1 : Nat) : Int) ∧
      Seg (sortWorld less) P partitionStmts env s env'
        (partLoop less lo (scanUpLt less lo (hi - 1) (lo + 1) s).1 (hi - 1) (scanUpLt less lo (hi - 1) (lo + 1) s).2).2.2 := by
  have hB := hhi
  unfold B62 at hhi
  have e6 : eval env (.var 0) = (lo : Int) := h0
  obtain ⟨env6, he6⟩ : ∃ e, e = env.set 6 (lo : Int) := ⟨_, rfl⟩
  have k0 : env6.get 0 = lo := by rw [he6, Env.get_set_ne _ _ (by decide)]; exact h0
  have k1 : env6.get 1 = hi := by rw [he6, Env.get_set_ne _ _ (by decide)]; exact h1
  have e7 : eval env6 (.add (.var 0) (.lit 1)) = ((lo + 1 : Nat) : Int) := eval_add1 k0 (by unfold B62; omega)
  have e8 : eval env6 (.sub (.var 1) (.lit 1)) = ((hi - 1 : Nat) : Int) := eval_sub1 k1 hB (by omega)
  obtain ⟨env8, he8⟩ : ∃ e, e = (env6.set 7 ((lo + 1 : Nat) : Int)).set 8 ((hi - 1 : Nat) : Int) := ⟨_, rfl⟩
  have hpre : Seg (sortWorld less) P [.set 6 (.var 0), .set2 7 8 (.add (.var 0) (.lit 1)) (.sub (.var 1) (.lit 1))]
      env s env8 s := by
    have := (Seg.set (W := sortWorld less) (P := P) (x := 6) (e := .var 0) (env := env) (w := s)).trans
      (Seg.set2 (x := 7) (y := 8) (e1 := .add (.var 0) (.lit 1)) (e2 := .sub (.var 1) (.lit 1)))
    rw [e6, ← he6, e7, e8, ← he8] at this
    exact this
  have g6 : env8.get 6 = lo := by
    rw [he8, Env.get_set_ne _ _ (by decide), Env.get_set_ne _ _ (by decide), he6]; exact Env.get_set_eq _ _ _
  have g7 : env8.get 7 = ((lo + 1 : Nat) : Int) := by
    rw [he8, Env.get_set_ne _ _ (by decide)]; exact Env.get_set_eq _ _ _
  have g8 : env8.get 8 = ((hi - 1 : Nat) : Int) := by rw [he8]; exact Env.get_set_eq _ _ _
  have hfr8 : ∀ y, y ≠ 6 → y ≠ 7 → y ≠ 8 → env8.get y = env.get y := fun y h6 h7 h8 => by
    rw [he8, Env.get_set_ne _ _ h8, Env.get_set_ne _ _ h7, he6, Env.get_set_ne _ _ h6]
  have ha := scanUpLt_fst less lo (hi - 1) (lo + 1) s
  obtain ⟨env9, hfr9, hv7, hk9⟩ := scanUpLt_runs P less 8 (by decide) lo (hi - 1) (by unfold B62; omega)
    (by unfold B62; omega) _ (lo + 1) env8 s rfl g6 g8 g7
  generalize scanUpLt less lo (hi - 1) (lo + 1) s = ra at *
  obtain ⟨env10, he10⟩ : ∃ e, e = env9.set 9 ((ra.1 : Nat) : Int) := ⟨_, rfl⟩
  have hb9 : Seg (sortWorld less) P [.set 9 (.var 7)] env9 ra.2 env10 ra.2 := by
    have := Seg.set (W := sortWorld less) (P := P) (x := 9) (e := .var 7) (env := env9) (w := ra.2)
    rw [show eval env9 (.var 7) = ((ra.1 : Nat) : Int) from hv7, ← he10] at this
    exact this
  have q6 : env10.get 6 = lo := by rw [he10, Env.get_set_ne _ _ (by decide), hfr9 6 (by decide)]; exact g6
  have q7 : env10.get 7 = ((ra.1 : Nat) : Int) := by rw [he10, Env.get_set_ne _ _ (by decide)]; exact hv7
  have q8 : env10.get 8 = ((hi - 1 : Nat) : Int) := by rw [he10, Env.get_set_ne _ _ (by decide), hfr9 8 (by decide)]; exact g8
  have q9 : env10.get 9 = ((ra.1 : Nat) : Int) := by rw [he10]; exact Env.get_set_eq _ _ _
  obtain ⟨env11, hfr11, hv9, hv8, hk11⟩ := partLoop_runs P less lo (by unfold B62; omega) _ ra.1 (hi - 1) env10 ra.2 rfl
    (by omega) (by unfold B62; omega) q6 q9 q8
  refine ⟨env11, fun y h6 h7 h8 h9 => by
    rw [hfr11 y h8 h9, he10, Env.get_set_ne _ _ h9, hfr9 y h7, hfr8 y h6 h7 h8], ?_, ?_, hv9, hv8, ?_⟩
  · rw [hfr11 6 (by decide) (by decide)]; exact q6
  · rw [hfr11 7 (by decide) (by decide)]; exact q7
  · exact hpre.trans (Seg.trans (p1 := [scanUpLtStmt 8]) hk9 (hb9.trans hk11))

/-! ### phase 3: the duplicate probes (variables: 1 = hi, 4 = m, 6 = pivot, 8 = c, 9 = b, 11 = dups) -/

def probe1Stmt : Stmt :=
  .ite (.not (.less (.var 6) (.sub (.var 1) (.lit 1))))
    [.swap (.var 8) (.sub (.var 1) (.lit 1)), .set 8 (.add (.var 8) (.lit 1)), .set 11 (.add (.var 11) (.lit 1))] []

def probe2Stmt : Stmt :=
  .ite (.not (.less (.sub (.var 9) (.lit 1)) (.var 6)))
    [.set 9 (.sub (.var 9) (.lit 1)), .set 11 (.add (.var 11) (.lit 1))] []

def probe3Stmt : Stmt :=
  .ite (.not (.less (.var 4) (.var 6)))
    [.swap (.var 4) (.sub (.var 9) (.lit 1)), .set 9 (.sub (.var 9) (.lit 1)), .set 11 (.add (.var 11) (.lit 1))] []

/-- `if !data.Less(pivot, hi-1) { data.Swap(c, hi-1); c++; dups++ }` (with `dups = 0` before) -/
theorem dupProbe1_runs (P : String → Option Fn) (less : LessFn K V) (pivot hi c : Nat) (hp : pivot < B62)
    (hhi : hi < B62) (h1 : 1 ≤ hi) (hc : c < B62) (env : Env) (s : St K V)
    (g1 : env.get 1 = hi) (g6 : env.get 6 = pivot) (g8 : env.get 8 = c) (g11 : env.get 11 = ((0 : Nat) : Int)) :
    ∃ env', (∀ y, y ≠ 8 → y ≠ 11 → env'.get y = env.get y) ∧
      env'.get 8 = (((dupProbe1 less pivot hi c s).1 : Nat) : Int) ∧
      env'.get 11 = (((dupProbe1 less pivot hi c s).2.1 : Nat) : Int) ∧
      Seg (sortWorld less) P [probe1Stmt] env s env' (dupProbe1 less pivot hi c s).2.2 := by
  have eh : eval env (.sub (.var 1) (.lit 1)) = ((hi - 1 : Nat) : Int) := eval_sub1 g1 hhi h1
  have hcnd := evalC_notLess (less := less) s (show eval env (.var 6) = _ from g6) eh hp (by unfold B62 at *; omega)
  unfold dupProbe1
  cases hr : less s pivot (hi - 1)
  · rw [hr] at hcnd
    simp only [Bool.not_false, if_true]
    have e8 : eval env (.add (.var 8) (.lit 1)) = ((c + 1 : Nat) : Int) := eval_add1 g8 hc
    have e11 : eval (env.set 8 ((c + 1 : Nat) : Int)) (.add (.var 11) (.lit 1)) = ((0 + 1 : Nat) : Int) :=
      eval_add1 (by rw [Env.get_set_ne _ _ (by decide)]; exact g11) (by unfold B62; omega)
    refine ⟨(env.set 8 ((c + 1 : Nat) : Int)).set 11 ((0 + 1 : Nat) : Int),
      fun y h8 h11 => by rw [Env.get_set_ne _ _ h11, Env.get_set_ne _ _ h8],
      by rw [Env.get_set_ne _ _ (by decide), Env.get_set_eq], by rw [Env.get_set_eq], ?_⟩
    refine Seg.ite ?_
    rw [hcnd]
    simp only [if_true]
    refine Seg.trans (p1 := [.swap (.var 8) (.sub (.var 1) (.lit 1))]) Seg.swap ?_
    rw [swap_eq _ (show eval env (.var 8) = _ from g8) eh hc (by unfold B62 at *; omega)]
    have := (Seg.set (W := sortWorld less) (P := P) (x := 8) (e := .add (.var 8) (.lit 1)) (env := env)
      (w := (s.note pivot (hi - 1) false).swap c (hi - 1))).trans (Seg.set (x := 11) (e := .add (.var 11) (.lit 1)))
    rw [e8, e11] at this
    exact this
  · rw [hr] at hcnd
    simp only [Bool.not_true, Bool.false_eq_true, if_false]
    refine ⟨env, fun _ _ _ => rfl, g8, g11, ?_⟩
    refine Seg.ite ?_
    rw [hcnd]
    exact Seg.nil

/-- `if !data.Less(b-1, pivot) { b--; dups++ }` -/
theorem dupProbe2_runs (P : String → Option Fn) (less : LessFn K V) (pivot b dups : Nat) (hp : pivot < B62)
    (hb : b < B62) (h1 : 1 ≤ b) (hd : dups < B62) (env : Env) (s : St K V)
    (g6 : env.get 6 = pivot) (g9 : env.get 9 = b) (g11 : env.get 11 = dups) :
    ∃ env', (∀ y, y ≠ 9 → y ≠ 11 → env'.get y = env.get y) ∧
      env'.get 9 = (((dupProbe2 less pivot b dups s).1 : Nat) : Int) ∧
      env'.get 11 = (((dupProbe2 less pivot b dups s).2.1 : Nat) : Int) ∧
      Seg (sortWorld less) P [probe2Stmt] env s env' (dupProbe2 less pivot b dups s).2.2 := by
  have eb : eval env (.sub (.var 9) (.lit 1)) = ((b - 1 : Nat) : Int) := eval_sub1 g9 hb h1
  have hcnd := evalC_notLess (less := less) s eb (show eval env (.var 6) = _ from g6) (by unfold B62 at *; omega) hp
  unfold dupProbe2
  cases hr : less s (b - 1) pivot
  · rw [hr] at hcnd
    simp only [Bool.not_false, if_true]
    have e11 : eval (env.set 9 ((b - 1 : Nat) : Int)) (.add (.var 11) (.lit 1)) = ((dups + 1 : Nat) : Int) :=
      eval_add1 (by rw [Env.get_set_ne _ _ (by decide)]; exact g11) hd
    refine ⟨(env.set 9 ((b - 1 : Nat) : Int)).set 11 ((dups + 1 : Nat) : Int),
      fun y h9 h11 => by rw [Env.get_set_ne _ _ h11, Env.get_set_ne _ _ h9],
      by rw [Env.get_set_ne _ _ (by decide), Env.get_set_eq], by rw [Env.get_set_eq], ?_⟩
    refine Seg.ite ?_
    rw [hcnd]
    simp only [if_true]
    have := (Seg.set (W := sortWorld less) (P := P) (x := 9) (e := .sub (.var 9) (.lit 1)) (env := env)
      (w := s.note (b - 1) pivot false)).trans (Seg.set (x := 11) (e := .add (.var 11) (.lit 1)))
    rw [eb, e11] at this
    exact this
  · rw [hr] at hcnd
    simp only [Bool.not_true, Bool.false_eq_true, if_false]
    refine ⟨env, fun _ _ _ => rfl, g9, g11, ?_⟩
    refine Seg.ite ?_
    rw [hcnd]
    exact Seg.nil

/-- `if !data.Less(m, pivot) { data.Swap(m, b-1); b--; dups++ }` -/
theorem dupProbe3_runs (P : String → Option Fn) (less : LessFn K V) (pivot m b dups : Nat) (hp : pivot < B62)
    (hm : m < B62) (hb : b < B62) (h1 : 1 ≤ b) (hd : dups < B62) (env : Env) (s : St K V)
    (g4 : env.get 4 = m) (g6 : env.get 6 = pivot) (g9 : env.get 9 = b) (g11 : env.get 11 = dups) :
    ∃ env', (∀ y, y ≠ 9 → y ≠ 11 → env'.get y = env.get y) ∧
      env'.get 9 = (((dupProbe3 less pivot m b dups s).1 : Nat) : Int) ∧
      env'.get 11 = (((dupProbe3 less pivot m b dups s).2.1 : Nat) : Int) ∧
      Seg (sortWorld less) P [probe3Stmt] env s env' (dupProbe3 less pivot m b dups s).2.2 := by
  have eb : eval env (.sub (.var 9) (.lit 1)) = ((b - 1 : Nat) : Int) := eval_sub1 g9 hb h1
  have hcnd := evalC_notLess (less := less) s (show eval env (.var 4) = _ from g4) (show eval env (.var 6) = _ from g6) hm hp
  unfold dupProbe3
  cases hr : less s m pivot
  · rw [hr] at hcnd
    simp only [Bool.not_false, if_true]
    have e11 : eval (env.set 9 ((b - 1 : Nat) : Int)) (.add (.var 11) (.lit 1)) = ((dups + 1 : Nat) : Int) :=
      eval_add1 (by rw [Env.get_set_ne _ _ (by decide)]; exact g11) hd
    refine ⟨(env.set 9 ((b - 1 : Nat) : Int)).set 11 ((dups + 1 : Nat) : Int),
      fun y h9 h11 => by rw [Env.get_set_ne _ _ h11, Env.get_set_ne _ _ h9],
      by rw [Env.get_set_ne _ _ (by decide), Env.get_set_eq], by rw [Env.get_set_eq], ?_⟩
    refine Seg.ite ?_
    rw [hcnd]
    simp only [if_true]
    refine Seg.trans (p1 := [.swap (.var 4) (.sub (.var 9) (.lit 1))]) Seg.swap ?_
    rw [swap_eq _ (show eval env (.var 4) = _ from g4) eb hm (by unfold B62 at *; omega)]
    have := (Seg.set (W := sortWorld less) (P := P) (x := 9) (e := .sub (.var 9) (.lit 1)) (env := env)
      (w := (s.note m pivot false).swap m (b - 1))).trans (Seg.set (x := 11) (e := .add (.var 11) (.lit 1)))
    rw [eb, e11] at this
    exact this
  · rw [hr] at hcnd
    simp only [Bool.not_true, Bool.false_eq_true, if_false]
    refine ⟨env, fun _ _ _ => rfl, g9, g11, ?_⟩
    refine Seg.ite ?_
    rw [hcnd]
    exact Seg.nil

/-! ### phase 4: the decision whether to run the protect loop (variable 10 = protect) -/

def dupStmts : List Stmt :=
  [ .setB 10 (.lt (.sub (.var 1) (.var 8)) (.lit 5)),
    .ite (.and (.not (.bvar 10)) (.lt (.sub (.var 1) (.var 8)) (.divC (.sub (.var 1) (.var 0)) 4)))
      [.set 11 (.lit 0), probe1Stmt, probe2Stmt, probe3Stmt, .setB 10 (.lt (.lit 1) (.var 11))] [] ]

theorem dupProbe1_fst_dups (less : LessFn K V) (pivot hi c : Nat) (s : St K V) :
    (dupProbe1 less pivot hi c s).2.1 ≤ 1 := by
  unfold dupProbe1
  dsimp only
  split <;> simp

theorem dupProbe2_fst_dups (less : LessFn K V) (pivot b dups : Nat) (s : St K V) :
    b - 1 ≤ (dupProbe2 less pivot b dups s).1 ∧ (dupProbe2 less pivot b dups s).1 ≤ b ∧
    (dupProbe2 less pivot b dups s).2.1 ≤ dups + 1 := by
  unfold dupProbe2
  dsimp only
  split <;> simp

/-- `protect := hi-c < 5; if !protect && hi-c < (hi-lo)/4 { dups := 0; …three probes…; protect = dups > 1 }` -/
theorem dupPhase_runs (P : String → Option Fn) (less : LessFn K V) (lo hi b c : Nat) (h : lo + 3 ≤ hi) (hhi : hi < B62)
    (hc : c ≤ hi - 1) (hcb : c ≤ b) (hbc : b ≤ c + 1) (env : Env) (s : St K V)
    (g0 : env.get 0 = lo) (g1 : env.get 1 = hi) (g4 : env.get 4 = (((lo + hi) / 2 : Nat) : Int)) (g6 : env.get 6 = lo)
    (g8 : env.get 8 = c) (g9 : env.get 9 = b) :
    ∃ env', (∀ y, y ≠ 8 → y ≠ 9 → y ≠ 10 → y ≠ 11 → env'.get y = env.get y) ∧
      env'.get 9 = (((dupPhase less lo hi b c s).1 : Nat) : Int) ∧
      env'.get 8 = (((dupPhase less lo hi b c s).2.1 : Nat) : Int) ∧
      env'.get 10 = (if (dupPhase less lo hi b c s).2.2.1 then 1 else 0) ∧
      Seg (sortWorld less) P dupStmts env s env' (dupPhase less lo hi b c s).2.2.2 := by
  have hB := hhi
  unfold B62 at hhi
  have hprot : evalC (sortWorld less) env (.lt (.sub (.var 1) (.var 8)) (.lit 5)) s = (decide (hi - c < 5), s) := by
    simp (disch := omega) only [evalC, eval, g1, g8, wrap_eq]
    have : ((hi : Int) - (c : Int) < 5) ↔ (hi - c < 5) := by omega
    simp only [this]
  obtain ⟨env10, he10⟩ : ∃ e, e = env.set 10 (if decide (hi - c < 5) = true then 1 else 0) := ⟨_, rfl⟩
  have hpre : Seg (sortWorld less) P [.setB 10 (.lt (.sub (.var 1) (.var 8)) (.lit 5))] env s env10 s := by
    have := Seg.setB (W := sortWorld less) (P := P) (x := 10) (c := .lt (.sub (.var 1) (.var 8)) (.lit 5)) (env := env) (w := s)
    rw [hprot, ← he10] at this
    exact this
  have hfr10 : ∀ y, y ≠ 10 → env10.get y = env.get y := fun y hy => by rw [he10, Env.get_set_ne _ _ hy]
  have k0 : env10.get 0 = lo := by rw [hfr10 0 (by decide)]; exact g0
  have k1 : env10.get 1 = hi := by rw [hfr10 1 (by decide)]; exact g1
  have k4 : env10.get 4 = (((lo + hi) / 2 : Nat) : Int) := by rw [hfr10 4 (by decide)]; exact g4
  have k6 : env10.get 6 = lo := by rw [hfr10 6 (by decide)]; exact g6
  have k8 : env10.get 8 = c := by rw [hfr10 8 (by decide)]; exact g8
  have k9 : env10.get 9 = b := by rw [hfr10 9 (by decide)]; exact g9
  have k10 : env10.get 10 = if decide (hi - c < 5) = true then 1 else 0 := by rw [he10]; exact Env.get_set_eq _ _ _
  have ediv : eval env10 (.divC (.sub (.var 1) (.var 0)) 4) = (((hi - lo) / 4 : Nat) : Int) := by
    have e : wrap ((hi : Int) - lo) = ((hi - lo : Nat) : Int) := by rw [wrap_eq (by omega) (by omega)]; omega
    simp only [eval, k0, k1]
    rw [e, ← Int.ofNat_tdiv, wrap_eq (by omega) (by omega)]
  have esub : eval env10 (.sub (.var 1) (.var 8)) = ((hi - c : Nat) : Int) := by
    simp (disch := omega) only [eval, k1, k8, wrap_eq]
    omega
  have hcond : evalC (sortWorld less) env10
      (.and (.not (.bvar 10)) (.lt (.sub (.var 1) (.var 8)) (.divC (.sub (.var 1) (.var 0)) 4))) s =
      ((!decide (hi - c < 5) && decide (hi - c < (hi - lo) / 4)), s) := by
    simp only [evalC, ediv, esub, k10]
    by_cases hp : hi - c < 5
    · simp only [hp, decide_true, if_true]
      rfl
    · simp only [hp, decide_false, Bool.false_eq_true, if_false]
      have : (((hi - c : Nat) : Int) < (((hi - lo) / 4 : Nat) : Int)) ↔ (hi - c < (hi - lo) / 4) := by omega
      simp only [this]
      by_cases hq : hi - c < (hi - lo) / 4 <;> simp [hq]
  unfold dupPhase
  simp only [thrProtect_eq, divDups_eq]
  by_cases hgo : (!decide (hi - c < 5) && decide (hi - c < (hi - lo) / 4)) = true
  · rw [if_pos hgo]
    rw [hgo] at hcond
    have hgo' : ¬ hi - c < 5 ∧ hi - c < (hi - lo) / 4 := by simpa using hgo
    -- dups := 0
    have e11 : eval env10 (.lit 0) = ((0 : Nat) : Int) := by
      simp only [eval]; rw [wrap_eq (by omega) (by omega)]; rfl
    obtain ⟨env11, he11⟩ : ∃ e, e = env10.set 11 ((0 : Nat) : Int) := ⟨_, rfl⟩
    have hs11 : Seg (sortWorld less) P [.set 11 (.lit 0)] env10 s env11 s := by
      have := Seg.set (W := sortWorld less) (P := P) (x := 11) (e := .lit 0) (env := env10) (w := s)
      rw [e11, ← he11] at this
      exact this
    have hfr11 : ∀ y, y ≠ 11 → env11.get y = env10.get y := fun y hy => by rw [he11, Env.get_set_ne _ _ hy]
    have q11 : env11.get 11 = ((0 : Nat) : Int) := by rw [he11]; exact Env.get_set_eq _ _ _
    -- probe 1
    obtain ⟨env12, hfr12, v8, v11, hk12⟩ := dupProbe1_runs P less lo hi c (by unfold B62; omega) hB (by omega)
      (by unfold B62; omega) env11 s (by rw [hfr11 1 (by decide)]; exact k1) (by rw [hfr11 6 (by decide)]; exact k6)
      (by rw [hfr11 8 (by decide)]; exact k8) q11
    have hd1 := dupProbe1_fst_dups less lo hi c s
    obtain ⟨p1, hp1⟩ : ∃ p, p = dupProbe1 less lo hi c s := ⟨_, rfl⟩
    rw [← hp1] at v8 v11 hk12 hd1
    -- probe 2
    obtain ⟨env13, hfr13, v9, v11b, hk13⟩ := dupProbe2_runs P less lo b p1.2.1 (by unfold B62; omega) (by unfold B62; omega)
      (by omega) (by unfold B62; omega) env12 p1.2.2
      (by rw [hfr12 6 (by decide) (by decide), hfr11 6 (by decide)]; exact k6)
      (by rw [hfr12 9 (by decide) (by decide), hfr11 9 (by decide)]; exact k9) v11
    have hd2 := dupProbe2_fst_dups less lo b p1.2.1 p1.2.2
    obtain ⟨p2, hp2⟩ : ∃ p, p = dupProbe2 less lo b p1.2.1 p1.2.2 := ⟨_, rfl⟩
    rw [← hp2] at v9 v11b hk13 hd2
    -- probe 3
    obtain ⟨env14, hfr14, v9c, v11c, hk14⟩ := dupProbe3_runs P less lo ((lo + hi) / 2) p2.1 p2.2.1 (by unfold B62; omega)
      (by unfold B62; omega) (by unfold B62; omega) (by omega) (by unfold B62; omega) env13 p2.2.2
      (by rw [hfr13 4 (by decide) (by decide), hfr12 4 (by decide) (by decide), hfr11 4 (by decide)]; exact k4)
      (by rw [hfr13 6 (by decide) (by decide), hfr12 6 (by decide) (by decide), hfr11 6 (by decide)]; exact k6) v9 v11b
    obtain ⟨p3, hp3⟩ : ∃ p, p = dupProbe3 less lo ((lo + hi) / 2) p2.1 p2.2.1 p2.2.2 := ⟨_, rfl⟩
    rw [← hp3] at v9c v11c hk14
    -- protect = dups > 1
    have hlast : evalC (sortWorld less) env14 (.lt (.lit 1) (.var 11)) p3.2.2 = (decide (p3.2.1 > 1), p3.2.2) := by
      simp (disch := omega) only [evalC, eval, v11c, wrap_eq]
      have : ((1 : Int) < ((p3.2.1 : Nat) : Int)) ↔ (p3.2.1 > 1) := by omega
      simp only [this]
    have hfin := Seg.setB (W := sortWorld less) (P := P) (x := 10) (c := .lt (.lit 1) (.var 11)) (env := env14) (w := p3.2.2)
    rw [hlast] at hfin
    subst hp3 hp2 hp1
    unfold dupProbe
    dsimp only
    refine ⟨env14.set 10 (if decide (_ > 1) = true then 1 else 0), fun y h8 h9 h10 h11 => by
      rw [Env.get_set_ne _ _ h10, hfr14 y h9 h11, hfr13 y h9 h11, hfr12 y h8 h11, hfr11 y h11, hfr10 y h10], ?_, ?_,
      Env.get_set_eq _ _ _, ?_⟩
    · rw [Env.get_set_ne _ _ (by decide)]; exact v9c
    · rw [Env.get_set_ne _ _ (by decide), hfr14 8 (by decide) (by decide), hfr13 8 (by decide) (by decide)]; exact v8
    · refine hpre.trans (Seg.ite ?_)
      rw [hcond]
      simp only [if_true]
      refine hs11.trans (Seg.trans (p1 := [probe1Stmt]) hk12 (Seg.trans (p1 := [probe2Stmt]) hk13
        (Seg.trans (p1 := [probe3Stmt]) hk14 hfin)))
  · rw [if_neg hgo]
    have hgo2 : (!decide (hi - c < 5) && decide (hi - c < (hi - lo) / 4)) = false := by simpa using hgo
    rw [hgo2] at hcond
    refine ⟨env10, fun y _ _ h10 _ => hfr10 y h10, k9, k8, k10, ?_⟩
    refine hpre.trans (Seg.ite ?_)
    rw [hcond]
    exact Seg.nil

/-! ### phase 5: the protect loop if `protect`, the final swap, the results -/

theorem protectPhase_runs (P : String → Option Fn) (less : LessFn K V) (pivot a b : Nat) (hp : pivot < B62)
    (ha : a < B62) (hb : b < B62) (prot : Bool) (env : Env) (s : St K V)
    (g6 : env.get 6 = pivot) (g7 : env.get 7 = a) (g9 : env.get 9 = b) (g10 : env.get 10 = if prot then 1 else 0) :
    ∃ env', (∀ y, y ≠ 7 → y ≠ 9 → env'.get y = env.get y) ∧
      env'.get 9 = (((if prot then protectLoop less pivot a b s else (a, b, s)).2.1 : Nat) : Int) ∧
      Seg (sortWorld less) P [.ite (.bvar 10) [protectLoopStmt] []] env s env'
        (if prot then protectLoop less pivot a b s else (a, b, s)).2.2 := by
  cases prot
  · simp only [Bool.false_eq_true, if_false] at g10 ⊢
    refine ⟨env, fun _ _ _ => rfl, g9, Seg.ite ?_⟩
    have hc : evalC (sortWorld less) env (.bvar 10) s = (false, s) := by
      simp only [evalC, g10]; rfl
    rw [hc]
    exact Seg.nil
  · simp only [if_true] at g10 ⊢
    obtain ⟨env', hfr, _, v9, hk⟩ := protectLoop_runs P less pivot hp _ a b env s rfl ha hb g6 g7 g9
    refine ⟨env', hfr, v9, Seg.ite ?_⟩
    have hc : evalC (sortWorld less) env (.bvar 10) s = (true, s) := by
      simp only [evalC, g10]; rfl
    rw [hc]
    exact hk

/-- `data.Swap(pivot, b-1); return b-1, c` -/
theorem final_runs (P : String → Option Fn) (less : LessFn K V) (pivot b c : Nat) (hp : pivot < B62) (hb : b < B62)
    (h1 : 1 ≤ b) (env : Env) (s : St K V) (g6 : env.get 6 = pivot) (g8 : env.get 8 = c) (g9 : env.get 9 = b) :
    Runs (sortWorld less) P [.swap (.var 6) (.sub (.var 9) (.lit 1)), .ret [(.sub (.var 9) (.lit 1)), (.var 8)]] env s
      (.ret [((b - 1 : Nat) : Int), (c : Int)] (s.swap pivot (b - 1))) := by
  have eb : eval env (.sub (.var 9) (.lit 1)) = ((b - 1 : Nat) : Int) := eval_sub1 g9 hb h1
  refine Runs.swap ?_
  rw [swap_eq _ (show eval env (.var 6) = _ from g6) eb hp (by unfold B62 at *; omega)]
  have : ([(.sub (.var 9) (.lit 1)), (.var 8)] : List Expr).map (eval env) = [((b - 1 : Nat) : Int), (c : Int)] := by
    simp only [List.map, eb]
    simp only [eval, g8]
  rw [← this]
  exact Runs.ret

/-! ### doPivot_func -/

theorem doPivot_body : doPivot_func.body =
    (choosePivotStmts ++ (partitionStmts ++ (dupStmts ++ [.ite (.bvar 10) [protectLoopStmt] []]))) ++
      [.swap (.var 6) (.sub (.var 9) (.lit 1)), .ret [(.sub (.var 9) (.lit 1)), (.var 8)]] := rfl

/-- doPivot_func: the translated source computes the model's `doPivot` (both results, state and log) -/
theorem doPivot_runs (P : String → Option Fn) (hPm : P "medianOfThree_func" = some medianOfThree_func)
    (less : LessFn K V) (lo hi : Nat) (h : lo + 3 ≤ hi) (hhi : hi < B62) (s : St K V) :
    FnRuns (sortWorld less) P doPivot_func [(lo : Int), (hi : Int)] s
      [(((doPivot less lo hi s).1 : Nat) : Int), (((doPivot less lo hi s).2.1 : Nat) : Int)] (doPivot less lo hi s).2.2 := by
  refine Or.inl ?_
  rw [doPivot_body]
  have hB := hhi
  unfold B62 at hhi
  -- phase 1
  obtain ⟨env1, a0, a1, a4, hk1⟩ := choosePivot_runs P hPm less lo hi h hB ([(lo : Int), (hi : Int)].toArray) s rfl rfl
  -- phase 2
  obtain ⟨env2, hfr2, b6, b7, b9, b8, hk2⟩ := partition_runs P less lo hi h hB env1 (choosePivot less lo hi s) a0 a1
  have b7' : env2.get 7 = (((partitionPhase less lo hi s).1 : Nat) : Int) := b7
  have b9' : env2.get 9 = (((partitionPhase less lo hi s).2.1 : Nat) : Int) := b9
  have b8' : env2.get 8 = (((partitionPhase less lo hi s).2.2.1 : Nat) : Int) := b8
  have hk2' : Seg (sortWorld less) P partitionStmts env1 (choosePivot less lo hi s) env2
      (partitionPhase less lo hi s).2.2.2 := hk2
  obtain ⟨_, p1, p2, p3, p4, p5⟩ := partitionPhase_spec less lo hi s h
  obtain ⟨p, hp⟩ : ∃ p, p = partitionPhase less lo hi s := ⟨_, rfl⟩
  rw [← hp] at b7' b9' b8' hk2' p1 p2 p3 p4 p5
  have c0 : env2.get 0 = lo := by rw [hfr2 0 (by decide) (by decide) (by decide) (by decide)]; exact a0
  have c1 : env2.get 1 = hi := by rw [hfr2 1 (by decide) (by decide) (by decide) (by decide)]; exact a1
  have c4 : env2.get 4 = (((lo + hi) / 2 : Nat) : Int) := by
    rw [hfr2 4 (by decide) (by decide) (by decide) (by decide)]; exact a4
  -- phases 3, 4
  obtain ⟨env3, hfr3, d9, d8, d10, hk3⟩ := dupPhase_runs P less lo hi p.2.1 p.2.2.1 h hB p3 p4 p5 env2 p.2.2.2
    c0 c1 c4 b6 b8' b9'
  obtain ⟨_, q1, q2, q3, q4⟩ := dupPhase_spec less lo hi p.2.1 p.2.2.1 p.2.2.2 h (by omega) p3 p4 p5
  obtain ⟨d, hd⟩ : ∃ d, d = dupPhase less lo hi p.2.1 p.2.2.1 p.2.2.2 := ⟨_, rfl⟩
  rw [← hd] at d9 d8 d10 hk3 q1 q2 q3 q4
  have e6 : env3.get 6 = lo := by rw [hfr3 6 (by decide) (by decide) (by decide) (by decide)]; exact b6
  have e7 : env3.get 7 = ((p.1 : Nat) : Int) := by rw [hfr3 7 (by decide) (by decide) (by decide) (by decide)]; exact b7'
  -- phase 5
  obtain ⟨env4, hfr4, f9, hk4⟩ := protectPhase_runs P less lo p.1 d.1 (by unfold B62; omega) (by unfold B62; omega)
    (by unfold B62; omega) d.2.2.1 env3 d.2.2.2 e6 e7 d9 d10
  have hpb : 1 ≤ (if d.2.2.1 then protectLoop less lo p.1 d.1 d.2.2.2 else (p.1, d.1, d.2.2.2)).2.1 ∧
      (if d.2.2.1 then protectLoop less lo p.1 d.1 d.2.2.2 else (p.1, d.1, d.2.2.2)).2.1 ≤ hi := by
    have := protectLoop_bounds less lo p.1 d.1 d.2.2.2
    split
    · omega
    · dsimp only; omega
  obtain ⟨pr, hpr⟩ : ∃ pr, pr = (if d.2.2.1 then protectLoop less lo p.1 d.1 d.2.2.2 else (p.1, d.1, d.2.2.2)) := ⟨_, rfl⟩
  rw [← hpr] at f9 hk4 hpb
  have g6 : env4.get 6 = lo := by rw [hfr4 6 (by decide) (by decide)]; exact e6
  have g8 : env4.get 8 = ((d.2.1 : Nat) : Int) := by rw [hfr4 8 (by decide) (by decide)]; exact d8
  have hfin := final_runs P less lo pr.2.1 d.2.1 (by unfold B62; omega) (by unfold B62; omega) hpb.1 env4 pr.2.2 g6 g8 f9
  have hall := (hk1.trans (hk2'.trans (hk3.trans hk4))) _ _ hfin
  subst hpr hd hp
  exact hall

end Got.Lemmas.SortAst

/- `#print axioms Got.Lemmas.SortAst.doPivot_runs`:
   'Got.Lemmas.SortAst.doPivot_runs' depends on axioms: [propext, Classical.choice, Quot.sound] -/
