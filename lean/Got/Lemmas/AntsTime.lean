import Got.Lemmas.AntsSlots
/- ants model: the timing bound under maximal progress (C08_bound_partial) -/
namespace Got.Model.Ants
set_option linter.unusedVariables false
set_option linter.unusedSimpArgs false

def TPc.inAttempt : TPc → Bool
  | .sendCl | .hook3 | .select | .hook2 | .decide | .writeDE | .waitDone | .cancel | .errTest => true
  | _ => false

/-- timing invariant of one task at clock value `now` -/
structure TimeOK (now : Nat) (t : Task) : Prop where
  dlc : 1 ≤ t.att → (t.at_ t.cur).deadline ≤ t.pickAt + t.att * t.T
  inAtt : t.pc.inAttempt = true → now ≤ (t.at_ t.cur).deadline
  loop : t.pc = .loopTest ∨ t.pc = .onError ∨ t.pc = .wgDone → now ≤ t.pickAt + t.att * t.T
  done : t.pc = .done → t.doneAt ≤ t.pickAt + t.att * t.T

theorem timeOK_default (now : Nat) : TimeOK now {} := by
  constructor <;> simp [TPc.inAttempt]

/-- closure transitions and timer firings leave everything the timing invariant talks about unchanged -/
def SameTiming (t t' : Task) : Prop :=
  t'.pc = t.pc ∧ t'.att = t.att ∧ t'.pickAt = t.pickAt ∧ t'.doneAt = t.doneAt ∧ t'.T = t.T ∧
    ∀ a, (t'.at_ a).deadline = (t.at_ a).deadline

theorem timeOK_same {now : Nat} {t t' : Task} (h : SameTiming t t') (ok : TimeOK now t) : TimeOK now t' := by
  obtain ⟨h1, h2, h3, h4, h5, h6⟩ := h
  have hc : t'.cur = t.cur := by simp [Task.cur, h2]
  constructor
  · rw [h2, hc, h6, h3, h5]; exact ok.dlc
  · rw [h1, hc, h6]; exact ok.inAtt
  · rw [h1, h2, h3, h5]; exact ok.loop
  · rw [h1, h2, h3, h4, h5]; exact ok.done

theorem tstep_sameTiming {c : Cfg} {now qlen : Nat} {t t' : Task} {act : Act}
    (hcl : (∃ k a, act = .fire k a) ∨ (∃ k a w, act = .wTake k a w) ∨ (∃ k a h, act = .wStart k a h) ∨
      (∃ k a v e, act = .wEnd k a v e) ∨ (∃ k a, act = .wCheck k a) ∨ (∃ k a, act = .hook1 k a) ∨
      (∃ k a, act = .wCas k a) ∨ (∃ k a, act = .wWrite k a) ∨ (∃ k a, act = .wClose k a) ∨ (∃ k a, act = .hook4 k a))
    (h : tstep c now qlen t act = some t') : SameTiming t t' := by
  rcases hcl with ⟨k, a, rfl⟩ | ⟨k, a, w, rfl⟩ | ⟨k, a, hon, rfl⟩ | ⟨k, a, v, e, rfl⟩ | ⟨k, a, rfl⟩ | ⟨k, a, rfl⟩ |
      ⟨k, a, rfl⟩ | ⟨k, a, rfl⟩ | ⟨k, a, rfl⟩ | ⟨k, a, rfl⟩ <;>
    simp only [tstep] at h <;> (repeat' split at h) <;> (try cases h) <;>
    (refine ⟨rfl, rfl, rfl, rfl, rfl, ?_⟩; intro b; simp only [Task.setAt, upd]; split <;> simp_all)

theorem ctxDeadline_bounds (c : Cfg) (now T : Nat) : now ≤ ctxDeadline c now T ∧ ctxDeadline c now T ≤ now + T := by
  unfold ctxDeadline
  split
  · split
    · simp only [Nat.min_def]; split <;> omega
    · omega
  · omega

/-- every task-local transition preserves the timing invariant (the clock does not move) -/
theorem time_tstep {c : Cfg} (hc : c.old = false) {now qlen : Nat} {t t' : Task} {act : Act} (ok : TaskOK t)
    (tk : TimeOK now t) (h : tstep c now qlen t act = some t') : TimeOK now t' := by
  have hpre := ok.pre0
  have hpos := ok.att_pos
  have hcd := ctxDeadline_bounds c now t.T
  obtain ⟨t1, t2, t3, t4⟩ := tk
  cases act
  case fire k a => exact timeOK_same (tstep_sameTiming (Or.inl ⟨k, a, rfl⟩) h) ⟨t1, t2, t3, t4⟩
  case wTake k a w => exact timeOK_same (tstep_sameTiming (Or.inr (Or.inl ⟨k, a, w, rfl⟩)) h) ⟨t1, t2, t3, t4⟩
  case wStart k a hon =>
    exact timeOK_same (tstep_sameTiming (Or.inr (Or.inr (Or.inl ⟨k, a, hon, rfl⟩))) h) ⟨t1, t2, t3, t4⟩
  case wEnd k a v e =>
    exact timeOK_same (tstep_sameTiming (Or.inr (Or.inr (Or.inr (Or.inl ⟨k, a, v, e, rfl⟩)))) h) ⟨t1, t2, t3, t4⟩
  case wCheck k a =>
    exact timeOK_same (tstep_sameTiming (Or.inr (Or.inr (Or.inr (Or.inr (Or.inl ⟨k, a, rfl⟩))))) h) ⟨t1, t2, t3, t4⟩
  case hook1 k a =>
    exact timeOK_same (tstep_sameTiming (Or.inr (Or.inr (Or.inr (Or.inr (Or.inr (Or.inl ⟨k, a, rfl⟩)))))) h) ⟨t1, t2, t3, t4⟩
  case wCas k a =>
    exact timeOK_same (tstep_sameTiming (Or.inr (Or.inr (Or.inr (Or.inr (Or.inr (Or.inr (Or.inl ⟨k, a, rfl⟩))))))) h)
      ⟨t1, t2, t3, t4⟩
  case wWrite k a =>
    exact timeOK_same
      (tstep_sameTiming (Or.inr (Or.inr (Or.inr (Or.inr (Or.inr (Or.inr (Or.inr (Or.inl ⟨k, a, rfl⟩)))))))) h) ⟨t1, t2, t3, t4⟩
  case wClose k a =>
    exact timeOK_same
      (tstep_sameTiming (Or.inr (Or.inr (Or.inr (Or.inr (Or.inr (Or.inr (Or.inr (Or.inr (Or.inl ⟨k, a, rfl⟩))))))))) h) ⟨t1, t2, t3, t4⟩
  case hook4 k a =>
    exact timeOK_same
      (tstep_sameTiming (Or.inr (Or.inr (Or.inr (Or.inr (Or.inr (Or.inr (Or.inr (Or.inr (Or.inr ⟨k, a, rfl⟩))))))))) h)
      ⟨t1, t2, t3, t4⟩
  all_goals
    simp only [tstep, hc, Bool.false_eq_true, ↓reduceIte] at h
    (repeat' split at h) <;> (try cases h) <;>
      (constructor <;>
        simp_all [TPc.inAttempt, TPc.pre, Task.cur, Task.setAt, upd, Nat.succ_mul, Nat.add_mul] <;> (try omega))

theorem quiescent_none {c : Cfg} {s : State} (hq : quiescent c s = true) {k : Nat} (hk : k ∈ s.tasks) {act : Act}
    (ha : act ∈ taskActs c s k) : step c s act = none := by
  simp only [quiescent, Bool.and_eq_true, List.all_eq_true] at hq
  have := hq.1 act (by simp only [internalActs, List.mem_flatMap]; exact ⟨k, hk, ha⟩)
  simpa using this

theorem timers_le {s : State} {t' : Nat} (h : timersAllow s t' = true) {k : Nat} (hk : k ∈ s.tasks) {a : Nat}
    (ha : a < (s.task k).att) (hd : ((s.task k).at_ a).ctxDone = false) : t' ≤ ((s.task k).at_ a).deadline := by
  simp only [timersAllow, List.all_eq_true] at h
  have := h k hk a (by simp [ha])
  simpa [hd] using this

/-- own (dispatcher-side) action is a candidate -/
theorem own_mem {c : Cfg} {s : State} {k : Nat} {act : Act}
    (h : act ∈ (match (s.task k).pc with
      | .sendTest => [Act.busyTest k] | .discardCb => [.discardCb k] | .enq => [.enq k] | .queued => [.take k]
      | .loopTest => [.loopTest k] | .sendCl => [.sendCl k] | .hook3 => [.hook3 k]
      | .select => [.selDone k, .selCtx k] | .hook2 => [.hook2 k] | .decide => [.decide k]
      | .writeDE => [.writeDE k] | .waitDone => [.waitDone k] | .cancel => [.cancel k] | .errTest => [.errTest k]
      | .onError => [.onError k] | .wgDone => [.wgDone k]
      | _ => ([] : List Act))) : act ∈ taskActs c s k := by
  simp only [taskActs, List.mem_append]
  exact Or.inl h

/-- transitions whose enabledness is decided by the task-local part alone -/
def plain : Act → Bool
  | .busyTest _ | .discardCb _ | .loopTest _ | .hook3 _ | .selDone _ | .selCtx _ | .hook2 _ | .decide _ | .writeDE _
  | .waitDone _ | .cancel _ | .errTest _ | .onError _ | .wgDone _ | .fire _ _ | .wCheck _ _ | .hook1 _ _ | .wCas _ _
  | .wWrite _ _ | .hook4 _ _ => true
  | _ => false

theorem step_plain {c : Cfg} {s : State} {act : Act} (hpl : plain act = true) :
    step c s act = (tstep c s.now s.taskQ.length (s.task act.task) act).map (fun t' => s.setTask act.task t') := by
  cases act <;> simp only [plain] at hpl <;> (try cases hpl) <;> simp only [step] <;>
    cases tstep c s.now s.taskQ.length (s.task _) _ <;> rfl

theorem tstep_none_of_step {c : Cfg} {s : State} {act : Act} (hpl : plain act = true) (h : step c s act = none) :
    tstep c s.now s.taskQ.length (s.task act.task) act = none := by
  rw [step_plain hpl] at h
  simpa using h

theorem time_advance {c : Cfg} (hc : c.old = false) {s : State} {t' : Nat} (k : Nat) (ok : TaskOK (s.task k))
    (hk : k ∈ s.tasks) (tk : TimeOK s.now (s.task k)) (hq : quiescent c s = true)
    (hns : (s.task k).pc ≠ .sendCl) (hlt : s.now < t') (hta : timersAllow s t' = true) :
    TimeOK t' (s.task k) := by
  have hqn := fun act (hpl : plain act = true) (hm : act ∈ taskActs c s k) =>
    tstep_none_of_step hpl (quiescent_none hq hk hm)
  refine ⟨tk.dlc, ?_, ?_, tk.done⟩
  · intro hp
    have hatt : 1 ≤ (s.task k).att := ok.att_pos (by cases h : (s.task k).pc <;> simp_all [TPc.inAttempt, TPc.pre])
      (by intro h; simp [h, TPc.inAttempt] at hp)
    have hcur : (s.task k).cur < (s.task k).att := by simp [Task.cur]; omega
    cases hd : ((s.task k).at_ (s.task k).cur).ctxDone
    · exact timers_le hta hk hcur hd
    · exfalso
      cases hpc : (s.task k).pc <;> simp [hpc, TPc.inAttempt] at hp
      · exact hns hpc
      · have := hqn (.hook3 k) rfl (own_mem (by rw [hpc]; simp))
        simp [tstep, hpc, Act.task] at this
      · have := hqn (.selCtx k) rfl (own_mem (by rw [hpc]; simp))
        simp [tstep, hpc, Act.task, hd] at this
      · have := hqn (.hook2 k) rfl (own_mem (by rw [hpc]; simp))
        simp [tstep, hpc, Act.task] at this
      · have := hqn (.decide k) rfl (own_mem (by rw [hpc]; simp))
        by_cases hx : ((s.task k).at_ (s.task k).cur).decided = 0 <;> simp [tstep, hpc, Act.task, hx] at this
      · have := hqn (.writeDE k) rfl (own_mem (by rw [hpc]; simp))
        simp [tstep, hpc, Act.task] at this
      · -- waitDone: either doneChan is closed, or the closure that won the flag can take a step
        cases hcl : ((s.task k).at_ (s.task k).cur).closedCh
        · have hd1 := ok.wDone hpc
          have ax := ok.atts (s.task k).cur
          have hac := (ax.2.2.2.1 hd1).2.2
          have hncl : ((s.task k).at_ (s.task k).cur).pc ≠ .closed := by
            intro h; have := ax.1.2 h; rw [hcl] at this; cases this
          cases hpc' : ((s.task k).at_ (s.task k).cur).pc <;> simp [hpc', CPc.afterCas] at hac hncl
          · have hm : Act.hook4 k (s.task k).cur ∈ taskActs c s k := by
              simp only [taskActs, List.mem_append, List.mem_flatMap, List.mem_range]
              exact Or.inr ⟨_, hcur, Or.inr (by rw [hpc']; simp)⟩
            have := hqn _ rfl hm
            simp [tstep, hpc', Act.task] at this
          · have hm : Act.wWrite k (s.task k).cur ∈ taskActs c s k := by
              simp only [taskActs, List.mem_append, List.mem_flatMap, List.mem_range]
              exact Or.inr ⟨_, hcur, Or.inr (by rw [hpc']; simp)⟩
            have := hqn _ rfl hm
            simp [tstep, hpc', Act.task] at this
          · have hm : Act.wClose k (s.task k).cur ∈ taskActs c s k := by
              simp only [taskActs, List.mem_append, List.mem_flatMap, List.mem_range]
              exact Or.inr ⟨_, hcur, Or.inr (by rw [hpc']; simp)⟩
            have := quiescent_none hq hk hm
            simp [step, tstep, hpc', Act.task, CPc.slot?] at this
        · have := hqn (.waitDone k) rfl (own_mem (by rw [hpc]; simp))
          simp [tstep, hpc, Act.task, hcl] at this
      · have := hqn (.cancel k) rfl (own_mem (by rw [hpc]; simp))
        simp [tstep, hpc, Act.task] at this
      · have := hqn (.errTest k) rfl (own_mem (by rw [hpc]; simp))
        by_cases hx : (s.task k).err = .nil <;> simp [tstep, hpc, Act.task, hx] at this
  · intro hp
    exfalso
    rcases hp with hp | hp | hp
    · have := hqn (.loopTest k) rfl (own_mem (by rw [hp]; simp))
      by_cases hx : (s.task k).att < (s.task k).R <;> simp [tstep, hp, Act.task, hx] at this
    · have := hqn (.onError k) rfl (own_mem (by rw [hp]; simp))
      simp [tstep, hp, Act.task] at this
    · have := hqn (.wgDone k) rfl (own_mem (by rw [hp]; simp))
      simp [tstep, hp, Act.task] at this


/-! ### finite support of the task map -/
def Supp (s : State) : Prop := ∀ k, k ∉ s.tasks → s.task k = {}

theorem tstep_default_send {c : Cfg} {now qlen : Nat} {act : Act} {t' : Task}
    (h : tstep c now qlen {} act = some t') : ∃ k o, act = .send k o := by
  cases act <;> simp [tstep] at h
  case send k o => exact ⟨k, o, rfl⟩

theorem step_tasks {c : Cfg} {s s2 : State} {act : Act} (h : step c s act = some s2) :
    s2.tasks = s.tasks ∨ s2.tasks = s.tasks ++ [act.task] := by
  cases act <;> simp only [step] at h <;> (repeat' split at h) <;> (try cases h) <;>
    first | exact Or.inl rfl | exact Or.inr rfl

theorem supp_step {c : Cfg} {s s2 : State} {act : Act} (hs : Supp s) (h : step c s act = some s2) : Supp s2 := by
  intro k hk
  have hsub : k ∉ s.tasks := by
    rcases step_tasks h with e | e <;> rw [e] at hk
    · exact hk
    · intro hm; exact hk (List.mem_append_left _ hm)
  rcases step_task h with ⟨_, _, ht⟩ | ⟨t', ht, hst⟩
  · rw [ht]; exact hs k hsub
  · rw [hst]
    by_cases hka : k = act.task
    · exfalso
      subst hka
      rw [hs _ hsub] at ht
      obtain ⟨k', o, rfl⟩ := tstep_default_send ht
      simp only [step] at h
      split at h
      · cases h
      · cases h
        exact hk (by simp [Act.task])
    · simp only [upd_other _ _ _ _ hka]; exact hs k hsub

theorem mem_of_pc {s : State} (hs : Supp s) {k : Nat} (h : (s.task k).pc ≠ .none) : k ∈ s.tasks := by
  apply Classical.byContradiction
  intro hn
  rw [hs k hn] at h
  exact h rfl

/-! ### executions under maximal progress -/

/-- like `run`, but the clock moves only in quiescent states (maximal progress = the faketime semantics) and never
    while the dispatcher of task `k` is blocked in `sendInnerCallback` (pc = sendCl) -/
def clockOK (c : Cfg) (k : Nat) (s : State) : Act → Bool
  | .advance _ => quiescent c s && decide ((s.task k).pc ≠ .sendCl)
  | _ => true

def runMP (c : Cfg) (k : Nat) (s : State) : List Act → Option State
  | [] => some s
  | a :: rest =>
    if clockOK c k s a then
      match step c s a with
      | none => none
      | some s' => runMP c k s' rest
    else none

theorem runMP_run {c : Cfg} {k : Nat} {acts : List Act} {s s2 : State} (h : runMP c k s acts = some s2) :
    run c s acts = some s2 := by
  induction acts generalizing s with
  | nil => simpa [runMP, run] using h
  | cons a rest ih =>
    simp only [runMP] at h
    split at h
    · simp only [run]
      split at h
      · cases h
      · rename_i s1 hs; simp only [hs]; exact ih h
    · cases h

theorem time_step {c : Cfg} (hc : c.old = false) {s s2 : State} {act : Act} (k : Nat) (hinv : Inv s) (hs : Supp s)
    (tk : TimeOK s.now (s.task k))
    (hadv : ∀ t, act = .advance t → quiescent c s = true ∧ (s.task k).pc ≠ .sendCl)
    (h : step c s act = some s2) : TimeOK s2.now (s2.task k) := by
  by_cases ha : ∃ t, act = .advance t
  · obtain ⟨t, rfl⟩ := ha
    obtain ⟨hq, hns⟩ := hadv t rfl
    simp only [step] at h
    split at h
    · rename_i hg
      cases h
      show TimeOK t (s.task k)
      by_cases hk : k ∈ s.tasks
      · exact time_advance hc k (hinv k) hk tk hq hns hg.1 hg.2
      · rw [hs k hk]; exact timeOK_default t
    · cases h
  · rcases step_task h with ⟨t, e, _⟩ | ⟨t', ht, hst⟩
    · exact absurd ⟨t, e⟩ ha
    · have hnow : s2.now = s.now := by
        cases act <;> simp only [step] at h <;> (repeat' split at h) <;> (try cases h) <;>
          first | rfl | exact absurd ⟨_, rfl⟩ ha
      rw [hst, hnow]
      by_cases hka : k = act.task
      · subst hka; simp only [upd_same]; exact time_tstep hc (hinv _) tk ht
      · simp only [upd_other _ _ _ _ hka]; exact tk

theorem time_runMP {c : Cfg} (hc : c.old = false) (k : Nat) {acts : List Act} {s s2 : State} (hinv : Inv s) (hs : Supp s)
    (tk : TimeOK s.now (s.task k)) (h : runMP c k s acts = some s2) :
    Inv s2 ∧ Supp s2 ∧ TimeOK s2.now (s2.task k) := by
  induction acts generalizing s with
  | nil => simp [runMP] at h; subst h; exact ⟨hinv, hs, tk⟩
  | cons a rest ih =>
    simp only [runMP] at h
    split at h
    · rename_i hg
      split at h
      · cases h
      · rename_i s1 hst
        refine ih (inv_step hc hinv hst) (supp_step hs hst) (time_step hc k hinv hs tk ?_ hst) h
        intro t e
        subst e
        simpa [clockOK] using hg
    · cases h

theorem supp_init : Supp init := fun _ _ => rfl

end Got.Model.Ants
