import Got.Lemmas.CodecRead
/-
Single-value round trips of the codec model (used by C11): reading at the end of `pre`, in front of any `rest`,
what a writer appended gives the value back and stops right behind it.
-/
namespace Got.Lemmas.Codec
open Got.Model.Codec Got.Facts Got.Spec.Codec

theorem length_of_drop_eq {buf l : List Byte} {pos : Nat} (hd : buf.drop pos = l) (hl : 0 < l.length) :
    pos + l.length = buf.length := by
  have := congrArg List.length hd
  rw [List.length_drop] at this
  omega

theorem drop_mid (pre bs rest : List Byte) : (pre ++ bs ++ rest).drop pre.length = bs ++ rest := by
  rw [List.append_assoc, List.drop_left]

/-! ### fixed width -/

theorem readByte_of_drop (buf : List Byte) (pos : Nat) (b : Byte) (tl : List Byte)
    (hd : buf.drop pos = b :: tl) : readByte buf pos = ⟨.ok b, pos + 1, 0⟩ := by
  have hl := length_of_drop_eq hd (by simp)
  simp only [List.length_cons] at hl
  rw [readByte_lt buf pos (by omega)]
  have : buf[pos]? = some b := by
    have := List.getElem?_drop (xs := buf) (i := pos) (j := 0)
    rw [hd] at this
    simpa using this.symm
  have hb : buf[pos]'(by omega) = b := by
    rw [List.getElem?_eq_getElem (by omega)] at this
    exact Option.some.inj this
  rw [hb]

theorem readInt16_of_drop (buf : List Byte) (pos : Nat) (b0 b1 : Byte) (tl : List Byte)
    (hd : buf.drop pos = b0 :: b1 :: tl) :
    readInt16 buf pos = ⟨.ok (b0.setWidth 16 ||| (b1.setWidth 16 <<< 8)), pos + 2, 0⟩ := by
  have hl := length_of_drop_eq hd (by simp)
  simp only [List.length_cons] at hl
  have h0 : ¬ pos + lit lits_iox_OctetsStream_ReadInt16 0 > buf.length := by
    show ¬ pos + 2 > buf.length
    omega
  have h1 : ¬ pos > buf.length := by omega
  simp only [readInt16, readFixed, h0, h1, if_false, hd]
  simp only [lits_iox_OctetsStream_ReadInt16, lit, lanesOf, orLanes, List.getD_cons_zero, List.getD_cons_succ,
    List.drop, List.foldl, Int.reduceToNat, List.getElem?_cons_zero, List.getElem?_cons_succ, Option.map_some]

theorem readInt32_of_drop (buf : List Byte) (pos : Nat) (b0 b1 b2 b3 : Byte) (tl : List Byte)
    (hd : buf.drop pos = b0 :: b1 :: b2 :: b3 :: tl) :
    readInt32 buf pos = ⟨.ok (b0.setWidth 32 ||| (b1.setWidth 32 <<< 8) ||| (b2.setWidth 32 <<< 16)
      ||| (b3.setWidth 32 <<< 24)), pos + 4, 0⟩ := by
  have hl := length_of_drop_eq hd (by simp)
  simp only [List.length_cons] at hl
  have h0 : ¬ pos + lit lits_iox_OctetsStream_ReadInt32 0 > buf.length := by
    show ¬ pos + 4 > buf.length
    omega
  have h1 : ¬ pos > buf.length := by omega
  simp only [readInt32, readFixed, h0, h1, if_false, hd]
  simp only [lits_iox_OctetsStream_ReadInt32, lit, lanesOf, orLanes, List.getD_cons_zero, List.getD_cons_succ,
    List.drop, List.foldl, Int.reduceToNat, List.getElem?_cons_zero, List.getElem?_cons_succ, Option.map_some]

theorem readInt64_of_drop (buf : List Byte) (pos : Nat) (b0 b1 b2 b3 b4 b5 b6 b7 : Byte) (tl : List Byte)
    (hd : buf.drop pos = b0 :: b1 :: b2 :: b3 :: b4 :: b5 :: b6 :: b7 :: tl) :
    readInt64 buf pos = ⟨.ok (b0.setWidth 64 ||| (b1.setWidth 64 <<< 8) ||| (b2.setWidth 64 <<< 16)
      ||| (b3.setWidth 64 <<< 24) ||| (b4.setWidth 64 <<< 32) ||| (b5.setWidth 64 <<< 40)
      ||| (b6.setWidth 64 <<< 48) ||| (b7.setWidth 64 <<< 56)), pos + 8, 0⟩ := by
  have hl := length_of_drop_eq hd (by simp)
  simp only [List.length_cons] at hl
  have h0 : ¬ pos + lit lits_iox_OctetsStream_ReadInt64 0 > buf.length := by
    show ¬ pos + 8 > buf.length
    omega
  have h1 : ¬ pos > buf.length := by omega
  simp only [readInt64, readFixed, h0, h1, if_false, hd]
  simp only [lits_iox_OctetsStream_ReadInt64, lit, lanesOf, orLanes, List.getD_cons_zero, List.getD_cons_succ,
    List.drop, List.foldl, Int.reduceToNat, List.getElem?_cons_zero, List.getElem?_cons_succ, Option.map_some]

theorem rt_bool (pre rest : List Byte) (b : Bool) :
    readBool (pre ++ writeBool b ++ rest) pre.length = ⟨.ok b, pre.length + 1, 0⟩ := by
  unfold readBool
  rw [readByte_of_drop _ _ _ rest (by rw [drop_mid, writeBool_eq]; rfl)]
  cases b <;> rfl

theorem rt_byte (pre rest : List Byte) (b : Byte) :
    readByte (pre ++ writeByte b ++ rest) pre.length = ⟨.ok b, pre.length + 1, 0⟩ :=
  readByte_of_drop _ _ _ rest (by rw [drop_mid]; rfl)

theorem rt_int16 (pre rest : List Byte) (d : BitVec 16) :
    readInt16 (pre ++ writeInt16 d ++ rest) pre.length = ⟨.ok d, pre.length + 2, 0⟩ := by
  rw [readInt16_of_drop _ _ _ _ rest (by rw [drop_mid, writeInt16_eq]; rfl), rt16]

theorem rt_int32 (pre rest : List Byte) (d : BitVec 32) :
    readInt32 (pre ++ writeInt32 d ++ rest) pre.length = ⟨.ok d, pre.length + 4, 0⟩ := by
  rw [readInt32_of_drop _ _ _ _ _ _ rest (by rw [drop_mid, writeInt32_eq]; rfl), rt32]

theorem rt_int64 (pre rest : List Byte) (d : BitVec 64) :
    readInt64 (pre ++ writeInt64 d ++ rest) pre.length = ⟨.ok d, pre.length + 8, 0⟩ := by
  rw [readInt64_of_drop _ _ _ _ _ _ _ _ _ _ rest (by rw [drop_mid, writeInt64_eq]; rfl), rt64]

/-! ### 7-bit encoded int -/

theorem step7_stop (buf : List Byte) (i : Nat) (num : BitVec 32) (pos : Nat)
    (k : BitVec 32 → Nat → Res (BitVec 32)) (b : Byte) (tl : List Byte)
    (hd : buf.drop pos = b :: tl) (hb : b ≤ 127#8) :
    step7 buf i num pos k = ⟨.ok (num ||| ((b &&& 127#8).setWidth 32 <<< i)), pos + 1, 0⟩ := by
  unfold step7
  rw [readByte_of_drop buf pos b tl hd]
  simp only [hb, if_true]

theorem step7_cont (buf : List Byte) (i : Nat) (num : BitVec 32) (pos : Nat)
    (k : BitVec 32 → Nat → Res (BitVec 32)) (b : Byte) (tl : List Byte)
    (hd : buf.drop pos = b :: tl) (hb : ¬ b ≤ 127#8) :
    step7 buf i num pos k = k (num ||| ((b &&& 127#8).setWidth 32 <<< i)) (pos + 1) := by
  unfold step7
  rw [readByte_of_drop buf pos b tl hd]
  simp only [hb, if_false]

/-- what a continuation of the decoder must do on the rest of a LEB128 string whose next digit sits at shift `i` -/
def DecodesAt (buf rest : List Byte) (i : Nat) (k : BitVec 32 → Nat → Res (BitVec 32)) : Prop :=
  ∀ (num : BitVec 32) (pre : List Byte) (m : Nat), m < 2 ^ (32 - i) → buf = pre ++ leb128 m ++ rest →
    k num pre.length = ⟨.ok (num ||| (BitVec.ofNat 32 m <<< i)), pre.length + (leb128 m).length, 0⟩

theorem step7_leb (buf rest : List Byte) (i : Nat) (k : BitVec 32 → Nat → Res (BitVec 32)) (hi : i + 7 ≤ 32)
    (hk : DecodesAt buf rest (i + 7) k) :
    DecodesAt buf rest i (fun n p => step7 buf i n p k) := by
  intro num pre m hm hbuf
  show step7 buf i num pre.length k = _
  by_cases h : m < 128
  · rw [leb128_lt m h] at hbuf ⊢
    have hd : buf.drop pre.length = BitVec.ofNat 8 m :: rest := by rw [hbuf, drop_mid]; rfl
    have hb : BitVec.ofNat 8 m ≤ 127#8 := by
      rw [BitVec.le_def]; simp; omega
    rw [step7_stop buf i num pre.length k _ rest hd hb, and_mask_byte]
    have : (BitVec.ofNat 8 m).toNat % 128 = m := by simp; omega
    rw [this]
    rfl
  · rw [leb128_ge m h] at hbuf ⊢
    have hd : buf.drop pre.length = BitVec.ofNat 8 (m % 128 + 128) :: (leb128 (m / 128) ++ rest) := by
      rw [hbuf, drop_mid]; rfl
    have hb : ¬ BitVec.ofNat 8 (m % 128 + 128) ≤ 127#8 := by
      rw [BitVec.le_def]; simp; omega
    rw [step7_cont buf i num pre.length k _ _ hd hb, and_mask_byte]
    have h1 : (BitVec.ofNat 8 (m % 128 + 128)).toNat % 128 = m % 128 := by simp
    rw [h1]
    have hm' : m / 128 < 2 ^ (32 - (i + 7)) := by
      have e : 2 ^ (32 - i) = 2 ^ (32 - (i + 7)) * 128 := by
        rw [show 32 - i = (32 - (i + 7)) + 7 by omega, Nat.pow_add]
      rw [e] at hm
      exact Nat.div_lt_of_lt_mul (by rw [Nat.mul_comm]; exact hm)
    have hbuf' : buf = (pre ++ [BitVec.ofNat 8 (m % 128 + 128)]) ++ leb128 (m / 128) ++ rest := by
      rw [hbuf]; simp
    have := hk (num ||| (BitVec.ofNat 32 (m % 128) <<< i)) (pre ++ [BitVec.ofNat 8 (m % 128 + 128)]) (m / 128) hm' hbuf'
    simp only [List.length_append, List.length_cons, List.length_nil] at this
    rw [this, BitVec.or_assoc, or_shift_split]
    simp only [List.length_cons]
    congr 1
    omega

theorem last7_leb (buf rest : List Byte) : DecodesAt buf rest 28 (fun n p => last7 buf n p) := by
  intro num pre m hm hbuf
  show last7 buf num pre.length = _
  have hm16 : m < 16 := by simpa using hm
  rw [leb128_lt m (by omega)] at hbuf ⊢
  have hd : buf.drop pre.length = BitVec.ofNat 8 m :: rest := by rw [hbuf, drop_mid]; rfl
  unfold last7
  rw [readByte_of_drop buf pre.length _ rest hd]
  have hb : ¬ BitVec.ofNat 8 m > 15#8 := by
    intro hgt
    have := BitVec.lt_def.mp hgt
    simp at this; omega
  simp only [hb, if_false]
  have : (BitVec.ofNat 8 m).setWidth 32 = BitVec.ofNat 32 m := by
    apply BitVec.eq_of_toNat_eq
    simp; omega
  rw [this]
  rfl

/-- Read7BitEncodedInt decodes the unsigned LEB128 of every 32-bit pattern and stops right behind it -/
theorem read7_leb (pre rest : List Byte) (n : Nat) (hn : n < 2 ^ 32) :
    read7 (pre ++ leb128 n ++ rest) pre.length
      = ⟨.ok (BitVec.ofNat 32 n), pre.length + (leb128 n).length, 0⟩ := by
  rw [read7_eq]
  have h := step7_leb _ rest 0 _ (by decide) (step7_leb _ rest 7 _ (by decide) (step7_leb _ rest 14 _ (by decide)
    (step7_leb _ rest 21 _ (by decide) (last7_leb (pre ++ leb128 n ++ rest) rest)))) 0#32 pre n (by simpa using hn) rfl
  have h' := h
  simp only [] at h'
  rw [h']
  simp

theorem rt_7bit (pre rest : List Byte) (d : BitVec 32) :
    ∃ bs, write7 d = some bs ∧ read7 (pre ++ bs ++ rest) pre.length = ⟨.ok d, pre.length + bs.length, 0⟩ := by
  refine ⟨leb128 d.toNat, write7_eq d, ?_⟩
  rw [read7_leb pre rest d.toNat d.isLt]
  simp

/-! ### the decoder rejects a fifth byte above 15 (more than 32 bits) -/

theorem drop_succ_of_drop {buf : List Byte} {pos : Nat} {b : Byte} {tl : List Byte} (hd : buf.drop pos = b :: tl) :
    buf.drop (pos + 1) = tl := by
  have := congrArg (List.drop 1) hd
  simpa [List.drop_drop, Nat.add_comm] using this

theorem last7_reject (buf : List Byte) (num : BitVec 32) (pos : Nat) (b : Byte) (tl : List Byte)
    (hd : buf.drop pos = b :: tl) (hb : b > 15#8) : last7 buf num pos = ⟨.err .Bad7BitInt, pos + 1, 0⟩ := by
  unfold last7
  rw [readByte_of_drop buf pos b tl hd]
  simp only [hb, if_true]

theorem read7_rejects_fifth (buf : List Byte) (pos : Nat) (b0 b1 b2 b3 b4 : Byte) (tl : List Byte)
    (hd : buf.drop pos = b0 :: b1 :: b2 :: b3 :: b4 :: tl)
    (h0 : ¬ b0 ≤ 127#8) (h1 : ¬ b1 ≤ 127#8) (h2 : ¬ b2 ≤ 127#8) (h3 : ¬ b3 ≤ 127#8) (h4 : b4 > 15#8) :
    read7 buf pos = ⟨.err .Bad7BitInt, pos + 5, 0⟩ := by
  have d1 := drop_succ_of_drop hd
  have d2 := drop_succ_of_drop d1
  have d3 := drop_succ_of_drop d2
  have d4 := drop_succ_of_drop d3
  rw [read7_eq, step7_cont _ _ _ _ _ _ _ hd h0, step7_cont _ _ _ _ _ _ _ d1 h1, step7_cont _ _ _ _ _ _ _ d2 h2,
    step7_cont _ _ _ _ _ _ _ d3 h3, last7_reject _ _ _ _ _ d4 h4]

/-! ### bytes / string / raw -/

theorem toInt_ofNat_small (n : Nat) (h : n < 2 ^ 31) : (BitVec.ofNat 32 n).toInt = (n : Int) := by
  have ht : (BitVec.ofNat 32 n).toNat = n := by simp; omega
  rw [BitVec.toInt_eq_toNat_of_msb, ht]
  rw [BitVec.msb_eq_decide, ht]
  simp; omega

theorem rt_bytes (l : List Byte) (hl : l.length < 2 ^ 31) (pre rest : List Byte) :
    writeBytes l = some (leb128 l.length ++ l) ∧
    readBytes (pre ++ (leb128 l.length ++ l) ++ rest) pre.length
      = ⟨.ok l, pre.length + (leb128 l.length ++ l).length, l.length⟩ := by
  have hmod : l.length % 2 ^ 32 = l.length := Nat.mod_eq_of_lt (by omega)
  refine ⟨by rw [writeBytes_eq, hmod], ?_⟩
  have hbuf : pre ++ (leb128 l.length ++ l) ++ rest = pre ++ leb128 l.length ++ (l ++ rest) := by simp
  rw [hbuf]
  have h7 := read7_leb pre (l ++ rest) l.length (by omega)
  have hpos : pre.length ≤ (pre ++ leb128 l.length ++ (l ++ rest)).length := by simp
  have hsize : (BitVec.ofNat 32 l.length).toNat = l.length := by simp; omega
  have hint := toInt_ofNat_small l.length hl
  rcases readBytes_char _ _ hpos with ⟨e, p, h7', _⟩ | ⟨size, p, h7', hc⟩
  · rw [h7] at h7'; simp at h7'
  · rw [h7] at h7'
    simp only [Res.mk.injEq, Out.ok.injEq] at h7'
    obtain ⟨hs, hp, _⟩ := h7'
    subst hs hp
    have hdrop : (pre ++ leb128 l.length ++ (l ++ rest)).drop (pre.length + (leb128 l.length).length) = l ++ rest := by
      rw [← List.length_append, List.drop_left]
    cases hc with
    | negative h _ => rw [hint] at h; omega
    | empty h hr =>
      have : l.length = 0 := by
        have := congrArg BitVec.toNat h
        rw [hsize] at this
        simpa using this
      have hnil : l = [] := List.eq_nil_of_length_eq_zero this
      rw [hr]; subst hnil; simp
    | short _ _ h _ =>
      rw [hsize] at h
      simp only [List.length_append] at h
      omega
    | full _ _ _ hr =>
      rw [hr, hsize, hdrop, List.take_left]
      simp only [List.length_append]
      congr 1
      omega

theorem rt_raw (l : List Byte) (hl : 0 < l.length) (pre rest : List Byte) :
    streamRead (pre ++ writeRaw l ++ rest) pre.length l.length = ⟨.ok (l.length, l), pre.length + l.length, 0⟩ := by
  rw [writeRaw_eq, streamRead_full _ _ _ hl (by simp), drop_mid, List.take_left]

/-! ### typed values and sequences -/

/-- the values the codec can carry: a length prefix is an `int32`, and `Read` rejects empty buffers by contract -/
def _root_.Got.Model.Codec.Val.valid : Val → Prop
  | .bytes l => l.length < 2 ^ 31
  | .str l => l.length < 2 ^ 31
  | .raw l => 0 < l.length
  | _ => True

theorem rt_val (v : Val) (hv : v.valid) :
    ∃ bs, encode1 v = some bs ∧ ∀ pre rest : List Byte,
      (read1 (pre ++ bs ++ rest) pre.length v.op).out = .ok v ∧
      (read1 (pre ++ bs ++ rest) pre.length v.op).pos = pre.length + bs.length := by
  cases v with
  | bool b =>
    refine ⟨writeBool b, rfl, fun pre rest => ?_⟩
    simp only [Val.op, read1, rt_bool]; exact ⟨rfl, rfl⟩
  | byte b =>
    refine ⟨writeByte b, rfl, fun pre rest => ?_⟩
    simp only [Val.op, read1, rt_byte]; exact ⟨rfl, rfl⟩
  | i16 d =>
    refine ⟨writeInt16 d, rfl, fun pre rest => ?_⟩
    simp only [Val.op, read1, rt_int16]; exact ⟨rfl, rfl⟩
  | i32 d =>
    refine ⟨writeInt32 d, rfl, fun pre rest => ?_⟩
    simp only [Val.op, read1, rt_int32]; exact ⟨rfl, rfl⟩
  | i64 d =>
    refine ⟨writeInt64 d, rfl, fun pre rest => ?_⟩
    simp only [Val.op, read1, rt_int64]; exact ⟨rfl, rfl⟩
  | v7 d =>
    refine ⟨leb128 d.toNat, write7_eq d, fun pre rest => ?_⟩
    simp only [Val.op, read1, read7_leb pre rest d.toNat d.isLt]
    exact ⟨by simp [Res.map], rfl⟩
  | bytes l =>
    refine ⟨leb128 l.length ++ l, (rt_bytes l hv [] []).1, fun pre rest => ?_⟩
    simp only [Val.op, read1, (rt_bytes l hv pre rest).2]; exact ⟨rfl, rfl⟩
  | str l =>
    refine ⟨leb128 l.length ++ l, (rt_bytes l hv [] []).1, fun pre rest => ?_⟩
    simp only [Val.op, read1, readString, (rt_bytes l hv pre rest).2]; exact ⟨rfl, rfl⟩
  | raw l =>
    refine ⟨writeRaw l, rfl, fun pre rest => ?_⟩
    simp only [Val.op, read1, rt_raw l hv pre rest]
    exact ⟨by simp [Res.map], by simp [Res.map, writeRaw_eq]⟩

theorem rt_seq : ∀ (vs : List Val), (∀ v ∈ vs, v.valid) →
    ∃ bs, encode vs = some bs ∧ ∀ pre rest : List Byte,
      decode (pre ++ bs ++ rest) pre.length (vs.map Val.op) = some (vs, pre.length + bs.length) := by
  intro vs
  induction vs with
  | nil => intro _; exact ⟨[], rfl, fun pre rest => by simp [decode]⟩
  | cons v vs ih =>
    intro hv
    obtain ⟨b1, he1, hr1⟩ := rt_val v (hv v (by simp))
    obtain ⟨b2, he2, hr2⟩ := ih (fun w hw => hv w (by simp [hw]))
    refine ⟨b1 ++ b2, by simp only [encode, he1, he2], fun pre rest => ?_⟩
    have hbuf : pre ++ (b1 ++ b2) ++ rest = pre ++ b1 ++ (b2 ++ rest) := by simp
    have hbuf2 : pre ++ (b1 ++ b2) ++ rest = (pre ++ b1) ++ b2 ++ rest := by simp
    obtain ⟨ho, hp⟩ := hr1 pre (b2 ++ rest)
    rw [← hbuf] at ho hp
    simp only [List.map_cons, decode]
    rcases hr : read1 (pre ++ (b1 ++ b2) ++ rest) pre.length v.op with ⟨o, p, a⟩
    rw [hr] at ho hp
    simp only at ho hp
    subst ho hp
    simp only
    have := hr2 (pre ++ b1) rest
    rw [← hbuf2, List.length_append] at this
    rw [this]
    simp only [List.length_append]
    congr 2
    omega

/-! ### the wire format of typed values, from the specification encoders only -/

/-- documented wire format of one typed value (.NET BinaryWriter compatible) -/
def wire : Val → List Byte
  | .bool b => leBytes 1 (if b then 1 else 0)
  | .byte b => leBytes 1 b.toNat
  | .i16 d => leBytes 2 (twoCompl 16 d.toInt)
  | .i32 d => leBytes 4 (twoCompl 32 d.toInt)
  | .i64 d => leBytes 8 (twoCompl 64 d.toInt)
  | .v7 d => leb128 (twoCompl 32 d.toInt)
  | .bytes l => prefixed l
  | .str l => prefixed l
  | .raw l => l

theorem leBytes_one_byte (b : Byte) : leBytes 1 b.toNat = [b] := by
  simp only [leBytes, ofNat8_mod]
  rw [BitVec.ofNat_toNat, BitVec.setWidth_eq]

theorem encode1_wire (v : Val) (hv : v.valid) : encode1 v = some (wire v) := by
  cases v with
  | bool b => cases b <;> rfl
  | byte b => simp only [encode1, wire, writeByte, leBytes_one_byte]
  | i16 d => simp only [encode1, wire, twoCompl_toInt, writeInt16_wire]
  | i32 d => simp only [encode1, wire, twoCompl_toInt, writeInt32_wire]
  | i64 d => simp only [encode1, wire, twoCompl_toInt, writeInt64_wire]
  | v7 d => simp only [encode1, wire, twoCompl_toInt, write7_eq]
  | bytes l => exact (rt_bytes l hv [] []).1
  | str l => exact (rt_bytes l hv [] []).1
  | raw l => simp only [encode1, wire, writeRaw_eq]

theorem encode_wire : ∀ (vs : List Val), (∀ v ∈ vs, v.valid) → encode vs = some (vs.flatMap wire) := by
  intro vs
  induction vs with
  | nil => intro _; rfl
  | cons v vs ih =>
    intro hv
    simp only [encode, encode1_wire v (hv v (by simp)), ih (fun w hw => hv w (by simp [hw])), List.flatMap_cons]

end Got.Lemmas.Codec
