import Got.Lemmas.SortAstBase
/-
Translator tie of C15, part 1: medianOfThree_func, maxDepth, insertionSort_func.
The generated terms (Got/Generated/AstSortxSort.lean, rewritten from /repo on every run) interpreted by MiniGoSort over
the model state compute exactly the model functions of Got/Model/Sort.lean (final slices AND the whole Less/Swap log).
-/
set_option linter.unusedSimpArgs false
namespace Got.Lemmas.SortAst
open Got.Model.MiniGoSort Got.Model.Sort Got.Model.SortAst
open Got.Generated.AstSortxSort

variable {K V : Type}

/-- every index the sort code handles is below 2^62 (slice lengths are; SliceBy passes `0 .. length`) -/
abbrev B62 : Nat := 4611686018427387904

/-! ### medianOfThree_func -/

theorem medianOfThree_body : medianOfThree_func.body =
    [ .ite (.less (.var 0) (.var 1)) [.swap (.var 0) (.var 1)] [],
      .ite (.less (.var 2) (.var 0))
        [.swap (.var 2) (.var 0), .ite (.less (.var 0) (.var 1)) [.swap (.var 0) (.var 1)] []] [] ] := rfl

theorem medianOfThree_runs (P : String → Option Fn) (less : LessFn K V) (m1 m0 m2 : Nat)
    (h1 : m1 < B62) (h0 : m0 < B62) (h2 : m2 < B62) (s : St K V) :
    FnRuns (sortWorld less) P medianOfThree_func [(m1 : Int), (m0 : Int), (m2 : Int)] s []
      (medianOfThree less m1 m0 m2 s) := by
  refine Or.inr ⟨rfl, #[(m1 : Int), (m0 : Int), (m2 : Int)], 8, fun f hf => ?_⟩
  obtain ⟨g, rfl⟩ : ∃ g, f = g + 8 := ⟨f - 8, by omega⟩
  rw [medianOfThree_body]
  have i1 : idx (m1 : Int) = m1 := idx_natCast (by unfold B62 at h1; omega)
  have i0 : idx (m0 : Int) = m0 := idx_natCast (by unfold B62 at h0; omega)
  have i2 : idx (m2 : Int) = m2 := idx_natCast (by unfold B62 at h2; omega)
  have g0 : Env.get #[(m1 : Int), (m0 : Int), (m2 : Int)] 0 = m1 := rfl
  have g1 : Env.get #[(m1 : Int), (m0 : Int), (m2 : Int)] 1 = m0 := rfl
  have g2 : Env.get #[(m1 : Int), (m0 : Int), (m2 : Int)] 2 = m2 := rfl
  unfold medianOfThree condSwap
  simp only [exec, evalC, eval, sortWorld, g0, g1, g2, i0, i1, i2]
  cases hA : less s m1 m0 <;> simp only [if_true, if_false, Bool.false_eq_true, exec, evalC, eval, g0, g1, g2, i0, i1, i2]
  · cases hB : less (s.note m1 m0 false) m2 m1 <;>
      simp only [if_true, if_false, Bool.false_eq_true, exec, evalC, eval, g0, g1, g2, i0, i1, i2]
    cases hC : less ((s.note m1 m0 false).note m2 m1 true |>.swap m2 m1) m1 m0 <;>
      simp only [if_true, if_false, Bool.false_eq_true, exec, evalC, eval, g0, g1, g2, i0, i1, i2]
  · cases hB : less ((s.note m1 m0 true).swap m1 m0) m2 m1 <;>
      simp only [if_true, if_false, Bool.false_eq_true, exec, evalC, eval, g0, g1, g2, i0, i1, i2]
    cases hC : less ((((s.note m1 m0 true).swap m1 m0).note m2 m1 true).swap m2 m1) m1 m0 <;>
      simp only [if_true, if_false, Bool.false_eq_true, exec, evalC, eval, g0, g1, g2, i0, i1, i2]

/-! ### maxDepth -/

theorem maxDepth_body : maxDepth.body =
    [ .set 1 (.lit 0), .set 2 (.var 0),
      .loop (.lt (.lit 0) (.var 2)) [.set 1 (.add (.var 1) (.lit 1))] [.set 2 (.shrS (.var 2) 1)],
      .ret [(.mul (.var 1) (.lit 2))] ] := rfl

theorem maxDepthLoop_le (i depth : Nat) : maxDepthLoop i depth ≤ depth + i := by
  fun_induction maxDepthLoop i depth with
  | case1 i depth h ih =>
    have : i >>> 1 < i := by rw [Nat.shiftRight_eq_div_pow]; omega
    omega
  | case2 i depth h => omega

theorem maxDepth_loop {σ : Type} (W : World σ) (P : String → Option Fn) (w : σ) :
    ∀ (i depth : Nat) (env : Env), env.get 2 = i → env.get 1 = depth → depth + i < B62 →
      Runs W P [ .loop (.lt (.lit 0) (.var 2)) [.set 1 (.add (.var 1) (.lit 1))] [.set 2 (.shrS (.var 2) 1)],
                 .ret [(.mul (.var 1) (.lit 2))] ] env w (.ret [((maxDepthLoop i depth * 2 : Nat) : Int)] w) := by
  intro i
  induction i using Nat.strongRecOn with
  | _ i ih =>
    intro depth env h2 h1 hb
    unfold B62 at hb
    rw [maxDepthLoop]
    split
    · rename_i hpos
      have hlt : i >>> 1 < i := by rw [Nat.shiftRight_eq_div_pow]; omega
      refine Runs.loop_iter ?_ (Runs.set Runs.nil) (Runs.set Runs.nil) ?_
      · simp (disch := omega) only [evalC, eval, h2, wrap_eq]
        simp; omega
      · simp only [evalC]
        refine ih (i >>> 1) hlt (depth + 1) _ ?_ ?_ ?_
        · simp (disch := omega) only [Env.get_set, eval, h2, h1, wrap_eq]
          simp [Nat.shiftRight_eq_div_pow]
        · simp (disch := omega) only [Env.get_set, eval, h2, h1, wrap_eq]
          simp
        · unfold B62; omega
    · rename_i hpos
      have hi : i = 0 := by omega
      subst hi
      refine Runs.loop_exit ?_ ?_
      · simp (disch := omega) only [evalC, eval, h2, wrap_eq]
        simp
      · simp only [evalC]
        have : List.map (eval env) [(.mul (.var 1) (.lit 2))] = [((depth * 2 : Nat) : Int)] := by
          simp (disch := omega) only [List.map, eval, h1, wrap_eq]
          simp
        rw [← this]
        exact Runs.ret

theorem maxDepth_runs {σ : Type} (W : World σ) (P : String → Option Fn) (n : Nat) (hn : n < B62) (w : σ) :
    FnRuns W P maxDepth [(n : Int)] w [((Got.Model.Sort.maxDepth n : Nat) : Int)] w := by
  refine Or.inl ?_
  rw [maxDepth_body]
  refine Runs.set (Runs.set ?_)
  unfold Got.Model.Sort.maxDepth
  refine maxDepth_loop W P w n 0 _ ?_ ?_ (by omega)
  · simp only [Env.get_set, eval]; simp; rfl
  · simp only [Env.get_set, eval]; simp; rfl

/-! ### insertionSort_func -/

/-- `for j := …; j > a && data.Less(j, j-1); j-- { data.Swap(j, j-1) }` of the generated term -/
def insInnerStmt : Stmt :=
  .loop (.and (.lt (.var 0) (.var 3)) (.less (.var 3) (.sub (.var 3) (.lit 1))))
    [.swap (.var 3) (.sub (.var 3) (.lit 1))] [.set 3 (.sub (.var 3) (.lit 1))]

theorem insInner_runs (P : String → Option Fn) (less : LessFn K V) (a : Nat) :
    ∀ (j : Nat) (env : Env) (s : St K V), env.get 0 = a → env.get 3 = j → j < B62 →
      ∃ env', (∀ y, y ≠ 3 → env'.get y = env.get y) ∧
        ∀ rest r, Runs (sortWorld less) P rest env' (insInner less a j s) r →
          Runs (sortWorld less) P (insInnerStmt :: rest) env s r := by
  intro j
  induction j with
  | zero =>
    intro env s h0 h3 hb
    refine ⟨env, fun _ _ => rfl, fun rest r h => ?_⟩
    have hc : evalC (sortWorld less) env (.and (.lt (.var 0) (.var 3)) (.less (.var 3) (.sub (.var 3) (.lit 1)))) s = (false, s) := by
      simp only [evalC, eval, h0, h3]
      have : ¬ ((a : Int) < ((0 : Nat) : Int)) := by omega
      simp only [this, decide_false, Bool.false_eq_true, if_false]
    refine Runs.loop_exit (by rw [hc]) ?_
    rw [hc]
    exact h
  | succ j ih =>
    intro env s h0 h3 hb
    unfold B62 at hb
    have e1 : wrap (((j + 1 : Nat) : Int) - wrap 1) = (j : Int) := by
      simp (disch := omega) only [wrap_eq]; omega
    have i1 : idx ((j + 1 : Nat) : Int) = j + 1 := idx_natCast (by omega)
    have i2 : idx (j : Int) = j := idx_natCast (by omega)
    rw [insInner]
    split
    · rename_i hgt
      have hc : evalC (sortWorld less) env (.and (.lt (.var 0) (.var 3)) (.less (.var 3) (.sub (.var 3) (.lit 1)))) s =
          (less s (j + 1) j, s.note (j + 1) j (less s (j + 1) j)) := by
        simp only [evalC, eval, h0, h3, e1]
        have : ((a : Int) < ((j + 1 : Nat) : Int)) := by omega
        simp only [this, decide_true, if_true, sortWorld, i1, i2]
      cases hr : less s (j + 1) j
      · rw [hr] at hc
        simp only [Bool.false_eq_true, if_false]
        refine ⟨env, fun _ _ => rfl, fun rest r h => ?_⟩
        refine Runs.loop_exit (by rw [hc]) ?_
        rw [hc]
        exact h
      · rw [hr] at hc
        simp only [if_true]
        obtain ⟨env', hfr, hk⟩ := ih (env.set 3 (j : Int)) ((s.note (j + 1) j true).swap (j + 1) j)
          (by rw [Env.get_set]; simpa using h0) (by rw [Env.get_set]; simp) (by unfold B62; omega)
        refine ⟨env', fun y hy => by rw [hfr y hy, Env.get_set, if_neg hy], fun rest r h => ?_⟩
        refine Runs.loop_iter (by rw [hc]) (Runs.swap Runs.nil) (Runs.set Runs.nil) ?_
        rw [hc]
        simp only [eval, h3, e1, sortWorld, i1, i2]
        exact hk rest r h
    · rename_i hgt
      refine ⟨env, fun _ _ => rfl, fun rest r h => ?_⟩
      have hc : evalC (sortWorld less) env (.and (.lt (.var 0) (.var 3)) (.less (.var 3) (.sub (.var 3) (.lit 1)))) s = (false, s) := by
        simp only [evalC, eval, h0, h3]
        have : ¬ ((a : Int) < ((j + 1 : Nat) : Int)) := by omega
        simp only [this, decide_false, Bool.false_eq_true, if_false]
      refine Runs.loop_exit (by rw [hc]) ?_
      rw [hc]
      exact h

def insOuterStmt : Stmt :=
  .loop (.lt (.var 2) (.var 1)) [.set 3 (.var 2), insInnerStmt] [.set 2 (.add (.var 2) (.lit 1))]

theorem insertionSort_body : insertionSort_func.body = [.set 2 (.add (.var 0) (.lit 1)), insOuterStmt] := rfl

theorem insOuter_runs (P : String → Option Fn) (less : LessFn K V) (a b : Nat) (hb : b < B62) :
    ∀ (n i : Nat) (env : Env) (s : St K V), b - i = n → env.get 0 = a → env.get 1 = b → env.get 2 = i → i ≤ B62 →
      ∃ env', ∀ rest r, Runs (sortWorld less) P rest env' (insOuter less a b i s) r →
          Runs (sortWorld less) P (insOuterStmt :: rest) env s r := by
  intro n
  induction n using Nat.strongRecOn with
  | _ n ih =>
    intro i env s hn h0 h1 h2 hi
    unfold B62 at hb hi
    rw [insOuter]
    split
    · rename_i hlt
      have hc : evalC (sortWorld less) env (.lt (.var 2) (.var 1)) s = (true, s) := by
        simp only [evalC, eval, h1, h2]
        have : ((i : Int) < (b : Int)) := by omega
        simp only [this, decide_true]
      obtain ⟨env1, hfr, hk⟩ := insInner_runs P less a i (env.set 3 (eval env (.var 2))) s
        (by rw [Env.get_set]; simpa using h0) (by rw [Env.get_set]; simpa [eval] using h2) (by unfold B62; omega)
      have g0 : env1.get 0 = a := by rw [hfr 0 (by decide), Env.get_set]; simpa using h0
      have g1 : env1.get 1 = b := by rw [hfr 1 (by decide), Env.get_set]; simpa using h1
      have g2 : env1.get 2 = i := by rw [hfr 2 (by decide), Env.get_set]; simpa using h2
      obtain ⟨env2, hk2⟩ := ih (b - (i + 1)) (by omega) (i + 1)
        (env1.set 2 (eval env1 (.add (.var 2) (.lit 1)))) (insInner less a i s) rfl
        (by rw [Env.get_set]; simpa using g0) (by rw [Env.get_set]; simpa using g1)
        (by rw [Env.get_set]; simp (disch := omega) only [eval, g2, wrap_eq]; simp) (by unfold B62; omega)
      refine ⟨env2, fun rest r h => ?_⟩
      refine Runs.loop_iter (by rw [hc]) (Runs.set (hk [] _ Runs.nil)) (Runs.set Runs.nil) ?_
      exact hk2 rest r h
    · rename_i hlt
      have hc : evalC (sortWorld less) env (.lt (.var 2) (.var 1)) s = (false, s) := by
        simp only [evalC, eval, h1, h2]
        have : ¬ ((i : Int) < (b : Int)) := by omega
        simp only [this, decide_false]
      refine ⟨env, fun rest r h => ?_⟩
      refine Runs.loop_exit (by rw [hc]) ?_
      rw [hc]
      exact h

/-- insertionSort_func: the translated source computes the model's `insertionSort` (state and log) -/
theorem insertionSort_runs (P : String → Option Fn) (less : LessFn K V) (a b : Nat) (ha : a < B62) (hb : b < B62)
    (s : St K V) :
    FnRuns (sortWorld less) P insertionSort_func [(a : Int), (b : Int)] s [] (insertionSort less a b s) := by
  obtain ⟨env', hk⟩ := insOuter_runs P less a b hb (b - (a + 1)) (a + 1)
    (Env.set #[(a : Int), (b : Int)] 2 (eval #[(a : Int), (b : Int)] (.add (.var 0) (.lit 1)))) s rfl
    (by rw [Env.get_set]; rfl) (by rw [Env.get_set]; rfl)
    (by rw [Env.get_set]
        have : Env.get #[(a : Int), (b : Int)] 0 = a := rfl
        unfold B62 at ha
        simp (disch := omega) only [eval, this, wrap_eq]; simp) (by unfold B62 at *; omega)
  refine Or.inr ⟨rfl, env', ?_⟩
  rw [insertionSort_body]
  exact Runs.set (hk [] _ Runs.nil)

end Got.Lemmas.SortAst
