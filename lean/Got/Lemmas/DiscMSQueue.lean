import Got.Model.MSQueueEvents
import Got.Lemmas.MSQueueInv
import Got.Lemmas.Discipline
/-
C18 for loom.Queue from the fine-grained model: for EVERY execution of the Michael–Scott LTS and EVERY
node `n`, the trace of accesses to the plain field `n.value` together with all atomic operations is
accepted by the publication-discipline monitor (hence race free by `accepts_raceFree`).

Invariant `DInv n s m` between the model state `s` and the monitor state `m`:
  * while `n` is not allocated, nothing has accessed `n.value` (monitor still "all true");
  * once allocated (written by its pusher): the thread that holds `n` privately is ordered after the
    write (`wcur`); every cell `p.next` that contains `n` carries the write (`carW`) — it was released
    by the linking CAS of the pusher; every thread whose local `next` is `n` (read by an atomic load of
    such a cell) is ordered after the write — so Pop's plain read of `n.value` passes the guard.
No second write ever happens (a node is allocated once), so `wcur`/`carW` only grow afterwards.
-/
namespace Got.Lemmas.DiscMSQueue
open Got.Model.MSQueue Got.Model.Discipline Got.Spec.Lin

/-! ### monitor facts -/

def acqd (m : Mon) (t a : Nat) : Mon :=
  { m with wcur := fun u => m.wcur u || (decide (u = t) && m.carW a),
           acur := fun u => m.acur u || (decide (u = t) && m.carA a) }

def reld (m : Mon) (t a : Nat) : Mon :=
  { m with carW := fun b => m.carW b || (decide (b = a) && m.wcur t),
           carA := fun b => m.carA b || (decide (b = a) && m.acur t) }

theorem run_nil (m : Mon) : m.run [] = some m := rfl

theorem run_acq (m : Mon) (t a : Nat) : m.run [.acq t a] = some (acqd m t a) := rfl

theorem run_acq_rel (m : Mon) (t a : Nat) : m.run [.acq t a, .rel t a] = some (reld (acqd m t a) t a) := rfl

def rdd (m : Mon) (t : Nat) : Mon :=
  { m with acur := fun u => m.acur u && decide (u = t), carA := fun _ => false }

theorem step_rd (m : Mon) (t : Nat) (h : m.wcur t = true) : m.step (.rd t) = some (rdd m t) := by
  simp [Mon.step, h, rdd]

theorem run_acq_rd (m : Mon) (t a : Nat) (h : (acqd m t a).wcur t = true) :
    m.run [.acq t a, .rd t] = some (rdd (acqd m t a) t) := by
  show (match (acqd m t a).step (.rd t) with | none => none | some m' => m'.run []) = _
  rw [step_rd _ _ h]; rfl

/-- the monitor knowledge relevant after the write only grows. -/
structure Ge (m m' : Mon) : Prop where
  w : ∀ u, m.wcur u = true → m'.wcur u = true
  c : ∀ b, m.carW b = true → m'.carW b = true

def AllTrue (m : Mon) : Prop := (∀ t, m.wcur t = true) ∧ (∀ t, m.acur t = true)

theorem Ge.refl (m : Mon) : Ge m m := ⟨fun _ h => h, fun _ h => h⟩

theorem Ge.trans {a b c : Mon} (h1 : Ge a b) (h2 : Ge b c) : Ge a c :=
  ⟨fun u h => h2.w u (h1.w u h), fun x h => h2.c x (h1.c x h)⟩

theorem ge_acqd (m : Mon) (t a : Nat) : Ge m (acqd m t a) :=
  ⟨fun u h => by simp [acqd, h], fun _ h => h⟩

theorem ge_reld (m : Mon) (t a : Nat) : Ge m (reld m t a) :=
  ⟨fun _ h => h, fun b h => by simp [reld, h]⟩

theorem allTrue_acqd {m : Mon} (h : AllTrue m) (t a : Nat) : AllTrue (acqd m t a) :=
  ⟨fun u => by simp [acqd, h.1 u], fun u => by simp [acqd, h.2 u]⟩

theorem allTrue_reld {m : Mon} (h : AllTrue m) (t a : Nat) : AllTrue (reld m t a) := h

/-- running the events of a CAS. -/
theorem run_casEv (m : Mon) (t a : Nat) (ok : Bool) :
    ∃ m', m.run (casEv t a ok) = some m' ∧ Ge m m' ∧ (AllTrue m → AllTrue m') ∧
      (ok = true → m' = reld (acqd m t a) t a) := by
  cases ok with
  | true =>
    exact ⟨_, run_acq_rel m t a, (ge_acqd m t a).trans (ge_reld _ t a),
      fun h => allTrue_reld (allTrue_acqd h t a) t a, fun _ => rfl⟩
  | false =>
    exact ⟨_, run_acq m t a, ge_acqd m t a, fun h => allTrue_acqd h t a, fun h => by cases h⟩

theorem run_append' (m : Mon) (a b : List Ev) :
    m.run (a ++ b) = (m.run a).bind (fun m' => m'.run b) := by
  induction a generalizing m with
  | nil => simp [Mon.run]
  | cons e es ih =>
    simp only [List.cons_append, Mon.run]
    cases m.step e with
    | none => simp
    | some m' => simp [ih]

/-! ### the invariant -/

structure DInv (n : Nat) (s : State) (m : Mon) : Prop where
  fresh : s.nalloc ≤ n → AllTrue m
  own : n < s.nalloc → ∀ t, priv (s.pc t) = some n → m.wcur t = true
  car : n < s.nalloc → ∀ p, s.next p = some n → m.carW (objNext p) = true
  rdr : n < s.nalloc → ∀ t hd tl, s.pc t = .d4 hd tl (some n) → m.wcur t = true

/-- a successor stored in the heap is an allocated node. -/
theorem next_lt {s : State} (hI : Inv s) {p x : Nat} (h : s.next p = some x) : x < s.nalloc := by
  have g := hI.glob
  by_cases hp : p ∈ s.chain
  · obtain ⟨i, hi⟩ := List.getElem?_of_mem hp
    exact g.lt x (List.mem_of_getElem? (g.succ_mem hi h))
  · rw [g.off p hp] at h; cases h

/-- a step that moves only the pc of thread `t` (heap links and allocation counter unchanged). -/
theorem DInv.upd_pc {n : Nat} {s s' : State} {m m' : Mon} (hD : DInv n s m) (hge : Ge m m')
    (t : Nat) (p' : Pc) (hpc : s'.pc = upd s.pc t p') (hnext : s'.next = s.next)
    (hna : s'.nalloc = s.nalloc) (hfresh : AllTrue m → AllTrue m')
    (hown : n < s.nalloc → priv p' = some n → m'.wcur t = true)
    (hrdr : n < s.nalloc → ∀ hd tl, p' = .d4 hd tl (some n) → m'.wcur t = true) : DInv n s' m' := by
  refine ⟨?_, ?_, ?_, ?_⟩
  · intro h; rw [hna] at h; exact hfresh (hD.fresh h)
  · intro h t' hp
    rw [hna] at h
    rw [hpc] at hp
    by_cases ht : t' = t
    · subst ht; rw [upd_same] at hp; exact hown h hp
    · rw [upd_other _ _ _ _ ht] at hp; exact hge.w _ (hD.own h t' hp)
  · intro h p hp
    rw [hna] at h; rw [hnext] at hp
    exact hge.c _ (hD.car h p hp)
  · intro h t' hd tl hp
    rw [hna] at h
    rw [hpc] at hp
    by_cases ht : t' = t
    · subst ht; rw [upd_same] at hp; exact hrdr h hd tl hp
    · rw [upd_other _ _ _ _ ht] at hp; exact hge.w _ (hD.rdr h t' hd tl hp)

theorem casTail_next (s : State) (t tl x : Nat) (p : Pc) : (casTail s t tl x p).next = s.next := by
  unfold casTail; split <;> rfl

theorem casTail_nalloc (s : State) (t tl x : Nat) (p : Pc) : (casTail s t tl x p).nalloc = s.nalloc := by
  unfold casTail; split <;> rfl

/-- the common case: the step emits only synchronisation events and the new pc neither owns `n` anew
    nor is a fresh `d4 _ _ (some n)`. -/
theorem DInv.sync_step {n : Nat} {s s' : State} {m m' : Mon} (hD : DInv n s m) (hge : Ge m m')
    (hfresh : AllTrue m → AllTrue m')
    (t : Nat) (p' : Pc) (hpc : s'.pc = upd s.pc t p') (hnext : s'.next = s.next)
    (hna : s'.nalloc = s.nalloc)
    (hown : priv p' = some n → priv (s.pc t) = some n)
    (hrdr : ∀ hd tl, p' ≠ .d4 hd tl (some n)) : DInv n s' m' :=
  hD.upd_pc hge t p' hpc hnext hna hfresh
    (fun h hp => hge.w _ (hD.own h t (hown hp)))
    (fun _ hd tl hp => absurd hp (hrdr hd tl))

/-! ### one action -/

theorem dinv_tau {n : Nat} {s : State} {m : Mon} (hI : Inv s) (hD : DInv n s m) (t : Nat) :
    ∃ m', m.run (stepEvents n s (.tau t)) = some m' ∧ DInv n (tau s t) m' := by
  have hl := hI.loc t
  cases hp : s.pc t with
  | idle =>
    simp only [stepEvents, tau, hp]
    exact ⟨m, rfl, hD⟩
  | crash =>
    simp only [stepEvents, tau, hp]
    exact ⟨m, rfl, hD⟩
  | p1 k =>
    simp only [stepEvents, tau, hp]
    refine ⟨_, run_acq m t _, hD.sync_step (ge_acqd m t _) (fun h => allTrue_acqd h t _) t _ rfl rfl rfl ?_ ?_⟩
    · intro h; rw [hp]; exact h
    · intro hd tl h; cases h
  | p2 k tl =>
    simp only [stepEvents, tau, hp]
    refine ⟨_, run_acq m t _, hD.sync_step (ge_acqd m t _) (fun h => allTrue_acqd h t _) t _ rfl rfl rfl ?_ ?_⟩
    · intro h; rw [hp]; exact h
    · intro hd tl h; cases h
  | p3 k tl nx =>
    simp only [stepEvents, tau, hp]
    refine ⟨_, run_acq m t _, ?_⟩
    split
    · cases nx with
      | none =>
        refine hD.sync_step (ge_acqd m t _) (fun h => allTrue_acqd h t _) t _ rfl rfl rfl ?_ ?_
        · intro h; rw [hp]; exact h
        · intro hd tl h; cases h
      | some x =>
        refine hD.sync_step (ge_acqd m t _) (fun h => allTrue_acqd h t _) t _ rfl rfl rfl ?_ ?_
        · intro h; rw [hp]; exact h
        · intro hd tl h; cases h
    · refine hD.sync_step (ge_acqd m t _) (fun h => allTrue_acqd h t _) t _ rfl rfl rfl ?_ ?_
      · intro h; rw [hp]; exact h
      · intro hd tl h; cases h
  | p4 k tl =>
    simp only [stepEvents, tau, hp]
    by_cases hn : s.next tl = none
    · -- successful link CAS: the cell tl.next now carries the knowledge of the pusher
      simp only [hn, decide_true, if_true]
      obtain ⟨m', hrun, hge, hall, hm'⟩ := run_casEv m t (objNext tl) true
      have hm'' := hm' rfl
      refine ⟨m', hrun, ?_, ?_, ?_, ?_⟩
      · intro h; exact hall (hD.fresh h)
      · intro h t' hpr
        show m'.wcur t' = true
        have hpr' : priv (upd s.pc t (.p5 k tl) t') = some n := hpr
        by_cases ht : t' = t
        · subst ht; rw [upd_same] at hpr'; cases hpr'
        · rw [upd_other _ _ _ _ ht] at hpr'
          exact hge.w _ (hD.own h t' hpr')
      · intro h p hpn
        have hpn' : upd s.next tl (some k) p = some n := hpn
        by_cases hpt : p = tl
        · subst hpt
          rw [upd_same] at hpn'
          injection hpn' with hkn
          subst hkn
          -- the pusher owns k = n, so it is ordered after the write
          have hw : m.wcur t = true := hD.own h t (by rw [hp]; rfl)
          rw [hm'']
          simp [reld, acqd, hw]
        · rw [upd_other _ _ _ _ hpt] at hpn'
          exact hge.c _ (hD.car h p hpn')
      · intro h t' hd tl' hpc
        have hpc' : upd s.pc t (.p5 k tl) t' = .d4 hd tl' (some n) := hpc
        by_cases ht : t' = t
        · subst ht; rw [upd_same] at hpc'; cases hpc'
        · rw [upd_other _ _ _ _ ht] at hpc'
          exact hge.w _ (hD.rdr h t' hd tl' hpc')
    · simp only [hn, decide_false, if_false]
      obtain ⟨m', hrun, hge, hall, _⟩ := run_casEv m t (objNext tl) false
      refine ⟨m', hrun, hD.sync_step hge hall t _ rfl rfl rfl ?_ ?_⟩
      · intro h; rw [hp]; exact h
      · intro hd tl h; cases h
  | p4h k tl x =>
    simp only [stepEvents, tau, hp]
    obtain ⟨m', hrun, hge, hall, _⟩ := run_casEv m t objTail (decide (s.tail = tl))
    refine ⟨m', hrun, hD.sync_step hge hall t _ (casTail_pc _ _ _ _ _) (casTail_next _ _ _ _ _)
      (casTail_nalloc _ _ _ _ _) ?_ ?_⟩
    · intro h; rw [hp]; exact h
    · intro hd tl h; cases h
  | p5 k tl =>
    simp only [stepEvents, tau, hp]
    obtain ⟨m', hrun, hge, hall, _⟩ := run_casEv m t objTail (decide (s.tail = tl))
    refine ⟨m', hrun, hD.sync_step (p' := .idle) hge hall t (casTail_pc _ _ _ _ _) (casTail_next _ _ _ _ _)
      (casTail_nalloc _ _ _ _ _) ?_ ?_⟩
    · intro h; cases h
    · intro hd tl h; cases h
  | d1 =>
    simp only [stepEvents, tau, hp]
    refine ⟨_, run_acq m t _, hD.sync_step (ge_acqd m t _) (fun h => allTrue_acqd h t _) t _ rfl rfl rfl ?_ ?_⟩
    · intro h; cases h
    · intro hd tl h; cases h
  | d2 hd =>
    simp only [stepEvents, tau, hp]
    refine ⟨_, run_acq m t _, hD.sync_step (ge_acqd m t _) (fun h => allTrue_acqd h t _) t _ rfl rfl rfl ?_ ?_⟩
    · intro h; cases h
    · intro hd tl h; cases h
  | d3 hd tl =>
    simp only [stepEvents, tau, hp]
    refine ⟨_, run_acq m t _, ?_⟩
    cases hn : s.next hd with
    | none =>
      refine hD.sync_step (p' := .d4 hd tl none) (ge_acqd m t _) (fun h => allTrue_acqd h t _) t rfl rfl rfl ?_ ?_
      · intro h; cases h
      · intro hd' tl' h; cases h
    | some x =>
      -- the load of hd.next acquires what the linking CAS released
      refine hD.upd_pc (ge_acqd m t _) t (.d4 hd tl (some x)) rfl rfl rfl (fun h => allTrue_acqd h t _) ?_ ?_
      · intro _ h; cases h
      · intro h hd' tl' heq
        injection heq with h1 h2 h3
        injection h3 with h3
        subst h3
        have hc := hD.car h hd hn
        simp [acqd, hc]
  | d4 hd tl nx =>
    simp only [stepEvents, tau, hp]
    by_cases hrd : hd = s.head ∧ hd ≠ tl ∧ nx = some n
    · -- the plain read of n.value
      rw [if_pos hrd]
      obtain ⟨h1, h2, h3⟩ := hrd
      subst h3
      rw [if_pos h1, if_neg h2]
      dsimp only
      have hlt : n < s.nalloc := by
        rw [hp] at hl
        exact next_lt hI (hl.2.1 n rfl)
      have hw : m.wcur t = true := hD.rdr hlt t hd tl hp
      have hw' : (acqd m t objHead).wcur t = true := (ge_acqd m t objHead).w t hw
      refine ⟨rdd (acqd m t objHead) t, run_acq_rd m t objHead hw', ?_⟩
      · have hge : Ge m (rdd (acqd m t objHead) t) :=
          ⟨(ge_acqd m t objHead).w, (ge_acqd m t objHead).c⟩
        refine ⟨?_, ?_, ?_, ?_⟩
        · intro h; exact absurd hlt (Nat.not_lt.mpr h)
        · intro h t' hpr
          have hpr' : priv (upd s.pc t (.d5 hd n (s.val n)) t') = some n := hpr
          by_cases ht : t' = t
          · subst ht; rw [upd_same] at hpr'; cases hpr'
          · rw [upd_other _ _ _ _ ht] at hpr'; exact hge.w _ (hD.own h t' hpr')
        · intro h p hpn; exact hge.c _ (hD.car h p hpn)
        · intro h t' hd' tl' hpc
          have hpc' : upd s.pc t (.d5 hd n (s.val n)) t' = .d4 hd' tl' (some n) := hpc
          by_cases ht : t' = t
          · subst ht; rw [upd_same] at hpc'; cases hpc'
          · rw [upd_other _ _ _ _ ht] at hpc'; exact hge.w _ (hD.rdr h t' hd' tl' hpc')
    · simp only [if_neg hrd]
      refine ⟨_, run_acq m t _, ?_⟩
      have hg := ge_acqd m t objHead
      have ha : AllTrue m → AllTrue (acqd m t objHead) := fun h => allTrue_acqd h t _
      split
      · split
        · cases nx with
          | none =>
            refine hD.sync_step (p' := .idle) hg ha t rfl rfl rfl ?_ ?_
            · intro h; cases h
            · intro hd' tl' h; cases h
          | some x =>
            refine hD.sync_step hg ha t _ rfl rfl rfl ?_ ?_
            · intro h; cases h
            · intro hd' tl' h; cases h
        · cases nx with
          | none =>
            refine hD.sync_step (p' := .crash) hg ha t rfl rfl rfl ?_ ?_
            · intro h; cases h
            · intro hd' tl' h; cases h
          | some x =>
            refine hD.sync_step hg ha t _ rfl rfl rfl ?_ ?_
            · intro h; cases h
            · intro hd' tl' h; cases h
      · refine hD.sync_step (p' := .d1) hg ha t rfl rfl rfl ?_ ?_
        · intro h; cases h
        · intro hd' tl' h; cases h
  | d5h hd tl x =>
    simp only [stepEvents, tau, hp]
    obtain ⟨m', hrun, hge, hall, _⟩ := run_casEv m t objTail (decide (s.tail = tl))
    refine ⟨m', hrun, hD.sync_step (p' := .d1) hge hall t (casTail_pc _ _ _ _ _) (casTail_next _ _ _ _ _)
      (casTail_nalloc _ _ _ _ _) ?_ ?_⟩
    · intro h; cases h
    · intro hd tl h; cases h
  | d5 hd x v =>
    simp only [stepEvents, tau, hp]
    obtain ⟨m', hrun, hge, hall, _⟩ := run_casEv m t objHead (decide (s.head = hd))
    refine ⟨m', hrun, ?_⟩
    split
    · refine hD.sync_step (p' := .idle) hge hall t rfl rfl rfl ?_ ?_
      · intro h; cases h
      · intro hd tl h; cases h
    · refine hD.sync_step (p' := .d1) hge hall t rfl rfl rfl ?_ ?_
      · intro h; cases h
      · intro hd tl h; cases h

theorem dinv_step {n : Nat} {s : State} {m : Mon} (hI : Inv s) (hD : DInv n s m) (a : Act) :
    ∃ m', m.run (stepEvents n s a) = some m' ∧ DInv n (step s a) m' := by
  cases a with
  | tau t => exact dinv_tau hI hD t
  | invPop t =>
    refine ⟨m, rfl, ?_⟩
    cases hp : s.pc t <;> simp only [step, hp] <;> try exact hD
    refine hD.sync_step (p' := .d1) (Ge.refl m) id t rfl rfl rfl ?_ ?_
    · intro h; cases h
    · intro hd tl h; cases h
  | invPush t v =>
    cases hp : s.pc t <;> simp only [stepEvents, step, hp] <;> try exact ⟨m, rfl, hD⟩
    -- allocation of node s.nalloc by thread t
    have hnoown : ∀ t', priv (s.pc t') ≠ some s.nalloc := by
      intro t' h
      exact Nat.lt_irrefl _ (priv_lt h (hI.loc t'))
    have hnonext : ∀ p, s.next p ≠ some s.nalloc := by
      intro p h
      exact Nat.lt_irrefl _ (next_lt hI h)
    have hnord : ∀ t' hd tl, s.pc t' ≠ .d4 hd tl (some s.nalloc) := by
      intro t' hd tl h
      have hl := hI.loc t'
      rw [h] at hl
      exact hnonext hd (hl.2.1 _ rfl)
    by_cases hn : s.nalloc = n
    · -- the write of n.value
      subst hn
      rw [if_pos rfl]
      have hac : m.acur t = true := (hD.fresh (Nat.le_refl _)).2 t
      refine ⟨⟨fun u => decide (u = t), fun u => decide (u = t), fun _ => false, fun _ => false⟩, ?_, ?_⟩
      · simp [Mon.run, Mon.step, hac]
      · refine ⟨?_, ?_, ?_, ?_⟩
        · intro h; exact absurd h (by show ¬ s.nalloc + 1 ≤ s.nalloc; omega)
        · intro _ t' hpr
          have hpr' : priv (upd s.pc t (.p1 s.nalloc) t') = some s.nalloc := hpr
          by_cases ht : t' = t
          · subst ht; simp
          · rw [upd_other _ _ _ _ ht] at hpr'; exact absurd hpr' (hnoown t')
        · intro _ p hpn; exact absurd hpn (hnonext p)
        · intro _ t' hd tl hpc
          have hpc' : upd s.pc t (.p1 s.nalloc) t' = .d4 hd tl (some s.nalloc) := hpc
          by_cases ht : t' = t
          · subst ht; rw [upd_same] at hpc'; cases hpc'
          · rw [upd_other _ _ _ _ ht] at hpc'; exact absurd hpc' (hnord t' hd tl)
    · rw [if_neg hn]
      refine ⟨m, rfl, ?_, ?_, ?_, ?_⟩
      · intro h
        have : s.nalloc ≤ n := by
          have : s.nalloc + 1 ≤ n := h
          omega
        exact hD.fresh this
      · intro h t' hpr
        have h' : n < s.nalloc := by
          have : n < s.nalloc + 1 := h
          omega
        have hpr' : priv (upd s.pc t (.p1 s.nalloc) t') = some n := hpr
        by_cases ht : t' = t
        · subst ht; rw [upd_same] at hpr'; simp only [priv] at hpr'
          injection hpr' with hpr'; exact absurd hpr' hn
        · rw [upd_other _ _ _ _ ht] at hpr'; exact hD.own h' t' hpr'
      · intro h p hpn
        have h' : n < s.nalloc := by
          have : n < s.nalloc + 1 := h
          omega
        exact hD.car h' p hpn
      · intro h t' hd tl hpc
        have h' : n < s.nalloc := by
          have : n < s.nalloc + 1 := h
          omega
        have hpc' : upd s.pc t (.p1 s.nalloc) t' = .d4 hd tl (some n) := hpc
        by_cases ht : t' = t
        · subst ht; rw [upd_same] at hpc'; cases hpc'
        · rw [upd_other _ _ _ _ ht] at hpc'; exact hD.rdr h' t' hd tl hpc'

/-! ### whole executions -/

theorem dinv_init (n : Nat) : DInv n init Mon.init := by
  refine ⟨fun _ => ⟨fun _ => rfl, fun _ => rfl⟩, ?_, ?_, ?_⟩
  · intro _ t h; cases h
  · intro _ p h; cases h
  · intro _ t hd tl h; cases h

theorem dinv_run {n : Nat} : ∀ (acts : List Act) (s : State) (m : Mon), Inv s → DInv n s m →
    ∃ m', m.run (eventsFrom n s acts) = some m' ∧ DInv n (run s acts) m' := by
  intro acts
  induction acts with
  | nil => intro s m _ hD; exact ⟨m, rfl, hD⟩
  | cons a as ih =>
    intro s m hI hD
    obtain ⟨m1, h1, hD1⟩ := dinv_step hI hD a
    obtain ⟨m2, h2, hD2⟩ := ih (step s a) m1 (inv_step hI a) hD1
    refine ⟨m2, ?_, hD2⟩
    show m.run (stepEvents n s a ++ eventsFrom n (step s a) as) = some m2
    rw [run_append', h1]; exact h2

/-- **C18 for loom.Queue, from the fine-grained model.** For every execution of the Michael–Scott LTS
    (any number of threads, any programs, any interleaving of the atomic steps) and every node `n`, the
    trace of the plain accesses to `n.value` and of all atomic operations is accepted by the
    publication discipline. -/
theorem value_accepted : ∀ (acts : List Act) (n : Nat), accepts (valueEvents n acts) = true := by
  intro acts n
  obtain ⟨m', h, _⟩ := dinv_run (n := n) acts init Mon.init inv_init (dinv_init n)
  unfold accepts valueEvents
  rw [h]; rfl

/-- hence race free (declarative happens-before of Discipline.lean). -/
theorem value_raceFree : ∀ (acts : List Act) (n : Nat), RaceFree (valueEvents n acts) :=
  fun acts n => Got.Lemmas.Discipline.accepts_raceFree _ (value_accepted acts n)

end Got.Lemmas.DiscMSQueue
