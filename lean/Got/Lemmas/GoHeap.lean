import Got.Model.GoHeap
/-
Lemmas about the container/heap transcription `Got.Model.GoHeap` (core Lean only, no Mathlib).

Part 1 — for an ARBITRARY comparison `less` (no assumption at all, e.g. float `<` with NaN):
  `up`, `down`, `push`, `pop` only permute the elements; sizes; `pop` succeeds on a non-empty heap;
  the fuel of `upAux`/`downAux` never runs out (more fuel changes nothing).
Part 2 — when `less` is the strict part of a total preorder (`TotalPreorder`: asymmetric and
  negatively transitive, i.e. a strict weak order — float `<` without NaN, any `<` of a linear order,
  ties allowed): `push` and `pop` preserve the heap invariant `IsHeap`, the root is a minimal element,
  and `pop` returns a minimal element.
-/
namespace Got.Lemmas.GoHeap
open Got.Model.GoHeap

variable {α : Type}

/-! ## Part 1: arbitrary `less` -/

theorem upAux_size (less : α → α → Bool) : ∀ (fuel : Nat) (a : Array α) (j : Nat), (upAux less fuel a j).size = a.size := by
  intro fuel
  induction fuel with
  | zero => intro a j; rfl
  | succ fuel ih =>
    intro a j
    simp only [upAux]
    split
    · split
      · rfl
      · split
        · rfl
        · rw [ih]; exact Array.size_swap
    · rfl

theorem upAux_perm (less : α → α → Bool) : ∀ (fuel : Nat) (a : Array α) (j : Nat), (upAux less fuel a j).Perm a := by
  intro fuel
  induction fuel with
  | zero => intro a j; exact Array.Perm.refl _
  | succ fuel ih =>
    intro a j
    simp only [upAux]
    split
    · split
      · exact Array.Perm.refl _
      · split
        · exact Array.Perm.refl _
        · exact (ih _ _).trans (Array.swap_perm _ _)
    · exact Array.Perm.refl _

theorem downAux_size (less : α → α → Bool) : ∀ (fuel : Nat) (a : Array α) (i n : Nat), (downAux less fuel a i n).1.size = a.size := by
  intro fuel
  induction fuel with
  | zero => intro a i n; rfl
  | succ fuel ih =>
    intro a i n
    simp only [downAux]
    split
    · split
      · split
        · rfl
        · rw [ih]; exact Array.size_swap
      · rfl
    · rfl

theorem downAux_perm (less : α → α → Bool) : ∀ (fuel : Nat) (a : Array α) (i n : Nat), (downAux less fuel a i n).1.Perm a := by
  intro fuel
  induction fuel with
  | zero => intro a i n; exact Array.Perm.refl _
  | succ fuel ih =>
    intro a i n
    simp only [downAux]
    split
    · split
      · split
        · exact Array.Perm.refl _
        · exact (ih _ _ _).trans (Array.swap_perm _ _)
      · exact Array.Perm.refl _
    · exact Array.Perm.refl _

/-- `down` never touches an index `≥ n` -/
theorem downAux_untouched (less : α → α → Bool) : ∀ (fuel : Nat) (a : Array α) (i n : Nat) (k : Nat)
    (hk : k < a.size), n ≤ k → (downAux less fuel a i n).1[k]'(by rw [downAux_size]; exact hk) = a[k] := by
  intro fuel
  induction fuel with
  | zero => intro a i n k hk _; rfl
  | succ fuel ih =>
    intro a i n k hk hnk
    simp only [downAux]
    split
    · rename_i hn
      split
      · rename_i h1
        have hj := pickChild_spec less a (2 * i + 1) n hn h1
        split
        · rfl
        · rw [ih _ _ _ k (by rw [Array.size_swap]; exact hk) hnk]
          rw [Array.getElem_swap]
          rw [if_neg (by omega), if_neg (by omega)]
      · rfl
    · rfl

/-- more fuel than `j + 1` changes nothing: the loop of `up` always ends by one of its `break`s -/
theorem upAux_fuel (less : α → α → Bool) : ∀ (f1 f2 : Nat) (a : Array α) (j : Nat), j < f1 → j < f2 →
    upAux less f1 a j = upAux less f2 a j := by
  intro f1
  induction f1 with
  | zero => intro f2 a j h; omega
  | succ f1 ih =>
    intro f2 a j h1 h2
    cases f2 with
    | zero => omega
    | succ f2 =>
      simp only [upAux]
      split
      · split
        · rfl
        · rename_i hne
          split
          · rfl
          · exact ih f2 _ _ (by omega) (by omega)
      · rfl

/-- more fuel than `n - i` changes nothing for `down` -/
theorem downAux_fuel (less : α → α → Bool) : ∀ (f1 f2 : Nat) (a : Array α) (i n : Nat), n - i ≤ f1 → n - i ≤ f2 →
    downAux less f1 a i n = downAux less f2 a i n := by
  intro f1
  induction f1 with
  | zero =>
    intro f2 a i n h1 _
    cases f2 with
    | zero => rfl
    | succ f2 =>
      simp only [downAux]
      split
      · split
        · omega
        · rfl
      · rfl
  | succ f1 ih =>
    intro f2 a i n h1 h2
    cases f2 with
    | zero =>
      simp only [downAux]
      split
      · split
        · omega
        · rfl
      · rfl
    | succ f2 =>
      simp only [downAux]
      split
      · rename_i hn
        split
        · rename_i h1'
          have hj := pickChild_spec less a (2 * i + 1) n hn h1'
          split
          · rfl
          · exact ih f2 _ _ _ (by omega) (by omega)
        · rfl
      · rfl

theorem up_size (less : α → α → Bool) (a : Array α) (j : Nat) : (up less a j).size = a.size := upAux_size _ _ _ _
theorem up_perm (less : α → α → Bool) (a : Array α) (j : Nat) : (up less a j).Perm a := upAux_perm _ _ _ _

theorem push_size (less : α → α → Bool) (a : Array α) (x : α) : (push less a x).size = a.size + 1 := by
  simp [push, up_size]

theorem push_perm (less : α → α → Bool) (a : Array α) (x : α) : (push less a x).toList.Perm (x :: a.toList) := by
  have h := Array.perm_iff_toList_perm.mp (up_perm less (a.push x) a.size)
  rw [Array.toList_push] at h
  exact h.trans (List.perm_append_singleton _ _)

/-- the array `pop` works on before removing the last element -/
def popArr (less : α → α → Bool) (a : Array α) (h : 0 < a.size) : Array α :=
  (downLoop less (a.swap 0 (a.size - 1) h (by omega)) 0 (a.size - 1)).1

theorem popArr_size (less : α → α → Bool) (a : Array α) (h : 0 < a.size) : (popArr less a h).size = a.size := by
  simp [popArr, downLoop, downAux_size]

theorem popArr_perm (less : α → α → Bool) (a : Array α) (h : 0 < a.size) : (popArr less a h).Perm a :=
  (downAux_perm _ _ _ _ _).trans (Array.swap_perm _ _)

/-- `pop` of a non-empty heap: the last element of `popArr` and the rest -/
theorem pop_eq (less : α → α → Bool) (a : Array α) (h : 0 < a.size) :
    pop less a = some ((popArr less a h)[a.size - 1]'(by rw [popArr_size]; omega), (popArr less a h).pop) := by
  have hs := popArr_size less a h
  unfold pop
  rw [dif_pos h]
  show (match (popArr less a h).back? with | some x => some (x, (popArr less a h).pop) | none => none) = _
  have : (popArr less a h).back? = some ((popArr less a h)[a.size - 1]'(by rw [hs]; omega)) := by
    rw [Array.back?_eq_getElem?]
    simp only [hs]
    exact Array.getElem?_eq_getElem (by rw [hs]; omega)
  rw [this]

theorem pop_none (less : α → α → Bool) (a : Array α) (h : a.size = 0) : pop less a = none := by
  unfold pop
  rw [dif_neg (by omega)]

/-- `pop` returns one element and leaves the others: `x :: rest` is a permutation of the heap -/
theorem pop_perm (less : α → α → Bool) (a : Array α) (x : α) (b : Array α) (hp : pop less a = some (x, b)) :
    (x :: b.toList).Perm a.toList ∧ b.size + 1 = a.size := by
  have h : 0 < a.size := by
    rcases Nat.eq_zero_or_pos a.size with h0 | h
    · rw [pop_none less a h0] at hp; cases hp
    · exact h
  rw [pop_eq less a h] at hp
  have hs := popArr_size less a h
  injection hp with hp
  injection hp with hx hb
  subst hx hb
  have hperm := Array.perm_iff_toList_perm.mp (popArr_perm less a h)
  refine ⟨?_, by rw [Array.size_pop, hs]; omega⟩
  refine List.Perm.trans ?_ hperm
  have hne : (popArr less a h).toList ≠ [] := by
    intro h0
    have := congrArg List.length h0
    simp only [Array.length_toList, List.length_nil] at this
    omega
  have hsplit := List.dropLast_concat_getLast hne
  have hlast : (popArr less a h).toList.getLast hne = (popArr less a h)[a.size - 1]'(by rw [hs]; omega) := by
    rw [List.getLast_eq_getElem]
    simp only [Array.length_toList, Array.getElem_toList, hs]
  rw [Array.toList_pop, ← hlast]
  conv => rhs; rw [← hsplit]
  exact (List.perm_append_singleton _ _).symm

/-! ## Part 2: `less` is the strict part of a total preorder -/

/-- `less` is a strict weak order: asymmetric, and `a ≤ b := ¬ b < a` is transitive (ties allowed).
    Holds for `<` of any linear order and for float `<` in the absence of NaN. -/
structure TotalPreorder (less : α → α → Bool) : Prop where
  asymm : ∀ a b, less a b = true → less b a = false
  /-- `a ≤ b → b ≤ c → a ≤ c` -/
  ntrans : ∀ a b c, less b a = false → less c b = false → less c a = false

theorem TotalPreorder.irrefl {less : α → α → Bool} (tp : TotalPreorder less) (a : α) : less a a = false := by
  cases h : less a a with
  | false => rfl
  | true => rw [tp.asymm a a h] at h; cases h

/-- heap invariant on the prefix `[0, n)`: no element is smaller than its parent -/
def HeapOn (less : α → α → Bool) (a : Array α) (n : Nat) : Prop :=
  ∀ (k : Nat) (hk : k < a.size), k < n → 0 < k → less a[k] (a[(k - 1) / 2]'(by omega)) = false

def IsHeap (less : α → α → Bool) (a : Array α) : Prop := HeapOn less a a.size

/-- the root is a minimal element -/
theorem root_min {less : α → α → Bool} (tp : TotalPreorder less) (a : Array α) (hh : IsHeap less a) :
    ∀ (k : Nat) (hk : k < a.size), less a[k] (a[0]'(by omega)) = false := by
  intro k
  induction k using Nat.strongRecOn with
  | _ k ih =>
    intro hk
    by_cases h0 : k = 0
    · subst h0; exact tp.irrefl _
    · have hp := ih ((k - 1) / 2) (by omega) (by omega)
      exact tp.ntrans _ _ _ hp (hh k hk hk (by omega))

/-- invariant of `up` at position `j`: every parent/child edge is in order except possibly the edge above `j`,
    and the children of `j` are not smaller than `j`'s parent -/
def UpInv (less : α → α → Bool) (a : Array α) (j : Nat) : Prop :=
  (∀ (k : Nat) (hk : k < a.size), 0 < k → k ≠ j → less a[k] (a[(k - 1) / 2]'(by omega)) = false) ∧
  (∀ (c : Nat) (hc : c < a.size) (_h0 : 0 < c) (_hcj : (c - 1) / 2 = j) (_hj : 0 < j), less a[c] (a[(j - 1) / 2]'(by omega)) = false)

theorem upAux_heap {less : α → α → Bool} (tp : TotalPreorder less) : ∀ (fuel : Nat) (a : Array α) (j : Nat),
    j < fuel → j < a.size → UpInv less a j → IsHeap less (upAux less fuel a j) := by
  intro fuel
  induction fuel with
  | zero => intro a j h; omega
  | succ fuel ih =>
    intro a j hf hj hinv
    simp only [upAux]
    rw [dif_pos hj]
    by_cases hij : (j - 1) / 2 = j
    · rw [if_pos hij]
      intro k hk _ h0
      exact hinv.1 k hk h0 (by omega)
    · rw [if_neg hij]
      have hi : (j - 1) / 2 < a.size := by omega
      cases hl : less a[j] (a[(j - 1) / 2]'hi) with
      | false =>
        simp only [Bool.not_false, if_true]
        intro k hk _ h0
        by_cases hkj : k = j
        · subst hkj; exact hl
        · exact hinv.1 k hk h0 hkj
      | true =>
        simp only [Bool.not_true, Bool.false_eq_true, if_false]
        have hji : less (a[(j - 1) / 2]'hi) a[j] = false := tp.asymm _ _ hl
        apply ih _ _ (by omega) (by rw [Array.size_swap]; omega)
        constructor
        · intro k hk h0 hki
          have hk' : k < a.size := by rw [Array.size_swap] at hk; exact hk
          simp only [Array.getElem_swap]
          by_cases hkj : k = j
          · subst hkj
            rw [if_neg (by omega), if_pos rfl, if_pos rfl]
            exact hji
          · rw [if_neg hki, if_neg hkj]
            by_cases hp1 : (k - 1) / 2 = (j - 1) / 2
            · -- sibling of j
              rw [if_pos hp1]
              have h1 := hinv.1 k hk' h0 hkj
              simp only [hp1] at h1
              exact tp.ntrans _ _ _ hji h1
            · rw [if_neg hp1]
              by_cases hp2 : (k - 1) / 2 = j
              · rw [if_pos hp2]
                exact hinv.2 k hk' h0 hp2 (by omega)
              · rw [if_neg hp2]
                exact hinv.1 k hk' h0 hkj
        · intro c hc h0 hci hi0
          have hc' : c < a.size := by rw [Array.size_swap] at hc; exact hc
          simp only [Array.getElem_swap]
          have hg1 : ((j - 1) / 2 - 1) / 2 ≠ (j - 1) / 2 := by omega
          have hg2 : ((j - 1) / 2 - 1) / 2 ≠ j := by omega
          have hgi := hinv.1 ((j - 1) / 2) hi hi0 hij
          rw [if_neg (by omega)]
          by_cases hcj : c = j
          · subst hcj
            rw [if_pos rfl, if_neg hg1, if_neg hg2]
            exact hgi
          · rw [if_neg hcj, if_neg hg1, if_neg hg2]
            have h1 := hinv.1 c hc' h0 hcj
            simp only [hci] at h1
            exact tp.ntrans _ _ _ hgi h1

/-- heap.Push preserves the heap invariant -/
theorem push_heap {less : α → α → Bool} (tp : TotalPreorder less) (a : Array α) (x : α) (hh : IsHeap less a) :
    IsHeap less (push less a x) := by
  unfold push up
  apply upAux_heap tp _ _ _ (by omega) (by rw [Array.size_push]; omega)
  constructor
  · intro k hk h0 hka
    have hk' : k < a.size := by rw [Array.size_push] at hk; omega
    rw [Array.getElem_push, Array.getElem_push, dif_pos hk', dif_pos (by omega)]
    exact hh k hk' hk' h0
  · intro c hc h0 hca _
    rw [Array.size_push] at hc
    omega

/-- invariant of `down` at position `i` on the prefix `[0, n)`: every edge is in order except possibly those
    below `i`, and the children of `i` are not smaller than `i`'s parent -/
def DownInv (less : α → α → Bool) (a : Array α) (n i : Nat) : Prop :=
  (∀ (k : Nat) (hk : k < a.size), k < n → 0 < k → (k - 1) / 2 ≠ i → less a[k] (a[(k - 1) / 2]'(by omega)) = false) ∧
  (∀ (c : Nat) (hc : c < a.size) (_hcn : c < n) (_h0 : 0 < c) (_hci : (c - 1) / 2 = i) (_hi : 0 < i), less a[c] (a[(i - 1) / 2]'(by omega)) = false)

/-- the child chosen by `down` is not greater than any child of `i` -/
theorem pickChild_min {less : α → α → Bool} (tp : TotalPreorder less) (a : Array α) (i n : Nat) (hn : n ≤ a.size)
    (h1 : 2 * i + 1 < n) (c : Nat) (hc : c < n) (h0 : 0 < c) (hci : (c - 1) / 2 = i) :
    less (a[c]'(by omega)) (a[pickChild less a (2 * i + 1) n hn h1]'(by have := pickChild_spec less a (2 * i + 1) n hn h1; omega)) = false := by
  have hcc : c = 2 * i + 1 ∨ c = 2 * i + 1 + 1 := by omega
  by_cases h2 : 2 * i + 1 + 1 < n
  · by_cases hl : less (a[2 * i + 1 + 1]'(by omega)) (a[2 * i + 1]'(by omega)) = true
    · have hpc : pickChild less a (2 * i + 1) n hn h1 = 2 * i + 1 + 1 := by
        unfold pickChild; rw [dif_pos h2, if_pos hl]
      simp only [hpc]
      rcases hcc with rfl | rfl
      · exact tp.asymm _ _ hl
      · exact tp.irrefl _
    · have hpc : pickChild less a (2 * i + 1) n hn h1 = 2 * i + 1 := by
        unfold pickChild; rw [dif_pos h2, if_neg hl]
      simp only [hpc]
      rcases hcc with rfl | rfl
      · exact tp.irrefl _
      · simpa using hl
  · have hpc : pickChild less a (2 * i + 1) n hn h1 = 2 * i + 1 := by
      unfold pickChild; rw [dif_neg h2]
    simp only [hpc]
    rcases hcc with rfl | rfl
    · exact tp.irrefl _
    · omega

/-- one iteration of `down` with chosen child `j`: either the loop stops and the prefix is a heap, or after the swap
    the invariant holds one level further down -/
theorem down_step {less : α → α → Bool} (tp : TotalPreorder less) (a : Array α) (i n j : Nat) (hn : n ≤ a.size)
    (hj1 : 2 * i + 1 ≤ j) (hj2 : j ≤ 2 * i + 1 + 1) (hjn : j < n)
    (hmin : ∀ (c : Nat) (hc : c < n), 0 < c → (c - 1) / 2 = i → less (a[c]'(by omega)) (a[j]'(by omega)) = false)
    (hinv : DownInv less a n i) :
    (less (a[j]'(by omega)) (a[i]'(by omega)) = false → HeapOn less a n) ∧
    (less (a[j]'(by omega)) (a[i]'(by omega)) = true → DownInv less (a.swap i j (by omega) (by omega)) n j) := by
  have hja : j < a.size := by omega
  have hia : i < a.size := by omega
  constructor
  · intro hl k hk hkn h0
    by_cases hp : (k - 1) / 2 = i
    · have := hmin k hkn h0 hp
      simp only [hp]
      exact tp.ntrans _ _ _ hl this
    · exact hinv.1 k hk hkn h0 hp
  · intro hl
    have hij : less (a[i]'hia) (a[j]'hja) = false := tp.asymm _ _ hl
    have hpj : (j - 1) / 2 = i := by omega
    constructor
    · intro k hk hkn h0 hpk
      have hk' : k < a.size := by rw [Array.size_swap] at hk; exact hk
      simp only [Array.getElem_swap]
      by_cases hp : (k - 1) / 2 = i
      · -- k is a child of i
        rw [if_neg (by omega), if_pos hp]
        by_cases hkj : k = j
        · subst hkj
          rw [if_pos rfl]; exact hij
        · rw [if_neg hkj]
          exact hmin k hkn h0 hp
      · rw [if_neg hp, if_neg hpk]
        by_cases hki : k = i
        · subst hki
          rw [if_pos rfl]
          exact hinv.2 j hja hjn (by omega) hpj (by omega)
        · rw [if_neg hki, if_neg (by omega)]
          exact hinv.1 k hk' hkn h0 hp
    · intro c hc hcn h0 hcj hj0
      have hc' : c < a.size := by rw [Array.size_swap] at hc; exact hc
      simp only [Array.getElem_swap]
      rw [if_neg (by omega), if_neg (by omega), if_pos hpj]
      have := hinv.1 c hc' hcn h0 (by omega)
      simp only [hcj] at this
      exact this

theorem downAux_heap {less : α → α → Bool} (tp : TotalPreorder less) : ∀ (fuel : Nat) (a : Array α) (i n : Nat),
    n - i ≤ fuel → n ≤ a.size → DownInv less a n i → HeapOn less (downAux less fuel a i n).1 n := by
  intro fuel
  induction fuel with
  | zero =>
    intro a i n hf hn hinv k hk hkn h0
    exact hinv.1 k hk hkn h0 (by omega)
  | succ fuel ih =>
    intro a i n hf hn hinv
    simp only [downAux]
    rw [dif_pos hn]
    by_cases h1 : 2 * i + 1 < n
    · rw [dif_pos h1]
      have hj := pickChild_spec less a (2 * i + 1) n hn h1
      obtain ⟨hstop, hgo⟩ := down_step tp a i n (pickChild less a (2 * i + 1) n hn h1) hn hj.1 hj.2.1 hj.2.2
        (pickChild_min tp a i n hn h1) hinv
      cases hl : less (a[pickChild less a (2 * i + 1) n hn h1]'(by omega)) (a[i]'(by omega)) with
      | false =>
        simp only [Bool.not_false, if_true]
        exact hstop hl
      | true =>
        simp only [Bool.not_true, Bool.false_eq_true, if_false]
        exact ih _ _ _ (by omega) (by rw [Array.size_swap]; exact hn) (hgo hl)
    · rw [dif_neg h1]
      intro k hk hkn h0
      exact hinv.1 k hk hkn h0 (by omega)

/-- heap.Pop on a heap: the remaining array is a heap again and the returned element is minimal -/
theorem pop_heap {less : α → α → Bool} (tp : TotalPreorder less) (a : Array α) (hh : IsHeap less a) (x : α) (b : Array α)
    (hp : pop less a = some (x, b)) :
    IsHeap less b ∧ (∀ y ∈ a.toList, less y x = false) ∧ (x :: b.toList).Perm a.toList ∧ b.size + 1 = a.size := by
  obtain ⟨hperm, hsize⟩ := pop_perm less a x b hp
  have h : 0 < a.size := by omega
  rw [pop_eq less a h] at hp
  injection hp with hp
  injection hp with hx hb
  have hs := popArr_size less a h
  -- the array after Swap(0, n) satisfies the down-invariant at the root
  have hdi : DownInv less (a.swap 0 (a.size - 1) h (by omega)) (a.size - 1) 0 := by
    constructor
    · intro k hk hkn h0 hpk
      simp only [Array.getElem_swap]
      rw [if_neg (by omega), if_neg (by omega), if_neg (by omega), if_neg (by omega)]
      exact hh k (by omega) (by omega) h0
    · intro c _ _ _ _ h00; omega
  have hheap : HeapOn less (popArr less a h) (a.size - 1) :=
    downAux_heap tp _ _ _ _ (by omega) (by rw [Array.size_swap]; omega) hdi
  have hxa : x = a[0]'h := by
    rw [← hx]
    unfold popArr downLoop
    rw [downAux_untouched less _ _ _ _ (a.size - 1) (by rw [Array.size_swap]; omega) (Nat.le_refl _)]
    rw [Array.getElem_swap]
    split
    · rename_i h0; simp only [h0]
    · rw [if_pos rfl]
  refine ⟨?_, ?_, hperm, hsize⟩
  · rw [← hb]
    intro k hk _ h0
    have hk' : k < a.size - 1 := by rw [Array.size_pop, hs] at hk; exact hk
    rw [Array.getElem_pop, Array.getElem_pop]
    exact hheap k (by rw [hs]; omega) hk' h0
  · intro y hy
    obtain ⟨k, hk, rfl⟩ := List.mem_iff_getElem.mp hy
    rw [hxa, Array.getElem_toList]
    exact root_min tp a hh k (by simpa using hk)

end Got.Lemmas.GoHeap
