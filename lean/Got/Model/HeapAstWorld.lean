import Got.Model.GoHeap
import Got.Model.MiniGoHeap
import Got.Generated.AstContainerHeap
/-
The MiniGoHeap interpreter instantiated with the usual slice-backed `heap.Interface` over `Array α` that
Got/Model/GoHeap.lean assumes: Len = size, Less(i, j) = `less a[i] a[j]`, Swap = swap two elements, Push = append,
Pop = remove and return the last element; Less / Swap / Pop PANIC on an index out of range (as the Go slice
expressions do).  `pushAst`, `popAst`, … run the generated terms of Got/Generated/AstContainerHeap.lean
(`some none` = panic, `none` = out of fuel); the driver (`drv_sample ast`) and the theorems of
Got/Lemmas/HeapAst*.lean use these.
-/
namespace Got.Model.HeapAst
open Got.Model.MiniGoHeap Got.Generated.AstContainerHeap

variable {α : Type}

def heapWorld (less : α → α → Bool) : World (Array α) α where
  len a := (a.size : Int)
  less a i j :=
    if h : 0 ≤ i ∧ 0 ≤ j ∧ i.toNat < a.size ∧ j.toNat < a.size then
      some (less (a[i.toNat]'h.2.2.1) (a[j.toNat]'h.2.2.2), a)
    else none
  swap a i j :=
    if h : 0 ≤ i ∧ 0 ≤ j ∧ i.toNat < a.size ∧ j.toNat < a.size then some (a.swap i.toNat j.toNat h.2.2.1 h.2.2.2)
    else none
  push a x := a.push x
  pop a :=
    match a.back? with
    | some x => some (x, a.pop)
    | none => none

/-- final array of a call without result (`some none` = panic) -/
def arrOf : Option (Outcome (Array α) α) → Option (Option (Array α))
  | some (.done _ _ w) => some (some w)
  | some .panic => some none
  | none => none

/-- heap.Push(h, x) interpreted from the generated term -/
def pushAst (fuel : Nat) (less : α → α → Bool) (a : Array α) (x : α) : Option (Option (Array α)) :=
  arrOf (h_Push.run (heapWorld less) prog fuel [] (some x) a)

/-- heap.Pop(h) interpreted from the generated term: `some (some (x, rest))`, `some none` = panic -/
def popAst (fuel : Nat) (less : α → α → Bool) (a : Array α) : Option (Option (α × Array α)) :=
  match h_Pop.run (heapWorld less) prog fuel [] none a with
  | some (.done _ (some x) w) => some (some (x, w))
  | some (.done _ none _) => none
  | some .panic => some none
  | none => none

/-- heap.Init(h) interpreted from the generated term -/
def initAst (fuel : Nat) (less : α → α → Bool) (a : Array α) : Option (Option (Array α)) :=
  arrOf (h_Init.run (heapWorld less) prog fuel [] none a)

end Got.Model.HeapAst
