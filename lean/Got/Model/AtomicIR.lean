/-
AtomicIR — a small imperative IR for lock-free Go code built from atomic loads and compare-and-swaps
(loom/queue.go, loom/flag.go, loom/atomic.go), with a generic small-step semantics that turns a program of the
IR into a labelled transition system.  Core Lean only.

It is the target of the *translator tie for concurrent code*: tools/srcfacts/minigo_atomic.go translates the
per-thread program (go/ast + go/types → the constructors below) on every run into
`Got/Generated/AstLoomQueue.lean` / `AstLoomAtomics.lean`, and theorems (Got/Lemmas/MSQueueAst*.lean,
Got/Props/C01.lean, C02.lean, C17.lean) prove that the LTS of exactly that generated program coincides, step for
step, with the hand-written models the property proofs are about.

Fragment.  Locals are numbered in order of declaration along the scope chain (`var k` = the k-th variable in
scope: parameters first); a block's variables disappear when the block is left, as in Go (`pop`).  Values: node
pointers (`nil` or a heap node, nodes are natural numbers in allocation order), opaque `any` payloads, int64
words, booleans.  Addresses: `&q.head`, `&q.tail`, `&x.next` (x a local pointer; nil → crash), and `cell` (the
`*int64` a Flag/AddIf64 call operates on).  A *shared access* `Acc` is an atomic load or CAS
(`queueLoad`/`queueCas` inlined, `atomic.LoadInt64`/`CompareAndSwapInt64`); it may occur as the right-hand side of
a declaration or assignment, as an expression statement, or as an operand of an `if` condition.  Further:
`&node{value: v}` (allocation, local), the plain read `x.value` (nil → crash), local computation
(`| &^ & +`, `==`/`!=`), `if/else`, `for { }` with `break`, `return [e]`, and the call of the predicate parameter.

Semantics.  A thread is `idle`, crashed, or `run k env args`: a continuation `k` (remaining statements, scope
ends, loop ends), the locals, and the arguments of the call.  `exec` runs a thread until it is about to perform
its *second* shared access (or returns): with `b = true` (a `tau` step) that is exactly one shared access plus
the local computation up to — not including — the next one, i.e. one `csched.Step` of the controlled scheduler on
the real code (the `verifYield` hook sits immediately before every access); with `b = false` (an invocation) it is
the local prefix of the call up to its first access (`csched.Start`).  A statement contains at most one access
(otherwise `stuck`).  `step` lifts this to the system: threads are natural numbers, `conf : Nat → Config`,
invocations are environment actions, `hist` records invocations and responses (the client-visible history).
-/
namespace Got.Model.AtomicIR

/-- function update -/
def upd {α : Type} (f : Nat → α) (t : Nat) (v : α) : Nat → α := fun u => if u = t then v else f u

inductive Val where
  | ptr (p : Option Nat)      -- *node: nil or a heap node
  | data (v : Nat)            -- an opaque `any` payload
  | i64 (w : BitVec 64)
  | i32 (w : BitVec 32)
  | int (i : Int)             -- a Go `int` / `time.Duration` (assumed not to overflow: an unbounded integer)
  | bool (b : Bool)
  | panic                     -- "value" of a call that ended in `panic(…)`
  deriving DecidableEq, Repr

inductive Expr where
  | nil
  | var (k : Nat)
  | lit (i : Int)             -- an int64 (or int) constant
  | lit32 (i : Int)           -- an int32 constant
  | blit (b : Bool)         -- true / false
  | bor (a b : Expr)          -- a | b
  | band (a b : Expr)         -- a & b
  | bandNot (a b : Expr)      -- a &^ b  (= a & ^b)
  | add (a b : Expr)          -- a + b (wraps)
  | shr (a : Expr) (k : Nat)  -- a >> k, a signed (arithmetic shift), k a constant
  | sext (a : Expr)           -- int(a) / int64(a) of an int32: sign extension
  | ilit (i : Int)            -- an `int` / `time.Duration` constant
  | iadd (a b : Expr)         -- + - / % on `int`s (Go: `/` and `%` truncate towards zero; a zero divisor is `none`)
  | isub (a b : Expr)
  | idiv (a b : Expr)
  | imod (a b : Expr)
  | ne (a b : Expr)           -- a != b as a boolean value
  deriving DecidableEq, Repr

inductive Addr where
  | head                      -- &q.head
  | tail                      -- &q.tail
  | next (p : Expr)           -- &p.next
  | cell                      -- the *int64 of the call
  | cell32                    -- the int32 state word of the mutex, `(*int32)(unsafe.Pointer(&m.Mutex))`
  | pos                       -- &wheel.position
  | slot (i : Expr)           -- &wheel.channels[i]  (index out of range → crash)
  deriving DecidableEq, Repr

/-- one shared-memory access -/
inductive Acc where
  | load (a : Addr)
  | cas (a : Addr) (old new : Expr)
  | store (a : Addr) (v : Expr)     -- atomic.StoreInt64
  | swapNew (a : Addr)              -- atomic.SwapPointer(a, &wheelData{c: make(chan struct{})}): returns the old pointer
  | close (p : Expr)                -- close(p.c)
  deriving DecidableEq, Repr

inductive Rhs where
  | e (e : Expr)
  | acc (c : Acc)
  | alloc (v : Expr)          -- &node{value: v}
  | valOf (p : Expr)          -- p.value
  deriving DecidableEq, Repr

inductive Cond where
  | eq (a b : Rhs)
  | ne (a b : Rhs)
  | is (a : Rhs)              -- a boolean-valued right-hand side (a CAS)
  | lt (a b : Rhs)            -- a < b on `int`s
  | le (a b : Rhs)            -- a <= b
  | or (a b : Cond)           -- a || b (short-circuit)
  | not (c : Cond)
  | call (a : Expr)           -- predicate(a)
  deriving DecidableEq, Repr

inductive Stmt where
  | decl (r : Rhs)            -- x := r   (x gets the next index)
  | assign (k : Nat) (r : Rhs)
  | drop (r : Rhs)            -- expression statement
  | ite (c : Cond) (t e : List Stmt)
  | loop (body : List Stmt)   -- for { }
  | brk
  | ret (e : Option Expr)
  | panic                     -- panic(…): the call ends, its caller sees a panic

inductive Item where
  | stmt (s : Stmt)
  | pop (n : Nat)                 -- end of a block: the locals beyond the first n go out of scope
  | loopEnd (body : List Stmt)    -- end of a loop body: start the next iteration

structure Func where
  name : String
  nparams : Nat
  body : List Stmt

/-- shared memory: the queue's nodes and head/tail words, and one int64 cell -/
structure Mem where
  val : Nat → Nat
  next : Nat → Option Nat
  nalloc : Nat
  head : Option Nat
  tail : Option Nat
  cell : BitVec 64
  cell32 : BitVec 32
  pos : Int                   -- wheel.position
  slot : Nat → Option Nat     -- wheel.channels[i] (a *wheelData = the id of its channel)
  nslots : Nat                -- len(wheel.channels)
  closed : Nat → Bool         -- channel c is closed
  dbl : Bool                  -- a closed channel was closed again (Go panics; recorded, execution continues)

/-- a resolved address -/
inductive RAddr where
  | head | tail | next (n : Nat) | cell | cell32 | pos | slot (i : Nat) | chan (c : Nat)
  deriving DecidableEq, Repr

/-- what the controlled scheduler sees of an access: kind, address, loaded value / CAS outcome -/
structure Tok where
  cas : Bool
  addr : RAddr
  val : Val
  deriving DecidableEq, Repr

inductive Config where
  | idle
  | crash                          -- nil dereference
  | stuck                          -- ill-formed program (type error, two accesses in a statement, out of fuel)
  | run (k : List Item) (env : List Val) (args : List Val)

/-- threaded through the execution of one step: memory, whether a shared access is still allowed, the access done -/
structure St where
  m : Mem
  b : Bool
  tok : Option Tok

inductive R (α : Type) where
  | ok (st : St) (a : α)
  | crash
  | stuck

/-- a binary operation on two int64 or two int32 operands -/
def i64op (f : {n : Nat} → BitVec n → BitVec n → BitVec n) : Option Val → Option Val → Option Val
  | some (.i64 x), some (.i64 y) => some (.i64 (f x y))
  | some (.i32 x), some (.i32 y) => some (.i32 (f x y))
  | _, _ => none

def eval (env : List Val) : Expr → Option Val
  | .nil => some (.ptr none)
  | .var k => env[k]?
  | .lit i => some (.i64 (BitVec.ofInt 64 i))
  | .lit32 i => some (.i32 (BitVec.ofInt 32 i))
  | .blit b => some (.bool b)
  | .bor a b => i64op (fun x y => x ||| y) (eval env a) (eval env b)
  | .band a b => i64op (fun x y => x &&& y) (eval env a) (eval env b)
  | .bandNot a b => i64op (fun x y => x &&& ~~~y) (eval env a) (eval env b)
  | .add a b => i64op (fun x y => x + y) (eval env a) (eval env b)
  | .shr a k =>
    match eval env a with
    | some (.i64 x) => some (.i64 (x.sshiftRight k))
    | some (.i32 x) => some (.i32 (x.sshiftRight k))
    | _ => none
  | .sext a =>
    match eval env a with
    | some (.i32 x) => some (.i64 (x.signExtend 64))
    | some (.i64 x) => some (.i64 x)
    | _ => none
  | .ilit i => some (.int i)
  | .iadd a b =>
    match eval env a, eval env b with
    | some (.int x), some (.int y) => some (.int (x + y))
    | _, _ => none
  | .isub a b =>
    match eval env a, eval env b with
    | some (.int x), some (.int y) => some (.int (x - y))
    | _, _ => none
  | .idiv a b =>
    match eval env a, eval env b with
    | some (.int x), some (.int y) => if y = 0 then none else some (.int (x.tdiv y))
    | _, _ => none
  | .imod a b =>
    match eval env a, eval env b with
    | some (.int x), some (.int y) => if y = 0 then none else some (.int (x.tmod y))
    | _, _ => none
  | .ne a b =>
    match eval env a, eval env b with
    | some x, some y => some (.bool (decide (x ≠ y)))
    | _, _ => none

inductive AddrRes where
  | ok (a : RAddr)
  | crash
  | stuck

def resolve (nslots : Nat) (env : List Val) : Addr → AddrRes
  | .head => .ok .head
  | .tail => .ok .tail
  | .cell => .ok .cell
  | .cell32 => .ok .cell32
  | .pos => .ok .pos
  | .slot i =>
    match eval env i with
    | some (.int x) => if 0 ≤ x ∧ x.toNat < nslots then .ok (.slot x.toNat) else .crash
    | _ => .stuck
  | .next p =>
    match eval env p with
    | some (.ptr (some n)) => .ok (.next n)
    | some (.ptr none) => .crash
    | _ => .stuck

def loadAt (m : Mem) : RAddr → Val
  | .head => .ptr m.head
  | .tail => .ptr m.tail
  | .next n => .ptr (m.next n)
  | .cell => .i64 m.cell
  | .cell32 => .i32 m.cell32
  | .pos => .int m.pos
  | .slot i => .ptr (m.slot i)
  | .chan c => .bool (m.closed c)

/-- compare-and-swap at a resolved address; `none` = ill-typed operands -/
def casAt (m : Mem) : RAddr → Val → Val → Option (Mem × Bool)
  | .head, .ptr o, .ptr n => some (if m.head = o then ({ m with head := n }, true) else (m, false))
  | .tail, .ptr o, .ptr n => some (if m.tail = o then ({ m with tail := n }, true) else (m, false))
  | .next x, .ptr o, .ptr n => some (if m.next x = o then ({ m with next := upd m.next x n }, true) else (m, false))
  | .cell, .i64 o, .i64 n => some (if m.cell = o then ({ m with cell := n }, true) else (m, false))
  | .cell32, .i32 o, .i32 n => some (if m.cell32 = o then ({ m with cell32 := n }, true) else (m, false))
  | _, _, _ => none

def doAcc (st : St) (env : List Val) : Acc → R Val
  | .load a =>
    if st.b then
      match resolve st.m.nslots env a with
      | .ok ra => .ok ⟨st.m, false, some ⟨false, ra, loadAt st.m ra⟩⟩ (loadAt st.m ra)
      | .crash => .crash
      | .stuck => .stuck
    else .stuck
  | .cas a o n =>
    if st.b then
      match resolve st.m.nslots env a, eval env o, eval env n with
      | .ok ra, some vo, some vn =>
        match casAt st.m ra vo vn with
        | some (m', ok) => .ok ⟨m', false, some ⟨true, ra, .bool ok⟩⟩ (.bool ok)
        | none => .stuck
      | .crash, _, _ => .crash
      | _, _, _ => .stuck
    else .stuck
  | .store a v =>
    if st.b then
      match resolve st.m.nslots env a, eval env v with
      | .ok .pos, some (.int x) => .ok ⟨{ st.m with pos := x }, false, some ⟨true, .pos, .int x⟩⟩ (.int x)
      | .crash, _ => .crash
      | _, _ => .stuck
    else .stuck
  | .swapNew a =>
    if st.b then
      match resolve st.m.nslots env a with
      | .ok (.slot i) =>
        .ok ⟨{ st.m with slot := upd st.m.slot i (some st.m.nalloc), nalloc := st.m.nalloc + 1 }, false,
             some ⟨true, .slot i, .ptr (st.m.slot i)⟩⟩ (.ptr (st.m.slot i))
      | .crash => .crash
      | _ => .stuck
    else .stuck
  | .close p =>
    if st.b then
      match eval env p with
      | some (.ptr (some c)) =>
        .ok ⟨{ st.m with closed := upd st.m.closed c true, dbl := st.m.dbl || st.m.closed c }, false,
             some ⟨true, .chan c, .bool (st.m.closed c)⟩⟩ (.bool (st.m.closed c))
      | some (.ptr none) => .crash
      | _ => .stuck
    else .stuck

def evalRhs (st : St) (env : List Val) : Rhs → R Val
  | .e e =>
    match eval env e with
    | some v => .ok st v
    | none => .stuck
  | .acc c => doAcc st env c
  | .alloc v =>
    match eval env v with
    | some (.data x) =>
      -- fresh memory is zeroed: the `next` word of a node that was never allocated is nil already
      .ok { st with m := { st.m with val := upd st.m.val st.m.nalloc x, nalloc := st.m.nalloc + 1 } } (.ptr (some st.m.nalloc))
    | _ => .stuck
  | .valOf p =>
    match eval env p with
    | some (.ptr (some n)) => .ok st (.data (st.m.val n))
    | some (.ptr none) => .crash
    | _ => .stuck

/-- `pred args v` = what the predicate passed to the call with arguments `args` answers on `v` -/
def evalC (pred : List Val → Val → Bool) (args : List Val) (st : St) (env : List Val) : Cond → R Bool
  | .eq a b =>
    match evalRhs st env a with
    | .ok st' va =>
      match evalRhs st' env b with
      | .ok st'' vb => .ok st'' (decide (va = vb))
      | .crash => .crash
      | .stuck => .stuck
    | .crash => .crash
    | .stuck => .stuck
  | .ne a b =>
    match evalRhs st env a with
    | .ok st' va =>
      match evalRhs st' env b with
      | .ok st'' vb => .ok st'' (decide (va ≠ vb))
      | .crash => .crash
      | .stuck => .stuck
    | .crash => .crash
    | .stuck => .stuck
  | .is a =>
    match evalRhs st env a with
    | .ok st' (.bool b) => .ok st' b
    | .ok _ _ => .stuck
    | .crash => .crash
    | .stuck => .stuck
  | .lt a b =>
    match evalRhs st env a with
    | .ok st' (.int x) =>
      match evalRhs st' env b with
      | .ok st'' (.int y) => .ok st'' (decide (x < y))
      | .ok _ _ => .stuck
      | .crash => .crash
      | .stuck => .stuck
    | .ok _ _ => .stuck
    | .crash => .crash
    | .stuck => .stuck
  | .le a b =>
    match evalRhs st env a with
    | .ok st' (.int x) =>
      match evalRhs st' env b with
      | .ok st'' (.int y) => .ok st'' (decide (x ≤ y))
      | .ok _ _ => .stuck
      | .crash => .crash
      | .stuck => .stuck
    | .ok _ _ => .stuck
    | .crash => .crash
    | .stuck => .stuck
  | .or a b =>
    match evalC pred args st env a with
    | .ok st' true => .ok st' true
    | .ok st' false => evalC pred args st' env b
    | .crash => .crash
    | .stuck => .stuck
  | .not c =>
    match evalC pred args st env c with
    | .ok st' b => .ok st' (!b)
    | .crash => .crash
    | .stuck => .stuck
  | .call a =>
    match eval env a with
    | some v => .ok st (pred args v)
    | none => .stuck

def Acc.needs : Acc → Bool := fun _ => true

def Rhs.needs : Rhs → Bool
  | .acc _ => true
  | _ => false

def Cond.needs : Cond → Bool
  | .eq a b => a.needs || b.needs
  | .ne a b => a.needs || b.needs
  | .is a => a.needs
  | .lt a b => a.needs || b.needs
  | .le a b => a.needs || b.needs
  | .or a b => a.needs || b.needs
  | .not c => c.needs
  | .call _ => false

/-- does executing the statement (not its sub-blocks) perform a shared access? -/
def Stmt.needs : Stmt → Bool
  | .decl r => r.needs
  | .assign _ r => r.needs
  | .drop r => r.needs
  | .ite c _ _ => c.needs
  | _ => false

def Rhs.acc? : Rhs → Option Acc
  | .acc c => some c
  | _ => none

def Cond.acc? : Cond → Option Acc
  | .eq a b => a.acc?.or b.acc?
  | .ne a b => a.acc?.or b.acc?
  | .is a => a.acc?
  | .lt a b => a.acc?.or b.acc?
  | .le a b => a.acc?.or b.acc?
  | .or a b => a.acc?.or b.acc?
  | .not c => c.acc?
  | .call _ => none

/-- the shared access the statement performs -/
def Stmt.acc? : Stmt → Option Acc
  | .decl r => r.acc?
  | .assign _ r => r.acc?
  | .drop r => r.acc?
  | .ite c _ _ => c.acc?
  | _ => none

/-- the shared access a parked thread is about to perform -/
def Config.pendingAcc : Config → Option Acc
  | .run (.stmt s :: _) _ _ => s.acc?
  | _ => none

/-- the kind of access a parked thread is about to perform: `some false` = load, `some true` = anything else -/
def Config.pendingCas : Config → Option Bool
  | .run (.stmt s :: _) _ _ =>
    match s.acc? with
    | some (.load _) => some false
    | some _ => some true
    | none => none
  | _ => none

def enter (body : List Stmt) (env : List Val) (k : List Item) : List Item :=
  body.map .stmt ++ (.pop env.length :: .loopEnd body :: k)

/-- `break`: leave the innermost loop, closing the scopes on the way -/
def unwind : List Item → List Val → Option (List Item × List Val)
  | [], _ => none
  | .loopEnd _ :: k, env => some (k, env)
  | .pop n :: k, env => unwind k (env.take n)
  | .stmt _ :: k, env => unwind k env

/-- result of one step of a thread -/
structure Out where
  mem : Mem
  conf : Config
  tok : Option Tok
  ret : Option (Option Val)     -- `some r`: the call returned (with value `r`)

def exec (pred : List Val → Val → Bool) (args : List Val) : Nat → St → List Item → List Val → Out
  | 0, st, _, _ => ⟨st.m, .stuck, st.tok, none⟩
  | _ + 1, st, [], _ => ⟨st.m, .idle, st.tok, some none⟩      -- fell off the end of a function without result
  | f + 1, st, .pop n :: k, env => exec pred args f st k (env.take n)
  | f + 1, st, .loopEnd body :: k, env => exec pred args f st (enter body env k) env
  | f + 1, st, .stmt s :: k, env =>
    if s.needs && !st.b then ⟨st.m, .run (.stmt s :: k) env args, st.tok, none⟩    -- parked before its next access
    else
      match s with
      | .decl r =>
        match evalRhs st env r with
        | .ok st' v => exec pred args f st' k (env ++ [v])
        | .crash => ⟨st.m, .crash, st.tok, none⟩
        | .stuck => ⟨st.m, .stuck, st.tok, none⟩
      | .assign x r =>
        match evalRhs st env r with
        | .ok st' v => if x < env.length then exec pred args f st' k (env.set x v) else ⟨st.m, .stuck, st.tok, none⟩
        | .crash => ⟨st.m, .crash, st.tok, none⟩
        | .stuck => ⟨st.m, .stuck, st.tok, none⟩
      | .drop r =>
        match evalRhs st env r with
        | .ok st' _ => exec pred args f st' k env
        | .crash => ⟨st.m, .crash, st.tok, none⟩
        | .stuck => ⟨st.m, .stuck, st.tok, none⟩
      | .ite c t e =>
        match evalC pred args st env c with
        | .ok st' b => exec pred args f st' ((if b then t else e).map .stmt ++ (.pop env.length :: k)) env
        | .crash => ⟨st.m, .crash, st.tok, none⟩
        | .stuck => ⟨st.m, .stuck, st.tok, none⟩
      | .loop body => exec pred args f st (enter body env k) env
      | .brk =>
        match unwind k env with
        | some (k', env') => exec pred args f st k' env'
        | none => ⟨st.m, .stuck, st.tok, none⟩
      | .panic => ⟨st.m, .idle, st.tok, some (some .panic)⟩
      | .ret none => ⟨st.m, .idle, st.tok, some none⟩
      | .ret (some e) =>
        match eval env e with
        | some v => ⟨st.m, .idle, st.tok, some (some v)⟩
        | none => ⟨st.m, .stuck, st.tok, none⟩

/-- bound on the local computation between two shared accesses (number of statements, scope ends, loop ends) -/
def stepFuel : Nat := 64

/-! ### the system -/

inductive Ev where
  | inv (f : Nat) (args : List Val)
  | ret (v : Option Val)
  deriving DecidableEq, Repr

inductive Act where
  | inv (t f : Nat) (args : List Val)     -- thread t calls function number f of the program
  | tau (t : Nat)                         -- thread t performs its next shared access
  deriving DecidableEq, Repr

structure GState where
  mem : Mem
  conf : Nat → Config
  hist : List (Nat × Ev)

def retEvs (t : Nat) : Option (Option Val) → List (Nat × Ev)
  | some r => [(t, Ev.ret r)]
  | none => []

def GState.apply (g : GState) (t : Nat) (o : Out) : GState :=
  { mem := o.mem, conf := upd g.conf t o.conf, hist := g.hist ++ retEvs t o.ret }

/-- the step of thread `t` parked in configuration `c` (what `tau t` does) -/
def stepThread (pred : List Val → Val → Bool) (m : Mem) : Config → Option Out
  | .run k env args => some (exec pred args stepFuel ⟨m, true, none⟩ k env)
  | _ => none

def startThread (pred : List Val → Val → Bool) (m : Mem) (fn : Func) (args : List Val) : Out :=
  exec pred args stepFuel ⟨m, false, none⟩ (fn.body.map .stmt) args

/-- total step function; an ill-timed action (invoke on a busy thread, tau on an idle one) is a no-op. -/
def step (prog : List Func) (pred : List Val → Val → Bool) (g : GState) : Act → GState
  | .inv t f args =>
    match g.conf t, prog[f]? with
    | .idle, some fn =>
      if args.length = fn.nparams then
        { g with hist := g.hist ++ [(t, Ev.inv f args)] }.apply t (startThread pred g.mem fn args)
      else g
    | _, _ => g
  | .tau t =>
    match stepThread pred g.mem (g.conf t) with
    | some o => g.apply t o
    | none => g

def run (prog : List Func) (pred : List Val → Val → Bool) (g : GState) (acts : List Act) : GState :=
  acts.foldl (step prog pred) g

def isIdle : Config → Bool
  | .idle => true
  | _ => false

/-- `k` successive steps of thread `t` alone -/
def solo (prog : List Func) (pred : List Val → Val → Bool) (t : Nat) : Nat → GState → GState
  | 0, g => g
  | k + 1, g => solo prog pred t k (step prog pred g (.tau t))

end Got.Model.AtomicIR
