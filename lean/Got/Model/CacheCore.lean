import Got.Generated.Facts
import Got.Generated.LitsCachex
/-
Pure decision core of cachex (cache_impl.go): status of a future, Load's decision, fetchIfFutureStatusGood,
Get2's decision, the sweep predicate.  Shared by the LTS (Got.Model.Cache) and by the C05 theorems.
Core Lean only.
-/
namespace Got.Model.CacheCore

/-- kFutureEmpty / kFutureGood / kFutureExpired / kFutureRotted -/
inductive Status
  | empty | good | expired | rotted
  deriving DecidableEq, Repr, Inhabited

/-- numeric code as in the Go `const` block -/
def Status.code : Status → Int
  | .empty => Got.Facts.cachex_kFutureEmpty
  | .good => Got.Facts.cachex_kFutureGood
  | .expired => Got.Facts.cachex_kFutureExpired
  | .rotted => Got.Facts.cachex_kFutureRotted

/-- the literal `2` of `past < 2*expire` in getFutureStatus (regenerated from source) -/
def rotFactor : Nat := (Got.Facts.lits_cachex_cacheImpl_getFutureStatus.headD 2).toNat

/-- the literal `4` of `time.NewTicker(args.normalExpire * 4)` in NewCache -/
def tickFactor : Nat := (Got.Facts.lits_cachex_NewCache.headD 4).toNat

/-- expiry that applies to a result: errorExpire when the result carries an error -/
def expiryOf (hasErr : Bool) (En Ee : Nat) : Nat := if hasErr then Ee else En

/-- getFutureStatus for a non-nil future (cache_impl.go:235-255).
    `resolved` = updateTime is non-zero; `u` = updateTime; `now - u` = time.Since(updateTime). -/
def status (now u : Nat) (hasErr : Bool) (En Ee : Nat) (resolved : Bool) : Status :=
  if !resolved then .good
  else
    let past := now - u
    let expire := expiryOf hasErr En Ee
    if past < expire then .good
    else if past < rotFactor * expire then .expired
    else .rotted

/-- what the decision functions see of a future -/
structure FutView where
  resolved : Bool
  upd : Nat
  hasErr : Bool
  deriving DecidableEq, Repr

/-- getFutureStatus including the nil case -/
def statusOf (now En Ee : Nat) : Option FutView → Status
  | none => .empty
  | some v => status now v.upd v.hasErr En Ee v.resolved

/-- which future Load hands back -/
inductive LoadRet
  | next        -- the future created by this call
  | last        -- the future found in the map
  | fetchLast   -- fetchIfFutureStatusGood(last)
  deriving DecidableEq, Repr

structure LoadDecision where
  create : Bool        -- `lastStatus != kFutureGood`: new future inserted and one job sent
  predLast : Bool      -- the new future's predecessor is `last` (only when last is expired)
  ret : LoadRet
  deriving DecidableEq, Repr

/-- Load's decision from lastStatus (cache_impl.go:131-159) -/
def loadDecide : Status → LoadDecision
  | .good => { create := false, predLast := false, ret := .fetchLast }
  | .expired => { create := true, predLast := true, ret := .last }
  | .rotted => { create := true, predLast := false, ret := .next }
  | .empty => { create := true, predLast := false, ret := .next }

/-- fetchIfFutureStatusGood: `some p` is returned iff the predecessor's status is expired -/
def fetchChoosesPred (predStatus : Status) : Bool := predStatus == .expired

inductive Get2Action
  | fetch     -- fetchIfFutureStatusGood(future).Get2()
  | wait      -- future.Get2()
  | nilnil    -- return nil, nil
  deriving DecidableEq, Repr

/-- Get2's switch (cache_impl.go:100-110) -/
def get2Decide : Status → Get2Action
  | .good => .fetch
  | .expired => .wait
  | _ => .nilnil

/-- removeRotted deletes exactly the entries whose status is rotted -/
def sweepRemoves (st : Status) : Bool := st == .rotted

end Got.Model.CacheCore
