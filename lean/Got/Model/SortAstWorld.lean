import Got.Model.Sort
import Got.Model.MiniGoSort
import Got.Generated.AstSortxSort
/-
The MiniGoSort interpreter instantiated with the state of the hand-written sort model: `data.Less` / `data.Swap` of the
translated functions act on `St K V` exactly as the model's `LessFn` / `St.note` / `St.swap` do (same log), so the
interpretation of the generated terms (Got/Generated/AstSortxSort.lean) and the model functions of
Got/Model/Sort.lean can be compared for equality (Got/Lemmas/SortAst*.lean), and the driver (`drv_sort ast`) can
print what the translated source does in the format of the correspondence.

`sliceByAst` is sortx.SliceBy with `maxDepth` and `quickSort_func` interpreted from their generated terms; the glue
(`length := min(len keys, len values)`, the `length <= 1` guard, the two calls) is transcribed by hand from sort.go.
-/
namespace Got.Model.SortAst
open Got.Model.Sort Got.Model.MiniGoSort

variable {K V : Type}

/-- a Go `int` index as the model's `Nat` index: the 64-bit word read as unsigned, so that a negative index is not
    silently clamped but shows up as a huge (out of range) one -/
def idx (i : Int) : Nat := (i % 18446744073709551616).toNat

def sortWorld (less : LessFn K V) : World (St K V) where
  less := fun s i j =>
    let r := less s (idx i) (idx j)
    (r, s.note (idx i) (idx j) r)
  swap := fun s i j => s.swap (idx i) (idx j)

def sliceByAst (fuel : Nat) (less : LessFn K V) (keys : Array K) (vals : Array V) : Option (St K V) :=
  let s : St K V := { keys := keys, vals := vals, log := [] }
  let length := min keys.size vals.size
  if length ≤ 1 then some s
  else
    match Got.Generated.AstSortxSort.maxDepth.run (sortWorld less) Got.Generated.AstSortxSort.prog fuel [(length : Int)] s with
    | some ([d], s1) =>
      match Got.Generated.AstSortxSort.quickSort_func.run (sortWorld less) Got.Generated.AstSortxSort.prog fuel
          [0, (length : Int), d] s1 with
      | some ([], s2) => some s2
      | _ => none
    | _ => none

/-- fuel used by the driver: one unit per statement / loop iteration along the deepest chain of nested blocks and
    calls; the longest loops run over the range (`≤ 3·n` iterations in doPivot_func, `2·n` in heapSort_func) -/
def driverFuel (n : Nat) : Nat := 16 * n + 100000

end Got.Model.SortAst
