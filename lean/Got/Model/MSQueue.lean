import Got.Spec.Linearizable
/-
Model of loom.Queue (loom/queue.go), a Michael–Scott lock-free queue, as a labelled transition
system.  One `tau t` transition = one shared-memory access of the Go code (one `queueLoad` /
`queueCas`, i.e. one `verifYield` point) plus the local computation up to the next access —
exactly one `csched.Step` of the controlled scheduler on the real code.

Go code (build tag verif: every queueLoad/queueCas first calls verifYield(1|2, addr)):

    func (q *Queue) Push(v any) {
      n := &node{value: v}                      -- invPush: allocate, pc := p1
      for {
        tail := queueLoad(&q.tail)              -- p1
        next := queueLoad(&tail.next)           -- p2
        if tail == queueLoad(&q.tail) {         -- p3
          if next == nil {
            if queueCas(&tail.next, next, n) {  -- p4    (success = linearisation point of Push)
              queueCas(&q.tail, tail, n)        -- p5
              return
            }
          } else {
            queueCas(&q.tail, tail, next)       -- p4h   (helping)
          }
        }
      }
    }
    func (q *Queue) Pop() any {
      for {
        head := queueLoad(&q.head)              -- d1
        tail := queueLoad(&q.tail)              -- d2
        next := queueLoad(&head.next)           -- d3    (nil: the queue is observed empty)
        if head == queueLoad(&q.head) {         -- d4
          if head == tail {
            if next == nil { return nil }
            queueCas(&q.tail, tail, next)       -- d5h   (helping)
          } else {
            v := next.value                     --       (nil dereference if next == nil: `crash`)
            if queueCas(&q.head, head, next) {  -- d5    (success = linearisation point of Pop)
              return v
            }
          }
        }
      }
    }

Heap: nodes are natural numbers in allocation order (`0` = the initial dummy), `val`/`next` are
total functions, `nalloc` = number of allocated nodes.  Threads are natural numbers and
`pc : Nat → Pc` is a function, so the number of goroutines is unbounded; `invPush`/`invPop` are
environment actions, so every client program and every interleaving is a list of actions.

Ghost components (never read by the non-ghost part of `step`): `chain` (nodes linked from the
initial dummy, in link order), `hi`/`ti` (positions of head/tail in `chain`), `log` (history with
linearisation markers, appended by the very step that is the linearisation point).
-/
namespace Got.Model.MSQueue
open Got.Spec.Lin

/-- program counter of a thread = the yield point it is parked at, with its live locals. -/
inductive Pc where
  | idle
  | crash                                   -- nil dereference in Pop (`next.value` with next == nil)
  | p1 (n : Nat)                            -- Push, own node n: about to load q.tail
  | p2 (n tl : Nat)                         -- about to load tl.next
  | p3 (n tl : Nat) (nx : Option Nat)       -- about to re-load q.tail
  | p4 (n tl : Nat)                         -- about to CAS(tl.next, nil, n)
  | p4h (n tl nx : Nat)                     -- about to CAS(q.tail, tl, nx)   (helping)
  | p5 (n tl : Nat)                         -- about to CAS(q.tail, tl, n)
  | d1                                      -- Pop: about to load q.head
  | d2 (hd : Nat)                           -- about to load q.tail
  | d3 (hd tl : Nat)                        -- about to load hd.next
  | d4 (hd tl : Nat) (nx : Option Nat)      -- about to re-load q.head
  | d5h (hd tl nx : Nat)                    -- about to CAS(q.tail, tl, nx)   (helping)
  | d5 (hd nx v : Nat)                      -- about to CAS(q.head, hd, nx); v = nx.value already read
  deriving DecidableEq, Repr

/-- shared memory (+ the ghost chain and the ghost positions of head and tail in it). -/
structure Heap where
  val : Nat → Nat
  next : Nat → Option Nat
  nalloc : Nat
  head : Nat
  tail : Nat
  -- ghost
  chain : List Nat
  hi : Nat
  ti : Nat

structure State extends Heap where
  pc : Nat → Pc
  -- ghost
  log : List LEv

inductive Act where
  | invPush (t v : Nat)
  | invPop (t : Nat)
  | tau (t : Nat)
  deriving DecidableEq, Repr

def init : State :=
  { val := fun _ => 0, next := fun _ => none, nalloc := 1, head := 0, tail := 0,
    pc := fun _ => .idle, chain := [0], hi := 0, ti := 0, log := [] }

def setPc (s : State) (t : Nat) (p : Pc) : State := { s with pc := upd s.pc t p }

/-- CAS(q.tail, old, new) by thread `t`, which continues at `p`. -/
def casTail (s : State) (t : Nat) (old new : Nat) (p : Pc) : State :=
  if s.tail = old then { s with tail := new, ti := s.ti + 1, pc := upd s.pc t p }
  else setPc s t p

def tau (s : State) (t : Nat) : State :=
  match s.pc t with
  | .idle => s
  | .crash => s
  | .p1 n => setPc s t (.p2 n s.tail)
  | .p2 n tl => setPc s t (.p3 n tl (s.next tl))
  | .p3 n tl nx =>
    if tl = s.tail then
      match nx with
      | none => setPc s t (.p4 n tl)
      | some x => setPc s t (.p4h n tl x)
    else setPc s t (.p1 n)
  | .p4 n tl =>
    if s.next tl = none then
      { s with next := upd s.next tl (some n), chain := s.chain ++ [n], pc := upd s.pc t (.p5 n tl),
               log := s.log ++ [.lin t (.push (s.val n)) .ack] }
    else setPc s t (.p1 n)
  | .p4h n tl x => casTail s t tl x (.p1 n)
  | .p5 n tl => { casTail s t tl n .idle with log := s.log ++ [.ret t .ack] }
  | .d1 => setPc s t (.d2 s.head)
  | .d2 hd => setPc s t (.d3 hd s.tail)
  | .d3 hd tl =>
    match s.next hd with
    | none => { s with pc := upd s.pc t (.d4 hd tl none), log := s.log ++ [.obs t] }
    | some x => setPc s t (.d4 hd tl (some x))
  | .d4 hd tl nx =>
    if hd = s.head then
      if hd = tl then
        match nx with
        | none => { s with pc := upd s.pc t .idle, log := s.log ++ [.ret t (.val none)] }
        | some x => setPc s t (.d5h hd tl x)
      else
        match nx with
        | none => setPc s t .crash
        | some x => setPc s t (.d5 hd x (s.val x))
    else setPc s t .d1
  | .d5h _ tl x => casTail s t tl x .d1
  | .d5 hd x v =>
    if s.head = hd then
      { s with head := x, hi := s.hi + 1, pc := upd s.pc t .idle,
               log := s.log ++ [.lin t .pop (.val (some v)), .ret t (.val (some v))] }
    else setPc s t .d1

/-- total step function; an ill-timed action (invoke on a busy thread, tau on an idle one) is a no-op. -/
def step (s : State) : Act → State
  | .invPush t v =>
    match s.pc t with
    | .idle =>
      { s with val := upd s.val s.nalloc v, nalloc := s.nalloc + 1, pc := upd s.pc t (.p1 s.nalloc),
               log := s.log ++ [.inv t (.push v)] }
    | _ => s
  | .invPop t =>
    match s.pc t with
    | .idle => { s with pc := upd s.pc t .d1, log := s.log ++ [.inv t .pop] }
    | _ => s
  | .tau t => tau s t

def run (s : State) (acts : List Act) : State := acts.foldl step s

def Reachable (s : State) : Prop := ∃ acts, run init acts = s

def busy (s : State) (t : Nat) : Prop := s.pc t ≠ .idle

instance (s : State) (t : Nat) : Decidable (busy s t) := by unfold busy; infer_instance

/-- `k` successive steps of thread `t` alone (all other threads frozen). -/
def solo (t : Nat) : Nat → State → State
  | 0, s => s
  | k + 1, s => solo t k (tau s t)

/-- bound of the solo run (C02). -/
def K : Nat := 13

/-! ### measure for the solo bound (C02)
`mu s t` bounds the number of `tau t` steps thread `t` needs, running alone from `s`, to return:
it is computed from the pc, from whether the thread's snapshot of head/tail is still valid, and
from whether the tail lags (`next tail ≠ none`).  Computable, so the driver can print it. -/

/-- a fresh Push iteration: 5 steps, or 4 helping steps + 5 when the tail lags. -/
def muPush (h : Heap) : Nat := if h.next h.tail = none then 5 else 9

/-- a fresh Pop iteration: 4 steps on the empty queue, 5 helping steps + 5 when head = tail and the
    tail lags, 5 otherwise. -/
def muPop (h : Heap) : Nat :=
  if h.head = h.tail then (if h.next h.head = none then 4 else 10) else 5

def muPc (h : Heap) : Pc → Nat
  | .idle => 0
  | .crash => 0
  | .p1 _ => muPush h
  | .p2 _ tl => if tl = h.tail then muPush h - 1 else 2 + muPush h
  | .p3 _ tl nx =>
    if tl = h.tail then
      (if nx = none then (if h.next tl = none then 3 else 11) else 7)
    else 1 + muPush h
  | .p4 _ tl => if h.next tl = none then 2 else 1 + muPush h
  | .p4h _ tl _ => if h.tail = tl then 6 else 1 + muPush h
  | .p5 _ _ => 1
  | .d1 => muPop h
  | .d2 hd => if hd = h.head then muPop h - 1 else 3 + muPop h
  | .d3 hd tl =>
    if hd = h.head then
      (if hd = tl then (if h.next hd = none then 2 else 8) else 3)
    else 2 + muPop h
  | .d4 hd tl nx =>
    if hd = h.head then
      (if hd = tl then (if nx = none then 1 else 7) else 2)
    else 1 + muPop h
  | .d5h _ tl _ => if h.tail = tl then 6 else 1 + muPop h
  | .d5 hd _ _ => if h.head = hd then 1 else 1 + muPop h

def mu (s : State) (t : Nat) : Nat := muPc s.toHeap (s.pc t)

end Got.Model.MSQueue
