/-
Model of sortx.UniqueInt / sortx.UniqueString (sortx/unique.go) — the two functions have the same
body, so one polymorphic model over a type with decidable equality.

    var size = len(a)
    if size < 2 { return a }
    var j = 0
    for i := 1; i < size; i++ {
        if a[i] != a[j] {
            if j+1 != i { a[j+1] = a[i] }
            j++
        }
    }
    a = a[:j+1]
    return a

The writes are done in place on the backing array; the model returns both the returned slice and the
backing array after the call.  `none` = an index expression out of range (a Go panic); shown
impossible by `C15_unique`.
-/
namespace Got.Model.SortUnique

variable {α : Type} [DecidableEq α]

/-- the `for` loop; returns the final `j` and the backing array -/
def uniqueLoop (size : Nat) (i j : Nat) (a : Array α) : Option (Nat × Array α) :=
  if i < size then
    match a[i]?, a[j]? with
    | some x, some y =>
      if x ≠ y then
        if j + 1 ≠ i then
          if j + 1 < a.size then uniqueLoop size (i + 1) (j + 1) (a.set! (j + 1) x) else none
        else uniqueLoop size (i + 1) (j + 1) a
      else uniqueLoop size (i + 1) j a
    | _, _ => none
  else some (j, a)
termination_by size - i

/-- result of `UniqueInt(a)` / `UniqueString(a)`: (returned slice, backing array after the call) -/
def unique (a : Array α) : Option (Array α × Array α) :=
  let size := a.size
  if size < 2 then some (a, a)
  else
    match uniqueLoop size 1 0 a with
    | some (j, a') => if j + 1 ≤ a'.size then some (a'.extract 0 (j + 1), a') else none
    | none => none

/-- specification: scan with the last kept element -/
def collapseFrom (last : α) : List α → List α
  | [] => []
  | x :: t => if x = last then collapseFrom last t else x :: collapseFrom x t

/-- every run of equal adjacent elements collapsed to its first element, order kept -/
def collapseRuns : List α → List α
  | [] => []
  | x :: t => x :: collapseFrom x t

end Got.Model.SortUnique
