import Got.Model.MiniGoHeap
/-
MiniGoIface — the one-line methods by which a slice type implements `heap.Interface` (randx.sampleHeap), as a small
description language with a semantics: tools/srcfacts/minigo_iface.go reads the method bodies of `*sampleHeap` on every
run and emits one `Method` per method into Got/Generated/AstRandxSampleHeap.lean; `worldOf` turns such an implementation
into the world the MiniGoHeap interpreter runs container/heap on.  Theorem `C20_translated_source_sampleHeap_world`
(Got/Lemmas/IfaceAst.lean) proves that the world of the generated description IS the slice-backed `heapWorld` assumed
by the heap model.

Shapes (receiver `h *T`, `T` a slice type with element type `E`; anything else is `Method.other note`):
  Len   `return len(*h)`                                              `len`
  Less  `return (*h)[a].f < (*h)[b].f`                                `lessField f a b`     (a, b index expressions)
  Swap  `(*h)[l1], (*h)[l2] = (*h)[r1], (*h)[r2]`                     `swap l1 l2 r1 r2`    (Go: both right-hand sides are
                                                                       read first, then assigned left to right)
  Push  `*h = append(*h, v.(E))`                                      `pushAppend`
  Pop   `*h, v = (*h)[:hi], (*h)[vi]; return` (named result `v`)      `popReslice hi vi`
  Get   `return (*h)[a]`                                              `get a`
Index expressions: a parameter, or `len(*h) - c` / `h.Len() - c`.  Go's run-time checks are modelled: an element index
must be in `[0, len)`, a reslice bound in `[0, len]` (`len = cap` is not assumed: growing a slice by reslicing does not
occur in these shapes) — otherwise the operation panics (`none`).
-/
namespace Got.Model.MiniGoIface
open Got.Model.MiniGoHeap

inductive Idx where
  | param (k : Nat)        -- the k-th int parameter of the method
  | lenMinus (c : Nat)     -- `len(*h) - c` / `h.Len() - c`
  deriving Repr, DecidableEq

inductive Method where
  | len
  | lessField (f : String) (a b : Idx)
  | swap (l1 l2 r1 r2 : Idx)
  | pushAppend
  | popReslice (hi vi : Idx)
  | get (a : Idx)
  | other (note : String)
  deriving Repr, DecidableEq

structure Impl where
  typ : String
  mLen : Method
  mLess : Method
  mSwap : Method
  mPush : Method
  mPop : Method
  mGet : Method
  deriving Repr, DecidableEq

def Idx.eval (args : List Int) (n : Nat) : Idx → Int
  | .param k => args.getD k 0
  | .lenMinus c => (n : Int) - (c : Int)

variable {ε : Type}

/-- element index with Go's bounds check -/
def at? (a : Array ε) (i : Int) : Option ε := if 0 ≤ i ∧ i.toNat < a.size then a[i.toNat]? else none

/-- the world of an implementation; `fieldLt f` = the `<` of field `f` of the element type (`none`: no such field) -/
def worldOf (impl : Impl) (fieldLt : String → Option (ε → ε → Bool)) : World (Array ε) ε where
  len a :=
    match impl.mLen with
    | .len => (a.size : Int)
    | _ => -1
  less a i j :=
    match impl.mLess with
    | .lessField f x y =>
      match fieldLt f, at? a (x.eval [i, j] a.size), at? a (y.eval [i, j] a.size) with
      | some lt, some u, some v => some (lt u v, a)
      | _, _, _ => none
    | _ => none
  swap a i j :=
    match impl.mSwap with
    | .swap l1 l2 r1 r2 =>
      match at? a (r1.eval [i, j] a.size), at? a (r2.eval [i, j] a.size) with
      | some v1, some v2 =>
        let p := l1.eval [i, j] a.size
        let q := l2.eval [i, j] a.size
        if 0 ≤ p ∧ p.toNat < a.size ∧ 0 ≤ q ∧ q.toNat < a.size then some ((a.setIfInBounds p.toNat v1).setIfInBounds q.toNat v2)
        else none
      | _, _ => none
    | _ => none
  push a x :=
    match impl.mPush with
    | .pushAppend => a.push x
    | _ => a
  pop a :=
    match impl.mPop with
    | .popReslice hi vi =>
      let h := hi.eval [] a.size
      match at? a (vi.eval [] a.size) with
      | some v => if 0 ≤ h ∧ h.toNat ≤ a.size then some (v, a.extract 0 h.toNat) else none
      | none => none
    | _ => none

/-- `h.Get(a)`: `none` = index out of range -/
def getOf (impl : Impl) (a : Array ε) (i : Int) : Option ε :=
  match impl.mGet with
  | .get x => at? a (x.eval [i] a.size)
  | _ => none

end Got.Model.MiniGoIface
