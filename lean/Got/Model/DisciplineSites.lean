/-
C18 — the access-site table: every read/write of the repository's plain shared fields, with the protocol
role it plays and the synchronising operations that must lexically precede it in the same function.
`tools/srcfacts` extracts the actual table from the current source on every run; `drv_discipline`
matches each extracted line against this table (an access that is not listed, has a different kind /
lock context, or lacks a required preceding synchronisation is rejected → correspondence break).

Roles refer to the protocols of Got/Model/DisciplineProtos.lean:
  A:write        creator's write before publication          A:read(x)   read after acquire x
  B:inner/disp   ants per-attempt CAS winner's write          B:own       dispatcher's read between attempts
  C              access inside the mutex                      atomic      address passed to sync/atomic
  owner          field owned by one goroutine by documented contract (not shared)
  unused         helper that is never called (kept in the table so that a new call site is noticed by L3)
-/
namespace Got.Model.Discipline

structure Site where
  field : String
  func : String
  kind : String        -- r | w | a
  locked : Bool
  required : List String
  role : String
  requiredThen : List String   -- synchronising operations that must follow the access (publication)

def sites : List Site := [
  -- ants: Protocol B
  ⟨"ants.taskCallback.err", "ants.taskCallback.Err", "r", false, ["my.wg.Wait"], "A:read(wg.Wait)", []⟩,
  ⟨"ants.taskCallback.err", "ants.taskCallback.Get2", "r", false, ["my.wg.Wait"], "A:read(wg.Wait)", []⟩,
  ⟨"ants.taskCallback.result", "ants.taskCallback.Get2", "r", false, ["my.wg.Wait"], "A:read(wg.Wait)", []⟩,
  ⟨"ants.taskCallback.err", "ants.taskCallback.run", "r", false, [], "B:own", []⟩,
  ⟨"ants.taskCallback.err", "ants.taskCallback.runTaskOnce", "w", false, ["atomic.CompareAndSwapInt32"], "B:winner-write", []⟩,
  ⟨"ants.taskCallback.result", "ants.taskCallback.runTaskOnce", "w", false, ["atomic.CompareAndSwapInt32"], "B:winner-write", []⟩,
  -- cachex Future: Protocol A (creator = worker / Set caller; publication = updateTime store, wg.Done)
  ⟨"cachex.Future.err", "cachex.Future.Get2", "r", false, ["my.wg.Wait"], "A:read(wg.Wait)", []⟩,
  ⟨"cachex.Future.value", "cachex.Future.Get1", "r", false, ["my.wg.Wait"], "A:read(wg.Wait)", []⟩,
  ⟨"cachex.Future.value", "cachex.Future.Get2", "r", false, ["my.wg.Wait"], "A:read(wg.Wait)", []⟩,
  ⟨"cachex.Future.err", "cachex.Future.setValue", "w", false, [], "A:write", ["atomic.StorePointer", "my.wg.Done"]⟩,
  ⟨"cachex.Future.value", "cachex.Future.setValue", "w", false, [], "A:write", ["atomic.StorePointer", "my.wg.Done"]⟩,
  ⟨"cachex.Future.err", "cachex.cacheImpl.getFutureStatus", "r", false, ["future.getUpdateTime", "updateTime.IsZero"],
     "A:read(updateTime load observed non-zero)", []⟩,
  -- loom.WaitClose: closeChan Protocol A + C, state Protocol C / atomic
  ⟨"loom.WaitClose.closeChan", "loom.WaitClose.C", "r", false, ["atomic.LoadInt32", "wc.checkInitSlow"], "A:read(state load / mutex)", []⟩,
  ⟨"loom.WaitClose.closeChan", "loom.WaitClose.WaitUtil", "r", false, ["atomic.LoadInt32", "wc.checkInitSlow"], "A:read(state load / mutex)", []⟩,
  ⟨"loom.WaitClose.closeChan", "loom.WaitClose.Close", "r", true, ["wc.mutex.Lock"], "C", []⟩,
  ⟨"loom.WaitClose.closeChan", "loom.WaitClose.Close", "w", true, ["wc.mutex.Lock"], "A:write+C", ["atomic.StoreInt32"]⟩,
  ⟨"loom.WaitClose.closeChan", "loom.WaitClose.checkInitSlow", "w", true, ["wc.mutex.Lock"], "A:write+C", ["atomic.StoreInt32", "wc.mutex.Unlock"]⟩,
  ⟨"loom.WaitClose.closeChan", "loom.WaitClose.assetCloseChanNotNil", "r", false, [], "unused", []⟩,
  ⟨"loom.WaitClose.state", "loom.WaitClose.C", "a", false, [], "atomic", []⟩,
  ⟨"loom.WaitClose.state", "loom.WaitClose.Close", "a", false, [], "atomic", []⟩,
  ⟨"loom.WaitClose.state", "loom.WaitClose.Close", "a", true, [], "atomic", []⟩,
  ⟨"loom.WaitClose.state", "loom.WaitClose.Close", "r", true, ["wc.mutex.Lock"], "C", []⟩,
  ⟨"loom.WaitClose.state", "loom.WaitClose.IsClosed", "a", false, [], "atomic", []⟩,
  ⟨"loom.WaitClose.state", "loom.WaitClose.WaitUtil", "a", false, [], "atomic", []⟩,
  ⟨"loom.WaitClose.state", "loom.WaitClose.checkInitSlow", "r", true, ["wc.mutex.Lock"], "C", []⟩,
  ⟨"loom.WaitClose.state", "loom.WaitClose.checkInitSlow", "a", true, ["wc.mutex.Lock"], "atomic", []⟩,
  ⟨"loom.WaitClose.state", "loom.WaitClose.assetCloseChanNotNil", "a", false, [], "unused", []⟩,
  ⟨"loom.WaitClose.state", "loom.WaitClose.assetCloseChanNotNil", "r", false, [], "unused", []⟩,
  -- loom.Queue / Wheel: Protocol A through the atomic pointer that publishes the node / wheelData
  ⟨"loom.node.value", "loom.Queue.Pop", "r", false, ["queueLoad"], "A:read(atomic load of the pointer to the node)", []⟩,
  ⟨"loom.wheelData.c", "loom.Wheel.AfterFunc", "r", false, ["wheel.fetchWheelData"], "A:read(atomic load of the slot)", []⟩,
  ⟨"loom.wheelData.c", "loom.WheelTimer.Reset", "r", false, ["my.wheel.fetchWheelData"], "A:read(atomic load of the slot)", []⟩,
  ⟨"loom.wheelData.c", "loom.Wheel.onTicker", "r", false, ["atomic.SwapPointer"], "A:read(swap of the slot)", []⟩,
  -- single-owner fields (documented contract: used from the owning goroutine only)
  ⟨"loom.WheelTimer.C", "loom.WheelTimer.Reset", "w", false, [], "owner", []⟩,
  ⟨"loom.LaterTimer.stoppedTime", "loom.LaterTimer.IsStopped", "r", false, [], "owner", []⟩,
  ⟨"loom.LaterTimer.stoppedTime", "loom.LaterTimer.Reset", "w", false, [], "owner", []⟩,
  ⟨"loom.LaterTimer.stoppedTime", "loom.LaterTimer.Stop", "w", false, [], "owner", []⟩,
  -- taskx: Protocol A with the single consumer as creator (Do executed once per task)
  ⟨"taskx.taskCallback.err", "taskx.taskCallback.Do", "w", false, [], "A:write", ["task.wg.Done"]⟩,
  ⟨"taskx.taskCallback.result", "taskx.taskCallback.Do", "w", false, [], "A:write", ["task.wg.Done"]⟩,
  ⟨"taskx.taskCallback.err", "taskx.taskCallback.Do", "r", false, [], "A:creator-read", []⟩,
  ⟨"taskx.taskCallback.isHandled", "taskx.taskCallback.Do", "r", false, [], "owner", []⟩,
  ⟨"taskx.taskCallback.isHandled", "taskx.taskCallback.Do", "w", false, [], "owner", []⟩,
  ⟨"taskx.taskCallback.err", "taskx.taskCallback.Get2", "r", false, ["task.wg.Wait"], "A:read(wg.Wait)", []⟩,
  ⟨"taskx.taskCallback.result", "taskx.taskCallback.Get1", "r", false, ["task.wg.Wait"], "A:read(wg.Wait)", []⟩,
  ⟨"taskx.taskCallback.result", "taskx.taskCallback.Get2", "r", false, ["task.wg.Wait"], "A:read(wg.Wait)", []⟩
]

/-- match one extracted access against the table -/
def matchSite (field func kind : String) (locked : Bool) (after : List String) (thn : List String := []) : String :=
  let cands := sites.filter (fun s => s.field == field && s.func == func && s.kind == kind && s.locked == locked)
  match cands with
  | [] => "reject unlisted-access-site"
  | c :: _ =>
    match cands.find? (fun s => s.required.all (fun r => after.contains r) && s.requiredThen.all (fun r => thn.contains r)) with
    | some s => "ok " ++ s.role
    | none => "reject missing-synchronisation " ++
        ",".intercalate (c.required.filter (fun r => !after.contains r) ++ (c.requiredThen.filter (fun r => !thn.contains r)).map (fun r => "then:" ++ r))

end Got.Model.Discipline
