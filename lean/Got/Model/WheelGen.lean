import Got.Model.Wheel
import Got.Model.AtomicIR
import Got.Generated.AstLoomWheel
/-
The labelled transition system of loom.Wheel's race part *as generated from the source*: the generic semantics of
Got/Model/AtomicIR.lean applied to the programs `fetchWheelData` / `onTicker` that tools/srcfacts re-translates from
/repo/loom/wheel.go on every run (Got/Generated/AstLoomWheel.lean).  Core Lean only; the theorems that tie it to the
hand-written model Got/Model/Wheel.lean are in Got/Lemmas/WheelAst.lean.

Thread 0 is the ticker goroutine (goLoop calls onTicker once per tick: a `tick` action invokes onTicker when the previous
call has returned and then performs the next access); requester `t` of the hand-written model is thread `t + 1`.
The immutable fields the functions read (`maxTimeout`, `step`, `bucketsSize`) are their leading parameters, in the order
recorded in `fetchWheelDataCfg` / `onTickerCfg`; `maxTimeout = step * bucketNum` (NewWheel, not translated).
`WheelTimer.Reset`'s choice of the interval (`resetInterval`, a variadic slice) is not translated.
-/
namespace Got.Model.WheelGen
open Got.Model.AtomicIR Got.Generated.AstLoomWheel

/-- function 0 = fetchWheelData, function 1 = onTicker -/
def prog : List Func := [fetchWheelData, onTicker]

def noPred : List Val → Val → Bool := fun _ _ => false

/-- NewWheel(step, n): position 0, slot i holds channel i, all channels open -/
def genInit (n : Nat) : GState :=
  { mem := ⟨fun _ => 0, fun _ => none, n, none, none, 0, 0, 0, fun i => some i, n, fun _ => false, false⟩,
    conf := fun _ => .idle, hist := [] }

def tickG (n : Nat) (g : GState) : GState :=
  let g := if isIdle (g.conf 0) then step prog noPred g (.inv 0 1 [.int n]) else g
  step prog noPred g (.tau 0)

def reqArgs (n stepNs : Nat) (d : Int) : List Val := [.int ((stepNs * n : Nat) : Int), .int stepNs, .int n, .int d]

def invokeG (n stepNs : Nat) (g : GState) (t : Nat) (d : Int) : GState :=
  step prog noPred g (.inv (t + 1) 0 (reqArgs n stepNs d))

def reqG (g : GState) (t : Nat) : GState := step prog noPred g (.tau (t + 1))

def gstep (n stepNs : Nat) (g : GState) : Got.Model.Wheel.Act → GState
  | .tick => tickG n g
  | .invoke t d => invokeG n stepNs g t d
  | .reset t base arg => invokeG n stepNs g t (Got.Model.Wheel.resetInterval stepNs base arg)
  | .req t => reqG g t

def genRun (n stepNs : Nat) (acts : List Got.Model.Wheel.Act) : GState := acts.foldl (gstep n stepNs) (genInit n)

def retOf : Nat × Ev → Option (Nat × Nat)
  | (t + 1, .ret (some (.ptr (some c)))) => some (t, c)
  | _ => none

/-- the channels returned by completed requests, oldest first: (requester, channel) -/
def returned (g : GState) : List (Nat × Nat) := g.hist.filterMap retOf

end Got.Model.WheelGen
