import Got.Generated.LitsSortx
/-
Model of sortx.SliceBy (sortx/sort.go) and of the introsort it drives (sortx/zfuncversion.go:
insertionSort_func, siftDown_func, heapSort_func, medianOfThree_func, doPivot_func, quickSort_func),
transcribed function by function and loop by loop.

State.  `St K V` = the two Go slices (`keys : Array K`, `vals : Array V`, possibly of different
lengths) + `log`, the list (newest first) of every `data.Less(i,j)` call with its result and of every
`data.Swap(i,j)` call.  `data.Swap` is the paired swapper of SliceBy: it swaps BOTH slices.
`data.Less` is an arbitrary function of the whole current state (contents and call history) and the
two indices (`LessFn`), so "any less function, even an inconsistent one" is covered;
`stdLess lt` is the usual closure `keys[i] < keys[j]`.

Go `int` indices are modelled by `Nat`.  Every subtraction of the Go code is written as `Nat`
subtraction at a place where the minuend is at least the subtrahend (`j-1` under the guard `j > a`,
`hi-1` with `hi-lo > 12`, `c-1` under `b < c`, …); descending `for i := k; i >= 0; i--` loops are
written as recursion on `i+1`.  Panics: `reflect.Swapper` and the closure `keys[i] < keys[j]` panic
exactly when an index is out of range; the model's swap is the identity in that case and the
log records the indices, so "no panic" = "every logged index < min(len keys, len values)", which is
what `C15_perm_pairing_prefix` proves (the driver renders a log with an out-of-range index as `panic`).

Each Go loop is one recursive function (structural or well-founded recursion: no fuel, nothing partial); the long body
of doPivot_func is cut into consecutive phases (`choosePivot`, `partitionPhase`, `dupProbe1/2/3`, `dupPhase`,
`protectLoop`, final swap) that are composed in `doPivot` in source order.  Thresholds are read from
`Got.Generated.LitsSortx` (regenerated from the Go source on every check).
-/
namespace Got.Model.Sort
open Got.Facts

/-- literal `i` of a generated literal table, as a natural number -/
def litNat (l : List Int) (i : Nat) : Nat := (l.getD i 0).toNat

/-- `for b-a > 12` in quickSort_func -/
def thrInsertion : Nat := litNat lits_sortx_quickSort_func 0
/-- `i := a + 6`, `Less(i, i-6)`, `Swap(i, i-6)` in quickSort_func -/
def gapInit : Nat := litNat lits_sortx_quickSort_func 3
def gapLess : Nat := litNat lits_sortx_quickSort_func 4
def gapSwap : Nat := litNat lits_sortx_quickSort_func 5
/-- `hi-lo > 40`, `(hi-lo)/8`, `hi-c < 5`, `(hi-lo)/4` in doPivot_func -/
def thrNinther : Nat := litNat lits_sortx_doPivot_func 1
def divNinther : Nat := litNat lits_sortx_doPivot_func 2
def thrProtect : Nat := litNat lits_sortx_doPivot_func 13
def divDups : Nat := litNat lits_sortx_doPivot_func 14

inductive Ev where
  | less (i j : Nat) (r : Bool)
  | swap (i j : Nat)
  deriving Repr, DecidableEq

structure St (K V : Type) where
  keys : Array K
  vals : Array V
  /-- newest first -/
  log : List Ev

/-- number of `data.Less` calls recorded in a log -/
def lessCount : List Ev → Nat
  | [] => 0
  | Ev.less _ _ _ :: t => lessCount t + 1
  | Ev.swap _ _ :: t => lessCount t

/-- the user's `less func(i, j int) bool`: may depend on contents and on the call history -/
abbrev LessFn (K V : Type) := St K V → Nat → Nat → Bool

variable {K V : Type}

/-- record one `data.Less(i,j)` call and its result -/
def St.note (s : St K V) (i j : Nat) (r : Bool) : St K V :=
  { s with log := Ev.less i j r :: s.log }

/-- `data.Swap(i,j)` = `keySwapper(i,j); valSwapper(i,j)` -/
def St.swap (s : St K V) (i j : Nat) : St K V :=
  { keys := s.keys.swapIfInBounds i j, vals := s.vals.swapIfInBounds i j, log := Ev.swap i j :: s.log }

/-- the usual closure `func(i, j int) bool { return keys[i] < keys[j] }` -/
def stdLess (lt : K → K → Bool) : LessFn K V := fun s i j =>
  match s.keys[i]?, s.keys[j]? with
  | some x, some y => lt x y
  | _, _ => false

/-! ### insertionSort_func -/

/-- `for j := i; j > a && data.Less(j, j-1); j-- { data.Swap(j, j-1) }` (argument = `j`) -/
def insInner (less : LessFn K V) (a : Nat) : Nat → St K V → St K V
  | 0, s => s
  | j + 1, s =>
    if j + 1 > a then
      let r := less s (j + 1) j
      let s := s.note (j + 1) j r
      if r then insInner less a j (s.swap (j + 1) j) else s
    else s

/-- `for i := …; i < b; i++ { inner loop }` -/
def insOuter (less : LessFn K V) (a b i : Nat) (s : St K V) : St K V :=
  if i < b then insOuter less a b (i + 1) (insInner less a i s) else s
termination_by b - i

def insertionSort (less : LessFn K V) (a b : Nat) (s : St K V) : St K V :=
  insOuter less a b (a + 1) s

/-! ### siftDown_func, heapSort_func -/

/-- `if child+1 < hi && data.Less(first+child, first+child+1) { child++ }` -/
def pickChild (less : LessFn K V) (hi first child : Nat) (s : St K V) : Nat × St K V :=
  if child + 1 < hi then
    let r := less s (first + child) (first + child + 1)
    (if r then child + 1 else child, s.note (first + child) (first + child + 1) r)
  else (child, s)

theorem pickChild_fst (less : LessFn K V) (hi first child : Nat) (s : St K V) (h : child < hi) :
    child ≤ (pickChild less hi first child s).1 ∧ (pickChild less hi first child s).1 < hi ∧
    (pickChild less hi first child s).1 ≤ child + 1 := by
  unfold pickChild
  split
  · dsimp only; split <;> omega
  · dsimp only; omega

/-- the loop of siftDown_func; argument `root` is the loop variable (initially `lo`) -/
def siftDown (less : LessFn K V) (hi first root : Nat) (s : St K V) : St K V :=
  let child := 2 * root + 1
  if _h : child ≥ hi then s
  else
    let pc := pickChild less hi first child s
    let r := less pc.2 (first + root) (first + pc.1)
    let s1 := pc.2.note (first + root) (first + pc.1) r
    if !r then s1
    else siftDown less hi first pc.1 (s1.swap (first + root) (first + pc.1))
termination_by hi - root
decreasing_by
  have := pickChild_fst less hi first (2 * root + 1) s (by omega)
  omega

/-- `for i := (hi-1)/2; i >= 0; i-- { siftDown_func(data, i, hi, first) }` (argument = `i`) -/
def heapBuild (less : LessFn K V) (hi first : Nat) : Nat → St K V → St K V
  | 0, s => siftDown less hi first 0 s
  | i + 1, s => heapBuild less hi first i (siftDown less hi first (i + 1) s)

/-- `for i := hi-1; i >= 0; i-- { data.Swap(first, first+i); siftDown_func(data, lo, i, first) }`
    (argument = `i+1`, so that `hi = 0` means no iteration, as in Go where `i` starts at `-1`) -/
def heapPop (less : LessFn K V) (first : Nat) : Nat → St K V → St K V
  | 0, s => s
  | i + 1, s => heapPop less first i (siftDown less i first 0 (s.swap first (first + i)))

def heapSort (less : LessFn K V) (a b : Nat) (s : St K V) : St K V :=
  let first := a
  let hi := b - a
  heapPop less first hi (heapBuild less hi first ((hi - 1) / 2) s)

/-! ### medianOfThree_func -/

/-- `if data.Less(i, j) { data.Swap(i, j) }` -/
def condSwap (less : LessFn K V) (i j : Nat) (s : St K V) : St K V :=
  let r := less s i j
  let s := s.note i j r
  if r then s.swap i j else s

/-- ```
if data.Less(m1, m0) { data.Swap(m1, m0) }
if data.Less(m2, m1) { data.Swap(m2, m1); if data.Less(m1, m0) { data.Swap(m1, m0) } }
``` -/
def medianOfThree (less : LessFn K V) (m1 m0 m2 : Nat) (s : St K V) : St K V :=
  let s := condSwap less m1 m0 s
  let r := less s m2 m1
  let s := s.note m2 m1 r
  if r then condSwap less m1 m0 (s.swap m2 m1) else s

/-! ### doPivot_func -/

/-- `for ; a < c && data.Less(a, pivot); a++ {}` -/
def scanUpLt (less : LessFn K V) (pivot c a : Nat) (s : St K V) : Nat × St K V :=
  if a < c then
    let r := less s a pivot
    let s := s.note a pivot r
    if r then scanUpLt less pivot c (a + 1) s else (a, s)
  else (a, s)
termination_by c - a

/-- `for ; b < c && !data.Less(pivot, b); b++ {}` -/
def scanUpNotGt (less : LessFn K V) (pivot c b : Nat) (s : St K V) : Nat × St K V :=
  if b < c then
    let r := less s pivot b
    let s := s.note pivot b r
    if !r then scanUpNotGt less pivot c (b + 1) s else (b, s)
  else (b, s)
termination_by c - b

/-- `for ; b < c && data.Less(pivot, c-1); c-- {}` (argument = `c`) -/
def scanDownGt (less : LessFn K V) (pivot b : Nat) : Nat → St K V → Nat × St K V
  | 0, s => (0, s)
  | c + 1, s =>
    if b < c + 1 then
      let r := less s pivot c
      let s := s.note pivot c r
      if r then scanDownGt less pivot b c s else (c + 1, s)
    else (c + 1, s)

/-- `for ; a < b && !data.Less(b-1, pivot); b-- {}` (argument = `b`) -/
def scanDownNotLt (less : LessFn K V) (pivot a : Nat) : Nat → St K V → Nat × St K V
  | 0, s => (0, s)
  | b + 1, s =>
    if a < b + 1 then
      let r := less s b pivot
      let s := s.note b pivot r
      if !r then scanDownNotLt less pivot a b s else (b + 1, s)
    else (b + 1, s)

theorem scanUpNotGt_fst (less : LessFn K V) (pivot c b : Nat) (s : St K V) :
    b ≤ (scanUpNotGt less pivot c b s).1 ∧ ((scanUpNotGt less pivot c b s).1 ≤ c ∨ (scanUpNotGt less pivot c b s).1 = b) := by
  fun_induction scanUpNotGt less pivot c b s <;> omega

theorem scanDownGt_fst (less : LessFn K V) (pivot b c : Nat) (s : St K V) :
    (scanDownGt less pivot b c s).1 ≤ c ∧ (b ≤ (scanDownGt less pivot b c s).1 ∨ (scanDownGt less pivot b c s).1 = c) := by
  fun_induction scanDownGt less pivot b c s <;> omega

/-- the main partition loop
```
for {
    for ; b < c && !data.Less(pivot, b); b++ {}
    for ; b < c && data.Less(pivot, c-1); c-- {}
    if b >= c { break }
    data.Swap(b, c-1); b++; c--
}
``` -/
def partLoop (less : LessFn K V) (pivot b c : Nat) (s : St K V) : Nat × Nat × St K V :=
  let rb := scanUpNotGt less pivot c b s
  let rc := scanDownGt less pivot rb.1 c rb.2
  if rb.1 ≥ rc.1 then (rb.1, rc.1, rc.2)
  else partLoop less pivot (rb.1 + 1) (rc.1 - 1) (rc.2.swap rb.1 (rc.1 - 1))
termination_by c - b
decreasing_by
  have h1 := scanUpNotGt_fst less pivot c b s
  have h2 := scanDownGt_fst less pivot rb.1 c rb.2
  simp only [rb, rc] at *
  omega

theorem scanDownNotLt_fst (less : LessFn K V) (pivot a b : Nat) (s : St K V) :
    (scanDownNotLt less pivot a b s).1 ≤ b ∧ (a ≤ (scanDownNotLt less pivot a b s).1 ∨ (scanDownNotLt less pivot a b s).1 = b) := by
  fun_induction scanDownNotLt less pivot a b s <;> omega

theorem scanUpLt_fst (less : LessFn K V) (pivot c a : Nat) (s : St K V) :
    a ≤ (scanUpLt less pivot c a s).1 ∧ ((scanUpLt less pivot c a s).1 ≤ c ∨ (scanUpLt less pivot c a s).1 = a) := by
  fun_induction scanUpLt less pivot c a s <;> omega

/-- the "protect against a lot of duplicates" loop
```
for {
    for ; a < b && !data.Less(b-1, pivot); b-- {}
    for ; a < b && data.Less(a, pivot); a++ {}
    if a >= b { break }
    data.Swap(a, b-1); a++; b--
}
``` -/
def protectLoop (less : LessFn K V) (pivot a b : Nat) (s : St K V) : Nat × Nat × St K V :=
  let rb := scanDownNotLt less pivot a b s
  let ra := scanUpLt less pivot rb.1 a rb.2
  if ra.1 ≥ rb.1 then (ra.1, rb.1, ra.2)
  else protectLoop less pivot (ra.1 + 1) (rb.1 - 1) (ra.2.swap ra.1 (rb.1 - 1))
termination_by b - a
decreasing_by
  have h1 := scanDownNotLt_fst less pivot a b s
  have h2 := scanUpLt_fst less pivot rb.1 a rb.2
  simp only [rb, ra] at *
  omega

/-- first duplicate probe; returns `(c, dups, state)`
```
dups := 0
if !data.Less(pivot, hi-1) { data.Swap(c, hi-1); c++; dups++ }
``` -/
def dupProbe1 (less : LessFn K V) (pivot hi c : Nat) (s : St K V) : Nat × Nat × St K V :=
  let r := less s pivot (hi - 1)
  let s := s.note pivot (hi - 1) r
  if !r then (c + 1, 1, s.swap c (hi - 1)) else (c, 0, s)

/-- second duplicate probe; returns `(b, dups, state)`
```
if !data.Less(b-1, pivot) { b--; dups++ }
``` -/
def dupProbe2 (less : LessFn K V) (pivot b dups : Nat) (s : St K V) : Nat × Nat × St K V :=
  let r := less s (b - 1) pivot
  let s := s.note (b - 1) pivot r
  if !r then (b - 1, dups + 1, s) else (b, dups, s)

/-- third duplicate probe; returns `(b, dups, state)`
```
if !data.Less(m, pivot) { data.Swap(m, b-1); b--; dups++ }
``` -/
def dupProbe3 (less : LessFn K V) (pivot m b dups : Nat) (s : St K V) : Nat × Nat × St K V :=
  let r := less s m pivot
  let s := s.note m pivot r
  if !r then (b - 1, dups + 1, s.swap m (b - 1)) else (b, dups, s)

/-- the three duplicate probes in sequence; returns `(b, c, dups, state)` -/
def dupProbe (less : LessFn K V) (pivot hi m b c : Nat) (s : St K V) : Nat × Nat × Nat × St K V :=
  let p1 := dupProbe1 less pivot hi c s
  let p2 := dupProbe2 less pivot b p1.2.1 p1.2.2
  let p3 := dupProbe3 less pivot m p2.1 p2.2.1 p2.2.2
  (p3.1, p1.1, p3.2.1, p3.2.2)

/-- the pivot selection: ninther for large ranges, then median of three; pivot ends at `lo` -/
def choosePivot (less : LessFn K V) (lo hi : Nat) (s : St K V) : St K V :=
  let m := (lo + hi) / 2
  let s :=
    if hi - lo > thrNinther then
      let t := (hi - lo) / divNinther
      let s := medianOfThree less lo (lo + t) (lo + 2 * t) s
      let s := medianOfThree less m (m - t) (m + t) s
      medianOfThree less (hi - 1) (hi - 1 - t) (hi - 1 - 2 * t) s
    else s
  medianOfThree less lo m (hi - 1) s

/-- doPivot_func up to the end of the main partition loop; returns `(a, b, c, state)`
```
m := int(uint(lo+hi) >> 1); …choose pivot…; pivot := lo
a, c := lo+1, hi-1
for ; a < c && data.Less(a, pivot); a++ {}
b := a
for { … }
``` -/
def partitionPhase (less : LessFn K V) (lo hi : Nat) (s : St K V) : Nat × Nat × Nat × St K V :=
  let s := choosePivot less lo hi s
  let pivot := lo
  let ra := scanUpLt less pivot (hi - 1) (lo + 1) s
  let pl := partLoop less pivot ra.1 (hi - 1) ra.2
  (ra.1, pl.1, pl.2.1, pl.2.2)

/-- the decision whether to run the protect loop; returns `(b, c, protect, state)`
```
protect := hi-c < 5
if !protect && hi-c < (hi-lo)/4 { …three probes…; protect = dups > 1 }
``` -/
def dupPhase (less : LessFn K V) (lo hi b c : Nat) (s : St K V) : Nat × Nat × Bool × St K V :=
  let m := (lo + hi) / 2          -- int(uint(lo+hi) >> 1)
  let pivot := lo
  let protect := decide (hi - c < thrProtect)
  if !protect && decide (hi - c < (hi - lo) / divDups) then
    let r := dupProbe less pivot hi m b c s
    (r.1, r.2.1, decide (r.2.2.1 > 1), r.2.2.2)
  else (b, c, protect, s)

/-- doPivot_func; returns `(midlo, midhi, state)`
```
…partitionPhase…; …dupPhase…
if protect { …protectLoop… }
data.Swap(pivot, b-1)
return b - 1, c
``` -/
def doPivot (less : LessFn K V) (lo hi : Nat) (s : St K V) : Nat × Nat × St K V :=
  let pivot := lo
  let p := partitionPhase less lo hi s
  let d := dupPhase less lo hi p.2.1 p.2.2.1 p.2.2.2
  let pr := if d.2.2.1 then protectLoop less pivot p.1 d.1 d.2.2.2 else (p.1, d.1, d.2.2.2)
  let b := pr.2.1
  (b - 1, d.2.1, pr.2.2.swap pivot (b - 1))

/-! ### quickSort_func -/

/-- `for i := a + 6; i < b; i++ { if data.Less(i, i-6) { data.Swap(i, i-6) } }` -/
def gapPass (less : LessFn K V) (b i : Nat) (s : St K V) : St K V :=
  if i < b then
    let r := less s i (i - gapLess)
    let s := s.note i (i - gapLess) r
    gapPass less b (i + 1) (if r then s.swap i (i - gapSwap) else s)
  else s
termination_by b - i

/-- the part of quickSort_func after the loop -/
def smallSort (less : LessFn K V) (a b : Nat) (s : St K V) : St K V :=
  if b - a > 1 then insertionSort less a b (gapPass less b (a + gapInit) s) else s

/-- quickSort_func.  The Go loop `for b-a > 12 { … }` decrements `maxDepth` once per iteration and the
    nested call receives the decremented value, so "continue the loop with (a', b')" is the call
    `quickSort a' b' (maxDepth-1)`: the recursion is structural in `maxDepth`. -/
def quickSort (less : LessFn K V) (a b : Nat) : Nat → St K V → St K V
  | 0, s =>
    if b - a > thrInsertion then heapSort less a b s else smallSort less a b s
  | d + 1, s =>
    if b - a > thrInsertion then
      let p := doPivot less a b s
      let mlo := p.1
      let mhi := p.2.1
      if mlo - a < b - mhi then
        quickSort less mhi b d (quickSort less a mlo d p.2.2)
      else
        quickSort less a mlo d (quickSort less mhi b d p.2.2)
    else smallSort less a b s

/-- ghost-instrumented copy of `quickSort` (used only by `C15_depth`): additionally returns the length of the longest
    chain of partition steps (loop iterations and nested calls alike, each consumes one unit of `maxDepth`) that
    was executed before the range became small or heapSort_func took over. -/
def quickSortLevels (less : LessFn K V) (a b : Nat) : Nat → St K V → St K V × Nat
  | 0, s =>
    (if b - a > thrInsertion then heapSort less a b s else smallSort less a b s, 0)
  | d + 1, s =>
    if b - a > thrInsertion then
      let p := doPivot less a b s
      let mlo := p.1
      let mhi := p.2.1
      if mlo - a < b - mhi then
        let r1 := quickSortLevels less a mlo d p.2.2
        let r2 := quickSortLevels less mhi b d r1.1
        (r2.1, 1 + max r1.2 r2.2)
      else
        let r1 := quickSortLevels less mhi b d p.2.2
        let r2 := quickSortLevels less a mlo d r1.1
        (r2.1, 1 + max r1.2 r2.2)
    else (smallSort less a b s, 0)

/-! ### maxDepth, SliceBy -/

/-- `for i := n; i > 0; i >>= 1 { depth++ }` -/
def maxDepthLoop (i depth : Nat) : Nat :=
  if h : i > 0 then maxDepthLoop (i >>> 1) (depth + 1) else depth
termination_by i
decreasing_by rw [Nat.shiftRight_eq_div_pow]; omega

def maxDepth (n : Nat) : Nat := maxDepthLoop n 0 * 2

/-- sortx.SliceBy -/
def sliceBy (less : LessFn K V) (keys : Array K) (vals : Array V) : St K V :=
  let s : St K V := { keys := keys, vals := vals, log := [] }
  let length := min keys.size vals.size
  if length ≤ 1 then s
  else quickSort less 0 length (maxDepth length) s

end Got.Model.Sort
