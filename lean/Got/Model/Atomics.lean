import Got.Generated.Facts
/-
Model of the loom atomics (property C17), core Lean only.

(a) loom/mutex.go
      func (m *Mutex) TryLock() bool {
          if CAS(&state, 0, mutexLocked) { return true }                      -- site 8
          old := Load(&state)                                                 -- site 9
          if old&(mutexLocked|mutexStarving|mutexWoken) != 0 { return false }
          next := old | mutexLocked
          return CAS(&state, old, next) }                                     -- site 10
      func (m *Mutex) Count() int {
          state := Load(&state); v := state >> mutexWaiterShift; v = v + (state & mutexLocked); return int(v) }
    together with a transcription of the steps that go1.23 sync.Mutex Lock/Unlock perform on the same
    word (the environment).  The word is a `BitVec 32` (Go int32); the bit constants are taken from
    Got.Generated.Facts (regenerated from loom/mutex.go on every check).
(b) loom/flag.go AddFlag / RemoveFlag / HasFlag: load (site 11) / CAS (site 12) retry loops on an int64.
(c) loom/atomic.go AddIf64: load (site 13), predicate, CAS (site 14) retry loop on an int64.

Every LTS has `pc : Nat → Pc` (a function of the thread id: any number of goroutines), `invoke` steps
are environment actions (any client program), one action = one atomic access of the Go code.
An action that is not enabled in a state leaves the state unchanged.
-/
namespace Got.Model.Atomics

/-- function update -/
def upd {α : Type} (f : Nat → α) (t : Nat) (v : α) : Nat → α := fun u => if u = t then v else f u

/-! ## (a) the mutex word -/

abbrev Word := BitVec 32

def mLocked : Word := BitVec.ofInt 32 Got.Facts.loom_mutexLocked
def mWoken : Word := BitVec.ofInt 32 Got.Facts.loom_mutexWoken
def mStarving : Word := BitVec.ofInt 32 Got.Facts.loom_mutexStarving
def mShift : Nat := Got.Facts.loom_mutexWaiterShift.toNat
/-- `1 << mutexWaiterShift` -/
def mOneWaiter : Word := (1#32) <<< mShift

def isLocked (w : Word) : Bool := w &&& mLocked != 0
def isWoken (w : Word) : Bool := w &&& mWoken != 0
def isStarving (w : Word) : Bool := w &&& mStarving != 0
/-- `old >> mutexWaiterShift` (arithmetic shift of an int32) -/
def waitersBV (w : Word) : Word := w.sshiftRight mShift

/-- loom.Mutex.Count, exactly the Go expression (current code). -/
def count (w : Word) : Int :=
  let v := w.sshiftRight mShift
  let v := v + (w &&& mLocked)
  v.toInt

/-- the expression before commit 6c561bc: `v = v + (v & mutexLocked)` -/
def countOld (w : Word) : Int :=
  let v := w.sshiftRight mShift
  let v := v + (v &&& mLocked)
  v.toInt

inductive TPc where
  | idle
  | cas1                 -- parked before the first CAS (site 8)
  | load                 -- parked before the load (site 9)
  | cas2 (old : Word)    -- parked before the second CAS (site 10)
  deriving DecidableEq, Repr

structure MSt where
  word : Word
  holders : List Nat      -- ghost: goroutines inside the critical section (acquired, not yet unlocked)
  handoff : Bool          -- ghost: a starvation-mode Unlock has released the semaphore with hand-off and the
                          --        woken waiter has not yet taken the lock by its AddInt32(delta)
  pc : Nat → TPc
  res : Nat → Option Bool -- ghost: result of the last completed TryLock of each thread

inductive MAct where
  | tryStart (t : Nat)                        -- invoke TryLock (environment)
  | tryCas1 (t : Nat)
  | tryLoad (t : Nat)
  | tryCas2 (t : Nat)
  | unlock (t : Nat)                          -- Unlock: AddInt32(&state, -mutexLocked), by a holder
  | lockFast (t : Nat)                        -- Lock: CAS(&state, 0, mutexLocked) succeeded
  | lockSlowCas (t : Nat) (awoke starving : Bool)  -- lockSlow: the CAS(old, new) of the non-spinning branch succeeded
  | spinWoken (t : Nat)                       -- lockSlow: CAS(old, old|mutexWoken) of the spinning branch succeeded
  | wake (t : Nat)                            -- unlockSlow: CAS(old, (old - 1<<shift) | mutexWoken) succeeded
  | handoffTake (t : Nat) (starving : Bool)   -- lockSlow after Semacquire in starvation mode: AddInt32(delta)
  deriving Repr

def initM (w : Word) : MSt :=
  { word := w, holders := [], handoff := false, pc := fun _ => .idle, res := fun _ => none }

/-- `new` of lockSlow's non-spinning branch, from `old` and the locals `awoke`, `starving`. -/
def lockSlowNew (old : Word) (awoke starving : Bool) : Word :=
  let new := old
  let new := if old &&& mStarving == 0 then new ||| mLocked else new
  let new := if old &&& (mLocked ||| mStarving) != 0 then new + mOneWaiter else new
  let new := if starving && (old &&& mLocked != 0) then new ||| mStarving else new
  if awoke then new &&& ~~~mWoken else new

/-- Go: `if awoke { if new&mutexWoken == 0 { throw("sync: inconsistent mutex state") } ... }` -/
def lockSlowThrows (old : Word) (awoke : Bool) : Bool :=
  awoke && (if old &&& mStarving == 0 then old ||| mLocked else old) &&& mWoken == 0

/-- `delta` of the starvation hand-off. -/
def handoffDelta (old : Word) (starving : Bool) : Word :=
  let delta := mLocked - mOneWaiter
  if !starving || waitersBV old == 1 then delta - mStarving else delta

def stepM (s : MSt) : MAct → MSt
  | .tryStart t =>
    match s.pc t with
    | .idle => { s with pc := upd s.pc t .cas1 }
    | _ => s
  | .tryCas1 t =>
    match s.pc t with
    | .cas1 =>
      if s.word = 0 then
        { s with word := mLocked, holders := t :: s.holders, pc := upd s.pc t .idle, res := upd s.res t (some true) }
      else { s with pc := upd s.pc t .load }
    | _ => s
  | .tryLoad t =>
    match s.pc t with
    | .load =>
      let old := s.word
      if old &&& (mLocked ||| mStarving ||| mWoken) != 0 then
        { s with pc := upd s.pc t .idle, res := upd s.res t (some false) }
      else { s with pc := upd s.pc t (.cas2 old) }
    | _ => s
  | .tryCas2 t =>
    match s.pc t with
    | .cas2 old =>
      if s.word = old then
        { s with word := old ||| mLocked, holders := t :: s.holders, pc := upd s.pc t .idle,
                 res := upd s.res t (some true) }
      else { s with pc := upd s.pc t .idle, res := upd s.res t (some false) }
    | _ => s
  | .unlock t =>
    if t ∈ s.holders then
      let new := s.word - mLocked
      { s with word := new, holders := s.holders.erase t,
               handoff := s.handoff || (new &&& mStarving != 0) }
    else s
  | .lockFast t =>
    if s.word = 0 then { s with word := mLocked, holders := t :: s.holders } else s
  | .lockSlowCas t awoke starving =>
    let old := s.word
    let new := lockSlowNew old awoke starving
    -- a throwing environment step is not a behaviour
    if lockSlowThrows old awoke then s
    else if old &&& (mLocked ||| mStarving) == 0 then
      { s with word := new, holders := t :: s.holders }      -- "locked the mutex with CAS"
    else { s with word := new }                               -- queued: parks in Semacquire
  | .spinWoken _ =>
    let old := s.word
    if old &&& (mLocked ||| mStarving) == mLocked && old &&& mWoken == 0 && waitersBV old != 0 then
      { s with word := old ||| mWoken }
    else s
  | .wake _ =>
    let old := s.word
    if waitersBV old == 0 || old &&& (mLocked ||| mWoken ||| mStarving) != 0 then s
    else { s with word := (old - mOneWaiter) ||| mWoken }
  | .handoffTake t starving =>
    let old := s.word
    if s.handoff && old &&& mStarving != 0 then
      -- Go: `if old&(mutexLocked|mutexWoken) != 0 || old>>mutexWaiterShift == 0 { throw }`
      if old &&& (mLocked ||| mWoken) != 0 || waitersBV old == 0 then s
      else { s with word := old + handoffDelta old starving, holders := t :: s.holders, handoff := false }
    else s

def runM (s : MSt) (acts : List MAct) : MSt := acts.foldl stepM s

/-! ## (b) Flag -/

abbrev W64 := BitVec 64

inductive FOp where
  | add (f : W64)
  | remove (f : W64)
  deriving DecidableEq, Repr

/-- the update a call computes from the value it loaded: `last | flag` resp. `last & ^flag` -/
def FOp.apply : FOp → W64 → W64
  | .add f, v => v ||| f
  | .remove f, v => v &&& ~~~f

def hasFlag (v f : W64) : Bool := v &&& f != 0

inductive FPc where
  | idle
  | load (op : FOp)               -- parked before the load (site 11)
  | cas (op : FOp) (last : W64)   -- parked before the CAS (site 12)
  deriving DecidableEq, Repr

structure FSt where
  val : W64
  pc : Nat → FPc
  log : List (Nat × FOp)    -- ghost: (thread, call) of every successful CAS, oldest first
  calls : Nat → Nat         -- ghost: number of AddFlag/RemoveFlag calls thread t has invoked

inductive FAct where
  | invoke (t : Nat) (op : FOp)
  | load (t : Nat)
  | cas (t : Nat)
  deriving Repr

def initF (v : W64) : FSt := { val := v, pc := fun _ => .idle, log := [], calls := fun _ => 0 }

def stepF (s : FSt) : FAct → FSt
  | .invoke t op =>
    match s.pc t with
    | .idle => { s with pc := upd s.pc t (.load op), calls := upd s.calls t (s.calls t + 1) }
    | _ => s
  | .load t =>
    match s.pc t with
    | .load op => { s with pc := upd s.pc t (.cas op s.val) }
    | _ => s
  | .cas t =>
    match s.pc t with
    | .cas op last =>
      if s.val = last then
        { s with val := op.apply last, pc := upd s.pc t .idle, log := s.log ++ [(t, op)] }
      else { s with pc := upd s.pc t (.load op) }
    | _ => s

def runF (s : FSt) (acts : List FAct) : FSt := acts.foldl stepF s

/-! ## (c) AddIf64 — parametric in the predicate of each call (`pred delta old`) -/

inductive APc where
  | idle
  | load (delta : W64)                  -- parked before the load (site 13)
  | cas (delta : W64) (expect : W64)    -- predicate held for `expect`; parked before the CAS (site 14)
  deriving DecidableEq, Repr

structure ASt where
  val : W64
  pc : Nat → APc
  res : Nat → Option Bool
  added : List W64           -- ghost: deltas of the successful CASes, oldest first

inductive AAct where
  | invoke (t : Nat) (delta : W64)
  | load (t : Nat)
  | cas (t : Nat)
  deriving Repr

def initA (v : W64) : ASt := { val := v, pc := fun _ => .idle, res := fun _ => none, added := [] }

def stepA (pred : W64 → W64 → Bool) (s : ASt) : AAct → ASt
  | .invoke t d =>
    match s.pc t with
    | .idle => { s with pc := upd s.pc t (.load d) }
    | _ => s
  | .load t =>
    match s.pc t with
    | .load d =>
      let expect := s.val
      if !pred d expect then { s with pc := upd s.pc t .idle, res := upd s.res t (some false) }
      else { s with pc := upd s.pc t (.cas d expect) }
    | _ => s
  | .cas t =>
    match s.pc t with
    | .cas d expect =>
      if s.val = expect then
        { s with val := expect + d, pc := upd s.pc t .idle, res := upd s.res t (some true),
                 added := s.added ++ [d] }
      else { s with pc := upd s.pc t (.load d) }
    | _ => s

def runA (pred : W64 → W64 → Bool) (s : ASt) (acts : List AAct) : ASt := acts.foldl (stepA pred) s

/-- the predicate used by the correspondence harness: `old + delta <= limit` (signed int64) -/
def limitPred (limit : Int) (delta old : W64) : Bool := decide ((old + delta).toInt ≤ limit)

end Got.Model.Atomics
