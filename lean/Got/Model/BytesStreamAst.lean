import Got.Model.BytesStream
import Got.Model.MiniGoBytes
import Got.Generated.AstIox
/-
C13 translator tie, executable part (core Lean only): how one op of the hand-written stream model
(`Got.Model.Bytes.Stream.Op`) is performed on the *generated* MiniGoBytes terms of /repo/iox/octets_stream.go
(`Got.Generated.AstIox`, regenerated from source on every run).  `astCall` is used twice: the theorems of
Got/Lemmas/BytesStreamAst.lean and Got/Props/C13.lean (`C13_translated_source_*`) are stated about it, and `drv_bytes ast`
executes it on every `stream` case of the correspondence, where its answers are compared with the real code's.
-/
namespace Got.Model.BytesStreamAst
open Got.Model.MiniGoBytes Got.Generated.AstIox
open Got.Model.Bytes (Stream)

/-- one API call = interpreting the generated term of the method on the Go arguments the op denotes
    (`Read(k)`: a fresh zeroed destination of `k` bytes) -/
def astCall (fuel : Nat) (st : St) : Stream.Op → Option Out
  | .write p => run table "OctetsStream.Write" fuel [.bytes (p.map (BitVec.ofNat 8))] st
  | .writeByte b => run table "OctetsStream.WriteByte" fuel [.bv 8 false (BitVec.ofNat 8 b)] st
  | .read k => run table "OctetsStream.Read" fuel [.bytes (List.replicate k 0)] st
  | .readByte => run table "OctetsStream.ReadByte" fuel [] st
  | .tidy => run table "OctetsStream.Tidy" fuel [] st
  | .reset => run table "OctetsStream.Reset" fuel [] st
  | .seek o w => run table "OctetsStream.Seek" fuel [.bv 64 true (BitVec.ofInt 64 o), .int w] st
  | .writeBool b => run table "OctetsStream.WriteBool" fuel [.bool b] st
  | .writeInt16 d => run table "OctetsStream.WriteInt16" fuel [.bv 16 true (BitVec.ofInt 16 d)] st
  | .writeInt32 d => run table "OctetsStream.WriteInt32" fuel [.bv 32 true (BitVec.ofInt 32 d)] st
  | .writeInt64 d => run table "OctetsStream.WriteInt64" fuel [.bv 64 true (BitVec.ofInt 64 d)] st

def outState : Out → Option St
  | .ret _ _ st => some st
  | .panic => none

/-- a sequence of API calls on the interpreted generated code; `none` as soon as a call panics or is stuck -/
def astRun (fuel : Nat) : St → List Stream.Op → Option (St × List Out)
  | st, [] => some (st, [])
  | st, op :: ops =>
    (astCall fuel st op).bind fun o => (outState o).bind fun st' =>
      (astRun fuel st' ops).map fun r => (r.1, o :: r.2)

end Got.Model.BytesStreamAst
