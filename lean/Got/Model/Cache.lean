import Got.Model.CacheCore
/-
Timed labelled transition system of cachex (cache_impl.go, future.go, cache.go, option.go).

* P workers, job channel = bounded FIFO of size J, S shards each with a mutex, expiries En/Ee.
* One transition = one shared access of the Go code; the critical section of Load
  (Lock; lookup; getFutureStatus; newFuture; insert) is ONE step that leaves the client holding the
  shard lock; `Unlock` and the blocking send of the job are separate steps.  The critical sections
  of Get2 (Lock; lookup; Unlock), Set and of one shard of removeRotted contain no blocking
  operation and are single steps that require the lock to be free.
* `cfg.old = true` is the code before the fix: the job is sent while the lock is held.
* Future.setValue is split at its publication points: (value, err, updateTime) / predecessor := nil / wg.Done.
* Loader invocation (`wStart`) and return (`wEnd`, carrying the returned pair), client invocations,
  ticker ticks and the passage of time are environment actions.
* Ghost components (never read by the non-ghost part): `Fut.bySet`, `Fut.orphan`, `State.jobAt`.
Core Lean only.
-/
namespace Got.Model.Cache
open Got.Model.CacheCore

abbrev Key := Nat
abbrev FutId := Nat
abbrev Cid := Nat
abbrev Wid := Nat

def upd {β : Type} (f : Nat → β) (i : Nat) (v : β) : Nat → β := fun j => if j = i then v else f j

@[simp] theorem upd_same {β : Type} (f : Nat → β) (i : Nat) (v : β) : upd f i v i = v := by simp [upd]
theorem upd_other {β : Type} (f : Nat → β) (i j : Nat) (v : β) (h : j ≠ i) : upd f i v j = f j := by
  simp [upd, h]
theorem upd_apply {β : Type} (f : Nat → β) (i j : Nat) (v : β) : upd f i v j = if j = i then v else f j := rfl

/-- the (value, error) pair of a loader / of Set; both may be nil -/
structure Res where
  val : Option Nat
  err : Option Nat
  deriving DecidableEq, Repr, Inhabited

structure Fut where
  key : Key
  res : Option Res          -- `some` once setValue has published value, err and updateTime
  upd : Nat                 -- updateTime (meaningful when res is some)
  pred : Option FutId       -- predecessor
  done : Bool               -- wg.Done() executed
  bySet : Bool              -- ghost: created by Set
  orphan : Bool             -- ghost: displaced from the map by Set while unresolved
  deriving DecidableEq, Repr, Inhabited

structure Job where
  key : Key
  fut : FutId
  ld : Nat                  -- which loader function (id of the Load call that supplied it)
  deriving DecidableEq, Repr, Inhabited

/-- ghost: where the job of a load-future currently is -/
inductive Loc
  | nowhere | creator (c : Cid) | chan | worker (w : Wid) | finished
  deriving DecidableEq, Repr, Inhabited

/-- what Load does after it has (possibly) sent the job -/
inductive Plan
  | ret (f : FutId)         -- return f
  | fetch (f : FutId)       -- return fetchIfFutureStatusGood(f)
  deriving DecidableEq, Repr, Inhabited

inductive Out
  | fut (f : FutId)                               -- Load returned future f
  | pair (f : Option FutId) (r : Option Res)      -- Get2 / Future.Get2 returned r (read from future f); (none,none) = (nil,nil)
  | unit                                          -- Set returned
  deriving DecidableEq, Repr, Inhabited

inductive CPc
  | idle
  | ldStart (k : Key) (ld : Nat)                            -- Load: before futures.Lock()
  | ldUnlock (sh : Nat) (send : Option Job) (plan : Plan)   -- holds lock sh; next: futures.Unlock()
  | ldSend (j : Job) (plan : Plan) (locked : Option Nat)    -- sendJob (blocking); `some sh` = old variant, lock still held
  | fetch (f : FutId) (forGet : Bool)                       -- fetchIfFutureStatusGood: future.getPredecessor()
  | fetchSt (f : FutId) (p : Option FutId) (forGet : Bool)  -- … getFutureStatus(predecessor)
  | ldRet (f : FutId)                                       -- Load returns f
  | g2Start (k : Key)                                       -- Get2: Lock; lookup; Unlock
  | g2Status (f : Option FutId)                             -- Get2: getFutureStatus(future) and the switch
  | wait (f : FutId)                                        -- Future.Get2: wg.Wait(), then return (value, err)
  | retNil                                                  -- Get2 returns nil, nil
  | setStart (k : Key) (r : Res)                            -- Set: the whole critical section
  | setRet
  | done (o : Out)
  deriving DecidableEq, Repr, Inhabited

inductive WPc
  | idle                          -- in the select
  | got (j : Job)                 -- received a job, about to call job.loader(job.key)
  | running (j : Job)             -- inside the loader
  | publish (j : Job) (r : Res)   -- setValue: value, err, updateTime
  | clearPred (j : Job)           -- setValue: predecessor := nil
  | wgDone (j : Job)              -- setValue: wg.Done()
  | sweep (i : Nat)               -- removeRotted: about to lock shard i
  deriving DecidableEq, Repr, Inhabited

structure Cfg where
  P : Nat
  J : Nat
  S : Nat
  En : Nat
  Ee : Nat
  shardOf : Key → Nat
  old : Bool := false

structure State where
  now : Nat
  lock : Nat → Option Cid
  map : Key → Option FutId
  fut : FutId → Fut
  nfut : Nat
  chan : List Job
  tickPending : Bool
  cpc : Cid → CPc
  wpc : Wid → WPc
  jobAt : FutId → Loc

def emptyFut : Fut := { key := 0, res := none, upd := 0, pred := none, done := false, bySet := false, orphan := false }

def init : State :=
  { now := 0, lock := fun _ => none, map := fun _ => none, fut := fun _ => emptyFut, nfut := 0, chan := [],
    tickPending := false, cpc := fun _ => .idle, wpc := fun _ => .idle, jobAt := fun _ => .nowhere }

inductive Act
  | invLoad (c : Cid) (k : Key) (ld : Nat)
  | invGet2 (c : Cid) (k : Key)
  | invSet (c : Cid) (k : Key) (r : Res)
  | invFGet (c : Cid) (of : Cid)     -- Future.Get2 on the future that the (returned) Load call `of` handed out
  | cl (c : Cid)                  -- next step of client c
  | wTake (w : Wid)               -- worker: `case job := <-jobChan`
  | wTick (w : Wid)               -- worker: `case <-gcTicker.C`
  | wStart (w : Wid)              -- worker calls job.loader(job.key)
  | wEnd (w : Wid) (r : Res)      -- the loader returns r
  | wk (w : Wid)                  -- next step of worker w (setValue steps, sweep of one shard)
  | tick                          -- the ticker delivers a tick (dropped if one is pending)
  | delay (d : Nat)
  deriving DecidableEq, Repr

def view (f : Fut) : FutView :=
  { resolved := f.res.isSome, upd := f.upd, hasErr := (f.res.bind (·.err)).isSome }

/-- getFutureStatus(future) evaluated in state s -/
def statusAt (cfg : Cfg) (s : State) (o : Option FutId) : Status :=
  statusOf s.now cfg.En cfg.Ee (o.map (fun f => view (s.fut f)))

def planPc : Plan → CPc
  | .ret f => .ldRet f
  | .fetch f => .fetch f false

def newLoadFut (k : Key) (pred : Option FutId) : Fut :=
  { key := k, res := none, upd := 0, pred := pred, done := false, bySet := false, orphan := false }

/-- what the critical section of Load decides, as a function of the looked-up entry and its status -/
structure LoadOut where
  create : Bool               -- insert a new future (and send one job)
  pred : Option FutId         -- predecessor of the new future
  pc : CPc                    -- where the client continues
  deriving DecidableEq, Repr

def loadOut (old : Bool) (sh : Nat) (last : Option FutId) (st : Status) (nf : FutId) (k : Key) (ld : Nat) : LoadOut :=
  let d := loadDecide st
  let plan : Plan :=
    match last, d.ret with
    | some l, .last => .ret l
    | some l, .fetchLast => .fetch l
    | _, _ => .ret nf
  if d.create then
    let j : Job := { key := k, fut := nf, ld := ld }
    { create := true, pred := if d.predLast then last else none,
      pc := if old then .ldSend j plan (some sh) else .ldUnlock sh (some j) plan }
  else
    { create := false, pred := none, pc := .ldUnlock sh none plan }

/-- the state update of Load's critical section for a given decision -/
def applyLoad (sh : Nat) (s : State) (c : Cid) (k : Key) (o : LoadOut) : State :=
  let nf := s.nfut
  if o.create then
    { s with
      lock := upd s.lock sh (some c)
      fut := upd s.fut nf (newLoadFut k o.pred)
      map := upd s.map k (some nf)
      nfut := nf + 1
      jobAt := upd s.jobAt nf (.creator c)
      cpc := upd s.cpc c o.pc }
  else
    { s with
      lock := upd s.lock sh (some c)
      cpc := upd s.cpc c o.pc }

/-- the critical section of Load (cache_impl.go:127-140); the caller has checked that the lock is free -/
def loadCS (cfg : Cfg) (s : State) (c : Cid) (k : Key) (ld : Nat) : State :=
  let sh := cfg.shardOf k
  applyLoad sh s c k (loadOut cfg.old sh (s.map k) (statusAt cfg s (s.map k)) s.nfut k ld)

/-- ghost: Set marks the unresolved future it displaces as orphaned -/
def orphanMark (fut : FutId → Fut) : Option FutId → FutId → Fut
  | some l => if (fut l).res.isNone then upd fut l { fut l with orphan := true } else fut
  | none => fut

/-- the critical section of Set (cache_impl.go:76-82) -/
def setCS (s : State) (c : Cid) (k : Key) (r : Res) : State :=
  let nf := s.nfut
  { s with
    fut := upd (orphanMark s.fut (s.map k)) nf
      { key := k, res := some r, upd := s.now, pred := none, done := true, bySet := true, orphan := false }
    map := upd s.map k (some nf)
    nfut := nf + 1
    jobAt := upd s.jobAt nf .finished
    cpc := upd s.cpc c .setRet }

/-- removeRotted on shard i -/
def sweepShard (cfg : Cfg) (s : State) (i : Nat) : Key → Option FutId :=
  fun k => if cfg.shardOf k = i && sweepRemoves (statusAt cfg s (s.map k)) then none else s.map k

def setPc (s : State) (c : Cid) (pc : CPc) : State := { s with cpc := upd s.cpc c pc }
def setWpc (s : State) (w : Wid) (pc : WPc) : State := { s with wpc := upd s.wpc w pc }

/-- fetchIfFutureStatusGood(f) given the predecessor read from f and the predecessor's status -/
def fetchTarget (f : FutId) (p : Option FutId) (predStatus : Status) : FutId :=
  match p with
  | some q => if fetchChoosesPred predStatus then q else f
  | none => f

/-- where Get2 continues after getFutureStatus(future) -/
def g2Next (st : Status) (o : Option FutId) : CPc :=
  match get2Decide st, o with
  | .fetch, some f => .fetch f true
  | .wait, some f => .wait f
  | _, _ => .retNil

def clStep (cfg : Cfg) (s : State) (c : Cid) : Option State :=
  match s.cpc c with
  | .idle => none
  | .done _ => none
  | .ldStart k ld =>
    if (s.lock (cfg.shardOf k)).isNone then some (loadCS cfg s c k ld) else none
  | .ldUnlock sh send plan =>
    let s1 := { s with lock := upd s.lock sh none }
    match send with
    | some j => some (setPc s1 c (.ldSend j plan none))
    | none => some (setPc s1 c (planPc plan))
  | .ldSend j plan lk =>
    if s.chan.length < cfg.J then
      let s1 := { s with chan := s.chan ++ [j], jobAt := upd s.jobAt j.fut .chan }
      match lk with
      | some sh => some (setPc s1 c (.ldUnlock sh none plan))
      | none => some (setPc s1 c (planPc plan))
    else none
  | .fetch f g => some (setPc s c (.fetchSt f (s.fut f).pred g))
  | .fetchSt f p g =>
    let tgt : FutId := fetchTarget f p (statusAt cfg s p)
    some (setPc s c (if g then .wait tgt else .ldRet tgt))
  | .ldRet f => some (setPc s c (.done (.fut f)))
  | .g2Start k =>
    if (s.lock (cfg.shardOf k)).isNone then some (setPc s c (.g2Status (s.map k))) else none
  | .g2Status o => some (setPc s c (g2Next (statusAt cfg s o) o))
  | .wait f =>
    if (s.fut f).done then some (setPc s c (.done (.pair (some f) (s.fut f).res))) else none
  | .retNil => some (setPc s c (.done (.pair none none)))
  | .setStart k r =>
    if (s.lock (cfg.shardOf k)).isNone then some (setCS s c k r) else none
  | .setRet => some (setPc s c (.done .unit))

def wkStep (cfg : Cfg) (s : State) (w : Wid) : Option State :=
  match s.wpc w with
  | .publish j r =>
    some (setWpc { s with fut := upd s.fut j.fut { s.fut j.fut with res := some r, upd := s.now } } w (.clearPred j))
  | .clearPred j =>
    some (setWpc { s with fut := upd s.fut j.fut { s.fut j.fut with pred := none } } w (.wgDone j))
  | .wgDone j =>
    some (setWpc { s with fut := upd s.fut j.fut { s.fut j.fut with done := true },
                          jobAt := upd s.jobAt j.fut .finished } w .idle)
  | .sweep i =>
    if (s.lock i).isNone then
      some (setWpc { s with map := sweepShard cfg s i } w (if i + 1 < cfg.S then .sweep (i + 1) else .idle))
    else none
  | _ => none

/-- `none` = the action is not enabled -/
def step? (cfg : Cfg) (s : State) : Act → Option State
  | .invLoad c k ld => match s.cpc c with | .idle => some (setPc s c (.ldStart k ld)) | _ => none
  | .invGet2 c k => match s.cpc c with | .idle => some (setPc s c (.g2Start k)) | _ => none
  | .invSet c k r => match s.cpc c with | .idle => some (setPc s c (.setStart k r)) | _ => none
  | .invFGet c o =>
    match s.cpc c, s.cpc o with
    | .idle, .done (.fut f) => some (setPc s c (.wait f))
    | _, _ => none
  | .cl c => clStep cfg s c
  | .wTake w =>
    if w < cfg.P then
      match s.wpc w, s.chan with
      | .idle, j :: rest => some (setWpc { s with chan := rest, jobAt := upd s.jobAt j.fut (.worker w) } w (.got j))
      | _, _ => none
    else none
  | .wTick w =>
    if w < cfg.P then
      match s.wpc w with
      | .idle => if s.tickPending then some (setWpc { s with tickPending := false } w (.sweep 0)) else none
      | _ => none
    else none
  | .wStart w => match s.wpc w with | .got j => some (setWpc s w (.running j)) | _ => none
  | .wEnd w r => match s.wpc w with | .running j => some (setWpc s w (.publish j r)) | _ => none
  | .wk w => wkStep cfg s w
  | .tick => some { s with tickPending := true }
  | .delay d => some { s with now := s.now + d }

/-- Contract violations of the public calls: Load(key, nil), Load/Get2/Set(nil, …), a key of an unsupported type.
    In the current code the assertion (`assert(key != nil)`, `assert(loader != nil)`, first statements of Load / Get2 /
    Set) or the panic of GetShardingIndex fires BEFORE the shard lock is taken and before any shared access. -/
inductive Contract
  | nilLoader | nilKey | badKeyType
  deriving DecidableEq, Repr

/-- the panicking call as a transition: it changes nothing (the caller may recover and go on using the cache) -/
def contractPanic (s : State) (_ : Contract) : State := s

/-- total step: an action that is not enabled is a no-op -/
def step (cfg : Cfg) (s : State) (a : Act) : State := (step? cfg s a).getD s

def run (cfg : Cfg) (s : State) (acts : List Act) : State := acts.foldl (step cfg) s

def Reachable (cfg : Cfg) (s : State) : Prop := ∃ acts, run cfg init acts = s

/-- client / worker / loader transitions (everything except invocations, ticks and the clock) -/
def Act.isProgress : Act → Bool
  | .cl _ | .wTake _ | .wTick _ | .wStart _ | .wEnd _ _ | .wk _ => true
  | _ => false

end Got.Model.Cache
