import Got.Model.MSQueue
import Got.Model.AtomicIR
import Got.Generated.AstLoomQueue
/-
The labelled transition system of loom.Queue *as generated from the source*: the generic semantics of
Got/Model/AtomicIR.lean applied to the per-thread programs `push`/`pop` that tools/srcfacts re-translates from
/repo/loom/queue.go on every run (Got/Generated/AstLoomQueue.lean).  Core Lean only (used by the driver's `ast`
mode); the theorems that tie it to the hand-written model Got/Model/MSQueue.lean are in Got/Lemmas/MSQueueAst.lean.
-/
namespace Got.Model.MSQueueGen
open Got.Model.AtomicIR Got.Generated.AstLoomQueue Got.Spec.Lin

/-- function 0 = Push, function 1 = Pop -/
def prog : List Func := [push, pop]

/-- the queue code calls no predicate parameter -/
def noPred : List Val → Val → Bool := fun _ _ => false

/-- the initial state: the queue holds the dummy node `0` (NewQueue), every thread is idle -/
def genInit : GState :=
  { mem := ⟨fun _ => 0, fun _ => none, 1, some 0, some 0, 0, 0, 0, fun _ => none, 0, fun _ => false, false⟩, conf := fun _ => .idle, hist := [] }

/-- client actions (those of the hand-written model) as actions of the generated LTS -/
def gact : Got.Model.MSQueue.Act → Act
  | .invPush t v => .inv t 0 [.data v]
  | .invPop t => .inv t 1 []
  | .tau t => .tau t

def gstep (g : GState) (a : Got.Model.MSQueue.Act) : GState := step prog noPred g (gact a)

/-- the generated LTS run on a list of client actions -/
def genRun (acts : List Got.Model.MSQueue.Act) : GState := run prog noPred genInit (acts.map gact)

/-- `k` successive steps of thread `t` alone in the generated LTS -/
def genSolo (t k : Nat) (g : GState) : GState := solo prog noPred t k g

/-- reading a history of the generated LTS as a Push/Pop history -/
def toHEv : Nat × Ev → HEv
  | (t, .inv 0 [.data v]) => .inv t (.push v)
  | (t, .inv _ _) => .inv t .pop
  | (t, .ret none) => .ret t .ack
  | (t, .ret (some (.data v))) => .ret t (.val (some v))
  | (t, .ret (some _)) => .ret t (.val none)

/-- the client-visible Push/Pop history of a state of the generated LTS -/
def genHistory (g : GState) : List HEv := g.hist.map toHEv

end Got.Model.MSQueueGen
