import Got.Generated.LitsLoom
/-
Model of loom.Wheel (loom/wheel.go, loom/wheel_timer.go) — property C03.

Go code (current tree, after `fix: loom Wheel advances position before replacing the slot ...`):

    func (wheel *Wheel) fetchWheelData(interval time.Duration) *wheelData {
        if interval < 0 || interval >= wheel.maxTimeout { panic(...) }      -- rangePanics
        var index = int(interval / wheel.step)                               -- bucketIndex
        if index > 0 { index-- }
        for {
            var position = int(atomic.LoadInt64(&wheel.position))            -- RPc.loadPos    (hook site 3)
            var slot = (position + index) % wheel.bucketsSize
            var data = (*wheelData)(atomic.LoadPointer(&wheel.channels[slot]))  -- RPc.loadSlot (hook site 4)
            if position == int(atomic.LoadInt64(&wheel.position)) {          -- RPc.reloadPos  (hook site 3)
                return data
            }
        }
    }

    func (wheel *Wheel) onTicker() {                                         -- only caller: goLoop (one goroutine)
        var position = int(atomic.LoadInt64(&wheel.position))                -- TPc.loadPos    (site 3)
        atomic.StoreInt64(&wheel.position, int64((position+1)%wheel.bucketsSize))   -- TPc.storePos (site 6)
        var lastItem = (*wheelData)(atomic.SwapPointer(&wheel.channels[position], fresh))  -- TPc.swapSlot (site 5)
        close(lastItem.c)                                                    -- TPc.close      (site 7)
    }

    func (my *WheelTimer) Reset(nextInterval ...time.Duration) {             -- resetInterval
        var interval = my.interval
        if len(nextInterval) > 0 && nextInterval[0] >= my.wheel.step { interval = nextInterval[0] }
        my.C = my.wheel.fetchWheelData(interval).c
    }

LTS: one transition = one shared-memory access (one `atomic.*` call or the `close`), sequentially
consistent.  One ticker thread, requester threads `t : Nat` (unbounded), `invoke` is an environment
action.  Channels are identified by allocation order (`ChanId`); `nextChan` is the allocator.

Ghost components (never read by the non-ghost part): `adv` (number of position stores = ticks started),
`cls` (number of closes = ticks completed), `due c` (the tick that is to close channel `c`), the tick
number inside `closedBy` (its `isSome` is the real "channel is closed" bit), `ginvCls/ginvAdv/ga1`
(values of `cls`/`adv` when a request was invoked / read `position`), `done` (records of completed requests).

`Variant` selects the code variant: `fixed` is the current code; `old` (slot replaced BEFORE the position
advance, no re-check) and `noRecheck` (new order, no re-check) are kept for the counterexample theorems.
-/
namespace Got.Model.Wheel

/-- channels are identified by their allocation order (a notation, so that `omega` sees plain `Nat`) -/
scoped notation "ChanId" => Nat

def upd {α : Type} (f : Nat → α) (i : Nat) (v : α) : Nat → α := fun j => if j = i then v else f j

/-! ### pure part -/

/-- NewWheel: `if step <= 0 { panic }; if bucketNum <= 0 { panic }` -/
def newWheelPanics (step n : Int) : Bool := decide (step ≤ 0) || decide (n ≤ 0)

/-- `interval < 0 || interval >= wheel.maxTimeout`, with `maxTimeout = step * bucketNum` -/
def rangePanics (step n : Nat) (d : Int) : Bool :=
  decide (d < 0) || decide (((step * n : Nat) : Int) ≤ d)

/-- `index := int(interval / step); if index > 0 { index-- }` (only evaluated for `0 ≤ interval`) -/
def bucketIndex (step : Nat) (d : Int) : Nat :=
  let index := (d / (step : Int)).toNat
  if index > 0 then index - 1 else index

/-- WheelTimer.Reset: the interval that is re-armed -/
def resetInterval (step : Nat) (base : Int) (arg : Option Int) : Int :=
  match arg with
  | some x => if (step : Int) ≤ x then x else base
  | none => base

/-- hook sites of the accesses, taken from the regenerated literal tables of the source: the integer literals
    of the function body in program order, restricted to the wheel's site numbers (`verifYield(<site>, …)`;
    3 = load position, 4 = load slot, 5 = replace slot, 6 = store position, 7 = close). -/
def isWheelSite (x : Int) : Bool := x == 3 || x == 4 || x == 5 || x == 6 || x == 7
def tickerSites : List Int := Got.Facts.lits_loom_Wheel_onTicker.filter isWheelSite
def requestSites : List Int := Got.Facts.lits_loom_Wheel_fetchWheelData.filter isWheelSite

/-! ### the transition system -/

inductive TPc where
  | loadPos | storePos | swapSlot | close
  deriving DecidableEq, Repr

inductive RPc where
  | idle | loadPos | loadSlot | reloadPos
  deriving DecidableEq, Repr

/-- record of a completed request (ghost) -/
structure Req where
  tid : Nat
  k : Nat            -- bucket offset `index`
  invCls : Nat       -- ticks completed (closes done) when the request was invoked
  invAdv : Nat       -- ticks started (position stores done) when the request was invoked
  retAdv : Nat       -- ticks started when the request returned
  retCls : Nat       -- ticks completed when the request returned
  chan : ChanId      -- the channel it returned
  deriving DecidableEq, Repr

structure Variant where
  swapFirst : Bool   -- ticker: replace the slot before advancing the position (old code)
  recheck : Bool     -- requester: re-read position after the slot load and retry (fixed code)
  deriving DecidableEq, Repr

def fixed : Variant := ⟨false, true⟩
def old : Variant := ⟨true, false⟩
def noRecheck : Variant := ⟨false, false⟩

structure State where
  n : Nat                      -- bucketsSize (immutable)
  step : Nat                   -- step in ns (immutable)
  -- shared memory
  pos : Nat                    -- wheel.position
  slot : Nat → ChanId          -- wheel.channels[i]
  closedBy : ChanId → Option Nat   -- isSome = channel closed (real); the tick number is ghost
  nextChan : ChanId            -- allocator of fresh channels
  dblClose : Bool              -- a closed channel was closed again (Go: panic)
  -- ticker thread
  tpc : TPc
  tpos : Nat                   -- local `position`
  tlast : ChanId               -- local `lastItem`
  -- requester threads
  rpc : Nat → RPc
  rk : Nat → Nat               -- local `index`
  rpos : Nat → Nat             -- local `position`
  rdata : Nat → ChanId         -- local `data`
  panics : List (Nat × Int)    -- requests that panicked in the range check (tid, interval), newest first
  -- ghost
  adv : Nat
  cls : Nat
  due : ChanId → Nat
  ginvCls : Nat → Nat
  ginvAdv : Nat → Nat
  ga1 : Nat → Nat
  done : List Req              -- newest first

/-- NewWheel(step, n): slot i holds channel i, which the (i+1)-th tick will close -/
def init (n step : Nat) : State :=
  { n := n, step := step, pos := 0, slot := fun i => i, closedBy := fun _ => none, nextChan := n,
    dblClose := false, tpc := .loadPos, tpos := 0, tlast := 0,
    rpc := fun _ => .idle, rk := fun _ => 0, rpos := fun _ => 0, rdata := fun _ => 0, panics := [],
    adv := 0, cls := 0, due := fun c => c + 1, ginvCls := fun _ => 0, ginvAdv := fun _ => 0,
    ga1 := fun _ => 0, done := [] }

/-- one access of the ticker goroutine -/
def tickStep (v : Variant) (s : State) : State :=
  match s.tpc with
  | .loadPos =>
    { s with tpos := s.pos, tpc := if v.swapFirst then .swapSlot else .storePos }
  | .storePos =>
    { s with pos := (s.tpos + 1) % s.n, adv := s.adv + 1, tpc := if v.swapFirst then .close else .swapSlot }
  | .swapSlot =>
    { s with tlast := s.slot s.tpos, slot := upd s.slot s.tpos s.nextChan, nextChan := s.nextChan + 1,
             due := upd s.due s.nextChan (s.cls + 1 + s.n),
             tpc := if v.swapFirst then .storePos else .close }
  | .close =>
    { s with closedBy := upd s.closedBy s.tlast (some (s.cls + 1)),
             dblClose := s.dblClose || (s.closedBy s.tlast).isSome,
             cls := s.cls + 1, tpc := .loadPos }

/-- the request returns `c` -/
def complete (t : Nat) (c : ChanId) (s : State) : State :=
  { s with rpc := upd s.rpc t .idle,
           done := { tid := t, k := s.rk t, invCls := s.ginvCls t, invAdv := s.ginvAdv t,
                     retAdv := s.adv, retCls := s.cls, chan := c } :: s.done }

/-- one access of requester thread `t` -/
def reqStep (v : Variant) (t : Nat) (s : State) : State :=
  match s.rpc t with
  | .idle => s
  | .loadPos =>
    { s with rpos := upd s.rpos t s.pos, ga1 := upd s.ga1 t s.adv, rpc := upd s.rpc t .loadSlot }
  | .loadSlot =>
    let c := s.slot ((s.rpos t + s.rk t) % s.n)
    if v.recheck then { s with rdata := upd s.rdata t c, rpc := upd s.rpc t .reloadPos }
    else complete t c { s with rdata := upd s.rdata t c }
  | .reloadPos =>
    if s.rpos t = s.pos then complete t (s.rdata t) s
    else { s with rpc := upd s.rpc t .loadPos }

/-- thread `t` calls fetchWheelData(d): range check and index computation are thread-local -/
def invokeStep (t : Nat) (d : Int) (s : State) : State :=
  match s.rpc t with
  | .idle =>
    if rangePanics s.step s.n d then { s with panics := (t, d) :: s.panics }
    else { s with rk := upd s.rk t (bucketIndex s.step d), rpc := upd s.rpc t .loadPos,
                  ginvCls := upd s.ginvCls t s.cls, ginvAdv := upd s.ginvAdv t s.adv }
  | _ => s

inductive Act where
  | tick                                            -- the ticker performs its next access
  | invoke (t : Nat) (d : Int)                      -- NewTimer(d) / AfterFunc(d, _) on thread t
  | reset (t : Nat) (base : Int) (arg : Option Int) -- timer.Reset(arg…) of a timer created with interval `base`
  | req (t : Nat)                                   -- requester t performs its next access
  deriving DecidableEq, Repr

def step (v : Variant) (s : State) : Act → State
  | .tick => tickStep v s
  | .invoke t d => invokeStep t d s
  | .reset t base arg => invokeStep t (resetInterval s.step base arg) s
  | .req t => reqStep v t s

def run (v : Variant) (s : State) (acts : List Act) : State := acts.foldl (step v) s

/-- one whole tick of the fixed code / a whole sequential request -/
def fullTick : List Act := [.tick, .tick, .tick, .tick]
def fullReq (t : Nat) (d : Int) : List Act := [.invoke t d, .req t, .req t, .req t]

/-- the tick that closes the channel returned by the newest completed request (`none`: not closed yet) -/
def lastFire (s : State) : Option Nat :=
  match s.done with
  | [] => none
  | r :: _ => s.closedBy r.chan

/-! ### timing view (tick j happens at time j·step after creation) -/

/-- `D = max (s·⌊d/s⌋) s` -/
def nominal (step : Nat) (d : Nat) : Nat := max (step * (d / step)) step

/-- fire time of a request that sees `L` ticks, relative to wheel creation -/
def fireTime (step : Nat) (L k : Nat) : Nat := (L + k + 1) * step

end Got.Model.Wheel
