import Got.Model.BytesBuffer
/-
Model of the byte-stream part of iox.OctetsStream (/repo/iox/octets_stream.go):
Write, WriteBool, WriteByte, WriteInt16/32/64, Read, ReadByte, Bytes, Len, Position, Tidy, Reset, Seek.
(The typed readers ReadInt16/32/64 and the 7-bit codec on top belong to the codec family, C11/C12.)

State: `buffer []byte` (contents only: `append` decides the capacity and nothing observes it) and
`position int`.  `Seek` computes `num += offset` in int64; the model wraps like Go (`wrap64`).
The shift amounts of WriteInt16/32/64 come from the regenerated literal tables.
-/
namespace Got.Model.Bytes

structure Stream where
  buf : List Byte
  pos : Nat
  deriving Repr, DecidableEq

namespace Stream

def init : Stream := { buf := [], pos := 0 }

inductive Err where
  | nil | invalidArgument | notEnoughData
  deriving Repr, DecidableEq

inductive Out where
  | err (e : Err)                         -- Write*: error result (always nil)
  | read (data : List Byte) (e : Err)     -- Read: the n bytes copied, err
  | byte (b : Byte) (e : Err)             -- ReadByte
  | seek (ret : Nat) (e : Err)            -- Seek
  | unit                                  -- Tidy / Reset
  | panic (why : String)
  deriving Repr, DecidableEq

/-- `byte(d >> s)` for a signed Go integer `d` (arithmetic shift, then truncation to 8 bits) -/
def byteOf (d : Int) (s : Nat) : Byte := ((d >>> s) % 256).toNat

/-- `byte(d), byte(d>>s1), byte(d>>s2), …` for the literal shift list of the Go function -/
def leBytes (shifts : List Int) (d : Int) : List Byte :=
  byteOf d 0 :: shifts.map (fun s => byteOf d s.toNat)

/-- `my.buffer[my.position:]`; Go panics if `position > len` (`none`). -/
def bytes? (s : Stream) : Option (List Byte) :=
  if s.pos ≤ s.buf.length then some (s.buf.drop s.pos) else none

def bytes (s : Stream) : List Byte := s.buf.drop s.pos

/-- `Len()` = `len(my.buffer)` (total retained length, NOT the unread length) -/
def len (s : Stream) : Nat := s.buf.length

/-- `Position()` -/
def position (s : Stream) : Nat := s.pos

/-- `Write(buffer)`: `if size > 0 { my.buffer = append(my.buffer, buffer...) }` -/
def write (s : Stream) (p : List Byte) : Stream :=
  if p.length > 0 then { s with buf := s.buf ++ p } else s

/-- `WriteByte(b)` / `WriteBool` / `WriteIntN`: `my.buffer = append(my.buffer, …)` -/
def append (s : Stream) (p : List Byte) : Stream := { s with buf := s.buf ++ p }

/-- `Read(buffer)` with `len(buffer) = k` -/
def read (s : Stream) (k : Nat) : Stream × Out :=
  if k = 0 then (s, .read [] .invalidArgument)
  else
    let remain : Int := (s.buf.length : Int) - s.pos          -- remainSize
    if remain = 0 then (s, .read [] .nil)
    else
      let readSize : Int := if (k : Int) > remain then remain else k
      if readSize < 0 then (s, .panic "slice bounds out of range")   -- position > len: unreachable
      else
        ({ s with pos := s.pos + readSize.toNat }, .read ((s.buf.drop s.pos).take readSize.toNat) .nil)

/-- `ReadByte()` -/
def readByte (s : Stream) : Stream × Out :=
  if s.pos ≥ s.buf.length then (s, .byte 0 .notEnoughData)
  else ({ s with pos := s.pos + 1 }, .byte (s.buf.getD s.pos 0) .nil)

/-- `Tidy()` -/
def tidy (s : Stream) : Stream :=
  if s.pos > 0 then
    { buf := ((copyAt s.buf 0 (s.buf.drop s.pos)).1).take (s.buf.length - s.pos), pos := 0 }
  else s

/-- `Reset()` -/
def reset (_ : Stream) : Stream := { buf := [], pos := 0 }

/-- `Seek(offset, whence)` — the current code (after `fix: … rejects positions beyond the end`). -/
def seek (s : Stream) (offset whence : Int) : Stream × Out :=
  let fail : Stream × Out := (s, .seek 0 .invalidArgument)
  let go (num : Int) : Stream × Out :=
    let num := wrap64 (num + offset)                            -- num += offset
    if num < 0 ∨ num > s.buf.length then fail
    else ({ s with pos := num.toNat }, .seek num.toNat .nil)
  if whence = 0 then (if offset < 0 then fail else go 0)
  else if whence = 1 then go s.pos
  else if whence = 2 then go s.buf.length
  else fail

/-- the code before the fix (no upper bound); kept to document the defect -/
def seekOld (s : Stream) (offset whence : Int) : Stream × Out :=
  let fail : Stream × Out := (s, .seek 0 .invalidArgument)
  let go (num : Int) : Stream × Out :=
    let num := wrap64 (num + offset)
    if num < 0 then fail
    else ({ s with pos := num.toNat }, .seek num.toNat .nil)
  if whence = 0 then (if offset < 0 then fail else go 0)
  else if whence = 1 then go s.pos
  else if whence = 2 then go s.buf.length
  else fail

inductive Op where
  | write (p : List Byte)
  | writeByte (b : Byte)
  | writeBool (b : Bool)
  | writeInt16 (d : Int)
  | writeInt32 (d : Int)
  | writeInt64 (d : Int)
  | read (k : Nat)
  | readByte
  | tidy
  | reset
  | seek (offset whence : Int)
  deriving Repr, DecidableEq

/-- the bytes a write operation appends (`none` for non-writes) -/
def Op.payload : Op → Option (List Byte)
  | .write p => some p
  | .writeByte b => some [b]
  | .writeBool b => some [if b then (Got.Facts.lits_iox_OctetsStream_WriteBool.getD 0 1).toNat else 0]
  | .writeInt16 d => some (leBytes Got.Facts.lits_iox_OctetsStream_WriteInt16 d)
  | .writeInt32 d => some (leBytes Got.Facts.lits_iox_OctetsStream_WriteInt32 d)
  | .writeInt64 d => some (leBytes Got.Facts.lits_iox_OctetsStream_WriteInt64 d)
  | _ => none

def step (s : Stream) : Op → Stream × Out
  | .write p => (s.write p, .err .nil)
  | .read k => s.read k
  | .readByte => s.readByte
  | .tidy => (s.tidy, .unit)
  | .reset => (s.reset, .unit)
  | .seek o w => s.seek o w
  | .writeByte b => (s.append ((Op.writeByte b).payload.getD []), .err .nil)
  | .writeBool b => (s.append ((Op.writeBool b).payload.getD []), .err .nil)
  | .writeInt16 d => (s.append ((Op.writeInt16 d).payload.getD []), .err .nil)
  | .writeInt32 d => (s.append ((Op.writeInt32 d).payload.getD []), .err .nil)
  | .writeInt64 d => (s.append ((Op.writeInt64 d).payload.getD []), .err .nil)

def run (s : Stream) : List Op → Stream × List Out
  | [] => (s, [])
  | op :: ops =>
    let r := s.step op
    let rest := run r.1 ops
    (rest.1, r.2 :: rest.2)

end Stream
end Got.Model.Bytes
