import Got.Generated.LitsIox
/-
Executable model of the iox codec (properties C11, C12):
  iox/octets_stream.go   ReadBool/Byte/Int16/Int32/Int64, Read, WriteBool/Byte/Int16/Int32/Int64, Write
  iox/octets_writer.go   WriteBytes, WriteString, Write7BitEncodedInt
  iox/octets_reader.go   ReadBytes, ReadString, Read7BitEncodedInt   (CURRENT code: ReadBytes compares the
                         announced size with the remaining data BEFORE `make`)
  convert.String / convert.Bytes are the identity on the byte sequence.

Conventions
* a stream is `(buf : List Byte, pos : Nat)`; writers only append to `buf`, so a writer is modelled by the
  list of bytes it appends; readers never change `buf`, so a reader is a function `buf → pos → Res α`
  returning the outcome, the new position and a ghost `alloc` = number of bytes passed to `make`.
* Go `int16/int32/int64/uint32/byte` are `BitVec 16/32/64/32/8`; every operator mirrors the Go operator
  (`sshiftRight` for `>>` on signed, `>>>` on `uint32`, `setWidth` for conversions from unsigned / truncations,
  `BitVec.slt` for signed `<`, `<`/`≤` on `BitVec` = unsigned compare as on `byte`/`uint32`).
* Go `int` (position, lengths) is `Nat`/`Int` (no overflow: lengths are < 2^63).
* a Go panic (index / slice bounds out of range) or a loop that does not finish within the fuel is the explicit
  outcome `Out.crash`; it is never defaulted away. (C12 proves it unreachable.)
* every magic number of the Go source (shift amounts, byte indices, readSize, 127, 0xFFFFFF80, 7, 28, 15, 0x7F, 1)
  is taken from the literal tables regenerated from the source (`Got.Facts.lits_iox_*`), in source order.
-/
namespace Got.Model.Codec
open Got.Facts

abbrev Byte := BitVec 8

/-- iox/errors.go -/
inductive Err where
  | NotEnoughData | Bad7BitInt | NegativeSize | InvalidArgument
  deriving DecidableEq, Repr, Inhabited

inductive Out (α : Type) where
  | ok (v : α)
  | err (e : Err)
  | crash
  deriving DecidableEq, Repr

/-- result of a read call: outcome, position after the call, ghost: bytes passed to `make` by the call -/
structure Res (α : Type) where
  out : Out α
  pos : Nat
  alloc : Nat
  deriving DecidableEq, Repr

def Res.map {α β : Type} (f : α → β) (r : Res α) : Res β :=
  match r.out with
  | .ok v => ⟨.ok (f v), r.pos, r.alloc⟩
  | .err e => ⟨.err e, r.pos, r.alloc⟩
  | .crash => ⟨.crash, r.pos, r.alloc⟩

/-- i-th integer literal of a Go function body (source order), as a natural number -/
def lit (l : List Int) (i : Nat) : Nat := (l.getD i 0).toNat

/-! ## writers (octets_stream.go:90-136, octets_writer.go) — the bytes appended to `buffer` -/

/-- `var d byte; if b { d = 1 }; append(buffer, d)` -/
def writeBool (b : Bool) : List Byte :=
  [if b then BitVec.ofNat 8 (lit lits_iox_OctetsStream_WriteBool 0) else 0]

def writeByte (b : Byte) : List Byte := [b]

/-- `append(buffer, byte(d), byte(d>>k1), byte(d>>k2), …)` -/
def writeFixed {w : Nat} (shifts : List Int) (d : BitVec w) : List Byte :=
  d.setWidth 8 :: shifts.map (fun k => (d.sshiftRight k.toNat).setWidth 8)

def writeInt16 (d : BitVec 16) : List Byte := writeFixed lits_iox_OctetsStream_WriteInt16 d
def writeInt32 (d : BitVec 32) : List Byte := writeFixed lits_iox_OctetsStream_WriteInt32 d
def writeInt64 (d : BitVec 64) : List Byte := writeFixed lits_iox_OctetsStream_WriteInt64 d

/-- `Write(buffer)`: `if size > 0 { append(buffer...) }` -/
def writeRaw (data : List Byte) : List Byte :=
  if data.length > lit lits_iox_OctetsStream_Write 0 then data else []

def w7 : List Int := lits_iox_OctetsWriter_Write7BitEncodedInt

/-- `for num > 127 { WriteByte(byte(num | 0xFFFFFF80)); num >>= 7 }; WriteByte(byte(num))`
    `none` = the loop did not finish within the fuel. -/
def write7Loop : Nat → BitVec 32 → Option (List Byte)
  | 0, _ => none
  | fuel + 1, num =>
    if num > BitVec.ofNat 32 (lit w7 0) then
      (write7Loop fuel (num >>> lit w7 2)).map
        (fun t => (num ||| BitVec.ofNat 32 (lit w7 1)).setWidth 8 :: t)
    else some [num.setWidth 8]

def write7Fuel : Nat := 64

/-- Write7BitEncodedInt(d int32): `num = uint32(d)` is the same bit pattern -/
def write7 (d : BitVec 32) : Option (List Byte) := write7Loop write7Fuel d

/-- WriteBytes: `Write7BitEncodedInt(int32(len(data)))` then `stream.Write(data)` -/
def writeBytes (data : List Byte) : Option (List Byte) :=
  (write7 (BitVec.ofNat 32 data.length)).map (fun p => p ++ writeRaw data)

/-- WriteString: `WriteBytes(convert.Bytes(s))` -/
def writeString (s : List Byte) : Option (List Byte) := writeBytes s

/-! ## readers of the stream (octets_stream.go:19-88) -/

/-- ReadByte -/
def readByte (buf : List Byte) (pos : Nat) : Res Byte :=
  if pos ≥ buf.length then ⟨.err .NotEnoughData, pos, 0⟩
  else
    match buf[pos]? with
    | some b => ⟨.ok b, pos + 1, 0⟩
    | none => ⟨.crash, pos, 0⟩

/-- ReadBool: `b == 1, err` -/
def readBool (buf : List Byte) (pos : Nat) : Res Bool :=
  (readByte buf pos).map (fun b => b == BitVec.ofNat 8 (lit lits_iox_OctetsStream_ReadBool 0))

/-- literals `[i1, k1, i2, k2, …]` ↦ lanes `[(i1,k1), (i2,k2), …]` of `T(b[i1])<<k1 | T(b[i2])<<k2 | …` -/
def lanesOf : List Int → List (Nat × Nat)
  | i :: k :: rest => (i.toNat, k.toNat) :: lanesOf rest
  | _ => []

/-- `T(b[i0]) | T(b[i1])<<k1 | …` (left associated); `none` = index out of range (panic) -/
def orLanes (w : Nat) (b : List Byte) (first : Nat) (rest : List (Nat × Nat)) : Option (BitVec w) :=
  rest.foldl
    (fun acc ik =>
      match acc, b[ik.1]? with
      | some a, some x => some (a ||| (x.setWidth w <<< ik.2))
      | _, _ => none)
    ((b[first]?).map (fun x => x.setWidth w))

/-- ReadInt16/32/64: literals of the function = `[readSize, 0, i0, i1, k1, i2, k2, …]` -/
def readFixed (w : Nat) (lits : List Int) (buf : List Byte) (pos : Nat) : Res (BitVec w) :=
  let readSize := lit lits 0
  if pos + readSize > buf.length then ⟨.err .NotEnoughData, pos, 0⟩
  else if pos > buf.length then ⟨.crash, pos, 0⟩          -- `my.buffer[my.position:]`
  else
    match orLanes w (buf.drop pos) (lit lits 2) (lanesOf (lits.drop 3)) with
    | some v => ⟨.ok v, pos + readSize, 0⟩
    | none => ⟨.crash, pos, 0⟩

def readInt16 (buf : List Byte) (pos : Nat) : Res (BitVec 16) := readFixed 16 lits_iox_OctetsStream_ReadInt16 buf pos
def readInt32 (buf : List Byte) (pos : Nat) : Res (BitVec 32) := readFixed 32 lits_iox_OctetsStream_ReadInt32 buf pos
def readInt64 (buf : List Byte) (pos : Nat) : Res (BitVec 64) := readFixed 64 lits_iox_OctetsStream_ReadInt64 buf pos

/-- Read(buffer) with `len(buffer) = n`, `buffer` zero-filled: returns (count, contents of buffer afterwards) -/
def streamRead (buf : List Byte) (pos : Nat) (n : Nat) : Res (Nat × List Byte) :=
  if n = 0 then ⟨.err .InvalidArgument, pos, 0⟩
  else
    let remain : Int := (buf.length : Int) - (pos : Int)
    if remain = 0 then ⟨.ok (0, List.replicate n 0), pos, 0⟩
    else
      let readSize : Int := if (n : Int) > remain then remain else (n : Int)
      if readSize < 0 then ⟨.crash, pos, 0⟩                 -- `my.buffer[position : position+readSize]`
      else
        let k := readSize.toNat
        ⟨.ok (k, (buf.drop pos).take k ++ List.replicate (n - k) 0), pos + k, 0⟩

/-! ## readers of OctetsReader (octets_reader.go) -/

def r7 : List Int := lits_iox_OctetsReader_Read7BitEncodedInt

/-- the `for i := 0; i < 28; i += 7 { … }` loop followed by the fifth-byte epilogue.
    literals: `[num0, i0, 28, 7, 0, 0x7F, 127, 0, 15, 0, 28]` -/
def read7Loop (buf : List Byte) : Nat → Nat → BitVec 32 → Nat → Res (BitVec 32)
  | 0, _, _, pos => ⟨.crash, pos, 0⟩
  | fuel + 1, i, num, pos =>
    if i < lit r7 2 then
      match readByte buf pos with
      | ⟨.ok b, p, _⟩ =>
        let num' := num ||| ((b &&& BitVec.ofNat 8 (lit r7 5)).setWidth 32 <<< i)
        if b ≤ BitVec.ofNat 8 (lit r7 6) then ⟨.ok num', p, 0⟩
        else read7Loop buf fuel (i + lit r7 3) num' p
      | ⟨.err e, p, _⟩ => ⟨.err e, p, 0⟩
      | ⟨.crash, p, _⟩ => ⟨.crash, p, 0⟩
    else
      match readByte buf pos with
      | ⟨.ok b, p, _⟩ =>
        if b > BitVec.ofNat 8 (lit r7 8) then ⟨.err .Bad7BitInt, p, 0⟩
        else ⟨.ok (num ||| (b.setWidth 32 <<< lit r7 10)), p, 0⟩
      | ⟨.err e, p, _⟩ => ⟨.err e, p, 0⟩
      | ⟨.crash, p, _⟩ => ⟨.crash, p, 0⟩

def read7Fuel : Nat := 64

/-- Read7BitEncodedInt -/
def read7 (buf : List Byte) (pos : Nat) : Res (BitVec 32) :=
  read7Loop buf read7Fuel (lit r7 1) (BitVec.ofNat 32 (lit r7 0)) pos

/-- ReadBytes (current code, with the size-vs-remaining check before `make`) -/
def readBytes (buf : List Byte) (pos : Nat) : Res (List Byte) :=
  match read7 buf pos with
  | ⟨.err e, p, _⟩ => ⟨.err e, p, 0⟩
  | ⟨.crash, p, _⟩ => ⟨.crash, p, 0⟩
  | ⟨.ok size, p, _⟩ =>
    if size.slt (BitVec.ofNat 32 (lit lits_iox_OctetsReader_ReadBytes 0)) then ⟨.err .NegativeSize, p, 0⟩
    else if size = BitVec.ofNat 32 (lit lits_iox_OctetsReader_ReadBytes 1) then ⟨.ok [], p, 0⟩
    else if size.toInt > (buf.length : Int) - (p : Int) then ⟨.err .NotEnoughData, p, 0⟩
    else
      let n := size.toInt.toNat                              -- make([]byte, size)
      match streamRead buf p n with
      | ⟨.err e, p', _⟩ => ⟨.err e, p', n⟩
      | ⟨.crash, p', _⟩ => ⟨.crash, p', n⟩
      | ⟨.ok (num, data), p', _⟩ =>
        if BitVec.ofNat 32 num ≠ size then ⟨.err .NotEnoughData, p', n⟩
        else ⟨.ok data, p', n⟩

/-- ReadString: `convert.String(data)` keeps the bytes -/
def readString (buf : List Byte) (pos : Nat) : Res (List Byte) := readBytes buf pos

/-! ## typed values, sequences of writes and of reads -/

inductive Val where
  | bool (b : Bool)
  | byte (b : Byte)
  | i16 (d : BitVec 16)
  | i32 (d : BitVec 32)
  | i64 (d : BitVec 64)
  | v7 (d : BitVec 32)          -- Write7BitEncodedInt / Read7BitEncodedInt
  | bytes (l : List Byte)       -- WriteBytes / ReadBytes
  | str (l : List Byte)         -- WriteString / ReadString
  | raw (l : List Byte)         -- stream.Write / stream.Read(len l)
  deriving DecidableEq, Repr

/-- the read call matching a value -/
inductive Op where
  | bool | byte | i16 | i32 | i64 | v7 | bytes | str
  | raw (n : Nat)
  deriving DecidableEq, Repr

def Val.op : Val → Op
  | .bool _ => .bool | .byte _ => .byte | .i16 _ => .i16 | .i32 _ => .i32 | .i64 _ => .i64
  | .v7 _ => .v7 | .bytes _ => .bytes | .str _ => .str | .raw l => .raw l.length

def encode1 : Val → Option (List Byte)
  | .bool b => some (writeBool b)
  | .byte b => some (writeByte b)
  | .i16 d => some (writeInt16 d)
  | .i32 d => some (writeInt32 d)
  | .i64 d => some (writeInt64 d)
  | .v7 d => write7 d
  | .bytes l => writeBytes l
  | .str l => writeString l
  | .raw l => some (writeRaw l)

/-- all writes in order on one stream; `none` = a writer did not terminate -/
def encode : List Val → Option (List Byte)
  | [] => some []
  | v :: vs =>
    match encode1 v, encode vs with
    | some a, some b => some (a ++ b)
    | _, _ => none

/-- one read call, result as a `Val`. For `raw n` the value is the filled prefix of the buffer
    (count bytes) — the remaining `n - count` bytes of the caller's buffer stay zero. -/
def read1 (buf : List Byte) (pos : Nat) : Op → Res Val
  | .bool => (readBool buf pos).map .bool
  | .byte => (readByte buf pos).map .byte
  | .i16 => (readInt16 buf pos).map .i16
  | .i32 => (readInt32 buf pos).map .i32
  | .i64 => (readInt64 buf pos).map .i64
  | .v7 => (read7 buf pos).map .v7
  | .bytes => (readBytes buf pos).map .bytes
  | .str => (readString buf pos).map .str
  | .raw n => (streamRead buf pos n).map (fun cd => .raw (cd.2.take cd.1))

/-- a sequence of read calls on one stream; every call starts where the previous one stopped
    (also after an error, exactly like consecutive calls on the Go object) -/
def readSeq (buf : List Byte) : Nat → List Op → List (Res Val)
  | _, [] => []
  | pos, o :: os =>
    let r := read1 buf pos o
    r :: readSeq buf r.pos os

/-- decode a sequence, stopping at the first non-ok outcome: values read and final position -/
def decode (buf : List Byte) : Nat → List Op → Option (List Val × Nat)
  | pos, [] => some ([], pos)
  | pos, o :: os =>
    match read1 buf pos o with
    | ⟨.ok v, p, _⟩ =>
      match decode buf p os with
      | some (vs, q) => some (v :: vs, q)
      | none => none
    | _ => none

end Got.Model.Codec
