import Got.Generated.LitsAnts
/-
Model of package ants (pool.go, pool_impl.go, task_callback_ants.go, task_option.go,
task_discard.go, pool_option.go, consts.go) as a timed labelled transition system.

Indexing.  The Go program has N dispatcher goroutines (`goDispatchTask`), N inner workers
(`goDispatchInnerCallback`), client goroutines calling `Send`, and one closure per attempt.
The model is indexed by *task id* `k` and *attempt* `a` instead of by goroutine:
  * `Task.pc` is the program counter of whichever goroutine currently executes code on behalf
    of task `k`: the client inside `Send` (stages sendTest … queued), then the dispatcher that
    received it from `taskChan` (`run` / `runTaskOnce`, stages loopTest … wgDone);
  * `Att.pc` (attempt `a` of task `k`) is the program counter of the closure handed to
    `sendInnerCallback`, executed by the inner worker occupying slot `w < N`.
  Dispatchers are interchangeable, so "a dispatcher is idle" is the computed condition
  `dispatching s < N`; inner workers are the slots `slot : Nat → Option (task, attempt)`.
One transition = one shared-memory / channel operation of the Go code (plus the local
computation up to the next one).  Handler calls, `Send` calls and the passage of time are
environment transitions.  `Cfg.old = true` is the code before the decided-flag fix
(kept for the two counterexample theorems only).

Go code of the core (current tree):

    func (my *taskCallback) run(ctx) {
        defer my.wg.Done()
        for i := 0; i < my.retry; i++ {            -- loopTest
            my.runTaskOnce(ctx)
            if my.err == nil { return }             -- errTest
        }
        if onError != nil { onError(my.err) }       -- onError
    }
    func (my *taskCallback) runTaskOnce(ctx) {
        ctx1, cancel := context.WithTimeout(ctx, my.timeout); defer cancel()   -- (loopTest) / cancel
        doneChan := make(chan struct{}); var decided int32
        my.pool.sendInnerCallback(func() {          -- sendCl (blocking send, cap N)
            defer close(doneChan)                   -- wClose
            result, err := my.handler(ctx1)         -- wStart … wEnd (environment)
            select {
            case <-ctx1.Done():                     -- wCheck
            default:
                verifYield(1)                       -- hook1
                if CAS(&decided, 0, 1) {            -- wCas
                    verifYield(4)                   -- hook4
                    my.result, my.err = result, err -- wWrite
                }
            }
        })
        verifYield(3)                               -- hook3
        select { case <-doneChan:                   -- selDone
                 case <-ctx1.Done(): verifYield(2)} -- selCtx, hook2
        if CAS(&decided, 0, 2) {                    -- decide
            my.result, my.err = nil, DeadlineExceeded   -- writeDE
        } else { <-doneChan }                       -- waitDone
    }
-/
namespace Got.Model.Ants

/-- results: 0 = nil, handler values are ≥ 1 -/
abbrev Val := Nat

inductive Err where
  | nil                 -- no error
  | de                  -- context.DeadlineExceeded
  | discard             -- errDiscard
  | h (code : Nat)      -- an error returned by the handler
  deriving DecidableEq, Repr, Inhabited

/-- program counter of the goroutine acting for a task (client in Send, then a dispatcher) -/
inductive TPc where
  | none | sendTest | discardCb | discarded | enq | queued
  | loopTest | sendCl | hook3 | select | hook2 | decide | writeDE | waitDone | cancel | errTest
  | onError | wgDone | done
  deriving DecidableEq, Repr, Inhabited

/-- program counter of the closure of one attempt (w = inner worker slot, (v,e) = handler's pair) -/
inductive CPc where
  | none | queued
  | taken (w : Nat)
  | running (w : Nat) (hon : Bool)
  | returned (w : Nat) (v : Val) (e : Err)
  | hook1 (w : Nat) (v : Val) (e : Err)
  | cas (w : Nat) (v : Val) (e : Err)
  | hook4 (w : Nat) (v : Val) (e : Err)
  | write (w : Nat) (v : Val) (e : Err)
  | closing (w : Nat)
  | closed
  deriving DecidableEq, Repr, Inhabited

/-- one attempt = one call of runTaskOnce: its context, doneChan, decided flag and closure -/
structure Att where
  pc : CPc := .none
  decided : Nat := 0            -- 0 undecided, 1 handler's pair counts, 2 timed out
  closedCh : Bool := false      -- doneChan closed
  ctxDone : Bool := false       -- ctx1.Done() closed (deadline timer fired, or cancel())
  deadline : Nat := 0
  -- ghost
  beginAt : Nat := 0
  ret : Option (Val × Err) := .none   -- what the handler returned
  sawLive : Bool := false       -- the closure's `select` took the default branch (ctx not done)
  starts : Nat := 0             -- handler invocations of this attempt
  hStart : Nat := 0
  hEnd : Nat := 0
  invIdx : Nat := 0             -- index of this invocation among the task's invocations
  deriving Repr, Inhabited

/-- raw options as given to Send (task_option.go) -/
structure Opts where
  timeout : Int
  retry : Int
  discard : Bool
  hasCb : Bool
  deriving Repr, Inhabited, DecidableEq

def nsPerDay : Nat := 24 * 3600 * 1000000000
/-- `365 * timex.Day` and the default retry count, literals of createTaskOptions -/
def defaultTimeout : Nat := (Got.Facts.lits_ants_createTaskOptions.getD 0 365).toNat * nsPerDay
def defaultRetry : Nat := (Got.Facts.lits_ants_createTaskOptions.getD 1 1).toNat

/-- WithTimeout / WithRetry keep the default unless the argument is > 0 -/
def effT (o : Opts) : Nat := if o.timeout > 0 then o.timeout.toNat else defaultTimeout
def effR (o : Opts) : Nat := if o.retry > 0 then o.retry.toNat else defaultRetry

/-! ### option functions (task_option.go, pool_option.go): pure functions on the options record, applied left to right -/

/-- a TaskOption value -/
inductive TOpt where
  | timeout (d : Int)       -- WithTimeout(d): assigns only if d > 0
  | retry (n : Int)         -- WithRetry(n): assigns only if n > 0
  | discard (b : Bool)      -- WithDiscardOnBusy(b): assigns
  | onError (set : Bool)    -- WithError(f): assigns, also nil (set = false)
  deriving Repr, DecidableEq, Inhabited

/-- the record createTaskOptions starts from: timeout 365 days, retry 1, discardOnBusy true, onError nil -/
def defaultOpts : Opts :=
  { timeout := Int.ofNat defaultTimeout, retry := Int.ofNat defaultRetry, discard := true, hasCb := false }

def TOpt.apply (o : Opts) : TOpt → Opts
  | .timeout d => if d > 0 then { o with timeout := d } else o
  | .retry n => if n > 0 then { o with retry := n } else o
  | .discard b => { o with discard := b }
  | .onError f => { o with hasCb := f }

/-- createTaskOptions: `for _, opt := range optionList { opt(&opts) }` -/
def applyOptions (l : List TOpt) : Opts := l.foldl TOpt.apply defaultOpts

/-- a PoolOption value -/
inductive POpt where
  | size (n : Int)            -- WithSize(n): assigns only if n > 0
  | ctxBuilder (set : Bool)   -- WithContextBuilder(f): assigns only if f != nil (set = true)
  deriving Repr, DecidableEq, Inhabited

structure PoolOpts where
  size : Nat
  customCtx : Bool            -- a caller-supplied context builder is in effect (default: context.Background)
  deriving Repr, DecidableEq, Inhabited

/-- createPoolOptions starts from size 1 and the Background builder -/
def defaultPoolOpts : PoolOpts := { size := (Got.Facts.lits_ants_createPoolOptions.getD 0 1).toNat, customCtx := false }

def POpt.apply (o : PoolOpts) : POpt → PoolOpts
  | .size n => if n > 0 then { o with size := n.toNat } else o
  | .ctxBuilder f => if f then { o with customCtx := true } else o

def applyPoolOptions (l : List POpt) : PoolOpts := l.foldl POpt.apply defaultPoolOpts

structure Task where
  pc : TPc := .none
  T : Nat := 1
  R : Nat := 1
  discard : Bool := false
  hasCb : Bool := false
  att : Nat := 0                -- attempts begun (loop variable i = att - 1 inside an attempt)
  at_ : Nat → Att := fun _ => {}
  result : Val := 0
  err : Err := .nil
  -- ghost
  onErr : List (Err × Nat) := []      -- onError calls (argument, time)
  inv : Nat := 0                      -- handler invocations
  lenAtSend : Nat := 0                -- len(taskChan) when Send was called (what the harness reads)
  lenAtTest : Nat := 0                -- len(taskChan) as read by the busy test
  sendAt : Nat := 0
  sendRet : Nat := 0
  pickAt : Nat := 0
  doneAt : Nat := 0
  got : Option (Val × Err) := .none   -- the pair visible at wg.Done (what the first Get2 returns)
  deriving Inhabited

structure Cfg where
  N : Nat
  old : Bool := false
  /-- the contexts returned by the pool's context builder (the `ctx` argument of `task.run`) are cancelled at this
      instant (`none`: never, e.g. the default context.Background). The instant is a parameter of the execution. -/
  baseCancelAt : Option Nat := none
  deriving Repr, Inhabited

/-- the dispatcher's own context is already cancelled -/
def baseDone (c : Cfg) (now : Nat) : Bool :=
  match c.baseCancelAt with
  | some x => decide (x ≤ now)
  | none => false

/-- the instant at which ctx1 = WithTimeout(ctx, T), created now, is done at the latest: its own deadline or the
    cancellation of its parent, whichever comes first -/
def ctxDeadline (c : Cfg) (now T : Nat) : Nat :=
  match c.baseCancelAt with
  | some x => if now < x then min (now + T) x else now + T
  | none => now + T

structure State where
  now : Nat := 0
  task : Nat → Task := fun _ => {}
  tasks : List Nat := []              -- ids handed to Send so far (finite support of `task`)
  taskQ : List Nat := []              -- taskChan (cap N)
  innerQ : List (Nat × Nat) := []     -- innerCallbackChan (cap N): closures (task, attempt)
  slot : Nat → Option (Nat × Nat) := fun _ => .none    -- inner worker w is executing this closure
  running : Nat := 0                  -- ghost: handler calls in progress (inc at entry, dec at exit)
  maxRunning : Nat := 0
  deriving Inhabited

def upd {α : Type} (f : Nat → α) (i : Nat) (x : α) : Nat → α := fun j => if j = i then x else f j

@[simp] theorem upd_same {α : Type} (f : Nat → α) (i : Nat) (x : α) : upd f i x i = x := by simp [upd]
@[simp] theorem upd_other {α : Type} (f : Nat → α) (i j : Nat) (x : α) (h : j ≠ i) : upd f i x j = f j := by
  simp [upd, h]

def Task.setAt (t : Task) (a : Nat) (x : Att) : Task := { t with at_ := upd t.at_ a x }
def State.setTask (s : State) (k : Nat) (t : Task) : State := { s with task := upd s.task k t }

/-- current attempt index (meaningful when att ≥ 1) -/
def Task.cur (t : Task) : Nat := t.att - 1

def TPc.dispatching : TPc → Bool
  | .loopTest | .sendCl | .hook3 | .select | .hook2 | .decide | .writeDE | .waitDone | .cancel
  | .errTest | .onError | .wgDone => true
  | _ => false

/-- number of dispatcher goroutines currently inside `task.run` -/
def dispatching (s : State) : Nat := (s.tasks.filter (fun k => (s.task k).pc.dispatching)).length

inductive Act where
  | send (k : Nat) (o : Opts)          -- a client calls Send (environment); k is a fresh id
  | busyTest (k : Nat)
  | discardCb (k : Nat)
  | enq (k : Nat)
  | take (k : Nat)
  | loopTest (k : Nat)
  | sendCl (k : Nat)
  | hook3 (k : Nat)
  | selDone (k : Nat)
  | selCtx (k : Nat)
  | hook2 (k : Nat)
  | decide (k : Nat)
  | writeDE (k : Nat)
  | waitDone (k : Nat)
  | cancel (k : Nat)
  | errTest (k : Nat)
  | onError (k : Nat)
  | wgDone (k : Nat)
  | fire (k a : Nat)                   -- the timer of ctx1 fires
  | wTake (k a w : Nat)
  | wStart (k a : Nat) (hon : Bool)    -- handler entered (environment decides whether it honours ctx)
  | wEnd (k a : Nat) (v : Val) (e : Err)   -- handler returns (environment)
  | wCheck (k a : Nat)
  | hook1 (k a : Nat)
  | wCas (k a : Nat)
  | hook4 (k a : Nat)
  | wWrite (k a : Nat)
  | wClose (k a : Nat)
  | advance (t : Nat)                  -- time passes
  deriving Repr, DecidableEq, Inhabited

/-- armed context timers do not let time pass beyond their deadline -/
def timersAllow (s : State) (t : Nat) : Bool :=
  s.tasks.all fun k =>
    let tk := s.task k
    (List.range tk.att).all fun a => (tk.at_ a).ctxDone || decide (t ≤ (tk.at_ a).deadline)

/-- task-local part of a dispatcher / client transition; `none` = not enabled.
    `full` = `len(taskChan) == cap(taskChan)` as read by the busy test, `qlen` = that length. -/
def tstep (c : Cfg) (now : Nat) (qlen : Nat) (t : Task) : Act → Option Task
  | .send _ o =>
    if t.pc = .none then
      some { t with pc := .sendTest, T := effT o, R := effR o, discard := o.discard, hasCb := o.hasCb, sendAt := now,
                    lenAtSend := qlen }
    else none
  | .busyTest _ =>
    if t.pc = .sendTest then
      if t.discard && qlen == c.N then some { t with pc := .discardCb, lenAtTest := qlen }
      else some { t with pc := .enq, lenAtTest := qlen }
    else none
  | .discardCb _ =>
    if t.pc = .discardCb then
      some { t with pc := .discarded, sendRet := now,
                    onErr := if t.hasCb then t.onErr ++ [(Err.discard, now)] else t.onErr }
    else none
  | .enq _ => if t.pc = .enq then some { t with pc := .queued, sendRet := now } else none
  | .take _ => if t.pc = .queued then some { t with pc := .loopTest, pickAt := now } else none
  | .loopTest _ =>
    if t.pc = .loopTest then
      if t.att < t.R then
        -- context.WithTimeout(ctx, T): a child of a cancelled parent is done at once (its Err is Canceled; the code
        -- nevertheless records DeadlineExceeded for the attempt)
        some { (t.setAt t.att { deadline := ctxDeadline c now t.T, beginAt := now, ctxDone := baseDone c now }) with
                 pc := .sendCl, att := t.att + 1 }
      else some { t with pc := .onError }
    else none
  | .sendCl _ =>
    if t.pc = .sendCl ∧ (t.at_ t.cur).pc = .none then
      some { (t.setAt t.cur { t.at_ t.cur with pc := .queued }) with pc := .hook3 }
    else none
  | .hook3 _ => if t.pc = .hook3 then some { t with pc := .select } else none
  | .selDone _ =>
    if t.pc = .select ∧ (t.at_ t.cur).closedCh then
      some { t with pc := if c.old then .cancel else .decide }
    else none
  | .selCtx _ =>
    if t.pc = .select ∧ (t.at_ t.cur).ctxDone then some { t with pc := .hook2 } else none
  | .hook2 _ =>
    if t.pc = .hook2 then some { t with pc := if c.old then .writeDE else .decide } else none
  | .decide _ =>
    if t.pc = .decide then
      if (t.at_ t.cur).decided = 0 then
        some { (t.setAt t.cur { t.at_ t.cur with decided := 2 }) with pc := .writeDE }
      else some { t with pc := .waitDone }
    else none
  | .writeDE _ =>
    if t.pc = .writeDE then some { t with pc := .cancel, result := 0, err := .de } else none
  | .waitDone _ =>
    if t.pc = .waitDone ∧ (t.at_ t.cur).closedCh then some { t with pc := .cancel } else none
  | .cancel _ =>
    if t.pc = .cancel then
      some { (t.setAt t.cur { t.at_ t.cur with ctxDone := true }) with pc := .errTest }
    else none
  | .errTest _ =>
    if t.pc = .errTest then
      if t.err = .nil then some { t with pc := .wgDone } else some { t with pc := .loopTest }
    else none
  | .onError _ =>
    if t.pc = .onError then
      some { t with pc := .wgDone, onErr := if t.hasCb then t.onErr ++ [(t.err, now)] else t.onErr }
    else none
  | .wgDone _ =>
    if t.pc = .wgDone then some { t with pc := .done, doneAt := now, got := some (t.result, t.err) } else none
  | .fire _ a =>
    if a < t.att ∧ (t.at_ a).ctxDone = false ∧ (t.at_ a).deadline ≤ now then
      some (t.setAt a { t.at_ a with ctxDone := true })
    else none
  | .wTake _ a w =>
    if (t.at_ a).pc = .queued then some (t.setAt a { t.at_ a with pc := .taken w }) else none
  | .wStart _ a hon =>
    match (t.at_ a).pc with
    | .taken w =>
      some { (t.setAt a { t.at_ a with pc := .running w hon, starts := (t.at_ a).starts + 1, hStart := now,
                                       invIdx := t.inv }) with inv := t.inv + 1 }
    | _ => none
  | .wEnd _ a v e =>
    match (t.at_ a).pc with
    | .running w _ => some (t.setAt a { t.at_ a with pc := .returned w v e, ret := some (v, e), hEnd := now })
    | _ => none
  | .wCheck _ a =>
    match (t.at_ a).pc with
    | .returned w v e =>
      if (t.at_ a).ctxDone then some (t.setAt a { t.at_ a with pc := .closing w })
      else some (t.setAt a { t.at_ a with pc := .hook1 w v e, sawLive := true })
    | _ => none
  | .hook1 _ a =>
    match (t.at_ a).pc with
    | .hook1 w v e => some (t.setAt a { t.at_ a with pc := if c.old then .write w v e else .cas w v e })
    | _ => none
  | .wCas _ a =>
    match (t.at_ a).pc with
    | .cas w v e =>
      if (t.at_ a).decided = 0 then some (t.setAt a { t.at_ a with pc := .hook4 w v e, decided := 1 })
      else some (t.setAt a { t.at_ a with pc := .closing w })
    | _ => none
  | .hook4 _ a =>
    match (t.at_ a).pc with
    | .hook4 w v e => some (t.setAt a { t.at_ a with pc := .write w v e })
    | _ => none
  | .wWrite _ a =>
    match (t.at_ a).pc with
    | .write w v e => some { (t.setAt a { t.at_ a with pc := .closing w }) with result := v, err := e }
    | _ => none
  | .wClose _ a =>
    match (t.at_ a).pc with
    | .closing _ => some (t.setAt a { t.at_ a with pc := .closed, closedCh := true })
    | _ => none
  | .advance _ => none

/-- the task an action belongs to -/
def Act.task : Act → Nat
  | .send k _ | .busyTest k | .discardCb k | .enq k | .take k | .loopTest k | .sendCl k | .hook3 k
  | .selDone k | .selCtx k | .hook2 k | .decide k | .writeDE k | .waitDone k | .cancel k | .errTest k
  | .onError k | .wgDone k | .fire k _ | .wTake k _ _ | .wStart k _ _ | .wEnd k _ _ _ | .wCheck k _
  | .hook1 k _ | .wCas k _ | .hook4 k _ | .wWrite k _ | .wClose k _ => k
  | .advance _ => 0

/-- slot held by a closure -/
def CPc.slot? : CPc → Option Nat
  | .taken w | .running w _ | .returned w _ _ | .hook1 w _ _ | .cas w _ _ | .hook4 w _ _ | .write w _ _ | .closing w =>
    Option.some w
  | _ => Option.none

/-- global step: channel / slot / clock effects + the task-local effect `tstep` -/
def step (c : Cfg) (s : State) (act : Act) : Option State :=
  match act with
  | .advance t =>
    if s.now < t ∧ timersAllow s t then some { s with now := t } else none
  | _ =>
    let k := act.task
    match tstep c s.now s.taskQ.length (s.task k) act with
    | none => none
    | some t' =>
      let s' := s.setTask k t'
      match act with
      | .send _ _ => some { s' with tasks := s.tasks ++ [k] }
      | .enq _ => if s.taskQ.length < c.N then some { s' with taskQ := s.taskQ ++ [k] } else none
      | .take _ =>
        match s.taskQ with
        | k' :: rest => if k' = k ∧ dispatching s < c.N then some { s' with taskQ := rest } else none
        | [] => none
      | .sendCl _ =>
        if s.innerQ.length < c.N then some { s' with innerQ := s.innerQ ++ [(k, (s.task k).cur)] } else none
      | .wTake _ a w =>
        match s.innerQ with
        | p :: rest =>
          if p = (k, a) ∧ w < c.N ∧ s.slot w = none then some { s' with innerQ := rest, slot := upd s.slot w (some (k, a)) }
          else none
        | [] => none
      | .wStart _ _ _ =>
        some { s' with running := s.running + 1, maxRunning := max s.maxRunning (s.running + 1) }
      | .wEnd _ _ _ _ => some { s' with running := s.running - 1 }
      | .wClose _ a =>
        match ((s.task k).at_ a).pc.slot? with
        | some w => some { s' with slot := upd s.slot w none }
        | none => none
      | _ => some s'

def run (c : Cfg) (s : State) : List Act → Option State
  | [] => some s
  | a :: rest => match step c s a with
    | none => none
    | some s' => run c s' rest

def init : State := {}

def Reachable (c : Cfg) (s : State) : Prop := ∃ acts, run c init acts = some s

/-- what Get2 returns once unblocked: taskDiscard.Get2 / taskCallback.Get2 -/
def get2 (t : Task) : Option (Val × Err) :=
  match t.pc with
  | .discarded => some (0, .discard)
  | .done => some (t.result, t.err)
  | _ => none

/-- the outcome of a decided attempt -/
def Att.outcome (x : Att) : Option (Val × Err) :=
  if x.decided = 1 then x.ret else if x.decided = 2 then some (0, .de) else none

/-! ### enabledness of non-clock transitions (for maximal progress) -/

/-- candidate next actions of the goroutines working for task k (everything except Send, handler
    returns and the clock): at most one per program counter, plus timer firings -/
def taskActs (c : Cfg) (s : State) (k : Nat) : List Act :=
  let t := s.task k
  let own : List Act := match t.pc with
    | .sendTest => [.busyTest k] | .discardCb => [.discardCb k] | .enq => [.enq k] | .queued => [.take k]
    | .loopTest => [.loopTest k] | .sendCl => [.sendCl k] | .hook3 => [.hook3 k]
    | .select => [.selDone k, .selCtx k] | .hook2 => [.hook2 k] | .decide => [.decide k]
    | .writeDE => [.writeDE k] | .waitDone => [.waitDone k] | .cancel => [.cancel k] | .errTest => [.errTest k]
    | .onError => [.onError k] | .wgDone => [.wgDone k]
    | _ => []
  let cl : List Act := (List.range t.att).flatMap fun a =>
    let x := t.at_ a
    (if x.ctxDone = false ∧ x.deadline ≤ s.now then [Act.fire k a] else []) ++
    (match x.pc with
     | .queued => (List.range c.N).map fun w => Act.wTake k a w
     | .taken _ => [.wStart k a true]
     | .returned _ _ _ => [.wCheck k a]
     | .hook1 _ _ _ => [.hook1 k a]
     | .cas _ _ _ => [.wCas k a]
     | .hook4 _ _ _ => [.hook4 k a]
     | .write _ _ _ => [.wWrite k a]
     | .closing _ => [.wClose k a]
     | _ => [])
  own ++ cl

def internalActs (c : Cfg) (s : State) : List Act := s.tasks.flatMap (taskActs c s)

/-- a handler that honours cancellation returns no later than the instant its ctx is done -/
def overdueHandler (s : State) : Bool :=
  s.tasks.any fun k =>
    let t := s.task k
    (List.range t.att).any fun a =>
      match (t.at_ a).pc with
      | .running _ true => (t.at_ a).ctxDone
      | _ => false

/-- no goroutine can take a step and no cancellation-honouring handler is overdue: only then may
    time pass (maximal progress = the semantics of the Go runtime's faketime clock) -/
def quiescent (c : Cfg) (s : State) : Bool :=
  (internalActs c s).all (fun a => (step c s a).isNone) && !overdueHandler s

end Got.Model.Ants
