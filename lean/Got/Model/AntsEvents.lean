import Got.Model.Ants
import Got.Model.Discipline
/-
C18 for ants (taskCallback.result / taskCallback.err), derived from the LTS of Got/Model/Ants.lean (core Lean only).

For a task id `k` the two plain fields `result`, `err` are ONE location (always written and read together).
An execution is a list of extended actions: the actions of the Ants LTS plus client calls
  get2 t id      goroutine t calls Get2 / Get1 / Err on task id: it returns iff wg.Wait() returns (task done);
                 on a taskDiscard no field is touched
  rawRead t id   NOT in the code: a client reads the fields without Wait (negative control only)
The trace of `Got.Model.Discipline.Ev` events of task k induced by the execution is defined by recursion alongside the
run (`resultEvents`); an action contributes events only if it is enabled, and the trace ends at the first disabled one.

  sendCl k            dispatcher hands attempt a's closure over on innerCallbackChan     rel disp (clObj k a)
  wTake k a w         inner worker receives it                                           acq inner (clObj k a)
  wCas k a            inner: CAS(&decided,0,1)      acq inner (decObj k a) [; rel inner (decObj k a) if it succeeds]
  decide k            dispatcher: CAS(&decided,0,2) acq disp (decObj k a)  [; rel disp (decObj k a) if it succeeds]
  wWrite k a          inner (after hook4): my.result, my.err = result, err               wr inner
  writeDE k           dispatcher: my.result, my.err = nil, DeadlineExceeded              wr disp
  wClose k a          close(doneChan)                                                    rel inner (doneObj k a)
  selDone k / waitDone k   dispatcher receives from doneChan (select branch / after a lost CAS)   acq disp (doneObj k a)
  errTest k           run(): `if my.err == nil`                                          rd disp
  onError k           run(): `onError(my.err)` (only when a callback was given)          rd disp
  wgDone k            wg.Done()                                                          rel disp (wgObj k)
  get2 t k            wg.Wait() returns; return my.result, my.err                        acq client (wgObj k) ; rd client

Thread ids: "the dispatcher of task k" is one thread (program order inside run() is what matters; a dispatcher goroutine
that serves several tasks only adds edges); the inner worker executing attempt a's closure is thread `innT a` (a worker
that executes several closures only adds edges); client goroutine t is `cliT t`. The zero initialisation of the fields by
`&taskCallback{…}` is not an event (the pointer reaches other goroutines only through taskChan / the return of Send).
-/
namespace Got.Model.AntsEvents
open Got.Model.Ants

abbrev DEv := Got.Model.Discipline.Ev

/-- thread ids -/
def dispT : Nat := 0
def innT (a : Nat) : Nat := 2 * a + 1
def cliT (t : Nat) : Nat := 2 * t + 2

/-- sync objects of task k (objects of other tasks never occur in task k's trace, so `k` is not encoded) -/
def wgObj (_k : Nat) : Nat := 0
def clObj (_k a : Nat) : Nat := 3 * a + 1
def decObj (_k a : Nat) : Nat := 3 * a + 2
def doneObj (_k a : Nat) : Nat := 3 * a + 3

inductive XAct where
  | act (a : Act)                  -- a transition of the Ants LTS
  | get2 (t : Nat) (id : Nat)      -- client goroutine t: Get2/Get1/Err on task id (no event while blocked in Wait)
  | rawRead (t : Nat) (id : Nat)   -- (not in the code) read of result/err without Wait
  deriving Repr

def XAct.isRaw : XAct → Bool
  | .rawRead _ _ => true
  | _ => false

def xstep (c : Cfg) (s : State) : XAct → Option State
  | .act a => step c s a
  | .get2 _ _ => some s
  | .rawRead _ _ => some s

/-- events of an (enabled) LTS action of task k, `t` = the task record before the step -/
def tev (k : Nat) (t : Task) : Act → List DEv
  | .sendCl _ => [.rel dispT (clObj k t.cur)]
  | .wTake _ a _ => [.acq (innT a) (clObj k a)]
  | .wCas _ a =>
    if (t.at_ a).decided = 0 then [.acq (innT a) (decObj k a), .rel (innT a) (decObj k a)]
    else [.acq (innT a) (decObj k a)]
  | .decide _ =>
    if (t.at_ t.cur).decided = 0 then [.acq dispT (decObj k t.cur), .rel dispT (decObj k t.cur)]
    else [.acq dispT (decObj k t.cur)]
  | .wWrite _ a => [.wr (innT a)]
  | .writeDE _ => [.wr dispT]
  | .wClose _ a => [.rel (innT a) (doneObj k a)]
  | .selDone _ => [.acq dispT (doneObj k t.cur)]
  | .waitDone _ => [.acq dispT (doneObj k t.cur)]
  | .errTest _ => [.rd dispT]
  | .onError _ => if t.hasCb then [.rd dispT] else []
  | .wgDone _ => [.rel dispT (wgObj k)]
  | _ => []

/-- events on `result/err` of task k of the action `a` taken in state `s` -/
def evOf (k : Nat) (s : State) : XAct → List DEv
  | .act a => if a.task = k then tev k (s.task k) a else []
  | .get2 t id => if id = k ∧ (s.task k).pc = .done then [.acq (cliT t) (wgObj k), .rd (cliT t)] else []
  | .rawRead t id => if id = k then [.rd (cliT t)] else []

/-- the `result/err` trace of task k along the execution `acts` from `s` (up to the first disabled action) -/
def resultEvents (k : Nat) (c : Cfg) (s : State) : List XAct → List DEv
  | [] => []
  | a :: as =>
    match xstep c s a with
    | none => []
    | some s' => evOf k s a ++ resultEvents k c s' as

/-- the extended run (for the controls) -/
def xrun (c : Cfg) (s : State) : List XAct → Option State
  | [] => some s
  | a :: as => match xstep c s a with
    | none => none
    | some s' => xrun c s' as

end Got.Model.AntsEvents
