/-
MiniGoBytes — a deep embedding of the byte-stream fragment of Go that tools/srcfacts/minigo_codec.go translates
mechanically (go/ast + go/types → the constructors below), with an executable big-step interpreter.  It is the target
of the *translator tie* of the iox codec (C11, C12): `Got/Generated/AstIox.lean` is regenerated from /repo's source on
every run and the theorems of Got/Lemmas/CodecAst*.lean are proved about the interpretation of exactly those generated
terms, so they are re-checked against what the code says now.  (Independent of Got/Model/MiniGo.lean, the integer
fragment used by C14/C04.)

Fragment
* methods of one receiver family that share ONE stream object `{buffer []byte, position int}` (OctetsStream itself, and
  OctetsWriter/OctetsReader through their `stream` field); the interpreter state `St` is that record plus the ghost
  `alloc` = total number of bytes passed to `make`.
* values `Val`: Go `int` (positions, lengths, loop counters) held as the integer it denotes; `+`/`-` on `int` are exact
  integer operations, i.e. the interpretation is Go's as long as no intermediate `int` leaves the 64-bit range — true
  for positions and lengths of real slices (< 2^63; the same assumption the hand-written model makes by using `Nat`).
  (A wrap-around `% 2^64` here makes the Lean kernel evaluate 2^64-sized unary recursions on symbolic positions while
  checking proofs about `if`-conditions, so it is deliberately absent.)  Sized integers
  `bv w signed bits` (byte/uint8 = 8/unsigned, int16, int32, uint32, int64, …) with Go's meaning of every operator
  (conversion = sign- or zero-extension of the *source* then truncation; `>>` arithmetic on signed, logical on unsigned;
  signed/unsigned comparison), `bool`, `error` (nil or one of the four iox error constants), byte slices by value.
* expressions `Expr` (pure): typed constants, locals, `my.position`, `my.buffer`, `len(s)`, `s[i]`, `s[lo:]`, `s[:hi]`,
  `s[lo:hi]` (index / slice bounds out of range = the explicit outcome `panic`, never defaulted), conversions,
  `+ - | &`, `<<`/`>>` by a constant or a variable, `== != < <=`, `! && ||`.
* statements `Stmt`: `var x = e`, `x = e`, `my.position = e`, `my.buffer = e`, `my.buffer = append(my.buffer, e1,…,en)`,
  `my.buffer = append(my.buffer, s...)`, `x := make([]byte, n)`, `copy(x, s)`, `copy(my.buffer, s)`, calls
  `x1,…,xn = f(args)` of translated methods by name through a function table (a slice argument that is a plain
  variable receives the callee's final contents of the parameter: element writes through the shared backing array),
  `if`, three-clause `for` (init hoisted by the translator), `return e1,…,en`.
Anything else is refused by the translator (empty body + note), so the obligations fail rather than keep an old term.

`exec` is total: fuel bounds the number of statements executed at one nesting level; `none` = out of fuel or an
ill-typed / unbound term ("stuck", cannot arise from a term go/types accepted), `some .panic` = Go run-time panic.
-/
namespace Got.Model.MiniGoBytes

abbrev Byte := BitVec 8

/-- iox/errors.go -/
inductive Err where
  | NotEnoughData | Bad7BitInt | NegativeSize | InvalidArgument
  deriving DecidableEq, Repr

inductive Ty where
  | int                          -- Go `int`
  | bv (w : Nat) (sg : Bool)     -- sized integer type: width, signed
  deriving DecidableEq, Repr

inductive Val where
  | int (v : Int)
  | bv (w : Nat) (sg : Bool) (v : BitVec w)
  | bool (b : Bool)
  | err (e : Option Err)
  | bytes (l : List Byte)

inductive Expr where
  | lit (t : Ty) (n : Int)       -- integer constant of type `t` (go/types: untyped constants take the other operand's type)
  | blit (b : Bool)
  | nil                          -- `nil` of type error
  | errc (e : Err)               -- ErrNotEnoughData, …
  | nilBytes                     -- `nil` of a slice type / `""`
  | var (x : String)
  | pos                          -- `my.position`
  | buf                          -- `my.buffer`
  | len (s : Expr)
  | index (s i : Expr)
  | sliceFrom (s lo : Expr)      -- `s[lo:]`
  | sliceTo (s hi : Expr)        -- `s[:hi]`
  | slice (s lo hi : Expr)       -- `s[lo:hi]`
  | conv (t : Ty) (a : Expr)     -- `T(a)`
  | add (a b : Expr)
  | sub (a b : Expr)
  | or (a b : Expr)
  | and (a b : Expr)
  | shl (a k : Expr)
  | shr (a k : Expr)
  | eq (a b : Expr)
  | ne (a b : Expr)
  | lt (a b : Expr)
  | le (a b : Expr)
  | not (a : Expr)
  | lor (a b : Expr)             -- `||` (short-circuit)
  | land (a b : Expr)            -- `&&`

inductive Stmt where
  | decl (x : String) (e : Expr)
  | assign (x : String) (e : Expr)
  | setPos (e : Expr)
  | setBuf (e : Expr)
  | appendBuf (es : List Expr)
  | appendSlice (e : Expr)
  | make (x : String) (n : Expr)
  | copy (x : String) (src : Expr)
  | copyBuf (src : Expr)
  | call (xs : List String) (f : String) (args : List Expr)
  | ite (c : Expr) (t e : List Stmt)
  | loop (c : Expr) (post body : List Stmt)
  | ret (es : List Expr)

structure Fn where
  name : String
  params : List String
  body : List Stmt

/-- the stream object shared by the methods, and the ghost allocation counter -/
structure St where
  buffer : List Byte
  position : Int
  alloc : Nat

abbrev Env := List (String × Val)

/-- result of evaluating an expression -/
inductive EV (α : Type) where
  | val (v : α)
  | panic
  | stuck

@[inline] def EV.bind {α β : Type} (x : EV α) (f : α → EV β) : EV β :=
  match x with
  | .val v => f v
  | .panic => .panic
  | .stuck => .stuck

/-! ### operators on values (Go semantics) -/

/-- a value used as an index / shift count / size -/
def Val.toIdx : Val → Option Int
  | .int k => some k
  | .bv _ sg v => some (if sg then v.toInt else (v.toNat : Int))
  | _ => none

def Val.lit : Ty → Int → Val
  | .int, n => .int n
  | .bv w sg, n => .bv w sg (BitVec.ofInt w n)

/-- `T(a)`: the source is sign-extended when its type is signed, zero-extended otherwise, then truncated -/
def Val.conv : Ty → Val → EV Val
  | .int, .int k => .val (.int k)
  | .int, .bv w sg v => .val (.int (if sg || decide (64 ≤ w) then v.toInt else (v.toNat : Int)))
  | .bv w sg, .int k => .val (.bv w sg (BitVec.ofInt w k))
  | .bv w' sg', .bv w sg v => .val (.bv w' sg' (if sg && decide (w < w') then v.signExtend w' else v.setWidth w'))
  | _, _ => .stuck

def Val.add : Val → Val → EV Val
  | .int a, .int b => .val (.int (a + b))
  | .bv w s x, .bv w' s' y => if w = w' ∧ s = s' then .val (.bv w s (x + y.setWidth w)) else .stuck
  | _, _ => .stuck

def Val.sub : Val → Val → EV Val
  | .int a, .int b => .val (.int (a - b))
  | .bv w s x, .bv w' s' y => if w = w' ∧ s = s' then .val (.bv w s (x - y.setWidth w)) else .stuck
  | _, _ => .stuck

def Val.or : Val → Val → EV Val
  | .bv w s x, .bv w' s' y => if w = w' ∧ s = s' then .val (.bv w s (x ||| y.setWidth w)) else .stuck
  | _, _ => .stuck

def Val.and : Val → Val → EV Val
  | .bv w s x, .bv w' s' y => if w = w' ∧ s = s' then .val (.bv w s (x &&& y.setWidth w)) else .stuck
  | _, _ => .stuck

/-- `a << k`: a negative count panics; counts ≥ width give 0 (as `BitVec.shiftLeft` does) -/
def Val.shl (a k : Val) : EV Val :=
  match a, k.toIdx with
  | .bv w s x, some n => if n < 0 then .panic else .val (.bv w s (x <<< n.toNat))
  | _, _ => .stuck

/-- `a >> k`: arithmetic for a signed left operand, logical for an unsigned one -/
def Val.shr (a k : Val) : EV Val :=
  match a, k.toIdx with
  | .bv w s x, some n =>
    if n < 0 then .panic else .val (.bv w s (if s then x.sshiftRight n.toNat else x >>> n.toNat))
  | _, _ => .stuck

def Val.eq : Val → Val → EV Val
  | .int a, .int b => .val (.bool (decide (a = b)))
  | .bv w s x, .bv w' s' y => if w = w' ∧ s = s' then .val (.bool (decide (x = y.setWidth w))) else .stuck
  | .bool a, .bool b => .val (.bool (a == b))
  | .err a, .err b => .val (.bool (decide (a = b)))
  | _, _ => .stuck

def Val.lt : Val → Val → EV Val
  | .int a, .int b => .val (.bool (decide (a < b)))
  | .bv w s x, .bv w' s' y =>
    if w = w' ∧ s = s' then .val (.bool (if s then x.slt (y.setWidth w) else decide (x < y.setWidth w))) else .stuck
  | _, _ => .stuck

def Val.le : Val → Val → EV Val
  | .int a, .int b => .val (.bool (decide (a ≤ b)))
  | .bv w s x, .bv w' s' y =>
    if w = w' ∧ s = s' then .val (.bool (if s then x.sle (y.setWidth w) else decide (x ≤ y.setWidth w))) else .stuck
  | _, _ => .stuck

def Val.neg : Val → EV Val
  | .bool b => .val (.bool (!b))
  | _ => .stuck

def Val.len : Val → EV Val
  | .bytes l => .val (.int (l.length : Int))
  | _ => .stuck

/-- `s[i]`: out of range = panic -/
def Val.index (s i : Val) : EV Val :=
  match s, i.toIdx with
  | .bytes l, some k =>
    if k < 0 then .panic else
    match l[k.toNat]? with
    | some b => .val (.bv 8 false b)
    | none => .panic
  | _, _ => .stuck

/-- `s[lo:hi]` with `0 ≤ lo ≤ hi ≤ len(s)`; a bound outside that = panic.  (Go allows `hi` up to `cap(s)`; a slice
    value here has no capacity beyond its length, which is exact for the results of `s[lo:]` and sound for the code
    translated: bytes beyond `len` are never exposed.) -/
def sliceList (l : List Byte) (lo hi : Int) : EV Val :=
  if lo < 0 ∨ hi < lo ∨ (l.length : Int) < hi then .panic
  else .val (.bytes ((l.take hi.toNat).drop lo.toNat))

def Val.sliceFrom (s lo : Val) : EV Val :=
  match s, lo.toIdx with
  | .bytes l, some k => if k < 0 ∨ (l.length : Int) < k then .panic else .val (.bytes (l.drop k.toNat))
  | _, _ => .stuck

def Val.sliceTo (s hi : Val) : EV Val :=
  match s, hi.toIdx with
  | .bytes l, some k => sliceList l 0 k
  | _, _ => .stuck

def Val.slice (s lo hi : Val) : EV Val :=
  match s, lo.toIdx, hi.toIdx with
  | .bytes l, some a, some b => sliceList l a b
  | _, _, _ => .stuck

/-! ### expressions -/

def eval (st : St) (env : Env) : Expr → EV Val
  | .lit t n => .val (Val.lit t n)
  | .blit b => .val (.bool b)
  | .nil => .val (.err none)
  | .errc e => .val (.err (some e))
  | .nilBytes => .val (.bytes [])
  | .var x =>
    match env.lookup x with
    | some v => .val v
    | none => .stuck
  | .pos => .val (.int st.position)
  | .buf => .val (.bytes st.buffer)
  | .len s => (eval st env s).bind Val.len
  | .index s i => (eval st env s).bind fun a => (eval st env i).bind fun b => Val.index a b
  | .sliceFrom s lo => (eval st env s).bind fun a => (eval st env lo).bind fun b => Val.sliceFrom a b
  | .sliceTo s hi => (eval st env s).bind fun a => (eval st env hi).bind fun b => Val.sliceTo a b
  | .slice s lo hi =>
    (eval st env s).bind fun a => (eval st env lo).bind fun b => (eval st env hi).bind fun c => Val.slice a b c
  | .conv t a => (eval st env a).bind (Val.conv t)
  | .add a b => (eval st env a).bind fun v => (eval st env b).bind fun w => Val.add v w
  | .sub a b => (eval st env a).bind fun v => (eval st env b).bind fun w => Val.sub v w
  | .or a b => (eval st env a).bind fun v => (eval st env b).bind fun w => Val.or v w
  | .and a b => (eval st env a).bind fun v => (eval st env b).bind fun w => Val.and v w
  | .shl a k => (eval st env a).bind fun v => (eval st env k).bind fun w => Val.shl v w
  | .shr a k => (eval st env a).bind fun v => (eval st env k).bind fun w => Val.shr v w
  | .eq a b => (eval st env a).bind fun v => (eval st env b).bind fun w => Val.eq v w
  | .ne a b => (eval st env a).bind fun v => (eval st env b).bind fun w => (Val.eq v w).bind Val.neg
  | .lt a b => (eval st env a).bind fun v => (eval st env b).bind fun w => Val.lt v w
  | .le a b => (eval st env a).bind fun v => (eval st env b).bind fun w => Val.le v w
  | .not a => (eval st env a).bind Val.neg
  | .lor a b =>
    (eval st env a).bind fun v =>
      match v with
      | .bool true => .val (.bool true)
      | .bool false => (eval st env b).bind fun w => match w with
        | .bool c => .val (.bool c)
        | _ => .stuck
      | _ => .stuck
  | .land a b =>
    (eval st env a).bind fun v =>
      match v with
      | .bool false => .val (.bool false)
      | .bool true => (eval st env b).bind fun w => match w with
        | .bool c => .val (.bool c)
        | _ => .stuck
      | _ => .stuck

def evalList (st : St) (env : Env) : List Expr → EV (List Val)
  | [] => .val []
  | e :: es => (eval st env e).bind fun v => (evalList st env es).bind fun vs => .val (v :: vs)

/-- the bytes of `append(buffer, e1, …, en)`: every `ei` must be a byte -/
def bytesOf : List Val → Option (List Byte)
  | [] => some []
  | .bv w sg b :: vs => if w = 8 ∧ sg = false then (bytesOf vs).map (b.setWidth 8 :: ·) else none
  | _ => none

/-! ### statements -/

inductive Res where
  | ret (vs : List Val) (outs : List (Option (List Byte))) (st : St)
  | cont (env : Env) (st : St)      -- fell through the end of the block
  | panic

/-- `copy(dst, src)`: the first `min(len dst, len src)` elements of `dst` are overwritten -/
def copyInto (dst src : List Byte) : List Byte :=
  src.take dst.length ++ dst.drop src.length

/-- bind the results of a call to the left-hand sides -/
def bindRes (xs : List String) (rs : List Val) (env : Env) : Option Env :=
  if xs.length = rs.length then some (xs.zip rs ++ env) else none

/-- final contents of the slice-typed parameters `ps` of a method (`none` for a parameter of another type) -/
def outsOf (env : Env) : List String → List (Option (List Byte))
  | [] => []
  | p :: ps =>
    (match env.lookup p with
     | some (.bytes l) => some l
     | _ => none) :: outsOf env ps

/-- a slice argument that is a plain variable sees the element writes the callee made through its parameter -/
def writeBack : List (Option (List Byte)) → List Expr → Env → Env
  | some l :: os, .var y :: as, env => writeBack os as ((y, .bytes l) :: env)
  | _ :: os, _ :: as, env => writeBack os as env
  | _, _, env => env

/-- `ps` = the parameters of the method whose body is being executed -/
def exec (tbl : String → Option Fn) (ps : List String) : Nat → List Stmt → Env → St → Option Res
  | 0, _, _, _ => none
  | _ + 1, [], env, st => some (.cont env st)
  | f + 1, .decl x e :: rest, env, st =>
    match eval st env e with
    | .val v => exec tbl ps f rest ((x, v) :: env) st
    | .panic => some .panic
    | .stuck => none
  | f + 1, .assign x e :: rest, env, st =>
    match eval st env e with
    | .val v => exec tbl ps f rest ((x, v) :: env) st
    | .panic => some .panic
    | .stuck => none
  | f + 1, .setPos e :: rest, env, st =>
    match eval st env e with
    | .val (.int k) => exec tbl ps f rest env { st with position := k }
    | .panic => some .panic
    | _ => none
  | f + 1, .setBuf e :: rest, env, st =>
    match eval st env e with
    | .val (.bytes l) => exec tbl ps f rest env { st with buffer := l }
    | .panic => some .panic
    | _ => none
  | f + 1, .appendBuf es :: rest, env, st =>
    match evalList st env es with
    | .val vs =>
      match bytesOf vs with
      | some bs => exec tbl ps f rest env { st with buffer := st.buffer ++ bs }
      | none => none
    | .panic => some .panic
    | .stuck => none
  | f + 1, .appendSlice e :: rest, env, st =>
    match eval st env e with
    | .val (.bytes l) => exec tbl ps f rest env { st with buffer := st.buffer ++ l }
    | .panic => some .panic
    | _ => none
  | f + 1, .make x n :: rest, env, st =>
    match eval st env n with
    | .val v =>
      match v.toIdx with
      | some k =>
        if k < 0 then some .panic
        else exec tbl ps f rest ((x, .bytes (List.replicate k.toNat 0)) :: env) { st with alloc := st.alloc + k.toNat }
      | none => none
    | .panic => some .panic
    | .stuck => none
  | f + 1, .copy x src :: rest, env, st =>
    match env.lookup x, eval st env src with
    | some (.bytes d), .val (.bytes s) => exec tbl ps f rest ((x, .bytes (copyInto d s)) :: env) st
    | _, .panic => some .panic
    | _, _ => none
  | f + 1, .copyBuf src :: rest, env, st =>
    match eval st env src with
    | .val (.bytes s) => exec tbl ps f rest env { st with buffer := copyInto st.buffer s }
    | .panic => some .panic
    | _ => none
  | f + 1, .call xs g args :: rest, env, st =>
    match evalList st env args with
    | .val vs =>
      match tbl g with
      | none => none
      | some fn =>
        if fn.params.length ≠ vs.length then none else
        match exec tbl fn.params f fn.body (fn.params.zip vs) st with
        | some (.ret rs outs st') =>
          match bindRes xs rs env with
          | some env' => exec tbl ps f rest (writeBack outs args env') st'
          | none => none
        | some (.cont cenv st') =>
          match bindRes xs [] env with
          | some env' => exec tbl ps f rest (writeBack (outsOf cenv fn.params) args env') st'
          | none => none
        | some .panic => some .panic
        | none => none
    | .panic => some .panic
    | .stuck => none
  | f + 1, .ite c t e :: rest, env, st =>
    match eval st env c with
    | .val (.bool b) =>
      match exec tbl ps f (if b then t else e) env st with
      | some (.cont env' st') => exec tbl ps f rest env' st'
      | r => r
    | .panic => some .panic
    | _ => none
  | f + 1, .loop c post body :: rest, env, st =>
    match eval st env c with
    | .val (.bool false) => exec tbl ps f rest env st
    | .val (.bool true) =>
      match exec tbl ps f body env st with
      | some (.cont env' st') =>
        match exec tbl ps f post env' st' with
        | some (.cont env'' st'') => exec tbl ps f (.loop c post body :: rest) env'' st''
        | r => r
      | r => r
    | .panic => some .panic
    | _ => none
  | _ + 1, .ret es :: _, env, st =>
    match evalList st env es with
    | .val vs => some (.ret vs (outsOf env ps) st)
    | .panic => some .panic
    | .stuck => none

/-- outcome of one method call as seen by the caller: results, final contents of the slice parameters, stream -/
inductive Out where
  | ret (vs : List Val) (outs : List (Option (List Byte))) (st : St)
  | panic

/-- run the translated method `name` of the table on the stream `st` (exactly what a `call` statement does) -/
def run (tbl : String → Option Fn) (name : String) (fuel : Nat) (args : List Val) (st : St) : Option Out :=
  match tbl name with
  | none => none
  | some fn =>
    if fn.params.length ≠ args.length then none else
    match exec tbl fn.params fuel fn.body (fn.params.zip args) st with
    | some (.ret vs outs st') => some (.ret vs outs st')
    | some (.cont env st') => some (.ret [] (outsOf env fn.params) st')
    | some .panic => some .panic
    | none => none

/-- a `call` statement is `run` of the callee followed by binding the results -/
theorem exec_call (tbl : String → Option Fn) (ps : List String) (f : Nat) (xs : List String) (g : String)
    (args : List Expr) (rest : List Stmt) (env : Env) (st : St) (vs : List Val)
    (h : evalList st env args = .val vs) :
    exec tbl ps (f + 1) (.call xs g args :: rest) env st =
      match run tbl g f vs st with
      | some (.ret rs outs st') =>
        (match bindRes xs rs env with
         | some env' => exec tbl ps f rest (writeBack outs args env') st'
         | none => none)
      | some .panic => some .panic
      | none => none := by
  simp only [exec, run, h]
  cases tbl g with
  | none => rfl
  | some fn =>
    show (if fn.params.length ≠ vs.length then _ else _) = (match (if fn.params.length ≠ vs.length then _ else _) with
      | some (Out.ret rs outs st') => _ | some Out.panic => _ | none => _)
    by_cases hl : fn.params.length ≠ vs.length
    · rw [if_pos hl, if_pos hl]
    · rw [if_neg hl, if_neg hl]
      cases exec tbl fn.params f fn.body (fn.params.zip vs) st with
      | none => rfl
      | some r => cases r <;> rfl

/-! ### one-step unfolding lemmas of `exec`

Proofs about concrete generated terms rewrite with these (not with the equation compiler's definitional unfolding): each
is an ordinary theorem, so the kernel only has to match its statement and never has to evaluate `exec`/`eval`/`wrap` on
symbolic arguments. -/
section steps
variable (tbl : String → Option Fn) (ps : List String) (f : Nat) (rest : List Stmt) (env : Env) (st : St)

theorem exec_nil : exec tbl ps (f + 1) [] env st = some (.cont env st) := by rw [exec]

theorem exec_decl (x : String) (e : Expr) :
    exec tbl ps (f + 1) (.decl x e :: rest) env st =
      match eval st env e with
      | .val v => exec tbl ps f rest ((x, v) :: env) st
      | .panic => some .panic
      | .stuck => none := by rw [exec]

theorem exec_assign (x : String) (e : Expr) :
    exec tbl ps (f + 1) (.assign x e :: rest) env st =
      match eval st env e with
      | .val v => exec tbl ps f rest ((x, v) :: env) st
      | .panic => some .panic
      | .stuck => none := by rw [exec]

theorem exec_setPos (e : Expr) :
    exec tbl ps (f + 1) (.setPos e :: rest) env st =
      match eval st env e with
      | .val (.int k) => exec tbl ps f rest env { st with position := k }
      | .panic => some .panic
      | _ => none := by rw [exec]

theorem exec_setBuf (e : Expr) :
    exec tbl ps (f + 1) (.setBuf e :: rest) env st =
      match eval st env e with
      | .val (.bytes l) => exec tbl ps f rest env { st with buffer := l }
      | .panic => some .panic
      | _ => none := by rw [exec]

theorem exec_appendBuf (es : List Expr) :
    exec tbl ps (f + 1) (.appendBuf es :: rest) env st =
      match evalList st env es with
      | .val vs =>
        (match bytesOf vs with
         | some bs => exec tbl ps f rest env { st with buffer := st.buffer ++ bs }
         | none => none)
      | .panic => some .panic
      | .stuck => none := by rw [exec]

theorem exec_appendSlice (e : Expr) :
    exec tbl ps (f + 1) (.appendSlice e :: rest) env st =
      match eval st env e with
      | .val (.bytes l) => exec tbl ps f rest env { st with buffer := st.buffer ++ l }
      | .panic => some .panic
      | _ => none := by rw [exec]

theorem exec_make (x : String) (n : Expr) :
    exec tbl ps (f + 1) (.make x n :: rest) env st =
      match eval st env n with
      | .val v =>
        (match v.toIdx with
         | some k =>
           if k < 0 then some .panic
           else exec tbl ps f rest ((x, .bytes (List.replicate k.toNat 0)) :: env) { st with alloc := st.alloc + k.toNat }
         | none => none)
      | .panic => some .panic
      | .stuck => none := by rw [exec]

theorem exec_copy (x : String) (src : Expr) :
    exec tbl ps (f + 1) (.copy x src :: rest) env st =
      match env.lookup x, eval st env src with
      | some (.bytes d), .val (.bytes s) => exec tbl ps f rest ((x, .bytes (copyInto d s)) :: env) st
      | _, .panic => some .panic
      | _, _ => none := by rw [exec]

theorem exec_copyBuf (src : Expr) :
    exec tbl ps (f + 1) (.copyBuf src :: rest) env st =
      match eval st env src with
      | .val (.bytes s) => exec tbl ps f rest env { st with buffer := copyInto st.buffer s }
      | .panic => some .panic
      | _ => none := by rw [exec]

theorem exec_ite (c : Expr) (t e : List Stmt) :
    exec tbl ps (f + 1) (.ite c t e :: rest) env st =
      match eval st env c with
      | .val (.bool b) =>
        (match exec tbl ps f (if b then t else e) env st with
         | some (.cont env' st') => exec tbl ps f rest env' st'
         | r => r)
      | .panic => some .panic
      | _ => none := by rw [exec]

theorem exec_loop (c : Expr) (post body : List Stmt) :
    exec tbl ps (f + 1) (.loop c post body :: rest) env st =
      match eval st env c with
      | .val (.bool false) => exec tbl ps f rest env st
      | .val (.bool true) =>
        (match exec tbl ps f body env st with
         | some (.cont env' st') =>
           (match exec tbl ps f post env' st' with
            | some (.cont env'' st'') => exec tbl ps f (.loop c post body :: rest) env'' st''
            | r => r)
         | r => r)
      | .panic => some .panic
      | _ => none := by rw [exec]

/-- the same with the loop statement kept folded (`L` is a named definition in the proofs) -/
theorem exec_loop' (L : Stmt) (c : Expr) (post body : List Stmt) (hL : L = .loop c post body) :
    exec tbl ps (f + 1) (L :: rest) env st =
      match eval st env c with
      | .val (.bool false) => exec tbl ps f rest env st
      | .val (.bool true) =>
        (match exec tbl ps f body env st with
         | some (.cont env' st') =>
           (match exec tbl ps f post env' st' with
            | some (.cont env'' st'') => exec tbl ps f (L :: rest) env'' st''
            | r => r)
         | r => r)
      | .panic => some .panic
      | _ => none := by subst hL; rw [exec]

theorem exec_ret (es : List Expr) :
    exec tbl ps (f + 1) (.ret es :: rest) env st =
      match evalList st env es with
      | .val vs => some (.ret vs (outsOf env ps) st)
      | .panic => some .panic
      | .stuck => none := by rw [exec]

end steps

/-- what `run` makes of the result of executing the body -/
def finish (ps : List String) : Option Res → Option Out
  | some (.ret vs outs st') => some (.ret vs outs st')
  | some (.cont env st') => some (.ret [] (outsOf env ps) st')
  | some .panic => some .panic
  | none => none

theorem run_eq {tbl : String → Option Fn} {name : String} {fn : Fn} (h : tbl name = some fn) (fuel : Nat)
    (args : List Val) (st : St) (hl : fn.params.length = args.length) :
    run tbl name fuel args st = finish fn.params (exec tbl fn.params fuel fn.body (fn.params.zip args) st) := by
  unfold run
  rw [h]
  show (if fn.params.length ≠ args.length then _ else _) = _
  rw [if_neg (by simp [hl])]
  unfold finish
  rfl

end Got.Model.MiniGoBytes
