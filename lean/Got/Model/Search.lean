/-
Model of sortx.Search (sortx/search.go).

Go code:
    if count <= 0 { return -1 }
    var i = -1 ; var j = count
    for i+1 != j {
        var mid = int(uint(i+j) >> 1)
        if less(mid) { i = mid } else { j = mid }
    }
    if j == count || !equal(j) { return ^j }
    return j

The model works on `Int`; `Got.Lemmas.Search.mid_bitvec` relates the Go expression
`int(uint(i+j)>>1)` on 64-bit words to `(i+j)/2`.  Every predicate call is logged
(`Probe.less k` / `Probe.equal k`) so that the correspondence check can compare the
probe sequence of the real code with the model's and the theorems can talk about
which indices are evaluated.
-/
namespace Got.Model.Search

inductive Probe where
  | less (k : Int)
  | equal (k : Int)
  deriving Repr, DecidableEq

/-- outcome of the loop: final `j` and the probe log, or `none` if the Go loop would not
    terminate (`i+1 != j` with `i ≥ j`; shown unreachable from the initial state). -/
def loop (less : Int → Bool) (i j : Int) (log : List Probe) : Option (Int × List Probe) :=
  if i + 1 = j then some (j, log)
  else if h : i + 1 < j then
    let mid := (i + j) / 2
    if less mid then loop less mid j (log ++ [Probe.less mid])
    else loop less i mid (log ++ [Probe.less mid])
  else none
termination_by (j - i).toNat
decreasing_by all_goals omega

/-- `^j` on Go ints (two's complement): `-j - 1`. -/
def compl (j : Int) : Int := -j - 1

/-- sortx.Search; result and probe log. `none` = non-termination (unreachable). -/
def search (count : Int) (less equal : Int → Bool) : Option (Int × List Probe) :=
  if count ≤ 0 then some (-1, [])
  else
    match loop less (-1) count [] with
    | none => none
    | some (j, log) =>
      if j = count then some (compl j, log)
      else if !equal j then some (compl j, log ++ [Probe.equal j])
      else some (j, log ++ [Probe.equal j])

end Got.Model.Search
