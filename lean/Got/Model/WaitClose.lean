import Got.Generated.Facts
/-
Model of loom.WaitClose (loom/wait_close.go), property C16.  Core Lean only.

    func (wc *WaitClose) C() chan struct{} {
        if wcNew == atomic.LoadInt32(&wc.state) { wc.checkInitSlow() }        -- load0 ; iLock..iUnlock
        return wc.closeChan }                                                  -- cRead
    func (wc *WaitClose) WaitUtil(timeout) bool {
        if wcNew == atomic.LoadInt32(&wc.state) { wc.checkInitSlow() }        -- load0 ; iLock..iUnlock
        timer := time.NewTimer(timeout)                                        -- wTimer (also evaluates wc.closeChan)
        select { case <-wc.closeChan: return true ; case <-timer.C: return false } }   -- wSel
    func (wc *WaitClose) Close(callback) error {
        if wcClosed != atomic.LoadInt32(&wc.state) {                           -- clLoad
            wc.mutex.Lock()                                                    -- clLock
            defer func() { wc.mutex.Unlock(); recover() }()                    -- clUnlock  (runs last)
            if wcClosed != wc.state {                                          -- clCheck
                if wcInitialized == wc.state { close(wc.closeChan) } else { wc.closeChan = globalClosedChan }  -- clClose
                defer atomic.StoreInt32(&wc.state, wcClosed)                   -- clStore   (runs before the Unlock)
                if callback != nil { return callback() } } }                   -- clCbStart ; clCbRun (environment)
        return nil }                                                           -- clRet
    func (wc *WaitClose) IsClosed() bool { return atomic.LoadInt32(&wc.state) == wcClosed }     -- isc
    func (wc *WaitClose) checkInitSlow() {
        wc.mutex.Lock()                                                        -- iLock
        if wcNew == wc.state {                                                 -- iCheck
            wc.closeChan = make(chan struct{})                                 -- iMake
            atomic.StoreInt32(&wc.state, wcInitialized) }                      -- iStore
        wc.mutex.Unlock() }                                                    -- iUnlock

Labelled transition system: `pc : Nat → Pc` (any number of goroutines), one `step t` = one shared access.
`invoke`, the end of a callback (`cbEnd`, with its result) and the passage of time (`tick`) are environment
actions.  Time may pass at any moment except that a goroutine whose `select` is ready does not sleep through
it (`tick` is refused while a waiting WaitUtil sees its channel closed, and never jumps over a timer of a
waiting WaitUtil).  An action that is not enabled leaves the state unchanged.
-/
namespace Got.Model.WaitClose

def upd {α : Type} (f : Nat → α) (t : Nat) (v : α) : Nat → α := fun u => if u = t then v else f u

def wcNew : Int := Got.Facts.loom_wcNew
def wcInitialized : Int := Got.Facts.loom_wcInitialized
def wcClosed : Int := Got.Facts.loom_wcClosed

/-- channel id of `globalClosedChan` (closed by the package's init()) -/
def globalChan : Nat := 0

inductive CbRes where
  | ok | err | panic
  deriving DecidableEq, Repr

inductive Call where
  | c
  | waitUtil (timeout : Int)
  | isClosed
  | close (hasCallback : Bool)
  deriving DecidableEq, Repr

/-- what follows checkInitSlow -/
inductive Cont where
  | c
  | wu (timeout : Int)
  deriving DecidableEq, Repr

inductive Pc where
  | idle
  | load0 (k : Cont)
  | iLock (k : Cont)
  | iCheck (k : Cont)
  | iMake (k : Cont)
  | iStore (k : Cont)
  | iUnlock (k : Cont)
  | cRead
  | wTimer (timeout : Int)
  | wSel (ch : Option Nat) (start : Nat) (timeout : Int)
  | isc
  | clLoad (cb : Bool)
  | clLock (cb : Bool)
  | clCheck (cb : Bool)
  | clClose (cb : Bool)
  | clCbStart
  | clCbRun
  | clStore (r : Option CbRes)
  | clUnlock (r : Option CbRes)
  | clRet (r : Option CbRes)
  deriving DecidableEq, Repr

def Cont.after : Cont → Pc
  | .c => .cRead
  | .wu T => .wTimer T

/-- pcs at which the goroutine holds wc.mutex -/
def Pc.holds : Pc → Bool
  | .iCheck _ | .iMake _ | .iStore _ | .iUnlock _ => true
  | .clCheck _ | .clClose _ | .clCbStart | .clCbRun | .clStore _ | .clUnlock _ => true
  | _ => false

inductive Ev where
  | closeDo (t : Nat) (ch : Nat) (now : Nat)            -- the close / assignment; `ch` is closed from now on
  | cbStart (t : Nat) (now : Nat)
  | cbEnd (t : Nat) (r : CbRes) (now : Nat)
  | closeRet (t : Nat) (r : Option CbRes) (now : Nat)   -- Close returns (none: this call ran no callback)
  | cRet (t : Nat) (ch : Option Nat) (now : Nat)        -- C returns (none = nil channel)
  | wuRet (t : Nat) (b : Bool) (ch : Option Nat) (start : Nat) (timeout : Int) (now : Nat)
  | iscRet (t : Nat) (b : Bool) (now : Nat)
  deriving DecidableEq, Repr

structure St where
  now : Nat
  state : Int
  closeChan : Option Nat      -- none = nil
  closed : List Nat           -- ids of the closed channels
  nchan : Nat                 -- channels created by make(): ids 1..nchan
  mu : Option Nat             -- holder of wc.mutex
  pc : Nat → Pc
  sel : List Nat              -- goroutines waiting in WaitUtil's select
  fault : Bool                -- a run-time panic of the Go code itself: close of a nil / closed channel
  log : List Ev               -- ghost: events, oldest first
  closeTime : Option Nat      -- ghost: instant of the close / assignment

inductive Act where
  | invoke (t : Nat) (call : Call)
  | step (t : Nat)
  | cbEnd (t : Nat) (r : CbRes)      -- the callback of t returns / panics
  | timeout (t : Nat)                -- WaitUtil's timer branch
  | tick (d : Nat)                   -- time passes
  deriving Repr

def init : St :=
  { now := 0, state := wcNew, closeChan := none, closed := [globalChan], nchan := 0, mu := none,
    pc := fun _ => .idle, sel := [], fault := false, log := [], closeTime := none }

def chanClosed (s : St) : Option Nat → Bool
  | some c => s.closed.contains c
  | none => false

/-- may time advance by d without sleeping through a ready select? -/
def tickOk (s : St) (d : Nat) : Bool :=
  s.sel.all fun t =>
    match s.pc t with
    | .wSel ch start T => !chanClosed s ch && decide ((s.now : Int) + d ≤ start + T)
    | _ => true

def stepT (s : St) (t : Nat) : St :=
  match s.pc t with
  | .idle => s
  | .load0 k =>
    if s.state = wcNew then { s with pc := upd s.pc t (.iLock k) } else { s with pc := upd s.pc t k.after }
  | .iLock k =>
    match s.mu with
    | none => { s with mu := some t, pc := upd s.pc t (.iCheck k) }
    | some _ => s
  | .iCheck k =>
    if s.state = wcNew then { s with pc := upd s.pc t (.iMake k) } else { s with pc := upd s.pc t (.iUnlock k) }
  | .iMake k =>
    { s with nchan := s.nchan + 1, closeChan := some (s.nchan + 1), pc := upd s.pc t (.iStore k) }
  | .iStore k => { s with state := wcInitialized, pc := upd s.pc t (.iUnlock k) }
  | .iUnlock k => { s with mu := none, pc := upd s.pc t k.after }
  | .cRead => { s with log := s.log ++ [.cRet t s.closeChan s.now], pc := upd s.pc t .idle }
  | .wTimer T => { s with pc := upd s.pc t (.wSel s.closeChan s.now T), sel := t :: s.sel }
  | .wSel ch start T =>
    if chanClosed s ch then
      { s with log := s.log ++ [.wuRet t true ch start T s.now], pc := upd s.pc t .idle, sel := s.sel.erase t }
    else s
  | .isc => { s with log := s.log ++ [.iscRet t (decide (s.state = wcClosed)) s.now], pc := upd s.pc t .idle }
  | .clLoad cb =>
    if s.state ≠ wcClosed then { s with pc := upd s.pc t (.clLock cb) } else { s with pc := upd s.pc t (.clRet none) }
  | .clLock cb =>
    match s.mu with
    | none => { s with mu := some t, pc := upd s.pc t (.clCheck cb) }
    | some _ => s
  | .clCheck cb =>
    if s.state ≠ wcClosed then { s with pc := upd s.pc t (.clClose cb) }
    else { s with pc := upd s.pc t (.clUnlock none) }
  | .clClose cb =>
    let next : Pc := if cb then .clCbStart else .clStore none
    if s.state = wcInitialized then
      match s.closeChan with
      | some c =>
        if s.closed.contains c then { s with fault := true, pc := upd s.pc t (.clUnlock none) }   -- close of closed channel
        else { s with closed := c :: s.closed, log := s.log ++ [.closeDo t c s.now],
                      closeTime := some s.now, pc := upd s.pc t next }
      | none => { s with fault := true, pc := upd s.pc t (.clUnlock none) }                       -- close of nil channel
    else
      { s with closeChan := some globalChan, log := s.log ++ [.closeDo t globalChan s.now],
               closeTime := some s.now, pc := upd s.pc t next }
  | .clCbStart => { s with log := s.log ++ [.cbStart t s.now], pc := upd s.pc t .clCbRun }
  | .clCbRun => s
  | .clStore r => { s with state := wcClosed, pc := upd s.pc t (.clUnlock r) }
  | .clUnlock r => { s with mu := none, pc := upd s.pc t (.clRet r) }
  | .clRet r => { s with log := s.log ++ [.closeRet t r s.now], pc := upd s.pc t .idle }

def step (s : St) : Act → St
  | .invoke t call =>
    match s.pc t with
    | .idle =>
      match call with
      | .c => { s with pc := upd s.pc t (.load0 .c) }
      | .waitUtil T => { s with pc := upd s.pc t (.load0 (.wu T)) }
      | .isClosed => { s with pc := upd s.pc t .isc }
      | .close cb => { s with pc := upd s.pc t (.clLoad cb) }
    | _ => s
  | .step t => stepT s t
  | .cbEnd t r =>
    match s.pc t with
    | .clCbRun => { s with log := s.log ++ [.cbEnd t r s.now], pc := upd s.pc t (.clStore (some r)) }
    | _ => s
  | .timeout t =>
    match s.pc t with
    | .wSel ch start T =>
      if (start : Int) + T ≤ s.now then
        { s with log := s.log ++ [.wuRet t false ch start T s.now], pc := upd s.pc t .idle, sel := s.sel.erase t }
      else s
    | _ => s
  | .tick d => if tickOk s d then { s with now := s.now + d } else s

def run (s : St) (acts : List Act) : St := acts.foldl step s

end Got.Model.WaitClose
