import Got.Model.GoHeap
/-
Model of randx.WeightedSampling (randx/sample.go), CURRENT code (after `fix:` ed1146e: the heap
starts empty; key = log(w) − log(−log(u))).

The float computation is outside the model: the keys `ki` (one per index, in loop order) are INPUTS,
of an arbitrary type `κ`, and so are the two comparisons the code performs on them:
  `less a b`  =  `a < b`   (sampleHeap.Less, used by container/heap)
  `gt a b`    =  `a > b`   (the replacement test `ki > h.Get(0).ki`)
Nothing is assumed about them in the model (ties, ±Inf, NaN-like incomparable values are all
covered by "arbitrary Bool-valued relations").  For IEEE floats `gt a b = less b a`.
-/
namespace Got.Model.Sample
open Got.Model

structure Item (κ : Type) where
  ki : κ
  index : Nat
  deriving Repr

inductive Panic where
  | invalidInputs   -- the explicit panic: totalNum < sampleNum || totalNum <= 0
  | makeCap         -- make(sampleHeap, 0, sampleNum) with sampleNum < 0
  | indexRange      -- h.Get(i) out of range (only reachable with sampleNum = 0)
  deriving DecidableEq, Repr

/-- what a call produces: the index slice, or a panic -/
inductive Result where
  | ok (indices : List Nat)
  | error (p : Panic)
  deriving DecidableEq, Repr

variable {κ : Type}

/-- sampleHeap.Less -/
def itemLess (less : κ → κ → Bool) (a b : Item κ) : Bool := less a.ki b.ki

/-- one iteration of the loop, for index `i` with key `ki`; `none` = index-out-of-range panic:
      if h.Len() < sampleNum { heap.Push(&h, item) }
      else if ki > h.Get(0).ki { heap.Push(&h, item); if h.Len() > sampleNum { heap.Pop(&h) } }   -/
def step (less gt : κ → κ → Bool) (m : Nat) (h : Array (Item κ)) (i : Nat) (ki : κ) : Option (Array (Item κ)) :=
  if h.size < m then some (GoHeap.push (itemLess less) h ⟨ki, i⟩)
  else
    match h[0]? with
    | none => none
    | some top =>
      if gt ki top.ki then
        let h1 := GoHeap.push (itemLess less) h ⟨ki, i⟩
        if h1.size > m then (GoHeap.pop (itemLess less) h1).map (·.2) else some h1
      else some h

/-- the loop `for i := 0; i < totalNum; i++` from index `i` on -/
def loop (less gt : κ → κ → Bool) (m : Nat) : Array (Item κ) → Nat → List κ → Option (Array (Item κ))
  | h, _, [] => some h
  | h, i, k :: ks =>
    match step less gt m h i k with
    | none => none
    | some h1 => loop less gt m h1 (i + 1) ks

/-- `results[i] = h.Get(i).index` for `i < sampleNum` -/
def readResults (m : Nat) (h : Array (Item κ)) : Result :=
  if h.size < m then .error .indexRange else .ok ((h.toList.take m).map (·.index))

/-- WeightedSampling(sampleNum, totalNum, getWeight) where `keys` lists the `totalNum` keys computed
    in the loop (so `totalNum = keys.length`; a non-positive totalNum is the empty list). -/
def weightedSampling (less gt : κ → κ → Bool) (sampleNum : Int) (keys : List κ) : Result :=
  if (keys.length : Int) < sampleNum ∨ keys.length = 0 then .error .invalidInputs
  else if sampleNum < 0 then .error .makeCap
  else
    match loop less gt sampleNum.toNat #[] 0 keys with
    | none => .error .indexRange
    | some h => readResults sampleNum.toNat h

/-- OLD code (before ed1146e): `h := make(sampleHeap, sampleNum)` — the heap starts with
    `sampleNum` zero items `{ki: 0, index: 0}`. `zero` is the key 0.0. -/
def weightedSamplingOld (less gt : κ → κ → Bool) (zero : κ) (sampleNum : Int) (keys : List κ) : Result :=
  if (keys.length : Int) < sampleNum ∨ keys.length = 0 then .error .invalidInputs
  else if sampleNum < 0 then .error .makeCap
  else
    match loop less gt sampleNum.toNat (Array.replicate sampleNum.toNat ⟨zero, 0⟩) 0 keys with
    | none => .error .indexRange
    | some h => readResults sampleNum.toNat h

/-! ### the key type used by the driver: order ranks, with an incomparable value -/

/-- `some r` = a float whose order rank is `r` (equal ranks = equal floats, −Inf/+Inf are just the
    smallest/largest rank); `none` = NaN (every comparison false). -/
abbrev RankKey := Option Int

def rankLess : RankKey → RankKey → Bool
  | some a, some b => decide (a < b)
  | _, _ => false

def rankGt (a b : RankKey) : Bool := rankLess b a

end Got.Model.Sample
