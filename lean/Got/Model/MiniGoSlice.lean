import Got.Model.MiniGoSort
/-
MiniGoSlice — deep embedding of the small slice fragment of Go in which sortx/unique.go (UniqueInt, UniqueString) is
written, with an executable, total (fuel) interpreter.  tools/srcfacts/minigo_sort.go translates the two functions on
every run into Got/Generated/AstSortxUnique.lean; Got/Lemmas/SortAstUnique.lean proves that interpreting the
generated terms gives the hand-written model `Got.Model.SortUnique.unique`.

Fragment.  One function `func F(a []T) []T`, `T` a type whose values are only compared with `==`/`!=` (int, string):
the interpreter is polymorphic in `T` (`DecidableEq`).  Int locals (numbered by the translator, environment and 64-bit
`wrap` as in MiniGoSort); integer expressions: constants, variables, `+`, `-`, `len(a)`; conditions: comparisons of
ints, `a[e1] == a[e2]`, `a[e1] != a[e2]`, `&& || !`; statements: `x := e` / `var x = e` / `x = e` / `x++` / `x--`
(`set`), `a[e1] = a[e2]` (`store`), `a = a[:e]` (`reslice`), `if`/`else`, `for init; cond; post { }` (`loop`),
`return a` (`retSlice`).

The slice `a` is a backing array `arr` and a length `len ≤ arr.size` (capacity = `arr.size`; the caller passes a
full slice).  Go's run-time checks are modelled: `a[i]` panics unless `0 ≤ i < len(a)`, `a[:k]` panics unless
`0 ≤ k ≤ cap(a)`.  Results: `none` = out of fuel; `some none` = panic; `some (some (r, b))` = returned slice `r` and
backing array `b` after the call — the result type of the model `unique`.
-/
namespace Got.Model.MiniGoSlice
open Got.Model.MiniGoSort (wrap Env)

inductive Expr where
  | lit (n : Int)
  | var (x : Nat)
  | add (a b : Expr)
  | sub (a b : Expr)
  | len                            -- `len(a)`
  deriving Repr

inductive Cond where
  | tt
  | eq (a b : Expr)
  | ne (a b : Expr)
  | le (a b : Expr)
  | lt (a b : Expr)
  | elemEq (i j : Expr)            -- `a[i] == a[j]`
  | elemNe (i j : Expr)            -- `a[i] != a[j]`
  | or (a b : Cond)
  | and (a b : Cond)
  | not (a : Cond)
  deriving Repr

inductive Stmt where
  | set (x : Nat) (e : Expr)
  | store (i j : Expr)             -- `a[i] = a[j]`
  | reslice (e : Expr)             -- `a = a[:e]`
  | ite (c : Cond) (t e : List Stmt)
  | loop (c : Cond) (body post : List Stmt)
  | retSlice                       -- `return a`

structure Fn where
  name : String
  body : List Stmt

/-- the slice variable `a`: backing array and current length -/
structure Sl (α : Type) where
  arr : Array α
  len : Nat

variable {α : Type} [DecidableEq α]

def eval (env : Env) (s : Sl α) : Expr → Int
  | .lit n => wrap n
  | .var x => env.get x
  | .add a b => wrap (eval env s a + eval env s b)
  | .sub a b => wrap (eval env s a - eval env s b)
  | .len => (s.len : Int)

/-- `a[i]` with Go's bounds check against the current length -/
def Sl.at? (s : Sl α) (i : Int) : Option α :=
  if 0 ≤ i ∧ i < (s.len : Int) then s.arr[i.toNat]? else none

/-- `none` = run-time panic (index out of range) -/
def evalC (env : Env) (s : Sl α) : Cond → Option Bool
  | .tt => some true
  | .eq a b => some (decide (eval env s a = eval env s b))
  | .ne a b => some (decide (eval env s a ≠ eval env s b))
  | .le a b => some (decide (eval env s a ≤ eval env s b))
  | .lt a b => some (decide (eval env s a < eval env s b))
  | .elemEq i j =>
    match s.at? (eval env s i), s.at? (eval env s j) with
    | some x, some y => some (decide (x = y))
    | _, _ => none
  | .elemNe i j =>
    match s.at? (eval env s i), s.at? (eval env s j) with
    | some x, some y => some (decide (x ≠ y))
    | _, _ => none
  | .or a b =>
    match evalC env s a with
    | some true => some true
    | some false => evalC env s b
    | none => none
  | .and a b =>
    match evalC env s a with
    | some false => some false
    | some true => evalC env s b
    | none => none
  | .not a => (evalC env s a).map (!·)

inductive Res (α : Type) where
  | ret (s : Sl α)
  | cont (env : Env) (s : Sl α)
  | panic

/-- big-step execution with fuel; `none` = out of fuel -/
def exec : Nat → List Stmt → Env → Sl α → Option (Res α)
  | 0, _, _, _ => none
  | _ + 1, [], env, s => some (.cont env s)
  | f + 1, .set x e :: rest, env, s => exec f rest (env.set x (eval env s e)) s
  | f + 1, .store i j :: rest, env, s =>
    match s.at? (eval env s j), s.at? (eval env s i) with
    | some v, some _ => exec f rest env { s with arr := s.arr.set! (eval env s i).toNat v }
    | _, _ => some .panic
  | f + 1, .reslice e :: rest, env, s =>
    if 0 ≤ eval env s e ∧ eval env s e ≤ (s.arr.size : Int) then exec f rest env { s with len := (eval env s e).toNat }
    else some .panic
  | f + 1, .ite c t e :: rest, env, s =>
    match evalC env s c with
    | none => some .panic
    | some b =>
      match exec f (if b then t else e) env s with
      | some (.cont env' s') => exec f rest env' s'
      | o => o
  | f + 1, .loop c body post :: rest, env, s =>
    match evalC env s c with
    | none => some .panic
    | some false => exec f rest env s
    | some true =>
      match exec f body env s with
      | some (.cont env' s') =>
        match exec f post env' s' with
        | some (.cont env'' s'') => exec f (.loop c body post :: rest) env'' s''
        | some .panic => some .panic
        | _ => none
      | o => o
  | _ + 1, .retSlice :: _, _, s => some (.ret s)

/-- run a translated `func F(a []T) []T` on a full slice: `some (some (returned slice, backing array))`,
    `some none` = panic (also: falling off the end without `return`, which Go's compiler rejects), `none` = out of fuel -/
def Fn.run (fn : Fn) (fuel : Nat) (a : Array α) : Option (Option (Array α × Array α)) :=
  match exec fuel fn.body #[] { arr := a, len := a.size } with
  | some (.ret s) => some (some (s.arr.extract 0 s.len, s.arr))
  | some _ => some none
  | none => none

end Got.Model.MiniGoSlice
