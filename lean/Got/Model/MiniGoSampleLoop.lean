import Got.Model.Sample
import Got.Model.MiniGoSort
/-
MiniGoSampleLoop — the statement language in which tools/srcfacts/minigo_sample.go re-describes the body of
randx.WeightedSampling (/repo/randx/sample.go) on every run (Got/Generated/AstRandxSampling.lean), with an executable,
total (fuel) interpreter.  Integer variables, expressions and comparisons are those of the source (numbered variables and
64-bit `wrap` as in MiniGoSort; `hlen` = `h.Len()`); everything that touches floats, the heap or the result slice is ONE
abstract statement each, exactly the abstraction of the hand-written model (the float keys are inputs):

  panic(…)                                                   `panic`        (the explicit argument check)
  h := make(sampleHeap, 0, e)                                `makeHeap e`   (panics for a negative capacity)
  ui := rand.Float64(); fr, exp := math.Frexp(getWeight(e)); ki := …    `key e`   (the statements that compute the float key
                                                             of index `e`: afterwards `ki` IS the e-th input key; statements
                                                             that only define further float temporaries are `float`)
  heap.Push(&h, sampleHeapItem{ki: ki, index: e})            `hpush e`
  heap.Pop(&h)                                               `hpop`
  ki > h.Get(e).ki                                           condition `keyGtTop e`
  results := make([]int, e)                                  `makeResults e`
  results[e1] = h.Get(e2).index                              `setResult e1 e2`
  return results                                             `retResults`

The heap operations are parameters (`Ops`): the model's `GoHeap.push/pop`, or the interpreted container/heap terms.
`none` = out of fuel (of this interpreter or of a heap operation).
-/
namespace Got.Model.MiniGoSampleLoop
open Got.Model.MiniGoSort (wrap Env)
open Got.Model.Sample

inductive Expr where
  | lit (n : Int)
  | var (x : Nat)
  | add (a b : Expr)
  | sub (a b : Expr)
  | hlen                            -- `h.Len()`
  deriving Repr

inductive Cond where
  | tt
  | eq (a b : Expr)
  | ne (a b : Expr)
  | le (a b : Expr)
  | lt (a b : Expr)
  | or (a b : Cond)
  | and (a b : Cond)
  | not (a : Cond)
  | keyGtTop (e : Expr)             -- `ki > h.Get(e).ki`
  deriving Repr

inductive Stmt where
  | set (x : Nat) (e : Expr)
  | panic
  | makeHeap (e : Expr)
  | float                           -- a statement that only defines float temporaries
  | key (e : Expr)
  | hpush (e : Expr)
  | hpop
  | makeResults (e : Expr)
  | setResult (e1 e2 : Expr)
  | retResults
  | ite (c : Cond) (t e : List Stmt)
  | loop (c : Cond) (body post : List Stmt)

structure Fn where
  name : String
  nparams : Nat
  body : List Stmt

variable {κ : Type}

/-- heap operations: outer `none` = out of fuel, inner `none` = panic -/
structure Ops (κ : Type) where
  push : Array (Item κ) → Item κ → Option (Option (Array (Item κ)))
  pop : Array (Item κ) → Option (Option (Array (Item κ)))
  get : Array (Item κ) → Int → Option (Item κ)

structure St (κ : Type) where
  heap : Array (Item κ)
  ki : Option κ
  results : Array Int

def eval (env : Env) (s : St κ) : Expr → Int
  | .lit n => wrap n
  | .var x => env.get x
  | .add a b => wrap (eval env s a + eval env s b)
  | .sub a b => wrap (eval env s a - eval env s b)
  | .hlen => (s.heap.size : Int)

/-- `none` = panic (index out of range in `h.Get`, or no key computed yet) -/
def evalC (ops : Ops κ) (gt : κ → κ → Bool) (env : Env) (s : St κ) : Cond → Option Bool
  | .tt => some true
  | .eq a b => some (decide (eval env s a = eval env s b))
  | .ne a b => some (decide (eval env s a ≠ eval env s b))
  | .le a b => some (decide (eval env s a ≤ eval env s b))
  | .lt a b => some (decide (eval env s a < eval env s b))
  | .or a b =>
    match evalC ops gt env s a with
    | some true => some true
    | some false => evalC ops gt env s b
    | none => none
  | .and a b =>
    match evalC ops gt env s a with
    | some false => some false
    | some true => evalC ops gt env s b
    | none => none
  | .not a => (evalC ops gt env s a).map (!·)
  | .keyGtTop e =>
    match s.ki, ops.get s.heap (eval env s e) with
    | some k, some top => some (gt k top.ki)
    | _, _ => none

inductive Res (κ : Type) where
  | ret (r : Result)                 -- returned `results`, or panicked
  | cont (env : Env) (s : St κ)

/-- `keys` = the float keys in index order (input); `none` = out of fuel -/
def exec (ops : Ops κ) (gt : κ → κ → Bool) (keys : List κ) : Nat → List Stmt → Env → St κ → Option (Res κ)
  | 0, _, _, _ => none
  | _ + 1, [], env, s => some (.cont env s)
  | f + 1, .set x e :: rest, env, s => exec ops gt keys f rest (env.set x (eval env s e)) s
  | _ + 1, .panic :: _, _, _ => some (.ret (.error .invalidInputs))
  | f + 1, .makeHeap e :: rest, env, s =>
    if eval env s e < 0 then some (.ret (.error .makeCap)) else exec ops gt keys f rest env { s with heap := #[] }
  | f + 1, .float :: rest, env, s => exec ops gt keys f rest env s
  | f + 1, .key e :: rest, env, s =>
    -- the key of an index outside the input list does not exist: the loop never asks for one
    if 0 ≤ eval env s e then exec ops gt keys f rest env { s with ki := keys[(eval env s e).toNat]? }
    else exec ops gt keys f rest env { s with ki := none }
  | f + 1, .hpush e :: rest, env, s =>
    match s.ki with
    | none => some (.ret (.error .indexRange))
    | some k =>
      match ops.push s.heap ⟨k, (eval env s e).toNat⟩ with
      | none => none
      | some none => some (.ret (.error .indexRange))
      | some (some h') => exec ops gt keys f rest env { s with heap := h' }
  | f + 1, .hpop :: rest, env, s =>
    match ops.pop s.heap with
    | none => none
    | some none => some (.ret (.error .indexRange))
    | some (some h') => exec ops gt keys f rest env { s with heap := h' }
  | f + 1, .makeResults e :: rest, env, s =>
    if eval env s e < 0 then some (.ret (.error .makeCap))
    else exec ops gt keys f rest env { s with results := Array.replicate (eval env s e).toNat 0 }
  | f + 1, .setResult e1 e2 :: rest, env, s =>
    match ops.get s.heap (eval env s e2) with
    | none => some (.ret (.error .indexRange))
    | some it =>
      if 0 ≤ eval env s e1 ∧ (eval env s e1).toNat < s.results.size then
        exec ops gt keys f rest env { s with results := s.results.set! (eval env s e1).toNat (it.index : Int) }
      else some (.ret (.error .indexRange))
  | _ + 1, .retResults :: _, _, s => some (.ret (.ok (s.results.toList.map Int.toNat)))
  | f + 1, .ite c t e :: rest, env, s =>
    match evalC ops gt env s c with
    | none => some (.ret (.error .indexRange))
    | some b =>
      match exec ops gt keys f (if b then t else e) env s with
      | some (.cont env' s') => exec ops gt keys f rest env' s'
      | o => o
  | f + 1, .loop c body post :: rest, env, s =>
    match evalC ops gt env s c with
    | none => some (.ret (.error .indexRange))
    | some false => exec ops gt keys f rest env s
    | some true =>
      match exec ops gt keys f body env s with
      | some (.cont env' s') =>
        match exec ops gt keys f post env' s' with
        | some (.cont env'' s'') => exec ops gt keys f (.loop c body post :: rest) env'' s''
        | o => o
      | o => o

/-- WeightedSampling(sampleNum, totalNum, getWeight) as described by `fn`, the keys being `keys` -/
def Fn.run (fn : Fn) (ops : Ops κ) (gt : κ → κ → Bool) (keys : List κ) (fuel : Nat) (sampleNum totalNum : Int) : Option Result :=
  match exec ops gt keys fuel fn.body #[wrap sampleNum, wrap totalNum] { heap := #[], ki := none, results := #[] } with
  | some (.ret r) => some r
  | _ => none

/-- `exec` with the keys in an array (constant-time lookup): what the driver runs; `execA_eq` below -/
def execA (ops : Ops κ) (gt : κ → κ → Bool) (keys : Array κ) : Nat → List Stmt → Env → St κ → Option (Res κ)
  | 0, _, _, _ => none
  | _ + 1, [], env, s => some (.cont env s)
  | f + 1, .set x e :: rest, env, s => execA ops gt keys f rest (env.set x (eval env s e)) s
  | _ + 1, .panic :: _, _, _ => some (.ret (.error .invalidInputs))
  | f + 1, .makeHeap e :: rest, env, s =>
    if eval env s e < 0 then some (.ret (.error .makeCap)) else execA ops gt keys f rest env { s with heap := #[] }
  | f + 1, .float :: rest, env, s => execA ops gt keys f rest env s
  | f + 1, .key e :: rest, env, s =>
    -- the key of an index outside the input list does not exist: the loop never asks for one
    if 0 ≤ eval env s e then execA ops gt keys f rest env { s with ki := keys[(eval env s e).toNat]? }
    else execA ops gt keys f rest env { s with ki := none }
  | f + 1, .hpush e :: rest, env, s =>
    match s.ki with
    | none => some (.ret (.error .indexRange))
    | some k =>
      match ops.push s.heap ⟨k, (eval env s e).toNat⟩ with
      | none => none
      | some none => some (.ret (.error .indexRange))
      | some (some h') => execA ops gt keys f rest env { s with heap := h' }
  | f + 1, .hpop :: rest, env, s =>
    match ops.pop s.heap with
    | none => none
    | some none => some (.ret (.error .indexRange))
    | some (some h') => execA ops gt keys f rest env { s with heap := h' }
  | f + 1, .makeResults e :: rest, env, s =>
    if eval env s e < 0 then some (.ret (.error .makeCap))
    else execA ops gt keys f rest env { s with results := Array.replicate (eval env s e).toNat 0 }
  | f + 1, .setResult e1 e2 :: rest, env, s =>
    match ops.get s.heap (eval env s e2) with
    | none => some (.ret (.error .indexRange))
    | some it =>
      if 0 ≤ eval env s e1 ∧ (eval env s e1).toNat < s.results.size then
        execA ops gt keys f rest env { s with results := s.results.set! (eval env s e1).toNat (it.index : Int) }
      else some (.ret (.error .indexRange))
  | _ + 1, .retResults :: _, _, s => some (.ret (.ok (s.results.toList.map Int.toNat)))
  | f + 1, .ite c t e :: rest, env, s =>
    match evalC ops gt env s c with
    | none => some (.ret (.error .indexRange))
    | some b =>
      match execA ops gt keys f (if b then t else e) env s with
      | some (.cont env' s') => execA ops gt keys f rest env' s'
      | o => o
  | f + 1, .loop c body post :: rest, env, s =>
    match evalC ops gt env s c with
    | none => some (.ret (.error .indexRange))
    | some false => execA ops gt keys f rest env s
    | some true =>
      match execA ops gt keys f body env s with
      | some (.cont env' s') =>
        match execA ops gt keys f post env' s' with
        | some (.cont env'' s'') => execA ops gt keys f (.loop c body post :: rest) env'' s''
        | o => o
      | o => o


theorem execA_eq (ops : Ops κ) (gt : κ → κ → Bool) (keys : List κ) :
    ∀ (f : Nat) (p : List Stmt) (env : Env) (s : St κ), execA ops gt keys.toArray f p env s = exec ops gt keys f p env s := by
  intro f
  induction f with
  | zero => intro p env s; rfl
  | succ f ih =>
    intro p env s
    cases p with
    | nil => rfl
    | cons st rest =>
      cases st <;> simp only [execA, exec, ih, List.getElem?_toArray]

/-- `Fn.run` with the keys in an array -/
def Fn.runA (fn : Fn) (ops : Ops κ) (gt : κ → κ → Bool) (keys : Array κ) (fuel : Nat) (sampleNum totalNum : Int) : Option Result :=
  match execA ops gt keys fuel fn.body #[wrap sampleNum, wrap totalNum] { heap := #[], ki := none, results := #[] } with
  | some (.ret r) => some r
  | _ => none

theorem Fn.runA_eq (fn : Fn) (ops : Ops κ) (gt : κ → κ → Bool) (keys : List κ) (fuel : Nat) (sampleNum totalNum : Int) :
    fn.runA ops gt keys.toArray fuel sampleNum totalNum = fn.run ops gt keys fuel sampleNum totalNum := by
  unfold Fn.runA Fn.run
  rw [execA_eq]

end Got.Model.MiniGoSampleLoop
