import Got.Generated.Facts
import Got.Generated.LitsIox
/-
Model of iox.Buffer (/repo/iox/buffer.go), transcribed function by function.

State.  Go: `buf []byte` (pointer, len, cap) and `off int`.
  * `buf`   the bytes `b.buf[0:len(b.buf)]`
  * `off`   `b.off`
  * `cap`   `cap(b.buf)`   (observable through `Cap()`, drives the grow policy)
  * `isNil` `b.buf == nil` (read by `grow`: `b.buf == nil && n <= smallBufferSize`)
The bytes of the backing array beyond `len(b.buf)` are not part of the state: `grow` exposes `n`
of them (`b.buf[:l+n]`, stale contents) but both callers immediately overwrite (`Write`:
`copy(b.buf[m:], p)` with `len(p) = n`) or cut them off again (`Grow`: `b.buf[:m]`), so they are
never observable; the model fills them with `0`.

Numbers.  Go `int`/`int64` are 64-bit.  Lengths, capacities and `off` are `Nat` here; every
assignment to `b.off` in the Go code is guarded so that the assigned value is non-negative.
Go subtractions whose result could be negative in Go are computed in `Int`.
`Seek` adds a caller-supplied int64 to `b.off` / `len(b.buf)`; Go wraps on overflow, the model
wraps the same way (`wrap64`).  `Grow(n)` / `Next(n)` take arbitrary `Int`s; the negative cases are
explicit `panic` outcomes.  `ErrTooLarge` is an explicit panic outcome of `grow`, raised either by the
overflow test `c > maxInt-c-n` or by `makeSlice`, whose `make([]byte, 2*c+n)` panics (`len out of range`,
recovered and re-panicked as ErrTooLarge) when the size exceeds the runtime's `maxAlloc` = 2^48 bytes
(linux/amd64, arm64: 48 address bits; a trusted platform constant).  An allocation of at most `maxAlloc`
bytes is assumed to succeed (an out-of-memory condition is a fatal runtime error, not a panic).

Constants come from the regenerated facts: `iox_smallBufferSize`, `iox_maxInt` and the two literals `2`
of `grow` (`c/2`, `2*c`).
-/
namespace Got.Model.Bytes

abbrev Byte := Nat

/-- `const smallBufferSize = 64` -/
def smallBufferSize : Nat := Got.Facts.iox_smallBufferSize.toNat
/-- `const maxInt = int(^uint(0) >> 1)` -/
def maxInt : Int := Got.Facts.iox_maxInt
/-- the Go runtime's `maxAlloc` on 64-bit linux: `make([]byte, n)` panics for `n > maxAlloc` -/
def maxAlloc : Int := 2 ^ 48
/-- the `2` of `n <= c/2-m` (4th integer literal of `grow`) -/
def slideDiv : Nat := (Got.Facts.lits_iox_Buffer_grow.getD 3 0).toNat
/-- the `2` of `makeSlice(2*c + n)` (5th integer literal of `grow`) -/
def growMul : Nat := (Got.Facts.lits_iox_Buffer_grow.getD 4 0).toNat

/-- two's-complement wrap of a 64-bit signed addition result -/
def wrap64 (x : Int) : Int := (x + 2 ^ 63) % 2 ^ 64 - 2 ^ 63

/-- Go's `copy(dst[at:], src)` seen on the list `dst`: copies `min (len dst - at) (len src)` bytes.
    Returns the new `dst` and the count. -/
def copyAt (dst : List Byte) (at_ : Nat) (src : List Byte) : List Byte × Nat :=
  let n := min (dst.length - at_) src.length
  (dst.take at_ ++ src.take n ++ dst.drop (at_ + n), n)

structure Buffer where
  buf : List Byte
  off : Nat
  cap : Nat
  isNil : Bool
  deriving Repr, DecidableEq

namespace Buffer

/-- the zero value `iox.Buffer{}` -/
def init : Buffer := { buf := [], off := 0, cap := 0, isNil := true }

inductive Err where
  | nil | eof | invalidSeek
  deriving Repr, DecidableEq

/-- what one call returns -/
inductive Out where
  | wrote (n : Nat)                       -- Write: (n, nil)
  | read (data : List Byte) (err : Err)   -- Read: the n bytes copied into p, err
  | next (data : List Byte)               -- Next: returned slice
  | seek (ret : Nat) (err : Err)          -- Seek: (ret, err)
  | unit                                  -- Tidy / Reset / Grow
  | panic (why : String)
  deriving Repr, DecidableEq

/-- `b.buf[b.off:]`; Go panics if `off > len` (`none`). -/
def bytes? (b : Buffer) : Option (List Byte) :=
  if b.off ≤ b.buf.length then some (b.buf.drop b.off) else none

/-- `Bytes()` on states with `off ≤ len` -/
def bytes (b : Buffer) : List Byte := b.buf.drop b.off

/-- `String()` = `string(b.buf[b.off:])` -/
def string? (b : Buffer) : Option (List Byte) := b.bytes?

/-- `Len()` = `len(b.buf) - b.off` -/
def len (b : Buffer) : Int := (b.buf.length : Int) - b.off

/-- `empty()` = `len(b.buf) <= b.off` -/
def empty (b : Buffer) : Bool := decide (b.buf.length ≤ b.off)

/-- `Cap()` -/
def capacity (b : Buffer) : Nat := b.cap

/-- `Reset()`: `b.buf = b.buf[:0]; b.off = 0` (keeps pointer and capacity) -/
def reset (b : Buffer) : Buffer := { b with buf := [], off := 0 }

/-- `Seek(offset, whence)`; `io.SeekStart/Current/End = 0/1/2` -/
def seek (b : Buffer) (offset whence : Int) : Buffer × Out :=
  if 0 ≤ whence ∧ whence ≤ 2 then
    let next : Int := offset
    let next : Int :=
      if whence = 1 then wrap64 (next + b.off)
      else if whence = 2 then wrap64 (next + b.buf.length)
      else next
    if 0 ≤ next ∧ next ≤ b.buf.length then
      ({ b with off := next.toNat }, .seek next.toNat .nil)
    else (b, .seek 0 .invalidSeek)
  else (b, .seek 0 .invalidSeek)

/-- `tryGrowByReslice(n)`: `if l := len(b.buf); n <= cap(b.buf)-l { b.buf = b.buf[:l+n]; return l, true }`.
    (`cap - l` cannot be negative in Go; the model keeps `len ≤ cap`, see `C13_buffer_invariant`.) -/
def tryGrowByReslice (b : Buffer) (n : Nat) : Option (Buffer × Nat) :=
  let l := b.buf.length
  if n ≤ b.cap - l then some ({ b with buf := b.buf ++ List.replicate n 0 }, l) else none

inductive GrowRes where
  | ok (b : Buffer) (idx : Nat)
  | tooLarge (b : Buffer)         -- panic(ErrTooLarge); `b` = state at the panic
  deriving Repr, DecidableEq

/-- `grow(n)` for `n ≥ 0` (both callers guarantee it) -/
def grow (b : Buffer) (n : Nat) : GrowRes :=
  let m : Nat := b.buf.length - b.off                       -- m := b.Len()
  let b := if m = 0 ∧ b.off ≠ 0 then b.reset else b          -- if m == 0 && b.off != 0 { b.Reset() }
  match tryGrowByReslice b n with                            -- if i, ok := b.tryGrowByReslice(n); ok { return i }
  | some (b', i) => .ok b' i
  | none =>
    if b.isNil ∧ n ≤ smallBufferSize then                    -- if b.buf == nil && n <= smallBufferSize
      .ok { b with buf := List.replicate n 0, cap := smallBufferSize, isNil := false } 0
    else
      let c := b.cap                                         -- c := cap(b.buf)
      if (n : Int) ≤ ((c / slideDiv : Nat) : Int) - m then   -- if n <= c/2-m
        -- copy(b.buf, b.buf[b.off:]) ; b.off = 0 ; b.buf = b.buf[:m+n]
        .ok { b with buf := ((copyAt b.buf 0 (b.buf.drop b.off)).1.take m) ++ List.replicate n 0, off := 0 } m
      else if (c : Int) > maxInt - c - n then                -- else if c > maxInt-c-n { panic(ErrTooLarge) }
        .tooLarge b
      else if ((growMul * c + n : Nat) : Int) > maxAlloc then -- makeSlice: make panics, recover, panic(ErrTooLarge)
        .tooLarge b
      else
        -- buf := makeSlice(2*c + n) ; copy(buf, b.buf[b.off:]) ; b.buf = buf ; b.off = 0 ; b.buf = b.buf[:m+n]
        let fresh := List.replicate (growMul * c + n) 0
        .ok { buf := (copyAt fresh 0 (b.buf.drop b.off)).1.take (m + n), off := 0,
              cap := growMul * c + n, isNil := false } m

/-- `Grow(n)` -/
def growOp (b : Buffer) (n : Int) : Buffer × Out :=
  if n < 0 then (b, .panic "bytes.Buffer.Grow: negative count")
  else
    match grow b n.toNat with
    | .ok b' m => ({ b' with buf := b'.buf.take m }, .unit)        -- b.buf = b.buf[:m]
    | .tooLarge b' => (b', .panic "ErrTooLarge")

/-- `Write(p)` -/
def write (b : Buffer) (p : List Byte) : Buffer × Out :=
  match tryGrowByReslice b p.length with
  | some (b', m) =>
    let r := copyAt b'.buf m p                                       -- copy(b.buf[m:], p)
    ({ b' with buf := r.1 }, .wrote r.2)
  | none =>
    match grow b p.length with
    | .ok b' m =>
      let r := copyAt b'.buf m p
      ({ b' with buf := r.1 }, .wrote r.2)
    | .tooLarge b' => (b', .panic "ErrTooLarge")

/-- `Read(p)` with `len(p) = k`; the output carries the bytes copied into `p[0:n]`. -/
def read (b : Buffer) (k : Nat) : Buffer × Out :=
  if b.empty then
    if k = 0 then (b, .read [] .nil) else (b, .read [] .eof)
  else
    let src := b.buf.drop b.off
    let n := min k src.length                                        -- n = copy(p, b.buf[b.off:])
    ({ b with off := b.off + n }, .read (src.take n) .nil)

/-- `Next(n)`; `b.buf[b.off : b.off+n]` panics when `n < 0` (after clamping to `Len()`). -/
def next (b : Buffer) (n : Int) : Buffer × Out :=
  let m := b.len
  let n := if n > m then m else n
  if n < 0 then (b, .panic "slice bounds out of range")
  else ({ b with off := b.off + n.toNat }, .next ((b.buf.drop b.off).take n.toNat))

/-- `Tidy()` -/
def tidy (b : Buffer) : Buffer :=
  if b.off > 0 then
    let size : Nat := b.buf.length - b.off
    let buf := if size > 0 then (copyAt b.buf 0 (b.buf.drop b.off)).1 else b.buf
    { b with buf := buf.take size, off := 0 }
  else b

inductive Op where
  | write (p : List Byte)
  | read (k : Nat)
  | next (n : Int)
  | seek (offset whence : Int)
  | tidy
  | reset
  | grow (n : Int)
  deriving Repr, DecidableEq

def step (b : Buffer) : Op → Buffer × Out
  | .write p => b.write p
  | .read k => b.read k
  | .next n => b.next n
  | .seek o w => b.seek o w
  | .tidy => (b.tidy, .unit)
  | .reset => (b.reset, .unit)
  | .grow n => b.growOp n

/-- run an op sequence, collecting the outputs -/
def run (b : Buffer) : List Op → Buffer × List Out
  | [] => (b, [])
  | op :: ops =>
    let r := b.step op
    let rest := run r.1 ops
    (rest.1, r.2 :: rest.2)

end Buffer
end Got.Model.Bytes
