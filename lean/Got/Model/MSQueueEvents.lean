import Got.Model.MSQueue
import Got.Model.Discipline
/-
C18 for loom.Queue, derived from the fine-grained Michael–Scott model (Got/Model/MSQueue.lean):
the trace of synchronisation events and of accesses to the PLAIN field `node.value` of one node `n`
induced by an execution of the LTS.

  * `n := &node{value: v}` at the start of Push  = the allocation step `invPush t v` that allocates `n`
                                                  → `Ev.wr t`
  * every atomic load of the model                → `Ev.acq t cell`
  * every CAS of the model                        → `Ev.acq t cell`, and if it succeeds also `Ev.rel t cell`
                                                    (a failed CAS is a load)
  * Pop's plain read `v := next.value`            = the local computation of the `d4` step that goes on to
                                                    the head CAS, when `next = n` → `Ev.rd t`
Cells (sync objects), numbered injectively: `q.head` = 0, `q.tail` = 1, `m.next` = m + 2.
Modelling assumption (Discipline.lean): an acquire on a cell synchronises with every earlier release on
that cell — Go's sync/atomic operations are sequentially consistent and every writer of a cell is a CAS.
-/
namespace Got.Model.MSQueue
open Got.Model.Discipline

def objHead : Nat := 0
def objTail : Nat := 1
def objNext (m : Nat) : Nat := m + 2

/-- events of a CAS on `cell`: acquire, and release if it succeeds. -/
def casEv (t cell : Nat) (ok : Bool) : List Ev :=
  if ok then [.acq t cell, .rel t cell] else [.acq t cell]

/-- the events (all synchronisation events + the plain accesses to `n.value`) of action `a` in state `s`. -/
def stepEvents (n : Nat) (s : State) : Act → List Ev
  | .invPush t _ =>
    match s.pc t with
    | .idle => if s.nalloc = n then [.wr t] else []
    | _ => []
  | .invPop _ => []
  | .tau t =>
    match s.pc t with
    | .idle => []
    | .crash => []
    | .p1 _ => [.acq t objTail]
    | .p2 _ tl => [.acq t (objNext tl)]
    | .p3 _ _ _ => [.acq t objTail]
    | .p4 _ tl => casEv t (objNext tl) (decide (s.next tl = none))
    | .p4h _ tl _ => casEv t objTail (decide (s.tail = tl))
    | .p5 _ tl => casEv t objTail (decide (s.tail = tl))
    | .d1 => [.acq t objHead]
    | .d2 _ => [.acq t objTail]
    | .d3 hd _ => [.acq t (objNext hd)]
    | .d4 hd tl nx =>
      .acq t objHead :: (if hd = s.head ∧ hd ≠ tl ∧ nx = some n then [.rd t] else [])
    | .d5h _ tl _ => casEv t objTail (decide (s.tail = tl))
    | .d5 hd _ _ => casEv t objHead (decide (s.head = hd))

/-- event trace of an action list from state `s` (defined alongside `run`). -/
def eventsFrom (n : Nat) (s : State) : List Act → List Ev
  | [] => []
  | a :: as => stepEvents n s a ++ eventsFrom n (step s a) as

/-- the event trace of the plain field `value` of node `n` in the execution `acts` from `init`. -/
def valueEvents (n : Nat) (acts : List Act) : List Ev := eventsFrom n init acts

end Got.Model.MSQueue
