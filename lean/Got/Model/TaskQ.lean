import Got.Generated.LitsTaskx
/-
Model of taskx.Queue (taskx/queue.go, task_callback.go, task_empty.go, option.go).

A labelled transition system.  One transition = one channel / WaitGroup operation of the Go code
(plus the local computation up to the next one).

  SendCallback(handler)                                SendTask(task)
    if handler == nil { return taskEmpty{} }             if task != nil {
    task := &taskCallback{handler}; task.wg.Add(1)          checkQueueFull()
    checkQueueFull()          -- len(C)==cap(C) → log       select { case <-closeChan: ; case C <- task: }
    select { case <-closeChan: ; case C <- task: }        }
    return task                                          return task

  taskCallback.Do:  result, err = handler(args) ; if !isHandled { isHandled = true ; wg.Done() }
  taskCallback.Get2: wg.Wait() ; return result, err          taskEmpty.Get2: return nil, nil

Producers are indexed by `Nat` (unbounded number of goroutines, each sequential).  There is one
consumer: it receives a task and calls `Do`; it may call `Do` again on a task it executed before
(`redo`).  Ghost fields (never read by the non-ghost part): `nextSeq`, `begun`, `puts`, `aborted`,
`received`, `execLog`, `returned`, `fullLogs`.

Trusted (modelled, not verified): a buffered Go channel is a bounded FIFO; `select` takes any ready
branch; `WaitGroup.Wait` returns once the counter is 0.
-/
namespace Got.Model.TaskQ

/-- (result, err) as returned by a handler; `none` = nil. -/
abbrev Pair := Option Nat × Option Nat

def nilPair : Pair := (none, none)

/-- a value of the Go interface `Task`. `cb id` = pointer to the id-th allocated `taskCallback`;
    `user u` = some Task implementation of the caller (only reachable through SendTask). -/
inductive TaskRef where
  | empty
  | cb (id : Nat)
  | user (u : Nat)
  deriving DecidableEq, Repr

/-- what travels through `C`: the task plus the ghost tag (producer, sequence number of the send). -/
structure Msg where
  task : TaskRef
  prod : Nat
  seq : Nat
  deriving DecidableEq, Repr

/-- program counter of a producer goroutine -/
inductive PPc where
  | idle
  | sel (m : Msg)      -- inside SendCallback / SendTask, parked before the `select`
  deriving DecidableEq, Repr

/-- program counter of the consumer goroutine -/
inductive CPc where
  | idle
  | got (t : TaskRef)            -- received (or re-doing) `t`, about to call `t.Do`
  | ran (id : Nat) (r : Pair)    -- handler of taskCallback `id` returned `r`, not yet stored
  | stored (id : Nat)            -- result/err stored, before the `isHandled` test
  deriving DecidableEq, Repr

def upd {β : Type} (f : Nat → β) (a : Nat) (b : β) : Nat → β := fun x => if x = a then b else f x

@[simp] theorem upd_same {β : Type} (f : Nat → β) (a : Nat) (b : β) : upd f a b a = b := by simp [upd]
theorem upd_other {β : Type} (f : Nat → β) (a : Nat) (b : β) (x : Nat) (h : x ≠ a) : upd f a b x = f x := by
  simp [upd, h]

structure State where
  cap : Nat
  chan : List Msg
  closed : Bool
  ppc : Nat → PPc
  cpc : CPc
  nextTask : Nat               -- number of taskCallback objects allocated
  done : Nat → Bool            -- wg counter of taskCallback id is 0
  handled : Nat → Bool         -- isHandled
  result : Nat → Pair          -- (result, err) fields
  -- ghost
  nextSeq : Nat → Nat          -- number of Send* calls producer p has made
  begun : List Msg             -- every message whose send reached the select, in order
  puts : List Msg              -- successful `C <- task`, in order
  aborted : List Msg           -- sends that left through `<-closeChan`
  received : List Msg          -- what the consumer received, in order
  execLog : List (Nat × Pair)  -- handler executions by the consumer: (task id, returned pair)
  returned : Nat → List TaskRef -- values returned to producer p by its Send* calls (newest first)
  fullLogs : Nat               -- number of "taskQueue is full" log lines

def init (cap : Nat) : State :=
  { cap := cap, chan := [], closed := false, ppc := fun _ => .idle, cpc := .idle, nextTask := 0,
    done := fun _ => false, handled := fun _ => false, result := fun _ => nilPair,
    nextSeq := fun _ => 0, begun := [], puts := [], aborted := [], received := [], execLog := [],
    returned := fun _ => [], fullLogs := 0 }

inductive Act where
  | sendCallback (p : Nat) (nonNil : Bool)  -- producer p calls SendCallback(handler); nonNil = (handler != nil)
  | sendTask (p : Nat) (t : Option TaskRef) -- producer p calls SendTask(t); none = nil
  | put (p : Nat)                           -- select branch  C <- task
  | abort (p : Nat)                         -- select branch  <-closeChan
  | close                                   -- close(closeChan)
  | recv                                    -- consumer: task := <-C
  | call (r : Pair)                         -- consumer: handler(args) returns r
  | store                                   -- consumer: task.result, task.err = r
  | finish                                  -- consumer: if !isHandled { isHandled = true; wg.Done() }
  | doOther                                 -- consumer: Do of a taskEmpty / user task
  | redo (id : Nat)                         -- consumer calls Do again on a task it already executed
  deriving Repr

/-- the part of Send* from checkQueueFull up to the select -/
def beginSend (s : State) (p : Nat) (t : TaskRef) : State :=
  let m : Msg := ⟨t, p, s.nextSeq p⟩
  { s with
    fullLogs := if s.chan.length = s.cap then s.fullLogs + 1 else s.fullLogs
    ppc := upd s.ppc p (.sel m)
    nextSeq := upd s.nextSeq p (s.nextSeq p + 1)
    begun := s.begun ++ [m] }

/-- `none` = the action is not enabled in `s` (the goroutine is blocked / not at that point). -/
def step (s : State) : Act → Option State
  | .sendCallback p nonNil =>
    match s.ppc p with
    | .idle =>
      if nonNil then
        let id := s.nextTask
        -- &taskCallback{handler}; wg.Add(1)
        let s1 := { s with nextTask := id + 1, done := upd s.done id false, handled := upd s.handled id false,
                           result := upd s.result id nilPair }
        some (beginSend s1 p (.cb id))
      else
        some { s with nextSeq := upd s.nextSeq p (s.nextSeq p + 1), returned := upd s.returned p (.empty :: s.returned p) }
    | _ => none
  | .sendTask p t =>
    match s.ppc p with
    | .idle =>
      match t with
      | none => some { s with nextSeq := upd s.nextSeq p (s.nextSeq p + 1) }
      | some (.cb id) => if id < s.nextTask then some (beginSend s p (.cb id)) else none
      | some t => some (beginSend s p t)
    | _ => none
  | .put p =>
    match s.ppc p with
    | .sel m =>
      if s.chan.length < s.cap then
        some { s with chan := s.chan ++ [m], puts := s.puts ++ [m], ppc := upd s.ppc p .idle,
                      returned := upd s.returned p (m.task :: s.returned p) }
      else none
    | _ => none
  | .abort p =>
    match s.ppc p with
    | .sel m =>
      if s.closed then
        some { s with aborted := s.aborted ++ [m], ppc := upd s.ppc p .idle,
                      returned := upd s.returned p (m.task :: s.returned p) }
      else none
    | _ => none
  | .close => some { s with closed := true }
  | .recv =>
    match s.cpc, s.chan with
    | .idle, m :: rest => some { s with chan := rest, received := s.received ++ [m], cpc := .got m.task }
    | _, _ => none
  | .call r =>
    match s.cpc with
    | .got (.cb id) => some { s with cpc := .ran id r, execLog := s.execLog ++ [(id, r)] }
    | _ => none
  | .store =>
    match s.cpc with
    | .ran id r => some { s with cpc := .stored id, result := upd s.result id r }
    | _ => none
  | .finish =>
    match s.cpc with
    | .stored id =>
      if s.handled id then some { s with cpc := .idle }
      else some { s with cpc := .idle, handled := upd s.handled id true, done := upd s.done id true }
    | _ => none
  | .doOther =>
    match s.cpc with
    | .got .empty => some { s with cpc := .idle }
    | .got (.user _) => some { s with cpc := .idle }
    | _ => none
  | .redo id =>
    match s.cpc with
    | .idle => if s.handled id then some { s with cpc := .got (.cb id) } else none
    | _ => none

/-- disabled actions are skipped, so every list of actions is an execution -/
def stepD (s : State) (a : Act) : State := (step s a).getD s

def run (cap : Nat) (acts : List Act) : State := acts.foldl stepD (init cap)

def Reachable (cap : Nat) (s : State) : Prop := ∃ acts, s = run cap acts

/-- Get2 on a task value: `none` = the caller is blocked in wg.Wait(); a user task is opaque. -/
def get2 (s : State) : TaskRef → Option Pair
  | .empty => some nilPair
  | .cb id => if s.done id then some (s.result id) else none
  | .user _ => none

/-! ### option.go — `NewQueue(options...)`

    createOptions: opts := options{size: 8}; every option function is applied left to right;
    WithSize(n) sets size only if n > 0; WithCloseChan(c) / WithErrorLogger(l) set the field only if the argument is non-nil;
    afterwards a nil closeChan is replaced by a fresh private channel (which nobody else can close) and a nil errLogger by
    the default logger that prints to stderr.  Channels and loggers are identified by numbers; `none` = nil. -/

inductive Opt where
  | withSize (n : Int)
  | withCloseChan (c : Option Nat)
  | withErrorLogger (l : Option Nat)
  deriving Repr

structure Opts where
  size : Int
  closeChan : Option Nat     -- none: still nil → createOptions makes a private one
  errLogger : Option Nat     -- none: still nil → createOptions installs the default stderr logger
  deriving Repr

/-- `size: 8` in createOptions -/
def defaultSize : Int := Got.Facts.lits_taskx_createOptions.headD 0

/-- the `0` of `if size > 0` in WithSize -/
def sizeFloor : Int := Got.Facts.lits_taskx_WithSize.headD 0

def applyOpt (o : Opts) : Opt → Opts
  | .withSize n => if n > sizeFloor then { o with size := n } else o
  | .withCloseChan (some c) => { o with closeChan := some c }
  | .withCloseChan none => o
  | .withErrorLogger (some l) => { o with errLogger := some l }
  | .withErrorLogger none => o

def createOptions (l : List Opt) : Opts := l.foldl applyOpt { size := defaultSize, closeChan := none, errLogger := none }

/-- capacity of `C` of `NewQueue(l...)` -/
def effCap (l : List Opt) : Nat := (createOptions l).size.toNat

end Got.Model.TaskQ
