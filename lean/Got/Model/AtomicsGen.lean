import Got.Model.Atomics
import Got.Model.AtomicIR
import Got.Generated.AstLoomAtomics
/-
The labelled transition systems of loom.Flag.AddFlag/RemoveFlag and loom.AddIf64 *as generated from the source*: the
generic semantics of Got/Model/AtomicIR.lean applied to the programs that tools/srcfacts re-translates from
/repo/loom/flag.go and /repo/loom/atomic.go on every run (Got/Generated/AstLoomAtomics.lean).  Core Lean only; the
theorems that tie them to the hand-written models of Got/Model/Atomics.lean are in Got/Lemmas/AtomicsAst.lean.
-/
namespace Got.Model.AtomicsGen
open Got.Model.AtomicIR Got.Generated.AstLoomAtomics Got.Model.Atomics

/-- client actions of a generated LTS: invoke a call, or let a thread perform its next shared access -/
inductive CAct (α : Type) where
  | invoke (t : Nat) (a : α)
  | tau (t : Nat)

/-! ### Flag: function 0 = AddFlag, function 1 = RemoveFlag; the argument is the flag word -/

def flagProg : List Func := [addFlag, removeFlag]

def noPred : List Val → Val → Bool := fun _ _ => false

def flagInit (v0 : W64) : GState :=
  { mem := ⟨fun _ => 0, fun _ => none, 0, none, none, v0, 0, 0, fun _ => none, 0, fun _ => false, false⟩, conf := fun _ => .idle, hist := [] }

def flagAct : CAct FOp → Act
  | .invoke t (.add f) => .inv t 0 [.i64 f]
  | .invoke t (.remove f) => .inv t 1 [.i64 f]
  | .tau t => .tau t

def flagStep (g : GState) (a : CAct FOp) : GState := step flagProg noPred g (flagAct a)

def flagRun (v0 : W64) (acts : List (CAct FOp)) : GState := acts.foldl flagStep (flagInit v0)

/-! ### AddIf64: one function; the argument is `delta`, the predicate of a call is `pred delta` -/

def addIfProg : List Func := [addIf64]

/-- the IR's predicate oracle from the model's `pred delta old` -/
def predOf (pred : W64 → W64 → Bool) : List Val → Val → Bool
  | [.i64 d], .i64 x => pred d x
  | _, _ => false

def addIfInit (v0 : W64) : GState := flagInit v0

def addIfAct : CAct W64 → Act
  | .invoke t d => .inv t 0 [.i64 d]
  | .tau t => .tau t

def addIfStep (pred : W64 → W64 → Bool) (g : GState) (a : CAct W64) : GState :=
  step addIfProg (predOf pred) g (addIfAct a)

def addIfRun (pred : W64 → W64 → Bool) (v0 : W64) (acts : List (CAct W64)) : GState :=
  acts.foldl (addIfStep pred) (addIfInit v0)

/-! ### Mutex: function 0 = TryLock, function 1 = Count; the state word is `cell32` -/

def mutexProg : List Func := [tryLock, count]

def mxInit (w : Word) : GState :=
  { mem := ⟨fun _ => 0, fun _ => none, 0, none, none, 0, w, 0, fun _ => none, 0, fun _ => false, false⟩, conf := fun _ => .idle, hist := [] }

/-- the steps of the transcribed sync.Mutex environment (everything in `MAct` that is not a TryLock step) -/
inductive EnvAct where
  | unlock (t : Nat)
  | lockFast (t : Nat)
  | lockSlowCas (t : Nat) (awoke starving : Bool)
  | spinWoken (t : Nat)
  | wake (t : Nat)
  | handoffTake (t : Nat) (starving : Bool)

def EnvAct.toM : EnvAct → MAct
  | .unlock t => .unlock t
  | .lockFast t => .lockFast t
  | .lockSlowCas t a s => .lockSlowCas t a s
  | .spinWoken t => .spinWoken t
  | .wake t => .wake t
  | .handoffTake t s => .handoffTake t s

inductive MxAct where
  | invoke (t : Nat)        -- thread t calls TryLock
  | tau (t : Nat)           -- thread t performs its next atomic access
  | env (e : EnvAct)        -- a step of sync.Mutex Lock/Unlock traffic on the same word

/-- the hand-written action that `tau t` is in state `s` -/
def tauM (s : MSt) (t : Nat) : MAct :=
  match s.pc t with
  | .cas1 => .tryCas1 t
  | .cas2 _ => .tryCas2 t
  | _ => .tryLoad t

/-- the TryLock threads of the LTS generated from the source, composed with the hand-written environment: the generated
    side (`g`) never reads the hand-written state (`s`) except that an environment step stores the word the transcribed
    sync.Mutex step produces. -/
structure Mx where
  g : GState
  s : MSt

def mxStep (x : Mx) : MxAct → Mx
  | .invoke t => ⟨step mutexProg noPred x.g (.inv t 0 []), stepM x.s (.tryStart t)⟩
  | .tau t => ⟨step mutexProg noPred x.g (.tau t), stepM x.s (tauM x.s t)⟩
  | .env e =>
    let s' := stepM x.s e.toM
    ⟨{ x.g with mem := { x.g.mem with cell32 := s'.word } }, s'⟩

def mxRun (w : Word) (acts : List MxAct) : Mx := acts.foldl mxStep ⟨mxInit w, initM w⟩

def retB (e : Ev) (acc : Option Bool) : Option Bool :=
  match e with
  | .ret (some (.bool b)) => some b
  | _ => acc

/-- the result of thread `t`'s last completed boolean call in a history -/
def lastRetB (h : List (Nat × Ev)) (t : Nat) : Option Bool :=
  h.foldl (fun acc e => if e.1 = t then retB e.2 acc else acc) none

/-- Count() on a mutex whose state word is `w`: the call's single atomic load and its return, in the generated LTS -/
def countRun (w : Word) : GState :=
  step mutexProg noPred (step mutexProg noPred (mxInit w) (.inv 0 1 [])) (.tau 0)

/-- HasFlag(f) on a flag word `v` (function 2 of `flagProgH`): invocation, its single atomic load, return -/
def flagProgH : List Func := [addFlag, removeFlag, Got.Generated.AstLoomAtomics.hasFlag]

def hasFlagRun (v f : W64) : GState :=
  step flagProgH noPred (step flagProgH noPred (flagInit v) (.inv 0 2 [.i64 f])) (.tau 0)

end Got.Model.AtomicsGen
