import Got.Model.Cache
import Got.Model.Discipline
/-
C18 for cachex.Future.value / .err: the trace of plain accesses and synchronisation events of ONE future `f`
induced by an execution of the timed LTS `Got.Model.Cache`.

One plain location stands for `value` and `err` (written together in setValue, read together in Get2; `err` is the one
with the extra reader, getFutureStatus).  Threads: client call c ↦ 2c, worker w ↦ 2w+1.  Sync objects of future f:
updateTime (atomic pointer), predecessor (atomic pointer), wg (WaitGroup).

  setValue (worker holding the job, three LTS steps)      wr · rel upd  |  rel pred  |  rel wg
  Set (one LTS step: setValue on the fresh future)        wr · rel upd · rel pred · rel wg
  getFutureStatus(f)  (Load's critical section, Get2, fetchIfFutureStatusGood on a predecessor, removeRotted)
        current code:  acq upd, then rd ONLY IF the loaded updateTime was non-zero
        old code (`oldStatus = true`):  acq upd, rd   (err was read before the IsZero test)
  getPredecessor(f)                                        acq pred
  Future.Get1/Get2 when Wait returns                       acq wg · rd
Events of one LTS step are emitted in program order.  Shard-lock and job-channel events (further happens-before
edges) are not needed and not emitted.  Core Lean only.
-/
namespace Got.Model.CacheEvents
open Got.Model.Cache Got.Model.CacheCore Got.Model.Discipline

def ctid (c : Cid) : Nat := 2 * c
def wtid (w : Wid) : Nat := 2 * w + 1

def updObj (f : FutId) : Nat := 3 * f
def predObj (f : FutId) : Nat := 3 * f + 1
def wgObj (f : FutId) : Nat := 3 * f + 2

/-- getFutureStatus on a non-nil future by thread t; `nonZero` = the loaded updateTime was non-zero -/
def statusEvs (oldStatus : Bool) (t : Nat) (f : FutId) (nonZero : Bool) : List Ev :=
  .acq t (updObj f) :: (if oldStatus || nonZero then [.rd t] else [])

/-- events of future f's location emitted by the next step of client c at pc `pc` -/
def clEvents (oldStatus : Bool) (f : FutId) (s : State) (c : Cid) : CPc → List Ev
  | .ldStart k _ => if s.map k = some f then statusEvs oldStatus (ctid c) f (s.fut f).res.isSome else []
  | .g2Status (some g) => if g = f then statusEvs oldStatus (ctid c) f (s.fut f).res.isSome else []
  | .fetchSt _ (some p) _ => if p = f then statusEvs oldStatus (ctid c) f (s.fut f).res.isSome else []
  | .fetch g _ => if g = f then [.acq (ctid c) (predObj f)] else []
  | .wait g => if g = f then [.acq (ctid c) (wgObj f), .rd (ctid c)] else []
  | .setStart _ _ =>
    if s.nfut = f then
      [.wr (ctid c), .rel (ctid c) (updObj f), .rel (ctid c) (predObj f), .rel (ctid c) (wgObj f)]
    else []
  | _ => []

/-- events of future f's location emitted by the next step of worker w at pc `pc` -/
def wkEvents (cfg : Cfg) (oldStatus : Bool) (f : FutId) (s : State) (w : Wid) : WPc → List Ev
  | .publish j _ => if j.fut = f then [.wr (wtid w), .rel (wtid w) (updObj f)] else []
  | .clearPred j => if j.fut = f then [.rel (wtid w) (predObj f)] else []
  | .wgDone j => if j.fut = f then [.rel (wtid w) (wgObj f)] else []
  | .sweep i =>
    -- removeRotted evaluates the status of every entry of shard i
    if f < s.nfut ∧ cfg.shardOf (s.fut f).key = i ∧ s.map (s.fut f).key = some f then
      statusEvs oldStatus (wtid w) f (s.fut f).res.isSome
    else []
  | _ => []

def actEvents (cfg : Cfg) (oldStatus : Bool) (f : FutId) (s : State) : Act → List Ev
  | .cl c => clEvents oldStatus f s c (s.cpc c)
  | .wk w => wkEvents cfg oldStatus f s w (s.wpc w)
  | _ => []

/-- the events of future f's location emitted by one step (none if the action is not enabled) -/
def stepEvents (cfg : Cfg) (oldStatus : Bool) (f : FutId) (s : State) (a : Act) : List Ev :=
  if (step? cfg s a).isNone then [] else actEvents cfg oldStatus f s a

/-- the trace of future f's location along an execution (actions that are not enabled are no-ops, as in `run`) -/
def errEvents (cfg : Cfg) (oldStatus : Bool) (f : FutId) : State → List Act → List Ev
  | _, [] => []
  | s, a :: as => stepEvents cfg oldStatus f s a ++ errEvents cfg oldStatus f (step cfg s a) as

/-- negative control: a second Load of the key evaluates the status of the future while its loader is running; the
    old status check reads `err` there, and the worker's later write races with that read -/
def oldStatusRun : List Act :=
  [.invLoad 0 0 0, .cl 0, .cl 0, .cl 0, .wTake 0, .wStart 0,     -- Load c0 creates future 0; worker 0 runs its loader
   .invLoad 1 0 1, .cl 1,                                          -- Load c1: getFutureStatus(future 0)
   .wEnd 0 ⟨some 7, none⟩, .wk 0]                                  -- loader returns; setValue writes value/err

def ctlCfg : Cfg := { P := 1, J := 1, S := 1, En := 10, Ee := 5, shardOf := fun _ => 0 }

end Got.Model.CacheEvents
