import Got.Model.Wheel
import Got.Model.Discipline
/-
C18 for loom.Wheel — the event trace of the plain field `wheelData.c` of ONE wheelData object (channel id `c`)
induced by an execution of the fine-grained wheel transition system (Got/Model/Wheel.lean, variant `fixed`).

Threads:  0 = the ticker goroutine (goLoop/onTicker), 1 = the creator (caller of NewWheel), t+2 = requester t.
Sync objects:  0 = the position word, i+1 = slot cell `wheel.channels[i]`  (separate atomic cells).

Events (Got/Model/Discipline.lean):
  * creator (prefix, before anything else exists): for an initial object (c < n) the constructor write
    `&wheelData{c: make(chan struct{})}` = `wr 1`; then NewWheel's stores of the slot cells, seen as a release on
    every slot object (`rel 1 (i+1)`, i < n) — goroutine creation / handing out the *Wheel happens after them;
  * ticker: loadPos = `acq 0 0`; storePos = `rel 0 0`; swapSlot = [constructor write `wr 0` of the fresh object,
    if it is `c`, just BEFORE the swap] then SwapPointer = `acq 0 (tpos+1)`, `rel 0 (tpos+1)`;
    close(lastItem.c) = plain read `rd 0` of the field of the old object (if it is `c`);
  * requester t: loadPos / reloadPos = `acq (t+2) 0`; loadSlot = `acq (t+2) (slot+1)`; when fetchWheelData
    returns object `c` (successful re-check) the caller reads `data.c` (`my.C = data.c` in NewTimer/Reset,
    `<-data.c` in AfterFunc) = `rd (t+2)`.  Objects read in abandoned iterations are never dereferenced.
-/
namespace Got.Model.WheelEvents
open Got.Model.Wheel Got.Model.Discipline

def tickerThr : Nat := 0
def creatorThr : Nat := 1
def reqThr (t : Nat) : Nat := t + 2
def posObj : Nat := 0
def slotObj (i : Nat) : Nat := i + 1

/-- events of one ticker access, for the field of object `c` -/
def evTick (c : Nat) (s : State) : List Ev :=
  match s.tpc with
  | .loadPos => [.acq tickerThr posObj]
  | .storePos => [.rel tickerThr posObj]
  | .swapSlot =>
    (if s.nextChan = c then [Ev.wr tickerThr] else []) ++
      [.acq tickerThr (slotObj s.tpos), .rel tickerThr (slotObj s.tpos)]
  | .close => if s.tlast = c then [.rd tickerThr] else []

/-- events of one access of requester `t` -/
def evReq (c : Nat) (t : Nat) (s : State) : List Ev :=
  match s.rpc t with
  | .idle => []
  | .loadPos => [.acq (reqThr t) posObj]
  | .loadSlot => [.acq (reqThr t) (slotObj ((s.rpos t + s.rk t) % s.n))]
  | .reloadPos =>
    .acq (reqThr t) posObj :: (if s.rpos t = s.pos ∧ s.rdata t = c then [Ev.rd (reqThr t)] else [])

def evStep (c : Nat) (s : State) : Act → List Ev
  | .tick => evTick c s
  | .invoke _ _ => []
  | .reset _ _ _ => []
  | .req t => evReq c t s

/-- trace of an execution from state `s` -/
def chanTrace (c : Nat) : State → List Act → List Ev
  | _, [] => []
  | s, a :: as => evStep c s a ++ chanTrace c (step fixed s a) as

/-- NewWheel: constructor write of an initial object, then publication of every slot cell -/
def creatorPrefix (n c : Nat) : List Ev :=
  (if c < n then [Ev.wr creatorThr] else []) ++ (List.range n).map (fun i => Ev.rel creatorThr (slotObj i))

/-- all events on `wheelData.c` of object `c` in the execution `acts` of an `n`-bucket wheel -/
def chanEvents (n step c : Nat) (acts : List Act) : List Ev :=
  creatorPrefix n c ++ chanTrace c (init n step) acts

end Got.Model.WheelEvents
