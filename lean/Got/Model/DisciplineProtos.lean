import Got.Model.Discipline
/-
C18 — the synchronisation skeletons ("protocols") of the repository's shared plain fields, as small
labelled transition systems that emit the events of Got/Model/Discipline.lean. Environment actions are
unconstrained (any number of threads, any interleaving); only the guards the Go code establishes are
kept. Got/Lemmas/DisciplineProtos.lean proves that every trace of each protocol is accepted by the
discipline monitor, hence race free.

Protocol A  (publish once)   loom.node.value, loom.wheelData.c, loom.WaitClose.closeChan,
                             cachex.Future.value/err, taskx.taskCallback.result/err (single Do)
Protocol B  (ants attempts)  ants.taskCallback.result/err
Protocol C  (mutex guarded)  loom.WaitClose.state (plain reads / atomic stores inside the mutex),
                             loom.WaitClose.closeChan accesses inside Close/checkInitSlow
-/
namespace Got.Model.Discipline

/-! ### Protocol A: a location written by one creator thread before it publishes it -/

structure PubState where
  creator : Nat
  written : Bool            -- creator has written (and will not write again once it has released)
  sealed : Bool             -- creator has performed a release after writing
  knows : Nat → Bool        -- thread has acquired the publication
  pub : Nat → Bool          -- sync object carries the publication

inductive PubAct where
  | write                   -- creator writes the field (allowed any number of times before its first release)
  | release (t a : Nat)     -- any thread releases on any object (store/CAS/Done/close/Unlock/send)
  | acquire (t a : Nat)     -- any thread acquires on any object (load/Wait/receive/Lock)
  | read (t : Nat)          -- guarded: the creator, or a thread that knows
  | creatorRead

def PubState.init (c : Nat) : PubState := ⟨c, false, false, fun _ => false, fun _ => false⟩

def PubState.step (s : PubState) : PubAct → Option (PubState × List Ev)
  | .write => if s.sealed then none else some ({ s with written := true }, [.wr s.creator])
  | .release t a =>
      if t = s.creator then
        some ({ s with sealed := s.sealed || s.written, pub := fun b => s.pub b || (decide (b = a) && s.written) }, [.rel t a])
      else
        some ({ s with pub := fun b => s.pub b || (decide (b = a) && s.knows t) }, [.rel t a])
  | .acquire t a =>
      some ({ s with knows := fun u => s.knows u || (decide (u = t) && s.pub a) }, [.acq t a])
  | .read t => if s.knows t then some (s, [.rd t]) else none
  | .creatorRead => some (s, [.rd s.creator])

/-- trace of an action sequence; actions whose guard fails are not part of any execution (`none`) -/
def PubState.run (s : PubState) : List PubAct → Option (PubState × List Ev)
  | [] => some (s, [])
  | a :: as => match s.step a with
    | none => none
    | some (s', ev) => match s'.run as with
      | none => none
      | some (s'', evs) => some (s'', ev ++ evs)

/-! ### Protocol C: all accesses inside critical sections of one mutex (object 0) -/

structure MuState where
  holder : Option Nat

inductive MuAct where
  | lock (t : Nat) | unlock (t : Nat) | read (t : Nat) | write (t : Nat)

def MuState.init : MuState := ⟨none⟩

def MuState.step (s : MuState) : MuAct → Option (MuState × List Ev)
  | .lock t => if s.holder = none then some (⟨some t⟩, [.acq t 0]) else none
  | .unlock t => if s.holder = some t then some (⟨none⟩, [.rel t 0]) else none
  | .read t => if s.holder = some t then some (s, [.rd t]) else none
  | .write t => if s.holder = some t then some (s, [.wr t]) else none

def MuState.run (s : MuState) : List MuAct → Option (MuState × List Ev)
  | [] => some (s, [])
  | a :: as => match s.step a with
    | none => none
    | some (s', ev) => match s'.run as with
      | none => none
      | some (s'', evs) => some (s'', ev ++ evs)

/-! ### Protocol B: ants — one write per attempt by whichever side wins the per-attempt CAS

Threads: dispatcher = 0, inner worker of attempt k = k (k ≥ 1; a reused worker goroutine would only add
program-order edges), clients = any other id. Objects: wg = 0, closure hand-over of attempt k = 2k+1,
doneChan of attempt k = 2k+2. -/

inductive Decided where
  | none | inner | disp
  deriving DecidableEq, Repr

structure AntsState where
  k : Nat                    -- current attempt (0 = none started yet)
  dispatched : Bool          -- closure of attempt k handed to the inner pool
  taken : Bool               -- inner worker k received it
  decided : Decided          -- who won the CAS of attempt k
  innerWrote : Bool
  closed : Bool              -- doneChan k closed
  waited : Bool              -- dispatcher received from doneChan k
  readDone : Bool            -- dispatcher has read my.err after attempt k (attempt over)
  finished : Bool            -- wg.Done executed

inductive AntsAct where
  | dispatch                 -- start next attempt: send closure (release)
  | take                     -- inner worker receives closure (acquire)
  | innerWin                 -- inner CAS(decided,0,1) succeeds, writes result/err
  | innerClose               -- inner closes doneChan (after its CAS attempt or after skipping on ctx.Done)
  | dispWin                  -- dispatcher CAS(decided,0,2) succeeds, writes (nil, DeadlineExceeded)
  | dispWait                 -- dispatcher lost the CAS: <-doneChan
  | dispRead                 -- dispatcher reads my.err in run()
  | finish                   -- wg.Done
  | clientGet (c : Nat)      -- Get2/Err: wg.Wait then read (two events)

def AntsState.init : AntsState := ⟨0, false, false, .none, false, false, false, true, false⟩

def chanObj (k : Nat) : Nat := 2 * k + 1
def doneObj (k : Nat) : Nat := 2 * k + 2

def AntsState.step (s : AntsState) : AntsAct → Option (AntsState × List Ev)
  | .dispatch =>
      if s.readDone && !s.finished then
        some (⟨s.k + 1, true, false, .none, false, false, false, false, false⟩, [.rel 0 (chanObj (s.k + 1))])
      else none
  | .take =>
      if s.dispatched && !s.taken then some ({ s with taken := true }, [.acq s.k (chanObj s.k)]) else none
  | .innerWin =>
      if s.taken && s.decided = .none && !s.closed then
        some ({ s with decided := .inner, innerWrote := true }, [.wr s.k])
      else none
  | .innerClose =>
      if s.taken && !s.closed then some ({ s with closed := true }, [.rel s.k (doneObj s.k)]) else none
  | .dispWin =>
      if s.dispatched && s.decided = .none then some ({ s with decided := .disp }, [.wr 0]) else none
  | .dispWait =>
      if s.decided = .inner && s.closed && !s.waited then some ({ s with waited := true }, [.acq 0 (doneObj s.k)]) else none
  | .dispRead =>
      if !s.readDone && (s.decided = .disp || (s.decided = .inner && s.waited)) then
        some ({ s with readDone := true }, [.rd 0])
      else none
  | .finish =>
      if s.readDone && !s.finished && s.k ≠ 0 then some ({ s with finished := true }, [.rel 0 0]) else none
  | .clientGet c =>
      if s.finished && c ≠ 0 then some (s, [.acq c 0, .rd c]) else none

def AntsState.run (s : AntsState) : List AntsAct → Option (AntsState × List Ev)
  | [] => some (s, [])
  | a :: as => match s.step a with
    | none => none
    | some (s', ev) => match s'.run as with
      | none => none
      | some (s'', evs) => some (s'', ev ++ evs)

/-- the OLD ants code: no CAS — the inner worker writes after its ctx check, the dispatcher's deadline
    branch writes too. One concrete execution of it, as a trace. -/
def oldAntsTornTrace : List Ev :=
  [.rel 0 3, .acq 1 3, .wr 0, .rd 0, .rel 0 0, .wr 1, .acq 7 0, .rd 7]

/-- the OLD cachex status check: read of `err` by a Load (thread 1) with no acquire, while the worker
    (thread 0) writes it. -/
def oldCacheErrTrace : List Ev := [.wr 0, .rd 1, .rel 0 5]

/-- ants Task.Err() before the fix: client read without Wait. -/
def oldAntsErrTrace : List Ev := [.rel 0 3, .acq 1 3, .wr 1, .rd 9]

end Got.Model.Discipline
