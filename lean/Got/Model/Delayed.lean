import Got.Generated.LitsTaskx
/-
Model of taskx.SendDelayed (taskx/delayed_queue.go, task_delayed.go, queue.go:SendDelayed,
std/priority_queue.go over Go's container/heap).

`DelayedHeap` is a transcription of container/heap's Push / Pop / up / down over a slice (Array)
with `Less(i, j) = lt a[i] a[j]`  (std.sorter.Less → taskDelayed.Less: triggerTime <).

The delayed queue itself is a timed labelled transition system:

  goLoop:  ticker := NewTicker(1000ms) ; pq := NewPriorityQueue(32)
           for { select {
             case <-ticker.C:  timestamp := now
                               for pq.Len() > 0 { task := pq.Top(); if task.triggerTime > timestamp { break }
                                                  pq.Pop(); task.Do(nil) }      -- Do = task.queue.SendCallback(handler)
             case task := <-my.tasks:  pq.Push(task) } }
  SendDelayed(d, h): task := {queue, h, triggerTime: now + d} ; my.tasks <- task        (chan cap 128)
  task.Do = task.queue.SendCallback(handler) = select { case <-closeChan: ; case C <- task: }: on a closed target queue
  the closeChan branch may be taken (it must be when C is full): the delayed task is consumed, nothing is delivered,
  and the loop goes on with the next entry of the same tick.

Time: `now` (ns).  The ticker fires at `nextTick` (a multiple of the period), the tick is kept in
ticker.C (capacity 1) or dropped when one is already pending.  `delay` is enabled only when no
internal transition of the loop or of a blocked sender is (maximal progress — the semantics of the Go
runtime's faketime clock, and of a machine on which the loop's computation takes negligible time).
-/
namespace Got.Model.DelayedHeap

variable {α : Type}

/-- container/heap.up -/
def up (lt : α → α → Bool) (a : Array α) (j : Nat) : Array α :=
  if hj : j < a.size then
    if hij : (j - 1) / 2 = j then a
    else if lt a[j] (a[(j - 1) / 2]'(by omega)) then up lt (a.swapIfInBounds ((j - 1) / 2) j) ((j - 1) / 2)
    else a
  else a
termination_by j
decreasing_by omega

/-- the smaller child of i in the prefix of length n (`j` in container/heap.down) -/
def child (lt : α → α → Bool) (a : Array α) (i n : Nat) (h : 2 * i + 1 < n ∧ n ≤ a.size) : Nat :=
  if h2 : 2 * i + 2 < n then
    (if lt (a[2 * i + 2]'(by omega)) (a[2 * i + 1]'(by omega)) then 2 * i + 2 else 2 * i + 1)
  else 2 * i + 1

theorem child_spec (lt : α → α → Bool) (a : Array α) (i n : Nat) (h : 2 * i + 1 < n ∧ n ≤ a.size) :
    child lt a i n h = 2 * i + 1 ∨ (child lt a i n h = 2 * i + 2 ∧ 2 * i + 2 < n) := by
  unfold child
  split
  · split
    · right; constructor <;> first | rfl | assumption
    · left; rfl
  · left; rfl

theorem child_lt (lt : α → α → Bool) (a : Array α) (i n : Nat) (h : 2 * i + 1 < n ∧ n ≤ a.size) :
    child lt a i n h < n ∧ i < child lt a i n h := by
  have := child_spec lt a i n h
  omega

/-- container/heap.down on the prefix of length n -/
def down (lt : α → α → Bool) (a : Array α) (i n : Nat) : Array α :=
  if h1 : 2 * i + 1 < n ∧ n ≤ a.size then
    if lt (a[child lt a i n h1]'(by have := child_lt lt a i n h1; omega)) (a[i]'(by omega)) then
      down lt (a.swapIfInBounds i (child lt a i n h1)) (child lt a i n h1) n
    else a
  else a
termination_by n - i
decreasing_by
  have := child_lt lt a i n h1
  omega

/-- heap.Push: append, then up from the last index -/
def push (lt : α → α → Bool) (a : Array α) (x : α) : Array α := up lt (a.push x) a.size

/-- heap.Pop: swap 0 and n-1, down on the first n-1, remove the last (the returned value is the old a[0]) -/
def pop (lt : α → α → Bool) (a : Array α) : Array α :=
  let n := a.size - 1
  (down lt (a.swapIfInBounds 0 n) 0 n).pop

end Got.Model.DelayedHeap

namespace Got.Model.Delayed
open Got.Model

/-- ticker period in ns: `1000 * time.Millisecond` (literal from the source; time.Millisecond = 10^6 ns) -/
def tickNs : Nat := (Got.Facts.lits_taskx_delayedQueue_goLoop.headD 0).toNat * 1000000

/-- capacity of `delayedQueue.tasks` -/
def reqCap : Nat := (Got.Facts.lits_taskx_newDelayedQueue.headD 0).toNat

structure Req where
  id : Nat
  queue : Nat
  trigger : Int     -- triggerTime (ns)
  sent : Nat        -- ghost: instant of the SendDelayed call
  deriving DecidableEq, Repr, Inhabited

/-- taskDelayed.Less -/
def less (a b : Req) : Bool := a.trigger < b.trigger

inductive LPc where
  | select
  | tickLoop (ts : Nat)               -- in `for pq.Len() > 0`, timestamp ts
  | forwarding (ts : Nat) (r : Req)   -- r popped; inside r.queue.SendCallback, before its select
  deriving DecidableEq, Repr

structure State where
  now : Nat
  nextTick : Nat
  tickPending : Bool
  senders : List Req            -- SendDelayed calls parked at `my.tasks <- task`
  reqChan : List Req
  heap : Array Req
  lpc : LPc
  q : Nat → List Req            -- target queues' channels
  qcap : Nat → Nat
  qclosed : Nat → Bool          -- the target queue's closeChan is closed
  -- ghost
  nextId : Nat
  forwarded : List (Req × Nat)  -- (request, instant at which it was placed on its queue), in order
  blockedEver : Bool            -- time has passed while the loop was blocked on a full target queue
  dropped : List Req            -- requests consumed through the `<-closeChan` branch of a closed target queue

def init (qcap : Nat → Nat) : State :=
  { now := 0, nextTick := tickNs, tickPending := false, senders := [], reqChan := [], heap := #[], lpc := .select,
    q := fun _ => [], qcap := qcap, qclosed := fun _ => false, nextId := 0, forwarded := [], blockedEver := false,
    dropped := [] }

inductive Act where
  | sendDelayed (q : Nat) (d : Int)   -- a goroutine calls Queue(q).SendDelayed(d, handler≠nil)
  | enq (i : Nat)                     -- the i-th parked sender's channel send succeeds
  | pushReq                           -- loop: case task := <-my.tasks: pq.Push(task)
  | tickRecv                          -- loop: case <-ticker.C: timestamp := now
  | tickTest                          -- loop: one evaluation of the `for` condition / trigger test (+ Pop)
  | forward                           -- loop: SendCallback's `C <- task` on the target queue
  | forwardDrop                       -- loop: SendCallback's `<-closeChan` branch (target queue closed): task consumed
  | closeQ (q : Nat)                  -- the owner of queue q closes its close channel
  | qRecv (q : Nat)                   -- the consumer of queue q receives
  | tickFire                          -- the ticker's timer fires
  | delay (d : Nat)                   -- time passes
  deriving Repr

def updQ (f : Nat → List Req) (a : Nat) (b : List Req) : Nat → List Req := fun x => if x = a then b else f x

def loopEnabled (s : State) : Bool :=
  match s.lpc with
  | .select => s.tickPending || !s.reqChan.isEmpty
  | .tickLoop _ => true
  | .forwarding _ r => decide ((s.q r.queue).length < s.qcap r.queue) || s.qclosed r.queue

def enqEnabled (s : State) : Bool := !s.senders.isEmpty && decide (s.reqChan.length < reqCap)

def isForwarding : LPc → Bool
  | .forwarding _ _ => true
  | _ => false

def step (s : State) : Act → Option State
  | .sendDelayed q d =>
    let r : Req := { id := s.nextId, queue := q, trigger := (s.now : Int) + d, sent := s.now }
    some { s with senders := s.senders ++ [r], nextId := s.nextId + 1 }
  | .enq i =>
    match s.senders[i]? with
    | some r =>
      if s.reqChan.length < reqCap then some { s with senders := s.senders.eraseIdx i, reqChan := s.reqChan ++ [r] }
      else none
    | none => none
  | .pushReq =>
    match s.lpc, s.reqChan with
    | .select, r :: rest => some { s with reqChan := rest, heap := DelayedHeap.push less s.heap r }
    | _, _ => none
  | .tickRecv =>
    match s.lpc with
    | .select => if s.tickPending then some { s with tickPending := false, lpc := .tickLoop s.now } else none
    | _ => none
  | .tickTest =>
    match s.lpc with
    | .tickLoop ts =>
      match s.heap[0]? with
      | none => some { s with lpc := .select }                       -- pq.Len() == 0
      | some top =>
        if top.trigger > (ts : Int) then some { s with lpc := .select } -- break
        else some { s with heap := DelayedHeap.pop less s.heap, lpc := .forwarding ts top }
    | _ => none
  | .forward =>
    match s.lpc with
    | .forwarding ts r =>
      if (s.q r.queue).length < s.qcap r.queue then
        some { s with q := updQ s.q r.queue (s.q r.queue ++ [r]), forwarded := s.forwarded ++ [(r, s.now)], lpc := .tickLoop ts }
      else none
    | _ => none
  | .forwardDrop =>
    match s.lpc with
    | .forwarding ts r =>
      if s.qclosed r.queue then some { s with dropped := s.dropped ++ [r], lpc := .tickLoop ts } else none
    | _ => none
  | .closeQ q => some { s with qclosed := fun x => if x = q then true else s.qclosed x }
  | .qRecv q =>
    match s.q q with
    | _ :: rest => some { s with q := updQ s.q q rest }
    | [] => none
  | .tickFire =>
    if s.now = s.nextTick then some { s with tickPending := true, nextTick := s.nextTick + tickNs } else none
  | .delay d =>
    if 0 < d ∧ s.now + d ≤ s.nextTick ∧ loopEnabled s = false ∧ enqEnabled s = false then
      some { s with now := s.now + d, blockedEver := s.blockedEver || isForwarding s.lpc }
    else none

def stepD (s : State) (a : Act) : State := (step s a).getD s

def run (qcap : Nat → Nat) (acts : List Act) : State := acts.foldl stepD (init qcap)

def Reachable (qcap : Nat → Nat) (s : State) : Prop := ∃ acts, s = run qcap acts

end Got.Model.Delayed
