import Got.Model.TaskQ
import Got.Model.Discipline
/-
C18 for taskx (taskCallback.result / taskCallback.err), derived from the LTS of Got/Model/TaskQ.lean (core Lean only).

For a task id `k` the two plain fields `result`, `err` are treated as ONE location (they are always written and read
together).  An execution is a list of extended actions: the LTS actions of Got.Model.TaskQ plus client calls
`get2 t id` (goroutine `t` calls Get1/Get2 on taskCallback `id`; it returns iff `wg.Wait()` returns, i.e. `done id`).
The trace of `Got.Model.Discipline.Ev` events induced by the execution, defined by recursion alongside the run:

  put p      (select branch `C <- task`, task = k)                      rel (producer p) chanObj
  recv       (consumer `task := <-C`, task = k)                         acq consumer chanObj
  store      (consumer in Do: `task.result, task.err = handler(args)`)  wr consumer
  finish     (consumer in Do: `if !isHandled {…; wg.Done()}`, then `return task.err`)
                                                                        [rel consumer (wgObj k)] (first Do only) ; rd consumer
  get2 t k   (client: `wg.Wait()` returns, `return task.result, task.err`)   acq (client t) (wgObj k) ; rd (client t)

The zero initialisation of the fields by `&taskCallback{handler: handler}` is not an event (the pointer reaches other
goroutines only through the channel send / the return value of SendCallback, both after the allocation).

The LTS allows a second `Do` of a task (`redo`, or the task sent again with SendTask): its `store` is a plain write
while clients may already have read — the limitation documented in task_callback.go ("无法保证Get2()返回的数据是最新的",
"假定Do()方法只可能在同一个goroutine中反复调用").  The theorems of Got/Lemmas/DiscTaskQ.lean are therefore stated for
executions in which the handler of `k` runs at most once (`execCount k ≤ 1`, C18's scope "each task executed once"),
and the negative control shows that a second Do after a client's Get2 is rejected.
-/
namespace Got.Model.TaskQEvents
open Got.Model.TaskQ

abbrev DEv := Got.Model.Discipline.Ev

/-- thread ids: the consumer, producer p, client t -/
def consT : Nat := 0
def prodT (p : Nat) : Nat := 2 * p + 1
def cliT (t : Nat) : Nat := 2 * t + 2

/-- sync objects: the channel `C`, the WaitGroup of task k -/
def chanObj : Nat := 0
def wgObj (k : Nat) : Nat := k + 1

inductive XAct where
  | act (a : Act)                 -- a transition of the TaskQ LTS (skipped when disabled)
  | get2 (t : Nat) (id : Nat)     -- client goroutine t: Get1/Get2 on taskCallback id (no step while blocked in Wait)
  deriving Repr

def xstep (s : State) : XAct → State
  | .act a => stepD s a
  | .get2 _ _ => s

def xrun (s : State) (acts : List XAct) : State := acts.foldl xstep s

/-- events on `result/err` of task k of the step `a` taken in state `s` -/
def evOf (k : Nat) (s : State) : XAct → List DEv
  | .act (.put p) =>
    match s.ppc p with
    | .sel m => if m.task = .cb k ∧ s.chan.length < s.cap then [.rel (prodT p) chanObj] else []
    | _ => []
  | .act .recv =>
    match s.cpc, s.chan with
    | .idle, m :: _ => if m.task = .cb k then [.acq consT chanObj] else []
    | _, _ => []
  | .act .store =>
    match s.cpc with
    | .ran id _ => if id = k then [.wr consT] else []
    | _ => []
  | .act .finish =>
    match s.cpc with
    | .stored id => if id = k then (if s.handled k then [] else [.rel consT (wgObj k)]) ++ [.rd consT] else []
    | _ => []
  | .get2 t id => if id = k ∧ s.done k = true then [.acq (cliT t) (wgObj k), .rd (cliT t)] else []
  | _ => []

/-- the `result/err` trace of task k along the execution `acts` from `s` -/
def resultEvents (k : Nat) (s : State) : List XAct → List DEv
  | [] => []
  | a :: as => evOf k s a ++ resultEvents k (xstep s a) as

/-- number of times the handler of task k was executed by the consumer -/
def execCount (k : Nat) (s : State) : Nat := s.execLog.countP (fun e => decide (e.1 = k))

end Got.Model.TaskQEvents
