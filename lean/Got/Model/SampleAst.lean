import Got.Model.Sample
import Got.Model.HeapAstWorld
import Got.Model.MiniGoIface
import Got.Generated.AstRandxSampleHeap
import Got.Model.MiniGoSampleLoop
import Got.Generated.AstRandxSampling
/-
randx.WeightedSampling with the container/heap calls INTERPRETED from the terms regenerated from
$GOROOT/src/container/heap/heap.go (Got/Generated/AstContainerHeap.lean, interpreter Got/Model/MiniGoHeap.lean over the
slice-backed `heapWorld`): `heap.Push(&h, item)` is `pushAst`, `heap.Pop(&h)` is `popAst`.  The loop of WeightedSampling
itself (argument check, `h.Len() < sampleNum`, `ki > h.Get(0).ki`, result read-out) is the hand-written transcription of
Got/Model/Sample.lean, repeated here line by line.  `none` = out of fuel; a panic of a heap operation is the model's
index-range panic.  Used by `drv_sample ast` and by the theorems `C20_translated_source_*`.
-/
namespace Got.Model.SampleAst
open Got.Model Got.Model.Sample Got.Model.HeapAst

variable {κ : Type}

/-- one loop iteration; `none` = out of fuel, `some none` = panic -/
def stepAst (fuel : Nat) (less gt : κ → κ → Bool) (m : Nat) (h : Array (Item κ)) (i : Nat) (ki : κ) :
    Option (Option (Array (Item κ))) :=
  if h.size < m then pushAst fuel (itemLess less) h ⟨ki, i⟩
  else
    match h[0]? with
    | none => some none
    | some top =>
      if gt ki top.ki then
        match pushAst fuel (itemLess less) h ⟨ki, i⟩ with
        | some (some h1) =>
          if h1.size > m then (popAst fuel (itemLess less) h1).map (fun o => o.map (·.2)) else some (some h1)
        | o => o
      else some (some h)

def loopAst (fuel : Nat) (less gt : κ → κ → Bool) (m : Nat) :
    Array (Item κ) → Nat → List κ → Option (Option (Array (Item κ)))
  | h, _, [] => some (some h)
  | h, i, k :: ks =>
    match stepAst fuel less gt m h i k with
    | some (some h1) => loopAst fuel less gt m h1 (i + 1) ks
    | o => o

def weightedSamplingAst (fuel : Nat) (less gt : κ → κ → Bool) (sampleNum : Int) (keys : List κ) : Option Result :=
  if (keys.length : Int) < sampleNum ∨ keys.length = 0 then some (.error .invalidInputs)
  else if sampleNum < 0 then some (.error .makeCap)
  else
    match loopAst fuel less gt sampleNum.toNat #[] 0 keys with
    | none => none
    | some none => some (.error .indexRange)
    | some (some h) => some (readResults sampleNum.toNat h)

/-- fuel used by the driver: `up`/`down` iterate at most ⌈lg n⌉ times, plus a few statements per call -/
def driverFuel (n : Nat) : Nat := 2 * n + 200

/-! ### the same loop over the world GENERATED from the methods of randx.sampleHeap

`sampleWorld less` is the heap.Interface world built (Got/Model/MiniGoIface.lean: `worldOf`) from the description of
`(*sampleHeap).Len/Less/Swap/Push/Pop` that tools/srcfacts regenerates from /repo/randx/sample.go on every run
(Got/Generated/AstRandxSampleHeap.lean); `h.Get(0)` is `getOf sampleHeap h 0`.  `drv_sample ast` runs THIS version:
container/heap terms from GOROOT interpreted over the interface methods from /repo. -/

open Got.Model.MiniGoHeap Got.Model.MiniGoIface Got.Generated.AstContainerHeap in
section
/-- the field `ki` of `sampleHeapItem` compared with `<` -/
def keyField (less : κ → κ → Bool) : String → Option (Item κ → Item κ → Bool) :=
  fun f => if f = "ki" then some (itemLess less) else none

def sampleWorld (less : κ → κ → Bool) : World (Array (Item κ)) (Item κ) :=
  worldOf Got.Generated.AstRandxSampleHeap.sampleHeap (keyField less)

def pushW (fuel : Nat) (W : World (Array (Item κ)) (Item κ)) (a : Array (Item κ)) (x : Item κ) : Option (Option (Array (Item κ))) :=
  arrOf (h_Push.run W prog fuel [] (some x) a)

def popW (fuel : Nat) (W : World (Array (Item κ)) (Item κ)) (a : Array (Item κ)) : Option (Option (Item κ × Array (Item κ))) :=
  match h_Pop.run W prog fuel [] none a with
  | some (.done _ (some x) w) => some (some (x, w))
  | some (.done _ none _) => none
  | some .panic => some none
  | none => none

def stepAstW (fuel : Nat) (W : World (Array (Item κ)) (Item κ)) (get0 : Array (Item κ) → Option (Item κ)) (gt : κ → κ → Bool)
    (m : Nat) (h : Array (Item κ)) (i : Nat) (ki : κ) : Option (Option (Array (Item κ))) :=
  if W.len h < (m : Int) then pushW fuel W h ⟨ki, i⟩
  else
    match get0 h with
    | none => some none
    | some top =>
      if gt ki top.ki then
        match pushW fuel W h ⟨ki, i⟩ with
        | some (some h1) =>
          if W.len h1 > (m : Int) then (popW fuel W h1).map (fun o => o.map (·.2)) else some (some h1)
        | o => o
      else some (some h)

def loopAstW (fuel : Nat) (W : World (Array (Item κ)) (Item κ)) (get0 : Array (Item κ) → Option (Item κ)) (gt : κ → κ → Bool)
    (m : Nat) : Array (Item κ) → Nat → List κ → Option (Option (Array (Item κ)))
  | h, _, [] => some (some h)
  | h, i, k :: ks =>
    match stepAstW fuel W get0 gt m h i k with
    | some (some h1) => loopAstW fuel W get0 gt m h1 (i + 1) ks
    | o => o

def weightedSamplingAstW (fuel : Nat) (W : World (Array (Item κ)) (Item κ)) (get0 : Array (Item κ) → Option (Item κ))
    (gt : κ → κ → Bool) (sampleNum : Int) (keys : List κ) : Option Result :=
  if (keys.length : Int) < sampleNum ∨ keys.length = 0 then some (.error .invalidInputs)
  else if sampleNum < 0 then some (.error .makeCap)
  else
    match loopAstW fuel W get0 gt sampleNum.toNat #[] 0 keys with
    | none => none
    | some none => some (.error .indexRange)
    | some (some h) => some (readResults sampleNum.toNat h)

/-- what `drv_sample ast` runs: heap code from GOROOT over the interface methods from /repo -/
def weightedSamplingGen (fuel : Nat) (less gt : κ → κ → Bool) (sampleNum : Int) (keys : List κ) : Option Result :=
  weightedSamplingAstW fuel (sampleWorld less) (fun h => getOf Got.Generated.AstRandxSampleHeap.sampleHeap h 0) gt sampleNum keys
end

/-! ### the whole function from generated terms

`weightedSamplingFull`: the body of WeightedSampling as re-described from /repo/randx/sample.go on every run
(Got/Generated/AstRandxSampling.lean, interpreter Got/Model/MiniGoSampleLoop.lean), its heap calls being the container/heap
terms from GOROOT interpreted over the world generated from the methods of sampleHeap.  No hand-written glue is left except
the float key computation, which is an input.  This is what `drv_sample ast` prints. -/

/-- heap operations for the generated loop, at a given fuel -/
def genOps (fuel : Nat) (less : κ → κ → Bool) : Got.Model.MiniGoSampleLoop.Ops κ where
  push h x := pushW fuel (sampleWorld less) h x
  pop h := (popW fuel (sampleWorld less) h).map (fun o => o.map (·.2))
  get h i := Got.Model.MiniGoIface.getOf Got.Generated.AstRandxSampleHeap.sampleHeap h i

def weightedSamplingFull (fuel : Nat) (less gt : κ → κ → Bool) (sampleNum : Int) (keys : List κ) : Option Result :=
  Got.Generated.AstRandxSampling.weightedSampling.run (genOps fuel less) gt keys fuel sampleNum (keys.length : Int)

/-- `weightedSamplingFull` with the keys in an array (constant-time key lookup): what `drv_sample ast` calls -/
def weightedSamplingFullA (fuel : Nat) (less gt : κ → κ → Bool) (sampleNum : Int) (keys : Array κ) : Option Result :=
  Got.Generated.AstRandxSampling.weightedSampling.runA (genOps fuel less) gt keys fuel sampleNum (keys.size : Int)

theorem weightedSamplingFullA_eq (fuel : Nat) (less gt : κ → κ → Bool) (sampleNum : Int) (keys : List κ) :
    weightedSamplingFullA fuel less gt sampleNum keys.toArray = weightedSamplingFull fuel less gt sampleNum keys := by
  unfold weightedSamplingFullA weightedSamplingFull
  rw [Got.Model.MiniGoSampleLoop.Fn.runA_eq]
  rfl

end Got.Model.SampleAst
