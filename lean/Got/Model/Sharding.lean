import Got.Generated.LitsLoom
/-
loom/sharding.go GetShardingIndex and loom/sharding_option.go convertPowerOfTwo as pure functions.
Go `int` is 64 bit (amd64/arm64), so `int(next)` of an int64 is the identity on the bit pattern.
Core Lean only.
-/
namespace Got.Model.Sharding

/-- the ten key kinds GetShardingIndex supports (anything else panics) -/
inductive TKey
  | int (v : Int) | int8 (v : Int) | int16 (v : Int) | int32 (v : Int) | int64 (v : Int)
  | uint8 (v : Nat) | uint16 (v : Nat) | uint32 (v : Nat) | uint64 (v : Nat)
  | str (bytes : List Nat)
  deriving DecidableEq, Repr

def fnvOffset : Nat := (Got.Facts.lits_loom_fnv32.headD 2166136261).toNat
def fnvPrime : Nat := (Got.Facts.lits_loom_fnv32.getD 1 16777619).toNat

/-- fnv32: `hash *= prime32; hash ^= uint32(key[i])` over uint32 -/
def fnv32 (bs : List Nat) : BitVec 32 :=
  bs.foldl (fun h b => (h * BitVec.ofNat 32 fnvPrime) ^^^ BitVec.ofNat 32 (b % 256)) (BitVec.ofNat 32 fnvOffset)

/-- the `next int64` of GetShardingIndex: sign extension for signed kinds, zero extension for unsigned,
    reinterpretation for uint64, zero-extended fnv32 for strings -/
def next64 : TKey → BitVec 64
  | .int v => BitVec.ofInt 64 v
  | .int8 v => (BitVec.ofInt 8 v).signExtend 64
  | .int16 v => (BitVec.ofInt 16 v).signExtend 64
  | .int32 v => (BitVec.ofInt 32 v).signExtend 64
  | .int64 v => BitVec.ofInt 64 v
  | .uint8 v => (BitVec.ofNat 8 v).setWidth 64
  | .uint16 v => (BitVec.ofNat 16 v).setWidth 64
  | .uint32 v => (BitVec.ofNat 32 v).setWidth 64
  | .uint64 v => BitVec.ofNat 64 v
  | .str bs => (fnv32 bs).setWidth 64

/-- `int(next) & (shardingCount - 1)` as a Go int -/
def indexOfBits (next : BitVec 64) (count : Nat) : Int :=
  (next &&& BitVec.ofNat 64 (count - 1)).toInt

def shardIndex (count : Nat) (k : TKey) : Int := indexOfBits (next64 k) count

/-- the loop of convertPowerOfTwo over Go ints: `for result < sharding { result <<= 1 }`.
    `none` = the shift overflowed (for sharding > 2^62 the Go loop never terminates). -/
def convertLoop (sharding : Int) : Nat → Nat → Option Nat
  | 0, _ => none
  | fuel + 1, result =>
    if (result : Int) < sharding then
      if result * 2 < 2 ^ 63 then convertLoop sharding fuel (result * 2) else none
    else some result

def convertPowerOfTwo (sharding : Int) : Option Nat := convertLoop sharding 64 1

end Got.Model.Sharding
