import Got.Model.WaitClose
import Got.Model.Discipline
/-
C18 for loom.WaitClose, derived from the fine-grained LTS of Got/Model/WaitClose.lean (core Lean only).

Two plain-access analyses, each a trace of `Got.Model.Discipline.Ev` events induced by an execution of the LTS:

(1) location `closeChan` (a plain field):
      wr   checkInitSlow `wc.closeChan = make(...)` (iMake), Close `wc.closeChan = globalClosedChan` (clClose, state new)
      rd   C() `return wc.closeChan` (cRead), WaitUtil's select operand (wTimer), Close `close(wc.closeChan)` (clClose, state
           initialised)
      acq  atomic loads of `state` (load0, isc, clLoad) on `stateObj`; mutex Lock on `muObj`
      rel  atomic stores of `state` (iStore, clStore) on `stateObj`; mutex Unlock on `muObj`
(2) location `state`, plain reads against atomic writes:
      wr   the atomic stores (iStore, clStore)            rd   the plain reads inside the mutex (iCheck, clCheck, clClose)
      acq / rel  mutex Lock / Unlock on `muObj`            (atomic loads are not accesses of this analysis)

The Boolean parameters produce the negative controls: `loadAcq = false` drops the acquire of C()/WaitUtil's first
atomic load (i.e. C() reads closeChan without it); `fastPlain = true` makes that first load a plain read of `state`.
-/
namespace Got.Model.WaitCloseEvents
open Got.Model.WaitClose

abbrev DEv := Got.Model.Discipline.Ev

def muObj : Nat := 0
def stateObj : Nat := 1

/-- events on `closeChan` of the step goroutine `t` is about to take in `s` -/
def chEvT (loadAcq : Bool) (s : St) (t : Nat) : List DEv :=
  match s.pc t with
  | .load0 _ => if loadAcq then [.acq t stateObj] else []
  | .isc | .clLoad _ => [.acq t stateObj]
  | .iLock _ | .clLock _ =>
    match s.mu with
    | none => [.acq t muObj]
    | some _ => []                       -- blocked: no step
  | .iMake _ => [.wr t]
  | .iStore _ | .clStore _ => [.rel t stateObj]
  | .iUnlock _ | .clUnlock _ => [.rel t muObj]
  | .cRead | .wTimer _ => [.rd t]
  | .clClose _ => if s.state = wcInitialized then [.rd t] else [.wr t]
  | _ => []

def chEv (loadAcq : Bool) (s : St) : Act → List DEv
  | .step t => chEvT loadAcq s t
  | _ => []

def closeChanEventsG (loadAcq : Bool) (s : St) : List Act → List DEv
  | [] => []
  | a :: as => chEv loadAcq s a ++ closeChanEventsG loadAcq (step s a) as

/-- the `closeChan` trace of the execution `acts` from `s` -/
def closeChanEvents (s : St) (acts : List Act) : List DEv := closeChanEventsG true s acts

/-- events on `state` (plain reads vs atomic writes) -/
def stEvT (fastPlain : Bool) (s : St) (t : Nat) : List DEv :=
  match s.pc t with
  | .load0 _ => if fastPlain then [.rd t] else []
  | .iLock _ | .clLock _ =>
    match s.mu with
    | none => [.acq t muObj]
    | some _ => []
  | .iCheck _ | .clCheck _ | .clClose _ => [.rd t]
  | .iStore _ | .clStore _ => [.wr t]
  | .iUnlock _ | .clUnlock _ => [.rel t muObj]
  | _ => []

def stEv (fastPlain : Bool) (s : St) : Act → List DEv
  | .step t => stEvT fastPlain s t
  | _ => []

def stateEventsG (fastPlain : Bool) (s : St) : List Act → List DEv
  | [] => []
  | a :: as => stEv fastPlain s a ++ stateEventsG fastPlain (step s a) as

def stateEvents (s : St) (acts : List Act) : List DEv := stateEventsG false s acts

end Got.Model.WaitCloseEvents
