import Got.Model.Ants
/-
ants model: "the pool has nothing left to do".

The transitions of `Got.Model.Ants.step` fall into two classes.
  * environment: `send` (a client decides to call Send), `wEnd` (a running handler decides to return),
    `advance` (the clock);
  * internal: everything else — the rest of `Send` once called (busy test, discard callback, enqueue), every
    dispatcher step, every inner-worker step (including *entering* the handler, `wStart`), and the firing of an
    armed context timer whose deadline has been reached (`fire`).
`Quiescent c s` = no internal transition is enabled in `s` and no handler call is in progress.  (A handler that is
still running is the pool's unfinished business even though only the environment can end it, hence the second
conjunct.)  `Got.Lemmas.AntsLive` shows that in a reachable quiescent state no context timer is armed either, both
channels are empty and every inner-worker slot is free, so the definition needs no third conjunct about timers:
letting time pass can never enable anything again.
`idle c s` is the executable form (it scans the finitely many candidate transitions `internalActs`); the two
coincide on reachable states (`quiescent_iff_idle`).
-/
namespace Got.Model.Ants

/-- transitions taken by the pool's own goroutines, by a client goroutine already inside `Send`, or by a context
    timer; the complement is the environment: calling `Send`, returning from a handler, the passage of time -/
def Act.internal : Act → Bool
  | .send _ _ | .wEnd _ _ _ _ | .advance _ => false
  | _ => true

/-- some handler call has been entered and has not returned yet (executable: scans the attempts begun) -/
def handlerRunning (s : State) : Bool :=
  s.tasks.any fun k =>
    let t := s.task k
    (List.range t.att).any fun a =>
      match (t.at_ a).pc with
      | .running _ _ => true
      | _ => false

/-- the pool has nothing left to do: no goroutine of the pool (nor a client inside Send, nor a due context timer)
    can take a step, and every handler call that was started has returned -/
def Quiescent (c : Cfg) (s : State) : Prop :=
  (∀ act, act.internal = true → step c s act = none) ∧
  (∀ k a w hon, ((s.task k).at_ a).pc ≠ .running w hon)

/-- executable form of `Quiescent` (equal to it in every reachable state) -/
def idle (c : Cfg) (s : State) : Bool :=
  (internalActs c s).all (fun a => (step c s a).isNone) && !handlerRunning s

/-- a context timer is still armed: an attempt that was begun whose ctx1 is not done yet -/
def armedTimer (s : State) : Bool :=
  s.tasks.any fun k =>
    let t := s.task k
    (List.range t.att).any fun a => !(t.at_ a).ctxDone

end Got.Model.Ants
