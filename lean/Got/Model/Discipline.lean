/-
C18 — publication discipline for plain (non-atomic) shared locations.

The Go memory model defines a data race as two conflicting accesses (same location, different
goroutines, at least one write) that are not ordered by happens-before, where happens-before is the
transitive closure of program order and synchronises-with edges (a release — atomic store /
successful CAS / WaitGroup.Done / close / channel send / Unlock — observed by an acquire — atomic
load that reads it / Wait returning / receive / Lock).

This file contains
  * `Ev`, `HB`, `RaceFree`: the declarative definition on traces of events of ONE plain location;
  * `Mon`: an executable monitor (a set-based, single-location form of the vector-clock algorithm)
    whose guards are what the code's publication protocols establish:
      - a thread may READ only if it is ordered after every write so far        (`wcur t`)
      - a thread may WRITE only if it is ordered after every access so far      (`acur t`)
    `carriesW a` / `carriesA a` say that sync object `a` has been released by a thread with that
    knowledge, so that an acquire on `a` transfers it.
  * the soundness theorem lives in Got/Lemmas/Discipline.lean and Got/Props/C18.lean:
    every trace the monitor accepts is race free.

Modelling assumption (trusted, stated in DESIGN.md): an acquire on object `a` synchronises with every
earlier release on `a`. This is how the modelled objects behave: WaitGroup (Wait returns after all
Done calls), closed channel, mutex (Unlock→Lock chain), a chain of CAS/Swap operations, and atomic
words all of whose stores are made by threads that are themselves ordered (single writer, or writers
serialised by a mutex).
-/
namespace Got.Model.Discipline

inductive Ev where
  | rd (t : Nat)            -- plain read of the location by thread t
  | wr (t : Nat)            -- plain write
  | rel (t : Nat) (a : Nat) -- release on sync object a
  | acq (t : Nat) (a : Nat) -- acquire on sync object a
  deriving Repr, DecidableEq

def Ev.thr : Ev → Nat
  | .rd t => t | .wr t => t | .rel t _ => t | .acq t _ => t

def Ev.isWr : Ev → Bool
  | .wr _ => true | _ => false

def Ev.isAcc : Ev → Bool
  | .rd _ => true | .wr _ => true | _ => false

/-- conflicting accesses: both access the location, different threads, at least one write -/
def conflict (e f : Ev) : Bool :=
  e.isAcc && f.isAcc && (e.isWr || f.isWr) && decide (e.thr ≠ f.thr)

/-- happens-before on positions of a trace -/
inductive HB (tr : List Ev) : Nat → Nat → Prop where
  | po (i j : Nat) (e f : Ev) : i < j → tr[i]? = some e → tr[j]? = some f → e.thr = f.thr → HB tr i j
  | sw (i j t u a : Nat) : i < j → tr[i]? = some (.rel t a) → tr[j]? = some (.acq u a) → HB tr i j
  | trans (i j k : Nat) : HB tr i j → HB tr j k → HB tr i k

def RaceFree (tr : List Ev) : Prop :=
  ∀ i j e f, i < j → tr[i]? = some e → tr[j]? = some f → conflict e f = true → HB tr i j

/-- monitor state -/
structure Mon where
  wcur : Nat → Bool      -- thread is ordered after every write so far
  acur : Nat → Bool      -- thread is ordered after every access so far
  carW : Nat → Bool      -- object carries "after every write so far"
  carA : Nat → Bool      -- object carries "after every access so far"

def Mon.init : Mon := ⟨fun _ => true, fun _ => true, fun _ => false, fun _ => false⟩

/-- one event: `none` = the discipline is violated (a guard fails) -/
def Mon.step (m : Mon) : Ev → Option Mon
  | .rd t => if m.wcur t then
      some { m with acur := fun u => m.acur u && decide (u = t), carA := fun _ => false }
    else none
  | .wr t => if m.acur t then
      some { wcur := fun u => decide (u = t), acur := fun u => decide (u = t),
             carW := fun _ => false, carA := fun _ => false }
    else none
  | .rel t a => some { m with carW := fun b => m.carW b || (decide (b = a) && m.wcur t),
                              carA := fun b => m.carA b || (decide (b = a) && m.acur t) }
  | .acq t a => some { m with wcur := fun u => m.wcur u || (decide (u = t) && m.carW a),
                              acur := fun u => m.acur u || (decide (u = t) && m.carA a) }

def Mon.run (m : Mon) : List Ev → Option Mon
  | [] => some m
  | e :: es => match m.step e with
    | none => none
    | some m' => m'.run es

/-- the discipline accepts the trace -/
def accepts (tr : List Ev) : Bool := (Mon.init.run tr).isSome

end Got.Model.Discipline
