import Got.Spec.Aes
import Got.Generated.Facts
/-
Model of package aesx (aesx/cipher.go, cbc_cipher.go, cfb_cipher.go, option.go, consts.go),
CURRENT code (after `fix:` 9d098d6: pkcs5Padding builds the padded input in a fresh slice).

Memory model.  A Go `[]byte` is a view `(array id, off, len, cap)` into a backing array; the
`Store` maps array ids to their contents.  `make` allocates a fresh array (id = number of arrays
allocated so far, so it never aliases an existing one), `append` writes IN PLACE when
`len + |xs| ≤ cap` and moves to a fresh array otherwise — exactly the rule that made the old
`append(ciphertext, padText...)` scribble over the caller's spare capacity.  Every function takes
the store and returns the new store, so "the caller's backing array is unchanged" is a statement
comparing `st.arr input.id` before and after.

Trusted contracts (standard library, not transcribed):
* `cipher.NewCBCEncrypter/Decrypter(block, iv)` panic unless `len(iv) = BlockSize`, copy the IV;
  `CryptBlocks(dst, src)` panics unless `len(src) % BlockSize = 0` (and `len(dst) ≥ len(src)`),
  writes `Spec.cbcEncrypt/cbcDecrypt` of `src` to `dst[:len(src)]`, writes nothing else.
* `cipher.NewCFBEncrypter/Decrypter(block, iv)` panic unless `len(iv) = BlockSize`;
  `XORKeyStream(dst, src)` writes `Spec.cfbEncrypt/cfbDecrypt` of `src` to `dst[:len(src)]`.
* `aes.NewCipher(key)` fails unless `len(key) ∈ {16,24,32}`; the block is an abstract pair
  `E`/`D` of functions on 16-byte blocks here (the driver instantiates them with `Spec.Aes`).
* growth policy of `append` when it reallocates: only `cap ≥ len` is assumed (modelled: exact fit;
  the capacity of a result is never observed).
-/
namespace Got.Model.Aes
open Got.Spec.Aes (Byte)

/-- aes.BlockSize -/
def blockSize : Nat := 16

/-! ### slices over a store -/

abbrev Store := List (List Byte)

structure Slice where
  id : Nat
  off : Nat
  len : Nat
  cap : Nat
  deriving DecidableEq, Repr

/-- contents of backing array `id` -/
def Store.arr (st : Store) (id : Nat) : List Byte := st.getD id []

def Slice.valid (st : Store) (s : Slice) : Prop :=
  s.id < st.length ∧ s.len ≤ s.cap ∧ s.off + s.cap ≤ (st.arr s.id).length

/-- the bytes `s[0:len]` -/
def Slice.bytes (st : Store) (s : Slice) : List Byte := ((st.arr s.id).drop s.off).take s.len

/-- overwrite `l[pos : pos+|xs|]` by `xs` (Go `copy` into an array that is long enough) -/
def writeAt (l : List Byte) (pos : Nat) (xs : List Byte) : List Byte :=
  l.take pos ++ xs ++ l.drop (pos + xs.length)

def Store.write (st : Store) (id pos : Nat) (xs : List Byte) : Store :=
  st.set id (writeAt (st.arr id) pos xs)

/-- `make([]byte, len, cap)`: a fresh zeroed array -/
def make (st : Store) (len cap : Nat) : Store × Slice :=
  (st ++ [List.replicate cap 0], { id := st.length, off := 0, len := len, cap := cap })

/-- `append(s, xs...)` -/
def append (st : Store) (s : Slice) (xs : List Byte) : Store × Slice :=
  if s.len + xs.length ≤ s.cap then
    (st.write s.id (s.off + s.len) xs, { s with len := s.len + xs.length })
  else
    let old := s.bytes st
    let (st1, t) := make st (s.len + xs.length) (s.len + xs.length)
    (st1.write t.id 0 (old ++ xs), t)

/-! ### cbc_cipher.go -/

/-- CURRENT pkcs5Padding:
      padding := blockSize - len(ciphertext)%blockSize
      padText := bytes.Repeat([]byte{byte(padding)}, padding)
      padded  := make([]byte, 0, len(ciphertext)+padding)
      padded   = append(padded, ciphertext...)
      return append(padded, padText...)                                                     -/
def pkcs5Padding (st : Store) (ciphertext : Slice) (blockSize : Nat) : Store × Slice :=
  let padding := blockSize - ciphertext.len % blockSize
  let padText := List.replicate padding (UInt8.ofNat padding)
  let (st1, padded) := make st 0 (ciphertext.len + padding)
  let (st2, padded) := append st1 padded (ciphertext.bytes st1)
  append st2 padded padText

/-- OLD pkcs5Padding (before 9d098d6): `return append(ciphertext, padText...)` -/
def pkcs5PaddingOld (st : Store) (ciphertext : Slice) (blockSize : Nat) : Store × Slice :=
  let padding := blockSize - ciphertext.len % blockSize
  let padText := List.replicate padding (UInt8.ofNat padding)
  append st ciphertext padText

/-- pkcs5Trimming:
      size := len(encrypt);  if size == 0 { return encrypt }
      padding := encrypt[size-1];  upper := size - int(padding)
      if upper < 0 { return encrypt };  return encrypt[:upper]                               -/
def pkcs5Trimming (st : Store) (encrypt : Slice) : Slice :=
  let size := encrypt.len
  if size = 0 then encrypt
  else
    let padding := (encrypt.bytes st).getD (size - 1) 0
    let upper : Int := (size : Int) - (padding.toNat : Int)
    if upper < 0 then encrypt
    else { encrypt with len := upper.toNat }

inductive Panic where
  | ivLength        -- cipher.NewCBC*/NewCFB*: "IV length must equal block size"
  | notFullBlocks   -- CryptBlocks: "input not full blocks"
  | keySize         -- aes.NewCipher: KeySizeError, re-panicked by NewCipher
  deriving DecidableEq, Repr

abbrev BlockFn := List Byte → List Byte

/-- (my *cbcCipher).Encrypt, with the padding function as a parameter (current / old) -/
def cbcEncryptWith (pad : Store → Slice → Nat → Store × Slice) (E : BlockFn) (iv : List Byte)
    (st : Store) (input : Slice) : Except Panic (Store × Slice) :=
  if iv.length ≠ blockSize then .error .ivLength          -- cipher.NewCBCEncrypter(my.block, my.initialVector)
  else
    let (st1, input) := pad st input blockSize            -- input = pkcs5Padding(input, aes.BlockSize)
    let (st2, output) := make st1 input.len input.len     -- output := make([]byte, len(input))
    if input.len % blockSize ≠ 0 then .error .notFullBlocks
    else                                                  -- encrypt.CryptBlocks(output, input)
      .ok (st2.write output.id 0 (Got.Spec.Aes.cbcEncrypt E iv (input.bytes st2)), output)

def cbcEncrypt := cbcEncryptWith pkcs5Padding
def cbcEncryptOld := cbcEncryptWith pkcs5PaddingOld

/-- (my *cbcCipher).Decrypt -/
def cbcDecrypt (D : BlockFn) (iv : List Byte) (st : Store) (input : Slice) : Except Panic (Store × Slice) :=
  if iv.length ≠ blockSize then .error .ivLength
  else
    let (st1, output) := make st input.len input.len
    if input.len % blockSize ≠ 0 then .error .notFullBlocks
    else
      let st2 := st1.write output.id 0 (Got.Spec.Aes.cbcDecrypt D iv (input.bytes st1))
      .ok (st2, pkcs5Trimming st2 output)

/-! ### cfb_cipher.go -/

def cfbEncrypt (E : BlockFn) (iv : List Byte) (st : Store) (input : Slice) : Except Panic (Store × Slice) :=
  if iv.length ≠ blockSize then .error .ivLength
  else
    let (st1, output) := make st input.len input.len
    .ok (st1.write output.id 0 (Got.Spec.Aes.cfbEncrypt E iv (input.bytes st1)), output)

def cfbDecrypt (E : BlockFn) (iv : List Byte) (st : Store) (input : Slice) : Except Panic (Store × Slice) :=
  if iv.length ≠ blockSize then .error .ivLength
  else
    let (st1, output) := make st input.len input.len
    .ok (st1.write output.id 0 (Got.Spec.Aes.cfbDecrypt E iv (input.bytes st1)), output)

/-! ### option.go, consts.go, cipher.go: NewCipher's mode / IV selection -/

/-- consts.go: `commonIV = 00 01 .. 0f` -/
def commonIV : List Byte := (List.range 16).map UInt8.ofNat

inductive Opt where
  | withCBC
  | withCFB
  | withInitialVector (iv : List Byte)
  deriving DecidableEq, Repr

structure Arguments where
  cipherType : Int
  initialVector : List Byte
  deriving DecidableEq, Repr

def applyOpt (args : Arguments) : Opt → Arguments
  | .withCBC => { args with cipherType := Got.Facts.aesx_cipherTypeCBC }
  | .withCFB => { args with cipherType := Got.Facts.aesx_cipherTypeCFB }
  | .withInitialVector iv =>
    if iv.length ≠ 0 then { args with initialVector := iv } else args

/-- `args` after `for _, opt := range options { opt(&args) }` -/
def selectArgs (options : List Opt) : Arguments :=
  options.foldl applyOpt { cipherType := Got.Facts.aesx_cipherTypeCBC, initialVector := commonIV }

inductive Mode where
  | cbc
  | cfb
  deriving DecidableEq, Repr

/-- the `switch args.cipherType`: CFB for cipherTypeCFB, CBC for everything else -/
def modeOf (args : Arguments) : Mode :=
  if args.cipherType = Got.Facts.aesx_cipherTypeCFB then .cfb else .cbc

structure Cipher where
  mode : Mode
  iv : List Byte
  deriving DecidableEq, Repr

/-- NewCipher (the block itself stays abstract) -/
def newCipher (key : List Byte) (options : List Opt) : Except Panic Cipher :=
  if key.length = 16 ∨ key.length = 24 ∨ key.length = 32 then
    let args := selectArgs options
    .ok { mode := modeOf args, iv := args.initialVector }
  else .error .keySize

def Cipher.encrypt (c : Cipher) (E : BlockFn) (st : Store) (input : Slice) : Except Panic (Store × Slice) :=
  match c.mode with
  | .cbc => cbcEncrypt E c.iv st input
  | .cfb => cfbEncrypt E c.iv st input

def Cipher.decrypt (c : Cipher) (E D : BlockFn) (st : Store) (input : Slice) : Except Panic (Store × Slice) :=
  match c.mode with
  | .cbc => cbcDecrypt D c.iv st input
  | .cfb => cfbDecrypt E c.iv st input

end Got.Model.Aes
