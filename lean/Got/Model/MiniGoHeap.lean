import Got.Model.MiniGoSort
/-
MiniGoHeap — sibling of MiniGoSort (same integer fragment, same numbered-variable environment and 64-bit `wrap`) for
code written against Go's `heap.Interface`: $GOROOT/src/container/heap/heap.go (up, down, Init, Push, Pop, Remove, Fix),
re-translated on every run by tools/srcfacts/minigo_heap.go into Got/Generated/AstContainerHeap.lean.

Differences from MiniGoSort:
* the world has five operations — `h.Len()`, `h.Less(i, j)`, `h.Swap(i, j)`, `h.Push(x)`, `h.Pop()` — and Less / Swap / Pop
  may PANIC (`none`: index out of range in the usual slice-backed implementation); a panic ends the execution (`Res.panic`);
* the expression `.len` is `h.Len()` (expressions are evaluated against the current world);
* a function may have one `x any` parameter (an opaque value of type `ν`, only ever passed to `h.Push`: statement `hpush`)
  and may `return h.Pop()` (`retPop`, result `Res.retv`);
* `return cond` of a bool function is `retB` (the value is 1/0); a call of a bool function in `if !f(…)` is emitted by the
  translator as a call statement into a fresh temporary followed by `if` on that temporary (`bvar`);
* `if init; cond { }`: the init statement is emitted before the `ite`.
-/
namespace Got.Model.MiniGoHeap
open Got.Model.MiniGoSort (wrap Env)

inductive Expr where
  | lit (n : Int)
  | var (x : Nat)
  | neg (a : Expr)
  | add (a b : Expr)
  | sub (a b : Expr)
  | mul (a b : Expr)
  | divC (a : Expr) (k : Nat)      -- `a / k`, `a` signed, `k` a positive constant: truncated division
  | shl (a : Expr) (k : Nat)       -- `a << k`
  | shrS (a : Expr) (k : Nat)      -- `a >> k`, `a` of a signed type
  | shrU (a : Expr) (k : Nat)      -- `a >> k`, `a` of an unsigned type
  | conv (a : Expr)                -- `int(a)` / `uint(a)`: same 64-bit word
  | len                            -- `h.Len()`
  deriving Repr

inductive Cond where
  | tt
  | eq (a b : Expr)
  | ne (a b : Expr)
  | le (a b : Expr)                -- signed operands
  | lt (a b : Expr)
  | or (a b : Cond)
  | and (a b : Cond)
  | not (a : Cond)
  | less (a b : Expr)              -- `h.Less(a, b)`
  | bvar (x : Nat)                 -- a bool local
  deriving Repr

inductive Stmt where
  | set (x : Nat) (e : Expr)
  | set2 (x y : Nat) (e1 e2 : Expr)
  | setB (x : Nat) (c : Cond)
  | ite (c : Cond) (t e : List Stmt)
  | loop (c : Cond) (body post : List Stmt)   -- `for ; c; post { body }`
  | brk
  | ret (es : List Expr)
  | swap (a b : Expr)                          -- `h.Swap(a, b)`
  | retB (c : Cond)                            -- `return cond` of a bool function
  | hpush                                      -- `h.Push(x)`, `x` the function's `any` parameter
  | retPop                                     -- `return h.Pop()`
  | call (f : String) (args : List Expr) (res : List Nat)

structure Fn where
  name : String
  nparams : Nat
  nresults : Nat
  hasAny : Bool
  body : List Stmt

structure World (σ ν : Type) where
  len : σ → Int
  less : σ → Int → Int → Option (Bool × σ)
  swap : σ → Int → Int → Option σ
  push : σ → ν → σ
  pop : σ → Option (ν × σ)

def eval (L : Int) (env : Env) : Expr → Int
  | .lit n => wrap n
  | .var x => env.get x
  | .neg a => wrap (-(eval L env a))
  | .add a b => wrap (eval L env a + eval L env b)
  | .sub a b => wrap (eval L env a - eval L env b)
  | .mul a b => wrap (eval L env a * eval L env b)
  | .divC a k => wrap (Int.tdiv (eval L env a) k)
  | .shl a k => wrap (eval L env a * 2 ^ k)
  | .shrS a k => eval L env a / 2 ^ k
  | .shrU a k => wrap ((eval L env a % 18446744073709551616) / 2 ^ k)
  | .conv a => eval L env a
  | .len => L

variable {σ ν : Type}

/-- `none` = a world operation panicked -/
def evalC (W : World σ ν) (env : Env) : Cond → σ → Option (Bool × σ)
  | .tt, w => some (true, w)
  | .eq a b, w => some (decide (eval (W.len w) env a = eval (W.len w) env b), w)
  | .ne a b, w => some (decide (eval (W.len w) env a ≠ eval (W.len w) env b), w)
  | .le a b, w => some (decide (eval (W.len w) env a ≤ eval (W.len w) env b), w)
  | .lt a b, w => some (decide (eval (W.len w) env a < eval (W.len w) env b), w)
  | .or a b, w =>
    match evalC W env a w with
    | some (true, w') => some (true, w')
    | some (false, w') => evalC W env b w'
    | none => none
  | .and a b, w =>
    match evalC W env a w with
    | some (false, w') => some (false, w')
    | some (true, w') => evalC W env b w'
    | none => none
  | .not a, w => (evalC W env a w).map fun r => (!r.1, r.2)
  | .less a b, w => W.less w (eval (W.len w) env a) (eval (W.len w) env b)
  | .bvar x, w => some (env.get x != 0, w)

inductive Res (σ ν : Type) where
  | ret (vs : List Int) (w : σ)
  | retv (v : ν) (w : σ)               -- `return h.Pop()`
  | cont (env : Env) (w : σ)           -- fell through the end of the block
  | brk (env : Env) (w : σ)            -- `break` on its way to the innermost loop
  | panic                              -- a world operation panicked

/-- big-step execution with fuel (one unit per statement executed at the current nesting level, the nested block /
    callee gets what is left); `x` is the value of the function's `any` parameter, if it has one.
    `none` = out of fuel, unknown callee, arity mismatch, `break` outside a loop, `h.Push(x)` without an `x`. -/
def exec (W : World σ ν) (prog : String → Option Fn) (x : Option ν) : Nat → List Stmt → Env → σ → Option (Res σ ν)
  | 0, _, _, _ => none
  | _ + 1, [], env, w => some (.cont env w)
  | f + 1, .set y e :: rest, env, w => exec W prog x f rest (env.set y (eval (W.len w) env e)) w
  | f + 1, .set2 y z e1 e2 :: rest, env, w =>
    exec W prog x f rest ((env.set y (eval (W.len w) env e1)).set z (eval (W.len w) env e2)) w
  | f + 1, .setB y c :: rest, env, w =>
    match evalC W env c w with
    | none => some .panic
    | some r => exec W prog x f rest (env.set y (if r.1 then 1 else 0)) r.2
  | f + 1, .swap a b :: rest, env, w =>
    match W.swap w (eval (W.len w) env a) (eval (W.len w) env b) with
    | none => some .panic
    | some w' => exec W prog x f rest env w'
  | f + 1, .hpush :: rest, env, w =>
    match x with
    | none => none
    | some v => exec W prog x f rest env (W.push w v)
  | f + 1, .ite c t e :: rest, env, w =>
    match evalC W env c w with
    | none => some .panic
    | some r =>
      match exec W prog x f (if r.1 then t else e) env r.2 with
      | some (.cont env' w') => exec W prog x f rest env' w'
      | o => o
  | f + 1, .loop c body post :: rest, env, w =>
    match evalC W env c w with
    | none => some .panic
    | some r =>
      if r.1 then
        match exec W prog x f body env r.2 with
        | some (.cont env' w') =>
          match exec W prog x f post env' w' with
          | some (.cont env'' w'') => exec W prog x f (.loop c body post :: rest) env'' w''
          | some .panic => some .panic
          | _ => none
        | some (.brk env' w') => exec W prog x f rest env' w'
        | o => o
      else exec W prog x f rest env r.2
  | _ + 1, .brk :: _, env, w => some (.brk env w)
  | _ + 1, .ret es :: _, env, w => some (.ret (es.map (eval (W.len w) env)) w)
  | _ + 1, .retB c :: _, env, w =>
    match evalC W env c w with
    | none => some .panic
    | some r => some (.ret [if r.1 then 1 else 0] r.2)
  | _ + 1, .retPop :: _, _, w =>
    match W.pop w with
    | none => some .panic
    | some (v, w') => some (.retv v w')
  | f + 1, .call g args res :: rest, env, w =>
    match prog g with
    | none => none
    | some fn =>
      if fn.nparams = args.length ∧ fn.nresults = res.length ∧ fn.hasAny = false then
        match exec W prog none f fn.body (args.map (eval (W.len w) env)).toArray w with
        | some (.ret vs w') => if vs.length = res.length then exec W prog x f rest (env.setMany res vs) w' else none
        | some (.cont _ w') => if res.length = 0 then exec W prog x f rest env w' else none
        | some .panic => some .panic
        | _ => none
      else none

/-- outcome of a call from outside -/
inductive Outcome (σ ν : Type) where
  | done (vs : List Int) (v : Option ν) (w : σ)   -- returned ints, returned `any` value (of `h.Pop()`), final world
  | panic

/-- run a translated function on integer arguments (and the `any` argument `x`, if it has one) -/
def Fn.run (fn : Fn) (W : World σ ν) (prog : String → Option Fn) (fuel : Nat) (args : List Int) (x : Option ν) (w : σ) :
    Option (Outcome σ ν) :=
  if fn.nparams = args.length ∧ fn.hasAny = x.isSome then
    match exec W prog x fuel fn.body (args.map wrap).toArray w with
    | some (.ret vs w') => if vs.length = fn.nresults then some (.done vs none w') else none
    | some (.retv v w') => some (.done [] (some v) w')
    | some (.cont _ w') => if fn.nresults = 0 then some (.done [] none w') else none
    | some .panic => some .panic
    | _ => none
  else none

def lookupFn (l : List Fn) (name : String) : Option Fn := l.find? (fun fn => fn.name == name)

end Got.Model.MiniGoHeap
