/-
MiniGo — a deep embedding of the integer fragment of Go that tools/srcfacts can translate mechanically
(go/ast + go/types → the constructors below), with an executable big-step interpreter.

It is the target of the *translator* tie: `Got/Generated/Ast<Pkg>.lean` is regenerated from /repo's source on
every run and theorems (Got/Lemmas/SearchAst.lean, Got/Props/C14.lean) are proved about the interpretation of
exactly that generated term, so they are re-checked against what the code says now.

Fragment: one function whose parameters are `int`s and `func(int) bool`s; statements `var x = e`, `x = e`,
`if c {…} [else {…}]`, `for c {…}`, `return e`; integer expressions literal, variable, unary `-` and `^`,
`+`, `-`, `<<` and `>>` by a constant (signedness taken from go/types; `x op= e` is `x = x op e`), the conversions `int(·)`/`uint(·)`; conditions
`== != <= <` on ints, `|| && !` (short-circuit, as in Go) and calls of a function parameter.  The
translator refuses everything else (the generated file then contains `none` and the obligations fail).

Values: a Go `int`/`uint` is a 64-bit word (GOARCH amd64/arm64), represented by the integer it denotes as
an `int` — `wrap` reduces into [-2^63, 2^63).  Conversions between `int` and `uint` keep the bit pattern, so
they are the identity on this representation; an unsigned shift reinterprets the word as its residue mod
2^64 first.  Variables live in one flat environment (the translator rejects a function that declares one
name twice in different scopes, so shadowing cannot occur).
-/
namespace Got.Model.MiniGo

/-- reduce to the signed 64-bit range (what the hardware does on overflow) -/
def wrap (x : Int) : Int := (x + 9223372036854775808) % 18446744073709551616 - 9223372036854775808

inductive Expr where
  | lit (n : Int)
  | var (x : String)
  | neg (a : Expr)
  | compl (a : Expr)
  | add (a b : Expr)
  | sub (a b : Expr)
  | shl (a : Expr) (k : Nat)       -- `a << k`
  | shrU (a : Expr) (k : Nat)      -- `a >> k`, `a` of an unsigned type
  | shrS (a : Expr) (k : Nat)      -- `a >> k`, `a` of a signed type
  | conv (a : Expr)                -- `int(a)` / `uint(a)`
  deriving Repr

inductive Cond where
  | eq (a b : Expr)
  | ne (a b : Expr)
  | le (a b : Expr)                -- signed operands
  | lt (a b : Expr)
  | or (a b : Cond)
  | and (a b : Cond)
  | not (a : Cond)
  | call (f : String) (a : Expr)   -- call of a `func(int) bool` parameter
  deriving Repr

inductive Stmt where
  | decl (x : String) (e : Expr)
  | assign (x : String) (e : Expr)
  | ite (c : Cond) (t e : List Stmt)
  | while (c : Cond) (body : List Stmt)
  | ret (e : Expr)

structure Fn where
  name : String
  intParams : List String
  funcParams : List String
  body : List Stmt

abbrev Env := List (String × Int)
/-- log of the calls of function parameters, oldest first -/
abbrev Log := List (String × Int)

def eval (env : Env) : Expr → Option Int
  | .lit n => some (wrap n)
  | .var x => env.lookup x
  | .neg a => (eval env a).map fun v => wrap (-v)
  | .compl a => (eval env a).map fun v => wrap (-v - 1)
  | .add a b => (eval env a).bind fun v => (eval env b).map fun w => wrap (v + w)
  | .sub a b => (eval env a).bind fun v => (eval env b).map fun w => wrap (v - w)
  | .shl a k => (eval env a).map fun v => wrap (v * 2 ^ k)
  | .shrU a k => (eval env a).map fun v => wrap ((v % 18446744073709551616) / 2 ^ k)
  | .shrS a k => (eval env a).map fun v => v / 2 ^ k
  | .conv a => eval env a

/-- `fns f v` = what the function parameter `f` answers on `v` -/
def evalC (fns : String → Int → Bool) (env : Env) : Cond → Log → Option (Bool × Log)
  | .eq a b, log => (eval env a).bind fun v => (eval env b).map fun w => (decide (v = w), log)
  | .ne a b, log => (eval env a).bind fun v => (eval env b).map fun w => (decide (v ≠ w), log)
  | .le a b, log => (eval env a).bind fun v => (eval env b).map fun w => (decide (v ≤ w), log)
  | .lt a b, log => (eval env a).bind fun v => (eval env b).map fun w => (decide (v < w), log)
  | .or a b, log =>
    match evalC fns env a log with
    | some (true, log') => some (true, log')
    | some (false, log') => evalC fns env b log'
    | none => none
  | .and a b, log =>
    match evalC fns env a log with
    | some (false, log') => some (false, log')
    | some (true, log') => evalC fns env b log'
    | none => none
  | .not a, log => (evalC fns env a log).map fun (b, l) => (!b, l)
  | .call f a, log => (eval env a).map fun v => (fns f v, log ++ [(f, v)])

inductive Res where
  | ret (v : Int) (log : Log)
  | cont (env : Env) (log : Log)      -- fell through the end of the block
  deriving Repr, DecidableEq

/-- big-step execution with fuel (one unit per statement executed at the current nesting level);
    `none` = out of fuel or an unbound variable. -/
def exec (fns : String → Int → Bool) : Nat → List Stmt → Env → Log → Option Res
  | 0, _, _, _ => none
  | _ + 1, [], env, log => some (.cont env log)
  | f + 1, .decl x e :: rest, env, log =>
    match eval env e with
    | some v => exec fns f rest ((x, v) :: env) log
    | none => none
  | f + 1, .assign x e :: rest, env, log =>
    match eval env e with
    | some v => exec fns f rest ((x, v) :: env) log
    | none => none
  | _ + 1, .ret e :: _, env, log =>
    match eval env e with
    | some v => some (.ret v log)
    | none => none
  | f + 1, .ite c t e :: rest, env, log =>
    match evalC fns env c log with
    | none => none
    | some (b, log') =>
      match exec fns f (if b then t else e) env log' with
      | some (.cont env' log'') => exec fns f rest env' log''
      | r => r
  | f + 1, .while c body :: rest, env, log =>
    match evalC fns env c log with
    | none => none
    | some (false, log') => exec fns f rest env log'
    | some (true, log') =>
      match exec fns f body env log' with
      | some (.cont env' log'') => exec fns f (.while c body :: rest) env' log''
      | r => r

/-- run a translated function on integer arguments -/
def Fn.run (fn : Fn) (fns : String → Int → Bool) (fuel : Nat) (args : List Int) : Option Res :=
  exec fns fuel fn.body (fn.intParams.zip (args.map wrap)) []

end Got.Model.MiniGo
