/-
MiniGoSort — deep embedding of the fragment of Go in which sortx/zfuncversion.go (insertionSort_func, siftDown_func,
heapSort_func, medianOfThree_func, doPivot_func, quickSort_func) and sortx/sort.go:maxDepth are written, with an
executable, total (fuel) big-step interpreter.  tools/srcfacts/minigo_sort.go translates the functions' go/ast
(with go/types) into terms of this embedding on EVERY run (Got/Generated/AstSortxSort.lean); the theorems of
Got/Lemmas/SortAst*.lean / Got/Props/C15.lean are proved about the interpretation of exactly those generated terms.

Fragment.  Functions with `int` parameters, at most one `data lessSwap` parameter (implicit here: the "world"), 0–2
`int` results.  Statements: `x := e`, `var x [int] [= e]`, `x = e`, `x++`, `x--`, `x op= e` (all `set`), the parallel
`x, y := e1, e2` (`set2`: both right-hand sides are evaluated first), `p := cond` / `p = cond` for a bool local
(`setB`), `if`/`else`, `for init; cond; post { }` and `for { }` (`loop`; `init` is emitted as the statement before
the loop), `break` (leaves the innermost `for`), `return e…`, `data.Swap(e1, e2)`, calls `f(data, e…)` and
`x, y := f(data, e…)` of other translated functions, including recursion.  Integer expressions: constants,
variables, unary `-`, `+ - *`, `/` by a positive constant (Go's division truncates toward zero), `<<`/`>>` by a
constant (arithmetic or logical shift by the operand's go/types signedness), `int(·)`/`uint(·)`.  Conditions:
`== != < <= > >=` on signed ints, short-circuit `&& || !`, `data.Less(e1, e2)`, a bool local.

Values: a Go `int`/`uint` is a 64-bit word, represented by the integer it denotes as an `int`; `wrap` reduces into
[-2^63, 2^63) after every arithmetic operation.  A bool local is stored as 0/1.  Variables are numbered by the
translator (parameters first, then named results, then locals in order of declaration; every go/types object gets
its own number, so scopes and shadowing are resolved by the Go type checker); the environment is an array indexed
by that number.  Reading a variable that was never assigned yields 0 — the translator emits an assignment for every
declaration (Go's zero value for `var x int`), so this case does not occur in a translated function.

The world `σ` is abstract: `less : σ → Int → Int → Bool × σ` is `data.Less`, `swap : σ → Int → Int → σ` is
`data.Swap`; it is instantiated with the model state `St K V` (Got/Model/SortAstWorld.lean).
-/
namespace Got.Model.MiniGoSort

/-- reduce to the signed 64-bit range (what the hardware does on overflow) -/
def wrap (x : Int) : Int := (x + 9223372036854775808) % 18446744073709551616 - 9223372036854775808

inductive Expr where
  | lit (n : Int)
  | var (x : Nat)
  | neg (a : Expr)
  | add (a b : Expr)
  | sub (a b : Expr)
  | mul (a b : Expr)
  | divC (a : Expr) (k : Nat)      -- `a / k`, `a` signed, `k` a positive constant: truncated division
  | shl (a : Expr) (k : Nat)       -- `a << k`
  | shrS (a : Expr) (k : Nat)      -- `a >> k`, `a` of a signed type
  | shrU (a : Expr) (k : Nat)      -- `a >> k`, `a` of an unsigned type
  | conv (a : Expr)                -- `int(a)` / `uint(a)`: same 64-bit word
  deriving Repr

inductive Cond where
  | tt
  | eq (a b : Expr)
  | ne (a b : Expr)
  | le (a b : Expr)                -- signed operands
  | lt (a b : Expr)
  | or (a b : Cond)
  | and (a b : Cond)
  | not (a : Cond)
  | less (a b : Expr)              -- `data.Less(a, b)`
  | bvar (x : Nat)                 -- a bool local
  deriving Repr

inductive Stmt where
  | set (x : Nat) (e : Expr)
  | set2 (x y : Nat) (e1 e2 : Expr)
  | setB (x : Nat) (c : Cond)
  | ite (c : Cond) (t e : List Stmt)
  | loop (c : Cond) (body post : List Stmt)   -- `for ; c; post { body }`
  | brk
  | ret (es : List Expr)
  | swap (a b : Expr)                          -- `data.Swap(a, b)`
  | call (f : String) (args : List Expr) (res : List Nat)

structure Fn where
  name : String
  nparams : Nat
  nresults : Nat
  body : List Stmt

abbrev Env := Array Int

def Env.get (env : Env) (x : Nat) : Int := (env[x]?).getD 0

/-- assignment; the array grows (zero-filled) when the variable was not assigned before -/
def Env.set (env : Env) (x : Nat) (v : Int) : Env :=
  if x < env.size then env.setIfInBounds x v else (env ++ Array.replicate (x - env.size) 0).push v

def Env.setMany (env : Env) : List Nat → List Int → Env
  | x :: xs, v :: vs => Env.setMany (env.set x v) xs vs
  | _, _ => env

theorem Env.get_set (env : Env) (x y : Nat) (v : Int) :
    (env.set x v).get y = if y = x then v else env.get y := by
  unfold Env.set Env.get
  by_cases hx : x < env.size
  · rw [if_pos hx, Array.getElem?_setIfInBounds]
    by_cases hyx : y = x
    · subst hyx; simp [hx]
    · have : ¬ x = y := fun h => hyx h.symm
      simp [this, hyx]
  · rw [if_neg hx]
    by_cases hyx : y = x
    · subst hyx
      have hsz : (env ++ Array.replicate (y - env.size) (0 : Int)).size = y := by simp; omega
      rw [if_pos rfl, Array.getElem?_push, hsz, if_pos rfl]
      rfl
    · rw [if_neg hyx, Array.getElem?_push]
      have hsz : (env ++ Array.replicate (x - env.size) (0 : Int)).size = x := by simp; omega
      rw [hsz, if_neg hyx]
      by_cases hy : y < env.size
      · rw [Array.getElem?_append_left (by omega)]
      · rw [Array.getElem?_append_right (by omega)]
        have : env[y]? = none := by simp; omega
        rw [this]
        simp only [Array.getElem?_replicate]
        split <;> rfl

structure World (σ : Type) where
  less : σ → Int → Int → Bool × σ
  swap : σ → Int → Int → σ

def eval (env : Env) : Expr → Int
  | .lit n => wrap n
  | .var x => env.get x
  | .neg a => wrap (-(eval env a))
  | .add a b => wrap (eval env a + eval env b)
  | .sub a b => wrap (eval env a - eval env b)
  | .mul a b => wrap (eval env a * eval env b)
  | .divC a k => wrap (Int.tdiv (eval env a) k)
  | .shl a k => wrap (eval env a * 2 ^ k)
  | .shrS a k => eval env a / 2 ^ k
  | .shrU a k => wrap ((eval env a % 18446744073709551616) / 2 ^ k)
  | .conv a => eval env a

variable {σ : Type}

def evalC (W : World σ) (env : Env) : Cond → σ → Bool × σ
  | .tt, w => (true, w)
  | .eq a b, w => (decide (eval env a = eval env b), w)
  | .ne a b, w => (decide (eval env a ≠ eval env b), w)
  | .le a b, w => (decide (eval env a ≤ eval env b), w)
  | .lt a b, w => (decide (eval env a < eval env b), w)
  | .or a b, w =>
    let r := evalC W env a w
    if r.1 then r else evalC W env b r.2
  | .and a b, w =>
    let r := evalC W env a w
    if r.1 then evalC W env b r.2 else r
  | .not a, w =>
    let r := evalC W env a w
    (!r.1, r.2)
  | .less a b, w => W.less w (eval env a) (eval env b)
  | .bvar x, w => (env.get x != 0, w)

inductive Res (σ : Type) where
  | ret (vs : List Int) (w : σ)
  | cont (env : Env) (w : σ)         -- fell through the end of the block
  | brk (env : Env) (w : σ)          -- `break` on its way to the innermost loop

/-- big-step execution with fuel (one unit per statement executed at the current nesting level, the nested block /
    callee gets what is left); `none` = out of fuel, unknown callee, arity mismatch, `break` outside a loop. -/
def exec (W : World σ) (prog : String → Option Fn) : Nat → List Stmt → Env → σ → Option (Res σ)
  | 0, _, _, _ => none
  | _ + 1, [], env, w => some (.cont env w)
  | f + 1, .set x e :: rest, env, w => exec W prog f rest (env.set x (eval env e)) w
  | f + 1, .set2 x y e1 e2 :: rest, env, w =>
    exec W prog f rest ((env.set x (eval env e1)).set y (eval env e2)) w
  | f + 1, .setB x c :: rest, env, w =>
    let r := evalC W env c w
    exec W prog f rest (env.set x (if r.1 then 1 else 0)) r.2
  | f + 1, .swap a b :: rest, env, w => exec W prog f rest env (W.swap w (eval env a) (eval env b))
  | f + 1, .ite c t e :: rest, env, w =>
    let r := evalC W env c w
    match exec W prog f (if r.1 then t else e) env r.2 with
    | some (.cont env' w') => exec W prog f rest env' w'
    | o => o
  | f + 1, .loop c body post :: rest, env, w =>
    let r := evalC W env c w
    if r.1 then
      match exec W prog f body env r.2 with
      | some (.cont env' w') =>
        match exec W prog f post env' w' with
        | some (.cont env'' w'') => exec W prog f (.loop c body post :: rest) env'' w''
        | _ => none
      | some (.brk env' w') => exec W prog f rest env' w'
      | o => o
    else exec W prog f rest env r.2
  | _ + 1, .brk :: _, env, w => some (.brk env w)
  | _ + 1, .ret es :: _, env, w => some (.ret (es.map (eval env)) w)
  | f + 1, .call g args res :: rest, env, w =>
    match prog g with
    | none => none
    | some fn =>
      if fn.nparams = args.length ∧ fn.nresults = res.length then
        match exec W prog f fn.body (args.map (eval env)).toArray w with
        | some (.ret vs w') => if vs.length = res.length then exec W prog f rest (env.setMany res vs) w' else none
        | some (.cont _ w') => if res.length = 0 then exec W prog f rest env w' else none
        | _ => none
      else none

/-- run a translated function on integer arguments: returned values and final world -/
def Fn.run (fn : Fn) (W : World σ) (prog : String → Option Fn) (fuel : Nat) (args : List Int) (w : σ) :
    Option (List Int × σ) :=
  if fn.nparams = args.length then
    match exec W prog fuel fn.body (args.map wrap).toArray w with
    | some (.ret vs w') => if vs.length = fn.nresults then some (vs, w') else none
    | some (.cont _ w') => if fn.nresults = 0 then some ([], w') else none
    | _ => none
  else none

def lookupFn (l : List Fn) (name : String) : Option Fn := l.find? (fun fn => fn.name == name)

end Got.Model.MiniGoSort
