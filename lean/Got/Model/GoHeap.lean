/-
Transcription of Go's container/heap (src/container/heap/heap.go) over an `Array α` and an
arbitrary comparison `less : α → α → Bool` (the `Less(i, j)` of the heap.Interface applied to the
elements at i and j).  Generic and self-contained (core Lean only) so that several families can
use it (randx.WeightedSampling, std.PriorityQueue / taskx delayed queue).

The interface methods of the usual slice-backed implementation are fixed:
  Len = size, Swap = swap two elements, Push = append, Pop = remove and return the last element.

Go `int` indices are modelled by `Nat`: the only place where a negative value could occur is
`(j - 1) / 2` for `j = 0`, where Go's truncated division gives 0 and so does Nat subtraction
followed by division; `j1 < 0` after overflow needs more than 2^62 elements and is not modelled.
Out-of-range indices (a panic in Go) cannot arise from Init/Push/Pop; `up`/`down` return the array
unchanged for them and `pop` of an empty heap returns `none` (Go: index out of range panic).
-/
namespace Got.Model.GoHeap

variable {α : Type}

/--   func up(h Interface, j int) {
        for {
          i := (j - 1) / 2 // parent
          if i == j || !h.Less(j, i) { break }
          h.Swap(i, j)
          j = i
        } }
    `fuel` bounds the number of iterations (structural recursion, so that closed instances evaluate
    in the kernel); `j` strictly decreases, so `j + 1` iterations always suffice (`up`). -/
def upAux (less : α → α → Bool) : Nat → Array α → Nat → Array α
  | 0, a, _ => a
  | fuel + 1, a, j =>
    if hj : j < a.size then
      let i := (j - 1) / 2
      if i = j then a
      else if !less a[j] (a[i]'(by omega)) then a
      else upAux less fuel (a.swap i j (by omega) hj) i
    else a

def up (less : α → α → Bool) (a : Array α) (j : Nat) : Array α := upAux less (j + 1) a j

/-- the child of `i` that `down` compares with `i`: `j1 = 2i+1`, or `j2 = j1+1` when
    `j2 < n && h.Less(j2, j1)` -/
def pickChild (less : α → α → Bool) (a : Array α) (j1 n : Nat) (hn : n ≤ a.size) (_h1 : j1 < n) : Nat :=
  if h2 : j1 + 1 < n then
    (if less (a[j1 + 1]'(by omega)) (a[j1]'(by omega)) then j1 + 1 else j1)
  else j1

theorem pickChild_spec (less : α → α → Bool) (a : Array α) (j1 n : Nat) (hn : n ≤ a.size) (h1 : j1 < n) :
    j1 ≤ pickChild less a j1 n hn h1 ∧ pickChild less a j1 n hn h1 ≤ j1 + 1 ∧ pickChild less a j1 n hn h1 < n := by
  unfold pickChild
  split
  · split <;> omega
  · omega

/--   func down(h Interface, i0, n int) bool {
        i := i0
        for {
          j1 := 2*i + 1
          if j1 >= n || j1 < 0 { break }
          j := j1 // left child
          if j2 := j1 + 1; j2 < n && h.Less(j2, j1) { j = j2 }
          if !h.Less(j, i) { break }
          h.Swap(i, j)
          i = j
        }
        return i > i0 }
    `downAux` returns the final array and the final `i`. Only indices `< n ≤ size` are touched. -/
def downAux (less : α → α → Bool) : Nat → Array α → Nat → Nat → Array α × Nat
  | 0, a, i, _ => (a, i)
  | fuel + 1, a, i, n =>
    if hn : n ≤ a.size then
      if h1 : 2 * i + 1 < n then
        let j := pickChild less a (2 * i + 1) n hn h1
        have hj := pickChild_spec less a (2 * i + 1) n hn h1
        if !less (a[j]'(by omega)) (a[i]'(by omega)) then (a, i)
        else downAux less fuel (a.swap i j (by omega) (by omega)) j n
      else (a, i)
    else (a, i)

/-- the loop of `down`: final array and final `i`; `i` strictly increases and stays `< n`, so `n`
    iterations always suffice -/
def downLoop (less : α → α → Bool) (a : Array α) (i n : Nat) : Array α × Nat := downAux less n a i n

def down (less : α → α → Bool) (a : Array α) (i0 n : Nat) : Array α × Bool :=
  let r := downLoop less a i0 n
  (r.1, decide (r.2 > i0))

/-- heap.Init:  n := h.Len(); for i := n/2 - 1; i >= 0; i-- { down(h, i, n) } -/
def init (less : α → α → Bool) (a : Array α) : Array α :=
  (List.range (a.size / 2)).reverse.foldl (fun a i => (downLoop less a i a.size).1) a

/-- heap.Push:  h.Push(x); up(h, h.Len()-1) -/
def push (less : α → α → Bool) (a : Array α) (x : α) : Array α :=
  up less (a.push x) a.size

/-- heap.Pop:  n := h.Len() - 1; h.Swap(0, n); down(h, 0, n); return h.Pop()
    `none` = the Go code panics (empty heap: Swap(0, -1) indexes out of range). -/
def pop (less : α → α → Bool) (a : Array α) : Option (α × Array α) :=
  if h : 0 < a.size then
    let n := a.size - 1
    let b := (downLoop less (a.swap 0 n h (by omega)) 0 n).1
    match b.back? with
    | some x => some (x, b.pop)
    | none => none
  else none

/-- heap.Fix:  if !down(h, i, h.Len()) { up(h, i) } -/
def fix (less : α → α → Bool) (a : Array α) (i : Nat) : Array α :=
  let r := down less a i a.size
  if !r.2 then up less r.1 i else r.1

/-- heap.Remove:  n := h.Len() - 1
                  if n != i { h.Swap(i, n); if !down(h, i, n) { up(h, i) } }
                  return h.Pop()                       (`none` = index out of range panic) -/
def remove (less : α → α → Bool) (a : Array α) (i : Nat) : Option (α × Array α) :=
  if h : i < a.size then
    let n := a.size - 1
    let b :=
      if hn : n ≠ i then
        let r := down less (a.swap i n h (by omega)) i n
        if !r.2 then up less r.1 i else r.1
      else a
    match b.back? with
    | some x => some (x, b.pop)
    | none => none
  else none

end Got.Model.GoHeap
