import Got.Drv.Common
import Got.Model.Discipline
import Got.Model.DisciplineSites
/-
drv_discipline:
  sites            input lines `field func kind L|- after1,after2|- then1,then2|-`  → `ok <role>` / `reject <why>`
  trace            input lines `rd t | wr t | rel t a | acq t a ...` separated by ';' → `accept` / `reject`
                   (runs the executable discipline monitor on an event trace; used for the corpus of old shapes)
-/
namespace Got.Drv.Discipline
open Got.Model.Discipline Got.Drv

def siteStep (_ : Unit) (line : String) : Unit × String :=
  match words line with
  | [field, func, kind, l, after] =>
    let aft := if after = "-" then [] else after.splitOn ","
    ((), matchSite field func kind (l = "L") aft)
  | [field, func, kind, l, after, thn] =>
    let aft := if after = "-" then [] else after.splitOn ","
    let th := if thn = "-" then [] else thn.splitOn ","
    ((), matchSite field func kind (l = "L") aft th)
  | [] => ((), "")
  | _ => ((), "reject malformed-line")

def parseEv (ws : List String) : Option Ev :=
  match ws with
  | ["rd", t] => t.toNat?.map Ev.rd
  | ["wr", t] => t.toNat?.map Ev.wr
  | ["rel", t, a] => match t.toNat?, a.toNat? with
    | some t, some a => some (Ev.rel t a)
    | _, _ => none
  | ["acq", t, a] => match t.toNat?, a.toNat? with
    | some t, some a => some (Ev.acq t a)
    | _, _ => none
  | _ => none

def traceStep (_ : Unit) (line : String) : Unit × String :=
  if line.trimAscii.toString.isEmpty then ((), "") else
  let evs := (line.splitOn ";").map (fun s => parseEv (words s))
  if evs.all Option.isSome then
    ((), if accepts (evs.filterMap id) then "accept" else "reject")
  else ((), "bad-trace")

def main (args : List String) : IO Unit := do
  match args with
  | ["trace"] => lineLoop (← IO.getStdin) (← IO.getStdout) traceStep ()
  | _ => lineLoop (← IO.getStdin) (← IO.getStdout) siteStep ()

end Got.Drv.Discipline
