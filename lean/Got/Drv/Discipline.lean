import Got.Drv.Common
/- driver for the discipline model family (properties C18): to be written -/
namespace Got.Drv.Discipline

def main (_args : List String) : IO Unit := do
  IO.eprintln "drv_discipline: not implemented"

end Got.Drv.Discipline
