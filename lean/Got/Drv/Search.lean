import Got.Drv.Common
import Got.Model.Search
import Got.Model.MiniGo
import Got.Generated.AstSortx
/-
drv_search: script lines
  mono <n> <b> <e>      less k = k < b ; equal k = b ≤ k < b+e           (sorted inputs)
  bits <n> <lessmask> <eqmask>   less k = bit k of lessmask etc.          (arbitrary predicates, n ≤ 62)
output: `r <result> probes <l|e><idx> ...`  or `diverge`

With the argument `ast` the same lines are answered by interpreting the MiniGo translation of sortx.Search that
tools/srcfacts regenerated from /repo for this run (Got/Generated/AstSortx.lean) instead of the hand-written model:
this validates the interpreter's 64-bit semantics against the real code on the very cases of the correspondence
(theorem C14_translated_source_refines_model proves that the two modes print the same line).
-/
namespace Got.Drv.Search
open Got.Model.Search Got.Drv

def showProbe : Probe → String
  | .less k => s!"l{k}"
  | .equal k => s!"e{k}"

def render : Option (Int × List Probe) → String
  | none => "diverge"
  | some (r, log) => joinSp (["r", toString r, "probes"] ++ log.map showProbe)

def renderAst : Option Got.Model.MiniGo.Res → String
  | some (.ret r log) =>
    joinSp (["r", toString r, "probes"] ++ log.map fun (f, k) => (if f = "f0" then "l" else "e") ++ toString k)
  | _ => "diverge"

/-- fuel: one unit per loop iteration (at most 64 for a 64-bit count) plus the nesting depth; 1000 is ample -/
def runAst (n : Int) (less equal : Int → Bool) : String :=
  renderAst (Got.Generated.AstSortx.search.run
    (fun f v => if f = "f0" then less v else if f = "f1" then equal v else false) 1000 [n])

def stepAst (_ : Unit) (line : String) : Unit × String :=
  match words line with
  | ["mono", n, b, e] =>
    match parseInt? n, parseInt? b, parseInt? e with
    | some n, some b, some e => ((), runAst n (fun k => decide (k < b)) (fun k => decide (b ≤ k ∧ k < b + e)))
    | _, _, _ => ((), "bad-op")
  | ["bits", n, lm, em] =>
    match parseInt? n, parseNat? lm, parseNat? em with
    | some n, some lm, some em => ((), runAst n (fun k => lm.testBit k.toNat) (fun k => em.testBit k.toNat))
    | _, _, _ => ((), "bad-op")
  | [] => ((), "")
  | _ => ((), "bad-op")

def step (_ : Unit) (line : String) : Unit × String :=
  match words line with
  | ["mono", n, b, e] =>
    match parseInt? n, parseInt? b, parseInt? e with
    | some n, some b, some e =>
      ((), render (search n (fun k => decide (k < b)) (fun k => decide (b ≤ k ∧ k < b + e))))
    | _, _, _ => ((), "bad-op")
  | ["bits", n, lm, em] =>
    match parseInt? n, parseNat? lm, parseNat? em with
    | some n, some lm, some em =>
      ((), render (search n (fun k => lm.testBit k.toNat) (fun k => em.testBit k.toNat)))
    | _, _, _ => ((), "bad-op")
  | [] => ((), "")
  | _ => ((), "bad-op")

def main (args : List String) : IO Unit := do
  if args = ["ast"] then lineLoop (← IO.getStdin) (← IO.getStdout) stepAst ()
  else lineLoop (← IO.getStdin) (← IO.getStdout) step ()

end Got.Drv.Search
