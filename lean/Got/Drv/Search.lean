import Got.Drv.Common
import Got.Model.Search
/-
drv_search: script lines
  mono <n> <b> <e>      less k = k < b ; equal k = b ≤ k < b+e           (sorted inputs)
  bits <n> <lessmask> <eqmask>   less k = bit k of lessmask etc.          (arbitrary predicates, n ≤ 62)
output: `r <result> probes <l|e><idx> ...`  or `diverge`
-/
namespace Got.Drv.Search
open Got.Model.Search Got.Drv

def showProbe : Probe → String
  | .less k => s!"l{k}"
  | .equal k => s!"e{k}"

def render : Option (Int × List Probe) → String
  | none => "diverge"
  | some (r, log) => joinSp (["r", toString r, "probes"] ++ log.map showProbe)

def step (_ : Unit) (line : String) : Unit × String :=
  match words line with
  | ["mono", n, b, e] =>
    match parseInt? n, parseInt? b, parseInt? e with
    | some n, some b, some e =>
      ((), render (search n (fun k => decide (k < b)) (fun k => decide (b ≤ k ∧ k < b + e))))
    | _, _, _ => ((), "bad-op")
  | ["bits", n, lm, em] =>
    match parseInt? n, parseNat? lm, parseNat? em with
    | some n, some lm, some em =>
      ((), render (search n (fun k => lm.testBit k.toNat) (fun k => em.testBit k.toNat)))
    | _, _, _ => ((), "bad-op")
  | [] => ((), "")
  | _ => ((), "bad-op")

def main (_args : List String) : IO Unit := do
  lineLoop (← IO.getStdin) (← IO.getStdout) step ()

end Got.Drv.Search
