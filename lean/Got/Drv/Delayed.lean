import Got.Drv.Common
import Got.Model.Delayed
/-
drv_delayed (monitor mode): input line = `<script>\t<impl observation>`; answer `ok`, `ok tie-order` or `reject <model line>`.

script:  c10 end <t> Q <cap0>:<start0>[:<close0>] <cap1>:<start1>[:<close1>] ... | <q> <d> <t> ; <q> <d> <t> ; ...
  one sequential sender issues Queue(q).SendDelayed(d ns) at virtual instant t (ns, relative to the scenario start,
  which is a tick instant of the global delayed queue); queue i has capacity cap_i and a consumer that starts
  receiving at instant start_i (before that the queue fills up); with a third field the queue's close channel is
  closed at instant close_i.  Observation = per queue the arrival sequence
  `idx@t` seen by the consumer, up to instant `end`.

The driver explores the timed executions of Got.Model.Delayed (every transition through `Delayed.step`,
maximal progress).  The model is nondeterministic only where the loop's select has both a pending tick and a
pending request; both branches are explored and the observation must equal one of the outcomes.  If an exploration
limit (steps / size of the state set) is reached before the observation was found among the outcomes, the line is
answered `ok unchecked …` (judged by the oracle only): a truncated exploration never rejects.  The second
nondeterminism — SendCallback on a CLOSED target queue that has room may take either select branch — is resolved from
the observation (the request arrived or not), as in drv_taskq.
-/
namespace Got.Drv.Delayed
open Got.Model.Delayed Got.Drv

structure RSpec where
  idx : Nat
  q : Nat
  d : Int
  at_ : Nat
  deriving Inhabited

structure Scn where
  endT : Nat
  caps : Array Nat
  cstart : Array Nat
  closeAt : Array (Option Nat)
  reqs : Array RSpec
  arrived : Option (List Nat) := none   -- hints: request ids that arrived in the implementation's observation

structure Sim where
  s : State
  err : Bool := false
  cursor : Nat := 0
  arr : Array (Array (Nat × Nat))    -- per queue: (request id, arrival instant)

def doStep (sim : Sim) (a : Act) : Sim :=
  match step sim.s a with
  | some s' => { sim with s := s' }
  | none => { sim with err := true }

/-- a queue whose consumer is active and which holds a task -/
def readyQueue (sc : Scn) (sim : Sim) : Option Nat :=
  (List.range sc.caps.size).find? (fun i => decide (sc.cstart[i]! ≤ sim.s.now) && !(sim.s.q i).isEmpty)

/-- run all transitions enabled at the current instant; fork where the loop's select has two ready cases -/
partial def settle (sc : Scn) (sim : Sim) : List Sim :=
  if sim.err then [sim] else
  let s := sim.s
  match (List.range sc.caps.size).find? (fun i => match sc.closeAt[i]! with
      | some t => decide (t ≤ s.now) && !s.qclosed i
      | none => false) with
  | some i => settle sc (doStep sim (.closeQ i))
  | none =>
  if s.now = s.nextTick then settle sc (doStep sim .tickFire)
  else if s.senders.isEmpty && decide (sim.cursor < sc.reqs.size) && decide (sc.reqs[sim.cursor]!.at_ ≤ s.now) then
    let r := sc.reqs[sim.cursor]!
    settle sc { doStep sim (.sendDelayed r.q r.d) with cursor := sim.cursor + 1 }
  else if enqEnabled s then settle sc (doStep sim (.enq 0))
  else match readyQueue sc sim with
    | some i =>
      let r := (s.q i).head!
      let sim := { sim with arr := sim.arr.modify i (·.push (r.id, s.now)) }
      settle sc (doStep sim (.qRecv i))
    | none =>
      match s.lpc with
      | .select =>
        if s.tickPending && !s.reqChan.isEmpty then settle sc (doStep sim .tickRecv) ++ settle sc (doStep sim .pushReq)
        else if s.tickPending then settle sc (doStep sim .tickRecv)
        else if !s.reqChan.isEmpty then settle sc (doStep sim .pushReq)
        else [sim]
      | .tickLoop _ => settle sc (doStep sim .tickTest)
      | .forwarding _ r =>
        let room := decide ((s.q r.queue).length < s.qcap r.queue)
        let closed := s.qclosed r.queue
        if room && closed then
          match sc.arrived with
          | some arr => if arr.contains r.id then settle sc (doStep sim .forward) else settle sc (doStep sim .forwardDrop)
          | none => settle sc (doStep sim .forward) ++ settle sc (doStep sim .forwardDrop)
        else if room then settle sc (doStep sim .forward)
        else if closed then settle sc (doStep sim .forwardDrop)
        else [sim]

def minOpt (a b : Option Nat) : Option Nat :=
  match a, b with
  | none, b => b
  | a, none => a
  | some x, some y => some (min x y)

/-- next instant at which something is scheduled -/
def nextInstant (sc : Scn) (sim : Sim) : Option Nat :=
  let s := sim.s
  let tSend := if s.senders.isEmpty && sim.cursor < sc.reqs.size then some sc.reqs[sim.cursor]!.at_ else none
  let tCons := sc.cstart.foldl (fun acc t => if t > s.now then minOpt acc (some t) else acc) none
  let tClose := sc.closeAt.foldl (fun acc t => match t with
    | some t => if t > s.now then minOpt acc (some t) else acc
    | none => acc) none
  minOpt (some s.nextTick) (minOpt tSend (minOpt tCons tClose))

def render (sc : Scn) (sim : Sim) : String :=
  let parts := (List.range sc.caps.size).map (fun i =>
    joinSp ([s!"Q{i}"] ++ (sim.arr[i]!.toList.map (fun (x : Nat × Nat) => s!"{x.1}@{x.2}"))))
  " | ".intercalate (parts ++ [if sim.err then "E model-step-disabled" else "E ok"])

partial def explore (sc : Scn) (work : List Sim) (acc : List String) (budget : Nat) : List String × Bool :=
  match work with
  | [] => (acc, true)
  | sim :: rest =>
    -- exploration limits (steps, size of the state set): the result is then incomplete and must not be used to reject
    if budget = 0 || work.length > 20000 || acc.length > 5000 then (acc, false) else
    match nextInstant sc sim with
    | some t =>
      if t > sc.endT || sim.err then
        let o := render sc sim
        explore sc rest (if acc.contains o then acc else acc ++ [o]) (budget - 1)
      else
        let sim := doStep sim (.delay (t - sim.s.now))
        explore sc (settle sc sim ++ rest) acc (budget - 1)
    | none =>
      let o := render sc sim
      explore sc rest (if acc.contains o then acc else acc ++ [o]) (budget - 1)

def parseScript (line : String) : Option Scn :=
  match line.splitOn " | " with
  | [head, body] =>
    match words head with
    | "c10" :: "end" :: e :: "Q" :: qs =>
      let qp := qs.filterMap (fun w => match w.splitOn ":" with
        | [c, s] => match c.toNat?, s.toNat? with
          | some c, some s => some (c, s, (none : Option Nat))
          | _, _ => none
        | [c, s, cl] => match c.toNat?, s.toNat?, cl.toNat? with
          | some c, some s, some cl => some (c, s, some cl)
          | _, _, _ => none
        | _ => none)
      let ops := ((body.splitOn " ; ").map words).filter (· ≠ [])
      let reqs := ops.filterMap (fun w => match w with
        | [q, d, t] => match q.toNat?, d.toInt?, t.toNat? with
          | some q, some d, some t => some (q, d, t)
          | _, _, _ => none
        | _ => none)
      if reqs.length ≠ ops.length || qp.length ≠ qs.length then none else
      match e.toNat? with
      | some e =>
        let reqs := reqs.zipIdx.map (fun (x : (Nat × Int × Nat) × Nat) => ({ idx := x.2, q := x.1.1, d := x.1.2.1, at_ := x.1.2.2 } : RSpec))
        some { endT := e, caps := (qp.map (·.1)).toArray, cstart := (qp.map (·.2.1)).toArray,
               closeAt := (qp.map (·.2.2)).toArray, reqs := reqs.toArray }
      | none => none
    | _ => none
  | _ => none

/-- canonical form modulo the order among arrivals with the same instant and the same deadline on one queue:
    every arrival is replaced by (deadline, instant) -/
def canonTie (sc : Scn) (obs : String) : String :=
  let secs := obs.splitOn " | "
  " | ".intercalate (secs.map (fun sec =>
    joinSp ((words sec).map (fun w =>
      match w.splitOn "@" with
      | [i, t] =>
        match i.toNat? with
        | some i =>
          match sc.reqs[i]? with
          | some r => s!"q{r.q}d{(r.at_ : Int) + r.d}@{t}"   -- deadline if issued on time
          | none => w
        | none => w
      | _ => w))))

def simulate (sc : Scn) : List String × Bool :=
  let caps := sc.caps
  let sim : Sim := { s := init (fun i => caps[i]?.getD 0), arr := Array.replicate caps.size #[] }
  explore sc (settle sc sim) [] 200000

def stepLine (_ : Unit) (line : String) : Unit × String :=
  if line.isEmpty then ((), "") else
  let (script, impl) := match line.splitOn "\t" with
    | [s, i] => (s, i)
    | [s] => (s, "")
    | _ => (line, "")
  match parseScript script with
  | none => ((), "reject bad-script")
  | some sc =>
    -- request ids that arrived according to the observation (hints for select on a closed queue with room)
    let arrived := (words impl).filterMap (fun w => match w.splitOn "@" with
      | [i, _] => i.toNat?
      | _ => none)
    let sc := if impl.isEmpty then sc else { sc with arrived := some arrived }
    let (outs, complete) := simulate sc
    if impl.isEmpty then ((), " || ".intercalate outs)
    else if outs.contains impl then ((), "ok")
    else if (outs.map (canonTie sc)).contains (canonTie sc impl) then ((), "ok tie-order")
    else if !complete then ((), "ok unchecked exploration-limit-reached")   -- a truncated exploration never rejects
    else ((), "reject " ++ outs.headD "<no outcome>")

def main (_args : List String) : IO Unit := do
  lineLoop (← IO.getStdin) (← IO.getStdout) stepLine ()

end Got.Drv.Delayed
