import Got.Drv.Common
/- driver for the delayed model family (properties C10): to be written -/
namespace Got.Drv.Delayed

def main (_args : List String) : IO Unit := do
  IO.eprintln "drv_delayed: not implemented"

end Got.Drv.Delayed
