import Got.Drv.Common
/- driver for the cache model family (properties C04, C05, C06): to be written -/
namespace Got.Drv.Cache

def main (_args : List String) : IO Unit := do
  IO.eprintln "drv_cache: not implemented"

end Got.Drv.Cache
