import Got.Model.MiniGo
import Got.Generated.AstLoom
import Got.Drv.Common
import Got.Model.Cache
import Got.Model.Sharding
/-
drv_cache (monitor mode): every input line is  `<script line>\t<observation line of the harness>`; the answer is
`ok …` or `reject <why>`.

script:       cfg P=1 J=1 En=2000000 Ee=1000000 | at 0 load c0 k=i:1 loader=dur:3000000,val:7 ; at 5 get2 c1 k=i:1 ;
              at 7 set c2 k=i:1 val:5 ; at 9 fget c3 of=c0
observation:  S=16 | 0 call c0 | 0 ret c0 fut#0 | 0 lstart c0 k=i:1 #0 | 3000000 lend #0 7 nil | 9 ret c3 7 nil | end 12
pure lines:   shard <count> <key>  ⟶  idx <n>          cpo2 <n>  ⟶  r <n> | diverge

The monitor tracks the set of states of the LTS `Got.Model.Cache` that are consistent with the events seen so far
(trace inclusion): between two observed events every interleaving of the unobserved steps that matter is explored;
steps that commute with everything else (Unlock, wg.Done, receiving a job or a tick, the sweep — invisible by
C05_sweep_invisible) are executed eagerly in a fixed order.  Virtual time may only advance from a state in which
no step is enabled (maximal progress = semantics of the Go runtime's fake clock).
-/
namespace Got.Drv.Cache
open Got.Model.Cache Got.Model.CacheCore Got.Model.Sharding Got.Drv

def dropChars (n : Nat) (s : String) : String := String.ofList (s.toList.drop n)

/-- "c12" ↦ 12 -/
def parseCid? (s : String) : Option Nat :=
  if s.startsWith "c" then (dropChars 1 s).toNat? else none

def parseKey? (s : String) : Option TKey :=
  match s.splitOn ":" with
  | [ty, v] =>
    match ty with
    | "i" => v.toInt?.map .int
    | "i8" => v.toInt?.map .int8
    | "i16" => v.toInt?.map .int16
    | "i32" => v.toInt?.map .int32
    | "i64" => v.toInt?.map .int64
    | "u8" => v.toNat?.map .uint8
    | "u16" => v.toNat?.map .uint16
    | "u32" => v.toNat?.map .uint32
    | "u64" => v.toNat?.map .uint64
    | "s" => (parseHex? v).map .str
    | _ => none
  | _ => none

/-- "val:7,err:3" / "val:7" / "err:3" / "nil" (parts in any order, unknown parts ignored by the caller) -/
def parseResParts (parts : List String) : Res :=
  parts.foldl (fun r p =>
    match p.splitOn ":" with
    | ["val", v] => { r with val := v.toNat? }
    | ["err", e] => { r with err := e.toNat? }
    | _ => r) { val := none, err := none }

def showRes (r : Res) : String :=
  (match r.val with | some v => toString v | none => "nil") ++ " " ++
  (match r.err with | some e => "e" ++ toString e | none => "nil")

inductive Op
  | load (k : Nat) (dur : Nat) (r : Res)
  | get2 (k : Nat)
  | set (k : Nat) (r : Res)
  | fget (o : Nat)
  | panic (v : Contract)        -- contract violation: the call panics, nothing changes

structure Call where
  at_ : Nat
  cid : Nat
  op : Op
  inLd : Option Nat := none     -- the call is issued from inside the loader of Load call `inLd` (dependent loads)

structure Scen where
  P : Nat
  J : Nat
  En : Nat
  Ee : Nat
  calls : List Call
  keys : List String      -- key id = position

def kvOf (pref : String) (ws : List String) : Option String :=
  ws.findSome? (fun w => if w.startsWith pref then some (dropChars pref.length w) else none)

def keyId (keys : List String) (k : String) : List String × Nat :=
  match keys.idxOf? k with
  | some i => (keys, i)
  | none => (keys ++ [k], keys.length)

def parseCall (keys : List String) (seg : String) : Option (List String × Call) :=
  match words seg with
  | "at" :: t :: kind :: c :: rest =>
    match t.toNat?, parseCid? c with
    | some t, some c =>
      -- contract violations: nil key / unsupported key type / nil loader
      let keyArg := kvOf "k=" rest
      if keyArg = some "nil" && (kind = "load" || kind = "get2" || kind = "set") then
        some (keys, { at_ := t, cid := c, op := .panic .nilKey })
      else if (keyArg.map (·.startsWith "f64:")).getD false && (kind = "load" || kind = "get2" || kind = "set") then
        some (keys, { at_ := t, cid := c, op := .panic .badKeyType })
      else if kind = "load" && kvOf "loader=" rest = some "nil" then
        some (keys, { at_ := t, cid := c, op := .panic .nilLoader })
      else
      match kind with
      | "load" =>
        match kvOf "k=" rest, kvOf "loader=" rest with
        | some k, some l =>
          let parts := l.splitOn ","
          let dur := (parts.findSome? (fun p => match p.splitOn ":" with | ["dur", d] => d.toNat? | _ => none)).getD 0
          let (keys, kid) := keyId keys k
          some (keys, { at_ := t, cid := c, op := .load kid dur (parseResParts parts) })
        | _, _ => none
      | "get2" =>
        match kvOf "k=" rest with
        | some k => let (keys, kid) := keyId keys k; some (keys, { at_ := t, cid := c, op := .get2 kid })
        | none => none
      | "set" =>
        match kvOf "k=" rest with
        | some k =>
          let (keys, kid) := keyId keys k
          let parts := (rest.filter (fun w => !(w.startsWith "k="))).flatMap (·.splitOn ",")
          some (keys, { at_ := t, cid := c, op := .set kid (parseResParts parts) })
        | none => none
      | "fget" =>
        match (kvOf "of=" rest).bind parseCid? with
        | some o => some (keys, { at_ := t, cid := c, op := .fget o })
        | none => none
      | _ => none
    | _, _ => none
  | _ => none

/-- `in=cN`: issued by the loader of cN when it runs (as an ordinary client call of the model: invocations are
    environment actions and may happen at any time; the loader's return waits for them – `lmid`) -/
def parseCallIn (keys : List String) (seg : String) : Option (List String × Call) :=
  match parseCall keys seg with
  | some (keys, c) => some (keys, { c with inLd := (kvOf "in=" (words seg)).bind parseCid? })
  | none => none

def parseScen (line : String) : Option Scen :=
  match line.splitOn " | " with
  | [head, body] =>
    let hw := words head
    match hw.head?, (kvOf "P=" hw).bind (·.toNat?), (kvOf "J=" hw).bind (·.toNat?),
          (kvOf "En=" hw).bind (·.toNat?), (kvOf "Ee=" hw).bind (·.toNat?) with
    | some "cfg", some p, some j, some en, some ee =>
      let segs := (body.splitOn " ; ").filter (fun s => !(words s).isEmpty)
      let r := segs.foldl (fun acc seg =>
        match acc with
        | none => none
        | some (keys, calls) =>
          match parseCallIn keys seg with
          | some (keys, c) => some (keys, calls ++ [c])
          | none => none) (some ([], []))
      r.map (fun (keys, calls) => { P := p, J := j, En := en, Ee := ee, calls := calls, keys := keys })
    | _, _, _, _, _ => none
  | _ => none

inductive Ev
  | call (c : Nat)
  | retFut (c : Nat) (n : Nat)
  | retPair (c : Nat) (shown : String)
  | retSet (c : Nat)
  | retPanic (c : Nat)
  | lstart (ld : Nat) (key : String) (n : Nat)
  | lend (n : Nat) (shown : String)
  | lmid (n : Nat)              -- the loader's nested calls have returned; its own work (dur) starts now
  | fin
  | hang (who : String)
  | bad (s : String)

def parseHashNat? (s : String) : Option Nat :=
  if s.startsWith "#" then (dropChars 1 s).toNat? else none

def parseEv (seg : String) : Nat × Ev :=
  match words seg with
  | ["end", t] => (t.toNat?.getD 0, .fin)
  | "hang" :: t :: rest => (t.toNat?.getD 0, .hang (joinSp rest))
  | [t, "call", c] =>
    match t.toNat?, parseCid? c with
    | some t, some c => (t, .call c)
    | _, _ => (0, .bad seg)
  | [t, "ret", c, x] =>
    match t.toNat?, parseCid? c with
    | some t, some c =>
      if x = "set" then (t, .retSet c)
      else if x = "panic" then (t, .retPanic c)
      else if x.startsWith "fut#" then
        match (dropChars 4 x).toNat? with
        | some n => (t, .retFut c n)
        | none => (0, .bad seg)
      else (0, .bad seg)
    | _, _ => (0, .bad seg)
  | [t, "ret", c, v, e] =>
    match t.toNat?, parseCid? c with
    | some t, some c => (t, .retPair c (v ++ " " ++ e))
    | _, _ => (0, .bad seg)
  | [t, "lstart", c, k, n] =>
    match t.toNat?, parseCid? c, parseHashNat? n with
    | some t, some c, some n => (t, .lstart c (dropChars 2 k) n)
    | _, _, _ => (0, .bad seg)
  | [t, "lmid", n] =>
    match t.toNat?, parseHashNat? n with
    | some t, some n => (t, .lmid n)
    | _, _ => (0, .bad seg)
  | [t, "lend", n, v, e] =>
    match t.toNat?, parseHashNat? n with
    | some t, some n => (t, .lend n (v ++ " " ++ e))
    | _, _ => (0, .bad seg)
  | _ => (0, .bad seg)

/-! ### monitor state -/

structure Env where
  por : Bool := true      -- partial-order reduction on (driver argument `nopor` switches it off: cross-check)
  cfg : Cfg
  sc : Scen
  tickEvery : Nat
  maxCid : Nat

structure M where
  s : State
  seen : List FutId                  -- observation number ↦ model future
  nextTick : Nat
  invs : List (Wid × Nat × Nat)      -- loader invocation number ↦ (worker, start time, loader id)
  active : List Cid                  -- invoked and not yet returned
  pcalled : List Cid := []           -- contract-violating calls that were issued and have not yet panicked
  pdone : List Cid := []             -- … that have panicked
  waitNested : List Nat := []        -- loader invocations that are still performing their nested calls (no `lmid` yet)

def callOf (env : Env) (c : Nat) : Option Call := env.sc.calls.find? (·.cid = c)

def showOptNat : Option Nat → String
  | none => "-"
  | some n => toString n

def showJob (j : Job) : String := s!"{j.key},{j.fut},{j.ld}"

def showPlan : Plan → String
  | .ret f => s!"r{f}"
  | .fetch f => s!"f{f}"

def showCPc : CPc → String
  | .idle => "i"
  | .ldStart k ld => s!"ls {k} {ld}"
  | .ldUnlock sh send plan => s!"lu {sh} {(send.map showJob).getD "-"} {showPlan plan}"
  | .ldSend j plan lk => s!"lS {showJob j} {showPlan plan} {showOptNat lk}"
  | .fetch f g => s!"fe {f} {g}"
  | .fetchSt f p g => s!"fs {f} {showOptNat p} {g}"
  | .ldRet f => s!"lr {f}"
  | .g2Start k => s!"gs {k}"
  | .g2Status f => s!"gt {showOptNat f}"
  | .wait f => s!"w {f}"
  | .retNil => "rn"
  | .setStart k r => s!"ss {k} {showRes r}"
  | .setRet => "sr"
  | .done _ => "d"

def showWPc : WPc → String
  | .idle => "i"
  | .got j => s!"g {showJob j}"
  | .running j => s!"r {showJob j}"
  | .publish j r => s!"p {showJob j} {showRes r}"
  | .clearPred j => s!"c {showJob j}"
  | .wgDone j => s!"d {showJob j}"
  | .sweep i => s!"s {i}"

def showFut (f : Fut) : String :=
  s!"{f.key} {(f.res.map showRes).getD "-"} {f.upd} {showOptNat f.pred} {f.done}"

deriving instance Hashable for Res, Fut, Job, Plan, Out, CPc, WPc

/-- fingerprint of the non-ghost part on the finite id sets of the scenario (state de-duplication; a 64-bit hash of
    exactly the components `renderM` prints — a collision could only drop a model state, i.e. cause a false reject) -/
def hashM (env : Env) (m : M) : UInt64 :=
  let s := m.s
  let h0 := mixHash (hash s.now) (mixHash (hash s.tickPending) (hash m.nextTick))
  let h1 := m.active.foldl (fun h c => mixHash h (mixHash (hash c) (hash (s.cpc c)))) h0
  let h2 := (List.range env.cfg.P).foldl (fun h w => mixHash h (hash (s.wpc w))) h1
  let h3 := (List.range s.nfut).foldl (fun h f =>
    let x := s.fut f
    mixHash h (mixHash (hash x.key) (mixHash (hash x.res) (mixHash (hash x.upd) (mixHash (hash x.pred) (hash x.done)))))) h2
  let h4 := (List.range env.sc.keys.length).foldl (fun h k => mixHash h (hash (s.map k))) h3
  let h5 := (List.range env.cfg.S).foldl (fun h i => mixHash h (hash (s.lock i))) h4
  let h6 := s.chan.foldl (fun h j => mixHash h (hash j)) h5
  let h6 := m.pcalled.foldl (fun h c => mixHash h (hash c)) (mixHash h6 31)
  let h6 := m.pdone.foldl (fun h c => mixHash h (hash c)) (mixHash h6 37)
  let h6 := m.waitNested.foldl (fun h c => mixHash h (hash c)) (mixHash h6 41)
  let h7 := m.seen.foldl (fun h f => mixHash h (hash f)) (mixHash h6 17)
  m.invs.foldl (fun h (w, t, l) => mixHash h (mixHash (hash w) (mixHash (hash t) (hash l)))) (mixHash h7 23)

/-- canonical rendering of the non-ghost part on the finite id sets of the scenario (debugging aid) -/
def renderM (env : Env) (m : M) : String :=
  let s := m.s
  let cs := m.active.map (fun c => s!"{c}:{showCPc (s.cpc c)}")
  let ws := (List.range env.cfg.P).map (fun w => showWPc (s.wpc w))
  let fs := (List.range s.nfut).map (fun f => showFut (s.fut f))
  let ms := (List.range env.sc.keys.length).map (fun k => showOptNat (s.map k))
  let ls := (List.range env.cfg.S).filterMap (fun i => (s.lock i).map (fun c => s!"{i}>{c}"))
  "|".intercalate [toString s.now, toString s.tickPending, toString m.nextTick,
    ",".intercalate cs, ",".intercalate ws, ";".intercalate fs, ",".intercalate ms, ",".intercalate ls,
    ",".intercalate (s.chan.map showJob), ",".intercalate (m.seen.map toString),
    ",".intercalate (m.invs.map (fun (w, t, l) => s!"{w}.{t}.{l}"))]

def tabOf {β : Type} (arr : Array β) (dflt : β) (i : Nat) : β := arr.getD i dflt

/-- replace the function-typed fields by extensionally equal table look-ups (keeps closure chains short).
    The arrays are built here, strictly, and captured by the partial applications of `tabOf`. -/
def compact (env : Env) (m : M) : M :=
  let s := m.s
  let aLock := (Array.range env.cfg.S).map s.lock
  let aMap := (Array.range env.sc.keys.length).map s.map
  let aFut := (Array.range s.nfut).map s.fut
  let aCpc := (Array.range (env.maxCid + 1)).map s.cpc
  let aWpc := (Array.range env.cfg.P).map s.wpc
  let aJob := (Array.range s.nfut).map s.jobAt
  let s' : State :=
    { s with
      lock := tabOf aLock none
      map := tabOf aMap none
      fut := tabOf aFut emptyFut
      cpc := tabOf aCpc .idle
      wpc := tabOf aWpc .idle
      jobAt := tabOf aJob .nowhere }
  { m with s := s' }

/-- after a sweep step only the map needs flattening (`sweepShard` wraps the previous map in a closure that looks the
    old entry up twice; nested sweeps would otherwise cost 2^depth per look-up) -/
def compactMap (env : Env) (m : M) : M :=
  let s := m.s
  let aMap := (Array.range env.sc.keys.length).map s.map
  { m with s := { s with map := tabOf aMap none } }

def isRetPc (s : State) : CPc → Bool
  | .ldRet _ | .retNil | .setRet => true
  | .wait f => (s.fut f).done
  | _ => false

/-- unobserved client steps whose order relative to other steps matters -/
def isBranchPc : CPc → Bool
  | .ldStart _ _ | .ldSend _ _ _ | .fetch _ _ | .fetchSt _ _ _ | .g2Start _ | .g2Status _ | .setStart _ _ => true
  | _ => false

def firstSome {α β : Type} (xs : List α) (f : α → Option β) : Option β := xs.findSome? f

/-- one eager step (commutes with / is invisible to everything else), in a fixed priority order -/
def eagerOnce (env : Env) (m : M) : Option M :=
  let cfg := env.cfg
  let s := m.s
  let ws := List.range cfg.P
  -- Unlock
  (firstSome m.active (fun c =>
    match s.cpc c with
    | .ldUnlock _ _ _ => (clStep cfg s c).map (fun s' => { m with s := s' })
    | _ => none)).orElse fun _ =>
  -- wg.Done
  (firstSome ws (fun w =>
    match s.wpc w with
    | .wgDone _ => (wkStep cfg s w).map (fun s' => { m with s := s' })
    | _ => none)).orElse fun _ =>
  -- the ticker
  (if env.tickEvery > 0 && s.now ≥ m.nextTick then
    (step? cfg s .tick).map (fun s' => { m with s := s', nextTick := m.nextTick + env.tickEvery })
   else none).orElse fun _ =>
  -- a worker in the select: job, else tick
  (firstSome ws (fun w => (step? cfg s (.wTake w)).map (fun s' => { m with s := s' }))).orElse fun _ =>
  (firstSome ws (fun w => (step? cfg s (.wTick w)).map (fun s' => { m with s := s' }))).orElse fun _ =>
  -- the sweep
  (firstSome ws (fun w =>
    match s.wpc w with
    | .sweep _ => (wkStep cfg s w).map (fun s' => compactMap env { m with s := s' })
    | _ => none))

def normalize (env : Env) : Nat → M → M
  | 0, m => m
  | fuel + 1, m =>
    match eagerOnce env m with
    | some m' => normalize env fuel m'
    | none => m

def normFuel : Nat := 100000

/-! ### partial-order reduction of the unobserved steps

Every unobserved ("branching") step is classified by the shared objects it – and the rest of its agent's unobserved steps
at this instant – reads or writes. If some agent's remaining steps conflict with NO other agent (present, or arriving
later at the same instant: the look-ahead over the remaining events with the same time stamp), its next step commutes
with everything that can happen before it and is taken first without exploring the alternatives (a persistent set of
size one; the step is invisible, observable events only change the pc of their own agent). Otherwise all enabled
steps are explored. Without this, k simultaneous calls cost (steps per call)^k states. -/

inductive Obj
  | map (k : Nat)                    -- the entry of key k in its shard map
  | st (k : Nat) (f : Option Nat)    -- updateTime/err of future f of key k (none = any future of the key)
  | pr (k : Nat) (f : Option Nat)    -- predecessor pointer
  | chan                             -- the job channel (order of sends)
  | alloc                            -- allocation order of futures (model ids)

structure Access where
  obj : Obj
  w : Bool

abbrev Foot := List Access

def optMeet (a b : Option Nat) : Bool := a.isNone || b.isNone || a == b

def objMeet : Obj → Obj → Bool
  | .map a, .map b => a == b
  | .st k a, .st k' b => k == k' && optMeet a b
  | .pr k a, .pr k' b => k == k' && optMeet a b
  | .chan, .chan => true
  | .alloc, .alloc => true
  | _, _ => false

def footConflict (a b : Foot) : Bool :=
  a.any (fun x => b.any (fun y => (x.w || y.w) && objMeet x.obj y.obj))

/-- everything a Load of key k may still touch before it returns -/
def loadFoot (k : Nat) : Foot :=
  [⟨.map k, true⟩, ⟨.st k none, false⟩, ⟨.pr k none, false⟩, ⟨.chan, true⟩, ⟨.alloc, true⟩]

def get2Foot (k : Nat) : Foot := [⟨.map k, false⟩, ⟨.st k none, false⟩, ⟨.pr k none, false⟩]

def setFoot (k : Nat) : Foot := [⟨.map k, true⟩, ⟨.alloc, true⟩]

/-- remaining unobserved accesses of a client at pc -/
def clientFoot (s : State) : CPc → Foot
  | .ldStart k _ => loadFoot k
  | .ldSend j plan _ =>
    ⟨.chan, true⟩ :: (match plan with
                      | .fetch f => [⟨.pr j.key (some f), false⟩, ⟨.st j.key none, false⟩]
                      | .ret _ => [])
  | .fetch f _ => [⟨.pr (s.fut f).key (some f), false⟩, ⟨.st (s.fut f).key none, false⟩]
  | .fetchSt f (some p) _ => [⟨.st (s.fut f).key (some p), false⟩]
  | .g2Start k => get2Foot k
  | .g2Status (some f) => [⟨.st (s.fut f).key none, false⟩, ⟨.pr (s.fut f).key (some f), false⟩]
  | .setStart k _ => setFoot k
  | _ => []

/-- the accesses of the client's NEXT unobserved step only (what must be independent of everybody else's remaining
    steps for the step to be taken first) -/
def clientNextFoot (s : State) : CPc → Foot
  | .ldStart k _ => [⟨.map k, true⟩, ⟨.st k none, false⟩, ⟨.alloc, true⟩]
  | .ldSend _ _ _ => [⟨.chan, true⟩]
  | .fetch f _ => [⟨.pr (s.fut f).key (some f), false⟩]
  | .fetchSt f (some p) _ => [⟨.st (s.fut f).key (some p), false⟩]
  | .g2Start k => [⟨.map k, false⟩]
  | .g2Status (some f) => [⟨.st (s.fut f).key (some f), false⟩]
  | .setStart k _ => setFoot k
  | _ => []

def workerNextFoot : WPc → Foot
  | .publish j _ => [⟨.st j.key (some j.fut), true⟩]
  | .clearPred j => [⟨.pr j.key (some j.fut), true⟩]
  | _ => []

/-- setValue of the worker holding job j -/
def publishFoot (k : Nat) (f : Option Nat) : Foot := [⟨.st k f, true⟩, ⟨.pr k f, true⟩]

def workerFoot : WPc → Foot
  | .publish j _ => publishFoot j.key (some j.fut)
  | .clearPred j => [⟨.pr j.key (some j.fut), true⟩]
  | _ => []

/-- agents that will still arrive at this instant (remaining events with the same time stamp) -/
def lookFoots (env : Env) (m : M) (evs : List Ev) : List Foot :=
  evs.filterMap (fun e =>
    match e with
    | .call c =>
      match (callOf env c).map (fun (x : Call) => x.op) with
      | some (Op.load k _ _) => some (loadFoot k)
      | some (Op.get2 k) => some (get2Foot k)
      | some (Op.set k _) => some (setFoot k)
      | _ => none
    | .lstart ld _ _ =>                 -- its loader may also end at this instant: setValue on a future of that key
      match (callOf env ld).map (fun (x : Call) => x.op) with
      | some (Op.load k _ _) => some (publishFoot k none)
      | _ => none
    | .lend n _ =>
      match m.invs[n]? with
      | some (_, _, ld) =>
        match (callOf env ld).map (fun (x : Call) => x.op) with
        | some (Op.load k _ _) => some (publishFoot k none)
        | _ => none
      | none => none
    | _ => none)

/-- successors by one branching internal step (normalised), reduced as described above -/
def branchSteps (env : Env) (look : M → List Foot) (m : M) : List M :=
  let cfg := env.cfg
  let s := m.s
  -- per agent: (accesses of its next step, all its remaining accesses, successor if the step is enabled)
  let cs : List (Foot × Foot × Option M) := m.active.filterMap (fun c =>
    if isBranchPc (s.cpc c) then
      some (clientNextFoot s (s.cpc c), clientFoot s (s.cpc c),
            (clStep cfg s c).map (fun s' => normalize env normFuel { m with s := s' }))
    else none)
  let ws : List (Foot × Foot × Option M) := (List.range cfg.P).filterMap (fun w =>
    match s.wpc w with
    | .publish _ _ | .clearPred _ =>
      some (workerNextFoot (s.wpc w), workerFoot (s.wpc w),
            (wkStep cfg s w).map (fun s' => normalize env normFuel { m with s := s' }))
    | _ => none)
  let agents := (cs ++ ws).zipIdx
  let later := look m
  let independent := if !env.por then none else agents.findSome? (fun ((next, _, succ), i) =>
    match succ with
    | none => none
    | some m' =>
      if agents.all (fun ((_, rest', _), j) => i == j || !footConflict next rest') &&
         later.all (fun foot' => !footConflict next foot') then some m' else none)
  match independent with
  | some m' => [m']
  | none => agents.filterMap (fun ((_, _, succ), _) => succ)

abbrev MSet := List (UInt64 × M)

def insertM (env : Env) (set : MSet) (m : M) : MSet × Bool :=
  let key := hashM env m
  if set.any (fun (k, _) => k == key) then (set, false) else (set ++ [(key, m)], true)

/-- time box of the monitor: a closure larger than this, or more than `workLimit` states per scenario, makes the
    monitor give up on the line (`ok unchecked …`: judged by the independent oracle only, counted in the evidence) -/
def closureLimit : Nat := 3000
def workLimit : Nat := 400000

/-- all states reachable by unobserved steps (breadth first, de-duplicated, reduced); the flag says that the
    exploration was cut off by the time box (the result is then incomplete and must not be used to reject) -/
def closure (env : Env) (look : M → List Foot) (start : List M) : MSet × Bool :=
  let rec go (fuel : Nat) (n : Nat) (set : MSet) (frontier : List M) : MSet × Bool :=
    match fuel, frontier with
    | 0, _ => (set, true)
    | _, [] => (set, false)
    | fuel + 1, m :: rest =>
      if n > closureLimit then (set, true) else
      let succs := branchSteps env look m
      let (set, newOnes) := succs.foldl (fun (acc : MSet × List M) m' =>
        let (set', isNew) := insertM env acc.1 m'
        (set', if isNew then acc.2 ++ [m'] else acc.2)) (set, [])
      go fuel (n + newOnes.length) set (rest ++ newOnes)
  let (set0, fr0) := start.foldl (fun (acc : MSet × List M) m =>
    let (set', isNew) := insertM env acc.1 m
    (set', if isNew then acc.2 ++ [m] else acc.2)) ([], [])
  go 200000 set0.length set0 fr0

/-- is a step enabled that the fake clock would wait for? -/
def urgent (env : Env) (m : M) : Option String :=
  let s := m.s
  (m.pcalled.head?.map (fun c => s!"c{c} violates the contract and panics at once")).orElse fun _ =>
  (firstSome m.active (fun c =>
    let pc := s.cpc c
    if isRetPc s pc then some s!"c{c} can return"
    else if isBranchPc pc && (clStep env.cfg s c).isSome then some s!"c{c} can step ({showCPc pc})"
    else none)).orElse fun _ =>
  firstSome (List.range env.cfg.P) (fun w =>
    match s.wpc w with
    | .got _ => some s!"worker {w} is about to call the loader"
    | .publish _ _ | .clearPred _ => some s!"worker {w} is inside setValue"
    | _ => none)

/-- timers that must not be skipped when time advances to t -/
def overdue (env : Env) (m : M) (t : Nat) : Option String :=
  (firstSome env.sc.calls (fun c =>
    if c.inLd.isSome then none else
    match m.s.cpc c.cid, c.op with
    | .idle, .panic _ =>
      if c.at_ < t && !(m.pcalled.contains c.cid) && !(m.pdone.contains c.cid) then
        some s!"call c{c.cid} scheduled at {c.at_} was never issued" else none
    | .idle, .fget o =>
      (match m.s.cpc o with
       | .done _ => if c.at_ < t then some s!"call c{c.cid} (Future.Get2 of c{o}) was never issued" else none
       | _ => none)
    | .idle, _ => if c.at_ < t then some s!"call c{c.cid} scheduled at {c.at_} was never issued" else none
    | _, _ => none)).orElse fun _ =>
  firstSome m.invs.zipIdx (fun ((w, t0, ld), n) =>
    if m.waitNested.contains n then none else
    match m.s.wpc w, callOf env ld with
    | .running j, some { op := .load _ dur _, .. } =>
      if j.ld = ld && t0 + dur < t then some s!"loader of c{ld} started at {t0} did not end at {t0 + dur}" else none
    | _, _ => none)

/-- advance the clock of a quiescent state to t, firing the ticks that fall strictly before t on the way -/
def advance (env : Env) (t : Nat) : Nat → M → M
  | 0, m => m
  | fuel + 1, m =>
    if env.tickEvery > 0 && m.nextTick < t then
      let d := m.nextTick - m.s.now
      let s' := step env.cfg m.s (.delay d)
      advance env t fuel (compact env (normalize env normFuel { m with s := s' }))
    else
      let s' := step env.cfg m.s (.delay (t - m.s.now))
      normalize env normFuel (compact env { m with s := s' })

def showOut : Out → String
  | .fut f => s!"fut{f}"
  | .pair _ none => "nil nil"
  | .pair _ (some r) => showRes r
  | .unit => "set"

def applyEv (env : Env) (m : M) : Ev → Except String M
  | .call c =>
    match callOf env c with
    | none => .error s!"c{c} is not in the script"
    | some call =>
      let timeOk := match call.inLd, call.op with
        | some ld, _ =>                     -- nested: while the loader of c{ld} runs (before its lmid)
          m.invs.any (fun (w, _, l) => l == ld && (match m.s.wpc w with | .running j => j.ld == ld | _ => false))
        | none, .fget _ => call.at_ ≤ m.s.now      -- issued at its instant or as soon as its Load has returned
        | none, _ => call.at_ = m.s.now
      if !timeOk then .error s!"c{c} issued at {m.s.now}, scripted at {call.at_}" else
      if let .panic _ := call.op then
        (if m.pcalled.contains c || m.pdone.contains c then .error s!"c{c} issued twice"
         else .ok { m with pcalled := m.pcalled ++ [c] }) else
      let act : Act :=
        match call.op with
        | .load k _ _ => .invLoad c k c
        | .get2 k => .invGet2 c k
        | .set k r => .invSet c k r
        | .fget o => .invFGet c o
        | .panic _ => .delay 0
      match step? env.cfg m.s act with
      | some s' => .ok { m with s := s', active := m.active ++ [c] }
      | none => .error s!"c{c} cannot be invoked (already invoked, or Future.Get2 on a Load that has not returned in the model)"
  | .retFut c n =>
    match m.s.cpc c with
    | .ldRet f =>
      match clStep env.cfg m.s c with
      | some s' =>
        let m' := { m with s := s', active := m.active.filter (· ≠ c) }
        if h : n < m.seen.length then
          if m.seen[n] = f then .ok m' else .error s!"Load c{c} returned future #{n}, model returns another future (model id {f})"
        else if n = m.seen.length then
          if m.seen.contains f then .error s!"Load c{c} returned a new future, model returns the already seen #{(m.seen.idxOf? f).getD 0}"
          else .ok { m' with seen := m.seen ++ [f] }
        else .error s!"future number {n} skips"
      | none => .error "internal: ldRet not enabled"
    | pc => .error s!"Load c{c} returned but the model client is at {showCPc pc}"
  | .retPair c shown =>
    let pc := m.s.cpc c
    if isRetPc m.s pc then
      match clStep env.cfg m.s c with
      | some s' =>
        match s'.cpc c with
        | .done (.pair f r) =>
          if showOut (.pair f r) = shown then .ok { m with s := s', active := m.active.filter (· ≠ c) }
          else .error s!"c{c} returned ({shown}), model returns ({showOut (.pair f r)})"
        | _ => .error s!"c{c} returned a pair, model call returns something else"
      | none => .error "internal: return not enabled"
    else .error s!"c{c} returned ({shown}) but the model client is at {showCPc pc}"
  | .retPanic c =>
    if m.pcalled.contains c then
      match (callOf env c).map (fun (x : Call) => x.op) with
      | some (Op.panic v) =>
        .ok { m with s := contractPanic m.s v, pcalled := m.pcalled.filter (· ≠ c), pdone := m.pdone ++ [c] }
      | _ => .error s!"c{c} panicked but does not violate the contract"
    else .error s!"c{c} panicked; in the model it {showCPc (m.s.cpc c)} (no contract violation pending)"
  | .retSet c =>
    match m.s.cpc c with
    | .setRet =>
      match clStep env.cfg m.s c with
      | some s' => .ok { m with s := s', active := m.active.filter (· ≠ c) }
      | none => .error "internal: setRet not enabled"
    | pc => .error s!"Set c{c} returned but the model client is at {showCPc pc}"
  | .lstart ld key n =>
    if n ≠ m.invs.length then .error s!"loader invocation number {n} out of order" else
    let cand := (List.range env.cfg.P).findSome? (fun w =>
      match m.s.wpc w with
      | .got j => if j.ld = ld then some (w, j) else none
      | _ => none)
    match cand with
    | none => .error s!"loader of c{ld} started, but no model worker holds a job of that Load"
    | some (w, j) =>
      if env.sc.keys[j.key]? ≠ some key then
        .error s!"loader of c{ld} was called with key {key}, model passes {(env.sc.keys[j.key]?).getD "?"}"
      else
        match step? env.cfg m.s (.wStart w) with
        | some s' =>
          let hasNested := env.sc.calls.any (fun c => c.inLd == some ld)
          .ok { m with s := s', invs := m.invs ++ [(w, m.s.now, ld)],
                       waitNested := if hasNested then m.waitNested ++ [n] else m.waitNested }
        | none => .error "internal: wStart not enabled"
  | .lmid n =>
    match m.invs[n]? with
    | none => .error s!"loader invocation {n} unknown"
    | some (w, _, ld) =>
      let nested := env.sc.calls.filter (fun c => c.inLd == some ld)
      if nested.isEmpty then .error s!"loader #{n} has no nested calls" else
      match nested.find? (fun c => match c.op, m.s.cpc c.cid with
                                    | .panic _, _ => !(m.pdone.contains c.cid)
                                    | _, .done _ => false
                                    | _, _ => true) with
      | some c => .error s!"loader #{n} went on although its nested call c{c.cid} has not returned in the model"
      | none => .ok { m with invs := m.invs.set n (w, m.s.now, ld), waitNested := m.waitNested.filter (· ≠ n) }
  | .lend n shown =>
    match m.invs[n]? with
    | none => .error s!"loader invocation {n} unknown"
    | some (w, t0, ld) =>
      if m.waitNested.contains n then .error s!"loader #{n} returned before its nested calls were done (no lmid)" else
      match callOf env ld with
      | some { op := .load _ dur r, .. } =>
        if t0 + dur ≠ m.s.now then .error s!"loader #{n} ended at {m.s.now}, scripted end {t0 + dur}"
        else if showRes r ≠ shown then .error s!"loader #{n} returned ({shown}), scripted ({showRes r})"
        else
          match m.s.wpc w with
          | .running j =>
            if j.ld = ld then
              match step? env.cfg m.s (.wEnd w r) with
              | some s' => .ok { m with s := s' }
              | none => .error "internal: wEnd not enabled"
            else .error s!"loader #{n}: model worker runs another job"
          | _ => .error s!"loader #{n} ended but the model worker is not running it"
      | _ => .error s!"loader #{n}: c{ld} is not a Load"
  | .fin => .ok m
  | .hang who => .error s!"calls still blocked at the end of the scenario: {who}"
  | .bad seg => .error s!"unparsable event '{seg}'"

def allDone (env : Env) (m : M) : Option String :=
  (firstSome env.sc.calls (fun c =>
    match c.op, m.s.cpc c.cid with
    | .panic _, _ => if m.pdone.contains c.cid then none else some s!"c{c.cid} (contract violation) has not panicked"
    | _, .done _ => none
    | _, pc => some s!"c{c.cid} has not returned in the model ({showCPc pc})")).orElse fun _ =>
  (firstSome (List.range env.cfg.P) (fun w =>
    match m.s.wpc w with
    | .idle => none
    | pc => some s!"worker {w} not idle ({showWPc pc})")).orElse fun _ =>
  (firstSome (List.range m.s.nfut) (fun f =>
    if (m.s.fut f).done then none else some s!"future {f} unresolved"))

structure Acc where
  set : List M
  err : Option String
  maxSet : Nat
  nev : Nat
  work : Nat := 0
  last : Nat := 0                -- size of the last closures
  trunc : Bool := false          -- an exploration was cut off by the time box
  unchecked : Bool := false

/-- `sameT` = the events from this one on that carry the same time stamp (look-ahead of the reduction) -/
def processEvent1 (env : Env) (sameT : List Ev) (acc : Acc) (tev : Nat × Ev) : Acc :=
  match acc.err with
  | some _ => acc
  | none =>
    let (t, ev) := tev
    let fail (why : String) : Acc := { acc with err := some s!"event {acc.nev}: {why}" }
    let cut (n : Nat) : Acc := { acc with trunc := true, last := n }
    match acc.set with
    | [] => fail "no model state"
    | m0 :: _ =>
      let now := m0.s.now
      match ev with
      | .fin =>
        -- end of the observation: some tracked state (after the remaining unobserved steps) must be completely finished
        let (cl0, tr) := closure env (fun _ => []) acc.set
        let cl := cl0.map (·.2)
        match cl.find? (fun m => (allDone env m).isNone && (urgent env m).isNone) with
        | some m => { acc with set := [m], nev := acc.nev + 1, maxSet := max acc.maxSet cl.length, last := cl.length }
        | none =>
          if tr then cut cl.length else
          let why := (cl.head?.bind (fun m => (allDone env m).orElse fun _ => urgent env m)).getD "?"
          fail s!"scenario ended but in the model {why}"
      | _ =>
      if t < now then fail s!"time goes backwards ({t} < {now})" else
      -- 1. advance virtual time: every agent runs until it blocks; nothing else arrives at the old instant any more
      let stepTime : Except (Option String) (List M × Nat) :=
        if t = now then .ok (acc.set, 0) else
          let (cl0, tr) := closure env (fun _ => []) acc.set
          let cl := cl0.map (·.2)
          let quiet := cl.filter (fun m => (urgent env m).isNone && (overdue env m t).isNone)
          match quiet with
          | [] =>
            if tr then .error none else
            let why := (cl.head?.bind (fun m => (urgent env m).orElse fun _ => overdue env m t)).getD "?"
            .error (some s!"virtual time advanced from {now} to {t} although {why}")
          | _ => .ok (quiet.map (advance env t 1000000), cl.length)
      match stepTime with
      | .error none => cut (closureLimit + 1)
      | .error (some e) => fail e
      | .ok (set1, n1) =>
        -- 2. unobserved steps, 3. the observed event
        -- (an invocation only moves its own client from idle to its first pc: it commutes with every unobserved step,
        --  so no exploration is needed before it – the next closure explores from the states after the call)
        let isCall := match ev with | .call _ => true | _ => false
        let (cl0, tr) := if isCall then (set1.map (fun m => ((0 : UInt64), m)), false)
                         else closure env (fun m => lookFoots env m sameT) set1
        let cl := cl0.map (·.2)
        let res := cl.map (fun m => applyEv env m ev)
        let oks := res.filterMap (fun r => match r with | .ok m => some (normalize env normFuel m) | .error _ => none)
        match oks with
        | [] =>
          if tr then cut cl.length else
          let why := (res.findSome? (fun r => match r with | .error e => some e | .ok _ => none)).getD "?"
          fail s!"t={t}: {why}"
        | _ =>
          -- de-duplicate
          let keys := oks.map (hashM env)
          let ded := (oks.zip keys).foldl (fun (acc : List (UInt64 × M)) (m, k) =>
            if acc.any (fun (k', _) => k' == k) then acc else acc ++ [(k, m)]) []
          { acc with set := ded.map (·.2), nev := acc.nev + 1, maxSet := max acc.maxSet (max cl.length n1),
                     last := cl.length + n1, trunc := acc.trunc || tr }

/-- one event, with the time box: the state sets of the event count as work; an exploration that was cut off makes the
    monitor give up on the line (never reject on an incomplete state set) -/
def processEvent (env : Env) (sameT : List Ev) (acc : Acc) (tev : Nat × Ev) : Acc :=
  if acc.unchecked || acc.err.isSome then acc else
  let acc' := processEvent1 env sameT acc tev
  let work := acc.work + acc'.last
  if acc'.trunc || work > workLimit then { acc with unchecked := true, work := work }
  else { acc' with work := work }

def processAll (env : Env) : Acc → List (Nat × Ev) → Acc
  | acc, [] => acc
  | acc, (t, e) :: rest =>
    let sameT := e :: (rest.takeWhile (fun x => x.1 == t)).map (·.2)
    processAll env (processEvent env sameT acc (t, e)) rest

/-- shard index of every key id, computed once per scenario (the table is captured by the partial application) -/
def shardTable (S : Nat) (keys : List String) : Array Nat :=
  keys.toArray.map (fun k => match parseKey? k with | some tk => (shardIndex S tk).toNat | none => 0)

def shardLookup (arr : Array Nat) (k : Nat) : Nat := arr.getD k 0

def monitorScen (por : Bool) (script impl : String) : String :=
  match parseScen script with
  | none => "reject unparsable script"
  | some sc =>
    match impl.splitOn " | " with
    | [] => "reject empty observation"
    | head :: evs =>
      match (kvOf "S=" (words head)).bind (·.toNat?) with
      | none => s!"reject observation has no S= header: {head}"
      | some S =>
        let shards := shardTable S sc.keys
        let cfg : Cfg := { P := sc.P, J := sc.J, S := S, En := sc.En, Ee := sc.Ee, shardOf := shardLookup shards }
        let maxCid := sc.calls.foldl (fun a c => max a c.cid) 0
        let env : Env := { por := por, cfg := cfg, sc := sc, tickEvery := tickFactor * sc.En, maxCid := maxCid }
        let m0 : M := { s := init, seen := [], nextTick := env.tickEvery, invs := [], active := [] }
        let evl := evs.map parseEv
        let evl := if evl.any (fun (_, e) => match e with | .fin => true | .hang _ => true | _ => false) then evl
                   else evl ++ [(0, Ev.bad "observation has no end marker")]
        let acc := processAll env { set := [m0], err := none, maxSet := 1, nev := 0 } evl
        if acc.unchecked then s!"ok unchecked (monitor time box: state sets too large at event {acc.nev}, work {acc.work})" else
        match acc.err with
        | some e => "reject " ++ e
        | none => s!"ok events={acc.nev} maxset={acc.maxSet}"

def monitorLine (por : Bool) (line : String) : String :=
  match line.splitOn "\t" with
  | [script, impl] =>
    match words script with
    | ["shard", count, key] =>
      match count.toNat?, parseKey? key with
      | some c, some k =>
        let want := s!"idx {shardIndex c k}"
        if impl = want then "ok" else s!"reject model: {want}"
      | _, _ => "reject unparsable shard line"
    | ["cpo2", n] =>
      match n.toInt? with
      | some n =>
        let want := match convertPowerOfTwo n with | some r => s!"r {r}" | none => "diverge"
        -- the MiniGo term regenerated from the source for this run, interpreted (theorem
        -- C04_shard_count_translated_source: equal to the model for n ≤ 2^62); fuel 400 covers the ≤ 64 iterations
        let ast := match Got.Generated.AstLoom.convertPowerOfTwo.run (fun _ _ => false) 400 [n] with
          | some (.ret r _) => s!"r {r}"
          | _ => "diverge"
        if impl ≠ want then s!"reject model: {want}"
        else if n ≤ 4611686018427387904 && impl ≠ ast then s!"reject translated source (MiniGo interpreter): {ast}"
        else "ok"
      | none => "reject unparsable cpo2 line"
    | "cfg" :: _ =>
      -- a spinning goroutine of an earlier scenario froze the fake clock: nothing was observed for this scenario
      if impl = "skipped-after-livelock" then "ok skipped" else monitorScen por script impl
    | ["procs", _] => if impl = "ok" then "ok" else "reject procs"
    | "stress" :: _ =>
      -- real goroutines racing on one key: by C04_no_second_load / C04_one_live_loader the model never duplicates a load
      if impl = "dup 0" || impl = "skipped-after-livelock" then "ok" else s!"reject model: dup 0"
    | [] => ""
    | _ => "reject unknown script line"
  | _ => "reject malformed monitor input (expected script<TAB>observation)"

def main (args : List String) : IO Unit := do
  let por := !(args.contains "nopor")
  lineLoop (← IO.getStdin) (← IO.getStdout) (fun (_ : Unit) l => ((), monitorLine por l)) ()

end Got.Drv.Cache
