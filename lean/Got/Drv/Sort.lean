import Got.Drv.Common
import Got.Model.Sort
import Got.Model.SortUnique
import Got.Model.SortAstWorld
import Got.Model.MiniGoSlice
import Got.Generated.AstSortxUnique
/-
drv_sort: script lines
  slice <mode> <keys> | <nvals>
      <keys>  comma separated ints, `-` = empty;  values are 0,1,…,nvals-1 (identified by original index)
      <mode>  int | str        less(i,j) = keys[i] < keys[j]      (str: the harness uses []string keys, same order)
              intb strb spre ssuf swin smix   as int (the harness varies element types / memory sharing of the strings)
              f64 f32 ff       keys are float TOKENS (see fltRank), less = `<` on the floats; vf64 vf32: as int (float values)
              adv=<seed>       less(i,j) = mix(seed, i, j)         (inconsistent, index based)
              advk=<seed>      less(i,j) = mix(seed, keys[i], keys[j])   (inconsistent, content based)
    output:  k <keys> v <vals> n <number of Less calls> h <hash of the Less log> [log i:j:r …]   (log for min ≤ 16)
             or `panic` if some index passed to Less/Swap is ≥ min(len keys, nvals)
  multi <kcap> <vcap> | <mode> <keys> <nv> | …     several calls, outputs joined by ` | `
  unique <kind> <elems>
    output:  r <returned slice> b <backing array after the call>   or `panic`

With the argument `ast` the `slice` and `multi` lines are answered by interpreting the MiniGoSort translations of
maxDepth and quickSort_func (and, through their calls, doPivot_func, heapSort_func, siftDown_func, medianOfThree_func,
insertionSort_func) that tools/srcfacts regenerated from /repo for this run (Got/Generated/AstSortxSort.lean) instead
of the hand-written model (`Got.Model.SortAst.sliceByAst`; `diverge` = out of fuel), and the `unique` lines by interpreting the
MiniGoSlice translations of UniqueInt (kind `int`) / UniqueString (all other kinds) of Got/Generated/AstSortxUnique.lean.
-/
namespace Got.Drv.Sort
open Got.Model.Sort Got.Model.SortUnique Got.Drv

def parseInts? (s : String) : Option (Array Int) :=
  if s = "-" then some #[] else
  (s.splitOn ",").foldl (fun acc w => match acc, w.toInt? with
    | some a, some x => some (a.push x)
    | _, _ => none) (some #[])

def showInts (a : Array Int) : String :=
  if a.isEmpty then "-" else ",".intercalate (a.toList.map toString)

def showNats (a : Array Nat) : String :=
  if a.isEmpty then "-" else ",".intercalate (a.toList.map toString)

/-- the adversarial comparison bit shared with the harness -/
def mix (seed x y : UInt64) : Bool :=
  let z := seed ^^^ (x * 0x9E3779B97F4A7C15) ^^^ (y * 0xC2B2AE3D27D4EB4F)
  let z := z ^^^ (z >>> 29)
  let z := z * 0xBF58476D1CE4E5B9
  let z := z ^^^ (z >>> 32)
  z &&& 1 == 1

def u64OfInt (k : Int) : UInt64 := UInt64.ofNat (k % 18446744073709551616).toNat

def advLess (seed : UInt64) : LessFn Int Nat := fun _ i j => mix seed (UInt64.ofNat i) (UInt64.ofNat j)

def advkLess (seed : UInt64) : LessFn Int Nat := fun s i j =>
  match s.keys[i]?, s.keys[j]? with
  | some x, some y => mix seed (u64OfInt x) (u64OfInt y)
  | _, _ => false

/-- order class of a float token (the harness maps token `t` to one float bit pattern: 0 -Inf, 1 -1, 2 -denormal,
    3 -0, 4 +0, 5 +denormal, 6 +1, 7 +Inf, 8 and 9 NaNs, t ≥ 10 the float t); `none` = NaN (incomparable) -/
def fltRank (t : Int) : Option Int :=
  if t = 8 ∨ t = 9 then none
  else if t = 3 ∨ t = 4 then some 3
  else if t = 5 then some 4
  else if t = 6 then some 5
  else if t = 7 then some 4611686018427387904
  else some t

/-- `keys[i] < keys[j]` on the floats the tokens stand for: -0 and +0 are different tokens that compare equal -/
def fltLt (x y : Int) : Bool :=
  match fltRank x, fltRank y with
  | some a, some b => decide (a < b)
  | _, _ => false

def fnvStep (h x : UInt64) : UInt64 := (h ^^^ x) * 0x100000001b3

/-- (count, hash) of the Less calls of a log given oldest first -/
def hashLog (evs : List Ev) : Nat × UInt64 :=
  evs.foldl (fun (acc : Nat × UInt64) e => match e with
    | .less i j r => (acc.1 + 1, fnvStep (fnvStep (fnvStep acc.2 (UInt64.ofNat i)) (UInt64.ofNat j)) (if r then 1 else 0))
    | .swap _ _ => acc) (0, 0xcbf29ce484222325)

def evOutOfRange (n : Nat) : Ev → Bool
  | .less i j _ => i ≥ n || j ≥ n
  | .swap i j => i ≥ n || j ≥ n

def hex64 (x : UInt64) : String :=
  String.ofList ((List.range 16).map fun k => hexChar ((x.toNat >>> (4 * (15 - k))) % 16))

def renderSlice (n : Nat) (s : St Int Nat) : String :=
  if s.log.any (evOutOfRange n) then "panic" else
  let evs := s.log.reverse
  let (cnt, h) := hashLog evs
  let base := ["k", showInts s.keys, "v", showNats s.vals, "n", toString cnt, "h", hex64 h]
  let logPart :=
    if n ≤ 16 then
      "log" :: evs.filterMap (fun e => match e with
        | .less i j r => some s!"{i}:{j}:{if r then 1 else 0}"
        | .swap _ _ => none)
    else []
  joinSp (base ++ logPart)

def lessOfMode (mode : String) : Option (LessFn Int Nat) :=
  match mode.splitOn "=" with
  | ["int"] | ["str"] | ["intb"] | ["strb"] | ["spre"] | ["ssuf"] | ["swin"] | ["smix"] =>
    some (stdLess (fun (x y : Int) => decide (x < y)))
  | ["f64"] | ["f32"] | ["ff"] => some (stdLess fltLt)
  | ["vf64"] | ["vf32"] => some (stdLess (fun (x y : Int) => decide (x < y)))
  | ["adv", sd] => sd.toNat?.map fun z => advLess (UInt64.ofNat z)
  | ["advk", sd] => sd.toNat?.map fun z => advkLess (UInt64.ofNat z)
  | _ => none

/-- `ast = true`: interpret the translated source instead of running the model -/
def runSlice (ast : Bool) (mode : String) (keys : Array Int) (nv : Nat) : String :=
  let vals := Array.range nv
  let n := min keys.size nv
  match lessOfMode mode with
  | some less =>
    if ast then
      match Got.Model.SortAst.sliceByAst (Got.Model.SortAst.driverFuel n) less keys vals with
      | some s => renderSlice n s
      | none => "diverge"
    else renderSlice n (sliceBy less keys vals)
  | none => "bad-op"

def runUnique (elems : Array Int) : String :=
  match unique elems with
  | some (r, b) => joinSp ["r", showInts r, "b", showInts b]
  | none => "panic"

/-- `unique` in ast mode: the translated UniqueInt / UniqueString interpreted on the elements (strings are represented by
    the ints the harness encodes them from; only equality is used).  Fuel: one unit per loop iteration and statement. -/
def runUniqueAst (kind : String) (elems : Array Int) : String :=
  let fn := if kind = "int" then Got.Generated.AstSortxUnique.uniqueInt else Got.Generated.AstSortxUnique.uniqueString
  match fn.run (4 * elems.size + 1000) elems with
  | some (some (r, b)) => joinSp ["r", showInts r, "b", showInts b]
  | some none => "panic"
  | none => "diverge"

/-- `multi <kcap> <vcap> | <mode> <keys> <nv> | …` : the harness reuses one backing array for all steps; the model is
    stateless, every step is an independent `sliceBy` on the step's contents -/
def runMulti (ast : Bool) (line : String) : String :=
  match line.splitOn " | " with
  | [] => "bad-op"
  | _ :: steps =>
    " | ".intercalate (steps.map fun st =>
      match words st with
      | [mode, ks, nv] =>
        match parseInts? ks, nv.toNat? with
        | some keys, some nv => runSlice ast mode keys nv
        | _, _ => "bad-op"
      | _ => "bad-op")

def step (ast : Bool) (_ : Unit) (line : String) : Unit × String :=
  if line.startsWith "multi " then ((), runMulti ast line) else
  match words line with
  | ["slice", mode, ks, "|", nv] =>
    match parseInts? ks, nv.toNat? with
    | some keys, some nv => ((), runSlice ast mode keys nv)
    | _, _ => ((), "bad-op")
  | ["unique", kind, es] =>
    match parseInts? es with
    | some elems => ((), if ast then runUniqueAst kind elems else runUnique elems)
    | none => ((), "bad-op")
  | [] => ((), "")
  | _ => ((), "bad-op")

def main (args : List String) : IO Unit := do
  lineLoop (← IO.getStdin) (← IO.getStdout) (step (args = ["ast"])) ()

end Got.Drv.Sort
