import Got.Drv.Common
/- driver for the sort model family (properties C15): to be written -/
namespace Got.Drv.Sort

def main (_args : List String) : IO Unit := do
  IO.eprintln "drv_sort: not implemented"

end Got.Drv.Sort
