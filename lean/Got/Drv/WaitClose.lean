import Got.Drv.Common
import Got.Model.WaitClose
import Std.Data.HashSet
/-
drv_waitclose (monitor mode): input lines `script<TAB>observation`, answer `ok` / `reject <why>`.

script       wc | <prog> / <prog> ...        one program per goroutine, calls `<at>:<op>` issued at virtual instant
                                             max(at, return of the previous call) (ns, relative to the scenario start)
             ops: C   W<timeout>   I   Xn (Close(nil))   Xs<d> Xe<d> Xp<d> (Close with a callback that sleeps d and
                  then returns nil / returns an error / panics)
observation  r<g>.<i>@<call>-<ret>=<val>    per call: instants and value (C: global | own<k> | nil ; W, I: 0|1 ; X: nil|err)
             cb<g>@<start>-<end>            per executed callback
             probe=ok|open  final=...  isclosed=0|1  chans=<n>
             stress lines: `stress ...` <TAB> `k=v ...` (summary of the invariants checked by the harness)

The monitor searches the executions of Got.Model.WaitClose (all interleavings of the single accesses of the goroutines
that are runnable at the same virtual instant; time advances only when nobody is runnable = the Go runtime's faketime
clock) for one that produces exactly the observed instants and values.
-/
namespace Got.Drv.WaitClose
open Got.Model.WaitClose Got.Drv

instance : Inhabited CbRes := ⟨.ok⟩

inductive Op where
  | C | W (T : Int) | I | X (cb : Option (CbRes × Nat))

def parseOp (w : String) : Option Op :=
  if w = "C" then some .C
  else if w = "I" then some .I
  else if w = "Xn" then some (.X none)
  else if w.startsWith "W" then (w.drop 1).toString.toInt?.map .W
  else if w.startsWith "Xs" then (w.drop 2).toString.toNat?.map fun d => .X (some (.ok, d))
  else if w.startsWith "Xe" then (w.drop 2).toString.toNat?.map fun d => .X (some (.err, d))
  else if w.startsWith "Xp" then (w.drop 2).toString.toNat?.map fun d => .X (some (.panic, d))
  else none

def parseCall (w : String) : Option (Nat × Op) :=
  match w.splitOn ":" with
  | [a, o] => match a.toNat?, parseOp o with
    | some a, some o => some (a, o)
    | _, _ => none
  | _ => none

structure Obs where
  rets : Array (Array (Nat × Nat × String))   -- per goroutine, per call: call instant, return instant, value
  cbs : List (Nat × Nat × Nat)                -- goroutine, start, end
  isclosed : Option Bool
  probeOk : Bool

/-- `r<g>.<i>@<call>-<ret>=<val>` -/
def parseRet (tok : String) : Option (Nat × Nat × Nat × Nat × String) :=
  match ((tok.drop 1).toString).splitOn "=" with
  | [lhs, v] =>
    match lhs.splitOn "@" with
    | [gi, tt] =>
      match gi.splitOn ".", tt.splitOn "-" with
      | [g, i], [c, r] =>
        match g.toNat?, i.toNat?, c.toNat?, r.toNat? with
        | some g, some i, some c, some r => some (g, i, c, r, v)
        | _, _, _, _ => none
      | _, _ => none
    | _ => none
  | _ => none

def parseCb (tok : String) : Option (Nat × Nat × Nat) :=
  match ((tok.drop 2).toString).splitOn "@" with
  | [g, tt] =>
    match tt.splitOn "-" with
    | [a, b] => match g.toNat?, a.toNat?, b.toNat? with
      | some g, some a, some b => some (g, a, b)
      | _, _, _ => none
    | _ => none
  | _ => none

def parseObs (n : Nat) (impl : String) : Option Obs := do
  let mut rets : Array (Array (Nat × Nat × String)) := Array.replicate n #[]
  let mut cbs : List (Nat × Nat × Nat) := []
  let mut isc : Option Bool := none
  let mut probeOk := true
  for tok in words impl do
    if tok.startsWith "cb" then
      let c ← parseCb tok
      cbs := cbs ++ [c]
    else if tok.startsWith "r" then
      let (g, i, c, r, v) ← parseRet tok
      if g ≥ n then none
      if i ≠ (rets[g]!).size then none
      rets := rets.modify g (·.push (c, r, v))
    else if tok = "isclosed=1" then isc := some true
    else if tok = "isclosed=0" then isc := some false
    else if tok.startsWith "probe=" then
      if tok ≠ "probe=ok" then probeOk := false
    else pure ()
  return { rets := rets, cbs := cbs, isclosed := isc, probeOk := probeOk }

structure Cfg where
  s : St
  idx : Array Nat          -- number of calls each goroutine has invoked
  cbEndAt : Array Nat
  cbRes : Array CbRes
  ncb : Nat

def chanName : Option Nat → String
  | none => "nil"
  | some 0 => "global"
  | some k => s!"own{k}"

def contCode : Cont → String
  | .c => "c"
  | .wu T => s!"w{T}"

def resCode : Option CbRes → String
  | none => "-" | some .ok => "o" | some .err => "e" | some .panic => "p"

/-- compact rendering of a pc (part of the memoisation key) -/
def pcCode : Pc → String
  | .idle => "a"
  | .load0 k => "b" ++ contCode k
  | .iLock k => "c" ++ contCode k
  | .iCheck k => "d" ++ contCode k
  | .iMake k => "e" ++ contCode k
  | .iStore k => "f" ++ contCode k
  | .iUnlock k => "g" ++ contCode k
  | .cRead => "h"
  | .wTimer T => s!"i{T}"
  | .wSel ch st T => s!"j{chanName ch},{st},{T}"
  | .isc => "k"
  | .clLoad cb => if cb then "l1" else "l0"
  | .clLock cb => if cb then "m1" else "m0"
  | .clCheck cb => if cb then "n1" else "n0"
  | .clClose cb => if cb then "o1" else "o0"
  | .clCbStart => "p"
  | .clCbRun => "q"
  | .clStore r => "r" ++ resCode r
  | .clUnlock r => "s" ++ resCode r
  | .clRet r => "t" ++ resCode r

def Cfg.key (c : Cfg) (n : Nat) : String :=
  let pcs := (List.range n).map fun g => pcCode (c.s.pc g) ++ "#" ++ toString (c.idx[g]!)
  s!"{c.s.now}|{c.s.state}|{chanName c.s.closeChan}|{c.s.closed.length}|{c.s.mu}|{c.s.fault}|{c.ncb}|{c.cbEndAt}|" ++ "|".intercalate pcs

/-- Steps that commute with every step of every other goroutine at the same instant (they touch no shared word another
    goroutine can observe in a different way before or after): taking them first loses no observable behaviour, so the
    search does not branch on them.  invoke (only sets the pc), the plain re-checks under the mutex, `closeChan = make`
    (nobody reads closeChan while state is new and the mutex is held), the read of closeChan by C()/WaitUtil (written at
    most once, before any read), the callback start and the return steps. -/
def eagerPc : Pc → Bool
  | .iCheck _ | .iMake _ | .cRead | .wTimer _ | .clCheck _ | .clCbStart | .clRet _ => true
  | _ => false

/-- does the event the model just produced agree with the observation? -/
def evOk (o : Obs) (c : Cfg) : Ev → Bool
  | .closeDo .. => true
  | .cbStart t now => o.cbs.any fun (g, a, _) => g = t && a = now
  | .cbEnd t _ now => o.cbs.any fun (g, _, b) => g = t && b = now
  | .closeRet t r now =>
    match (o.rets[t]!)[c.idx[t]! - 1]? with
    | some (_, ret, v) => ret = now && v = (if r = some .err then "err" else "nil")
    | none => false
  | .cRet t ch now =>
    match (o.rets[t]!)[c.idx[t]! - 1]? with
    | some (_, ret, v) => ret = now && v = chanName ch
    | none => false
  | .wuRet t b _ _ _ now =>
    match (o.rets[t]!)[c.idx[t]! - 1]? with
    | some (_, ret, v) => ret = now && v = (if b then "1" else "0")
    | none => false
  | .iscRet t b now =>
    match (o.rets[t]!)[c.idx[t]! - 1]? with
    | some (_, ret, v) => ret = now && v = (if b then "1" else "0")
    | none => false

/-- apply a model action (log cleared first, so that the new events are exactly the log afterwards) -/
def Cfg.act (o : Obs) (c : Cfg) (a : Act) : Option Cfg :=
  let s' := step { c.s with log := [] } a
  if s'.log.all (evOk o c) then some { c with s := s' } else none

/-- successor configurations at the current instant -/
def succsOf (progs : Array (Array (Nat × Op))) (o : Obs) (c : Cfg) (g : Nat) : List Cfg :=
    match c.s.pc g with
    | .idle =>
      match (progs[g]!)[c.idx[g]!]? with
      | some (at_, op) =>
        if at_ ≤ c.s.now then
          match (o.rets[g]!)[c.idx[g]!]? with
          | some (callAt, _, _) =>
            if callAt ≠ c.s.now then [] else
            let c1 := { c with idx := c.idx.modify g (· + 1) }
            match op with
            | .C => (c1.act o (.invoke g .c)).toList
            | .W T => (c1.act o (.invoke g (.waitUtil T))).toList
            | .I => (c1.act o (.invoke g .isClosed)).toList
            | .X none => (c1.act o (.invoke g (.close false))).toList
            | .X (some (r, d)) =>
              ({ c1 with cbRes := c1.cbRes.set! g r, cbEndAt := c1.cbEndAt.set! g d }.act o (.invoke g (.close true))).toList
          | none => []
        else []
      | none => []
    | .clCbRun => if c.cbEndAt[g]! ≤ c.s.now then (c.act o (.cbEnd g c.cbRes[g]!)).toList else []
    | .clCbStart =>
      -- the callback starts now and sleeps d: remember its end instant
      ({ c with cbEndAt := c.cbEndAt.set! g (c.s.now + c.cbEndAt[g]!), ncb := c.ncb + 1 }.act o (.step g)).toList
    | .wSel ch start T =>
      (if chanClosed c.s ch then (c.act o (.step g)).toList else []) ++
      (if (start : Int) + T ≤ c.s.now then (c.act o (.timeout g)).toList else [])
    | .iLock _ | .clLock _ => if c.s.mu.isNone then (c.act o (.step g)).toList else []
    | _ => (c.act o (.step g)).toList

/-- is goroutine g about to take a step the search need not branch on? (an idle goroutine whose next call is due: invoke) -/
def eagerAt (progs : Array (Array (Nat × Op))) (c : Cfg) (g : Nat) : Bool :=
  match c.s.pc g with
  | .idle => match (progs[g]!)[c.idx[g]!]? with
    | some (at_, _) => at_ ≤ c.s.now
    | none => false
  | p => eagerPc p

def succs (progs : Array (Array (Nat × Op))) (o : Obs) (c : Cfg) : List Cfg :=
  match (List.range progs.size).find? (eagerAt progs c) with
  | some g => succsOf progs o c g          -- one commuting step, no branching (empty = contradicts the observation)
  | none => (List.range progs.size).flatMap (succsOf progs o c)

/-- is some goroutine runnable at this instant (regardless of the observation)? -/
def runnable (progs : Array (Array (Nat × Op))) (c : Cfg) : Bool :=
  (List.range progs.size).any fun g =>
    match c.s.pc g with
    | .idle => match (progs[g]!)[c.idx[g]!]? with
      | some (at_, _) => at_ ≤ c.s.now
      | none => false
    | .clCbRun => c.cbEndAt[g]! ≤ c.s.now
    | .wSel ch start T => chanClosed c.s ch || decide ((start : Int) + T ≤ c.s.now)
    | .iLock _ | .clLock _ => c.s.mu.isNone
    | _ => true

/-- the next instant at which something can happen -/
def nextInstant (progs : Array (Array (Nat × Op))) (c : Cfg) : Option Nat :=
  let cands := (List.range progs.size).filterMap fun g =>
    match c.s.pc g with
    | .idle => match (progs[g]!)[c.idx[g]!]? with
      | some (at_, _) => if at_ > c.s.now then some at_ else none
      | none => none
    | .clCbRun => if c.cbEndAt[g]! > c.s.now then some c.cbEndAt[g]! else none
    | .wSel _ start T => if (start : Int) + T > c.s.now then some ((start : Int) + T).toNat else none
    | _ => none
  cands.foldl (fun acc x => match acc with | none => some x | some y => some (min x y)) none

def finished (progs : Array (Array (Nat × Op))) (c : Cfg) : Bool :=
  (List.range progs.size).all fun g => (c.s.pc g == .idle) && c.idx[g]! == (progs[g]!).size

def finalOk (o : Obs) (c : Cfg) : Bool :=
  c.ncb == o.cbs.length && !c.s.fault &&
  (match o.isclosed with | some b => b == decide (c.s.state = wcClosed) | none => true)

/-- Early pruning by facts that are permanent in the model (theorems C16_returned_channels_closed / C16_isclosed_stable):
    once closeChan is set it never changes, so every C() call that has not returned yet must have observed exactly that
    channel; once the state word is `closed`, every IsClosed() call that has not returned yet must have observed true. -/
def feasible (progs : Array (Array (Nat × Op))) (o : Obs) (c : Cfg) : Bool :=
  -- the close/assignment happens once (C16_one_callback): after it, a callback that has not been started and is not
  -- about to start will never run
  (!(c.s.closeTime.isSome && c.ncb < o.cbs.length) ||
      (List.range progs.size).any fun g => c.s.pc g == .clCbStart) &&
  (List.range progs.size).all fun g =>
    let first := if c.s.pc g == .idle then c.idx[g]! else c.idx[g]! - 1     -- first call of g that has not returned
    (List.range (progs[g]!).size).all fun i =>
      if i < first then true else
      match (progs[g]!)[i]?, (o.rets[g]!)[i]? with
      | some (_, .C), some (_, _, v) =>
        (match c.s.closeChan with | some ch => v == chanName (some ch) | none => true)
      | some (_, .I), some (_, _, v) => if c.s.state = wcClosed then v == "1" else true
      | _, _ => true

/-- exploration limits.  Hitting one of them NEVER rejects: the answer is `ok unchecked …` (the line is then judged by
    the property oracle only and counted as `monitor_unchecked_lines` in the evidence). -/
def maxStates : Nat := 40000
def maxDepth : Nat := 100000

structure Acc where
  found : Bool
  cut : Bool                       -- the search was cut off somewhere (depth fuel or state cap)
  vis : Std.HashSet String

def search (progs : Array (Array (Nat × Op))) (o : Obs) : Nat → Cfg → Acc → Acc
  | 0, _, acc => { acc with cut := true }
  | fuel + 1, c, acc =>
    if acc.found then acc else
    if acc.vis.size ≥ maxStates then { acc with cut := true } else
    if !feasible progs o c then acc else
    let k := c.key progs.size
    if acc.vis.contains k then acc else
    let acc := { acc with vis := acc.vis.insert k }
    if runnable progs c then
      (succs progs o c).foldl (fun (acc : Acc) c' =>
        if acc.found then acc else search progs o fuel c' acc) acc
    else
      match nextInstant progs c with
      | some t =>
        let s' := step c.s (.tick (t - c.s.now))
        if s'.now = t then search progs o fuel { c with s := s' } acc
        else acc   -- the model refuses to let time pass (cannot happen: nobody is runnable)
      | none => if finished progs c && finalOk o c then { acc with found := true } else acc

def parseProgs (s : String) : Option (Array (Array (Nat × Op))) :=
  ((s.splitOn " / ").mapM fun p => ((words p).mapM parseCall).map List.toArray).map List.toArray

def stressOk (impl : String) : Bool :=
  let kv := (words impl).filterMap fun w => match w.splitOn "=" with
    | [k, v] => v.toNat?.map fun v => (k, v)
    | _ => none
  kv.length ≥ 2 && kv.all fun (k, v) =>
    if k = "cb" then v ≤ 1 else if k = "ops" || k = "closed" then true else v = 0

def monitor (line : String) : String :=
  match line.splitOn "\t" with
  | [script, impl] =>
    if (script.splitOn "Xg").length > 1 then
      -- a callback that ends its goroutine with runtime.Goexit: outside the model (its callbacks return or panic);
      -- such lines are judged by the property oracle only, never rejected here
      "ok oracle-only"
    else if script.startsWith "stress" then
      if stressOk impl then "ok" else "reject stress run reports a violated invariant"
    else
    match script.splitOn " | " with
    | ["wc", ps] =>
      match parseProgs ps with
      | some progs =>
        match parseObs progs.size impl with
        | some o =>
          if !o.probeOk then "reject a returned channel was open after a Close return" else
          if (List.range progs.size).any (fun g => (o.rets[g]!).size ≠ (progs[g]!).size) then
            "reject a call did not return"
          else
          let n := progs.size
          let c : Cfg := { s := init, idx := Array.replicate n 0, cbEndAt := Array.replicate n 0,
                           cbRes := Array.replicate n .ok, ncb := 0 }
          let r := search progs o maxDepth c { found := false, cut := false, vis := {} }
          if r.found then "ok"
          else if r.cut then s!"ok unchecked search cut off after {r.vis.size} states (no verdict from the model)"
          else s!"reject no model execution produces this observation (explored {r.vis.size} states, exhaustive)"
        | none => "reject unparsable observation"
      | none => "bad-script"
    | _ => "bad-script"
  | [single] => if single.isEmpty then "" else "bad-line"
  | _ => "bad-line"

def stepLine (_ : Unit) (line : String) : Unit × String := ((), monitor line)

def main (_args : List String) : IO Unit := do
  lineLoop (← IO.getStdin) (← IO.getStdout) stepLine ()

end Got.Drv.WaitClose
