import Got.Drv.Common
/- driver for the waitclose model family (properties C16): to be written -/
namespace Got.Drv.WaitClose

def main (_args : List String) : IO Unit := do
  IO.eprintln "drv_waitclose: not implemented"

end Got.Drv.WaitClose
