import Got.Drv.Common
/- driver for the atomics model family (properties C17): to be written -/
namespace Got.Drv.Atomics

def main (_args : List String) : IO Unit := do
  IO.eprintln "drv_atomics: not implemented"

end Got.Drv.Atomics
