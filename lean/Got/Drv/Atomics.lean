import Got.Drv.Common
import Got.Model.Atomics
import Got.Model.AtomicsGen
/-
drv_atomics: one self-contained case per line (see harness/cmd/c17/main.go for the same grammar)

  mx <initword> | <prog> / <prog> ... | <sched> .     prog: ops `T` (TryLock) `U` (Unlock if this thread holds)
  fl <init>     | <prog> / ...        | <sched> .     ops `A<f>` `R<f>` `H<f>`   (AddFlag / RemoveFlag / HasFlag)
  ai <init> <limit> | <prog> / ...    | <sched> .     ops `D<delta>`  (AddIf64 with predicate old+delta <= limit)
  cnt real <held> <k>        Count of a real mutex: held or not, k goroutines parked in Lock
  cnt raw <word>             Count of a raw state word

  sched: thread ids (one controlled step each); for mx also `L` (a fresh goroutine calls the real Lock and runs until
  it holds the mutex or is parked) and `R` (the real goroutine that holds the mutex calls Unlock). After the schedule
  the live threads are stepped round-robin until all have finished.

  output: one token per step `<tid>.<site>:<word after>` with `=<result>` appended when the step completed an op,
  `<tid>.-` for a finished thread, `L:<word>` / `R:<word>`, then `end=<word>` (and `occ=<max holders>` for mx).
-/
/-
  `drv_atomics ast`: the `fl` and `ai` lines are answered by the LTS GENERATED from the source (Got/Model/AtomicsGen.lean:
  AtomicIR semantics of the programs tools/srcfacts re-translates from loom/flag.go and loom/atomic.go on every run)
  instead of the hand-written `stepF`/`stepA`; mx lines: generated TryLock threads + hand-written sync.Mutex traffic; cnt lines:
  the generated Count.
-/
namespace Got.Drv.Atomics
open Got.Model.Atomics Got.Drv

def showB (b : Bool) : String := if b then "1" else "0"

/-- generic schedule interpreter over an engine -/
structure Eng (σ : Type) where
  site : σ → Nat → Option Nat
  step : σ → Nat → σ × String
  obs : σ → String
  env : σ → String → Option σ
  nthreads : σ → Nat

def stepTok {σ} (e : Eng σ) (s : σ) (t : Nat) : σ × String :=
  match e.site s t with
  | none => (s, s!"{t}.-")
  | some site =>
    let (s', r) := e.step s t
    (s', s!"{t}.{site}:{e.obs s'}{r}")

def drain {σ} (e : Eng σ) : Nat → σ → List String → σ × List String
  | 0, s, out => (s, out)
  | fuel + 1, s, out =>
    let ts := (List.range (e.nthreads s)).filter (fun t => (e.site s t).isSome)
    if ts.isEmpty then (s, out)
    else
      let (s', out') := ts.foldl (fun (acc : σ × List String) t =>
        match e.site acc.1 t with
        | none => acc
        | some _ => let (s2, tok) := stepTok e acc.1 t; (s2, tok :: acc.2)) (s, out)
      drain e fuel s' out'

def runSched {σ} (e : Eng σ) (s : σ) (sched : List String) : σ × List String :=
  let (s, out) := sched.foldl (fun (acc : σ × List String) tok =>
    if tok = "." then acc else
    match tok.toNat? with
    | some t => let (s2, o) := stepTok e acc.1 t; (s2, o :: acc.2)
    | none =>
      match e.env acc.1 tok with
      | some s2 => (s2, s!"{tok}:{e.obs s2}" :: acc.2)
      | none => (acc.1, s!"{tok}:-" :: acc.2)) (s, [])
  let (s, out) := drain e 100000 s out
  (s, out.reverse)

/-! ### mutex engine -/

inductive MOp | T | U deriving DecidableEq

structure MSim where
  m : MSt
  progs : Array (List MOp)
  parked : List Nat          -- real goroutines parked in Lock, oldest first
  realHolder : Option Nat
  nextG : Nat
  maxocc : Nat

def MSim.startHead (s : MSim) (t : Nat) : MSim :=
  match s.progs[t]? with
  | some (MOp.T :: _) => { s with m := stepM s.m (.tryStart t) }
  | _ => s

def MSim.pop (s : MSim) (t : Nat) : MSim :=
  let s : MSim := { s with progs := s.progs.modify t List.tail }
  s.startHead t

def MSim.note (s : MSim) : MSim := { s with maxocc := max s.maxocc s.m.holders.length }

/-- the real Unlock, run to quiescence: AddInt32(-1); unlockSlow's CAS; the woken waiter's acquiring CAS -/
def MSim.unlockBy (s : MSim) (x : Nat) : MSim :=
  let m1 := stepM s.m (.unlock x)
  if m1.word != 0 && !isStarving m1.word then
    let m2 := stepM m1 (.wake x)
    if m2.word != m1.word then
      match s.parked with
      | h :: rest =>
        { s with m := stepM m2 (.lockSlowCas h true false), parked := rest, realHolder := some h }
      | [] => { s with m := m2 }
    else { s with m := m2 }
  else { s with m := m1 }

def mxEng : Eng MSim where
  nthreads s := s.progs.size
  obs s := toString s.m.word.toInt
  site s t :=
    match s.progs[t]? with
    | some (MOp.T :: _) =>
      match s.m.pc t with
      | .cas1 => some 8 | .load => some 9 | .cas2 _ => some 10 | .idle => some 0
    | some (MOp.U :: _) => some 100
    | _ => none
  step s t :=
    match s.progs[t]? with
    | some (MOp.T :: _) =>
      let act := match s.m.pc t with
        | .cas1 => MAct.tryCas1 t | .load => MAct.tryLoad t | .cas2 _ => MAct.tryCas2 t | .idle => MAct.tryStart t
      let s : MSim := MSim.note { s with m := stepM s.m act }
      if s.m.pc t = .idle then
        let r := match s.m.res t with | some b => "=" ++ showB b | none => "=?"
        (s.pop t, r)
      else (s, "")
    | some (MOp.U :: _) =>
      if t ∈ s.m.holders then ((s.unlockBy t).note.pop t, "=u") else (s.pop t, "=n")
    | _ => (s, "")
  env s tok :=
    if tok = "L" then
      let g := s.nextG
      let s : MSim := { s with nextG := g + 1 }
      if s.m.word = 0 then some (MSim.note { s with m := stepM s.m (.lockFast g), realHolder := some g })
      else if !isLocked s.m.word && !isStarving s.m.word then
        some (MSim.note { s with m := stepM s.m (.lockSlowCas g false false), realHolder := some g })
      else some { s with m := stepM s.m (.lockSlowCas g false false), parked := s.parked ++ [g] }
    else if tok = "R" then
      match s.realHolder with
      | some g =>
        if g ∈ s.m.holders then some (MSim.note (MSim.unlockBy { s with realHolder := none } g)) else none
      | none => none
    else none

def parseMOp : String → Option MOp
  | "T" => some .T | "U" => some .U | _ => none

/-! ### flag engine -/

inductive FlOp | A (f : W64) | R (f : W64) | H (f : W64)

structure FSim where
  f : FSt
  progs : Array (List FlOp)

def FSim.startHead (s : FSim) (t : Nat) : FSim :=
  match s.progs[t]? with
  | some (.A f :: _) => { s with f := stepF s.f (.invoke t (.add f)) }
  | some (.R f :: _) => { s with f := stepF s.f (.invoke t (.remove f)) }
  | _ => s

def FSim.pop (s : FSim) (t : Nat) : FSim :=
  FSim.startHead { s with progs := s.progs.modify t List.tail } t

def flEng : Eng FSim where
  nthreads s := s.progs.size
  obs s := toString s.f.val.toInt
  env _ _ := none
  site s t :=
    match s.progs[t]? with
    | some (.H _ :: _) => some 101
    | some (_ :: _) =>
      match s.f.pc t with
      | .load _ => some 11 | .cas _ _ => some 12 | .idle => some 0
    | _ => none
  step s t :=
    match s.progs[t]? with
    | some (.H f :: _) => (s.pop t, "=" ++ showB (hasFlag s.f.val f))
    | some (_ :: _) =>
      let act := match s.f.pc t with
        | .load _ => FAct.load t | _ => FAct.cas t
      let s : FSim := { s with f := stepF s.f act }
      if s.f.pc t = .idle then (s.pop t, "=r") else (s, "")
    | _ => (s, "")

def ofI64 (i : Int) : W64 := BitVec.ofInt 64 i

def parseFlOp (w : String) : Option FlOp :=
  match (w.drop 1).toString.toInt? with
  | none => none
  | some i =>
    if w.startsWith "A" then some (.A (ofI64 i))
    else if w.startsWith "R" then some (.R (ofI64 i))
    else if w.startsWith "H" then some (.H (ofI64 i))
    else none

/-! ### AddIf64 engine -/

structure ASim where
  a : ASt
  limit : Int
  progs : Array (List W64)

def ASim.startHead (s : ASim) (t : Nat) : ASim :=
  match s.progs[t]? with
  | some (d :: _) => { s with a := stepA (limitPred s.limit) s.a (.invoke t d) }
  | _ => s

def ASim.pop (s : ASim) (t : Nat) : ASim :=
  ASim.startHead { s with progs := s.progs.modify t List.tail } t

def aiEng : Eng ASim where
  nthreads s := s.progs.size
  obs s := toString s.a.val.toInt
  env _ _ := none
  site s t :=
    match s.progs[t]? with
    | some (_ :: _) =>
      match s.a.pc t with
      | .load _ => some 13 | .cas _ _ => some 14 | .idle => some 0
    | _ => none
  step s t :=
    match s.progs[t]? with
    | some (_ :: _) =>
      let act := match s.a.pc t with
        | .load _ => AAct.load t | _ => AAct.cas t
      let s : ASim := { s with a := stepA (limitPred s.limit) s.a act }
      if s.a.pc t = .idle then
        (s.pop t, match s.a.res t with | some b => "=" ++ showB b | none => "=?")
      else (s, "")
    | _ => (s, "")

def parseAOp (w : String) : Option W64 :=
  if w.startsWith "D" then (w.drop 1).toString.toInt?.map ofI64 else none

/-! ### lines -/

def parseProgs {α} (p : String → Option α) (s : String) : Option (Array (List α)) :=
  ((s.splitOn " / ").mapM (fun prog => (words prog).mapM p)).map List.toArray

def startAll {σ} (start : σ → Nat → σ) (n : Nat) (s : σ) : σ := (List.range n).foldl start s

/-- Count of a real mutex: `held` (a goroutine holds it), then k goroutines call Lock and park -/
def realWord (held : Bool) (k : Nat) : MSt :=
  let s := initM 0
  let s := if held then stepM s (.lockFast 100) else s
  (List.range k).foldl (fun s i => stepM s (.lockSlowCas (101 + i) false false)) s

def runLine (line : String) : String :=
  match line.splitOn " | " with
  | [head, progs, sched] =>
    let sched := words sched
    match words head with
    | ["mx", w] =>
      match w.toInt?, parseProgs parseMOp progs with
      | some w, some ps =>
        let s : MSim := { m := initM (BitVec.ofInt 32 w), progs := ps, parked := [], realHolder := none, nextG := 100, maxocc := 0 }
        let s := startAll MSim.startHead ps.size s
        let (s, out) := runSched mxEng s sched
        joinSp (out ++ [s!"end={s.m.word.toInt}", s!"occ={s.maxocc}"])
      | _, _ => "bad-op"
    | ["fl", v] =>
      match v.toInt?, parseProgs parseFlOp progs with
      | some v, some ps =>
        let s : FSim := { f := initF (ofI64 v), progs := ps }
        let s := startAll FSim.startHead ps.size s
        let (s, out) := runSched flEng s sched
        joinSp (out ++ [s!"end={s.f.val.toInt}"])
      | _, _ => "bad-op"
    | ["ai", v, lim] =>
      match v.toInt?, lim.toInt?, parseProgs parseAOp progs with
      | some v, some lim, some ps =>
        let s : ASim := { a := initA (ofI64 v), limit := lim, progs := ps }
        let s := startAll ASim.startHead ps.size s
        let (s, out) := runSched aiEng s sched
        joinSp (out ++ [s!"end={s.a.val.toInt}"])
      | _, _, _ => "bad-op"
    | _ => "bad-op"
  | [single] =>
    match words single with
    | ["cnt", "real", h, k] =>
      match h.toNat?, k.toNat? with
      | some h, some k =>
        let s := realWord (h != 0) k
        s!"w={s.word.toInt} c={count s.word}"
      | _, _ => "bad-op"
    | ["cnt", "raw", w] =>
      match w.toInt? with
      | some w => let w : Word := BitVec.ofInt 32 w; s!"w={w.toInt} c={count w}"
      | none => "bad-op"
    | [] => ""
    | _ => "bad-op"
  | _ => "bad-op"


/-! ### `ast` mode: flag and AddIf64 engines on the generated LTSs -/
namespace Ast
open Got.Model.AtomicIR Got.Model.AtomicsGen

def siteOf (c : Config) (ld cs : Nat) : Option Nat :=
  match c with
  | .idle => some 0
  | _ =>
    match c.pendingCas with
    | some false => some ld
    | some true => some cs
    | none => some 999      -- crashed / stuck: never matches the implementation

structure GFSim where
  g : GState
  progs : Array (List FlOp)

def GFSim.startHead (s : GFSim) (t : Nat) : GFSim :=
  match s.progs[t]? with
  | some (.A f :: _) => { s with g := flagStep s.g (.invoke t (.add f)) }
  | some (.R f :: _) => { s with g := flagStep s.g (.invoke t (.remove f)) }
  | _ => s

def GFSim.pop (s : GFSim) (t : Nat) : GFSim :=
  GFSim.startHead { s with progs := s.progs.modify t List.tail } t

def flEngG : Eng GFSim where
  nthreads s := s.progs.size
  obs s := toString s.g.mem.cell.toInt
  env _ _ := none
  site s t :=
    match s.progs[t]? with
    | some (.H _ :: _) => some 101
    | some (_ :: _) => siteOf (s.g.conf t) 11 12
    | _ => none
  step s t :=
    match s.progs[t]? with
    | some (.H f :: _) =>
      -- HasFlag has no hook: one uninterrupted call of the translated function on the current word
      let r := match (hasFlagRun s.g.mem.cell f).hist.getLast? with
        | some (_, .ret (some (.bool b))) => showB b
        | _ => "?"
      (s.pop t, "=" ++ r)
    | some (_ :: _) =>
      let s : GFSim := { s with g := flagStep s.g (.tau t) }
      if isIdle (s.g.conf t) then (s.pop t, "=r") else (s, "")
    | _ => (s, "")

structure GASim where
  g : GState
  limit : Int
  progs : Array (List W64)

def GASim.startHead (s : GASim) (t : Nat) : GASim :=
  match s.progs[t]? with
  | some (d :: _) => { s with g := addIfStep (limitPred s.limit) s.g (.invoke t d) }
  | _ => s

def GASim.pop (s : GASim) (t : Nat) : GASim :=
  GASim.startHead { s with progs := s.progs.modify t List.tail } t

def aiEngG : Eng GASim where
  nthreads s := s.progs.size
  obs s := toString s.g.mem.cell.toInt
  env _ _ := none
  site s t :=
    match s.progs[t]? with
    | some (_ :: _) => siteOf (s.g.conf t) 13 14
    | _ => none
  step s t :=
    match s.progs[t]? with
    | some (_ :: _) =>
      let s : GASim := { s with g := addIfStep (limitPred s.limit) s.g (.tau t) }
      if isIdle (s.g.conf t) then
        (s.pop t, match s.g.hist.getLast? with | some (_, .ret (some (.bool b))) => "=" ++ showB b | _ => "=?")
      else (s, "")
    | _ => (s, "")


/-! mutex engine on the generated LTS: the TryLock threads are those of `Got.Model.AtomicsGen.mutexProg` (site, word and
    result printed from the generated state); Unlock / real Lock traffic (`U`, `L`, `R`) is the hand-written transcription
    of sync.Mutex (`MSim`, which also does the holder bookkeeping) — exactly the joint system `AtomicsGen.Mx`. -/
structure GMSim where
  sim : MSim
  g : GState

def GMSim.sync (s : GMSim) : GMSim :=
  { s with g := { s.g with mem := { s.g.mem with cell32 := s.sim.m.word } } }

def GMSim.startHead (s : GMSim) (t : Nat) : GMSim :=
  match s.sim.progs[t]? with
  | some (MOp.T :: _) => { sim := s.sim.startHead t, g := step mutexProg noPred s.g (.inv t 0 []) }
  | _ => s

def GMSim.pop (s : GMSim) (t : Nat) : GMSim :=
  GMSim.startHead { s with sim := { s.sim with progs := s.sim.progs.modify t List.tail } } t

def envLen : Config → Nat
  | .run _ env _ => env.length
  | _ => 0

def mxEngG : Eng GMSim where
  nthreads s := s.sim.progs.size
  obs s := toString s.g.mem.cell32.toInt
  site s t :=
    match s.sim.progs[t]? with
    | some (MOp.T :: _) =>
      match s.g.conf t with
      | .idle => some 0
      | c =>
        match c.pendingCas with
        | some false => some 9
        | some true => if envLen c = 0 then some 8 else some 10
        | none => some 999
    | some (MOp.U :: _) => some 100
    | _ => none
  step s t :=
    match s.sim.progs[t]? with
    | some (MOp.T :: _) =>
      let act := match s.sim.m.pc t with
        | .cas1 => MAct.tryCas1 t | .load => MAct.tryLoad t | .cas2 _ => MAct.tryCas2 t | .idle => MAct.tryStart t
      let s : GMSim := { sim := MSim.note { s.sim with m := stepM s.sim.m act }, g := step mutexProg noPred s.g (.tau t) }
      if isIdle (s.g.conf t) then
        let r := match lastRetB s.g.hist t with | some b => "=" ++ showB b | none => "=?"
        (s.pop t, r)
      else (s, "")
    | some (MOp.U :: _) =>
      if t ∈ s.sim.m.holders then (({ s with sim := (s.sim.unlockBy t).note }).sync.pop t, "=u") else (s.pop t, "=n")
    | _ => (s, "")
  env s tok :=
    match mxEng.env s.sim tok with
    | some sim' => some ({ s with sim := sim' }).sync
    | none => none

def runLine (line : String) : String :=
  match line.splitOn " | " with
  | [head, progs, sched] =>
    let sched := words sched
    match words head with
    | ["mx", w] =>
      match w.toInt?, parseProgs parseMOp progs with
      | some w, some ps =>
        let sim : MSim := { m := initM (BitVec.ofInt 32 w), progs := ps, parked := [], realHolder := none, nextG := 100, maxocc := 0 }
        let s : GMSim := { sim := { sim with progs := ps }, g := mxInit (BitVec.ofInt 32 w) }
        let s := startAll GMSim.startHead ps.size s
        let (s, out) := runSched mxEngG s sched
        joinSp (out ++ [s!"end={s.g.mem.cell32.toInt}", s!"occ={s.sim.maxocc}"])
      | _, _ => "bad-op"
    | ["fl", v] =>
      match v.toInt?, parseProgs parseFlOp progs with
      | some v, some ps =>
        let s : GFSim := { g := flagInit (ofI64 v), progs := ps }
        let s := startAll GFSim.startHead ps.size s
        let (s, out) := runSched flEngG s sched
        joinSp (out ++ [s!"end={s.g.mem.cell.toInt}"])
      | _, _ => "bad-op"
    | ["ai", v, lim] =>
      match v.toInt?, lim.toInt?, parseProgs parseAOp progs with
      | some v, some lim, some ps =>
        let s : GASim := { g := addIfInit (ofI64 v), limit := lim, progs := ps }
        let s := startAll GASim.startHead ps.size s
        let (s, out) := runSched aiEngG s sched
        joinSp (out ++ [s!"end={s.g.mem.cell.toInt}"])
      | _, _, _ => "bad-op"
    | _ => "not-translated"
  | [single] =>
    let cnt (w : Word) : String :=
      match (countRun w).hist.getLast? with
      | some (_, .ret (some (.i64 r))) => s!"w={w.toInt} c={r.toInt}"
      | _ => s!"w={w.toInt} c=?"
    match words single with
    | ["cnt", "real", h, k] =>
      match h.toNat?, k.toNat? with
      | some h, some k => cnt (realWord (h != 0) k).word
      | _, _ => "bad-op"
    | ["cnt", "raw", w] =>
      match w.toInt? with
      | some w => cnt (BitVec.ofInt 32 w)
      | none => "bad-op"
    | [] => ""
    | _ => "bad-op"
  | _ => "not-translated"

end Ast

def step (_ : Unit) (line : String) : Unit × String := ((), runLine line)

def main (args : List String) : IO Unit := do
  if args = ["ast"] then lineLoop (← IO.getStdin) (← IO.getStdout) (fun (_ : Unit) l => ((), Ast.runLine l)) ()
  else lineLoop (← IO.getStdin) (← IO.getStdout) step ()

end Got.Drv.Atomics
