import Got.Drv.Common
/- driver for the msqueue model family (properties C01, C02): to be written -/
namespace Got.Drv.MSQueue

def main (_args : List String) : IO Unit := do
  IO.eprintln "drv_msqueue: not implemented"

end Got.Drv.MSQueue
