import Std.Data.HashMap
import Got.Drv.Common
import Got.Model.MSQueue
import Got.Model.MSQueueGen
/-
drv_msqueue (properties C01, C02)

  drv_msqueue run                      stdin: script lines, stdout: one model line per script line
  drv_msqueue explore c01 <stride> <prog…>   schedule set with TRANSITION COVERAGE of the reachable state graph
  drv_msqueue explore c02 <stride> <prog…>   one line (shortest prefix, busy tid) per reachable state and busy thread
  drv_msqueue stats <prog…>            number of states / transitions of the configuration
  drv_msqueue ast                      like `run`, but on the LTS GENERATED from the source (Got/Model/MSQueueGen.lean:
                                       AtomicIR semantics of the programs tools/srcfacts re-translates from loom/queue.go on
                                       every run); prints only the part that is compared with the harness line

script line:   prog 0:push1,pop 1:push2 | sched 0 0 1 1 0 …            (C01)
               prog 0:push1,pop 1:push2 | sched 0 0 1 | solo 1          (C02)
               stress G=16 n=3000 mode=pairs …                          (C01, real goroutines, oracle only:
                                                                          answered with "stress not-modelled")
One schedule entry `t` = one model action of thread `t`: the invocation of its next operation when
it is idle, `tau t` otherwise (= one csched.Step on the real code).  After the schedule, the
remaining operations are drained (lowest live thread first).

model line:    <step tokens> / <drain tokens> | final head=n<i> tail=n<j> chain=_,v1,v2 rest=v1,v2,nil || wf=ok lin=…
               (rest = results of an extra thread popping through the API until it gets nil)
               tokens  t:inv:push:v  t:inv:pop  t:ld:head=n1  t:ld:n0.next=nil  t:cas:n0.next:ok
                       t:cas:tail:fail  t:ret:push  t:ret:pop=v  t:ret:pop=nil  t:skip  t:crash
               nodes are named by their position in the linked chain (link order).
The part before ` || ` is compared with the harness line; the rest is model-only information.
-/
namespace Got.Drv.MSQueue
open Got.Model.MSQueue Got.Spec.Lin Got.Drv

inductive OpK where
  | push (v : Nat)
  | pop
  deriving Repr

structure Cfg where
  s : State
  rem : Array (List OpK)

instance : Inhabited Cfg := ⟨⟨init, #[]⟩⟩

def parseOp (w : String) : Option OpK :=
  if w = "pop" then some .pop
  else if w.startsWith "push" then (w.drop 4).toString.toNat?.map .push
  else none

def parseThread (w : String) : Option (List OpK) :=
  match w.splitOn ":" with
  | [_, ops] => (ops.splitOn ",").mapM parseOp
  | _ => none

def parseProg (ws : List String) : Option (Array (List OpK)) :=
  (ws.mapM parseThread).map List.toArray

def nodeName (s : State) (x : Nat) : String :=
  if x ∈ s.chain then s!"n{s.chain.idxOf x}" else s!"u{x}"

def optName (s : State) : Option Nat → String
  | none => "nil"
  | some x => nodeName s x

def okFail (b : Bool) : String := if b then "ok" else "fail"

/-- the shared access thread `t` is about to perform and its outcome in state `s`. -/
def accessTok (s : State) (t : Nat) : String :=
  match s.pc t with
  | .idle => "idle"
  | .crash => "crash"
  | .p1 _ => s!"ld:tail={nodeName s s.tail}"
  | .p2 _ tl => s!"ld:{nodeName s tl}.next={optName s (s.next tl)}"
  | .p3 _ _ _ => s!"ld:tail={nodeName s s.tail}"
  | .p4 _ tl => s!"cas:{nodeName s tl}.next:{okFail (s.next tl = none)}"
  | .p4h _ tl _ => s!"cas:tail:{okFail (s.tail = tl)}"
  | .p5 _ tl => s!"cas:tail:{okFail (s.tail = tl)}"
  | .d1 => s!"ld:head={nodeName s s.head}"
  | .d2 _ => s!"ld:tail={nodeName s s.tail}"
  | .d3 hd _ => s!"ld:{nodeName s hd}.next={optName s (s.next hd)}"
  | .d4 _ _ _ => s!"ld:head={nodeName s s.head}"
  | .d5h _ tl _ => s!"cas:tail:{okFail (s.tail = tl)}"
  | .d5 hd _ _ => s!"cas:head:{okFail (s.head = hd)}"

def retTok (t : Nat) (s : State) : String :=
  match s.log.getLast? with
  | some (.ret _ .ack) => s!"{t}:ret:push"
  | some (.ret _ (.val none)) => s!"{t}:ret:pop=nil"
  | some (.ret _ (.val (some v))) => s!"{t}:ret:pop={v}"
  | _ => s!"{t}:ret:?"

def isIdle (p : Pc) : Bool := match p with | .idle => true | _ => false
def isCrash (p : Pc) : Bool := match p with | .crash => true | _ => false

/-- thread `t` can take a step (invoke its next operation, or a tau step). -/
def live (c : Cfg) (t : Nat) : Bool :=
  if h : t < c.rem.size then
    if isCrash (c.s.pc t) then false
    else if isIdle (c.s.pc t) then !(c.rem[t]).isEmpty
    else true
  else false

/-- one schedule entry; returns the new configuration and the tokens. -/
def stepTid (c : Cfg) (t : Nat) : Cfg × List String :=
  if !live c t then (c, [s!"{t}:skip"])
  else if isIdle (c.s.pc t) then
    match c.rem[t]! with
    | [] => (c, [s!"{t}:skip"])
    | .push v :: rest => ({ s := step c.s (.invPush t v), rem := c.rem.set! t rest }, [s!"{t}:inv:push:{v}"])
    | .pop :: rest => ({ s := step c.s (.invPop t), rem := c.rem.set! t rest }, [s!"{t}:inv:pop"])
  else
    let tok := s!"{t}:{accessTok c.s t}"
    let s' := step c.s (.tau t)
    let extra :=
      if isIdle (s'.pc t) then [retTok t s']
      else if isCrash (s'.pc t) then [s!"{t}:crash"]
      else []
    ({ c with s := s' }, tok :: extra)

def firstLive (c : Cfg) : Option Nat := (List.range c.rem.size).find? (live c)

def drain (c : Cfg) : Nat → List String → Cfg × List String
  | 0, acc => (c, acc ++ ["stuck"])
  | fuel + 1, acc =>
    match firstLive c with
    | none => (c, acc)
    | some t =>
      let (c', toks) := stepTid c t
      drain c' fuel (acc ++ toks)

def drainCap : Nat := 5000

def showOp : Op → String
  | .push v => s!"push{v}"
  | .pop => "pop"

def showRes : Res → String
  | .ack => "ack"
  | .val none => "nil"
  | .val (some v) => toString v

def showEv : LEv → String
  | .inv t o => s!"inv{t}:{showOp o}"
  | .lin t o r => s!"lin{t}:{showOp o}={showRes r}"
  | .obs t => s!"obs{t}"
  | .ret t r => s!"ret{t}:{showRes r}"

def finalTok (s : State) : String :=
  let vals := s.chain.map (fun x => if x = 0 then "_" else toString (s.val x))
  s!"final head={nodeName s s.head} tail={nodeName s s.tail} chain={",".intercalate vals}"

/-- after everything finished: an extra thread `T` pops until it gets nil (what is left in the queue,
    through the real API); one unit of fuel per step. -/
def restLoop (T : Nat) : Nat → State → List String → List String
  | 0, _, acc => acc ++ ["stuck"]
  | fuel + 1, s, acc =>
    if isIdle (s.pc T) then restLoop T fuel (step s (.invPop T)) acc
    else if isCrash (s.pc T) then acc ++ ["crash"]
    else
      let s' := tau s T
      if isIdle (s'.pc T) then
        match s'.log.getLast? with
        | some (.ret _ (.val (some v))) => restLoop T fuel s' (acc ++ [toString v])
        | _ => acc ++ ["nil"]
      else if isCrash (s'.pc T) then acc ++ ["crash"]
      else restLoop T fuel s' acc

def restTok (c : Cfg) : String :=
  s!"rest={",".intercalate (restLoop c.rem.size drainCap c.s [])}"

def modelInfo (s : State) : String :=
  let wf := if decide (LinWitness s.log) then "ok" else "bad"
  s!"wf={wf} lin={joinSp (s.log.map showEv)}"

def initCfg (prog : Array (List OpK)) : Cfg := { s := init, rem := prog }

def runSched (c : Cfg) (sched : List Nat) : Cfg × List String :=
  sched.foldl (fun (acc : Cfg × List String) t =>
    let (c', toks) := stepTid acc.1 t
    (c', acc.2 ++ toks)) (c, [])

/-- solo run of thread `t` until its current operation returns (at most `cap` steps). -/
def soloRun (c : Cfg) (t : Nat) : Nat → Nat → List String → Cfg × Nat × Bool × List String
  | 0, k, acc => (c, k, false, acc)
  | fuel + 1, k, acc =>
    if isIdle (c.s.pc t) then (c, k, true, acc)
    else if isCrash (c.s.pc t) then (c, k, false, acc)
    else
      let (c', toks) := stepTid c t
      soloRun c' t fuel (k + 1) (acc ++ toks)

def soloCap : Nat := 10 * K

def runLine (line : String) : String :=
  -- real-parallel stress lines are judged by the oracle only: their interleaving is not observable
  if line.startsWith "stress " then "stress not-modelled" else
  match line.splitOn " | " with
  | progS :: schedS :: rest =>
    match words progS, words schedS with
    | "prog" :: pw, "sched" :: sw =>
      match parseProg pw, sw.mapM parseNat? with
      | some prog, some sched =>
        let (c1, toks1) := runSched (initCfg prog) sched
        match rest with
        | [] =>
          let (c2, toks2) := drain c1 drainCap []
          joinSp toks1 ++ " / " ++ joinSp toks2 ++ " | " ++ finalTok c2.s ++ " " ++ restTok c2 ++ " || " ++ modelInfo c2.s
        | soloS :: _ =>
          match words soloS with
          | ["solo", ts] =>
            match parseNat? ts with
            | some t =>
              if isIdle (c1.s.pc t) || isCrash (c1.s.pc t) then
                joinSp toks1 ++ s!" | solo {t} notbusy"
              else
                let m := mu c1.s t
                let (c2, k, returned, toks2) := soloRun c1 t soloCap 0 []
                let r := if returned then "returned" else "spinning"
                joinSp toks1 ++ s!" | solo {t} steps={k} {r} : " ++ joinSp toks2 ++ " || " ++ s!"mu={m} " ++ modelInfo c2.s
            | none => "bad-solo"
          | _ => "bad-solo"
      | _, _ => "bad-line"
    | _, _ => "bad-line"
  | _ => if line.trimAscii.isEmpty then "" else "bad-line"


/-! ### `ast` mode: the same schedules on the LTS generated from the source (Got/Model/MSQueueGen.lean)

Nothing of the hand-written model is consulted here: states are `AtomicIR.GState`s, steps are `MSQueueGen.gstep`,
the token of a step is the access `AtomicIR.exec` reports (kind, resolved address, loaded value / CAS outcome).
The chain (link order of the nodes, used only to *name* nodes like the harness does) is tracked by the driver:
a successful CAS on `x.next` appends the node it stored. -/
namespace Ast
open Got.Model.AtomicIR Got.Model.MSQueueGen

structure GCfg where
  g : GState
  rem : Array (List OpK)
  chain : List Nat

instance : Inhabited GCfg := ⟨⟨genInit, #[], [0]⟩⟩

def gName (chain : List Nat) (x : Nat) : String :=
  if x ∈ chain then s!"n{chain.idxOf x}" else s!"u{x}"

def gVal (chain : List Nat) : Val → String
  | .ptr none => "nil"
  | .ptr (some x) => gName chain x
  | .data v => s!"d{v}"
  | .i64 w => s!"i{w.toInt}"
  | .i32 w => s!"w{w.toInt}"
  | .int i => s!"{i}"
  | .panic => "panic"
  | .bool b => okFail b

def gAddr (chain : List Nat) : RAddr → String
  | .head => "head"
  | .tail => "tail"
  | .next n => s!"{gName chain n}.next"
  | .cell => "cell"
  | .cell32 => "cell32"
  | .pos => "pos"
  | .slot i => s!"slot{i}"
  | .chan c => s!"chan{c}"

def gTok (chain : List Nat) (tk : Option Tok) : String :=
  match tk with
  | none => "noaccess"
  | some ⟨false, a, v⟩ => s!"ld:{gAddr chain a}={gVal chain v}"
  | some ⟨true, a, v⟩ => s!"cas:{gAddr chain a}:{gVal chain v}"

def gIdle (c : Config) : Bool := Got.Model.AtomicIR.isIdle c

def gIsCrash : Config → Bool
  | .crash => true
  | .stuck => true
  | _ => false

def gRetTok (t : Nat) (g : GState) : String :=
  match g.hist.getLast? with
  | some (_, .ret none) => s!"{t}:ret:push"
  | some (_, .ret (some (.ptr none))) => s!"{t}:ret:pop=nil"
  | some (_, .ret (some (.data v))) => s!"{t}:ret:pop={v}"
  | _ => s!"{t}:ret:?"

def gLive (c : GCfg) (t : Nat) : Bool :=
  if h : t < c.rem.size then
    if gIsCrash (c.g.conf t) then false
    else if gIdle (c.g.conf t) then !(c.rem[t]).isEmpty
    else true
  else false

/-- the chain after a step whose access was `tk` -/
def gChain (chain : List Nat) (g' : GState) : Option Tok → List Nat
  | some ⟨true, .next x, .bool true⟩ =>
    match g'.mem.next x with
    | some n => chain ++ [n]
    | none => chain
  | _ => chain

def gTau (c : GCfg) (t : Nat) : GCfg × List String :=
  let tk := (stepThread noPred c.g.mem (c.g.conf t)).bind (·.tok)
  let tok := s!"{t}:{gTok c.chain tk}"
  let g' := gstep c.g (.tau t)
  let extra :=
    if gIdle (g'.conf t) then [gRetTok t g']
    else match g'.conf t with
      | .crash => [s!"{t}:crash"]
      | .stuck => [s!"{t}:stuck"]
      | _ => []
  ({ c with g := g', chain := gChain c.chain g' tk }, tok :: extra)

def gStepTid (c : GCfg) (t : Nat) : GCfg × List String :=
  if !gLive c t then (c, [s!"{t}:skip"])
  else if gIdle (c.g.conf t) then
    match c.rem[t]! with
    | [] => (c, [s!"{t}:skip"])
    | .push v :: rest => ({ c with g := gstep c.g (.invPush t v), rem := c.rem.set! t rest }, [s!"{t}:inv:push:{v}"])
    | .pop :: rest => ({ c with g := gstep c.g (.invPop t), rem := c.rem.set! t rest }, [s!"{t}:inv:pop"])
  else gTau c t

def gFirstLive (c : GCfg) : Option Nat := (List.range c.rem.size).find? (gLive c)

def gDrain (c : GCfg) : Nat → List String → GCfg × List String
  | 0, acc => (c, acc ++ ["stuck"])
  | fuel + 1, acc =>
    match gFirstLive c with
    | none => (c, acc)
    | some t =>
      let (c', toks) := gStepTid c t
      gDrain c' fuel (acc ++ toks)

def gFinalTok (c : GCfg) : String :=
  let vals := c.chain.map (fun x => if x = 0 then "_" else toString (c.g.mem.val x))
  s!"final head={gVal c.chain (.ptr c.g.mem.head)} tail={gVal c.chain (.ptr c.g.mem.tail)} chain={",".intercalate vals}"

def gRestLoop (T : Nat) : Nat → GState → List String → List String
  | 0, _, acc => acc ++ ["stuck"]
  | fuel + 1, g, acc =>
    if gIdle (g.conf T) then
      let g' := gstep g (.invPop T)
      if gIdle (g'.conf T) then        -- a Pop that returns without any shared access (e.g. an empty translation)
        match g'.hist.getLast? with
        | some (_, .ret (some (.data v))) => gRestLoop T fuel g' (acc ++ [toString v])
        | _ => acc ++ ["nil"]
      else gRestLoop T fuel g' acc
    else if gIsCrash (g.conf T) then acc ++ ["crash"]
    else
      let g' := gstep g (.tau T)
      if gIdle (g'.conf T) then
        match g'.hist.getLast? with
        | some (_, .ret (some (.data v))) => gRestLoop T fuel g' (acc ++ [toString v])
        | _ => acc ++ ["nil"]
      else if gIsCrash (g'.conf T) then acc ++ ["crash"]
      else gRestLoop T fuel g' acc

def gRestTok (c : GCfg) : String :=
  s!"rest={",".intercalate (gRestLoop c.rem.size drainCap c.g [])}"

def gRunSched (c : GCfg) (sched : List Nat) : GCfg × List String :=
  sched.foldl (fun (acc : GCfg × List String) t =>
    let (c', toks) := gStepTid acc.1 t
    (c', acc.2 ++ toks)) (c, [])

def gSoloRun (c : GCfg) (t : Nat) : Nat → Nat → List String → GCfg × Nat × Bool × List String
  | 0, k, acc => (c, k, false, acc)
  | fuel + 1, k, acc =>
    if gIdle (c.g.conf t) then (c, k, true, acc)
    else if gIsCrash (c.g.conf t) then (c, k, false, acc)
    else
      let (c', toks) := gStepTid c t
      gSoloRun c' t fuel (k + 1) (acc ++ toks)

def runLine (line : String) : String :=
  if line.startsWith "stress " then "stress not-modelled" else
  match line.splitOn " | " with
  | progS :: schedS :: rest =>
    match words progS, words schedS with
    | "prog" :: pw, "sched" :: sw =>
      match parseProg pw, sw.mapM parseNat? with
      | some prog, some sched =>
        let (c1, toks1) := gRunSched { g := genInit, rem := prog, chain := [0] } sched
        match rest with
        | [] =>
          let (c2, toks2) := gDrain c1 drainCap []
          joinSp toks1 ++ " / " ++ joinSp toks2 ++ " | " ++ gFinalTok c2 ++ " " ++ gRestTok c2
        | soloS :: _ =>
          match words soloS with
          | ["solo", ts] =>
            match parseNat? ts with
            | some t =>
              if gIdle (c1.g.conf t) || gIsCrash (c1.g.conf t) then
                joinSp toks1 ++ s!" | solo {t} notbusy"
              else
                let (_, k, returned, toks2) := gSoloRun c1 t soloCap 0 []
                let r := if returned then "returned" else "spinning"
                joinSp toks1 ++ s!" | solo {t} steps={k} {r} : " ++ joinSp toks2
            | none => "bad-solo"
          | _ => "bad-solo"
      | _, _ => "bad-line"
    | _, _ => "bad-line"
  | _ => if line.trimAscii.isEmpty then "" else "bad-line"

end Ast

/-! ### exploration of the reachable state graph of a configuration -/

def showPc : Pc → String
  | .idle => "i"
  | .crash => "X"
  | .p1 n => s!"p1.{n}"
  | .p2 n tl => s!"p2.{n}.{tl}"
  | .p3 n tl nx => s!"p3.{n}.{tl}.{nx}"
  | .p4 n tl => s!"p4.{n}.{tl}"
  | .p4h n tl x => s!"p4h.{n}.{tl}.{x}"
  | .p5 n tl => s!"p5.{n}.{tl}"
  | .d1 => "d1"
  | .d2 hd => s!"d2.{hd}"
  | .d3 hd tl => s!"d3.{hd}.{tl}"
  | .d4 hd tl nx => s!"d4.{hd}.{tl}.{nx}"
  | .d5h hd tl x => s!"d5h.{hd}.{tl}.{x}"
  | .d5 hd x v => s!"d5.{hd}.{x}.{v}"

/-- canonical rendering of the non-ghost state + program positions. -/
def key (c : Cfg) : String :=
  let s := c.s
  let heap := (List.range s.nalloc).map (fun x => s!"{s.val x}>{s.next x}")
  let ths := (List.range c.rem.size).map (fun t => s!"{showPc (s.pc t)}/{(c.rem[t]!).length}")
  s!"{s.head} {s.tail} {heap} {ths}"

structure Graph where
  cfgs : Array Cfg := #[]
  parent : Array (Nat × Nat) := #[]           -- (parent state, tid); root: (0, 0)
  edges : Array (Array (Nat × Nat)) := #[]    -- per state: (tid, destination)
  index : Std.HashMap String Nat := {}

partial def bfs (g : Graph) (i : Nat) : Graph :=
  if h : i < g.cfgs.size then
    let c := g.cfgs[i]
    let ts := (List.range c.rem.size).filter (live c)
    let (g, es) := ts.foldl (fun (acc : Graph × Array (Nat × Nat)) t =>
      let (g, es) := acc
      let (c', _) := stepTid c t
      let k := key c'
      match g.index[k]? with
      | some j => (g, es.push (t, j))
      | none =>
        let j := g.cfgs.size
        ({ g with cfgs := g.cfgs.push c', parent := g.parent.push (i, t), edges := g.edges.push #[],
                  index := g.index.insert k j }, es.push (t, j))) (g, #[])
    bfs { g with edges := g.edges.set! i es } (i + 1)
  else g

def explore (prog : Array (List OpK)) : Graph :=
  let c := initCfg prog
  bfs { cfgs := #[c], parent := #[(0, 0)], edges := #[#[]], index := ({} : Std.HashMap String Nat).insert (key c) 0 } 0

partial def pathTo (g : Graph) (i : Nat) (acc : List Nat) : List Nat :=
  if i = 0 then acc
  else
    let (p, t) := g.parent[i]!
    pathTo g p (t :: acc)

def showProg (prog : Array (List OpK)) : String :=
  let th (i : Nat) (ops : List OpK) : String :=
    s!"{i}:" ++ ",".intercalate (ops.map (fun | .push v => s!"push{v}" | .pop => "pop"))
  joinSp ((List.range prog.size).map (fun i => th i prog[i]!))

/-- walk along uncovered edges from state `i` until a state without uncovered out-edge. -/
partial def walk (g : Graph) (cov : Array (Array Bool)) (i : Nat) (acc : List Nat) : Array (Array Bool) × List Nat :=
  let es := g.edges[i]!
  let cv := cov[i]!
  match (List.range es.size).find? (fun k => !cv[k]!) with
  | none => (cov, acc.reverse)
  | some k =>
    let (t, j) := es[k]!
    walk g (cov.set! i (cv.set! k true)) j (t :: acc)

partial def emitC01 (out : IO.FS.Stream) (g : Graph) (progS : String) (stride : Nat) : IO Nat := do
  let mut cov : Array (Array Bool) := g.edges.map (fun es => es.map (fun _ => false))
  let mut n := 0
  for i in [0:g.cfgs.size] do
    let mut more := true
    while more do
      let cv := cov[i]!
      if (List.range cv.size).any (fun k => !cv[k]!) then
        let (cov', w) := walk g cov i []
        cov := cov'
        if n % stride = 0 then
          out.putStrLn s!"prog {progS} | sched {joinSp ((pathTo g i [] ++ w).map toString)}"
        n := n + 1
      else more := false
  return n

def emitC02 (out : IO.FS.Stream) (g : Graph) (progS : String) (stride : Nat) : IO Nat := do
  let mut n := 0
  for i in [0:g.cfgs.size] do
    let c := g.cfgs[i]!
    for t in [0:c.rem.size] do
      if !isIdle (c.s.pc t) && !isCrash (c.s.pc t) then
        if n % stride = 0 then
          out.putStrLn s!"prog {progS} | sched {joinSp ((pathTo g i []).map toString)} | solo {t}"
        n := n + 1
  return n

def main (args : List String) : IO Unit := do
  let out ← IO.getStdout
  match args with
  | ["run"] => lineLoop (← IO.getStdin) out (fun (_ : Unit) l => ((), runLine l)) ()
  | ["ast"] => lineLoop (← IO.getStdin) out (fun (_ : Unit) l => ((), Ast.runLine l)) ()
  | "explore" :: mode :: stride :: pw =>
    match parseProg pw, parseNat? stride with
    | some prog, some st =>
      let g := explore prog
      let st := if st = 0 then 1 else st
      let n ← if mode = "c02" then emitC02 out g (showProg prog) st else emitC01 out g (showProg prog) st
      let ne := g.edges.foldl (fun a es => a + es.size) 0
      IO.eprintln s!"states={g.cfgs.size} transitions={ne} lines={n}"
      out.flush
    | _, _ => IO.eprintln "bad program"; IO.Process.exit 2
  | "stats" :: pw =>
    match parseProg pw with
    | some prog =>
      let g := explore prog
      let ne := g.edges.foldl (fun a es => a + es.size) 0
      out.putStrLn s!"states={g.cfgs.size} transitions={ne}"
    | none => IO.eprintln "bad program"; IO.Process.exit 2
  | _ => IO.eprintln "usage: drv_msqueue run | ast | explore c01|c02 <stride> <prog…> | stats <prog…>"; IO.Process.exit 2

end Got.Drv.MSQueue
