import Got.Drv.Common
/- driver for the ants model family (properties C07, C08): to be written -/
namespace Got.Drv.Ants

def main (_args : List String) : IO Unit := do
  IO.eprintln "drv_ants: not implemented"

end Got.Drv.Ants
